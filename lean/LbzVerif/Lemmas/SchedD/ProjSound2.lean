/-
  Soundness of the counter / queue-size projection rules (`Proj.lean`) for the
  SchedD model, part 2: every transition of the model satisfies the rule the
  hook traces of the real program are checked against (`proj_sound`), and the
  task the model selects is selectable on the projection (`select_selectable`).
-/
import LbzVerif.Lemmas.SchedD.ProjSound

namespace LbzVerif.Lemmas.SchedD
open LbzVerif.Model.SchedD LbzVerif.Gen

namespace ProjSound

macro "head_open" : tactic =>
  `(tactic| (unfold headOk; simp only [String.reduceEq, ↓reduceIte, Bool.and_eq_true,
      decide_eq_true_eq, beq_iff_eq, Bool.not_eq_true']))

/-! ### reader, writer -/

theorem ok_rTake {c : Cfg} {s s' : State} (hs : stepRTake s = some s') :
    (proj c s' == proj c s) = true := by
  unfold stepRTake at hs; split at hs <;> simp only [Option.some.injEq, reduceCtorEq] at hs
  subst hs; exact beq_iff_eq.2 rfl

theorem ok_rQuit {c : Cfg} {s s' : State} (hs : stepRQuit s = some s') :
    (proj c s' == proj c s) = true := by
  unfold stepRQuit at hs; split at hs <;> simp only [Option.some.injEq, reduceCtorEq] at hs
  subst hs; exact beq_iff_eq.2 rfl

theorem ok_rEmpty {c : Cfg} {s s' : State} (hs : stepREmpty c s = some s') :
    (proj c s' == proj c s) = true := by
  unfold stepREmpty at hs; split at hs <;> simp only [Option.some.injEq, reduceCtorEq] at hs
  subst hs; exact beq_iff_eq.2 rfl

theorem rule_reader_same {p q : Proj} (e : q = p) : tailOk "reader" p q = true := by
  subst e; rule_open; exact Or.inl (Or.inl trivial)

theorem rule_reader_eof {p q : Proj} (e : q = { p with eof := true }) :
    tailOk "reader" p q = true := by
  subst e; rule_open; exact Or.inl (Or.inr trivial)

theorem rule_reader_block {p q : Proj} {t : Nat} (ht : p.tail < t)
    (e : q = { p with inq := p.inq + 1, scan := p.scan + 1, tail := t }) :
    tailOk "reader" p q = true := by
  subst e; rule_open; exact Or.inr ⟨ht, trivial⟩

theorem ok_rEof {c : Cfg} {s s' : State} (hs : stepREof s = some s') :
    tailOk "reader" (proj c s) (proj c s') = true := by
  unfold stepREof at hs; split at hs <;> simp only [Option.some.injEq, reduceCtorEq] at hs
  subst hs; exact rule_reader_eof rfl

theorem ok_rBlock {c : Cfg} {s s' : State} (hW : 0 < c.W) (hr : s.head ≤ s.rd)
    (hrn : s.pdone = false → s.rd = s.nread) (hs : stepRBlock c s = some s') :
    tailOk "reader" (proj c s) (proj c s') = true := by
  unfold stepRBlock at hs; split at hs
  · next hg =>
    simp only [Bool.and_eq_true, beq_iff_eq, decide_eq_true_eq] at hg
    dsimp only at hs
    split at hs
    · simp only [Option.some.injEq] at hs; subst hs
      exact rule_reader_same rfl
    · next hpd =>
      simp only [Option.some.injEq] at hs; subst hs
      have e1 : s.rd = s.nread := hrn (by simpa using hpd)
      have ht : offs c s.rd < offs c (s.rd + 1) := by
        unfold offs
        have := hg.2
        rw [← e1] at this
        rw [Nat.add_mul, Nat.one_mul]
        omega
      refine rule_reader_block (t := offs c (s.rd + 1)) ht ?_
      unfold proj unordSize headOffs tailOffs; dsimp only
      simp only [List.length_cons, Proj.mk.injEq, true_and, and_true]
      omega
  · simp at hs

theorem ok_wDone {c : Cfg} {s s' : State} (hs : stepWDone s = some s') :
    tailOk "writer" (proj c s) (proj c s') = true := by
  unfold stepWDone at hs; split at hs <;> simp only [Option.some.injEq, reduceCtorEq] at hs
  subst hs
  rule_open
  rfl

/-! ### `do_reorder` -/

theorem ok_reorder {c : Cfg} {s s' : State} {ob : OB} (hs : stepReorder c s ob = some s')
    (hf : s'.failed = false) : reorderOk (proj c s) (proj c s') = true := by
  unfold stepReorder at hs; split at hs
  · next hg =>
    simp only [Bool.and_eq_true, List.contains_iff_mem] at hg
    have hm : ob ∈ s.reordQ := hg.1.2
    have hl := List.length_erase_of_mem hm
    have hpos : 0 < (proj c s).reord := List.length_pos_of_mem hm
    unfold reorderOk
    simp only [Bool.and_eq_true, Bool.or_eq_true, decide_eq_true_eq, beq_iff_eq]
    refine ⟨hpos, ?_⟩
    split at hs
    · simp only [Option.some.injEq] at hs; subst hs
      refine Or.inl (Or.inl ?_)
      unfold proj unordSize headOffs tailOffs; dsimp only
      rw [hl]
    · split at hs
      · simp only [Option.some.injEq] at hs; subst hs
        simp at hf
      · simp only [Option.some.injEq] at hs; subst hs
        refine Or.inl (Or.inr ?_)
        unfold proj unordSize headOffs tailOffs; dsimp only
        rw [hl]
        cases s.orderQ with
        | nil => rfl
        | cons x r => obtain ⟨b, i⟩ := x; rfl
      · simp only [Option.some.injEq] at hs; subst hs
        cases ho : s.orderQ with
        | nil =>
          refine Or.inl (Or.inr ?_)
          unfold proj unordSize headOffs tailOffs; dsimp only
          rw [hl, ho]; rfl
        | cons x r =>
          refine Or.inr ⟨by show 0 < s.orderQ.length; rw [ho]; simp, ?_⟩
          unfold proj unordSize headOffs tailOffs; dsimp only
          rw [hl, ho]; rfl
  · simp at hs

/-! ### the sections that start a task -/

theorem ok_parseStart {c : Cfg} {s s' : State} (hs : stepParseStart c s = some s') :
    headOk "parse" (proj c s) (proj c s') = true := by
  unfold stepParseStart at hs; split at hs
  · next hg =>
    simp only [Bool.and_eq_true, beq_iff_eq] at hg
    obtain ⟨⟨_, hsel⟩, _⟩ := hg
    have hw := select_parse_wu hsel
    obtain ⟨h1, h2⟩ := select_parse hsel
    simp only [Option.some.injEq] at hs; subst hs
    head_open
    exact ⟨⟨⟨h1, h2⟩, hw⟩, rfl⟩
  · simp at hs

theorem countP_cons_if {α} (p : α → Bool) (a : α) (l : List α) :
    (a :: l).countP p = l.countP p + (if p a then 1 else 0) := List.countP_cons

theorem ok_retrStart {c : Cfg} {s s' : State} {j : Job} (hs : stepRetrStart c s j = some s') :
    headOk "retrieve" (proj c s) (proj c s') = true := by
  unfold stepRetrStart at hs; split at hs
  · next hg =>
    simp only [Bool.and_eq_true, List.contains_iff_mem] at hg
    have hj : j ∈ s.retrQ := hg.1.2
    have hl := List.length_erase_of_mem hj
    have hc := countP_erase_add Job.inq hj
    simp only [Option.some.injEq] at hs; subst hs
    head_open
    refine ⟨List.length_pos_of_mem hj, ?_⟩
    unfold proj unordSize headOffs tailOffs; dsimp only
    rw [hl, countP_cons_if]
    have e : ∀ (x : Bool) (k : Option Nat),
        Phase.inq (.retr { j with corrupt := x } k) = j.inq := fun _ _ => rfl
    rw [e]
    simp only [Proj.mk.injEq, true_and, and_true]
    omega
  · simp at hs

theorem ok_emitStart {c : Cfg} {s s' : State} {e : EJob} (hs : stepEmitStart c s e = some s') :
    headOk "emit" (proj c s) (proj c s') = true := by
  unfold stepEmitStart at hs; split at hs
  · next hg =>
    simp only [Bool.and_eq_true, List.contains_iff_mem, beq_iff_eq] at hg
    have hm : e ∈ s.emitQ := hg.1.2
    have ho := select_emit_os hg.1.1.2
    have hl := List.length_erase_of_mem hm
    simp only [Option.some.injEq] at hs; subst hs
    head_open
    refine ⟨⟨List.length_pos_of_mem hm, ho⟩, ?_⟩
    unfold proj unordSize headOffs tailOffs; dsimp only
    rw [hl]; rfl
  · simp at hs

theorem ok_scanStart {c : Cfg} {s s' : State} {sp : Nat} (hs : stepScanStart c s sp = some s') :
    headOk "scan" (proj c s) (proj c s') = true := by
  unfold stepScanStart at hs; split at hs
  · next hg =>
    simp only [Bool.and_eq_true, List.contains_iff_mem, beq_iff_eq] at hg
    have hm : sp ∈ s.scanQ := hg.1.2
    have hw := select_scan_wu hg.1.1.2
    have hl := List.length_erase_of_mem hm
    simp only [Option.some.injEq] at hs; subst hs
    head_open
    refine ⟨⟨List.length_pos_of_mem hm, hw⟩, ?_⟩
    unfold proj unordSize headOffs tailOffs; dsimp only
    rw [hl]; rfl
  · simp at hs

/-! ### the sections that end a task phase -/

theorem ok_retrPost {c : Cfg} {s s' : State} {e : EJob} (hs : stepRetrPost s e = some s') :
    tailOk "retr2" (proj c s) (proj c s') = true := by
  unfold stepRetrPost at hs; split at hs
  · next hg =>
    have hm : Phase.retr2 e ∈ s.busy := by simpa using hg
    have hu := unordSize_erase_busy hm
    simp only [Option.some.injEq] at hs; subst hs
    rule_open
    have e1 : unordSize { s with busy := s.busy.erase (.retr2 e), emitQ := e :: s.emitQ }
        = unordSize { s with busy := s.busy.erase (.retr2 e) } := rfl
    have e2 : unordSize { s with busy := s.busy.erase (.retr2 e) } = unordSize s := by
      simpa [Phase.inq] using hu
    unfold proj; dsimp only
    rw [e1, e2]; rfl
  · simp at hs

theorem ok_emitEnd {c : Cfg} {s s' : State} {e : EJob} (hs : stepEmitEnd s e = some s') :
    tailOk "emit" (proj c s) (proj c s') = true := by
  unfold stepEmitEnd at hs; split at hs
  · next hg =>
    have hm : Phase.emit e ∈ s.busy := by simpa using hg
    have hu := unordSize_erase_busy hm
    have e2 : unordSize { s with busy := s.busy.erase (.emit e) } = unordSize s := by
      simpa [Phase.inq] using hu
    dsimp only at hs
    split at hs
    · simp only [Option.some.injEq] at hs; subst hs
      rule_open
      refine Or.inl ?_
      have e1 : ∀ (eq : List EJob) (rq : List OB),
          unordSize { s with busy := s.busy.erase (.emit e), emitQ := eq, reordQ := rq }
          = unordSize { s with busy := s.busy.erase (.emit e) } := fun _ _ => rfl
      unfold proj; dsimp only
      rw [e1, e2]; rfl
    · simp only [Option.some.injEq] at hs; subst hs
      rule_open
      refine Or.inr ?_
      have e1 : ∀ (w : Nat) (rq : List OB),
          unordSize { s with busy := s.busy.erase (.emit e), wu := w, reordQ := rq }
          = unordSize { s with busy := s.busy.erase (.emit e) } := fun _ _ => rfl
      unfold proj; dsimp only
      rw [e1, e2]; rfl
  · simp at hs

theorem rule_scan {p q : Proj} (a : Bool)
    (e : q = (if a then { p with wu := p.wu + 1 }
              else { p with unord := p.unord + 1, retr := p.retr + 1 })
         ∨ q = (if a then { p with wu := p.wu + 1, scan := p.scan + 1 }
              else { p with unord := p.unord + 1, retr := p.retr + 1, scan := p.scan + 1 })) :
    tailOk "scan" p q = true := by
  rule_open
  cases a
  · rcases e with e | e
    · exact Or.inl (Or.inr (by simpa using e))
    · exact Or.inr (by simpa using e)
  · rcases e with e | e
    · exact Or.inl (Or.inl (Or.inl (by simpa using e)))
    · exact Or.inl (Or.inl (Or.inr (by simpa using e)))

theorem proj_scanNew (c : Cfg) (s1 : State) (x : Nat) :
    proj c (scanNew c s1 x) =
      (if decide (x ≤ s1.ppos ∨ x < headOffs c s1) then { proj c s1 with wu := (proj c s1).wu + 1 }
       else { proj c s1 with unord := (proj c s1).unord + 1, retr := (proj c s1).retr + 1 }) := by
  unfold scanNew
  split
  · next h => simp only [h, decide_true, if_true]; rfl
  · next h =>
    simp only [h, decide_false, Bool.false_eq_true, if_false]
    unfold proj unordSize headOffs tailOffs; dsimp only
    rw [countP_cons_if]
    simp only [Job.inq, List.length_cons, if_true, Proj.mk.injEq, true_and, and_true]
    omega

theorem ok_scanEnd {c : Cfg} {s s' : State} {st k : Nat} (hs : stepScanEnd c s st k = some s') :
    tailOk "scan" (proj c s) (proj c s') = true := by
  unfold stepScanEnd at hs; split at hs
  · next hg =>
    have hm : Phase.scan st k ∈ s.busy := by simpa using hg
    have hu := unordSize_erase_busy hm
    have e0 : proj c (detach { s with busy := s.busy.erase (.scan st k) } (some k)) = proj c s := by
      rw [proj_detach]
      have e2 : unordSize { s with busy := s.busy.erase (.scan st k) } = unordSize s := by
        simpa [Phase.inq] using hu
      unfold proj; dsimp only
      rw [e2]; rfl
    dsimp only at hs
    generalize detach { s with busy := s.busy.erase (.scan st k) } (some k) = s1 at *
    rw [← e0]
    split at hs
    · simp only [Option.some.injEq] at hs; subst hs
      exact rule_scan true (Or.inl rfl)
    · split at hs
      · simp only [Option.some.injEq] at hs; subst hs
        exact rule_scan true (Or.inl rfl)
      · next x _ _ =>
        simp only [Option.some.injEq] at hs; subst hs
        have e1 := proj_scanNew c s1 x
        refine rule_scan (decide (x ≤ s1.ppos ∨ x < headOffs c s1)) ?_
        unfold scanRequeue
        generalize scanNew c s1 x = s2 at *
        split
        · refine Or.inr ?_
          have : proj c { s2 with scanQ := x :: s2.scanQ }
              = { proj c s2 with scan := (proj c s2).scan + 1 } := rfl
          rw [this, e1]
          split <;> rfl
        · exact Or.inl e1
  · simp at hs

theorem ok_retrEnd {c : Cfg} {s s' : State} {j : Job} {k : Option Nat} (hsi : SI c s)
    (hai : AI c s) (hs : stepRetrEnd c s j k = some s') :
    tailOk "retrieve" (proj c s) (proj c s') = true := by
  unfold stepRetrEnd at hs; split at hs
  · next hg =>
    have hm : Phase.retr j k ∈ s.busy := by simpa using hg
    have hl := left_retr (c := c) hm
    have hjok : jobOK c s.gnext j := hsi.busy _ hm
    have hmi : j.master = true → j.inq = false := master_not_inq hjok
    have hcur : j.curr ≤ retrNewc c j k := by
      unfold retrNewc; split
      · exact Nat.le_max_left _ _
      · exact Nat.le_refl _
    have hh : headOffs c (detach { s with busy := s.busy.erase (.retr j k) } k) = headOffs c s :=
      congrArg Proj.head (proj_detach c { s with busy := s.busy.erase (.retr j k) } k)
    dsimp only at hs
    generalize detach { s with busy := s.busy.erase (.retr j k) } k = s1 at *
    split at hs
    · simp only [Option.some.injEq] at hs; subst hs; exact ok_retrExit hl j
    · split at hs
      · simp only [Option.some.injEq] at hs; subst hs; exact ok_retrExit hl j
      · next hred =>
        split at hs
        · split at hs
          · next hlt =>
            simp only [Option.some.injEq] at hs; subst hs
            refine ok_retrOvertaken hl ?_ hlt _
            intro hmas
            have hmc := master_mc hmas (by simpa using hred)
            have := hai.mh j k hm hmc
            omega
          · simp only [Option.some.injEq] at hs; subst hs
            exact ok_retrMore hl hmi
        · simp only [Option.some.injEq] at hs; subst hs
          exact ok_retrDone hl hmi
  · simp at hs

theorem ok_parseEnd {c : Cfg} {s s' : State} (hsi : SI c s) (hs : stepParseEnd c s = some s')
    (hf : s'.failed = false) : tailOk "parse" (proj c s) (proj c s') = true := by
  unfold stepParseEnd at hs; split at hs
  · simp at hs
  · next k hk =>
    have hpt : s.ptok = false := by
      cases h : s.ptok with
      | false => rfl
      | true => have := hsi.excl h; rw [hk] at this; cases this
    have e0 : proj c (detach { s with pphase := none } k) = proj c s := by
      rw [proj_detach]; rfl
    have hpt1 : (detach { s with pphase := none } k).ptok = false :=
      (congrArg Proj.pt e0).trans hpt
    dsimp only at hs
    generalize detach { s with pphase := none } k = s1 at *
    rw [← e0]
    split at hs
    · simp only [Option.some.injEq] at hs; subst hs; exact ok_parseMore c s1 k
    · simp only [Option.some.injEq] at hs; subst hs
      generalize pres c s.porig = r at *
      cases r with
      | err u => simp [parseVerdict] at hf
      | finish u ok =>
        cases ok with
        | false => simp [parseVerdict] at hf
        | true =>
          simp only [parseVerdict, Bool.not_true, Bool.false_eq_true, if_false]
          exact ok_parseFinish c s1 u
      | hdr b => simp only [parseVerdict]; exact ok_parseOk b hpt1

end ProjSound

open ProjSound

/-- **the projection rules are sound for the model**: every transition of a
    reachable state satisfies the rule a hook trace of the real program is
    checked against (`schedd-accept`).  `0 < c.W` (non-empty input blocks) is
    needed for `rBlock` only: the rule asks `tail_offs` to grow strictly. -/
theorem proj_sound {c : Cfg} {s s' : State} {l : Label} (hW : 0 < c.W) (h : Reach c s)
    (hs : step c s l = some s') : projStepOk c s l s' = true := by
  have hf0 := step_not_failed hs
  unfold projStepOk
  cases hf : s'.failed with
  | true => simp
  | false =>
    simp only [Bool.false_eq_true, if_false]
    have hsi : SI c s := by
      have := good_reach h; unfold Good at this; rw [hf0] at this; simpa using this
    have hai := ai_reach h
    have hri := ri_reach h
    unfold step at hs; rw [hf0] at hs
    simp only [Bool.false_eq_true, if_false] at hs
    cases l with
    | rTake => exact ok_rTake hs
    | rQuit => exact ok_rQuit hs
    | rBlock => exact ok_rBlock hW hai.hr hri.rn hs
    | rEmpty => exact ok_rEmpty hs
    | rEof => exact ok_rEof hs
    | wDone => exact ok_wDone hs
    | reorder ob => exact ok_reorder hs hf
    | parseStart => exact ok_parseStart hs
    | parseEnd => exact ok_parseEnd hsi hs hf
    | retrStart j => exact ok_retrStart hs
    | retrEnd j k => exact ok_retrEnd hsi hai hs
    | retrPost e => exact ok_retrPost hs
    | emitStart e => exact ok_emitStart hs
    | emitEnd e => exact ok_emitEnd hs
    | scanStart sp => exact ok_scanStart hs
    | scanEnd st k => exact ok_scanEnd hs

/-- without the hypothesis on `c.W`: every transition but `rBlock` -/
theorem proj_sound_noW {c : Cfg} {s s' : State} {l : Label} (hl : l ≠ .rBlock) (h : Reach c s)
    (hs : step c s l = some s') : projStepOk c s l s' = true := by
  have hf0 := step_not_failed hs
  unfold projStepOk
  cases hf : s'.failed with
  | true => simp
  | false =>
    simp only [Bool.false_eq_true, if_false]
    have hsi : SI c s := by
      have := good_reach h; unfold Good at this; rw [hf0] at this; simpa using this
    have hai := ai_reach h
    unfold step at hs; rw [hf0] at hs
    simp only [Bool.false_eq_true, if_false] at hs
    cases l with
    | rTake => exact ok_rTake hs
    | rQuit => exact ok_rQuit hs
    | rBlock => exact absurd rfl hl
    | rEmpty => exact ok_rEmpty hs
    | rEof => exact ok_rEof hs
    | wDone => exact ok_wDone hs
    | reorder ob => exact ok_reorder hs hf
    | parseStart => exact ok_parseStart hs
    | parseEnd => exact ok_parseEnd hsi hs hf
    | retrStart j => exact ok_retrStart hs
    | retrEnd j k => exact ok_retrEnd hsi hai hs
    | retrPost e => exact ok_retrPost hs
    | emitStart e => exact ok_emitStart hs
    | emitEnd e => exact ok_emitEnd hs
    | scanStart sp => exact ok_scanStart hs
    | scanEnd st k => exact ok_scanEnd hs

/-! ### `select_task()` on the projection -/

namespace ProjSound

/-- any seven Booleans are the low bits of some `x < 128` -/
theorem bits_exist (b0 b1 b2 b3 b4 b5 b6 : Bool) :
    ∃ x, x < 128 ∧ bit x 0 = b0 ∧ bit x 1 = b1 ∧ bit x 2 = b2 ∧ bit x 3 = b3 ∧ bit x 4 = b4 ∧
      bit x 5 = b5 ∧ bit x 6 = b6 := by
  refine ⟨b0.toNat + 2 * b1.toNat + 4 * b2.toNat + 8 * b3.toNat + 16 * b4.toNat + 32 * b5.toNat
    + 64 * b6.toNat, ?_⟩
  cases b0 <;> cases b1 <;> cases b2 <;> cases b3 <;> cases b4 <;> cases b5 <;> cases b6 <;> decide

theorem len_isEmpty {α} (l : List α) : (l.length == 0) = l.isEmpty := by cases l <;> rfl

end ProjSound

/-- **the task the model selects is selectable on the projection**: for some
    value of the seven position comparisons the projection cannot see,
    `select_task()` evaluated on the counters picks what the model picks. -/
theorem select_selectable (c : Cfg) (s : State) :
    selectable c.n c.totalOut c.ultra (proj c s) (selectTask c s) = true := by
  obtain ⟨x, hx, h0, h1, h2, h3, h4, h5, h6⟩ := bits_exist
    (view c s).parserCanAttach (view c s).retrHeadCanAttach (view c s).scanHeadCanAttach
    (view c s).emitHeadEqOrderHead (view c s).emitHeadLeOrderHead
    (view c s).reordHeadLeOrderHead (view c s).reordHeadLtOrderHead
  have hv : viewP c.n c.totalOut c.ultra (proj c s) x = view c s := by
    unfold viewP
    rw [h0, h1, h2, h3, h4, h5, h6]
    unfold view proj; dsimp only
    simp only [len_isEmpty]
  unfold selectable
  rw [List.any_eq_true]
  refine ⟨x, List.mem_range.2 hx, ?_⟩
  unfold selectP selectTask
  rw [hv]
  exact beq_self_eq_true _

/-! ### `0 < c.W` cannot be dropped from `proj_sound` -/

/-- empty input blocks: `rBlock` pushes a block without moving `tail_offs` -/
def cfgW0 : Cfg :=
  { n := 1, W := 0, T := 1, totalIn := 1, totalOut := 3, ultra := false,
    parseAt := fun _ => .err 0, retrieveFrom := fun _ => ⟨false, 0, 1, false⟩, cand := [] }

example : ∃ s s', Reach cfgW0 s ∧ step cfgW0 s .rBlock = some s' ∧
    projStepOk cfgW0 s .rBlock s' = false := by
  let s1 : State := { init cfgW0 with inSlots := 0, rph := .hold }
  have h1 : step cfgW0 (init cfgW0) .rTake = some s1 := by decide
  exact ⟨s1, _, Reach.step .rTake Reach.init h1, rfl, by decide⟩

end LbzVerif.Lemmas.SchedD
