/-
  "Every block position has at most one producer", part 2: the tails of
  `do_retrieve` and `do_parse`, and the theorem `ui_reach`.
-/
import LbzVerif.Lemmas.SchedD.Uniq

namespace LbzVerif.Lemmas.SchedD
open LbzVerif.Model.SchedD LbzVerif.Gen
open Uniq

/-! ### a finished retrieve job becomes an emit job (and an orphan) -/

theorem EIn_busy_cons_retr2 {s s' : State} {ej : EJob} (e1 : s'.emitQ = s.emitQ)
    (e2 : s'.busy = .retr2 ej :: s.busy) : ∀ e, EIn s' e → e = ej ∨ EIn s e := by
  rintro e (he | he | he)
  · exact Or.inr (Or.inl (e1 ▸ he))
  · rw [e2] at he
    rcases List.mem_cons.1 he with e' | hm
    · injection e' with e''; exact Or.inl e''
    · exact Or.inr (Or.inr (Or.inl hm))
  · rw [e2] at he
    rcases List.mem_cons.1 he with e' | hm
    · cases e'
    · exact Or.inr (Or.inr (Or.inr hm))

theorem ItemBase_busy_cons_retr2 {s s' : State} {ej : EJob} (e1 : s'.emitQ = s.emitQ)
    (e2 : s'.busy = .retr2 ej :: s.busy) (e3 : s'.reordQ = s.reordQ) :
    ∀ y, ItemBase s' y → y = ej.base ∨ ItemBase s y := by
  rintro y (⟨e, he, rfl⟩ | ⟨o, ho, rfl⟩)
  · rcases EIn_busy_cons_retr2 e1 e2 e he with rfl | he
    · exact Or.inl rfl
    · exact Or.inr (Or.inl ⟨e, he, rfl⟩)
  · exact Or.inr (Or.inr ⟨o, e3 ▸ ho, rfl⟩)

theorem JIn_busy_cons_retr2 {s s' : State} {ej : EJob} (e1 : s'.retrQ = s.retrQ)
    (e2 : s'.busy = .retr2 ej :: s.busy) : ∀ j, JIn s' j → JIn s j := by
  rintro j (hj | ⟨k, hk⟩)
  · exact Or.inl (e1 ▸ hj)
  · rw [e2] at hk
    rcases List.mem_cons.1 hk with e' | hm
    · cases e'
    · exact Or.inr ⟨k, hm⟩

theorem scan_busy_cons_retr2 {s s' : State} {ej : EJob} (e2 : s'.busy = .retr2 ej :: s.busy) :
    ∀ st k, Phase.scan st k ∈ s'.busy → Phase.scan st k ∈ s.busy := by
  intro st k hk
  rw [e2] at hk
  rcases List.mem_cons.1 hk with e' | hm
  · cases e'
  · exact hm

/-- the master finished retrieving: the emit job appears at or before the
    parser position -/
theorem UU_doneMaster {c : Cfg} {s2 : State} (ej : EJob) (po : Nat) (h : UIB s2 ∧ UIT c s2)
    (fb : FreshB s2 ej.base) (hp : s2.pdone = false → ej.base ≤ s2.ppos) :
    UIB { s2 with ptok := true, porig := po, busy := .retr2 ej :: s2.busy } ∧
    UIT c { s2 with ptok := true, porig := po, busy := .retr2 ej :: s2.busy } := by
  obtain ⟨hB, hT⟩ := h
  have hjb : jobBases { s2 with ptok := true, porig := po, busy := .retr2 ej :: s2.busy }
      = jobBases s2 := by
    simp only [jobBases, List.flatMap_cons, Phase.jobBase, List.nil_append]
  have hJ := JIn_busy_cons_retr2 (s := s2)
    (s' := { s2 with ptok := true, porig := po, busy := .retr2 ej :: s2.busy }) (ej := ej) rfl rfl
  have hSc := scan_busy_cons_retr2 (s := s2)
    (s' := { s2 with ptok := true, porig := po, busy := .retr2 ej :: s2.busy }) (ej := ej) rfl
  have hsb : ∀ x, x ∈ specBases { s2 with ptok := true, porig := po, busy := .retr2 ej :: s2.busy } →
      x ∈ specBases s2 := by
    intro x hx
    rcases mem_specBases.1 hx with ⟨j, hj, hs, rfl⟩ | ho
    · exact mem_specBases.2 (Or.inl ⟨j, hJ j hj, hs, rfl⟩)
    · exact mem_specBases.2 (Or.inr ho)
  have hit := ItemBase_busy_cons_retr2 (s := s2)
    (s' := { s2 with ptok := true, porig := po, busy := .retr2 ej :: s2.busy }) (ej := ej) rfl rfl rfl
  refine ⟨⟨?_, ?_, ?_, ?_⟩, ⟨?_, ?_, ?_, ?_, ?_⟩⟩
  · show (jobBases { s2 with ptok := true, porig := po, busy := .retr2 ej :: s2.busy }
      ++ orphanBases s2).Nodup
    rw [hjb]; exact hB.u1
  · intro y hy hm
    rw [hjb] at hm
    rcases hit y hy with rfl | hy
    · exact fb.nj (List.mem_append.2 (Or.inl hm))
    · exact hB.u2 y hy hm
  · intro hd y hy
    rcases hit y hy with rfl | hy
    · exact Or.inl (hp hd)
    · exact hB.ib hd y hy
  · intro hd j hj f hf hi
    exact hB.nq hd j (hJ j hj) f hf hi
  · have : scanBlocks c { s2 with ptok := true, porig := po, busy := .retr2 ej :: s2.busy }
        = scanBlocks c s2 := by
      simp only [scanBlocks, List.flatMap_cons, Phase.scanBlock, List.nil_append]
    rw [this]; exact hT.t1
  · intro st k hm; exact hT.tb st k (hSc st k hm)
  · intro x hx sp hsp; exact hT.dq x (hsb x hx) sp hsp
  · intro x hx st k hm; exact hT.db x (hsb x hx) st k (hSc st k hm)
  · intro x hx; exact hT.ot x (hsb x hx)

/-- a speculative job finished retrieving: its unord_blk stays behind as an
    orphan with the same base, and that is where its emit job lives -/
theorem UU_doneSpec {c : Cfg} {s2 : State} (ej : EJob) (u : UB) (hb : u.base = ej.base)
    (h : UIB s2 ∧ UIT c s2) (fb : FreshB s2 ej.base) (ft : FreshT c s2 ej.base) :
    UIB { s2 with busy := .retr2 ej :: s2.busy, orphans := u :: s2.orphans } ∧
    UIT c { s2 with busy := .retr2 ej :: s2.busy, orphans := u :: s2.orphans } := by
  obtain ⟨hB, hT⟩ := h
  have hjb : jobBases { s2 with busy := .retr2 ej :: s2.busy, orphans := u :: s2.orphans }
      = jobBases s2 := by
    simp only [jobBases, List.flatMap_cons, Phase.jobBase, List.nil_append]
  have hob : orphanBases { s2 with busy := .retr2 ej :: s2.busy, orphans := u :: s2.orphans }
      = ej.base :: orphanBases s2 := by
    simp only [orphanBases, List.flatMap_cons, UB.baseL, List.cons_append, List.nil_append, hb]
  have hJ := JIn_busy_cons_retr2 (s := s2)
    (s' := { s2 with busy := .retr2 ej :: s2.busy, orphans := u :: s2.orphans }) (ej := ej) rfl rfl
  have hSc := scan_busy_cons_retr2 (s := s2)
    (s' := { s2 with busy := .retr2 ej :: s2.busy, orphans := u :: s2.orphans }) (ej := ej) rfl
  have hsb : ∀ x, x ∈ specBases { s2 with busy := .retr2 ej :: s2.busy, orphans := u :: s2.orphans } →
      x = ej.base ∨ x ∈ specBases s2 := by
    intro x hx
    rcases mem_specBases.1 hx with ⟨j, hj, hs, rfl⟩ | ho
    · exact Or.inr (mem_specBases.2 (Or.inl ⟨j, hJ j hj, hs, rfl⟩))
    · rw [hob] at ho
      rcases List.mem_cons.1 ho with e | hm
      · exact Or.inl e
      · exact Or.inr (mem_specBases.2 (Or.inr hm))
  have hit := ItemBase_busy_cons_retr2 (s := s2)
    (s' := { s2 with busy := .retr2 ej :: s2.busy, orphans := u :: s2.orphans }) (ej := ej) rfl rfl rfl
  refine ⟨⟨?_, ?_, ?_, ?_⟩, ⟨?_, ?_, ?_, ?_, ?_⟩⟩
  · rw [hjb, hob]
    exact nodup_cons_middle hB.u1 fb.nj
  · intro y hy hm
    rw [hjb] at hm
    rcases hit y hy with rfl | hy
    · exact fb.nj (List.mem_append.2 (Or.inl hm))
    · exact hB.u2 y hy hm
  · intro hd y hy
    rw [hob]
    rcases hit y hy with rfl | hy
    · exact Or.inr List.mem_cons_self
    · rcases hB.ib hd y hy with h1 | h1
      · exact Or.inl h1
      · exact Or.inr (List.mem_cons_of_mem _ h1)
  · intro hd j hj f hf hi
    exact hB.nq hd j (hJ j hj) f hf hi
  · have : scanBlocks c { s2 with busy := .retr2 ej :: s2.busy, orphans := u :: s2.orphans }
        = scanBlocks c s2 := by
      simp only [scanBlocks, List.flatMap_cons, Phase.scanBlock, List.nil_append]
    rw [this]; exact hT.t1
  · intro st k hm; exact hT.tb st k (hSc st k hm)
  · intro x hx sp hsp
    rcases hsb x hx with rfl | hx
    · exact ft.sq sp hsp
    · exact hT.dq x hx sp hsp
  · intro x hx st k hm
    have hm' := hSc st k hm
    rcases hsb x hx with rfl | hx
    · exact ft.sb st k hm'
    · exact hT.db x hx st k hm'
  · intro x hx
    rcases hsb x hx with rfl | hx
    · exact ft.st
    · exact hT.ot x hx

theorem not_master_ub {j : Job} (h : j.master = false) : ∃ f, j.ub = some f := by
  unfold Job.master at h
  cases hu : j.ub with
  | none => simp [hu] at h
  | some f => exact ⟨f, rfl⟩

theorem UU_retrDone {c : Cfg} {s2 : State} {j : Job} {newc : Nat} (h : UIB s2 ∧ UIT c s2)
    (fb : FreshB s2 j.base) (ft : j.ub.isSome = true → FreshT c s2 j.base)
    (hmp : j.master = true → s2.pdone = false → j.base ≤ s2.ppos) :
    UIB (retrDone c s2 j newc) ∧ UIT c (retrDone c s2 j newc) := by
  cases hmas : j.master with
  | true =>
    simp only [retrDone, hmas, if_true]
    exact UU_doneMaster
      { base := j.base, idx := 0, left := (if (rres c j.base).ok then (rres c j.base).nb else 1),
        ok := (rres c j.base).ok && (rres c j.base).fin, corrupt := j.corrupt } newc h fb (hmp hmas)
  | false =>
    obtain ⟨f, hu⟩ := not_master_ub hmas
    simp only [retrDone, hmas, hu, Bool.false_eq_true, if_false]
    exact UU_doneSpec
      { base := j.base, idx := 0, left := (if (rres c j.base).ok then (rres c j.base).nb else 1),
        ok := (rres c j.base).ok && (rres c j.base).fin, corrupt := j.corrupt }
      { base := j.base, f := { f with complete := true, endp := newc }, corrupt := j.corrupt }
      rfl h fb (ft (by rw [hu]; rfl))

/-! ### retrEnd -/

/-- what is known about the base of a running retrieve job once the job has
    been taken out of `busy` -/
theorem Fresh_of_busy_retr {c : Cfg} {s : State} {j : Job} {k : Option Nat} (h : UIB s ∧ UIT c s)
    (hm : Phase.retr j k ∈ s.busy) :
    FreshB { s with busy := s.busy.erase (.retr j k) } j.base ∧
    (j.ub.isSome = true → FreshT c { s with busy := s.busy.erase (.retr j k) } j.base) := by
  obtain ⟨hB, hT⟩ := h
  obtain ⟨b0, t0⟩ := Sh_busy_erase c s (.retr j k)
  have hjin : JIn s j := Or.inr ⟨k, hm⟩
  refine ⟨⟨?_, ?_⟩, ?_⟩
  · have p1 := flatMap_erase_perm Phase.jobBase hm
    have p2 : List.Perm (jobBases s ++ orphanBases s)
        (j.base :: (s.retrQ.flatMap Job.baseL ++ (s.busy.erase (.retr j k)).flatMap Phase.jobBase
          ++ orphanBases s)) :=
      List.Perm.append_right _ ((List.Perm.append_left _ p1).trans List.perm_middle)
    have := (List.nodup_cons.1 ((p2.nodup_iff).1 hB.u1)).1
    simpa only [jobBases, orphanBases] using this
  · intro hi
    exact hB.u2 j.base (b0.it _ hi) (mem_jobBases.2 ⟨j, hjin, rfl⟩)
  · intro hs
    have hx : j.base ∈ specBases s := mem_specBases.2 (Or.inl ⟨j, hjin, hs, rfl⟩)
    exact ⟨fun sp hsp => hT.dq _ hx sp hsp,
      fun st k' hm' => hT.db _ hx st k' (List.mem_of_mem_erase hm'), hT.ot _ hx⟩

theorem Sh_retrMove {c : Cfg} {s1 : State} (j : Job) (newc : Nat)
    (hm : j.master = true → s1.pdone = false → s1.ppos ≤ newc) :
    ShB s1 (retrMove c s1 j newc) ∧ ShT c s1 (retrMove c s1 j newc) ∧
    (j.master = true → (retrMove c s1 j newc).ppos = newc) ∧
    (retrMove c s1 j newc).pdone = s1.pdone := by
  unfold retrMove; split
  · next hmas =>
    obtain ⟨⟨x1, x2, x3, x4, x5, x6, x7⟩, ⟨y1, y2, y3, y4⟩⟩ :=
      Sh_advance (c := c) (s := s1) newc (hm hmas)
    exact ⟨⟨x1, x2, x3, x4, x5, x6, x7⟩, ⟨y1, y2, y3, y4⟩, fun _ => rfl, rfl⟩
  · next hmas =>
    exact ⟨ShB_same rfl rfl rfl rfl rfl rfl (Or.inl rfl), ShT_same rfl rfl (Nat.le_refl _),
      fun h => absurd h hmas, rfl⟩

theorem retrMoreJob_isSome (j : Job) (newc : Nat) :
    (retrMoreJob j newc).ub.isSome = j.ub.isSome := by
  unfold retrMoreJob
  dsimp only
  split
  · rfl
  · cases j.ub <;> rfl

theorem retrMoreJob_inq {j : Job} {newc : Nat} {f : UF} (h : (retrMoreJob j newc).ub = some f) :
    ∃ f0, j.ub = some f0 ∧ f0.inq = f.inq := by
  unfold retrMoreJob at h
  dsimp only at h
  split at h
  · exact ⟨f, h, rfl⟩
  · cases hu : j.ub with
    | none => simp [hu] at h
    | some f0 =>
      simp only [hu, Option.map_some, Option.some.injEq] at h
      subst h; exact ⟨f0, rfl, rfl⟩

theorem UU_retrEnd {c : Cfg} {s s' : State} {j : Job} {k : Option Nat} (h : UIB s ∧ UIT c s)
    (hS : SI c s) (hP : PI c s) (hs : stepRetrEnd c s j k = some s') : UIB s' ∧ UIT c s' := by
  unfold stepRetrEnd at hs; split at hs
  · next hg =>
    have hmem : Phase.retr j k ∈ s.busy := by simpa using hg
    have hj : jobOK c s.gnext j := hS.busy _ hmem
    have hml := hP.ml j (Or.inr ⟨k, hmem⟩)
    have hnq : s.pdone = false → ∀ f, j.ub = some f → f.inq = false → j.base ≤ s.ppos :=
      fun hd f hf hi => h.1.nq hd j (Or.inr ⟨k, hmem⟩) f hf hi
    obtain ⟨b0, t0⟩ := Sh_busy_erase c s (.retr j k)
    obtain ⟨bd, td⟩ := Sh_detach c { s with busy := s.busy.erase (.retr j k) } k
    obtain ⟨fb0, ft0⟩ := Fresh_of_busy_retr h hmem
    have h1 := UU_frame (UU_frame h b0 t0) bd td
    have fb1 := FreshB_frame fb0 bd
    have ft1 := fun hs => FreshT_frame (ft0 hs) td
    obtain ⟨_, _, _, _, _, hp1, hd1, _, _⟩ :=
      detach_eqs { s with busy := s.busy.erase (.retr j k) } k
    have hp1 : (detach { s with busy := s.busy.erase (.retr j k) } k).ppos = s.ppos := hp1
    have hd1 : (detach { s with busy := s.busy.erase (.retr j k) } k).pdone = s.pdone := hd1
    generalize detach { s with busy := s.busy.erase (.retr j k) } k = s1 at h1 fb1 ft1 hp1 hd1 hs
    dsimp only at hs
    have hnge := newc_ge c j k
    generalize retrNewc c j k = newc at hs hnge
    by_cases hpd : s1.pdone = true
    · rw [if_pos hpd] at hs
      simp only [Option.some.injEq] at hs; subst hs
      exact UU_frame h1 (ShB_same rfl rfl rfl rfl rfl rfl (Or.inl rfl)) (ShT_same rfl rfl (Nat.le_refl _))
    · rw [if_neg hpd] at hs
      by_cases hab : j.redundant = true
      · rw [if_pos hab] at hs
        simp only [Option.some.injEq] at hs; subst hs
        exact UU_frame h1 (ShB_same rfl rfl rfl rfl rfl rfl (Or.inl rfl))
          (ShT_same rfl rfl (Nat.le_refl _))
      · rw [if_neg hab] at hs
        have hna' : j.redundant = false := by simpa using hab
        obtain ⟨bm, tm, hm2, hd2⟩ := Sh_retrMove (c := c) (s1 := s1) j newc (by
          intro hmas _
          have := hml (master_mc hmas hna')
          omega)
        have h2 := UU_frame h1 bm tm
        have fb2 := FreshB_frame fb1 bm
        have ft2 := fun hs => FreshT_frame (ft1 hs) tm
        have hpp2 := bm.pp
        generalize retrMove c s1 j newc = s2 at h2 fb2 ft2 hm2 hd2 hpp2 hs
        by_cases hfin : (!decide ((rres c j.base).e ≤ newc)) = true
        · rw [if_pos hfin] at hs
          by_cases hov : newc < headOffs c s2
          · rw [if_pos hov] at hs
            simp only [Option.some.injEq] at hs; subst hs
            exact UU_frame h2 (ShB_same rfl rfl rfl rfl rfl rfl (Or.inl rfl))
              (ShT_same rfl rfl (Nat.le_refl _))
          · rw [if_neg hov] at hs
            simp only [Option.some.injEq] at hs; subst hs
            refine UU_addJob (retrMoreJob j newc) h2 fb2
              (fun hs => ft2 (by rw [← retrMoreJob_isSome j newc]; exact hs)) ?_
            intro hd f hf hi
            obtain ⟨f0, hf0, hi0⟩ := retrMoreJob_inq hf
            obtain ⟨hd1', hle⟩ := hpp2 hd
            have := hnq (by rw [← hd1]; exact hd1') f0 hf0 (by rw [hi0]; exact hi)
            show j.base ≤ s2.ppos
            omega
        · rw [if_neg hfin] at hs
          simp only [Option.some.injEq] at hs; subst hs
          refine UU_retrDone h2 fb2 ft2 ?_
          intro hmas _
          have := hm2 hmas
          have := hj.2.2.2.1
          omega
  · simp at hs


/-! ### the parser's writes through unord_q keep every base -/

theorem flagJob_base (p : Nat → Bool) (j : Job) : (flagJob p j).base = j.base := rfl

theorem flagJob_isSome (p : Nat → Bool) (j : Job) : (flagJob p j).ub.isSome = j.ub.isSome := by
  unfold flagJob; cases j.ub <;> rfl

theorem good_isSome (j : Job) : j.good.ub.isSome = j.ub.isSome := by
  unfold Job.good; cases j.ub <;> rfl

theorem baseL_flagJob (p : Nat → Bool) (j : Job) : Job.baseL (flagJob p j) = Job.baseL j := rfl
theorem baseL_good (j : Job) : Job.baseL j.good = Job.baseL j := rfl

theorem jobBase_flagPhase (p : Nat → Bool) (ph : Phase) :
    Phase.jobBase (flagPhase p ph) = Phase.jobBase ph := by
  cases ph <;> rfl

theorem jobBase_good (ph : Phase) : Phase.jobBase ph.good = Phase.jobBase ph := by
  cases ph <;> rfl

theorem scanBlock_flagPhase (p : Nat → Bool) (ph : Phase) :
    Phase.scanBlock (flagPhase p ph) = Phase.scanBlock ph := by
  cases ph <;> rfl

theorem scanBlock_good (ph : Phase) : Phase.scanBlock ph.good = Phase.scanBlock ph := by
  cases ph <;> rfl

/-- membership in a flagged `busy` list -/
theorem mem_map_flagPhase {p : Nat → Bool} {l : List Phase} {ph' : Phase}
    (h : ph' ∈ l.map (flagPhase p)) :
    (∃ j0 k, Phase.retr j0 k ∈ l ∧ ph' = .retr (flagJob p j0) k) ∨
    (ph' ∈ l ∧ ∀ j k, ph' ≠ .retr j k) := by
  obtain ⟨ph, hph, rfl⟩ := List.mem_map.1 h
  cases ph with
  | retr j k => exact Or.inl ⟨j, k, hph, rfl⟩
  | retr2 e => exact Or.inr ⟨hph, fun _ _ hh => by cases hh⟩
  | emit e => exact Or.inr ⟨hph, fun _ _ hh => by cases hh⟩
  | scan a b => exact Or.inr ⟨hph, fun _ _ hh => by cases hh⟩

theorem mem_replaceFirst_good {q : Phase → Bool} {l : List Phase} {ph' : Phase}
    (h : ph' ∈ replaceFirst q Phase.good l) :
    ph' ∈ l ∨ ∃ j0 k, Phase.retr j0 k ∈ l ∧ q (.retr j0 k) = true ∧ ph' = .retr j0.good k := by
  rcases mem_replaceFirst _ _ h with hm | ⟨x, hx, hq, rfl⟩
  · exact Or.inl hm
  · cases x with
    | retr j k => exact Or.inr ⟨j, k, hx, hq, rfl⟩
    | retr2 e => exact Or.inl hx
    | emit e => exact Or.inl hx
    | scan a b => exact Or.inl hx

theorem baseL_popMap (p : Nat → Bool) (u : UB) :
    UB.baseL (if u.f.inq && p u.base then { u with f := u.f.flagBad } else u) = UB.baseL u := by
  split <;> rfl

theorem popOrphans_sublist (p : Nat → Bool) (os : List UB) :
    List.Sublist ((popOrphans p os).flatMap UB.baseL) (os.flatMap UB.baseL) := by
  unfold popOrphans
  rw [flatMap_map_eq UB.baseL _ _ (baseL_popMap p)]
  exact flatMap_sublist _ List.filter_sublist

/-- an orphan either survives `popOrphans` (with its base) or was popped -/
theorem mem_popOrphans_or {p : Nat → Bool} {os : List UB} {u : UB} (h : u ∈ os) :
    (∃ u' ∈ popOrphans p os, u'.base = u.base) ∨ p u.base = true := by
  by_cases hc : (u.f.inq && p u.base && u.f.complete) = true
  · simp only [Bool.and_eq_true] at hc
    exact Or.inr hc.1.2
  · left
    refine ⟨_, List.mem_map.2 ⟨u, List.mem_filter.2 ⟨h, ?_⟩, rfl⟩, ?_⟩
    · show (!(u.f.inq && p u.base && u.f.complete)) = true
      rw [Bool.not_eq_true']; exact Bool.eq_false_iff.2 hc
    · show (if u.f.inq && p u.base then ({ u with f := u.f.flagBad } : UB) else u).base = u.base
      split <;> rfl

theorem flagJob_inq_false {p : Nat → Bool} {j0 : Job} {f : UF} (hf : (flagJob p j0).ub = some f)
    (hi : f.inq = false) : p j0.base = true ∨ ∃ f0, j0.ub = some f0 ∧ f0.inq = false := by
  unfold flagJob at hf
  cases hu : j0.ub with
  | none => simp [hu] at hf
  | some f0 =>
    simp only [hu, Option.map_some, Option.some.injEq] at hf
    split at hf
    · next hc =>
      simp only [Bool.and_eq_true] at hc
      exact Or.inl hc.2
    · subst hf; exact Or.inr ⟨f0, rfl, hi⟩

/-- `{ s2 with retrQ/busy flagged, orphans popped }` (the second half of
    `parsePush`, and `parseFinish` up to the fields that are cleared) -/
theorem Sh_flag (c : Cfg) (s2 : State) (p : Nat → Bool) (oq : List (Nat × Nat)) (g : Nat)
    (hp : ∀ y, p y = true → y ≤ s2.ppos) :
    ShB s2 { s2 with orderQ := oq, gnext := g, retrQ := s2.retrQ.map (flagJob p),
                     busy := s2.busy.map (flagPhase p), orphans := popOrphans p s2.orphans } ∧
    ShT c s2 { s2 with orderQ := oq, gnext := g, retrQ := s2.retrQ.map (flagJob p),
                       busy := s2.busy.map (flagPhase p), orphans := popOrphans p s2.orphans } := by
  have hji : ∀ j, JIn { s2 with orderQ := oq, gnext := g, retrQ := s2.retrQ.map (flagJob p),
                                busy := s2.busy.map (flagPhase p),
                                orphans := popOrphans p s2.orphans } j →
      ∃ j0, JIn s2 j0 ∧ j = flagJob p j0 := by
    rintro j (hj | ⟨k, hk⟩)
    · obtain ⟨j0, h0, rfl⟩ := List.mem_map.1 hj
      exact ⟨j0, Or.inl h0, rfl⟩
    · rcases mem_map_flagPhase hk with ⟨j0, k0, h0, e⟩ | ⟨_, hn⟩
      · injection e with e1 e2
        subst e2
        exact ⟨j0, Or.inr ⟨k, h0⟩, e1⟩
      · exact absurd rfl (hn j k)
  constructor
  · refine ⟨?_, ?_, ?_, ?_, fun hd => ⟨hd, Nat.le_refl _⟩, ?_, ?_⟩
    · intro hn
      refine List.Nodup.sublist ?_ hn
      show List.Sublist
        ((s2.retrQ.map (flagJob p)).flatMap Job.baseL
          ++ (s2.busy.map (flagPhase p)).flatMap Phase.jobBase
          ++ (popOrphans p s2.orphans).flatMap UB.baseL) _
      rw [flatMap_map_eq Job.baseL _ _ (baseL_flagJob p),
        flatMap_map_eq Phase.jobBase _ _ (jobBase_flagPhase p)]
      exact List.Sublist.append (List.Sublist.refl _) (popOrphans_sublist p _)
    · intro j hj
      obtain ⟨j0, h0, rfl⟩ := hji j hj
      exact ⟨j0, h0, rfl, fun hs => by rw [← flagJob_isSome p j0]; exact hs⟩
    · intro y hy; exact (popOrphans_sublist p _).subset hy
    · refine ItemBase_mono ?_ (fun o ho => Or.inr ⟨o, ho, rfl⟩)
      rintro e (he | he | he)
      · exact Or.inl ⟨e, Or.inl he, rfl⟩
      · rcases mem_map_flagPhase he with ⟨_, _, _, e'⟩ | ⟨hm, _⟩
        · cases e'
        · exact Or.inl ⟨e, Or.inr (Or.inl hm), rfl⟩
      · rcases mem_map_flagPhase he with ⟨_, _, _, e'⟩ | ⟨hm, _⟩
        · cases e'
        · exact Or.inl ⟨e, Or.inr (Or.inr hm), rfl⟩
    · intro _ y hy
      obtain ⟨u, hu, rfl⟩ := mem_orphanBases.1 hy
      rcases mem_popOrphans_or (p := p) hu with ⟨u', hu', e⟩ | hpu
      · exact Or.inl (mem_orphanBases.2 ⟨u', hu', e⟩)
      · exact Or.inr (hp _ hpu)
    · intro _ j hj f hf hi
      obtain ⟨j0, h0, rfl⟩ := hji j hj
      rcases flagJob_inq_false hf hi with hpj | ⟨f0, hf0, hi0⟩
      · exact Or.inl (hp _ hpj)
      · exact Or.inr ⟨j0, f0, h0, hf0, hi0, rfl⟩
  · refine ShT_busy (List.Sublist.refl _) ?_ ?_ (Nat.le_refl _)
    · show List.Sublist ((s2.busy.map (flagPhase p)).flatMap Phase.scanBlock) _
      rw [flatMap_map_eq Phase.scanBlock _ _ (scanBlock_flagPhase p)]
      exact List.Sublist.refl _
    · intro st k hm
      rcases mem_map_flagPhase hm with ⟨_, _, _, e'⟩ | ⟨hm, _⟩
      · cases e'
      · exact hm


/-! ### parsePush -/

theorem UU_parsePush {c : Cfg} {s1 : State} {b : Nat} (h : UIB s1 ∧ UIT c s1)
    (hlt : s1.ppos < b) (hd : s1.pdone = false) :
    (UIB (parsePush c s1 b) ∧ UIT c (parsePush c s1 b)) ∧
    (∀ j, JIn (parsePush c s1 b) j → ∀ f, j.ub = some f → f.inq = false → j.base < b) ∧
    (∀ y, ItemBase (parsePush c s1 b) y → y < b ∨ y ∈ orphanBases (parsePush c s1 b)) := by
  obtain ⟨ba, ta⟩ := Sh_advance (c := c) (s := s1) b (fun _ => Nat.le_of_lt hlt)
  obtain ⟨bf, tf⟩ := Sh_flag c (advance c s1 b) (fun x => decide (x < b))
    ((advance c s1 b).orderQ ++ [(b, 0)]) (rres c b).e
    (by intro y hy; have : y < b := of_decide_eq_true hy; show y ≤ b; omega)
  have h2 := UU_frame h ba ta
  refine ⟨UU_frame h2 bf tf, ?_, ?_⟩
  · intro j hj f hf hi
    have hj' : JIn { advance c s1 b with
        orderQ := (advance c s1 b).orderQ ++ [(b, 0)], gnext := (rres c b).e,
        retrQ := (advance c s1 b).retrQ.map (flagJob (fun x => decide (x < b))),
        busy := (advance c s1 b).busy.map (flagPhase (fun x => decide (x < b))),
        orphans := popOrphans (fun x => decide (x < b)) (advance c s1 b).orphans } j := hj
    have hcases : ∃ j1, JIn (advance c s1 b) j1 ∧ j = flagJob (fun x => decide (x < b)) j1 := by
      rcases hj' with hq | ⟨k, hk⟩
      · obtain ⟨j1, h1, rfl⟩ := List.mem_map.1 hq
        exact ⟨j1, Or.inl h1, rfl⟩
      · rcases mem_map_flagPhase hk with ⟨j1, k1, h1, e⟩ | ⟨_, hn⟩
        · injection e with e1 e2
          subst e2
          exact ⟨j1, Or.inr ⟨k, h1⟩, e1⟩
        · exact absurd rfl (hn j k)
    obtain ⟨j1, h1, rfl⟩ := hcases
    rcases flagJob_inq_false hf hi with hpj | ⟨f1, hf1, hi1⟩
    · exact of_decide_eq_true hpj
    · -- `advance` does not touch flags: the same job is in `s1`
      have hq1 : JIn s1 j1 := by
        rcases h1 with hq | ⟨k, hk⟩
        · exact Or.inl (List.mem_filter.1 hq).1
        · exact Or.inr ⟨k, hk⟩
      have := h.1.nq hd j1 hq1 f1 hf1 hi1
      show j1.base < b
      omega
  · intro y hy
    have hy1 : ItemBase s1 y := ba.it y (bf.it y hy)
    rcases h.1.ib hd y hy1 with h1 | h1
    · exact Or.inl (by omega)
    · obtain ⟨u, hu, rfl⟩ := mem_orphanBases.1 h1
      rcases mem_popOrphans_or (p := fun x => decide (x < b)) hu with ⟨u', hu', e⟩ | hpu
      · exact Or.inr (mem_orphanBases.2 ⟨u', hu', e⟩)
      · exact Or.inl (of_decide_eq_true hpu)

/-! ### parseFinish -/

theorem Sh_parseFinish (c : Cfg) (s1 : State) (u : Nat) :
    ShB s1 (parseFinish s1 u) ∧ ShT c s1 (parseFinish s1 u) := by
  have hji : ∀ j, JIn (parseFinish s1 u) j → ∃ j0, JIn s1 j0 ∧ j = flagJob (fun _ => true) j0 := by
    rintro j (hj | ⟨k, hk⟩)
    · cases hj
    · rcases mem_map_flagPhase hk with ⟨j0, k0, h0, e⟩ | ⟨_, hn⟩
      · injection e with e1 e2
        subst e2
        exact ⟨j0, Or.inr ⟨k, h0⟩, e1⟩
      · exact absurd rfl (hn j k)
  constructor
  · refine ⟨?_, ?_, ?_, ?_, fun hd => Bool.noConfusion hd, fun hd => Bool.noConfusion hd,
      fun hd => Bool.noConfusion hd⟩
    · intro hn
      refine List.Nodup.sublist ?_ hn
      show List.Sublist
        (([] : List Job).flatMap Job.baseL
          ++ (s1.busy.map (flagPhase (fun _ => true))).flatMap Phase.jobBase
          ++ (popOrphans (fun _ => true) s1.orphans).flatMap UB.baseL) _
      rw [flatMap_map_eq Phase.jobBase _ _ (jobBase_flagPhase _)]
      exact List.Sublist.append
        (List.Sublist.append (List.nil_sublist _) (List.Sublist.refl _))
        (popOrphans_sublist _ _)
    · intro j hj
      obtain ⟨j0, h0, rfl⟩ := hji j hj
      exact ⟨j0, h0, rfl, fun hs => by rw [← flagJob_isSome (fun _ => true) j0]; exact hs⟩
    · intro y hy; exact (popOrphans_sublist (fun _ => true) s1.orphans).subset hy
    · refine ItemBase_mono ?_ (fun o ho => Or.inr ⟨o, ho, rfl⟩)
      rintro e (he | he | he)
      · exact Or.inl ⟨e, Or.inl he, rfl⟩
      · rcases mem_map_flagPhase he with ⟨_, _, _, e'⟩ | ⟨hm, _⟩
        · cases e'
        · exact Or.inl ⟨e, Or.inr (Or.inl hm), rfl⟩
      · rcases mem_map_flagPhase he with ⟨_, _, _, e'⟩ | ⟨hm, _⟩
        · cases e'
        · exact Or.inl ⟨e, Or.inr (Or.inr hm), rfl⟩
  · refine ShT_busy (List.nil_sublist _) ?_ ?_ (Nat.le_refl _)
    · show List.Sublist ((s1.busy.map (flagPhase (fun _ => true))).flatMap Phase.scanBlock) _
      rw [flatMap_map_eq Phase.scanBlock _ _ (scanBlock_flagPhase _)]
      exact List.Sublist.refl _
    · intro st k hm
      rcases mem_map_flagPhase hm with ⟨_, _, _, e'⟩ | ⟨hm, _⟩
      · cases e'
      · exact hm


/-! ### parseMatch -/

theorem inqAt_of {b : Nat} {j : Job} {f : UF} (hu : j.ub = some f) (hi : f.inq = true)
    (hb : j.base = b) : Job.inqAt b j = true := by
  unfold Job.inqAt; rw [hu]; simp [hi, hb]

/-- the parser confirms a scanner-found job waiting in `retr_q` -/
theorem Sh_goodQ (c : Cfg) (s3 : State) (b : Nat) (hle : b ≤ s3.ppos) :
    ShB s3 { s3 with retrQ := replaceFirst (Job.inqAt b) Job.good s3.retrQ } ∧
    ShT c s3 { s3 with retrQ := replaceFirst (Job.inqAt b) Job.good s3.retrQ } := by
  have hji : ∀ j, JIn { s3 with retrQ := replaceFirst (Job.inqAt b) Job.good s3.retrQ } j →
      JIn s3 j ∨ ∃ x, x ∈ s3.retrQ ∧ Job.inqAt b x = true ∧ j = x.good := by
    rintro j (hj | ⟨k, hk⟩)
    · rcases mem_replaceFirst _ _ hj with hm | ⟨x, hx, hq, e⟩
      · exact Or.inl (Or.inl hm)
      · exact Or.inr ⟨x, hx, hq, e⟩
    · exact Or.inl (Or.inr ⟨k, hk⟩)
  refine ⟨⟨?_, ?_, fun _ h => h, fun _ h => h, fun hd => ⟨hd, Nat.le_refl _⟩,
    fun _ _ h => Or.inl h, ?_⟩, ShT_same rfl rfl (Nat.le_refl _)⟩
  · intro hn
    have e : jobBases { s3 with retrQ := replaceFirst (Job.inqAt b) Job.good s3.retrQ }
        = jobBases s3 := by
      show (replaceFirst (Job.inqAt b) Job.good s3.retrQ).flatMap Job.baseL ++ _ = _
      rw [flatMap_replaceFirst_eq Job.baseL _ _ _ baseL_good]; rfl
    show (jobBases { s3 with retrQ := replaceFirst (Job.inqAt b) Job.good s3.retrQ }
      ++ orphanBases s3).Nodup
    rw [e]; exact hn
  · intro j hj
    rcases hji j hj with h0 | ⟨x, hx, _, rfl⟩
    · exact ⟨j, h0, rfl, fun h => h⟩
    · exact ⟨x, Or.inl hx, rfl, fun hs => by rw [← good_isSome x]; exact hs⟩
  · intro _ j hj f hf hi
    rcases hji j hj with h0 | ⟨x, hx, hq, rfl⟩
    · exact Or.inr ⟨j, f, h0, hf, hi, rfl⟩
    · left
      have := PI_inqAt_base hq
      show x.base ≤ s3.ppos
      omega

/-- … a scanner-found job that is running -/
theorem Sh_goodB (c : Cfg) (s3 : State) (b : Nat) (hle : b ≤ s3.ppos) :
    ShB s3 { s3 with busy := replaceFirst (Phase.inqAt b) Phase.good s3.busy } ∧
    ShT c s3 { s3 with busy := replaceFirst (Phase.inqAt b) Phase.good s3.busy } := by
  have hji : ∀ j, JIn { s3 with busy := replaceFirst (Phase.inqAt b) Phase.good s3.busy } j →
      JIn s3 j ∨ ∃ x, JIn s3 x ∧ Job.inqAt b x = true ∧ j = x.good := by
    rintro j (hj | ⟨k, hk⟩)
    · exact Or.inl (Or.inl hj)
    · rcases mem_replaceFirst_good hk with hm | ⟨j0, k0, h0, hq, e⟩
      · exact Or.inl (Or.inr ⟨k, hm⟩)
      · injection e with e1 e2
        exact Or.inr ⟨j0, Or.inr ⟨k0, h0⟩, hq, e1⟩
  constructor
  · refine ⟨?_, ?_, fun _ h => h, ?_, fun hd => ⟨hd, Nat.le_refl _⟩, fun _ _ h => Or.inl h, ?_⟩
    · intro hn
      have e : jobBases { s3 with busy := replaceFirst (Phase.inqAt b) Phase.good s3.busy }
          = jobBases s3 := by
        show _ ++ (replaceFirst (Phase.inqAt b) Phase.good s3.busy).flatMap Phase.jobBase = _
        rw [flatMap_replaceFirst_eq Phase.jobBase _ _ _ jobBase_good]; rfl
      show (jobBases { s3 with busy := replaceFirst (Phase.inqAt b) Phase.good s3.busy }
        ++ orphanBases s3).Nodup
      rw [e]; exact hn
    · intro j hj
      rcases hji j hj with h0 | ⟨x, hx, _, rfl⟩
      · exact ⟨j, h0, rfl, fun h => h⟩
      · exact ⟨x, hx, rfl, fun hs => by rw [← good_isSome x]; exact hs⟩
    · refine ItemBase_mono ?_ (fun o ho => Or.inr ⟨o, ho, rfl⟩)
      rintro e (he | he | he)
      · exact Or.inl ⟨e, Or.inl he, rfl⟩
      · rcases mem_replaceFirst_good he with hm | ⟨_, _, _, _, e'⟩
        · exact Or.inl ⟨e, Or.inr (Or.inl hm), rfl⟩
        · cases e'
      · rcases mem_replaceFirst_good he with hm | ⟨_, _, _, _, e'⟩
        · exact Or.inl ⟨e, Or.inr (Or.inr hm), rfl⟩
        · cases e'
    · intro _ j hj f hf hi
      rcases hji j hj with h0 | ⟨x, hx, hq, rfl⟩
      · exact Or.inr ⟨j, f, h0, hf, hi, rfl⟩
      · left
        have := PI_inqAt_base hq
        show x.base ≤ s3.ppos
        omega
  · refine ShT_busy (List.Sublist.refl _) ?_ ?_ (Nat.le_refl _)
    · show List.Sublist ((replaceFirst (Phase.inqAt b) Phase.good s3.busy).flatMap Phase.scanBlock) _
      rw [flatMap_replaceFirst_eq Phase.scanBlock _ _ _ scanBlock_good]
      exact List.Sublist.refl _
    · intro st k hm
      rcases mem_replaceFirst_good hm with hm | ⟨_, _, _, _, e'⟩
      · exact hm
      · cases e'

/-- … a finished one: the orphan is freed -/
theorem Sh_orphanErase (c : Cfg) (a : State) (u : UB) (pt : Bool) (po w : Nat) (tn : Bool)
    (hle : u.base ≤ a.ppos) :
    ShB a { a with orphans := a.orphans.erase u, ptok := pt, porig := po, wu := w, taint := tn } ∧
    ShT c a { a with orphans := a.orphans.erase u, ptok := pt, porig := po, wu := w, taint := tn } := by
  refine ⟨⟨?_, fun j hj => ⟨j, hj, rfl, fun h => h⟩, ?_, fun _ h => h,
    fun hd => ⟨hd, Nat.le_refl _⟩, ?_, fun _ j hj f hf hi => Or.inr ⟨j, f, hj, hf, hi, rfl⟩⟩,
    ShT_same rfl rfl (Nat.le_refl _)⟩
  · intro hn
    refine List.Nodup.sublist ?_ hn
    exact List.Sublist.append (List.Sublist.refl _) (flatMap_sublist _ List.erase_sublist)
  · intro y hy
    exact (flatMap_sublist UB.baseL (List.erase_sublist (a := u) (l := a.orphans))).subset hy
  · intro _ y hy
    obtain ⟨u', hu', rfl⟩ := mem_orphanBases.1 hy
    by_cases e : u' = u
    · subst e; exact Or.inr hle
    · exact Or.inl (mem_orphanBases.2 ⟨u', (List.mem_erase_of_ne e).2 hu', rfl⟩)

theorem UU_parseMatch {c : Cfg} {s3 : State} {b : Nat} (h : UIB s3 ∧ UIT c s3) (hA : AI c s3)
    (hLC : Leak.LC s3) (hPP : PPre c s3) (hpp : s3.ppos = b)
    (hnq : ∀ j, JIn s3 j → ∀ f, j.ub = some f → f.inq = false → j.base < b)
    (hit : ∀ y, ItemBase s3 y → y < b ∨ y ∈ orphanBases s3) :
    UIB (parseMatch c s3 b) ∧ UIT c (parseMatch c s3 b) := by
  unfold parseMatch
  split
  · next j hj =>
    have hjm := List.mem_of_find?_eq_some hj
    have hjq := List.find?_some hj
    have hend := inqAt_endp hjq (hA.ecQ j hjm)
    obtain ⟨bg, tg⟩ := Sh_goodQ c s3 b (Nat.le_of_eq hpp.symm)
    obtain ⟨ba, ta⟩ := Sh_advance (c := c)
      (s := { s3 with retrQ := replaceFirst (Job.inqAt b) Job.good s3.retrQ }) j.endp
      (fun _ => by show s3.ppos ≤ j.endp; omega)
    exact UU_frame (UU_frame (UU_frame h bg tg) ba ta)
      (ShB_same rfl rfl rfl rfl rfl rfl (Or.inl rfl)) (ShT_same rfl rfl (Nat.le_refl _))
  · next hqn =>
    split
    · next ph hph =>
      have hpm := List.mem_of_find?_eq_some hph
      have hpq := List.find?_some hph
      have hend : b ≤ ph.endp := by
        cases ph with
        | retr j0 k0 => exact (inqAt_endp (j := j0) hpq (hA.ecB j0 k0 hpm)).1
        | retr2 e => simp [Phase.inqAt] at hpq
        | emit e => simp [Phase.inqAt] at hpq
        | scan a b => simp [Phase.inqAt] at hpq
      obtain ⟨bg, tg⟩ := Sh_goodB c s3 b (Nat.le_of_eq hpp.symm)
      obtain ⟨ba, ta⟩ := Sh_advance (c := c)
        (s := { s3 with busy := replaceFirst (Phase.inqAt b) Phase.good s3.busy }) ph.endp
        (fun _ => by show s3.ppos ≤ ph.endp; omega)
      exact UU_frame (UU_frame (UU_frame h bg tg) ba ta)
        (ShB_same rfl rfl rfl rfl rfl rfl (Or.inl rfl)) (ShT_same rfl rfl (Nat.le_refl _))
    · next hbn =>
      split
      · next u hu =>
        have hum := List.mem_of_find?_eq_some hu
        have huq := List.find?_some hu
        simp only [Bool.and_eq_true, beq_iff_eq] at huq
        have hc : u.f.complete = true := (hLC.oc u hum).2
        have hub := hPP.si.orph hPP.pd u hum
        have hhb : headOffs c s3 ≤ b := by have := hA.hp hPP.pd; omega
        have hend : b ≤ u.f.endp := by
          rcases hub.2 huq.1 with h' | h'
          · rw [h', huq.2]; exact rres_ge c b
          · rw [huq.2] at h'; omega
        rw [if_pos hc]
        obtain ⟨ba, ta⟩ := Sh_advance (c := c) (s := s3) u.f.endp (fun _ => by omega)
        obtain ⟨be, te⟩ := Sh_orphanErase c (advance c s3 u.f.endp) u true u.f.endp
          ((advance c s3 u.f.endp).wu + 1) ((advance c s3 u.f.endp).taint || u.corrupt)
          (by show u.base ≤ u.f.endp; omega)
        exact UU_frame (UU_frame h ba ta) be te
      · next hon =>
        have hno : b ∉ orphanBases s3 := by
          intro hm
          obtain ⟨u, hu, hb⟩ := mem_orphanBases.1 hm
          have := List.find?_eq_none.1 hon u hu
          exact this (by simp [(hLC.oc u hu).1, hb])
        refine UU_addJob { curr := b, base := b, ub := none, corrupt := false } h ⟨?_, ?_⟩
          (fun hs => by simp at hs) (fun _ f hf _ => by cases hf)
        · intro hm
          rcases List.mem_append.1 hm with hm | hm
          · obtain ⟨j, hj, hb'⟩ := mem_jobBases.1 hm
            have hb : j.base = b := hb'
            cases hu : j.ub with
            | none =>
              have hmc : Job.mc j = true := by unfold Job.mc; rw [hu]
              exact no_mc_JIn hPP.m0 hj hmc
            | some f =>
              cases hi : f.inq with
              | false => have := hnq j hj f hu hi; omega
              | true =>
                have hq := inqAt_of hu hi hb
                rcases hj with hq' | ⟨k, hk⟩
                · exact List.find?_eq_none.1 hqn j hq' hq
                · exact List.find?_eq_none.1 hbn _ hk hq
          · exact hno hm
        · intro hi
          rcases hit b hi with h1 | h1
          · omega
          · exact hno h1


/-! ### parseEnd -/

theorem UU_parseVerdict {c : Cfg} {s1 : State} (h : UIB s1 ∧ UIT c s1) (hPI : PI c s1)
    (hA : AI c s1) (hLC : Leak.LC s1) (hPP : PPre c s1) :
    UIB (parseVerdict c s1 (pres c s1.gnext)) ∧ UIT c (parseVerdict c s1 (pres c s1.gnext)) := by
  cases hu : pres c s1.gnext with
  | err u =>
    exact UU_frame h (ShB_same rfl rfl rfl rfl rfl rfl (Or.inl rfl)) (ShT_same rfl rfl (Nat.le_refl _))
  | finish u ok =>
    cases ok with
    | false =>
      exact UU_frame h (ShB_same rfl rfl rfl rfl rfl rfl (Or.inr rfl))
        (ShT_same rfl rfl (Nat.le_refl _))
    | true =>
      obtain ⟨bf, tf⟩ := Sh_parseFinish c s1 u
      exact UU_frame h bf tf
  | hdr b =>
    have hlt : s1.ppos < b := hPI.pb hPP.pd b hu
    obtain ⟨p1, p2, p3⟩ := UU_parsePush (c := c) (b := b) h hlt hPP.pd
    obtain ⟨a1, _, a3⟩ := AI_parsePush hA hPP hu
    obtain ⟨q1, _, _⟩ := PPre_push hPP hu
    have l3 := Leak.LC_parsePush (c := c) b hLC
    exact UU_parseMatch p1 a1 l3 q1 a3 p2 p3

theorem UU_parseEnd {c : Cfg} {s s' : State} (h : UIB s ∧ UIT c s) (hS : SI c s) (hA : AI c s)
    (hP : PI c s) (hL : LI c s) (hf : s.failed = false) (hs : stepParseEnd c s = some s') :
    UIB s' ∧ UIT c s' := by
  unfold stepParseEnd at hs
  split at hs
  · simp at hs
  · next k hk =>
    obtain ⟨hPP, hg1, hpo⟩ := PPre_of_parsing hS hf hk
    have h0 : UIB { s with pphase := none } ∧ UIT c { s with pphase := none } :=
      UU_frame h (ShB_same rfl rfl rfl rfl rfl rfl (Or.inl rfl)) (ShT_same rfl rfl (Nat.le_refl _))
    have hP0 : PI c { s with pphase := none } :=
      ⟨(fun k hk => by cases hk), hP.pb, hP.ml, hP.mb, hP.op⟩
    have hA0 : AI c { s with pphase := none } := by
      obtain ⟨a1, a2, a3, a4, a5, a6, a7, a8⟩ := hA
      exact ⟨a1, a2, (fun k hk => by cases hk), a4, a5, a6, a7, a8⟩
    have hL0 : Leak.LC { s with pphase := none } := by
      have l := (Leak.LJ_of_LI hL).lc
      exact ⟨l.oc, l.atQ, l.atB⟩
    obtain ⟨bd, td⟩ := Sh_detach c { s with pphase := none } k
    have h1 := UU_frame h0 bd td
    have hP1 : PI c (detach { s with pphase := none } k) := PI_detach k hP0
    have hA1 : AI c (detach { s with pphase := none } k) := AI_detach k hA0
    have hL1 : Leak.LC (detach { s with pphase := none } k) := Leak.LC_detach k hL0
    have hp1 : (detach { s with pphase := none } k).ppos = s.ppos := PI_detach_ppos _ _
    have key : pres c s.porig = pres c (detach { s with pphase := none } k).gnext := by
      rw [hg1, hpo]
    have hpk := hP.pk
    dsimp only at hs
    rw [key] at hs
    generalize detach { s with pphase := none } k = s1 at hs hPP h1 hP1 hA1 hL1 hp1
    split at hs
    · next hmore =>
      simp only [Option.some.injEq] at hs; subst hs
      have hkk : ∃ kk, k = some kk := by
        cases k with
        | none => simp [parseMoreP] at hmore
        | some kk => exact ⟨kk, rfl⟩
      obtain ⟨kk, rfl⟩ := hkk
      have hk1 := hpk kk hk
      obtain ⟨ba, ta⟩ := Sh_advance (c := c) (s := s1) (offs c (kk + 1)) (fun _ => by omega)
      exact UU_frame (UU_frame h1 ba ta) (ShB_same rfl rfl rfl rfl rfl rfl (Or.inl rfl))
        (ShT_same rfl rfl (Nat.le_refl _))
    · simp only [Option.some.injEq] at hs; subst hs
      exact UU_parseVerdict h1 hP1 hA1 hL1 hPP

/-! ### all steps -/

theorem UU_init (c : Cfg) : UIB (init c) ∧ UIT c (init c) := by
  have hi : ∀ y, ¬ ItemBase (init c) y := by
    intro y hy
    simp [ItemBase, EIn, init] at hy
  have hs : ∀ x, x ∉ specBases (init c) := by
    intro x hx
    simp [specBases, orphanBases, init] at hx
  refine ⟨⟨?_, ?_, ?_, ?_⟩, ⟨?_, ?_, ?_, ?_, ?_⟩⟩
  · simp [jobBases, orphanBases, init]
  · intro y hy; exact (hi y hy).elim
  · intro _ y hy; exact (hi y hy).elim
  · rintro _ j (hj | ⟨k, hk⟩)
    · simp [init] at hj
    · simp [init] at hk
  · simp [scanBlocks, init]
  · intro st k hm; simp [init] at hm
  · intro x hx; exact (hs x hx).elim
  · intro x hx; exact (hs x hx).elim
  · intro x hx; exact (hs x hx).elim

theorem uu_step {c : Cfg} (hW : 0 < c.W) {s s' : State} {l : Label} (hr : Reach c s)
    (h : UIB s ∧ UIT c s) (hs : step c s l = some s') : UIB s' ∧ UIT c s' := by
  have hf : s.failed = false := Leak.step_nf hs
  obtain ⟨hS, hA⟩ := PI_step_pre hr hs
  have hP := pi_reach_all hr
  have hL := li_reach hr hf
  have hQ := sq_reach hW hr
  unfold step at hs
  split at hs
  · simp at hs
  · cases l with
    | rTake => exact UU_rTake h hs
    | rQuit => exact UU_rQuit h hs
    | rBlock => exact UU_rBlock hW h hQ hs
    | rEmpty => exact UU_rEmpty h hs
    | rEof => exact UU_rEof h hs
    | wDone => exact UU_wDone h hs
    | reorder ob => exact UU_reorder h hs
    | parseStart => exact UU_parseStart h hs
    | parseEnd => exact UU_parseEnd h hS hA hP hL hf hs
    | retrStart j => exact UU_retrStart h hs
    | retrEnd j k => exact UU_retrEnd h hS hP hs
    | retrPost e => exact UU_retrPost h hs
    | emitStart e => exact UU_emitStart h hs
    | emitEnd e => exact UU_emitEnd h hs
    | scanStart sp => exact UU_scanStart h hs
    | scanEnd st k => exact UU_scanEnd h hP hQ hs

theorem uu_reach {c : Cfg} (hW : 0 < c.W) {s : State} (h : Reach c s) : UIB s ∧ UIT c s := by
  induction h with
  | init => exact UU_init c
  | step l hr hs ih => exact uu_step hW hr ih hs

/-! ### the theorem -/

/-- **every block position has at most one producer** -/
structure UI (c : Cfg) (s : State) : Prop where
  /-- no two retrieve jobs (queued or running, master or speculative) and no two
      finished-but-unconfirmed blocks share a base, and no job shares its base
      with such a block -/
  u1 : (jobBases s ++ orphanBases s).Nodup
  /-- an emit job / output buffer never shares its base with a live retrieve job -/
  u2 : ∀ y, ItemBase s y → y ∉ jobBases s
  /-- an emit job / output buffer lies at or before the parser position, or
      belongs to a finished-but-unconfirmed block -/
  ib : s.pdone = false → ∀ y, ItemBase s y → y ≤ s.ppos ∨ y ∈ orphanBases s
  /-- a scanner-found job whose entry has left unord_q lies at or before the
      parser position -/
  nq : s.pdone = false → ∀ j, JIn s j → ∀ f, j.ub = some f → f.inq = false → j.base ≤ s.ppos
  /-- at most one scan task per input block -/
  t1 : (scanBlocks c s).Nodup
  tb : ∀ st k, Phase.scan st k ∈ s.busy → offs c k ≤ st
  /-- every scanner-found origin inside a scan task's block range lies at or
      before the task's position: the task will not report it again -/
  dq : ∀ x ∈ specBases s, ∀ sp ∈ s.scanQ,
        offs c (sp / c.W) < x → x ≤ offs c (sp / c.W + 1) → x ≤ sp
  db : ∀ x ∈ specBases s, ∀ st k, Phase.scan st k ∈ s.busy →
        offs c k < x → x ≤ offs c (k + 1) → x ≤ st
  ot : ∀ x ∈ specBases s, x ≤ tailOffs c s

/-- `UI` holds in every reachable state (also in the state in which `failf`
    has just been called) -/
theorem ui_reach {c : Cfg} (hW : 0 < c.W) {s : State} (h : Reach c s) : UI c s := by
  obtain ⟨⟨a1, a2, a3, a4⟩, ⟨b1, b2, b3, b4, b5⟩⟩ := uu_reach hW h
  exact ⟨a1, a2, a3, a4, b1, b2, b3, b4, b5⟩

/-- `UI` is inductive (given the other invariants of the pre-state) -/
theorem ui_step {c : Cfg} (hW : 0 < c.W) {s s' : State} {l : Label} (hr : Reach c s)
    (h : UI c s) (hs : step c s l = some s') : UI c s' := by
  obtain ⟨a1, a2, a3, a4, b1, b2, b3, b4, b5⟩ := h
  obtain ⟨⟨a1, a2, a3, a4⟩, ⟨b1, b2, b3, b4, b5⟩⟩ :=
    uu_step hW hr ⟨⟨a1, a2, a3, a4⟩, ⟨b1, b2, b3, b4, b5⟩⟩ hs
  exact ⟨a1, a2, a3, a4, b1, b2, b3, b4, b5⟩

/-! ### corollaries -/

theorem jobBases_eq_map (s : State) :
    jobBases s = s.retrQ.map (·.base) ++ s.busy.flatMap Phase.jobBase := by
  unfold jobBases; rw [List.map_eq_flatMap]; rfl

theorem orphanBases_eq_map (s : State) : orphanBases s = s.orphans.map (·.base) := by
  unfold orphanBases; rw [List.map_eq_flatMap]; rfl

/-- no two retrieve jobs share a base -/
theorem job_bases_nodup {c : Cfg} (hW : 0 < c.W) {s : State} (h : Reach c s) :
    (jobBases s).Nodup :=
  List.Nodup.sublist (List.sublist_append_left _ _) (ui_reach hW h).u1

/-- no two finished-but-unconfirmed blocks share a base -/
theorem orphan_bases_nodup {c : Cfg} (hW : 0 < c.W) {s : State} (h : Reach c s) :
    (orphanBases s).Nodup :=
  List.Nodup.sublist (List.sublist_append_right _ _) (ui_reach hW h).u1

theorem orphan_bases_nodup' {c : Cfg} (hW : 0 < c.W) {s : State} (h : Reach c s) :
    (s.orphans.map (·.base)).Nodup := by
  rw [← orphanBases_eq_map]; exact orphan_bases_nodup hW h

theorem retrQ_bases_nodup {c : Cfg} (hW : 0 < c.W) {s : State} (h : Reach c s) :
    (s.retrQ.map (·.base)).Nodup := by
  have := job_bases_nodup hW h
  rw [jobBases_eq_map] at this
  exact List.Nodup.sublist (List.sublist_append_left _ _) this

/-- a live retrieve job never sits on the base of a finished-but-unconfirmed block -/
theorem inq_job_not_orphan_base {c : Cfg} (hW : 0 < c.W) {s : State} (h : Reach c s) {j : Job}
    (hj : JIn s j) : j.base ∉ orphanBases s := by
  intro ho
  have hn := (ui_reach hW h).u1
  exact (List.nodup_append.1 hn).2.2 j.base (mem_jobBases.2 ⟨j, hj, rfl⟩) j.base ho rfl

/-- an emit job / output buffer never shares its base with a live retrieve job -/
theorem item_not_job_base {c : Cfg} (hW : 0 < c.W) {s : State} (h : Reach c s) {y : Nat}
    (hy : ItemBase s y) : y ∉ jobBases s :=
  (ui_reach hW h).u2 y hy

/-- … in terms of the objects themselves -/
theorem emit_job_base_ne_job {c : Cfg} (hW : 0 < c.W) {s : State} (h : Reach c s) {e : EJob}
    {j : Job} (he : EIn s e) (hj : JIn s j) : e.base ≠ j.base := by
  intro hb
  exact item_not_job_base hW h (Or.inl ⟨e, he, rfl⟩) (mem_jobBases.2 ⟨j, hj, hb.symm⟩)

theorem out_buf_base_ne_job {c : Cfg} (hW : 0 < c.W) {s : State} (h : Reach c s) {o : OB}
    {j : Job} (ho : o ∈ s.reordQ) (hj : JIn s j) : o.base ≠ j.base := by
  intro hb
  exact item_not_job_base hW h (Or.inr ⟨o, ho, rfl⟩) (mem_jobBases.2 ⟨j, hj, hb.symm⟩)

/-- a queued and a running retrieve job never share a base -/
theorem queued_running_base_ne {c : Cfg} (hW : 0 < c.W) {s : State} (h : Reach c s) {j j' : Job}
    {k : Option Nat} (hq : j ∈ s.retrQ) (hb : Phase.retr j' k ∈ s.busy) : j.base ≠ j'.base := by
  have hn := job_bases_nodup hW h
  unfold jobBases at hn
  refine (List.nodup_append.1 hn).2.2 j.base ?_ j'.base ?_
  · exact List.mem_flatMap.2 ⟨j, hq, by simp [Job.baseL]⟩
  · exact List.mem_flatMap.2 ⟨_, hb, by simp [Phase.jobBase, Job.baseL]⟩

end LbzVerif.Lemmas.SchedD
