/-
  "Every entry of `order_q` still has a producer": the ownership invariant `HI`
  behind `terminated_order_empty` (a terminated run has an empty `order_q`),
  the missing piece of C09 `output_eq`.

  Items are compared BY VALUE (base, index): two producers of the same base
  produce identical buffers in this model, so no uniqueness of producers is
  needed.  Part 1 (this file): definitions, the frame lemmas, and all steps
  except `parseEnd`; part 2 (`Holder2`): `parseEnd` and the theorem.
-/
import LbzVerif.Lemmas.SchedD.Attach
import LbzVerif.Lemmas.SchedD.Cons

namespace LbzVerif.Lemmas.SchedD
open LbzVerif.Model.SchedD LbzVerif.Gen

/-! ### definitions -/

/-- the emit job exists: queued, being decoded, or emitting -/
def EIn (s : State) (e : EJob) : Prop :=
  e ∈ s.emitQ ∨ Phase.retr2 e ∈ s.busy ∨ Phase.emit e ∈ s.busy

/-- the retrieve job exists: queued or running -/
def JIn (s : State) (j : Job) : Prop := j ∈ s.retrQ ∨ ∃ k, Phase.retr j k ∈ s.busy

/-- a master-capable retrieve job of block `b` exists -/
def McJob (s : State) (b : Nat) : Prop := ∃ j, JIn s j ∧ j.base = b ∧ Job.mc j = true

/-- an item that has, or will still produce, a buffer of block `b` with index ≥ `m` -/
def Cov (s : State) (b m : Nat) : Prop :=
  (∃ e, EIn s e ∧ e.base = b ∧ m < e.idx + e.left) ∨ (∃ o ∈ s.reordQ, o.base = b ∧ m ≤ o.idx)

/-- everything except "each entry has a producer" -/
structure HI0 (c : Cfg) (s : State) : Prop where
  ch  : ∀ o ∈ s.reordQ, o.st = .more → ∀ i, (o.base, i) ∈ s.orderQ → i ≤ o.idx →
          Cov s o.base (o.idx + 1)
  chf : s.pdone = false → ∀ o ∈ s.reordQ, o.st = .more → s.gnext < o.base →
          Cov s o.base (o.idx + 1)
  srt : s.orderQ.Pairwise (fun x y => x.1 < y.1)
  og  : ∀ b i, (b, i) ∈ s.orderQ → b ≤ s.gnext
  ei  : ∀ b i, (b, i) ∈ s.orderQ → i < (if (rres c b).ok then (rres c b).nb else 1)
  gs  : s.pdone = false → ∀ u ∈ s.orphans, u.f.inq = true → s.gnext < u.base → Cov s u.base 0
  pt  : s.pdone = true → s.ptok = true

/-- the ownership invariant -/
structure HI (c : Cfg) (s : State) : Prop where
  h0 : HI0 c s
  h1 : ∀ b i, (b, i) ∈ s.orderQ → McJob s b ∨ Cov s b i

theorem HI_init (c : Cfg) : HI c (init c) := by
  refine ⟨⟨?_, ?_, ?_, ?_, ?_, ?_, ?_⟩, ?_⟩ <;> simp [init]

/-! ### frames -/

theorem Cov_mono {s s' : State} {b m : Nat} (mE : ∀ e, EIn s e → EIn s' e)
    (mR : ∀ o ∈ s.reordQ, o ∈ s'.reordQ) (h : Cov s b m) : Cov s' b m := by
  rcases h with ⟨e, he, h1, h2⟩ | ⟨o, ho, h1, h2⟩
  · exact Or.inl ⟨e, mE e he, h1, h2⟩
  · exact Or.inr ⟨o, mR o ho, h1, h2⟩

theorem Cov_le {s : State} {b m m' : Nat} (hm : m' ≤ m) (h : Cov s b m) : Cov s b m' := by
  rcases h with ⟨e, he, h1, h2⟩ | ⟨o, ho, h1, h2⟩
  · exact Or.inl ⟨e, he, h1, by omega⟩
  · exact Or.inr ⟨o, ho, h1, by omega⟩

/-- what a step that leaves `order_q`, `reord_q`, the ghost `gnext` and
    `parsing_done` alone may do: emit jobs only move, `head_offs` only grows,
    a new orphan is the complete entry of a finished speculative retrieve
    whose emit job exists -/
structure Fr (c : Cfg) (s s' : State) : Prop where
  eO : s'.orderQ = s.orderQ
  eR : s'.reordQ = s.reordQ
  eG : s'.gnext = s.gnext
  eP : s'.pdone = s.pdone
  mE : ∀ e, EIn s e → EIn s' e
  eH : headOffs c s ≤ headOffs c s'
  mO : s'.pdone = false → ∀ u ∈ s'.orphans, u ∈ s.orphans ∨ Cov s' u.base 0

theorem Fr.refl (c : Cfg) (s : State) : Fr c s s :=
  ⟨rfl, rfl, rfl, rfl, fun _ h => h, Nat.le_refl _, fun _ _ hu => Or.inl hu⟩

theorem Fr.cov {c : Cfg} {s s' : State} (f : Fr c s s') {b m : Nat} (h : Cov s b m) :
    Cov s' b m :=
  Cov_mono f.mE (fun o ho => by rw [f.eR]; exact ho) h

theorem Fr.trans {c : Cfg} {s s' s'' : State} (f : Fr c s s') (g : Fr c s' s'') : Fr c s s'' := by
  refine ⟨g.eO.trans f.eO, g.eR.trans f.eR, g.eG.trans f.eG, g.eP.trans f.eP,
    fun e he => g.mE e (f.mE e he), Nat.le_trans f.eH g.eH, ?_⟩
  intro hd u hu
  rcases g.mO hd u hu with h | h
  · rcases f.mO (by rw [← g.eP]; exact hd) u h with h | h
    · exact Or.inl h
    · exact Or.inr (g.cov h)
  · exact Or.inr h

theorem HI0_frame {c : Cfg} {s s' : State} (h : HI0 c s) (f : Fr c s s')
    (eT : s'.pdone = true → s'.ptok = true) : HI0 c s' := by
  obtain ⟨a1, a2, a3, a4, a5, a6, _⟩ := h
  obtain ⟨eO, eR, eG, eP, mE, _, mO⟩ := id f
  refine ⟨?_, ?_, ?_, ?_, ?_, ?_, eT⟩
  · intro o ho hst i hi hle
    rw [eR] at ho; rw [eO] at hi
    exact f.cov (a1 o ho hst i hi hle)
  · intro hd o ho hst hg
    rw [eR] at ho; rw [eG] at hg; rw [eP] at hd
    exact f.cov (a2 hd o ho hst hg)
  · rw [eO]; exact a3
  · intro b i hi; rw [eO] at hi; rw [eG]; exact a4 b i hi
  · intro b i hi; rw [eO] at hi; exact a5 b i hi
  · intro hd u hu hq hg
    rcases mO hd u hu with h | h2
    · rw [eG] at hg; rw [eP] at hd
      exact f.cov (a6 hd u h hq hg)
    · exact h2

theorem HI_frame {c : Cfg} {s s' : State} (h : HI c s) (f : Fr c s s')
    (eT : s'.pdone = true → s'.ptok = true)
    (mJ : ∀ b i, (b, i) ∈ s.orderQ → McJob s b → McJob s' b ∨ Cov s' b i) : HI c s' := by
  refine ⟨HI0_frame h.h0 f eT, ?_⟩
  intro b i hi
  rw [f.eO] at hi
  rcases h.h1 b i hi with hm | hc
  · exact mJ b i hi hm
  · exact Or.inr (f.cov hc)

/-- the fields the invariant reads are unchanged (except possibly `ptok`) -/
theorem HI_congr {c : Cfg} {s s' : State} (h : HI c s)
    (e1 : s'.orderQ = s.orderQ) (e2 : s'.reordQ = s.reordQ) (e3 : s'.gnext = s.gnext)
    (e4 : s'.pdone = s.pdone) (e5 : s'.emitQ = s.emitQ) (e6 : s'.busy = s.busy)
    (e7 : s'.retrQ = s.retrQ) (e8 : s'.orphans = s.orphans) (e9 : s'.head = s.head)
    (eT : s'.pdone = true → s'.ptok = true) : HI c s' := by
  have f : Fr c s s' := by
    refine ⟨e1, e2, e3, e4, ?_, ?_, ?_⟩
    · intro e he; simpa [EIn, e5, e6] using he
    · show offs c s.head ≤ offs c s'.head; rw [e9]; exact Nat.le_refl _
    · intro _ u hu; rw [e8] at hu; exact Or.inl hu
  refine HI_frame h f eT ?_
  intro b i _ hm
  obtain ⟨j, hj, hb, hmc⟩ := hm
  exact Or.inl ⟨j, by simpa [JIn, e6, e7] using hj, hb, hmc⟩

theorem HI_detach {c : Cfg} {s : State} (k : Option Nat) (h : HI c s) : HI c (detach s k) := by
  unfold detach; split
  · exact h
  · split
    · exact HI_congr h rfl rfl rfl rfl rfl rfl rfl rfl rfl h.h0.pt
    · exact h

theorem Fr_detach (c : Cfg) (s : State) (k : Option Nat) : Fr c s (detach s k) := by
  unfold detach; split
  · exact Fr.refl c s
  · split
    · exact ⟨rfl, rfl, rfl, rfl, fun _ h => h, Nat.le_refl _, fun _ u hu => Or.inl hu⟩
    · exact Fr.refl c s

/-! ### simple steps -/

theorem HI_rTake {c : Cfg} {s s' : State} (h : HI c s) (hs : stepRTake s = some s') : HI c s' := by
  unfold stepRTake at hs; split at hs <;> simp at hs; subst hs
  exact HI_congr h rfl rfl rfl rfl rfl rfl rfl rfl rfl h.h0.pt

theorem HI_rQuit {c : Cfg} {s s' : State} (h : HI c s) (hs : stepRQuit s = some s') : HI c s' := by
  unfold stepRQuit at hs; split at hs <;> simp at hs; subst hs
  exact HI_congr h rfl rfl rfl rfl rfl rfl rfl rfl rfl h.h0.pt

theorem HI_rBlock {c : Cfg} {s s' : State} (h : HI c s) (hs : stepRBlock c s = some s') :
    HI c s' := by
  unfold stepRBlock at hs; split at hs
  · dsimp only at hs; split at hs <;> simp only [Option.some.injEq] at hs <;> subst hs <;>
      exact HI_congr h rfl rfl rfl rfl rfl rfl rfl rfl rfl h.h0.pt
  · simp at hs

theorem HI_rEmpty {c : Cfg} {s s' : State} (h : HI c s) (hs : stepREmpty c s = some s') :
    HI c s' := by
  unfold stepREmpty at hs; split at hs <;> simp at hs; subst hs
  exact HI_congr h rfl rfl rfl rfl rfl rfl rfl rfl rfl h.h0.pt

theorem HI_rEof {c : Cfg} {s s' : State} (h : HI c s) (hs : stepREof s = some s') : HI c s' := by
  unfold stepREof at hs; split at hs <;> simp at hs; subst hs
  exact HI_congr h rfl rfl rfl rfl rfl rfl rfl rfl rfl h.h0.pt

theorem HI_wDone {c : Cfg} {s s' : State} (h : HI c s) (hs : stepWDone s = some s') : HI c s' := by
  unfold stepWDone at hs; split at hs <;> simp at hs; subst hs
  exact HI_congr h rfl rfl rfl rfl rfl rfl rfl rfl rfl h.h0.pt

theorem HI_parseStart {c : Cfg} {s s' : State} (h : HI c s)
    (hs : stepParseStart c s = some s') : HI c s' := by
  unfold stepParseStart at hs; split at hs
  · next hg =>
    simp only [Bool.and_eq_true, beq_iff_eq] at hg
    have hd := (select_parse hg.1.2).2
    simp only [Option.some.injEq] at hs; subst hs
    refine HI_congr h rfl rfl rfl rfl rfl rfl rfl rfl rfl ?_
    intro hh
    have hh' : s.pdone = true := hh
    rw [hd] at hh'; cases hh'
  · simp at hs

/-! ### queue shuffles -/

theorem mem_erase_ne {α} [BEq α] [LawfulBEq α] {a b : α} {l : List α} (h : a ∈ l) (hne : a ≠ b) :
    a ∈ l.erase b := (List.mem_erase_of_ne hne).2 h

/-- a frame from field equalities and "emit jobs only move" -/
theorem Fr_same {c : Cfg} {s s' : State}
    (e1 : s'.orderQ = s.orderQ) (e2 : s'.reordQ = s.reordQ) (e3 : s'.gnext = s.gnext)
    (e4 : s'.pdone = s.pdone) (e8 : s'.orphans = s.orphans) (e9 : s'.head = s.head)
    (mE : ∀ e, EIn s e → EIn s' e) : Fr c s s' := by
  refine ⟨e1, e2, e3, e4, mE, ?_, ?_⟩
  · show offs c s.head ≤ offs c s'.head; rw [e9]; exact Nat.le_refl _
  · intro _ u hu; rw [e8] at hu; exact Or.inl hu

theorem HI_retrStart {c : Cfg} {s s' : State} {j : Job} (h : HI c s)
    (hs : stepRetrStart c s j = some s') : HI c s' := by
  unfold stepRetrStart at hs; split at hs
  · next hg =>
    simp only [Bool.and_eq_true, List.contains_iff_mem] at hg
    have hj : j ∈ s.retrQ := hg.1.2
    simp only [Option.some.injEq] at hs; subst hs
    refine HI_frame h (Fr_same rfl rfl rfl rfl rfl rfl ?_) h.h0.pt ?_
    · intro e he
      rcases he with he | he | he
      · exact Or.inl he
      · exact Or.inr (Or.inl (List.mem_cons_of_mem _ he))
      · exact Or.inr (Or.inr (List.mem_cons_of_mem _ he))
    · intro b i _ hm
      obtain ⟨j0, hj0, hb, hmc⟩ := hm
      rcases hj0 with hq | ⟨k0, hk0⟩
      · by_cases hjj : j0 = j
        · subst hjj
          exact Or.inl ⟨_, Or.inr ⟨_, List.mem_cons_self⟩, hb, hmc⟩
        · exact Or.inl ⟨j0, Or.inl (mem_erase_ne hq hjj), hb, hmc⟩
      · exact Or.inl ⟨j0, Or.inr ⟨k0, List.mem_cons_of_mem _ hk0⟩, hb, hmc⟩
  · simp at hs

theorem HI_retrPost {c : Cfg} {s s' : State} {e : EJob} (h : HI c s)
    (hs : stepRetrPost s e = some s') : HI c s' := by
  unfold stepRetrPost at hs; split at hs
  · simp only [Option.some.injEq] at hs; subst hs
    refine HI_frame h (Fr_same rfl rfl rfl rfl rfl rfl ?_) h.h0.pt ?_
    · intro e0 he
      rcases he with he | he | he
      · exact Or.inl (List.mem_cons_of_mem _ he)
      · by_cases hee : e0 = e
        · subst hee; exact Or.inl List.mem_cons_self
        · exact Or.inr (Or.inl (mem_erase_ne he (by intro hh; cases hh; exact hee rfl)))
      · exact Or.inr (Or.inr (mem_erase_ne he (by intro hh; cases hh)))
    · intro b i _ hm
      obtain ⟨j0, hj0, hb, hmc⟩ := hm
      rcases hj0 with hq | ⟨k0, hk0⟩
      · exact Or.inl ⟨j0, Or.inl hq, hb, hmc⟩
      · exact Or.inl ⟨j0, Or.inr ⟨k0, mem_erase_ne hk0 (by intro hh; cases hh)⟩, hb, hmc⟩
  · simp at hs

theorem HI_emitStart {c : Cfg} {s s' : State} {e : EJob} (h : HI c s)
    (hs : stepEmitStart c s e = some s') : HI c s' := by
  unfold stepEmitStart at hs; split at hs
  · simp only [Option.some.injEq] at hs; subst hs
    refine HI_frame h (Fr_same rfl rfl rfl rfl rfl rfl ?_) h.h0.pt ?_
    · intro e0 he
      rcases he with he | he | he
      · by_cases hee : e0 = e
        · subst hee; exact Or.inr (Or.inr List.mem_cons_self)
        · exact Or.inl (mem_erase_ne he hee)
      · exact Or.inr (Or.inl (List.mem_cons_of_mem _ he))
      · exact Or.inr (Or.inr (List.mem_cons_of_mem _ he))
    · intro b i _ hm
      obtain ⟨j0, hj0, hb, hmc⟩ := hm
      rcases hj0 with hq | ⟨k0, hk0⟩
      · exact Or.inl ⟨j0, Or.inl hq, hb, hmc⟩
      · exact Or.inl ⟨j0, Or.inr ⟨k0, List.mem_cons_of_mem _ hk0⟩, hb, hmc⟩
  · simp at hs

theorem HI_scanStart {c : Cfg} {s s' : State} {sp : Nat} (h : HI c s)
    (hs : stepScanStart c s sp = some s') : HI c s' := by
  unfold stepScanStart at hs; split at hs
  · simp only [Option.some.injEq] at hs; subst hs
    refine HI_frame h (Fr_same rfl rfl rfl rfl rfl rfl ?_) h.h0.pt ?_
    · intro e0 he
      rcases he with he | he | he
      · exact Or.inl he
      · exact Or.inr (Or.inl (List.mem_cons_of_mem _ he))
      · exact Or.inr (Or.inr (List.mem_cons_of_mem _ he))
    · intro b i _ hm
      obtain ⟨j0, hj0, hb, hmc⟩ := hm
      rcases hj0 with hq | ⟨k0, hk0⟩
      · exact Or.inl ⟨j0, Or.inl hq, hb, hmc⟩
      · exact Or.inl ⟨j0, Or.inr ⟨k0, List.mem_cons_of_mem _ hk0⟩, hb, hmc⟩
  · simp at hs

/-! ### emitEnd -/

theorem Cov_emitEnd {s s' : State} {e : EJob} {b m : Nat}
    (hE : ∀ e0, EIn s e0 → e0 ≠ e → EIn s' e0) (hR : ∀ o ∈ s.reordQ, o ∈ s'.reordQ)
    (hO : ∃ o ∈ s'.reordQ, o.base = e.base ∧ o.idx = e.idx)
    (hN : 1 < e.left → ∃ e', EIn s' e' ∧ e'.base = e.base ∧ e'.idx = e.idx + 1 ∧
      e'.left = e.left - 1)
    (h : Cov s b m) : Cov s' b m := by
  rcases h with ⟨e0, he, h1, h2⟩ | ⟨o, ho, h1, h2⟩
  · by_cases hee : e0 = e
    · subst hee
      by_cases hm : m ≤ e0.idx
      · obtain ⟨o, ho, o1, o2⟩ := hO
        exact Or.inr ⟨o, ho, o1.trans h1, by omega⟩
      · obtain ⟨e', he', q1, q2, q3⟩ := hN (by omega)
        exact Or.inl ⟨e', he', q1.trans h1, by omega⟩
    · exact Or.inl ⟨e0, hE e0 he hee, h1, h2⟩
  · exact Or.inr ⟨o, hR o ho, h1, h2⟩

theorem HI_emitEnd_core {c : Cfg} {s s' : State} {e : EJob} {onew : OB} (h : HI c s)
    (e1 : s'.orderQ = s.orderQ) (e3 : s'.gnext = s.gnext)
    (e4 : s'.pdone = s.pdone) (e7 : s'.retrQ = s.retrQ) (e8 : s'.orphans = s.orphans)
    (eT : s'.ptok = s.ptok)
    (e6 : s'.busy = s.busy.erase (.emit e))
    (e2 : s'.reordQ = onew :: s.reordQ) (o1 : onew.base = e.base) (o2 : onew.idx = e.idx)
    (e5 : ∀ e0 ∈ s.emitQ, e0 ∈ s'.emitQ)
    (hN : 1 < e.left → ∃ e', e' ∈ s'.emitQ ∧ e'.base = e.base ∧ e'.idx = e.idx + 1 ∧
      e'.left = e.left - 1)
    (hL : onew.st = .more → 1 < e.left) : HI c s' := by
  have hE : ∀ e0, EIn s e0 → e0 ≠ e → EIn s' e0 := by
    intro e0 he hne
    rcases he with he | he | he
    · exact Or.inl (e5 e0 he)
    · exact Or.inr (Or.inl (by rw [e6]; exact mem_erase_ne he (by intro hh; cases hh)))
    · have hne' : Phase.emit e0 ≠ Phase.emit e := by intro hh; cases hh; exact hne rfl
      exact Or.inr (Or.inr (by rw [e6]; exact mem_erase_ne he hne'))
  have hR : ∀ o ∈ s.reordQ, o ∈ s'.reordQ := by
    intro o ho; rw [e2]; exact List.mem_cons_of_mem _ ho
  have hO : ∃ o ∈ s'.reordQ, o.base = e.base ∧ o.idx = e.idx :=
    ⟨onew, by rw [e2]; exact List.mem_cons_self, o1, o2⟩
  have hN' : 1 < e.left → ∃ e', EIn s' e' ∧ e'.base = e.base ∧ e'.idx = e.idx + 1 ∧
      e'.left = e.left - 1 := by
    intro hl; obtain ⟨e', h1, h2⟩ := hN hl; exact ⟨e', Or.inl h1, h2⟩
  have cov : ∀ {b m}, Cov s b m → Cov s' b m := fun hc => Cov_emitEnd hE hR hO hN' hc
  have hnew : onew.st = .more → Cov s' onew.base (onew.idx + 1) := by
    intro hst
    obtain ⟨e', h1, h2, h3, h4⟩ := hN' (hL hst)
    have := hL hst
    exact Or.inl ⟨e', h1, h2.trans o1.symm, by omega⟩
  obtain ⟨⟨a1, a2, a3, a4, a5, a6, a8⟩, b1⟩ := h
  refine ⟨⟨?_, ?_, ?_, ?_, ?_, ?_, ?_⟩, ?_⟩
  · intro o ho hst i hi hle
    rw [e2] at ho; rw [e1] at hi
    rcases List.mem_cons.1 ho with ho | ho
    · subst ho; exact hnew hst
    · exact cov (a1 o ho hst i hi hle)
  · intro hd o ho hst hg
    rw [e2] at ho; rw [e3] at hg; rw [e4] at hd
    rcases List.mem_cons.1 ho with ho | ho
    · subst ho; exact hnew hst
    · exact cov (a2 hd o ho hst hg)
  · rw [e1]; exact a3
  · intro b i hi; rw [e1] at hi; rw [e3]; exact a4 b i hi
  · intro b i hi; rw [e1] at hi; exact a5 b i hi
  · intro hd u hu hq hg
    rw [e8] at hu; rw [e3] at hg; rw [e4] at hd
    exact cov (a6 hd u hu hq hg)
  · intro hd; rw [e4] at hd; rw [eT]; exact a8 hd
  · intro b i hi
    rw [e1] at hi
    rcases b1 b i hi with hm | hc
    · obtain ⟨j0, hj0, hb, hmc⟩ := hm
      refine Or.inl ⟨j0, ?_, hb, hmc⟩
      rcases hj0 with hq | ⟨k0, hk0⟩
      · exact Or.inl (by rw [e7]; exact hq)
      · exact Or.inr ⟨k0, by rw [e6]; exact mem_erase_ne hk0 (by intro hh; cases hh)⟩
    · exact Or.inr (cov hc)

theorem HI_emitEnd {c : Cfg} {s s' : State} {e : EJob} (h : HI c s)
    (hs : stepEmitEnd s e = some s') : HI c s' := by
  unfold stepEmitEnd at hs; split at hs
  · dsimp only at hs
    split at hs
    · next hl =>
      simp only [Option.some.injEq] at hs; subst hs
      refine HI_emitEnd_core (e := e) h rfl rfl rfl rfl rfl rfl rfl rfl rfl rfl ?_ ?_ ?_
      · intro e0 he; exact List.mem_cons_of_mem _ he
      · intro _; exact ⟨_, List.mem_cons_self, rfl, rfl, rfl⟩
      · intro _; exact hl
    · next hl =>
      simp only [Option.some.injEq] at hs; subst hs
      refine HI_emitEnd_core (e := e) h rfl rfl rfl rfl rfl rfl rfl rfl rfl rfl ?_ ?_ ?_
      · intro e0 he; exact he
      · intro hl'; exact absurd hl' hl
      · intro hst
        have hst' : (if e.ok = true then OSt.ok else OSt.err) = OSt.more := hst
        split at hst' <;> cases hst'
  · simp at hs

/-! ### reorder -/

theorem Cov_erase {s s' : State} {ob : OB} {b m : Nat} (mE : ∀ e, EIn s e → EIn s' e)
    (hR : ∀ o ∈ s.reordQ, o ≠ ob → o ∈ s'.reordQ) (h : Cov s b m)
    (hn : ob.base = b → ob.idx < m) : Cov s' b m := by
  rcases h with ⟨e, he, h1, h2⟩ | ⟨o, ho, h1, h2⟩
  · exact Or.inl ⟨e, mE e he, h1, h2⟩
  · refine Or.inr ⟨o, hR o ho ?_, h1, h2⟩
    intro hh; subst hh
    have := hn h1; omega

/-- `do_reorder` takes `ob` out of `reord_q` and turns `order_q` into `q'`:
    fine as long as `ob` is no longer needed as the cover of anything -/
theorem HI_reorder_core {c : Cfg} {s s' : State} {ob : OB} {q' : List (Nat × Nat)} (h : HI c s)
    (e1 : s'.orderQ = q') (e2 : s'.reordQ = s.reordQ.erase ob) (e3 : s'.gnext = s.gnext)
    (e4 : s'.pdone = s.pdone) (e5 : s'.emitQ = s.emitQ) (e6 : s'.busy = s.busy)
    (e7 : s'.retrQ = s.retrQ) (e8 : s'.orphans = s.orphans) (eT : s'.ptok = s.ptok)
    (Q1 : ∀ b i, (b, i) ∈ q' → ∃ i0, i0 ≤ i ∧ (b, i0) ∈ s.orderQ)
    (Q2 : ∀ b i, (b, i) ∈ q' → McJob s b ∨ Cov s b i)
    (N1 : ∀ b i, (b, i) ∈ q' → ob.base = b → ob.idx < i)
    (N2 : s.pdone = false → ob.base ≤ s.gnext)
    (hsrt : q'.Pairwise (fun x y => x.1 < y.1))
    (hei : ∀ b i, (b, i) ∈ q' → i < (if (rres c b).ok then (rres c b).nb else 1)) :
    HI c s' := by
  have mE : ∀ e, EIn s e → EIn s' e := by
    intro e he; simpa [EIn, e5, e6] using he
  have hR : ∀ o ∈ s.reordQ, o ≠ ob → o ∈ s'.reordQ := by
    intro o ho hne; rw [e2]; exact mem_erase_ne ho hne
  obtain ⟨⟨a1, a2, a3, a4, a5, a6, a8⟩, b1⟩ := h
  refine ⟨⟨?_, ?_, ?_, ?_, ?_, ?_, ?_⟩, ?_⟩
  · intro o ho hst i hi hle
    rw [e2] at ho; rw [e1] at hi
    obtain ⟨i0, hi0, hm0⟩ := Q1 _ _ hi
    refine Cov_erase mE hR (a1 o (List.mem_of_mem_erase ho) hst i0 hm0 (by omega)) ?_
    intro hb; have := N1 _ _ hi hb; omega
  · intro hd o ho hst hg
    rw [e2] at ho; rw [e3] at hg; rw [e4] at hd
    refine Cov_erase mE hR (a2 hd o (List.mem_of_mem_erase ho) hst hg) ?_
    intro hb; have := N2 hd; omega
  · rw [e1]; exact hsrt
  · intro b i hi; rw [e1] at hi; rw [e3]
    obtain ⟨i0, _, hm0⟩ := Q1 _ _ hi
    exact a4 b i0 hm0
  · intro b i hi; rw [e1] at hi; exact hei b i hi
  · intro hd u hu hq hg
    rw [e8] at hu; rw [e3] at hg; rw [e4] at hd
    refine Cov_erase mE hR (a6 hd u hu hq hg) ?_
    intro hb; have := N2 hd; omega
  · intro hd; rw [e4] at hd; rw [eT]; exact a8 hd
  · intro b i hi
    rw [e1] at hi
    rcases Q2 b i hi with hm | hc
    · obtain ⟨j0, hj0, hb, hmc⟩ := hm
      exact Or.inl ⟨j0, by simpa [JIn, e6, e7] using hj0, hb, hmc⟩
    · exact Or.inr (Cov_erase mE hR hc (N1 b i hi))

theorem bogus_facts {c : Cfg} {s : State} {ob : OB}
    (hsel : selectTask c s = some "reorder")
    (hmin : minKey? (s.reordQ.map OB.key) = some ob.key)
    (hb : dReorderBogus (view c s) = true) :
    (s.orderQ = [] ∧ s.pdone = true) ∨
    (∃ x r, s.orderQ = x :: r ∧ (ob.base < x.1 ∨ (ob.base = x.1 ∧ ob.idx < x.2))) := by
  have hc := select_reorder hsel
  cases hq : s.orderQ with
  | nil =>
    simp [dCanReorder, view, hq] at hc
    exact Or.inl ⟨rfl, hc.2⟩
  | cons x r =>
    simp only [dReorderBogus, view, hq, hmin, List.isEmpty_cons, List.head?_cons,
      Bool.false_or] at hb
    refine Or.inr ⟨x, r, rfl, ?_⟩
    simp only [posLt, OB.key, Bool.or_eq_true, Bool.and_eq_true, beq_iff_eq] at hb
    rcases hb with hb | ⟨hb1, hb2⟩
    · exact Or.inl (of_decide_eq_true hb)
    · exact Or.inr ⟨hb1, of_decide_eq_true hb2⟩

theorem HI_reorder {c : Cfg} {s s' : State} {ob : OB} (h : HI c s) (hS : SI c s)
    (hs : stepReorder c s ob = some s') (hf' : s'.failed = false) : HI c s' := by
  unfold stepReorder at hs; split at hs
  · next hg =>
    simp only [Bool.and_eq_true, List.contains_iff_mem, beq_iff_eq] at hg
    obtain ⟨⟨⟨_, hsel⟩, hmem⟩, hmin⟩ := hg
    have hob := hS.obs ob hmem
    split at hs
    · next hb =>
      simp only [Option.some.injEq] at hs; subst hs
      rcases bogus_facts hsel hmin hb with ⟨hq, hpd⟩ | ⟨x, r, hq, hlt⟩
      · refine HI_reorder_core (ob := ob) (q' := s.orderQ) h rfl rfl rfl rfl rfl rfl rfl rfl rfl
          ?_ ?_ ?_ ?_ h.h0.srt h.h0.ei
        · intro b i hi; rw [hq] at hi; cases hi
        · intro b i hi; rw [hq] at hi; cases hi
        · intro b i hi; rw [hq] at hi; cases hi
        · intro hd; rw [hpd] at hd; cases hd
      · have hleast : ∀ b i, (b, i) ∈ s.orderQ → (b, i) = x ∨ x.1 < b := by
          intro b i hi
          have hp := h.h0.srt
          rw [hq] at hi hp
          rcases List.mem_cons.1 hi with hi | hi
          · exact Or.inl hi
          · exact Or.inr ((List.pairwise_cons.1 hp).1 _ hi)
        have hx : x ∈ s.orderQ := by rw [hq]; exact List.mem_cons_self
        have hxg : x.1 ≤ s.gnext := h.h0.og x.1 x.2 hx
        refine HI_reorder_core (ob := ob) (q' := s.orderQ) h rfl rfl rfl rfl rfl rfl rfl rfl rfl
          ?_ h.h1 ?_ ?_ h.h0.srt h.h0.ei
        · intro b i hi; exact ⟨i, Nat.le_refl _, hi⟩
        · intro b i hi hb'
          rcases hleast b i hi with he | hl
          · subst he
            simp only at hlt; omega
          · omega
        · intro _; omega
    · next hb =>
      have hb' : dReorderBogus (view c s) = false := by simpa using hb
      obtain ⟨r, hr⟩ := reorder_head hsel hmin hb'
      have hp := h.h0.srt
      rw [hr] at hp
      have hpc := List.pairwise_cons.1 hp
      have hhead : (ob.base, ob.idx) ∈ s.orderQ := by rw [hr]; exact List.mem_cons_self
      have hrsub : ∀ x ∈ r, x ∈ s.orderQ := by
        intro x hx; rw [hr]; exact List.mem_cons_of_mem _ hx
      have hN2 : s.pdone = false → ob.base ≤ s.gnext := fun _ => h.h0.og _ _ hhead
      split at hs
      · simp only [Option.some.injEq] at hs; subst hs
        cases hf'
      · next hst =>
        simp only [Option.some.injEq] at hs; subst hs
        have hob' : (rres c ob.base).ok = true ∧ ob.idx + 1 < (rres c ob.base).nb := by
          simpa [obOK, hst] using hob
        refine HI_reorder_core (ob := ob) (q' := (ob.base, ob.idx + 1) :: r) h
          (by simp only [hr]) rfl rfl rfl rfl rfl rfl rfl rfl ?_ ?_ ?_ hN2 ?_ ?_
        · intro b i hi
          rcases List.mem_cons.1 hi with hi | hi
          · cases hi; exact ⟨ob.idx, Nat.le_succ _, hhead⟩
          · exact ⟨i, Nat.le_refl _, hrsub _ hi⟩
        · intro b i hi
          rcases List.mem_cons.1 hi with hi | hi
          · cases hi
            exact Or.inr (h.h0.ch ob hmem hst ob.idx hhead (Nat.le_refl _))
          · exact h.h1 b i (hrsub _ hi)
        · intro b i hi hb0
          rcases List.mem_cons.1 hi with hi | hi
          · cases hi; exact Nat.lt_succ_self _
          · have := hpc.1 _ hi
            simp only at this; omega
        · exact List.pairwise_cons.2 ⟨hpc.1, hpc.2⟩
        · intro b i hi
          rcases List.mem_cons.1 hi with hi | hi
          · cases hi; simp only [hob'.1, if_true]; exact hob'.2
          · exact h.h0.ei b i (hrsub _ hi)
      · next hst =>
        simp only [Option.some.injEq] at hs; subst hs
        refine HI_reorder_core (ob := ob) (q' := r) h
          (by simp only [hr, List.tail_cons]) rfl rfl rfl rfl rfl rfl rfl rfl ?_ ?_ ?_ hN2 hpc.2 ?_
        · intro b i hi; exact ⟨i, Nat.le_refl _, hrsub _ hi⟩
        · intro b i hi; exact h.h1 b i (hrsub _ hi)
        · intro b i hi hb0
          have := hpc.1 _ hi
          simp only at this; omega
        · intro b i hi; exact h.h0.ei b i (hrsub _ hi)
  · simp at hs

/-! ### jobs only move -/

def JM (s s' : State) : Prop := ∀ j, JIn s j → JIn s' j

theorem JM.mc {s s' : State} (m : JM s s') {b : Nat} (h : McJob s b) : McJob s' b := by
  obtain ⟨j, hj, hb, hmc⟩ := h
  exact ⟨j, m j hj, hb, hmc⟩

theorem JM_of_eq {s s' : State} (e6 : s'.busy = s.busy) (e7 : s'.retrQ = s.retrQ) : JM s s' := by
  intro j hj; simpa [JIn, e6, e7] using hj

theorem JM_detach (s : State) (k : Option Nat) : JM s (detach s k) :=
  JM_of_eq (detach_fields s k).2.2.2.2.2.2.1 (detach_fields s k).2.2.2.2.2.2.2.1

theorem HI_frame' {c : Cfg} {s s' : State} (h : HI c s) (f : Fr c s s')
    (eT : s'.pdone = true → s'.ptok = true) (m : JM s s') : HI c s' :=
  HI_frame h f eT (fun _ _ _ hm => Or.inl (m.mc hm))

/-! ### advance -/

theorem Fr_advance {c : Cfg} {s : State} (p : Nat) : Fr c s (advance c s p) :=
  ⟨rfl, rfl, rfl, rfl, fun _ h => h, headOffs_advance_ge c s p, fun _ _ hu => Or.inl hu⟩

/-! ### scanEnd -/

theorem EIn_erase {s : State} {ph : Phase} (hn : ∀ e, ph ≠ Phase.retr2 e ∧ ph ≠ Phase.emit e)
    {e : EJob} (he : EIn s e) : EIn { s with busy := s.busy.erase ph } e := by
  rcases he with he | he | he
  · exact Or.inl he
  · exact Or.inr (Or.inl (mem_erase_ne he (fun hh => (hn e).1 hh.symm)))
  · exact Or.inr (Or.inr (mem_erase_ne he (fun hh => (hn e).2 hh.symm)))

theorem Fr_busy_erase (c : Cfg) (s : State) {ph : Phase}
    (hn : ∀ e, ph ≠ Phase.retr2 e ∧ ph ≠ Phase.emit e) :
    Fr c s { s with busy := s.busy.erase ph } :=
  Fr_same rfl rfl rfl rfl rfl rfl (fun _ he => EIn_erase hn he)

theorem HI_scanEnd {c : Cfg} {s s' : State} {st k : Nat} (h : HI c s)
    (hs : stepScanEnd c s st k = some s') : HI c s' := by
  unfold stepScanEnd at hs; split at hs
  · have f1 : Fr c s (detach { s with busy := s.busy.erase (.scan st k) } (some k)) :=
      (Fr_busy_erase c s (by intro e; constructor <;> (intro hh; cases hh))).trans (Fr_detach _ _ _)
    have m1 : JM s (detach { s with busy := s.busy.erase (.scan st k) } (some k)) := by
      intro j hj
      apply JM_detach
      rcases hj with hq | ⟨k0, hk0⟩
      · exact Or.inl hq
      · exact Or.inr ⟨k0, mem_erase_ne hk0 (by intro hh; cases hh)⟩
    have hpt : (detach { s with busy := s.busy.erase (.scan st k) } (some k)).ptok = s.ptok :=
      (detach_fields { s with busy := s.busy.erase (.scan st k) } (some k)).1
    generalize detach { s with busy := s.busy.erase (.scan st k) } (some k) = s1 at f1 m1 hpt hs
    have eT1 : s1.pdone = true → s1.ptok = true := by
      intro hd; rw [hpt]; rw [f1.eP] at hd; exact h.h0.pt hd
    have h1 : HI c s1 := HI_frame' h f1 eT1 m1
    dsimp only at hs
    split at hs
    · simp only [Option.some.injEq] at hs; subst hs
      exact HI_congr h1 rfl rfl rfl rfl rfl rfl rfl rfl rfl eT1
    · next x hx =>
      split at hs
      · simp only [Option.some.injEq] at hs; subst hs
        exact HI_congr h1 rfl rfl rfl rfl rfl rfl rfl rfl rfl eT1
      · simp only [Option.some.injEq] at hs; subst hs
        have h2 : HI c (scanNew c s1 x) := by
          unfold scanNew; split
          · exact HI_congr h1 rfl rfl rfl rfl rfl rfl rfl rfl rfl eT1
          · refine HI_frame' h1 (Fr_same rfl rfl rfl rfl rfl rfl (fun _ he => he)) eT1 ?_
            intro j hj
            rcases hj with hq | hk
            · exact Or.inl (List.mem_cons_of_mem _ hq)
            · exact Or.inr hk
        unfold scanRequeue; split
        · exact HI_congr h2 rfl rfl rfl rfl rfl rfl rfl rfl rfl h2.h0.pt
        · exact h2
  · simp at hs

/-! ### retrEnd -/

theorem redundant_not_mc {j : Job} (h : j.redundant = true) : Job.mc j = false := by
  unfold Job.redundant at h; unfold Job.mc
  cases hu : j.ub with
  | none => simp [hu] at h
  | some f =>
    simp only [hu, Bool.and_eq_true, Bool.not_eq_true'] at h ⊢
    simp [h.2]

theorem not_master_not_mc {j : Job} (h : j.master = false) : Job.mc j = false := by
  unfold Job.master at h; unfold Job.mc
  cases hu : j.ub with
  | none => simp [hu] at h
  | some f =>
    simp only [hu] at h ⊢
    simp [h]

theorem no_mc_JIn {s : State} (h : mcount s = 0) {j : Job} (hj : JIn s j)
    (hmc : Job.mc j = true) : False := by
  have hz := mcount_zero_jobs h
  rcases hj with hq | ⟨k, hk⟩
  · rw [hz.1 j hq] at hmc; cases hmc
  · exact no_mc_of_zero h j k hk hmc

theorem retrMove_facts (c : Cfg) (s1 : State) (j : Job) (newc : Nat) :
    Fr c s1 (retrMove c s1 j newc) ∧ (retrMove c s1 j newc).busy = s1.busy ∧
    (j.master = false → (retrMove c s1 j newc).retrQ = s1.retrQ) ∧
    (retrMove c s1 j newc).ptok = s1.ptok ∧
    headOffs c (retrMove c s1 j newc) ≤ max (headOffs c s1) newc := by
  unfold retrMove; split
  · next hm =>
    refine ⟨(Fr_advance newc).trans
      ⟨rfl, rfl, rfl, rfl, fun _ h => h, Nat.le_refl _, fun _ _ hu => Or.inl hu⟩, rfl, ?_, rfl,
      headOffs_advance_le c s1 newc⟩
    intro hh; rw [hm] at hh; cases hh
  · exact ⟨Fr.refl c s1, rfl, fun _ => rfl, rfl, by omega⟩

theorem retrDone_facts (c : Cfg) (s2 : State) (j : Job) (newc : Nat) :
    Fr c s2 (retrDone c s2 j newc) ∧ JM s2 (retrDone c s2 j newc) ∧
    EIn (retrDone c s2 j newc)
      { base := j.base, idx := 0, left := (if (rres c j.base).ok then (rres c j.base).nb else 1),
        ok := (rres c j.base).ok && (rres c j.base).fin, corrupt := j.corrupt } := by
  have hpos := rres_nb_pos c j.base
  have mE : ∀ (bs : List Phase) (ph : Phase) (s' : State), s'.emitQ = s2.emitQ →
      s'.busy = ph :: s2.busy → ∀ e, EIn s2 e → EIn s' e := by
    intro bs ph s' e5 e6 e he
    rcases he with he | he | he
    · exact Or.inl (by rw [e5]; exact he)
    · exact Or.inr (Or.inl (by rw [e6]; exact List.mem_cons_of_mem _ he))
    · exact Or.inr (Or.inr (by rw [e6]; exact List.mem_cons_of_mem _ he))
  have mJ : ∀ (ph : Phase) (s' : State), s'.retrQ = s2.retrQ →
      s'.busy = ph :: s2.busy → JM s2 s' := by
    intro ph s' e7 e6 j0 hj
    rcases hj with hq | ⟨k0, hk0⟩
    · exact Or.inl (by rw [e7]; exact hq)
    · exact Or.inr ⟨k0, by rw [e6]; exact List.mem_cons_of_mem _ hk0⟩
  cases hmas : j.master with
  | true =>
    simp only [retrDone, hmas, if_true]
    exact ⟨Fr_same rfl rfl rfl rfl rfl rfl (mE [] _ _ rfl rfl), mJ _ _ rfl rfl,
      Or.inr (Or.inl List.mem_cons_self)⟩
  | false =>
    simp only [retrDone, hmas, Bool.false_eq_true, if_false]
    refine ⟨⟨rfl, rfl, rfl, rfl, mE [] _ _ rfl rfl, Nat.le_refl _, ?_⟩, mJ _ _ rfl rfl,
      Or.inr (Or.inl List.mem_cons_self)⟩
    intro _ u hu
    rcases List.mem_append.1 hu with hu | hu
    · cases hub : j.ub with
      | none => simp [hub] at hu
      | some f =>
        simp only [hub, List.mem_singleton] at hu
        subst hu
        refine Or.inr (Or.inl ⟨_, Or.inr (Or.inl List.mem_cons_self), rfl, ?_⟩)
        show 0 < 0 + (if (rres c j.base).ok then (rres c j.base).nb else 1)
        split <;> omega
    · exact Or.inl hu

theorem HI_retrEnd {c : Cfg} {s s' : State} {j : Job} {k : Option Nat} (h : HI c s)
    (hS : SI c s) (hA : AI c s) (hs : stepRetrEnd c s j k = some s') : HI c s' := by
  unfold stepRetrEnd at hs; split at hs
  · next hg =>
    have hmem : Phase.retr j k ∈ s.busy := by simpa using hg
    have hj : jobOK c s.gnext j := hS.busy _ hmem
    have hmhj := hA.mh j k hmem
    have hcnt : List.countP Phase.mc (s.busy.erase (.retr j k)) + (if Job.mc j then 1 else 0)
        = List.countP Phase.mc s.busy := countP_erase_add Phase.mc hmem
    have hm1 := hS.mc1
    have hm0 := hS.mc0
    have hf := detach_fields { s with busy := s.busy.erase (.retr j k) } k
    have hmc1 : mcount (detach { s with busy := s.busy.erase (.retr j k) } k)
        + (if Job.mc j then 1 else 0) = mcount s := by
      rw [mcount_detach]
      show List.countP Job.mc s.retrQ + List.countP Phase.mc (s.busy.erase (.retr j k))
        + (if Job.mc j then 1 else 0) = List.countP Job.mc s.retrQ + List.countP Phase.mc s.busy
      omega
    have hho : headOffs c (detach { s with busy := s.busy.erase (.retr j k) } k) = headOffs c s := by
      show offs c _ = offs c _; rw [hf.2.2.2.2.2.2.2.2.2.2.2]
    have f1 : Fr c s (detach { s with busy := s.busy.erase (.retr j k) } k) :=
      (Fr_busy_erase c s (by intro e; constructor <;> (intro hh; cases hh))).trans (Fr_detach _ _ _)
    have hsplit : ∀ j0, JIn s j0 → j0 = j ∨
        JIn (detach { s with busy := s.busy.erase (.retr j k) } k) j0 := by
      intro j0 hj0
      rcases hj0 with hq | ⟨k0, hk0⟩
      · exact Or.inr (JM_detach _ _ _ (Or.inl hq))
      · by_cases he : Phase.retr j0 k0 = Phase.retr j k
        · cases he; exact Or.inl rfl
        · exact Or.inr (JM_detach _ _ _ (Or.inr ⟨k0, mem_erase_ne hk0 he⟩))
    generalize detach { s with busy := s.busy.erase (.retr j k) } k = s1
      at hf hmc1 hs hho f1 hsplit
    obtain ⟨g1, g2, g3, g4, g5, g6, g7, g8, g9, g10, g11, g12⟩ := hf
    have g1 : s1.ptok = s.ptok := g1
    have g5 : s1.pdone = s.pdone := g5
    dsimp only at hs
    have hnge := newc_ge c j k
    generalize retrNewc c j k = newc at hs hnge
    by_cases hpd : s1.pdone = true
    · rw [if_pos hpd] at hs
      simp only [Option.some.injEq] at hs; subst hs
      have hpt : s.ptok = true := h.h0.pt (by rw [← g5]; exact hpd)
      have hz : mcount s = 0 := hm0 (Or.inl hpt)
      have f2 : Fr c s1 (retrExit s1 j) :=
        Fr_same rfl rfl rfl rfl rfl rfl (fun _ he => he)
      refine HI_frame h (f1.trans f2) ?_ ?_
      · intro _; show s1.ptok = true; rw [g1]; exact hpt
      · intro b i _ hm
        obtain ⟨j0, hj0, _, hmc⟩ := hm
        exact (no_mc_JIn hz hj0 hmc).elim
    · rw [if_neg hpd] at hs
      have hpd' : s1.pdone = false := by simpa using hpd
      by_cases hab : j.redundant = true
      · rw [if_pos hab] at hs
        simp only [Option.some.injEq] at hs; subst hs
        have f2 : Fr c s1 (retrExit s1 j) :=
          Fr_same rfl rfl rfl rfl rfl rfl (fun _ he => he)
        refine HI_frame h (f1.trans f2) ?_ ?_
        · intro hd
          have hd' : s1.pdone = true := hd
          rw [hpd'] at hd'; cases hd'
        · intro b i _ hm
          obtain ⟨j0, hj0, hb0, hmc⟩ := hm
          rcases hsplit j0 hj0 with he | hin
          · subst he; rw [redundant_not_mc hab] at hmc; cases hmc
          · exact Or.inl ⟨j0, hin, hb0, hmc⟩
      · rw [if_neg hab] at hs
        have hna' : j.redundant = false := by simpa using hab
        have hmaster : j.master = true → Job.mc j = true := fun hm => master_mc hm hna'
        have hnm : Job.mc j = false → j.master = false := by
          intro hh
          cases hmas : j.master with
          | false => rfl
          | true => rw [hmaster hmas] at hh; cases hh
        obtain ⟨f2, m1, m2, m3, m4⟩ := retrMove_facts c s1 j newc
        have m5 : (retrMove c s1 j newc).pdone = false := by rw [f2.eP]; exact hpd'
        generalize retrMove c s1 j newc = s2 at hs f2 m1 m2 m3 m4 m5
        have eT2 : ∀ t : State, t.pdone = s2.pdone → t.pdone = true → t.ptok = true := by
          intro t ht hd; rw [ht, m5] at hd; cases hd
        -- jobs of `s1` that can be master-capable survive the master's `advance`
        have hkeep : ∀ j0, JIn s1 j0 → Job.mc j0 = true → JIn s2 j0 := by
          intro j0 hj0 hmc0
          cases hmcj : Job.mc j with
          | true =>
            have hz : mcount s1 = 0 := by simp only [hmcj, if_true] at hmc1; omega
            exact (no_mc_JIn hz hj0 hmc0).elim
          | false =>
            have := m2 (hnm hmcj)
            rcases hj0 with hq | ⟨k0, hk0⟩
            · exact Or.inl (by rw [this]; exact hq)
            · exact Or.inr ⟨k0, by rw [m1]; exact hk0⟩
        by_cases hfin : (!decide ((rres c j.base).e ≤ newc)) = true
        · rw [if_pos hfin] at hs
          by_cases hov : newc < headOffs c s2
          · -- overtaken: the job cannot be master-capable
            rw [if_pos hov] at hs
            simp only [Option.some.injEq] at hs; subst hs
            have hnmc : Job.mc j = false := by
              cases hmcj : Job.mc j with
              | false => rfl
              | true => have := hmhj hmcj; omega
            have f3 : Fr c s2 (retrExit s2 (retrMoreJob j newc)) :=
              Fr_same rfl rfl rfl rfl rfl rfl (fun _ he => he)
            refine HI_frame h ((f1.trans f2).trans f3) (eT2 _ rfl) ?_
            intro b i _ hm
            obtain ⟨j0, hj0, hb0, hmc⟩ := hm
            rcases hsplit j0 hj0 with he | hin
            · subst he; rw [hnmc] at hmc; cases hmc
            · exact Or.inl ⟨j0, hkeep j0 hin hmc, hb0, hmc⟩
          · rw [if_neg hov] at hs
            simp only [Option.some.injEq] at hs; subst hs
            have f3 : Fr c s2 (retrMore s2 j newc) :=
              Fr_same rfl rfl rfl rfl rfl rfl (fun _ he => he)
            refine HI_frame h ((f1.trans f2).trans f3) (eT2 _ rfl) ?_
            intro b i _ hm
            obtain ⟨j0, hj0, hb0, hmc⟩ := hm
            rcases hsplit j0 hj0 with he | hin
            · subst he
              exact Or.inl ⟨retrMoreJob j0 newc, Or.inl List.mem_cons_self, hb0,
                by rw [mc_retrMoreJob]; exact hmc⟩
            · rcases hkeep j0 hin hmc with hq | hk
              · exact Or.inl ⟨j0, Or.inl (List.mem_cons_of_mem _ hq), hb0, hmc⟩
              · exact Or.inl ⟨j0, Or.inr hk, hb0, hmc⟩
        · rw [if_neg hfin] at hs
          simp only [Option.some.injEq] at hs; subst hs
          obtain ⟨f3, m6, m7⟩ := retrDone_facts c s2 j newc
          refine HI_frame h ((f1.trans f2).trans f3) ?_ ?_
          · intro hd; rw [f3.eP, m5] at hd; cases hd
          · intro b i hi hm
            obtain ⟨j0, hj0, hb0, hmc⟩ := hm
            rcases hsplit j0 hj0 with he | hin
            · subst he
              refine Or.inr (Or.inl ⟨_, m7, hb0, ?_⟩)
              have := h.h0.ei b i hi
              rw [← hb0] at this
              show i < 0 + (if (rres c j0.base).ok then (rres c j0.base).nb else 1)
              omega
            · exact Or.inl ⟨j0, m6 j0 (hkeep j0 hin hmc), hb0, hmc⟩
  · simp at hs

end LbzVerif.Lemmas.SchedD
