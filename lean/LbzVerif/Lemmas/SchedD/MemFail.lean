/-
  Lemmas.SchedD.MemFail — the state in which `failf` has just been called holds
  no more heap objects than the state before: the three failing transitions
  (`do_reorder` on a bad buffer, `do_parse` on a parse error / on ERR_EOF) leave
  `retr_q`, `emit_q`, the busy workers, the orphans and `output_q` alone and only
  take a buffer out of `reord_q`.  With it the memory bound of C13 extends from
  the non-failed reachable states (where C11's conservation laws are stated)
  to ALL reachable states.
-/
import LbzVerif.Lemmas.SchedD.Mem

namespace LbzVerif.Lemmas.SchedD
open LbzVerif.Model.SchedD LbzVerif.Gen

/-- what a failing transition keeps -/
structure FK (s s' : State) : Prop where
  rq : s'.retrQ = s.retrQ
  eq : s'.emitQ = s.emitQ
  bz : s'.busy = s.busy
  orp : s'.orphans = s.orphans
  oq : s'.outq = s.outq
  ro : s'.reordQ.length ≤ s.reordQ.length

theorem failed_step {c : Cfg} {s s' : State} {l : Label} (hs : step c s l = some s')
    (hf' : s'.failed = true) : FK s s' := by
  unfold step at hs
  split at hs
  · simp at hs
  · next hf0 =>
    cases l with
    | rTake =>
      simp only at hs; unfold stepRTake at hs; split at hs <;> simp at hs; subst hs
      exact absurd hf' hf0
    | rQuit =>
      simp only at hs; unfold stepRQuit at hs; split at hs <;> simp at hs; subst hs
      exact absurd hf' hf0
    | rBlock =>
      simp only at hs; unfold stepRBlock at hs; split at hs
      · dsimp only at hs; split at hs <;> simp only [Option.some.injEq] at hs <;> subst hs <;>
          exact absurd hf' hf0
      · simp at hs
    | rEmpty =>
      simp only at hs; unfold stepREmpty at hs; split at hs <;> simp at hs; subst hs
      exact absurd hf' hf0
    | rEof =>
      simp only at hs; unfold stepREof at hs; split at hs <;> simp at hs; subst hs
      exact absurd hf' hf0
    | wDone =>
      simp only at hs; unfold stepWDone at hs; split at hs <;> simp at hs; subst hs
      exact absurd hf' hf0
    | reorder ob =>
      simp only at hs; unfold stepReorder at hs; split at hs
      · split at hs
        · simp only [Option.some.injEq] at hs; subst hs; exact absurd hf' hf0
        · split at hs <;> simp only [Option.some.injEq] at hs <;> subst hs
          · exact ⟨rfl, rfl, rfl, rfl, rfl, List.Sublist.length_le List.erase_sublist⟩
          · exact absurd hf' hf0
          · exact absurd hf' hf0
      · simp at hs
    | parseStart =>
      simp only at hs; unfold stepParseStart at hs; split at hs
      · simp only [Option.some.injEq] at hs; subst hs; exact absurd hf' hf0
      · simp at hs
    | parseEnd =>
      simp only at hs; unfold stepParseEnd at hs
      split at hs
      · simp at hs
      · next k hk =>
        obtain ⟨d1, d2, d3, _, _, d6⟩ := Leak.detach_flds { s with pphase := none } k
        have d4 : (detach { s with pphase := none } k).emitQ = s.emitQ := by
          unfold detach; split
          · rfl
          · split <;> rfl
        have d5 : (detach { s with pphase := none } k).outq = s.outq ∧
            (detach { s with pphase := none } k).reordQ = s.reordQ := by
          unfold detach; split
          · exact ⟨rfl, rfl⟩
          · split <;> exact ⟨rfl, rfl⟩
        generalize detach { s with pphase := none } k = s1 at hs d1 d2 d3 d4 d5 d6
        have hf1 : ¬ s1.failed = true := by rw [d6]; exact hf0
        dsimp only at hs
        split at hs
        · simp only [Option.some.injEq] at hs; subst hs
          exact absurd hf' hf1
        · simp only [Option.some.injEq] at hs; subst hs
          cases hr : pres c s.porig with
          | err u =>
            rw [hr] at hf'
            have e : (parseVerdict c s1 (.err u)).reordQ = s.reordQ := d5.2
            exact ⟨d2, d4, d3, d1, d5.1, by rw [e]; exact Nat.le_refl _⟩
          | finish u ok =>
            rw [hr] at hf'
            cases ok with
            | false =>
              have e : (parseVerdict c s1 (.finish u false)).reordQ = s.reordQ := d5.2
              exact ⟨d2, d4, d3, d1, d5.1, by rw [e]; exact Nat.le_refl _⟩
            | true =>
              have : (parseVerdict c s1 (.finish u true)).failed = s1.failed := rfl
              rw [this] at hf'; exact absurd hf' hf1
          | hdr b =>
            rw [hr] at hf'
            have : (parseVerdict c s1 (.hdr b)).failed = s1.failed := (eqv_parseOk c s1 b).fl
            rw [this] at hf'; exact absurd hf' hf1
    | retrStart j =>
      simp only at hs; unfold stepRetrStart at hs; split at hs
      · simp only [Option.some.injEq] at hs; subst hs; exact absurd hf' hf0
      · simp at hs
    | retrEnd j k =>
      simp only at hs; unfold stepRetrEnd at hs; split at hs
      · obtain ⟨_, _, _, _, _, d6⟩ := Leak.detach_flds { s with busy := s.busy.erase (.retr j k) } k
        generalize detach { s with busy := s.busy.erase (.retr j k) } k = s1 at hs d6
        have hf1 : ¬ s1.failed = true := by rw [d6]; exact hf0
        dsimp only at hs
        generalize retrNewc c j k = newc at hs
        have h2 : (retrMove c s1 j newc).failed = s1.failed := (eqv_retrMove c s1 j newc).fl
        generalize retrMove c s1 j newc = s2 at h2 hs
        split at hs
        · simp only [Option.some.injEq] at hs; subst hs; exact absurd hf' hf1
        · split at hs
          · simp only [Option.some.injEq] at hs; subst hs; exact absurd hf' hf1
          · split at hs
            · split at hs
              · simp only [Option.some.injEq] at hs; subst hs
                exact absurd (h2 ▸ hf' : s1.failed = true) hf1
              · simp only [Option.some.injEq] at hs; subst hs
                exact absurd (h2 ▸ hf' : s1.failed = true) hf1
            · simp only [Option.some.injEq] at hs; subst hs
              have h3 := (eqv_retrDone c s2 j newc).fl
              rw [h3, h2] at hf'; exact absurd hf' hf1
      · simp at hs
    | retrPost e =>
      simp only at hs; unfold stepRetrPost at hs; split at hs
      · simp only [Option.some.injEq] at hs; subst hs; exact absurd hf' hf0
      · simp at hs
    | emitStart e =>
      simp only at hs; unfold stepEmitStart at hs; split at hs
      · simp only [Option.some.injEq] at hs; subst hs; exact absurd hf' hf0
      · simp at hs
    | emitEnd e =>
      simp only at hs; unfold stepEmitEnd at hs; split at hs
      · dsimp only at hs
        split at hs <;> simp only [Option.some.injEq] at hs <;> subst hs <;> exact absurd hf' hf0
      · simp at hs
    | scanStart sp =>
      simp only at hs; unfold stepScanStart at hs; split at hs
      · simp only [Option.some.injEq] at hs; subst hs; exact absurd hf' hf0
      · simp at hs
    | scanEnd st k =>
      simp only at hs; unfold stepScanEnd at hs; split at hs
      · obtain ⟨_, _, _, _, _, d6⟩ :=
          Leak.detach_flds { s with busy := s.busy.erase (.scan st k) } (some k)
        generalize detach { s with busy := s.busy.erase (.scan st k) } (some k) = s1 at hs d6
        have hf1 : ¬ s1.failed = true := by rw [d6]; exact hf0
        dsimp only at hs
        split at hs
        · simp only [Option.some.injEq] at hs; subst hs; exact absurd hf' hf1
        · next x hx =>
          split at hs
          · simp only [Option.some.injEq] at hs; subst hs; exact absurd hf' hf1
          · simp only [Option.some.injEq] at hs; subst hs
            have h3 := (eqv_scanRequeue c (scanNew c s1 x) x (offs c (k + 1))).fl
            have h4 := (eqv_scanNew c s1 x).fl
            rw [h3, h4] at hf'; exact absurd hf' hf1
      · simp at hs

/-- a reachable failed state has a reachable non-failed predecessor that holds
    at least as much -/
theorem failed_pred {c : Cfg} {s : State} (h : Reach c s) (hf : s.failed = true) :
    ∃ s0, Reach c s0 ∧ s0.failed = false ∧ FK s0 s := by
  cases h with
  | init => simp [init] at hf
  | step l hr hs => exact ⟨_, hr, step_not_failed hs, failed_step hs hf⟩

/-- decoders, output buffers and unord_blks in ANY reachable state -/
theorem holders_le_all {c : Cfg} (hW : 0 < c.W) (hn : 1 ≤ c.n) (ho : EMIT_THRESH < c.totalOut)
    {s : State} (h : Reach c s) :
    decHolders s ≤ c.n ∧ slotsHeld s ≤ c.totalOut ∧ unordLive s ≤ unordCap c.n c.totalOut + c.n := by
  cases hf : s.failed with
  | false =>
    have a := dec_le h hf
    have b := slots_le h hf
    exact ⟨by omega, by omega, unordLive_le hW hn ho h hf⟩
  | true =>
    obtain ⟨s0, h0, hf0, k⟩ := failed_pred h hf
    have a := dec_le h0 hf0
    have b := slots_le h0 hf0
    have d := unordLive_le hW hn ho h0 hf0
    have e1 : decHolders s = decHolders s0 := by simp only [decHolders, k.rq, k.eq, k.bz]
    have e2 : slotsHeld s ≤ slotsHeld s0 := by
      have := k.ro
      simp only [slotsHeld, emitBusy, k.bz, k.oq]; omega
    have e3 : unordLive s = unordLive s0 := by simp only [unordLive, k.rq, k.orp, k.bz]
    exact ⟨by omega, by omega, by omega⟩

end LbzVerif.Lemmas.SchedD
