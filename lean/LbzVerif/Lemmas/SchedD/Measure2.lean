/-
  Lemmas.SchedD.Measure2 — every transition of a reachable state of the
  expansion scheduler strictly decreases the measure `mu` of Measure.lean in
  the well-founded lexicographic order `muLt`; hence there is no infinite run.
-/
import LbzVerif.Lemmas.SchedD.Measure
import LbzVerif.Lemmas.SchedD.Witness

namespace LbzVerif.Lemmas.SchedD
open LbzVerif.Model.SchedD LbzVerif.Gen

local macro "mfin" : tactic =>
  `(tactic| (all_goals (try exact Nat.le_refl _)
             all_goals (try simp only [m0, m1, m2, m3, m4, m5, m6, m7, m8, m9, msum_cons, scanBW,
               retrBW, emitBW, moveBW, jobW, rphW, List.length_cons])
             all_goals (try omega)))

/-! ### the reader and the writer -/

theorem mu_rTake {c : Cfg} {s s' : State} (hs : stepRTake s = some s') :
    muLt (mu c s') (mu c s) := by
  unfold stepRTake at hs; split at hs
  · next hg =>
    simp only [Bool.and_eq_true, beq_iff_eq] at hg
    have hr := hg.1.1
    simp only [Option.some.injEq] at hs; subst hs
    refine dec1 (Nat.le_of_eq rfl) ?_
    simp only [m1, hr, rphW]; omega
  · simp at hs

theorem mu_rQuit {c : Cfg} {s s' : State} (hs : stepRQuit s = some s') :
    muLt (mu c s') (mu c s) := by
  unfold stepRQuit at hs; split at hs
  · next hg =>
    simp only [Bool.and_eq_true, beq_iff_eq] at hg
    have hr := hg.1
    simp only [Option.some.injEq] at hs; subst hs
    refine dec1 (Nat.le_of_eq rfl) ?_
    simp only [m1, hr, rphW]; omega
  · simp at hs

theorem rphW_le (r : RPhase) : rphW r ≤ 3 := by cases r <;> simp [rphW]

theorem mu_rBlock {c : Cfg} (hW : 0 < c.W) {s s' : State} (hs : stepRBlock c s = some s') :
    muLt (mu c s') (mu c s) := by
  unfold stepRBlock at hs; split at hs
  · next hg =>
    simp only [Bool.and_eq_true, beq_iff_eq, decide_eq_true_eq] at hg
    have hr := hg.1
    have hn : s.nread < c.T := by
      have : s.nread ≤ s.nread * c.W := Nat.le_mul_of_pos_right _ hW
      omega
    dsimp only at hs
    have h3 := rphW_le (if (s.nread + 1) * c.W ≤ c.T then RPhase.idle else RPhase.ateof)
    generalize (if (s.nread + 1) * c.W ≤ c.T then RPhase.idle else RPhase.ateof) = r' at hs h3
    split at hs <;> simp only [Option.some.injEq] at hs <;> subst hs <;>
      refine dec1 (Nat.le_of_eq rfl) ?_ <;> simp only [m1, hr] <;>
      have h2 : rphW RPhase.hold = 2 := rfl <;> omega
  · simp at hs

theorem mu_rEmpty {c : Cfg} {s s' : State} (hs : stepREmpty c s = some s') :
    muLt (mu c s') (mu c s) := by
  unfold stepREmpty at hs; split at hs
  · next hg =>
    simp only [Bool.and_eq_true, beq_iff_eq] at hg
    have hr := hg.1
    simp only [Option.some.injEq] at hs; subst hs
    refine dec1 (Nat.le_of_eq rfl) ?_
    simp only [m1, hr, rphW]; omega
  · simp at hs

theorem mu_rEof {c : Cfg} {s s' : State} (hs : stepREof s = some s') :
    muLt (mu c s') (mu c s) := by
  unfold stepREof at hs; split at hs
  · next hg =>
    simp only [beq_iff_eq] at hg
    simp only [Option.some.injEq] at hs; subst hs
    refine dec1 (Nat.le_of_eq rfl) ?_
    simp only [m1, hg, rphW]; omega
  · simp at hs

theorem mu_wDone {c : Cfg} {s s' : State} (hs : stepWDone s = some s') :
    muLt (mu c s') (mu c s) := by
  unfold stepWDone at hs; split at hs
  · next hg =>
    simp only [decide_eq_true_eq] at hg
    simp only [Option.some.injEq] at hs; subst hs
    refine dec8 ?_ ?_ ?_ ?_ ?_ ?_ ?_ ?_ ?_
    mfin
  · simp at hs

/-! ### `do_reorder` -/

theorem mu_reorder {c : Cfg} {s s' : State} {ob : OB} (hf : s.failed = false)
    (hs : stepReorder c s ob = some s') : muLt (mu c s') (mu c s) := by
  unfold stepReorder at hs; split at hs
  · next hg =>
    simp only [Bool.and_eq_true, List.contains_iff_mem] at hg
    have hm : ob ∈ s.reordQ := hg.1.2
    have e1 := List.length_erase_of_mem hm
    have e2 := List.length_pos_of_mem hm
    split at hs
    · simp only [Option.some.injEq] at hs; subst hs
      refine dec8 ?_ ?_ ?_ ?_ ?_ ?_ ?_ ?_ ?_
      mfin
    · split at hs <;> simp only [Option.some.injEq] at hs <;> subst hs
      · apply dec0; simp [m0, hf]
      · refine dec8 ?_ ?_ ?_ ?_ ?_ ?_ ?_ ?_ ?_
        mfin
      · refine dec8 ?_ ?_ ?_ ?_ ?_ ?_ ?_ ?_ ?_
        mfin
  · simp at hs

/-! ### hand-overs between queues and workers -/

theorem mu_parseStart {c : Cfg} {s s' : State} (hs : stepParseStart c s = some s') :
    muLt (mu c s') (mu c s) := by
  unfold stepParseStart at hs; split at hs
  · next hg =>
    simp only [Bool.and_eq_true, beq_iff_eq, Option.isNone_iff_eq_none] at hg
    have hpt := (select_parse hg.1.2).1
    have hpp := hg.2
    simp only [Option.some.injEq] at hs; subst hs
    refine dec9 ?_ ?_ ?_ ?_ ?_ ?_ ?_ ?_ ?_ ?_
    all_goals (try exact Nat.le_refl _)
    simp [m9, hpt, hpp]
  · simp at hs

theorem mu_retrStart {c : Cfg} {s s' : State} {j : Job} (hs : stepRetrStart c s j = some s') :
    muLt (mu c s') (mu c s) := by
  unfold stepRetrStart at hs; split at hs
  · next hg =>
    simp only [Bool.and_eq_true, List.contains_iff_mem] at hg
    have hj : j ∈ s.retrQ := hg.1.2
    have e1 := List.length_erase_of_mem hj
    have e2 := List.length_pos_of_mem hj
    have e3 := msum_erase (jobW c) hj
    simp only [jobW] at e3
    simp only [Option.some.injEq] at hs; subst hs
    refine dec9 ?_ ?_ ?_ ?_ ?_ ?_ ?_ ?_ ?_ ?_
    mfin
  · simp at hs

theorem mu_retrPost {c : Cfg} {s s' : State} {e : EJob} (hs : stepRetrPost s e = some s') :
    muLt (mu c s') (mu c s) := by
  unfold stepRetrPost at hs; split at hs
  · next hg =>
    have hm : Phase.retr2 e ∈ s.busy := by simpa using hg
    have e1 := msum_erase (scanBW c) hm
    have e2 := msum_erase (retrBW c) hm
    have e3 := msum_erase emitBW hm
    have e4 := msum_erase moveBW hm
    simp only [scanBW, retrBW, emitBW, moveBW] at e1 e2 e3 e4
    simp only [Option.some.injEq] at hs; subst hs
    refine dec9 ?_ ?_ ?_ ?_ ?_ ?_ ?_ ?_ ?_ ?_
    mfin
  · simp at hs

theorem mu_emitStart {c : Cfg} {s s' : State} {e : EJob} (hs : stepEmitStart c s e = some s') :
    muLt (mu c s') (mu c s) := by
  unfold stepEmitStart at hs; split at hs
  · next hg =>
    simp only [Bool.and_eq_true, List.contains_iff_mem] at hg
    have hj : e ∈ s.emitQ := hg.1.2
    have e1 := List.length_erase_of_mem hj
    have e2 := List.length_pos_of_mem hj
    have e3 := msum_erase EJob.left hj
    simp only [Option.some.injEq] at hs; subst hs
    refine dec9 ?_ ?_ ?_ ?_ ?_ ?_ ?_ ?_ ?_ ?_
    mfin
  · simp at hs

theorem mu_emitEnd {c : Cfg} {s s' : State} {e : EJob} (hS : SI c s)
    (hs : stepEmitEnd s e = some s') : muLt (mu c s') (mu c s) := by
  unfold stepEmitEnd at hs; split at hs
  · next hg =>
    have hm : Phase.emit e ∈ s.busy := by simpa using hg
    have hl : 1 ≤ e.left := (hS.busy _ hm).1
    have e1 := msum_erase (scanBW c) hm
    have e2 := msum_erase (retrBW c) hm
    have e3 := msum_erase emitBW hm
    simp only [scanBW, retrBW, emitBW] at e1 e2 e3
    dsimp only at hs
    split at hs <;> simp only [Option.some.injEq] at hs <;> subst hs
    · refine dec7 ?_ ?_ ?_ ?_ ?_ ?_ ?_ ?_
      mfin
    · refine dec7 ?_ ?_ ?_ ?_ ?_ ?_ ?_ ?_
      mfin
  · simp at hs

theorem scanStart_ge (c : Cfg) (s : State) (sp : Nat) :
    sp ≤ (if sp / c.W == s.ppos / c.W && sp < s.ppos then s.ppos else sp) := by
  split
  · next hh =>
    simp only [Bool.and_eq_true, decide_eq_true_eq] at hh
    omega
  · exact Nat.le_refl _

theorem mu_scanStart {c : Cfg} {s s' : State} {sp : Nat} (hs : stepScanStart c s sp = some s') :
    muLt (mu c s') (mu c s) := by
  unfold stepScanStart at hs; split at hs
  · next hg =>
    simp only [Bool.and_eq_true, List.contains_iff_mem] at hg
    have hj : sp ∈ s.scanQ := hg.1.2
    have e1 := List.length_erase_of_mem hj
    have e2 := List.length_pos_of_mem hj
    have e3 := msum_erase (scanQW c) hj
    have hge := scanStart_ge c s sp
    simp only [Option.some.injEq] at hs
    generalize (if sp / c.W == s.ppos / c.W && sp < s.ppos then s.ppos else sp) = start at hs hge
    have e4 := candCnt_mono c (offs c (sp / c.W + 1)) hge
    simp only [scanQW] at e3
    subst hs
    refine dec9 ?_ ?_ ?_ ?_ ?_ ?_ ?_ ?_ ?_ ?_
    mfin
  · simp at hs

/-! ### frames for `detach`, `advance`, `retrMove` -/

/-- the significant fields stay; `scan_q` and `retr_q` only lose weight -/
structure MU (c : Cfg) (s s' : State) : Prop where
  fl : s'.failed = s.failed
  nr : s'.nread = s.nread
  rp : s'.rph = s.rph
  pd : s'.pdone = s.pdone
  gn : s'.gnext = s.gnext
  bz : s'.busy = s.busy
  sq : msum (scanQW c) s'.scanQ ≤ msum (scanQW c) s.scanQ
  rq : msum (jobW c) s'.retrQ ≤ msum (jobW c) s.retrQ

theorem MU.refl (c : Cfg) (s : State) : MU c s s :=
  ⟨rfl, rfl, rfl, rfl, rfl, rfl, Nat.le_refl _, Nat.le_refl _⟩

theorem MU.trans {c : Cfg} {s s' s'' : State} (h1 : MU c s s') (h2 : MU c s' s'') : MU c s s'' :=
  ⟨h2.fl.trans h1.fl, h2.nr.trans h1.nr, h2.rp.trans h1.rp, h2.pd.trans h1.pd, h2.gn.trans h1.gn,
   h2.bz.trans h1.bz, Nat.le_trans h2.sq h1.sq, Nat.le_trans h2.rq h1.rq⟩

theorem MU_detach (c : Cfg) (s : State) (k : Option Nat) : MU c s (detach s k) := by
  unfold detach; split
  · exact MU.refl c s
  · split
    · exact ⟨rfl, rfl, rfl, rfl, rfl, rfl, Nat.le_refl _, Nat.le_refl _⟩
    · exact MU.refl c s

theorem MU_advance (c : Cfg) (s : State) (p : Nat) : MU c s (advance c s p) :=
  ⟨rfl, rfl, rfl, rfl, rfl, rfl, msum_filter_le _ _ _, msum_filter_le _ _ _⟩

theorem MU_retrMove (c : Cfg) (s : State) (j : Job) (n : Nat) : MU c s (retrMove c s j n) := by
  unfold retrMove; split
  · exact ⟨rfl, rfl, rfl, rfl, rfl, rfl, msum_filter_le _ _ _, msum_filter_le _ _ _⟩
  · exact MU.refl c s

/-- a worker leaves its phase `ph`; then `detach` / `advance` -/
theorem MU_erase {c : Cfg} {s t : State} {ph : Phase} (hm : ph ∈ s.busy)
    (h : MU c { s with busy := s.busy.erase ph } t) :
    m0 t = m0 s ∧ m1 c t = m1 c s ∧ m2 t = m2 s ∧ m3 c t = m3 c s ∧ t.pdone = s.pdone ∧
    m5 c t + scanBW c ph ≤ m5 c s ∧ m6 c t + retrBW c ph ≤ m6 c s := by
  obtain ⟨a1, a2, a3, a4, a5, a6, a7, a8⟩ := h
  dsimp only at a1 a2 a3 a4 a5 a6 a7 a8
  have e1 := msum_erase (scanBW c) hm
  have e2 := msum_erase (retrBW c) hm
  refine ⟨?_, ?_, ?_, ?_, a4, ?_, ?_⟩
  · unfold m0; rw [a1]
  · unfold m1; rw [a2, a3]
  · unfold m2; rw [a4]
  · unfold m3; rw [a5]
  · unfold m5; rw [a6]; omega
  · unfold m6; rw [a6]; omega

theorem m4_le {c : Cfg} {s s' : State} (hpd : s'.pdone = s.pdone)
    (hpp : s'.pdone = false → s.ppos ≤ s'.ppos) : m4 c s' ≤ m4 c s := by
  unfold m4; rw [hpd]
  cases h : s.pdone with
  | true => exact Nat.le_refl _
  | false =>
    have := hpp (hpd.trans h)
    simp only [Bool.false_eq_true, if_false]; omega

/-! ### `do_scan`, second half -/

theorem scanNew_fields (c : Cfg) (s : State) (x : Nat) :
    (scanNew c s x).failed = s.failed ∧ (scanNew c s x).nread = s.nread ∧
    (scanNew c s x).rph = s.rph ∧ (scanNew c s x).pdone = s.pdone ∧
    (scanNew c s x).gnext = s.gnext ∧ (scanNew c s x).busy = s.busy ∧
    (scanNew c s x).scanQ = s.scanQ := by
  unfold scanNew; split
  · exact ⟨rfl, rfl, rfl, rfl, rfl, rfl, rfl⟩
  · exact ⟨rfl, rfl, rfl, rfl, rfl, rfl, rfl⟩

theorem scanRequeue_fields (c : Cfg) (s : State) (x hi : Nat) :
    (scanRequeue c s x hi).failed = s.failed ∧ (scanRequeue c s x hi).nread = s.nread ∧
    (scanRequeue c s x hi).rph = s.rph ∧ (scanRequeue c s x hi).pdone = s.pdone ∧
    (scanRequeue c s x hi).gnext = s.gnext ∧ (scanRequeue c s x hi).busy = s.busy ∧
    ((scanRequeue c s x hi).scanQ = s.scanQ ∨
      (x ≠ hi ∧ (scanRequeue c s x hi).scanQ = x :: s.scanQ)) := by
  unfold scanRequeue; split
  · next hq =>
    simp only [Bool.and_eq_true, bne_iff_ne, ne_eq, decide_eq_true_eq] at hq
    exact ⟨rfl, rfl, rfl, rfl, rfl, rfl, Or.inr ⟨hq.1, rfl⟩⟩
  · exact ⟨rfl, rfl, rfl, rfl, rfl, rfl, Or.inl rfl⟩

theorem mu_scanEnd {c : Cfg} (hW : 0 < c.W) {s s' : State} {st k : Nat} (hr : Reach c s)
    (hpp : s'.pdone = false → s.ppos ≤ s'.ppos)
    (hs : stepScanEnd c s st k = some s') : muLt (mu c s') (mu c s) := by
  unfold stepScanEnd at hs; split at hs
  · next hg =>
    have hm : Phase.scan st k ∈ s.busy := by simpa using hg
    have htb := (ui_reach hW hr).tb st k hm
    have hU := MU_erase hm (MU_detach c { s with busy := s.busy.erase (.scan st k) } (some k))
    generalize detach { s with busy := s.busy.erase (.scan st k) } (some k) = s1 at hU hs
    obtain ⟨u0, u1, u2, u3, upd, u5, u6⟩ := hU
    simp only [scanBW] at u5
    dsimp only at hs
    split at hs
    · simp only [Option.some.injEq] at hs; subst hs
      refine dec5 (Nat.le_of_eq u0) (Nat.le_of_eq u1) (Nat.le_of_eq u2) (Nat.le_of_eq u3)
        (m4_le upd hpp) ?_
      show m5 c s1 < m5 c s
      omega
    · next x hx =>
      split at hs
      · simp only [Option.some.injEq] at hs; subst hs
        refine dec5 (Nat.le_of_eq u0) (Nat.le_of_eq u1) (Nat.le_of_eq u2) (Nat.le_of_eq u3)
          (m4_le upd hpp) ?_
        show m5 c s1 < m5 c s
        omega
      · simp only [Option.some.injEq] at hs; subst hs
        obtain ⟨n1, n2, n3, n4, n5, n6, n7⟩ := scanNew_fields c s1 x
        obtain ⟨r1, r2, r3, r4, r5, r6, r7⟩ :=
          scanRequeue_fields c (scanNew c s1 x) x (offs c (k + 1))
        have hrg := scanFind_range hx
        have hcnt := candCnt_found hx
        generalize scanRequeue c (scanNew c s1 x) x (offs c (k + 1)) = t at *
        generalize scanNew c s1 x = s2 at *
        have h0 : m0 t = m0 s := by rw [← u0]; unfold m0; rw [r1, n1]
        have h1 : m1 c t = m1 c s := by rw [← u1]; unfold m1; rw [r2, n2, r3, n3]
        have h2 : m2 t = m2 s := by rw [← u2]; unfold m2; rw [r4, n4]
        have h3 : m3 c t = m3 c s := by rw [← u3]; unfold m3; rw [r5, n5]
        have hpd : t.pdone = s.pdone := by rw [r4, n4, upd]
        refine dec5 (Nat.le_of_eq h0) (Nat.le_of_eq h1) (Nat.le_of_eq h2) (Nat.le_of_eq h3)
          (m4_le hpd hpp) ?_
        have h5 : m5 c t ≤ m5 c s1 + (if x = offs c (k + 1) then 0 else scanQW c x) := by
          unfold m5
          rw [r6, n6]
          rcases r7 with e | ⟨hne, e⟩
          · rw [e, n7]; omega
          · rw [e, n7, msum_cons, if_neg hne]; omega
        by_cases hxe : x = offs c (k + 1)
        · rw [if_pos hxe] at h5; omega
        · rw [if_neg hxe] at h5
          have hk : x / c.W = k := div_eq_block htb hrg.1 (by omega)
          have : scanQW c x = 1 + candCnt c x (offs c (k + 1)) := by unfold scanQW; rw [hk]
          omega
  · simp at hs

/-! ### `do_retrieve`, second half -/

theorem retrDone_m (c : Cfg) (t : State) (j : Job) (n : Nat) :
    m0 (retrDone c t j n) = m0 t ∧ m1 c (retrDone c t j n) = m1 c t ∧
    m2 (retrDone c t j n) = m2 t ∧ m3 c (retrDone c t j n) = m3 c t ∧
    (retrDone c t j n).pdone = t.pdone ∧
    m5 c (retrDone c t j n) = m5 c t ∧ m6 c (retrDone c t j n) = m6 c t := by
  unfold retrDone; dsimp only; split <;> refine ⟨rfl, rfl, rfl, rfl, rfl, ?_, ?_⟩ <;>
    simp only [m5, m6, msum_cons, scanBW, retrBW] <;> omega

theorem retrMore_m6 (c : Cfg) (t : State) (j : Job) (n : Nat) :
    m6 c (retrMore t j n) = (c.T + 1 - n) + m6 c t := by
  simp only [m6, retrMore, msum_cons, jobW, retrMoreJob]; omega

theorem mu_retrEnd {c : Cfg} (hW : 0 < c.W) {s s' : State} {j : Job} {k : Option Nat}
    (hr : Reach c s) (hpp : s'.pdone = false → s.ppos ≤ s'.ppos)
    (hs : stepRetrEnd c s j k = some s') : muLt (mu c s') (mu c s) := by
  unfold stepRetrEnd at hs; split at hs
  · next hg =>
    have hm : Phase.retr j k ∈ s.busy := by simpa using hg
    have hcT : j.curr ≤ c.T :=
      Nat.le_trans ((ni_reach hW hr).jt j (Or.inr ⟨k, hm⟩)) (tailOffs_le c s)
    have hK : retrK c s.pdone (.retr j k) := rk_reach hW hr _ hm
    have hlt : ¬ (rres c j.base).e ≤ retrNewc c j k → s.pdone = false →
        j.curr < retrNewc c j k := by
      intro h1 h2
      cases k with
      | none =>
        simp only [retrNewc] at h1 ⊢
        rcases hK with h | h
        · rw [h2] at h; cases h
        · exact absurd h h1
      | some kk =>
        simp only [retrNewc] at h1 ⊢
        have : j.curr < offs c (kk + 1) := hK
        omega
    have hU1 := MU_detach c { s with busy := s.busy.erase (.retr j k) } k
    dsimp only at hs
    generalize detach { s with busy := s.busy.erase (.retr j k) } k = s1 at hU1 hs
    generalize retrNewc c j k = newc at hs hlt
    have hE2 := MU_erase hm (hU1.trans (MU_retrMove c s1 j newc))
    obtain ⟨u0, u1, u2, u3, upd, u5, u6⟩ := MU_erase hm hU1
    simp only [scanBW, retrBW, jobW] at u5 u6
    split at hs
    · simp only [Option.some.injEq] at hs; subst hs
      refine dec6 (Nat.le_of_eq u0) (Nat.le_of_eq u1) (Nat.le_of_eq u2) (Nat.le_of_eq u3)
        (m4_le upd hpp) ?_ ?_
      · show m5 c s1 ≤ m5 c s; omega
      · show m6 c s1 < m6 c s; omega
    · next hpd =>
      have hpd' : s.pdone = false := by
        rw [← upd]; simpa using hpd
      split at hs
      · simp only [Option.some.injEq] at hs; subst hs
        refine dec6 (Nat.le_of_eq u0) (Nat.le_of_eq u1) (Nat.le_of_eq u2) (Nat.le_of_eq u3)
          (m4_le upd hpp) ?_ ?_
        · show m5 c s1 ≤ m5 c s; omega
        · show m6 c s1 < m6 c s; omega
      · clear u0 u1 u2 u3 upd u5 u6
        obtain ⟨u0, u1, u2, u3, upd, u5, u6⟩ := hE2
        simp only [scanBW, retrBW, jobW] at u5 u6
        generalize retrMove c s1 j newc = s2 at *
        split at hs
        · next hfin =>
          have hfin' : ¬ (rres c j.base).e ≤ newc := by simpa using hfin
          have hcn := hlt hfin' hpd'
          split at hs
          · simp only [Option.some.injEq] at hs; subst hs
            refine dec6 (Nat.le_of_eq u0) (Nat.le_of_eq u1) (Nat.le_of_eq u2) (Nat.le_of_eq u3)
              (m4_le upd hpp) ?_ ?_
            · show m5 c s2 ≤ m5 c s; omega
            · show m6 c s2 < m6 c s; omega
          · simp only [Option.some.injEq] at hs; subst hs
            have h6 := retrMore_m6 c s2 j newc
            refine dec6 (Nat.le_of_eq u0) (Nat.le_of_eq u1) (Nat.le_of_eq u2) (Nat.le_of_eq u3)
              (m4_le upd hpp) ?_ ?_
            · show m5 c s2 ≤ m5 c s; omega
            · omega
        · simp only [Option.some.injEq] at hs; subst hs
          obtain ⟨d0, d1, d2, d3, dpd, d5, d6⟩ := retrDone_m c s2 j newc
          refine dec6 (Nat.le_of_eq (d0.trans u0)) (Nat.le_of_eq (d1.trans u1))
            (Nat.le_of_eq (d2.trans u2)) (Nat.le_of_eq (d3.trans u3))
            (m4_le (dpd.trans upd) hpp) ?_ ?_
          · omega
          · omega
  · simp at hs

/-! ### `do_parse`, second half -/

theorem parseMatch_fields (c : Cfg) (s : State) (b : Nat) :
    (parseMatch c s b).failed = s.failed ∧ (parseMatch c s b).nread = s.nread ∧
    (parseMatch c s b).rph = s.rph ∧ (parseMatch c s b).pdone = s.pdone ∧
    (parseMatch c s b).gnext = s.gnext := by
  unfold parseMatch; split
  · exact ⟨rfl, rfl, rfl, rfl, rfl⟩
  · split
    · exact ⟨rfl, rfl, rfl, rfl, rfl⟩
    · split
      · dsimp only; split
        · exact ⟨rfl, rfl, rfl, rfl, rfl⟩
        · exact ⟨rfl, rfl, rfl, rfl, rfl⟩
      · exact ⟨rfl, rfl, rfl, rfl, rfl⟩

theorem parseOk_fields (c : Cfg) (s : State) (b : Nat) :
    (parseOk c s b).failed = s.failed ∧ (parseOk c s b).nread = s.nread ∧
    (parseOk c s b).rph = s.rph ∧ (parseOk c s b).pdone = s.pdone ∧
    (parseOk c s b).gnext = (rres c b).e := by
  obtain ⟨a1, a2, a3, a4, a5⟩ := parseMatch_fields c (parsePush c s b) b
  unfold parseOk
  exact ⟨a1, a2, a3, a4, a5⟩

theorem mu_parseEnd {c : Cfg} (hW : 0 < c.W) {s s' : State} (hr : Reach c s)
    (hf : s.failed = false) (hs : stepParseEnd c s = some s') : muLt (mu c s') (mu c s) := by
  unfold stepParseEnd at hs
  split at hs
  · simp at hs
  · next k hk =>
    have hS : SI c s := by simpa [Good, hf] using good_reach hr
    have hpd : s.pdone = false := hS.pd (by simp [hk])
    have hpo : s.porig = s.gnext := hS.porig (Or.inr (by simp [hk]))
    have hpT : s.ppos ≤ c.T := Nat.le_trans ((ni_reach hW hr).pt hpd) (tailOffs_le c s)
    have hgT := hS.gle
    have hpk := (pi_reach_all hr).pk
    obtain ⟨a1, a2, a3, a4, a5, _, _, _⟩ := MU_detach c { s with pphase := none } k
    dsimp only at a1 a2 a3 a4 a5
    dsimp only at hs
    generalize detach { s with pphase := none } k = s1 at hs a1 a2 a3 a4 a5
    have h0 : m0 s1 = m0 s := by unfold m0; rw [a1]
    have h1 : m1 c s1 = m1 c s := by unfold m1; rw [a2, a3]
    have h2 : m2 s1 = m2 s := by unfold m2; rw [a4]
    have h3 : m3 c s1 = m3 c s := by unfold m3; rw [a5]
    split at hs
    · next hmore =>
      simp only [Option.some.injEq] at hs; subst hs
      cases k with
      | none => simp [parseMoreP] at hmore
      | some kk =>
        have hlt := hpk kk hk
        refine dec4 (Nat.le_of_eq h0) (Nat.le_of_eq h1) (Nat.le_of_eq h2) (Nat.le_of_eq h3) ?_
        show (if s1.pdone then 0 else c.T + 1 - offs c (kk + 1)) < m4 c s
        unfold m4
        rw [a4, hpd]
        simp only [Bool.false_eq_true, if_false]
        omega
    · simp only [Option.some.injEq] at hs; subst hs
      cases hp : pres c s.porig with
      | err u =>
        apply dec0
        simp [m0, parseVerdict, hf]
      | finish u ok =>
        cases ok with
        | false =>
          apply dec0
          simp [m0, parseVerdict, hf]
        | true =>
          simp only [parseVerdict, Bool.not_true, Bool.false_eq_true, if_false]
          refine dec2 (Nat.le_of_eq h0) (Nat.le_of_eq h1) ?_
          simp [m2, parseFinish, hpd]
      | hdr b =>
        obtain ⟨b1, b2, b3, b4, b5⟩ := parseOk_fields c s1 b
        have hb := pres_hdr hp
        have hge := rres_ge c b
        show muLt (mu c (parseOk c s1 b)) (mu c s)
        generalize parseOk c s1 b = t at *
        refine dec3 ?_ ?_ ?_ ?_
        · rw [← h0]; unfold m0; rw [b1]; exact Nat.le_refl _
        · rw [← h1]; unfold m1; rw [b2, b3]; exact Nat.le_refl _
        · rw [← h2]; unfold m2; rw [b4]; exact Nat.le_refl _
        · unfold m3; rw [b5]; omega

/-! ### all transitions -/

/-- **the measure decreases**: every transition of a reachable state of the
    expansion scheduler (reader, writer, and every section of every task — the
    model has no spurious wake-up label) strictly decreases `mu` in the
    lexicographic order `muLt` (well-founded: `muLt_wf`).  Needs only non-empty
    input blocks (`0 < W`); no assumption on the number of workers or slots. -/
theorem step_measure {c : Cfg} (hW : 0 < c.W) {s s' : State} {l : Label} (h : Reach c s)
    (hs : step c s l = some s') : muLt (mu c s') (mu c s) := by
  have hpp : s'.pdone = false → s.ppos ≤ s'.ppos := ppos_mono h hs
  unfold step at hs
  split at hs
  · simp at hs
  · next hf =>
    have hf' : s.failed = false := by simpa using hf
    have hS : SI c s := by simpa [Good, hf'] using good_reach h
    cases l with
    | rTake => exact mu_rTake hs
    | rQuit => exact mu_rQuit hs
    | rBlock => exact mu_rBlock hW hs
    | rEmpty => exact mu_rEmpty hs
    | rEof => exact mu_rEof hs
    | wDone => exact mu_wDone hs
    | reorder ob => exact mu_reorder hf' hs
    | parseStart => exact mu_parseStart hs
    | parseEnd => exact mu_parseEnd hW h hf' hs
    | retrStart j => exact mu_retrStart hs
    | retrEnd j k => exact mu_retrEnd hW h hpp hs
    | retrPost e => exact mu_retrPost hs
    | emitStart e => exact mu_emitStart hs
    | emitEnd e => exact mu_emitEnd hS hs
    | scanStart sp => exact mu_scanStart hs
    | scanEnd st k => exact mu_scanEnd hW h hpp hs

/-- **termination**: the expansion scheduler has no infinite run.  For every
    sequence of states `f 0, f 1, …` and labels `ℓ 0, ℓ 1, …` with `f 0`
    reachable, some `f i →ℓ i→ f (i+1)` is not a transition of the model (any
    worker count, slot totals, input and scheduling; no fairness assumed). -/
theorem no_infinite_run {c : Cfg} (hW : 0 < c.W) (f : Nat → State) (ℓ : Nat → Label)
    (h0 : Reach c (f 0)) : ¬ ∀ i, step c (f i) (ℓ i) = some (f (i + 1)) := by
  intro hstep
  have hreach : ∀ i, Reach c (f i) := by
    intro i
    induction i with
    | zero => exact h0
    | succ i ih => exact .step (ℓ i) ih (hstep i)
  apply mu_no_descending_chain muLt_wf (fun i => mu c (f i))
  intro i
  exact step_measure hW (hreach i) (hstep i)

/-- along every non-empty run from a reachable state the measure goes down
    (transitively) -/
theorem run_measure {c : Cfg} (hW : 0 < c.W) {s s' : State} (ls : List Label) (h : Reach c s)
    (hr : run c s ls = some s') (hne : ls ≠ []) : Relation.TransGen muLt (mu c s') (mu c s) := by
  induction ls generalizing s with
  | nil => exact absurd rfl hne
  | cons l ls ih =>
    simp only [run] at hr
    split at hr
    · next s1 h1 =>
      have hd := step_measure hW h h1
      cases ls with
      | nil =>
        simp only [run, Option.some.injEq] at hr; subst hr
        exact .single hd
      | cons l2 ls2 =>
        exact .tail (ih (Reach.step l h h1) hr (by simp)) hd
    · exact absurd hr (by simp)

/-! ### non-vacuity -/

/-- the measure of the initial state of the witness configuration `cfgF4`
    (6 input blocks of 2 units, T = 12) -/
example : m0 (init cfgF4) = 1 ∧ m1 cfgF4 (init cfgF4) = 4 * 12 + 3 ∧ m2 (init cfgF4) = 1 ∧
    m3 cfgF4 (init cfgF4) = 13 ∧ m4 cfgF4 (init cfgF4) = 13 ∧ m5 cfgF4 (init cfgF4) = 0 ∧
    m6 cfgF4 (init cfgF4) = 0 ∧ m7 (init cfgF4) = 0 ∧ m8 (init cfgF4) = 0 ∧
    m9 (init cfgF4) = 2 := by decide +kernel

/-- a concrete first step and its decrease -/
example : ∃ s', step cfgF4 (init cfgF4) .rTake = some s' ∧
    muLt (mu cfgF4 s') (mu cfgF4 (init cfgF4)) := by
  cases h : step cfgF4 (init cfgF4) .rTake with
  | none => exact absurd h (by decide +kernel)
  | some s' => exact ⟨s', rfl, step_measure (by decide) .init h⟩

/-- the complete run `traceF2` (37 transitions, ending in the terminated
    state): the measure goes down all the way -/
example : ∃ s', run cfgF4 (init cfgF4) traceF2 = some s' ∧ terminated cfgF4 s' = true ∧
    Relation.TransGen muLt (mu cfgF4 s') (mu cfgF4 (init cfgF4)) := by
  have hf := f2_repaired
  cases h : run cfgF4 (init cfgF4) traceF2 with
  | none => rw [h] at hf; cases hf
  | some s' =>
    rw [h] at hf
    simp only [Option.any_some, Bool.and_eq_true] at hf
    exact ⟨s', rfl, hf.1.1.1, run_measure (by decide) traceF2 .init h (by decide)⟩

end LbzVerif.Lemmas.SchedD
