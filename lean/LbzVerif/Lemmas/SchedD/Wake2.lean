/-
  Lemmas.SchedD.Wake2 — the end of the worker loop in the refined expansion
  scheduler `Model.SchedDW`:

  * `terminated_no_step`: a terminated state of the base model (`can_terminate()`
    holds, nothing selectable) has no successor at all;
  * `exit_final`: a worker leaves the loop only in the terminated state, and
    from the first exit (`xbroadcast`) on nobody is in `xwait`;
  * `running_count`: the workers inside a task (`running`) are exactly the busy
    workers of the base model (`busyCount`), so the base model's `freeWorker`
    guard never blocks a worker standing at the top of the loop
    (`inloop_free`);
  * `wake_witness_signal` / `wake_witness_exit`: a concrete run (two workers
    asleep, woken by the reader's `eof` section, parse, exit + broadcast) that
    reaches the non-trivial cases of `no_lost_wakeup` and `exit_final`.
-/
import LbzVerif.Lemmas.SchedD.Wake
import LbzVerif.Lemmas.SchedD.Input

namespace LbzVerif.Lemmas.SchedD
open LbzVerif.Gen LbzVerif.Model.SchedD LbzVerif.Model.SchedDW

/-! ### (c) exit only when finished -/

/-- what `terminated` says, field by field -/
theorem terminated_fields {c : Cfg} {s : State} (ht : terminated c s = true) :
    s.failed = false ∧ finished c s = true ∧ selectTask c s = none ∧ s.eof = true := by
  simp only [terminated, Bool.and_eq_true, Bool.not_eq_true', Option.isNone_iff_eq_none] at ht
  obtain ⟨⟨hf, hd⟩, hs⟩ := ht
  refine ⟨hf, hd, hs, ?_⟩
  simp only [dCanTerminate, view, Bool.and_eq_true] at hd
  exact hd.1.1.1.1

/-- **a terminated state has no successor**: every queue is empty, nobody is
    busy, the writer is idle, the reader is done, nothing is selectable. -/
theorem terminated_no_step {c : Cfg} (hW : 0 < c.W) {s : State} {l : Label} (h : Reach c s)
    (ht : terminated c s = true) : step c s l = none := by
  obtain ⟨_, _, hb, hpp, _, hoq⟩ := terminated_quiescent h ht
  obtain ⟨_, _, hsel, heof⟩ := terminated_fields ht
  have hrd : s.rph = .done := (ni_reach hW h).rdn.2 heof
  unfold step
  split
  · rfl
  cases l <;>
    simp [stepRTake, stepRQuit, stepRBlock, stepREmpty, stepREof, stepWDone, stepReorder,
      stepParseStart, stepParseEnd, stepRetrStart, stepRetrEnd, stepRetrPost, stepEmitStart,
      stepEmitEnd, stepScanStart, stepScanEnd, hrd, hsel, hb, hpp, hoq]

theorem unlockW_exited {c : Cfg} {w w' : WState} {k : Nat} (h : unlockW c w k = some w')
    (he : WPh.exited ∈ w'.ws) : WPh.exited ∈ w.ws := by
  rcases (unlockW_inv h).2.2.2 with ⟨e, _⟩ | ⟨_, e⟩
  · rw [e] at he; exact he
  · rw [e] at he
    rcases wmem_set he with e' | e'
    · cases e'
    · exact e'

theorem exit_core {c : Cfg} (hW : 0 < c.W) {w w' : WState} (hr : ReachW c w)
    (hf : w.base.failed = false) (h : WCore c w w')
    (ih : WPh.exited ∈ w.ws → terminated c w.base = true ∧ ∀ p ∈ w.ws, p ≠ .waiting) :
    WPh.exited ∈ w'.ws → terminated c w'.base = true ∧ ∀ p ∈ w'.ws, p ≠ .waiting := by
  have hb := reachW_base hr
  -- once a worker has exited no base step is possible
  have dead : WPh.exited ∈ w.ws → ∀ {l b}, step c w.base l = some b → False := by
    intro he l b hs
    rw [terminated_no_step hW hb (ih he).1] at hs; cases hs
  have ofSet : ∀ {i : Nat} {p : WPh}, p ≠ .exited → WPh.exited ∈ w.ws.set i p →
      WPh.exited ∈ w.ws := by
    intro i p hp he
    rcases wmem_set he with e | e
    · exact absurd e.symm hp
    · exact e
  intro he
  cases h with
  | io l b _ hs => exact (dead he hs).elim
  | ioS l k b w' _ _ hs hu =>
    have he' := unlockW_exited hu he
    exact (dead he' hs).elim
  | acquire i _ _ =>
    obtain ⟨ht, hn⟩ := ih (ofSet (by decide) he)
    refine ⟨ht, ?_⟩
    intro p hp
    rcases wmem_set hp with e | e
    · rw [e]; decide
    · exact hn p e
  | reorder i l b _ _ _ _ hs => exact (dead he hs).elim
  | run i l k b w' _ _ _ _ _ hs hu =>
    have he' := unlockW_exited hu he
    exact (dead (ofSet (p := .running) (by decide) he') hs).elim
  | relockU i l k b w' _ _ _ hs _ hu =>
    have he' := unlockW_exited hu he
    exact (dead he' hs).elim
  | relockL i l b _ _ _ hs _ => exact (dead (ofSet (by decide) he) hs).elim
  | wait i _ _ _ hfin =>
    obtain ⟨ht, _⟩ := ih (ofSet (by decide) he)
    rw [(terminated_fields ht).2.1] at hfin; cases hfin
  | exit i _ _ hn hfin =>
    refine ⟨?_, wbroadcast_no_waiting _⟩
    have hsel : selectTask c w.base = none := by rw [← (wi_reach hr).nt]; exact hn
    show terminated c w.base = true
    unfold finished at hfin
    simp [terminated, hf, hfin, hsel]
  | spurious i hw =>
    obtain ⟨_, hn⟩ := ih (ofSet (by decide) he)
    exact absurd rfl (hn _ (List.mem_of_getElem? hw))

/-- **a worker leaves the loop only when the process has terminated, and
    nobody waits afterwards**: if some worker has exited then the scheduler
    data are in the terminated state (`can_terminate()`, nothing selectable —
    hence every queue empty, nobody inside a task, all resources back:
    `terminated_quiescent`, `terminated_facts`) and no worker is in `xwait`
    (the exiting worker's `xbroadcast` woke them all and nobody can wait
    again). -/
theorem exit_final {c : Cfg} (hW : 0 < c.W) {w : WState} (h : ReachW c w) :
    WPh.exited ∈ w.ws → terminated c w.base = true ∧ ∀ p ∈ w.ws, p ≠ .waiting := by
  induction h with
  | init =>
    intro he
    simp only [initW, List.mem_replicate] at he
    exact absurd he.2 (by decide)
  | step l hr hs ih =>
    obtain ⟨hf, hc⟩ := stepW_core hs
    exact exit_core hW hr hf hc ih

/-! ### (d) the refined workers account for the base model's busy workers -/

/-- same number of busy workers, same parser phase -/
def BL (s s' : State) : Prop := s'.busy.length = s.busy.length ∧ s'.pphase = s.pphase

theorem BL.refl (s : State) : BL s s := ⟨rfl, rfl⟩

theorem BL.trans {s s' s'' : State} (h1 : BL s s') (h2 : BL s' s'') : BL s s'' :=
  ⟨h2.1.trans h1.1, h2.2.trans h1.2⟩

theorem BL.count {s s' : State} (h : BL s s') : busyCount s' = busyCount s := by
  simp only [busyCount, h.1, h.2]

theorem bl_detach (s : State) (k : Option Nat) : BL s (detach s k) := by
  unfold detach; split
  · exact BL.refl s
  · split
    · exact ⟨rfl, rfl⟩
    · exact BL.refl s

theorem bl_advance (c : Cfg) (s : State) (p : Nat) : BL s (advance c s p) := ⟨rfl, rfl⟩

theorem bl_parsePush (c : Cfg) (s : State) (b : Nat) : BL s (parsePush c s b) := by
  unfold parsePush; dsimp only
  exact ⟨by simp only [List.length_map]; rfl, rfl⟩

theorem bl_parseMatch (c : Cfg) (s : State) (b : Nat) : BL s (parseMatch c s b) := by
  unfold parseMatch; split
  · exact ⟨rfl, rfl⟩
  · split
    · exact ⟨by simp only [advance, length_replaceFirst], rfl⟩
    · split
      · dsimp only
        split
        · exact ⟨rfl, rfl⟩
        · exact ⟨rfl, rfl⟩
      · exact ⟨rfl, rfl⟩

theorem bl_parseVerdict (c : Cfg) (s : State) (r : PRes) : BL s (parseVerdict c s r) := by
  cases r with
  | err u => exact ⟨rfl, rfl⟩
  | finish u ok =>
    simp only [parseVerdict]
    split
    · exact ⟨rfl, rfl⟩
    · unfold parseFinish; dsimp only
      exact ⟨by simp only [List.length_map], rfl⟩
  | hdr b =>
    simp only [parseVerdict, parseOk]
    exact (bl_parsePush c s b).trans (bl_parseMatch c _ b)

theorem bl_retrMove (c : Cfg) (s : State) (j : Job) (n : Nat) : BL s (retrMove c s j n) := by
  unfold retrMove; split
  · exact ⟨rfl, rfl⟩
  · exact BL.refl s

theorem bl_scanNew (c : Cfg) (s : State) (x : Nat) : BL s (scanNew c s x) := by
  unfold scanNew; split <;> exact ⟨rfl, rfl⟩

theorem bl_scanRequeue (c : Cfg) (s : State) (x hi : Nat) : BL s (scanRequeue c s x hi) := by
  unfold scanRequeue; split <;> exact ⟨rfl, rfl⟩

/-- reader / writer steps and `do_reorder` leave the busy workers alone -/
theorem busy_same {c : Cfg} {s s' : State} {l : Label} (h : step c s l = some s')
    (hl : lockFreeIO l = true ∨ lockedIO l = true ∨ taskOf l = some "reorder") :
    busyCount s' = busyCount s := by
  unfold step at h
  split at h
  · cases h
  cases l <;> simp only [lockFreeIO, lockedIO, taskOf] at hl <;>
    try (exact absurd hl (by decide))
  · simp only [stepRTake] at h; split at h
    · cases h; rfl
    · cases h
  · simp only [stepRQuit] at h; split at h
    · cases h; rfl
    · cases h
  · simp only [stepRBlock] at h; split at h
    · split at h <;> (cases h; rfl)
    · cases h
  · simp only [stepREmpty] at h; split at h
    · cases h; rfl
    · cases h
  · simp only [stepREof] at h; split at h
    · cases h; rfl
    · cases h
  · simp only [stepWDone] at h; split at h
    · cases h; rfl
    · cases h
  · simp only [stepReorder] at h; split at h
    · split at h
      · cases h; rfl
      · split at h <;> (cases h; rfl)
    · cases h

/-- the first section of every task but `do_reorder` makes one more worker busy -/
theorem busy_start {c : Cfg} {s s' : State} {l : Label} {t : String}
    (h : step c s l = some s') (hl : taskOf l = some t) (ht : t ≠ "reorder") :
    busyCount s' = busyCount s + 1 := by
  unfold step at h
  split at h
  · cases h
  cases l <;> simp only [taskOf, reduceCtorEq, Option.some.injEq] at hl
  · exact absurd hl.symm ht
  · simp only [stepParseStart] at h; split at h
    · next hg =>
      simp only [Bool.and_eq_true, Option.isNone_iff_eq_none] at hg
      cases h
      simp [busyCount, hg.2]
    · cases h
  · simp only [stepRetrStart] at h; split at h
    · cases h; simp only [busyCount, List.length_cons]; omega
    · cases h
  · simp only [stepEmitStart] at h; split at h
    · cases h; simp only [busyCount, List.length_cons]; omega
    · cases h
  · simp only [stepScanStart] at h; split at h
    · cases h; simp only [busyCount, List.length_cons]; omega
    · cases h

/-- a closing section frees its worker — except `do_retrieve` with
    `retrieve()` finished, which goes on with `decode()` -/
theorem busy_end {c : Cfg} {s s' : State} {l : Label} (h : step c s l = some s')
    (hl : isEnd l = true) :
    (retrFinished l s s' → busyCount s' = busyCount s) ∧
    (¬ retrFinished l s s' → busyCount s' + 1 = busyCount s) := by
  unfold step at h
  split at h
  · cases h
  cases l <;> simp only [isEnd] at hl <;> try (exact absurd hl (by decide))
  · -- parseEnd
    refine ⟨fun hr => absurd hr.1 (by simp [isRetrEnd]), fun _ => ?_⟩
    simp only [stepParseEnd] at h; split at h
    · cases h
    · next k hk =>
      have h0 := bl_detach { s with pphase := none } k
      generalize detach { s with pphase := none } k = s1 at *
      have key : BL s1 s' := by
        split at h
        · cases h; unfold parseMore; exact ⟨rfl, rfl⟩
        · cases h; exact bl_parseVerdict c s1 _
      have := (h0.trans key).count
      rw [this]; simp [busyCount, hk]
  · -- retrEnd
    next j k =>
    simp only [stepRetrEnd] at h; split at h
    · next hg =>
      have hm : Phase.retr j k ∈ s.busy := by simpa using hg
      have e1 := (busy_erase hm).1
      have h0 := bl_detach { s with busy := s.busy.erase (.retr j k) } k
      generalize detach { s with busy := s.busy.erase (.retr j k) } k = s1 at *
      have key : (s'.busy.length = s1.busy.length ∨ s'.busy.length = s1.busy.length + 1)
          ∧ s'.pphase = s1.pphase := by
        split at h
        · cases h; exact ⟨.inl rfl, rfl⟩
        · split at h
          · cases h; exact ⟨.inl rfl, rfl⟩
          · split at h
            · split at h
              · cases h; exact ⟨.inl (bl_retrMove c s1 j _).1, (bl_retrMove c s1 j _).2⟩
              · cases h; exact ⟨.inl (bl_retrMove c s1 j _).1, (bl_retrMove c s1 j _).2⟩
            · cases h
              have hm := bl_retrMove c s1 j (retrNewc c j k)
              refine ⟨.inr ?_, ?_⟩
              · unfold retrDone; dsimp only; split <;> simp only [List.length_cons, hm.1]
              · unfold retrDone; dsimp only; split <;> exact hm.2
      have hb : s1.busy.length + 1 = s.busy.length := by rw [h0.1]; exact e1
      have hp : s'.pphase = s.pphase := key.2.trans h0.2
      refine ⟨fun hr => ?_, fun hr => ?_⟩
      · simp only [busyCount, hr.2, hp]
      · have : s'.busy.length ≠ s.busy.length := fun e => hr ⟨rfl, e⟩
        simp only [busyCount, hp]
        rcases key.1 with e | e <;> omega
    · cases h
  · -- retrPost
    next e =>
    refine ⟨fun hr => absurd hr.1 (by simp [isRetrEnd]), fun _ => ?_⟩
    simp only [stepRetrPost] at h; split at h
    · next hg =>
      have hm : Phase.retr2 e ∈ s.busy := by simpa using hg
      have e1 := (busy_erase hm).1
      cases h; simp only [busyCount]; omega
    · cases h
  · -- emitEnd
    next e =>
    refine ⟨fun hr => absurd hr.1 (by simp [isRetrEnd]), fun _ => ?_⟩
    simp only [stepEmitEnd] at h; split at h
    · next hg =>
      have hm : Phase.emit e ∈ s.busy := by simpa using hg
      have e1 := (busy_erase hm).1
      split at h <;> (cases h; simp only [busyCount]; omega)
    · cases h
  · -- scanEnd
    next st k =>
    refine ⟨fun hr => absurd hr.1 (by simp [isRetrEnd]), fun _ => ?_⟩
    simp only [stepScanEnd] at h; split at h
    · next hg =>
      have hm : Phase.scan st k ∈ s.busy := by simpa using hg
      have e1 := (busy_erase hm).1
      have h0 := bl_detach { s with busy := s.busy.erase (.scan st k) } (some k)
      generalize detach { s with busy := s.busy.erase (.scan st k) } (some k) = s1 at *
      have key : BL s1 s' := by
        split at h
        · cases h; exact ⟨rfl, rfl⟩
        · split at h
          · cases h; exact ⟨rfl, rfl⟩
          · cases h; exact (bl_scanNew c s1 _).trans (bl_scanRequeue c _ _ _)
      have hh := h0.trans key
      simp only [busyCount, hh.1, hh.2]
      have : (s.busy.erase (Phase.scan st k)).length + 1 = s.busy.length := e1
      omega
    · cases h

/-- number of workers inside a task -/
def runCnt (ws : List WPh) : Nat := ws.countP (· == .running)

theorem runCnt_set {ws : List WPh} {i : Nat} {q : WPh} (p : WPh) (h : ws[i]? = some q) :
    runCnt (ws.set i p) + (if q = .running then 1 else 0)
      = runCnt ws + (if p = .running then 1 else 0) := by
  induction ws generalizing i with
  | nil => cases h
  | cons x xs ih =>
    cases i with
    | zero =>
      simp only [List.getElem?_cons_zero, Option.some.injEq] at h
      subst h
      simp only [runCnt, List.set_cons_zero, List.countP_cons, beq_iff_eq]
      omega
    | succ i =>
      simp only [List.getElem?_cons_succ] at h
      have := ih h
      simp only [runCnt, List.set_cons_succ, List.countP_cons] at this ⊢
      omega

theorem runCnt_broadcast (ws : List WPh) : runCnt (broadcast ws) = runCnt ws := by
  induction ws with
  | nil => rfl
  | cons x xs ih =>
    simp only [runCnt, broadcast, List.map_cons, List.countP_cons] at ih ⊢
    rw [ih]
    cases x <;> simp

theorem unlockW_runCnt {c : Cfg} {w w' : WState} {k : Nat} (h : unlockW c w k = some w') :
    runCnt w'.ws = runCnt w.ws := by
  rcases (unlockW_inv h).2.2.2 with ⟨e, _⟩ | ⟨hk, e⟩
  · rw [e]
  · rw [e]
    have := runCnt_set .ready hk
    simpa using this

theorem running_core {c : Cfg} {w w' : WState} (h : WCore c w w')
    (ih : runCnt w.ws = busyCount w.base) : runCnt w'.ws = busyCount w'.base := by
  cases h with
  | io l b hl hs => rw [busy_same hs (.inl hl)]; exact ih
  | ioS l k b w' hl _ hs hu =>
    rw [unlockW_runCnt hu, (unlockW_inv hu).1]
    show runCnt w.ws = busyCount b
    rw [busy_same hs (.inr (.inl hl))]; exact ih
  | acquire i _ hr =>
    have := runCnt_set .inloop hr
    simp only [reduceCtorEq, if_false] at this
    show runCnt (w.ws.set i .inloop) = busyCount w.base
    omega
  | reorder i l b _ _ hn hl hs =>
    show runCnt w.ws = busyCount b
    rw [busy_same hs (.inr (.inr (hl.trans hn)))]; exact ih
  | run i l k b w' _ hi hsome hl hne hs hu =>
    rw [unlockW_runCnt hu, (unlockW_inv hu).1]
    show runCnt (w.ws.set i .running) = busyCount b
    obtain ⟨t, ht⟩ := Option.isSome_iff_exists.mp hsome
    have hb := busy_start hs (hl.trans ht) (fun e => hne (by rw [ht, e]))
    have := runCnt_set .running hi
    simp only [reduceCtorEq, if_false, if_true] at this
    omega
  | relockU i l k b w' _ _ he hs hr hu =>
    rw [unlockW_runCnt hu, (unlockW_inv hu).1]
    show runCnt w.ws = busyCount b
    rw [(busy_end hs he).1 hr]; exact ih
  | relockL i l b _ hi he hs hr =>
    show runCnt (w.ws.set i .inloop) = busyCount b
    have hb := (busy_end hs he).2 hr
    have := runCnt_set .inloop hi
    simp only [reduceCtorEq, if_false, if_true] at this
    omega
  | wait i _ hi _ _ =>
    have := runCnt_set .waiting hi
    simp only [reduceCtorEq, if_false] at this
    show runCnt (w.ws.set i .waiting) = busyCount w.base
    omega
  | exit i _ hi _ _ =>
    have := runCnt_set .exited hi
    simp only [reduceCtorEq, if_false] at this
    show runCnt (broadcast (w.ws.set i .exited)) = busyCount w.base
    rw [runCnt_broadcast]; omega
  | spurious i hw =>
    have := runCnt_set .ready hw
    simp only [reduceCtorEq, if_false] at this
    show runCnt (w.ws.set i .ready) = busyCount w.base
    omega

/-- **the refined workers account exactly for the base model's busy workers**:
    the workers inside a task (mutex released) are the parser phase plus the
    `busy` phases of `Model.SchedD`. -/
theorem running_count {c : Cfg} {w : WState} (h : ReachW c w) :
    (w.ws.filter (· == .running)).length = busyCount w.base := by
  rw [← List.countP_eq_length_filter]
  show runCnt w.ws = busyCount w.base
  induction h with
  | init =>
    simp only [initW, runCnt, busyCount, init, List.length_nil, Option.isSome_none,
      Bool.false_eq_true, if_false, Nat.add_zero]
    rw [List.countP_replicate]; simp
  | step l _ hs ih => exact running_core (stepW_core hs).2 ih

/-- hence the base model's `freeWorker` guard (an artefact of its anonymous
    workers) never blocks a worker that stands at the top of the loop -/
theorem inloop_free {c : Cfg} {w : WState} (h : ReachW c w) {i : Nat}
    (hi : w.ws[i]? = some .inloop) : freeWorker c w.base = true := by
  have hc := running_count h
  rw [← List.countP_eq_length_filter] at hc
  have hl := (wi_reach h).len
  have := runCnt_set .running hi
  simp only [reduceCtorEq, if_false, if_true] at this
  have hle : runCnt (w.ws.set i .running) ≤ (w.ws.set i .running).length := List.countP_le_length
  rw [List.length_set, hl] at hle
  have hc' : runCnt w.ws = busyCount w.base := hc
  simp only [freeWorker, decide_eq_true_eq]
  omega

/-! ### witness: the hypotheses are satisfiable on a non-trivial run -/

theorem reachW_of_any {c : Cfg} {ls : List WLabel} {p : WState → Bool}
    (h : (runW c (initW c) ls).any p = true) : ∃ w, ReachW c w ∧ p w = true := by
  cases hr : runW c (initW c) ls with
  | none => rw [hr] at h; cases h
  | some w => rw [hr] at h; exact ⟨w, reachW_run ls .init hr, h⟩

/-- two workers, an empty compressed stream (the parser answers FINISH at
    once, but it can only attach once `eof` is set) -/
def wakeCfg : Cfg :=
  { n := 2, W := 2, T := 0, totalIn := 2, totalOut := 4, ultra := false,
    parseAt := fun _ => .finish 0 true, retrieveFrom := fun b => ⟨false, b, 1, false⟩,
    cand := [] }

/-- both workers find nothing to do and go to sleep; the reader meets end of
    file; its `sched_unlock` (`eof = 1`) selects `parse` and signals worker 0 -/
def wakeTrace1 : List WLabel :=
  [.acquire 0, .wait 0, .acquire 1, .wait 1, .io .rTake, .io .rEmpty, .ioS .rEof 0]

/-- worker 0 parses (FINISH), finds `can_terminate()`, leaves the loop and
    broadcasts; worker 1 wakes up and leaves too -/
def wakeTrace2 : List WLabel :=
  wakeTrace1 ++ [.acquire 0, .runTask 0 .parseStart 1, .relock 0 .parseEnd 0, .exit 0,
    .acquire 1, .exit 1]

/-- a reachable state with the mutex free, a task selected, one worker still in
    `xwait` and the other one woken (the non-trivial case of `no_lost_wakeup`) -/
theorem wake_witness_signal :
    (runW wakeCfg (initW wakeCfg) wakeTrace1).any
      (fun w => decide (w.holder = none) && decide (w.nextTask = some "parse")
                && decide (w.ws = [.ready, .waiting])) = true := by
  decide +kernel

/-- a reachable state in which both workers have left the loop (the
    non-trivial case of `exit_final`) -/
theorem wake_witness_exit :
    (runW wakeCfg (initW wakeCfg) wakeTrace2).any
      (fun w => decide (w.ws = [.exited, .exited]) && terminated wakeCfg w.base) = true := by
  decide +kernel

example : ∃ w, ReachW wakeCfg w ∧ w.holder = none ∧ w.nextTask.isSome = true ∧
    WPh.waiting ∈ w.ws ∧ WPh.ready ∈ w.ws := by
  obtain ⟨w, hr, hp⟩ := reachW_of_any wake_witness_signal
  simp only [Bool.and_eq_true, decide_eq_true_eq] at hp
  obtain ⟨⟨h1, h2⟩, h3⟩ := hp
  exact ⟨w, hr, h1, by rw [h2]; rfl, by rw [h3]; simp, by rw [h3]; simp⟩

example : ∃ w, ReachW wakeCfg w ∧ WPh.exited ∈ w.ws := by
  obtain ⟨w, hr, hp⟩ := reachW_of_any wake_witness_exit
  simp only [Bool.and_eq_true, decide_eq_true_eq] at hp
  exact ⟨w, hr, by rw [hp.1]; simp⟩

end LbzVerif.Lemmas.SchedD
