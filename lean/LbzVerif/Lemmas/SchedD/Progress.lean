/-
  Deadlock-freedom, the part that is proved: a state from which no transition
  is enabled is QUIESCENT — no worker is inside a task, the writer has nothing
  to write, the reader is finished or blocked on `in_slots = 0`, and
  `select_task()` finds nothing to run (or there is no worker at all).
  The remaining case analysis (a quiescent, non-terminated state is
  unreachable) is not proved; see Props/C11/Expand.lean.
-/
import LbzVerif.Lemmas.SchedD.Basic

namespace LbzVerif.Lemmas.SchedD
open LbzVerif.Model.SchedD LbzVerif.Gen

def Quiescent (c : Cfg) (s : State) : Prop :=
  s.busy = [] ∧ s.pphase = none ∧ s.outq = 0 ∧
  (s.rph = .done ∨ (s.rph = .idle ∧ s.rclose = false ∧ s.inSlots = 0)) ∧
  (selectTask c s = none ∨ c.n = 0)

theorem minKey?_exists : ∀ {l : List (Nat × Nat)}, l ≠ [] → ∃ x ∈ l, minKey? l = some x
  | [], h => absurd rfl h
  | x :: xs, _ => by
    simp only [minKey?]
    cases hm : minKey? xs with
    | none => exact ⟨x, List.mem_cons_self, rfl⟩
    | some m =>
      have hx : xs ≠ [] := by intro h; subst h; simp [minKey?] at hm
      obtain ⟨y, hy, he⟩ := minKey?_exists hx
      rw [hm] at he; cases he
      simp only
      split
      · exact ⟨m, List.mem_cons_of_mem _ hy, rfl⟩
      · exact ⟨x, List.mem_cons_self, rfl⟩

theorem minNat?_exists : ∀ {l : List Nat}, l ≠ [] → ∃ x ∈ l, minNat? l = some x
  | [], h => absurd rfl h
  | x :: xs, _ => by
    simp only [minNat?]
    cases hm : minNat? xs with
    | none => exact ⟨x, List.mem_cons_self, rfl⟩
    | some m =>
      have hx : xs ≠ [] := by intro h; subst h; simp [minNat?] at hm
      obtain ⟨y, hy, he⟩ := minNat?_exists hx
      rw [hm] at he; cases he
      simp only
      split
      · exact ⟨m, List.mem_cons_of_mem _ hy, rfl⟩
      · exact ⟨x, List.mem_cons_self, rfl⟩

/-- no label of `candLabels` is enabled -/
theorem none_enabled {c : Cfg} {s : State} (h : enabled c s = []) :
    ∀ l ∈ candLabels s, (step c s l).isSome = false := by
  intro l hl
  unfold enabled at h
  rw [List.filter_eq_nil_iff] at h
  simpa using h l hl


theorem retrEnd_some {c : Cfg} {s : State} {j : Job} {k : Option Nat} (hm : Phase.retr j k ∈ s.busy) :
    (stepRetrEnd c s j k).isSome = true := by
  unfold stepRetrEnd
  rw [if_pos (by simpa using hm)]
  dsimp only
  repeat' (first | rfl | split)

theorem retrPost_some {s : State} {e : EJob} (hm : Phase.retr2 e ∈ s.busy) :
    (stepRetrPost s e).isSome = true := by
  unfold stepRetrPost; rw [if_pos (by simpa using hm)]; rfl

theorem emitEnd_some {s : State} {e : EJob} (hm : Phase.emit e ∈ s.busy) :
    (stepEmitEnd s e).isSome = true := by
  unfold stepEmitEnd; rw [if_pos (by simpa using hm)]; dsimp only
  repeat' (first | rfl | split)

theorem scanEnd_some {c : Cfg} {s : State} {st k : Nat} (hm : Phase.scan st k ∈ s.busy) :
    (stepScanEnd c s st k).isSome = true := by
  unfold stepScanEnd; rw [if_pos (by simpa using hm)]; dsimp only
  repeat' (first | rfl | split)

theorem parseEnd_some {c : Cfg} {s : State} {k : Option Nat} (hk : s.pphase = some k) :
    (stepParseEnd c s).isSome = true := by
  unfold stepParseEnd; rw [hk]; dsimp only
  repeat' (first | rfl | split)

/-- **a stuck state is quiescent** -/
theorem stuck_quiescent {c : Cfg} {s : State} (hf : s.failed = false) (h : enabled c s = []) :
    Quiescent c s := by
  have hn := none_enabled h
  have key : ∀ l, l ∈ candLabels s → (step c s l).isSome = true → False := by
    intro l hl hs; rw [hn l hl] at hs; cases hs
  -- busy workers
  have hbusy : s.busy = [] := by
    cases hb : s.busy with
    | nil => rfl
    | cons ph t =>
      have hm : ph ∈ s.busy := by rw [hb]; exact List.mem_cons_self
      exfalso
      cases ph with
      | retr j k =>
        refine key (.retrEnd j k) ?_ (by simp only [step, hf, Bool.false_eq_true, if_false]; exact retrEnd_some hm)
        simp only [candLabels, List.mem_append, List.mem_map]
        exact Or.inr ⟨_, hm, rfl⟩
      | retr2 e =>
        refine key (.retrPost e) ?_ (by simp only [step, hf, Bool.false_eq_true, if_false]; exact retrPost_some hm)
        simp only [candLabels, List.mem_append, List.mem_map]
        exact Or.inr ⟨_, hm, rfl⟩
      | emit e =>
        refine key (.emitEnd e) ?_ (by simp only [step, hf, Bool.false_eq_true, if_false]; exact emitEnd_some hm)
        simp only [candLabels, List.mem_append, List.mem_map]
        exact Or.inr ⟨_, hm, rfl⟩
      | scan st k =>
        refine key (.scanEnd st k) ?_ (by simp only [step, hf, Bool.false_eq_true, if_false]; exact scanEnd_some hm)
        simp only [candLabels, List.mem_append, List.mem_map]
        exact Or.inr ⟨_, hm, rfl⟩
  have hpp : s.pphase = none := by
    cases hk : s.pphase with
    | none => rfl
    | some k =>
      exfalso
      exact key .parseEnd (by simp [candLabels]) (by simp only [step, hf, Bool.false_eq_true, if_false]; exact parseEnd_some hk)
  have hoq : s.outq = 0 := by
    rcases Nat.eq_zero_or_pos s.outq with h0 | h0
    · exact h0
    · exfalso
      exact key .wDone (by simp [candLabels]) (by simp only [step, hf, Bool.false_eq_true, if_false]; simp [stepWDone, h0])
  have hrd : s.rph = .done ∨ (s.rph = .idle ∧ s.rclose = false ∧ s.inSlots = 0) := by
    cases hr : s.rph with
    | done => exact Or.inl rfl
    | idle =>
      refine Or.inr ⟨rfl, ?_, ?_⟩
      · cases hc : s.rclose with
        | false => rfl
        | true =>
          exfalso
          exact key .rQuit (by simp [candLabels]) (by simp only [step, hf, Bool.false_eq_true, if_false]; simp [stepRQuit, hr, hc])
      · rcases Nat.eq_zero_or_pos s.inSlots with h0 | h0
        · exact h0
        · cases hc : s.rclose with
          | true =>
            exfalso
            exact key .rQuit (by simp [candLabels]) (by simp only [step, hf, Bool.false_eq_true, if_false]; simp [stepRQuit, hr, hc])
          | false =>
            exfalso
            exact key .rTake (by simp [candLabels])
              (by simp only [step, hf, Bool.false_eq_true, if_false]; simp [stepRTake, hr, hc, h0])
    | hold =>
      exfalso
      by_cases hlt : s.nread * c.W < c.T
      · refine key .rBlock (by simp [candLabels]) ?_
        simp only [step, hf, Bool.false_eq_true, if_false]; simp only [stepRBlock, hr, beq_self_eq_true, Bool.true_and, hlt, decide_true, if_true]
        split <;> rfl
      · exact key .rEmpty (by simp [candLabels])
          (by simp only [step, hf, Bool.false_eq_true, if_false]; simp [stepREmpty, hr, hlt])
    | ateof =>
      exfalso
      exact key .rEof (by simp [candLabels]) (by simp only [step, hf, Bool.false_eq_true, if_false]; simp [stepREof, hr])
  refine ⟨hbusy, hpp, hoq, hrd, ?_⟩
  -- a selectable task could be started by a free worker
  rcases Nat.eq_zero_or_pos c.n with hn0 | hn0
  · exact Or.inr hn0
  · left
    have hfree : freeWorker c s = true := by
      simp [freeWorker, busyCount, hbusy, hpp, hn0]
    cases hsel : selectTask c s with
    | none => rfl
    | some t =>
      exfalso
      have hg := select_guard hsel
      have ht : t ∈ dTaskOrder := by
        unfold selectTask at hsel
        exact List.mem_of_find?_eq_some hsel
      simp only [dTaskOrder, List.mem_cons, List.mem_nil_iff, or_false] at ht
      rcases ht with rfl | rfl | rfl | rfl | rfl
      · -- reorder
        have hne : s.reordQ.map OB.key ≠ [] := by
          simp only [guardOf, if_true, dCanReorder, view, Bool.and_eq_true, Bool.not_eq_true',
            List.isEmpty_eq_false_iff] at hg
          intro h0; exact hg.1 (List.map_eq_nil_iff.1 h0)
        obtain ⟨x, hx, hmin⟩ := minKey?_exists hne
        obtain ⟨ob, hob, rfl⟩ := List.mem_map.1 hx
        refine key (.reorder ob) ?_ ?_
        · simp only [candLabels, List.mem_append, List.mem_map]
          exact Or.inl (Or.inl (Or.inl (Or.inl (Or.inr ⟨_, hob, rfl⟩))))
        · simp only [step, hf, Bool.false_eq_true, if_false]
          simp only [stepReorder, hfree, hsel, beq_self_eq_true, Bool.true_and,
            List.contains_iff_mem.2 hob, hmin, if_true]
          repeat' (first | rfl | split)
      · -- parse
        exact key .parseStart (by simp [candLabels])
          (by simp only [step, hf, Bool.false_eq_true, if_false]; simp [stepParseStart, hfree, hsel, hpp])
      · -- emit
        have hne : s.emitQ.map EJob.key ≠ [] := by
          simp only [guardOf, dCanEmit, view, Bool.and_eq_true, Bool.not_eq_true',
            List.isEmpty_eq_false_iff] at hg
          simp at hg
          intro h0; exact hg.1 (List.map_eq_nil_iff.1 h0)
        obtain ⟨x, hx, hmin⟩ := minKey?_exists hne
        obtain ⟨e, he, rfl⟩ := List.mem_map.1 hx
        refine key (.emitStart e) ?_ ?_
        · simp only [candLabels, List.mem_append, List.mem_map]
          exact Or.inl (Or.inl (Or.inr ⟨_, he, rfl⟩))
        · simp only [step, hf, Bool.false_eq_true, if_false]
          simp [stepEmitStart, hfree, hsel, he, hmin]
      · -- retrieve
        have hne : s.retrQ.map Job.curr ≠ [] := by
          simp [guardOf, dCanRetrieve, view] at hg
          intro h0; exact hg.1 (List.map_eq_nil_iff.1 h0)
        obtain ⟨x, hx, hmin⟩ := minNat?_exists hne
        obtain ⟨j, hj, rfl⟩ := List.mem_map.1 hx
        refine key (.retrStart j) ?_ ?_
        · simp only [candLabels, List.mem_append, List.mem_map]
          exact Or.inl (Or.inl (Or.inl (Or.inr ⟨_, hj, rfl⟩)))
        · simp only [step, hf, Bool.false_eq_true, if_false]
          simp [stepRetrStart, hfree, hsel, hj, hmin]
      · -- scan
        have hne : s.scanQ ≠ [] := by
          simp [guardOf, dCanScan, view] at hg
          intro h0; exact hg.1.2 h0
        obtain ⟨sp, hsp, hmin⟩ := minNat?_exists hne
        refine key (.scanStart sp) ?_ ?_
        · simp only [candLabels, List.mem_append, List.mem_map]
          exact Or.inl (Or.inr ⟨_, hsp, rfl⟩)
        · simp only [step, hf, Bool.false_eq_true, if_false]
          simp [stepScanStart, hfree, hsel, hsp, hmin]

end LbzVerif.Lemmas.SchedD
