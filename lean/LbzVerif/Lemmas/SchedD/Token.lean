/-
  "While the parse token is available, a work unit is free or on its way back."

  In every reachable state in which `failf` has not been called:

    * at most one emit job per block (`v1`);
    * the emit job of a block is past all buffers of that block that wait in
      `reord_q` (`v2`);
    * the block of a master-capable retrieve job is in `order_q` (`mb`);
    * if `parse_token` is set, then `work_units ≥ 1`, or some emit job of a
      block that is in `order_q` exists — that job will run to its last
      buffer and hand its work unit back (`tu`).

  Together with `SCAN_THRESH = 1` (a scan never takes the last unit while the
  token is available) this is why `can_parse` cannot stay false for want of a
  work unit.
-/
import LbzVerif.Lemmas.SchedD.UnordCap2

namespace LbzVerif.Lemmas.SchedD
open LbzVerif.Model.SchedD LbzVerif.Gen
open Uniq

/-! ### definitions -/

/-- base of the emit job a busy worker holds -/
def Phase.emitBase : Phase → List Nat
  | .retr2 e => [e.base]
  | .emit e => [e.base]
  | _ => []

/-- bases of all emit jobs: queued, being decoded, or emitting -/
def emitBases (s : State) : List Nat :=
  s.emitQ.map (·.base) ++ s.busy.flatMap Phase.emitBase

/-- the invariant -/
structure TI2 (c : Cfg) (s : State) : Prop where
  /-- at most one emit job per block -/
  v1 : (emitBases s).Nodup
  /-- the emit job of a block is past all its buffers in reord_q -/
  v2 : ∀ e, EIn s e → ∀ o ∈ s.reordQ, e.base = o.base → o.idx < e.idx
  /-- the master's block is in order_q -/
  mb : ∀ j, JIn s j → Job.mc j = true → ∃ i, (j.base, i) ∈ s.orderQ
  /-- token available ⇒ a unit is free, or held by the emit job of a confirmed block -/
  tu : s.ptok = true → 1 ≤ s.wu ∨ ∃ e, EIn s e ∧ ∃ i, (e.base, i) ∈ s.orderQ

namespace Tok

/-! ### the list of emit jobs -/

def ejob : Phase → List EJob
  | .retr2 e => [e]
  | .emit e => [e]
  | _ => []

def emitJobs (s : State) : List EJob := s.emitQ ++ s.busy.flatMap ejob

theorem mem_emitJobs {s : State} {e : EJob} : e ∈ emitJobs s ↔ EIn s e := by
  simp only [emitJobs, EIn, List.mem_append, List.mem_flatMap]
  constructor
  · rintro (h | ⟨ph, hph, he⟩)
    · exact Or.inl h
    · cases ph with
      | retr j k => simp [ejob] at he
      | retr2 e' =>
        simp only [ejob, List.mem_singleton] at he; subst he; exact Or.inr (Or.inl hph)
      | emit e' =>
        simp only [ejob, List.mem_singleton] at he; subst he; exact Or.inr (Or.inr hph)
      | scan a b => simp [ejob] at he
  · rintro (h | h | h)
    · exact Or.inl h
    · exact Or.inr ⟨_, h, by simp [ejob]⟩
    · exact Or.inr ⟨_, h, by simp [ejob]⟩

theorem map_flatMap_ejob (l : List Phase) :
    (l.flatMap ejob).map (·.base) = l.flatMap Phase.emitBase := by
  induction l with
  | nil => rfl
  | cons x xs ih =>
    simp only [List.flatMap_cons, List.map_append, ih]
    cases x <;> rfl

theorem emitBases_eq (s : State) : emitBases s = (emitJobs s).map (·.base) := by
  simp only [emitBases, emitJobs, List.map_append, map_flatMap_ejob]

theorem ejob_flagPhase (p : Nat → Bool) (ph : Phase) : ejob (flagPhase p ph) = ejob ph := by
  cases ph <;> rfl

theorem ejob_good (ph : Phase) : ejob ph.good = ejob ph := by
  cases ph <;> rfl

/-- a worker that holds no emit job enters `busy` -/
theorem emitJobs_cons {s s' : State} {ph : Phase} (hq : s'.emitQ = s.emitQ)
    (hb : s'.busy = ph :: s.busy) (hp : ejob ph = []) : emitJobs s' = emitJobs s := by
  simp only [emitJobs, hq, hb, List.flatMap_cons, hp, List.nil_append]

/-- a worker that holds no emit job leaves `busy` -/
theorem emitJobs_erase {s s' : State} {ph : Phase} (hq : s'.emitQ = s.emitQ)
    (hb : s'.busy = s.busy.erase ph) (hp : ejob ph = []) : emitJobs s' = emitJobs s := by
  simp only [emitJobs, hq, hb, flatMap_erase_nil ejob s.busy hp]

theorem emitJobs_flag {s s' : State} {p : Nat → Bool} (hq : s'.emitQ = s.emitQ)
    (hb : s'.busy = s.busy.map (flagPhase p)) : emitJobs s' = emitJobs s := by
  simp only [emitJobs, hq, hb, flatMap_map_eq ejob (flagPhase p) s.busy (ejob_flagPhase p)]

theorem emitJobs_good {s s' : State} {q : Phase → Bool} (hq : s'.emitQ = s.emitQ)
    (hb : s'.busy = replaceFirst q Phase.good s.busy) : emitJobs s' = emitJobs s := by
  simp only [emitJobs, hq, hb, flatMap_replaceFirst_eq ejob q Phase.good s.busy ejob_good]

theorem emitJobs_same {s s' : State} (hq : s'.emitQ = s.emitQ) (hb : s'.busy = s.busy) :
    emitJobs s' = emitJobs s := by
  simp only [emitJobs, hq, hb]

/-- taking the emit job out of a busy worker's hands -/
theorem emitJobs_perm_erase {s : State} {ph : Phase} {e : EJob} (hm : ph ∈ s.busy)
    (hp : ejob ph = [e]) :
    (emitJobs s).Perm (e :: (s.emitQ ++ (s.busy.erase ph).flatMap ejob)) := by
  have h1 := flatMap_erase_perm ejob hm
  rw [hp] at h1
  exact (List.Perm.append_left s.emitQ h1).trans List.perm_middle

/-! ### the frame -/

/-- `s'` is `s` with the same emit jobs, no new buffer in reord_q, every block of
    order_q still there, every master-capable job either an old one (same block)
    or one whose block is in order_q, and no work unit taken while the token is
    available (or one left) -/
structure TF (s s' : State) : Prop where
  ej : (emitJobs s').Perm (emitJobs s)
  ro : ∀ o ∈ s'.reordQ, o ∈ s.reordQ
  oq : ∀ b i, (b, i) ∈ s.orderQ → ∃ i', (b, i') ∈ s'.orderQ
  mj : ∀ j', JIn s' j' → Job.mc j' = true →
        (∃ j, JIn s j ∧ Job.mc j = true ∧ j.base = j'.base) ∨ ∃ i, (j'.base, i) ∈ s'.orderQ
  tu : s'.ptok = true → (s.ptok = true ∧ s.wu ≤ s'.wu) ∨ 1 ≤ s'.wu

theorem TF.refl (s : State) : TF s s :=
  ⟨List.Perm.refl _, fun _ h => h, fun _ i h => ⟨i, h⟩,
    fun j hj hm => Or.inl ⟨j, hj, hm, rfl⟩, fun h => Or.inl ⟨h, Nat.le_refl _⟩⟩

theorem TF.trans {s s' s'' : State} (f : TF s s') (g : TF s' s'') : TF s s'' := by
  refine ⟨g.ej.trans f.ej, fun o ho => f.ro o (g.ro o ho), ?_, ?_, ?_⟩
  · intro b i hi
    obtain ⟨i', hi'⟩ := f.oq b i hi
    exact g.oq b i' hi'
  · intro j'' hj'' hm''
    rcases g.mj j'' hj'' hm'' with ⟨j', hj', hm', hb'⟩ | h2
    · rcases f.mj j' hj' hm' with ⟨j, hj, hm, hb⟩ | ⟨i, hi⟩
      · exact Or.inl ⟨j, hj, hm, hb.trans hb'⟩
      · rw [hb'] at hi
        exact Or.inr (g.oq _ i hi)
    · exact Or.inr h2
  · intro ht
    rcases g.tu ht with ⟨h1, h2⟩ | h1
    · rcases f.tu h1 with ⟨h3, h4⟩ | h3
      · exact Or.inl ⟨h3, Nat.le_trans h4 h2⟩
      · exact Or.inr (Nat.le_trans h3 h2)
    · exact Or.inr h1

theorem TF.ein {s s' : State} (f : TF s s') (e : EJob) : EIn s' e ↔ EIn s e := by
  rw [← mem_emitJobs, ← mem_emitJobs]; exact f.ej.mem_iff

theorem TF.item {s s' : State} (f : TF s s') {y : Nat} (h : ItemBase s' y) : ItemBase s y := by
  rcases h with ⟨e, he, hb⟩ | ⟨o, ho, hb⟩
  · exact Or.inl ⟨e, (f.ein e).1 he, hb⟩
  · exact Or.inr ⟨o, f.ro o ho, hb⟩

theorem TI2_frame {c : Cfg} {s s' : State} (h : TI2 c s) (f : TF s s') : TI2 c s' := by
  refine ⟨?_, ?_, ?_, ?_⟩
  · have := h.v1
    rw [emitBases_eq] at this ⊢
    exact ((f.ej.map _).nodup_iff).2 this
  · intro e he o ho hb
    exact h.v2 e ((f.ein e).1 he) o (f.ro o ho) hb
  · intro j' hj' hmc
    rcases f.mj j' hj' hmc with ⟨j, hj, hm, hb⟩ | h2
    · obtain ⟨i, hi⟩ := h.mb j hj hm
      rw [hb] at hi
      exact f.oq _ i hi
    · exact h2
  · intro ht
    rcases f.tu ht with ⟨h1, h2⟩ | h1
    · rcases h.tu h1 with h3 | ⟨e, he, i, hi⟩
      · exact Or.inl (Nat.le_trans h3 h2)
      · exact Or.inr ⟨e, (f.ein e).2 he, f.oq _ i hi⟩
    · exact Or.inl h1

/-- same emit jobs, same reord_q / order_q, jobs only removed or re-flagged -/
theorem TF_mk {s s' : State} (ej : emitJobs s' = emitJobs s) (ro : s'.reordQ = s.reordQ)
    (oq : s'.orderQ = s.orderQ)
    (mj : ∀ j', JIn s' j' → Job.mc j' = true → ∃ j, JIn s j ∧ Job.mc j = true ∧ j.base = j'.base)
    (tu : s'.ptok = true → (s.ptok = true ∧ s.wu ≤ s'.wu) ∨ 1 ≤ s'.wu) : TF s s' :=
  ⟨ej ▸ List.Perm.refl _, fun _ ho => ro ▸ ho, fun _ i hi => ⟨i, oq ▸ hi⟩,
    fun j' hj' hm => Or.inl (mj j' hj' hm), tu⟩

theorem tu_same {s s' : State} (e1 : s'.ptok = s.ptok) (e2 : s.wu ≤ s'.wu) :
    s'.ptok = true → (s.ptok = true ∧ s.wu ≤ s'.wu) ∨ 1 ≤ s'.wu :=
  fun h => Or.inl ⟨e1 ▸ h, e2⟩

theorem TF_same {s s' : State} (e1 : s'.emitQ = s.emitQ) (e2 : s'.busy = s.busy)
    (e3 : s'.reordQ = s.reordQ) (e4 : s'.orderQ = s.orderQ) (e5 : s'.retrQ = s.retrQ)
    (tu : s'.ptok = true → (s.ptok = true ∧ s.wu ≤ s'.wu) ∨ 1 ≤ s'.wu) : TF s s' :=
  TF_mk (emitJobs_same e1 e2) e3 e4
    (fun j' hj' hm => ⟨j', by simpa only [JIn, e2, e5] using hj', hm, rfl⟩) tu

/-! ### generic sub-functions -/

theorem TF_detach (s : State) (k : Option Nat) : TF s (detach s k) := by
  rcases UCap.detach_cases s k with e | e <;> rw [e]
  · exact TF.refl s
  · exact TF_same rfl rfl rfl rfl rfl (tu_same rfl (Nat.le_refl _))

theorem TF_advance (c : Cfg) (s : State) (p : Nat) : TF s (advance c s p) := by
  refine TF_mk rfl rfl rfl ?_ (tu_same rfl (Nat.le_add_right _ _))
  rintro j' (hq | ⟨k, hk⟩) hm
  · exact ⟨j', Or.inl (List.mem_filter.1 hq).1, hm, rfl⟩
  · exact ⟨j', Or.inr ⟨k, hk⟩, hm, rfl⟩

/-- a worker that holds no emit job leaves `busy` -/
theorem TF_busy_erase (s : State) {ph : Phase} (hp : ejob ph = []) :
    TF s { s with busy := s.busy.erase ph } := by
  refine TF_mk (emitJobs_erase rfl rfl hp) rfl rfl ?_ (tu_same rfl (Nat.le_refl _))
  rintro j' (hq | ⟨k, hk⟩) hm
  · exact ⟨j', Or.inl hq, hm, rfl⟩
  · exact ⟨j', Or.inr ⟨k, List.mem_of_mem_erase hk⟩, hm, rfl⟩

/-- a retrieve job is queued -/
theorem TF_addJob (s : State) (jn : Job)
    (h : Job.mc jn = true → ∃ i, (jn.base, i) ∈ s.orderQ) :
    TF s { s with retrQ := jn :: s.retrQ } := by
  refine ⟨List.Perm.refl _, fun _ h => h, fun _ i h => ⟨i, h⟩, ?_, tu_same rfl (Nat.le_refl _)⟩
  intro j' hj' hm
  rcases JIn_addJob jn j' hj' with rfl | hj
  · exact Or.inr (h hm)
  · exact Or.inl ⟨j', hj, hm, rfl⟩

theorem TF_wu (s : State) (w : Nat) (hw : s.wu ≤ w) : TF s { s with wu := w } :=
  TF_same rfl rfl rfl rfl rfl (tu_same rfl hw)

/-! ### simple steps -/

theorem TI2_init {c : Cfg} (hn : 1 ≤ c.n) : TI2 c (init c) := by
  refine ⟨?_, ?_, ?_, ?_⟩
  · simp [emitBases, init]
  · rintro e (he | he | he) <;> simp [init] at he
  · rintro j (hj | ⟨k, hk⟩)
    · simp [init] at hj
    · simp [init] at hk
  · intro _; exact Or.inl hn

theorem TF_rTake {s s' : State} (hs : stepRTake s = some s') : TF s s' := by
  unfold stepRTake at hs; split at hs <;> simp at hs; subst hs
  exact TF_same rfl rfl rfl rfl rfl (tu_same rfl (Nat.le_refl _))

theorem TF_rQuit {s s' : State} (hs : stepRQuit s = some s') : TF s s' := by
  unfold stepRQuit at hs; split at hs <;> simp at hs; subst hs
  exact TF_same rfl rfl rfl rfl rfl (tu_same rfl (Nat.le_refl _))

theorem TF_rBlock {c : Cfg} {s s' : State} (hs : stepRBlock c s = some s') : TF s s' := by
  unfold stepRBlock at hs; split at hs
  · dsimp only at hs; split at hs <;> simp only [Option.some.injEq] at hs <;> subst hs <;>
      exact TF_same rfl rfl rfl rfl rfl (tu_same rfl (Nat.le_refl _))
  · simp at hs

theorem TF_rEmpty {c : Cfg} {s s' : State} (hs : stepREmpty c s = some s') : TF s s' := by
  unfold stepREmpty at hs; split at hs <;> simp at hs; subst hs
  exact TF_same rfl rfl rfl rfl rfl (tu_same rfl (Nat.le_refl _))

theorem TF_rEof {s s' : State} (hs : stepREof s = some s') : TF s s' := by
  unfold stepREof at hs; split at hs <;> simp at hs; subst hs
  exact TF_same rfl rfl rfl rfl rfl (tu_same rfl (Nat.le_refl _))

theorem TF_wDone {s s' : State} (hs : stepWDone s = some s') : TF s s' := by
  unfold stepWDone at hs; split at hs
  · simp only [Option.some.injEq] at hs; subst hs
    exact TF_same rfl rfl rfl rfl rfl (tu_same rfl (Nat.le_refl _))
  · simp at hs

/-- `do_parse` takes the token -/
theorem TF_parseStart {c : Cfg} {s s' : State} (hs : stepParseStart c s = some s') : TF s s' := by
  unfold stepParseStart at hs; split at hs
  · simp only [Option.some.injEq] at hs; subst hs
    exact TF_same rfl rfl rfl rfl rfl (fun ht => by cases ht)
  · simp at hs

/-- `SCAN_THRESH`: while the token is available a scan does not take the last unit -/
theorem TF_scanStart {c : Cfg} {s s' : State} {sp : Nat} (hs : stepScanStart c s sp = some s') :
    TF s s' := by
  unfold stepScanStart at hs; split at hs
  · next hg =>
    simp only [Bool.and_eq_true, beq_iff_eq] at hg
    have hgd := UCap.scan_guard hg.1.1.2
    simp only [Option.some.injEq] at hs; subst hs
    generalize (if sp / c.W == s.ppos / c.W && decide (sp < s.ppos) then s.ppos else sp) = start
    refine TF_mk (emitJobs_cons rfl rfl rfl) rfl rfl ?_ ?_
    · rintro j' (hq | ⟨k, hk⟩) hm
      · exact ⟨j', Or.inl hq, hm, rfl⟩
      · rcases List.mem_cons.1 hk with e | hk
        · cases e
        · exact ⟨j', Or.inr ⟨k, hk⟩, hm, rfl⟩
    · intro ht
      have ht' : s.ptok = true := ht
      right
      show 1 ≤ s.wu - 1
      rcases hgd with h1 | ⟨_, h2⟩
      · omega
      · rw [ht'] at h2; cases h2
  · simp at hs

/-! ### queue shuffles -/

theorem TF_retrStart {c : Cfg} {s s' : State} {j : Job} (hs : stepRetrStart c s j = some s') :
    TF s s' := by
  unfold stepRetrStart at hs; split at hs
  · next hg =>
    simp only [Bool.and_eq_true, List.contains_iff_mem] at hg
    have hj : j ∈ s.retrQ := hg.1.2
    simp only [Option.some.injEq] at hs; subst hs
    generalize (if tailOffs c s ≤ j.curr then none
        else if decide (j.curr < headOffs c s) then (if s.head < s.rd then some s.head else none)
        else some (j.curr / c.W)) = k
    generalize (j.corrupt || decide (j.curr < headOffs c s)) = cb
    refine TF_mk (emitJobs_cons rfl rfl rfl) rfl rfl ?_ (tu_same rfl (Nat.le_refl _))
    rintro j' (hq | ⟨k', hk'⟩) hm
    · exact ⟨j', Or.inl (List.mem_of_mem_erase hq), hm, rfl⟩
    · rcases List.mem_cons.1 hk' with e | hk'
      · injection e with e1 e2
        subst e1
        exact ⟨j, Or.inl hj, hm, rfl⟩
      · exact ⟨j', Or.inr ⟨k', hk'⟩, hm, rfl⟩
  · simp at hs

theorem TF_retrPost {s s' : State} {e : EJob} (hs : stepRetrPost s e = some s') : TF s s' := by
  unfold stepRetrPost at hs; split at hs
  · next hg =>
    have hm : Phase.retr2 e ∈ s.busy := by simpa using hg
    simp only [Option.some.injEq] at hs; subst hs
    refine ⟨?_, fun _ h => h, fun _ i h => ⟨i, h⟩, ?_, tu_same rfl (Nat.le_refl _)⟩
    · exact (emitJobs_perm_erase hm rfl).symm
    · rintro j' (hq | ⟨k, hk⟩) hmc
      · exact Or.inl ⟨j', Or.inl hq, hmc, rfl⟩
      · exact Or.inl ⟨j', Or.inr ⟨k, List.mem_of_mem_erase hk⟩, hmc, rfl⟩
  · simp at hs

theorem TF_emitStart {c : Cfg} {s s' : State} {e : EJob} (hs : stepEmitStart c s e = some s') :
    TF s s' := by
  unfold stepEmitStart at hs; split at hs
  · next hg =>
    simp only [Bool.and_eq_true, List.contains_iff_mem, beq_iff_eq] at hg
    have hm : e ∈ s.emitQ := hg.1.2
    simp only [Option.some.injEq] at hs; subst hs
    refine ⟨?_, fun _ h => h, fun _ i h => ⟨i, h⟩, ?_, tu_same rfl (Nat.le_refl _)⟩
    · show (s.emitQ.erase e ++ (Phase.emit e :: s.busy).flatMap ejob).Perm
        (s.emitQ ++ s.busy.flatMap ejob)
      simp only [List.flatMap_cons, ejob, List.singleton_append]
      exact List.perm_middle.trans (List.Perm.append_right _ (List.perm_cons_erase hm).symm)
    · rintro j' (hq | ⟨k, hk⟩) hmc
      · exact Or.inl ⟨j', Or.inl hq, hmc, rfl⟩
      · rcases List.mem_cons.1 hk with e' | hk
        · cases e'
        · exact Or.inl ⟨j', Or.inr ⟨k, hk⟩, hmc, rfl⟩
  · simp at hs

/-! ### emitEnd -/

theorem TI2_emitEnd_core {c : Cfg} {s s' : State} {e : EJob} {onew : OB} (h : TI2 c s)
    (hm : Phase.emit e ∈ s.busy)
    (e1 : s'.orderQ = s.orderQ) (e7 : s'.retrQ = s.retrQ) (eT : s'.ptok = s.ptok)
    (e6 : s'.busy = s.busy.erase (.emit e))
    (e2 : s'.reordQ = onew :: s.reordQ) (o1 : onew.base = e.base) (o2 : onew.idx = e.idx)
    (hw : (s'.emitQ = s.emitQ ∧ s'.wu = s.wu + 1) ∨
      (∃ e', s'.emitQ = e' :: s.emitQ ∧ e'.base = e.base ∧ e'.idx = e.idx + 1 ∧ s'.wu = s.wu)) :
    TI2 c s' := by
  have hP := emitJobs_perm_erase (s := s) hm (e := e) rfl
  generalize hrest : s.emitQ ++ (s.busy.erase (.emit e)).flatMap ejob = rest at hP
  have hv1 := h.v1
  rw [emitBases_eq] at hv1
  have hv1' := ((hP.map (·.base)).nodup_iff).1 hv1
  simp only [List.map_cons, List.nodup_cons] at hv1'
  obtain ⟨hnot, hnd⟩ := hv1'
  have hsub : ∀ e0 ∈ rest, EIn s e0 := fun e0 he0 =>
    mem_emitJobs.1 (hP.mem_iff.2 (List.mem_cons_of_mem _ he0))
  have hne : ∀ e0 ∈ rest, e0.base ≠ e.base := fun e0 he0 hb =>
    hnot (List.mem_map.2 ⟨e0, he0, hb⟩)
  have hee : EIn s e := Or.inr (Or.inr hm)
  -- old emit jobs against the buffers of `s'`
  have old : ∀ e0 ∈ rest, ∀ o ∈ s'.reordQ, e0.base = o.base → o.idx < e0.idx := by
    intro e0 he0 o ho hb
    rw [e2] at ho
    rcases List.mem_cons.1 ho with rfl | ho
    · exact absurd (hb.trans o1) (hne e0 he0)
    · exact h.v2 e0 (hsub e0 he0) o ho hb
  have hmb : ∀ j, JIn s' j → Job.mc j = true → ∃ i, (j.base, i) ∈ s'.orderQ := by
    intro j hj hmc
    rw [e1]
    refine h.mb j ?_ hmc
    rcases hj with hq | ⟨k, hk⟩
    · exact Or.inl (e7 ▸ hq)
    · rw [e6] at hk; exact Or.inr ⟨k, List.mem_of_mem_erase hk⟩
  rcases hw with ⟨hq, hwu⟩ | ⟨e', hq, hb', hi', hwu⟩
  · have hJ : emitJobs s' = rest := by simp only [emitJobs, hq, e6, hrest]
    refine ⟨?_, ?_, hmb, ?_⟩
    · rw [emitBases_eq, hJ]; exact hnd
    · intro e0 he0 o ho hb
      exact old e0 (hJ ▸ mem_emitJobs.2 he0) o ho hb
    · intro _; left; omega
  · have hJ : emitJobs s' = e' :: rest := by
      simp only [emitJobs, hq, e6, List.cons_append, hrest]
    refine ⟨?_, ?_, hmb, ?_⟩
    · rw [emitBases_eq, hJ]
      simp only [List.map_cons, List.nodup_cons]
      exact ⟨hb' ▸ hnot, hnd⟩
    · intro e0 he0 o ho hb
      have he0' : e0 ∈ e' :: rest := hJ ▸ mem_emitJobs.2 he0
      rcases List.mem_cons.1 he0' with rfl | he0'
      · rw [e2] at ho
        rcases List.mem_cons.1 ho with rfl | ho
        · omega
        · have := h.v2 e hee o ho (hb' ▸ hb)
          omega
      · exact old e0 he0' o ho hb
    · intro ht
      rcases h.tu (eT ▸ ht) with h1 | ⟨e0, he0, i, hi⟩
      · left; omega
      · right
        have he0' : e0 ∈ e :: rest := hP.mem_iff.1 (mem_emitJobs.2 he0)
        rcases List.mem_cons.1 he0' with rfl | he0'
        · exact ⟨e', mem_emitJobs.1 (hJ ▸ List.mem_cons_self), i, by rw [hb', e1]; exact hi⟩
        · exact ⟨e0, mem_emitJobs.1 (hJ ▸ List.mem_cons_of_mem _ he0'), i, by rw [e1]; exact hi⟩

theorem TI2_emitEnd {c : Cfg} {s s' : State} {e : EJob} (h : TI2 c s)
    (hs : stepEmitEnd s e = some s') : TI2 c s' := by
  unfold stepEmitEnd at hs; split at hs
  · next hg =>
    have hm : Phase.emit e ∈ s.busy := by simpa using hg
    dsimp only at hs
    split at hs
    · simp only [Option.some.injEq] at hs; subst hs
      exact TI2_emitEnd_core (e := e) h hm rfl rfl rfl rfl rfl rfl rfl
        (Or.inr ⟨_, rfl, rfl, rfl, rfl⟩)
    · simp only [Option.some.injEq] at hs; subst hs
      exact TI2_emitEnd_core (e := e) h hm rfl rfl rfl rfl rfl rfl rfl
        (Or.inl ⟨rfl, rfl⟩)
  · simp at hs

/-! ### reorder -/

theorem ejOK_of_EIn {c : Cfg} {s : State} (hS : SI c s) {e : EJob} (he : EIn s e) : ejOK c e := by
  rcases he with he | he | he
  · exact hS.emits e he
  · exact hS.busy _ he
  · exact hS.busy _ he

/-- the last buffer of a block goes to the writer: the block leaves order_q -/
theorem TI2_reorder_ok {c : Cfg} {s s' : State} {ob : OB} {r : List (Nat × Nat)} (h : TI2 c s)
    (hS : SI c s) (hU : UI c s) (hm : ob ∈ s.reordQ) (hst : ob.st = .ok)
    (hq : s.orderQ = (ob.base, ob.idx) :: r)
    (e1 : s'.retrQ = s.retrQ) (e3 : s'.busy = s.busy) (e4 : s'.emitQ = s.emitQ)
    (e5 : s'.reordQ = s.reordQ.erase ob) (e6 : s'.orderQ = r)
    (e8 : s'.ptok = s.ptok) (e10 : s'.wu = s.wu) : TI2 c s' := by
  have hJ : emitJobs s' = emitJobs s := emitJobs_same e4 e3
  have hE : ∀ e, EIn s' e ↔ EIn s e := fun e => by rw [← mem_emitJobs, ← mem_emitJobs, hJ]
  have hR : ∀ o ∈ s'.reordQ, o ∈ s.reordQ := fun o ho => by
    rw [e5] at ho; exact List.mem_of_mem_erase ho
  refine ⟨?_, ?_, ?_, ?_⟩
  · have := h.v1
    rw [emitBases_eq] at this ⊢
    rw [hJ]; exact this
  · intro e he o ho hb
    exact h.v2 e ((hE e).1 he) o (hR o ho) hb
  · intro j hj hmc
    have hj0 : JIn s j := by simpa only [JIn, e1, e3] using hj
    obtain ⟨i, hi⟩ := h.mb j hj0 hmc
    rw [hq] at hi
    rcases List.mem_cons.1 hi with e | hi
    · have hb : j.base = ob.base := (Prod.mk.inj e).1
      exact absurd (mem_jobBases.2 ⟨j, hj0, hb⟩) (hU.u2 ob.base (Or.inr ⟨ob, hm, rfl⟩))
    · exact ⟨i, e6 ▸ hi⟩
  · intro ht
    rcases h.tu (e8 ▸ ht) with h1 | ⟨e, he, i, hi⟩
    · left; omega
    · right
      refine ⟨e, (hE e).2 he, i, ?_⟩
      rw [hq] at hi
      rcases List.mem_cons.1 hi with e' | hi
      · exfalso
        have hb : e.base = ob.base := (Prod.mk.inj e').1
        have hlt := h.v2 e he ob hm hb
        have hob := hS.obs ob hm
        simp only [obOK, hst] at hob
        obtain ⟨hl, hej, _⟩ := ejOK_of_EIn hS he
        rw [hb] at hej
        have := (hej hob.1).1
        omega
      · exact e6 ▸ hi

theorem TI2_reorder {c : Cfg} {s s' : State} {ob : OB} (h : TI2 c s) (hS : SI c s) (hU : UI c s)
    (hs : stepReorder c s ob = some s') (hf' : s'.failed = false) : TI2 c s' := by
  unfold stepReorder at hs; split at hs
  · next hg =>
    simp only [Bool.and_eq_true, List.contains_iff_mem, beq_iff_eq] at hg
    obtain ⟨⟨⟨_, hsel⟩, hmem⟩, hmin⟩ := hg
    have mj0 : ∀ (t : State), t.retrQ = s.retrQ → t.busy = s.busy → ∀ j', JIn t j' →
        Job.mc j' = true → ∃ j, JIn s j ∧ Job.mc j = true ∧ j.base = j'.base :=
      fun t e1 e2 j' hj' hm => ⟨j', by simpa only [JIn, e1, e2] using hj', hm, rfl⟩
    split at hs
    · simp only [Option.some.injEq] at hs; subst hs
      exact TI2_frame h ⟨List.Perm.refl _, fun o ho => List.mem_of_mem_erase ho,
        fun _ i hi => ⟨i, hi⟩, fun j' hj' hm => Or.inl (mj0 _ rfl rfl j' hj' hm),
        tu_same rfl (Nat.le_refl _)⟩
    · next hbog =>
      have hbog' : dReorderBogus (view c s) = false := by simpa using hbog
      obtain ⟨r, hr⟩ := reorder_head hsel hmin hbog'
      split at hs
      · simp only [Option.some.injEq] at hs; subst hs
        cases hf'
      · simp only [Option.some.injEq] at hs; subst hs
        refine TI2_frame h ⟨List.Perm.refl _, fun o ho => List.mem_of_mem_erase ho, ?_,
          fun j' hj' hm => Or.inl (mj0 _ rfl rfl j' hj' hm), tu_same rfl (Nat.le_refl _)⟩
        intro b i hi
        rw [hr] at hi
        show ∃ i', (b, i') ∈ (match s.orderQ with | [] => [] | (b, i) :: r => (b, i + 1) :: r)
        rw [hr]
        rcases List.mem_cons.1 hi with e | hm'
        · cases e; exact ⟨_, List.mem_cons_self⟩
        · exact ⟨i, List.mem_cons_of_mem _ hm'⟩
      · next hst =>
        simp only [Option.some.injEq] at hs; subst hs
        exact TI2_reorder_ok h hS hU hmem hst hr rfl rfl rfl rfl (by rw [hr]; rfl) rfl rfl
  · simp at hs

/-! ### scanEnd -/

theorem TF_scanNew (c : Cfg) (s1 : State) (x : Nat) : TF s1 (scanNew c s1 x) := by
  unfold scanNew; split
  · exact TF_wu s1 _ (Nat.le_succ _)
  · exact TF_addJob s1 _ (fun hm => by cases hm)

theorem TF_scanRequeue (c : Cfg) (s2 : State) (x hi : Nat) : TF s2 (scanRequeue c s2 x hi) := by
  rcases UCap.scanRequeue_cases c s2 x hi with e | e <;> rw [e]
  · exact TF.refl s2
  · exact TF_same rfl rfl rfl rfl rfl (tu_same rfl (Nat.le_refl _))

theorem TF_scanEnd {c : Cfg} {s s' : State} {st k : Nat} (hs : stepScanEnd c s st k = some s') :
    TF s s' := by
  unfold stepScanEnd at hs; split at hs
  · have f1 : TF s (detach { s with busy := s.busy.erase (.scan st k) } (some k)) :=
      (TF_busy_erase s rfl).trans (TF_detach _ _)
    generalize detach { s with busy := s.busy.erase (.scan st k) } (some k) = s1 at f1 hs
    dsimp only at hs
    split at hs
    · simp only [Option.some.injEq] at hs; subst hs
      exact f1.trans (TF_wu s1 _ (Nat.le_succ _))
    · next x hx =>
      split at hs
      · simp only [Option.some.injEq] at hs; subst hs
        exact f1.trans (TF_wu s1 _ (Nat.le_succ _))
      · simp only [Option.some.injEq] at hs; subst hs
        exact f1.trans ((TF_scanNew c s1 x).trans (TF_scanRequeue c _ x _))
  · simp at hs

/-! ### retrEnd -/

theorem TF_retrExit (s1 : State) (j : Job) : TF s1 (retrExit s1 j) :=
  TF_wu s1 _ (Nat.le_succ _)

theorem TF_retrMove (c : Cfg) (s1 : State) (j : Job) (newc : Nat) :
    TF s1 (retrMove c s1 j newc) := by
  unfold retrMove; split
  · exact (TF_advance c s1 newc).trans
      (TF_same rfl rfl rfl rfl rfl (tu_same rfl (Nat.le_refl _)))
  · exact TF.refl s1

/-- a retrieve job finished: its emit job appears (in the hands of the same worker) -/
theorem TI2_newEmit {c : Cfg} {s2 s' : State} {ej : EJob} (h : TI2 c s2)
    (hni : ¬ ItemBase s2 ej.base) (hi0 : ej.idx = 0)
    (e1 : s'.retrQ = s2.retrQ) (e3 : s'.busy = .retr2 ej :: s2.busy) (e4 : s'.emitQ = s2.emitQ)
    (e5 : s'.reordQ = s2.reordQ) (e6 : s'.orderQ = s2.orderQ) (e10 : s'.wu = s2.wu)
    (e8 : s'.ptok = s2.ptok ∨ ∃ i, (ej.base, i) ∈ s2.orderQ) : TI2 c s' := by
  have hJ : (emitJobs s').Perm (ej :: emitJobs s2) := by
    simp only [emitJobs, e4, e3, List.flatMap_cons, ejob, List.singleton_append]
    exact List.perm_middle
  have hnew : EIn s' ej := Or.inr (Or.inl (e3 ▸ List.mem_cons_self))
  have hold : ∀ e, EIn s2 e → EIn s' e := fun e he =>
    mem_emitJobs.1 (hJ.mem_iff.2 (List.mem_cons_of_mem _ (mem_emitJobs.2 he)))
  refine ⟨?_, ?_, ?_, ?_⟩
  · have := h.v1
    rw [emitBases_eq] at this ⊢
    refine ((hJ.map (·.base)).nodup_iff).2 ?_
    simp only [List.map_cons, List.nodup_cons]
    refine ⟨?_, this⟩
    intro hm
    obtain ⟨e0, he0, hb⟩ := List.mem_map.1 hm
    exact hni (Or.inl ⟨e0, mem_emitJobs.1 he0, hb⟩)
  · intro e he o ho hb
    rw [e5] at ho
    have he' : e ∈ ej :: emitJobs s2 := hJ.mem_iff.1 (mem_emitJobs.2 he)
    rcases List.mem_cons.1 he' with rfl | he'
    · exact absurd (Or.inr ⟨o, ho, hb.symm⟩) hni
    · exact h.v2 e (mem_emitJobs.1 he') o ho hb
  · intro j hj hmc
    rw [e6]
    refine h.mb j ?_ hmc
    rcases hj with hq | ⟨k, hk⟩
    · exact Or.inl (e1 ▸ hq)
    · rw [e3] at hk
      rcases List.mem_cons.1 hk with e | hk
      · cases e
      · exact Or.inr ⟨k, hk⟩
  · intro ht
    rcases e8 with e8 | ⟨i, hi⟩
    · rcases h.tu (e8 ▸ ht) with h1 | ⟨e, he, i, hi⟩
      · left; omega
      · exact Or.inr ⟨e, hold e he, i, e6 ▸ hi⟩
    · exact Or.inr ⟨ej, hnew, i, e6 ▸ hi⟩

theorem TI2_retrDone {c : Cfg} {s2 : State} {j : Job} {newc : Nat} (h : TI2 c s2)
    (hni : ¬ ItemBase s2 j.base) (hmb : j.master = true → ∃ i, (j.base, i) ∈ s2.orderQ) :
    TI2 c (retrDone c s2 j newc) := by
  cases hmas : j.master with
  | true =>
    simp only [retrDone, hmas, if_true]
    exact TI2_newEmit (ej :=
      { base := j.base, idx := 0, left := (if (rres c j.base).ok then (rres c j.base).nb else 1),
        ok := (rres c j.base).ok && (rres c j.base).fin, corrupt := j.corrupt })
      h hni rfl rfl rfl rfl rfl rfl rfl (Or.inr (hmb hmas))
  | false =>
    simp only [retrDone, hmas, Bool.false_eq_true, if_false]
    exact TI2_newEmit (ej :=
      { base := j.base, idx := 0, left := (if (rres c j.base).ok then (rres c j.base).nb else 1),
        ok := (rres c j.base).ok && (rres c j.base).fin, corrupt := j.corrupt })
      h hni rfl rfl rfl rfl rfl rfl rfl (Or.inl rfl)

theorem TI2_retrEnd {c : Cfg} {s s' : State} {j : Job} {k : Option Nat} (h : TI2 c s)
    (hU : UI c s) (hs : stepRetrEnd c s j k = some s') : TI2 c s' := by
  unfold stepRetrEnd at hs; split at hs
  · next hg =>
    have hmem : Phase.retr j k ∈ s.busy := by simpa using hg
    have hjin : JIn s j := Or.inr ⟨k, hmem⟩
    have f1 : TF s (detach { s with busy := s.busy.erase (.retr j k) } k) :=
      (TF_busy_erase s rfl).trans (TF_detach _ _)
    generalize detach { s with busy := s.busy.erase (.retr j k) } k = s1 at hs f1
    dsimp only at hs
    generalize retrNewc c j k = newc at hs
    by_cases hpd : s1.pdone = true
    · rw [if_pos hpd] at hs
      simp only [Option.some.injEq] at hs; subst hs
      exact TI2_frame h (f1.trans (TF_retrExit s1 j))
    · rw [if_neg hpd] at hs
      by_cases hab : j.redundant = true
      · rw [if_pos hab] at hs
        simp only [Option.some.injEq] at hs; subst hs
        exact TI2_frame h (f1.trans (TF_retrExit s1 j))
      · rw [if_neg hab] at hs
        have hna' : j.redundant = false := by simpa using hab
        have f2 : TF s (retrMove c s1 j newc) := f1.trans (TF_retrMove c s1 j newc)
        generalize retrMove c s1 j newc = s2 at hs f2
        -- the block of the job, if it is the master, is in order_q
        have hmq : Job.mc j = true → ∃ i, (j.base, i) ∈ s2.orderQ := by
          intro hmc
          obtain ⟨i, hi⟩ := h.mb j hjin hmc
          exact f2.oq _ i hi
        by_cases hfin : (!decide ((rres c j.base).e ≤ newc)) = true
        · rw [if_pos hfin] at hs
          by_cases hov : newc < headOffs c s2
          · rw [if_pos hov] at hs
            simp only [Option.some.injEq] at hs; subst hs
            exact TI2_frame h (f2.trans (TF_retrExit s2 _))
          · rw [if_neg hov] at hs
            simp only [Option.some.injEq] at hs; subst hs
            refine TI2_frame h (f2.trans (TF_addJob s2 _ ?_))
            intro hmc
            rw [mc_retrMoreJob] at hmc
            exact hmq hmc
        · rw [if_neg hfin] at hs
          simp only [Option.some.injEq] at hs; subst hs
          refine TI2_retrDone (TI2_frame h f2) ?_ (fun hmas => hmq (master_mc hmas hna'))
          intro hi
          exact hU.u2 j.base (f2.item hi) (mem_jobBases.2 ⟨j, hjin, rfl⟩)
  · simp at hs

/-! ### parseEnd -/

theorem TF_flag (s2 : State) (p : Nat → Bool) (extra : List (Nat × Nat)) (g : Nat) :
    TF s2 { s2 with orderQ := s2.orderQ ++ extra, gnext := g,
                    retrQ := s2.retrQ.map (flagJob p), busy := s2.busy.map (flagPhase p),
                    orphans := popOrphans p s2.orphans } := by
  refine ⟨List.Perm.of_eq (emitJobs_flag (s := s2) (p := p) rfl rfl), fun _ h => h,
    fun _ i hi => ⟨i, List.mem_append_left _ hi⟩, ?_, tu_same rfl (Nat.le_refl _)⟩
  intro j' hj' hm
  obtain ⟨j0, h0, rfl⟩ := UCap.JIn_flag (s2 := s2) (p := p) rfl rfl j' hj'
  exact Or.inl ⟨j0, h0, mc_flagJob hm, rfl⟩

theorem TF_parsePush (c : Cfg) (s1 : State) (b : Nat) : TF s1 (parsePush c s1 b) :=
  (TF_advance c s1 b).trans (TF_flag _ (fun x => decide (x < b)) [(b, 0)] _)

theorem parsePush_mem (c : Cfg) (s1 : State) (b : Nat) : (b, 0) ∈ (parsePush c s1 b).orderQ := by
  show (b, 0) ∈ (advance c s1 b).orderQ ++ [(b, 0)]
  exact List.mem_append_right _ List.mem_cons_self

/-- the parser confirms a scanner-found job at exactly `b`, or creates the master job;
    either way `(b, 0)` has just been pushed -/
theorem TF_parseMatch (c : Cfg) (s3 : State) (b : Nat) (hb : (b, 0) ∈ s3.orderQ) :
    TF s3 (parseMatch c s3 b) := by
  unfold parseMatch
  split
  · next j hj =>
    have f1 : TF s3 { s3 with retrQ := replaceFirst (Job.inqAt b) Job.good s3.retrQ } := by
      refine ⟨List.Perm.refl _, fun _ h => h, fun _ i h => ⟨i, h⟩, ?_, tu_same rfl (Nat.le_refl _)⟩
      rintro j' (hq | ⟨k, hk⟩) hm
      · rcases mem_replaceFirst _ _ hq with h1 | ⟨x, _, hx, rfl⟩
        · exact Or.inl ⟨j', Or.inl h1, hm, rfl⟩
        · exact Or.inr ⟨0, by rw [(good_of_inqAt hx).2.1]; exact hb⟩
      · exact Or.inl ⟨j', Or.inr ⟨k, hk⟩, hm, rfl⟩
    exact f1.trans ((TF_advance c _ j.endp).trans (TF_wu _ _ (Nat.le_succ _)))
  · split
    · next ph hph =>
      have f1 : TF s3 { s3 with busy := replaceFirst (Phase.inqAt b) Phase.good s3.busy } := by
        refine ⟨List.Perm.of_eq (emitJobs_good (s := s3) (q := Phase.inqAt b) rfl rfl),
          fun _ h => h, fun _ i h => ⟨i, h⟩, ?_, tu_same rfl (Nat.le_refl _)⟩
        rintro j' (hq | ⟨k, hk⟩) hm
        · exact Or.inl ⟨j', Or.inl hq, hm, rfl⟩
        · rcases mem_replaceFirst_good hk with h1 | ⟨j0, k0, _, hx, e⟩
          · exact Or.inl ⟨j', Or.inr ⟨k, h1⟩, hm, rfl⟩
          · injection e with e1 e2
            subst e1
            exact Or.inr ⟨0, by rw [(good_of_inqAt (j := j0) hx).2.1]; exact hb⟩
      exact f1.trans ((TF_advance c _ ph.endp).trans (TF_wu _ _ (Nat.le_succ _)))
    · split
      · next u hu =>
        have fA := TF_advance c s3 u.f.endp
        split
        · refine fA.trans (TF_same rfl rfl rfl rfl rfl (fun _ => Or.inr ?_))
          exact Nat.le_add_left _ _
        · exact fA.trans (TF_same rfl rfl rfl rfl rfl (tu_same rfl (Nat.le_succ _)))
      · exact TF_addJob s3 _ (fun _ => ⟨0, hb⟩)

theorem TF_parseFinish (s1 : State) (u : Nat) : TF s1 (parseFinish s1 u) := by
  refine ⟨List.Perm.of_eq
    (emitJobs_flag (s' := parseFinish s1 u) (s := s1) (p := fun _ => true) rfl rfl),
    fun _ h => h, fun _ i h => ⟨i, h⟩, ?_, fun _ => Or.inr ?_⟩
  · rintro j' (hj | ⟨k, hk⟩) hm
    · cases hj
    · rcases mem_map_flagPhase hk with ⟨j0, k0, h0, e⟩ | ⟨_, hn⟩
      · injection e with e1 e2
        subst e1
        exact Or.inl ⟨j0, Or.inr ⟨k0, h0⟩, mc_flagJob hm, rfl⟩
      · exact absurd rfl (hn j' k)
  · exact Nat.le_add_left _ _

theorem TF_parseMore (c : Cfg) (s1 : State) (k : Option Nat) : TF s1 (parseMore c s1 k) :=
  (TF_advance c s1 _).trans
    (TF_same rfl rfl rfl rfl rfl (fun _ => Or.inr (Nat.le_add_left _ _)))

theorem TF_parseVerdict (c : Cfg) (s1 : State) (r : PRes)
    (hf' : (parseVerdict c s1 r).failed = false) : TF s1 (parseVerdict c s1 r) := by
  cases r with
  | err u => cases hf'
  | finish u ok =>
    cases ok with
    | false => cases hf'
    | true => exact TF_parseFinish s1 u
  | hdr b =>
    exact (TF_parsePush c s1 b).trans (TF_parseMatch c _ b (parsePush_mem c s1 b))

theorem TF_parseEnd {c : Cfg} {s s' : State} (hs : stepParseEnd c s = some s')
    (hf' : s'.failed = false) : TF s s' := by
  unfold stepParseEnd at hs
  split at hs
  · simp at hs
  · next k hk =>
    have f1 : TF s (detach { s with pphase := none } k) :=
      (TF_same (s := s) (s' := { s with pphase := none }) rfl rfl rfl rfl rfl
        (tu_same rfl (Nat.le_refl _))).trans (TF_detach _ _)
    dsimp only at hs
    generalize detach { s with pphase := none } k = s1 at hs f1
    split at hs
    · simp only [Option.some.injEq] at hs; subst hs
      exact f1.trans (TF_parseMore c s1 k)
    · simp only [Option.some.injEq] at hs; subst hs
      exact f1.trans (TF_parseVerdict c s1 _ hf')

/-! ### all steps -/

theorem ti2_step {c : Cfg} (hW : 0 < c.W) {s s' : State} {l : Label} (hr : Reach c s)
    (h : TI2 c s) (hs : step c s l = some s') (hf' : s'.failed = false) : TI2 c s' := by
  obtain ⟨hS, _⟩ := PI_step_pre hr hs
  have hU := ui_reach hW hr
  unfold step at hs
  split at hs
  · simp at hs
  · cases l with
    | rTake => exact TI2_frame h (TF_rTake hs)
    | rQuit => exact TI2_frame h (TF_rQuit hs)
    | rBlock => exact TI2_frame h (TF_rBlock hs)
    | rEmpty => exact TI2_frame h (TF_rEmpty hs)
    | rEof => exact TI2_frame h (TF_rEof hs)
    | wDone => exact TI2_frame h (TF_wDone hs)
    | reorder ob => exact TI2_reorder h hS hU hs hf'
    | parseStart => exact TI2_frame h (TF_parseStart hs)
    | parseEnd => exact TI2_frame h (TF_parseEnd hs hf')
    | retrStart j => exact TI2_frame h (TF_retrStart hs)
    | retrEnd j k => exact TI2_retrEnd h hU hs
    | retrPost e => exact TI2_frame h (TF_retrPost hs)
    | emitStart e => exact TI2_frame h (TF_emitStart hs)
    | emitEnd e => exact TI2_emitEnd h hs
    | scanStart sp => exact TI2_frame h (TF_scanStart hs)
    | scanEnd st k => exact TI2_frame h (TF_scanEnd hs)

end Tok

/-- **the parse token and the work units**: in every reachable state in which `failf`
    has not been called there is at most one emit job per block, it is past all
    buffers of its block in `reord_q`, the master's block is in `order_q`, and
    while `parse_token` is set a work unit is free (`work_units ≥ 1`) or is held by the
    emit job of a block in `order_q` (which hands it back after its last buffer).
    Needs `num_worker ≥ 1` (with no worker the initial state has the token and no unit). -/
theorem ti2_reach {c : Cfg} (hW : 0 < c.W) (hn : 1 ≤ c.n) {s : State} (h : Reach c s)
    (hf : s.failed = false) : TI2 c s := by
  induction h with
  | init => exact Tok.TI2_init hn
  | @step s s' l hr hs ih => exact Tok.ti2_step hW hr (ih (Leak.step_nf hs)) hs hf

end LbzVerif.Lemmas.SchedD
