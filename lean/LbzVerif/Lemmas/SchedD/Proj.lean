/-
  Counter / queue-size projection of the SchedD model and the rules a hook
  trace of the real program is checked against (`schedd-accept`).

  The same rule functions are applied (a) to consecutive lines of a real H3
  trace and (b) by the BFS driver to every transition of the executable model
  (`projStepOk`), so the rule set is validated against the model exhaustively
  for the explored shapes and the binary is validated against the rule set.
  Core-only imports (linked into the driver).
-/
import LbzVerif.Model.SchedD

namespace LbzVerif.Lemmas.SchedD
open LbzVerif.Model.SchedD LbzVerif.Gen

structure Proj where
  wu : Nat
  os : Nat
  eof : Bool
  pt : Bool
  pd : Bool
  inq : Nat
  scan : Nat
  retr : Nat
  emit : Nat
  reord : Nat
  order : Nat
  unord : Nat
  head : Nat
  tail : Nat
  deriving DecidableEq, Repr

def proj (c : Cfg) (s : State) : Proj :=
  { wu := s.wu, os := s.outSlots, eof := s.eof, pt := s.ptok, pd := s.pdone,
    inq := s.rd - s.head, scan := s.scanQ.length, retr := s.retrQ.length,
    emit := s.emitQ.length, reord := s.reordQ.length, order := s.orderQ.length,
    unord := unordSize s, head := headOffs c s, tail := tailOffs c s }

/-- the effect of `advance()` on the projection: some input blocks shifted,
    `k` retrieve jobs and some scan jobs purged -/
def advOk (p q : Proj) : Bool :=
  decide (p.head ≤ q.head) && decide (q.inq ≤ p.inq) && decide (q.scan ≤ p.scan)
  && decide (q.retr ≤ p.retr) && decide (q.wu = p.wu + (p.retr - q.retr))
  && decide (q.tail = p.tail) && (q.eof == p.eof) && decide (q.os = p.os)
  && decide (q.emit = p.emit) && decide (q.reord = p.reord)

def same (p q : Proj) : Bool := p == q

/-- `discard()` takes the dropped jobs' entries out of unord_q: at most `k` go -/
def unordDrop (p q : Proj) (k : Nat) : Bool :=
  decide (q.unord ≤ p.unord) && decide (p.unord - q.unord ≤ k)

/-- rules for the locked section *starting* a task (up to its first unlock) -/
def headOk (task : String) (p q : Proj) : Bool :=
  if task = "parse" then
    p.pt && !p.pd && decide (0 < p.wu) && q == { p with pt := false, wu := p.wu - 1 }
  else if task = "retrieve" then decide (0 < p.retr) && q == { p with retr := p.retr - 1 }
  else if task = "emit" then
    decide (0 < p.emit) && decide (0 < p.os) && q == { p with emit := p.emit - 1, os := p.os - 1 }
  else if task = "scan" then
    decide (0 < p.scan) && decide (0 < p.wu) && q == { p with scan := p.scan - 1, wu := p.wu - 1 }
  else false

/-- `do_reorder` (whole) -/
def reorderOk (p q : Proj) : Bool :=
  decide (0 < p.reord) &&
  (q == { p with reord := p.reord - 1, os := p.os + 1 }
   || q == { p with reord := p.reord - 1 }
   || (decide (0 < p.order) && q == { p with reord := p.reord - 1, order := p.order - 1 }))

/-- rules for the locked section *ending* a task phase -/
def tailOk (phase : String) (p q : Proj) : Bool :=
  if phase = "parse" then
    -- MORE
    (advOk p { q with pt := p.pt, wu := q.wu - 1 } && q.pt && decide (0 < q.wu)
      && decide (q.order = p.order) && unordDrop p q (p.retr - q.retr) && (q.pd == p.pd))
    -- FINISH
    || (q.pd && q.pt && decide (q.inq = 0) && decide (q.scan = 0) && decide (q.retr = 0)
        && decide (q.unord = 0) && decide (q.wu = p.wu + p.retr + 1) && decide (q.head = p.tail)
        && decide (q.order = p.order) && decide (q.os = p.os) && decide (q.emit = p.emit)
        && decide (q.reord = p.reord))
    -- OK, new master job
    || (decide (q.order = p.order + 1) && decide (q.unord ≤ p.unord) && !q.pt && (q.pd == p.pd)
        && decide (0 < q.retr)
        && advOk p { q with retr := q.retr - 1, order := p.order, unord := p.unord, pt := p.pt })
    -- OK, matched a scanner-found block
    || (decide (q.order = p.order + 1) && decide (q.unord < p.unord) && (q.pd == p.pd)
        && decide (0 < q.wu)
        && advOk p { q with wu := q.wu - 1, order := p.order, unord := p.unord, pt := p.pt })
  else if phase = "retrieve" then
    -- parsing_done / abort / overtaken: discard
    q == { p with wu := p.wu + 1 } || q == { p with wu := p.wu + 1, unord := p.unord - 1 }
    -- MORE, speculative
    || q == { p with retr := p.retr + 1 }
    -- MORE, master
    || (decide (0 < q.retr) && (q.pt == p.pt) && (q.pd == p.pd) && decide (q.order = p.order)
        && unordDrop p q (p.retr - (q.retr - 1))
        && advOk p { q with retr := q.retr - 1 })
    -- finished, speculative
    || q == p
    -- finished, master
    || (q.pt && (q.pd == p.pd) && decide (q.order = p.order) && unordDrop p q (p.retr - q.retr)
        && advOk p { q with pt := p.pt })
  else if phase = "retr2" then q == { p with emit := p.emit + 1 }
  else if phase = "emit" then
    q == { p with emit := p.emit + 1, reord := p.reord + 1 }
    || q == { p with wu := p.wu + 1, reord := p.reord + 1 }
  else if phase = "scan" then
    q == { p with wu := p.wu + 1 } || q == { p with wu := p.wu + 1, scan := p.scan + 1 }
    || q == { p with unord := p.unord + 1, retr := p.retr + 1 }
    || q == { p with unord := p.unord + 1, retr := p.retr + 1, scan := p.scan + 1 }
  else if phase = "reader" then
    q == p || q == { p with eof := true }
    || (decide (p.tail < q.tail) && q == { p with inq := p.inq + 1, scan := p.scan + 1, tail := q.tail })
  else if phase = "writer" then q == { p with os := p.os + 1 }
  else false

/-- the rule a model transition must satisfy -/
def projStepOk (c : Cfg) (s : State) (l : Label) (s' : State) : Bool :=
  let p := proj c s
  let q := proj c s'
  if s'.failed then true else
  match l with
  | .rTake | .rQuit | .rEmpty => q == p
  | .rBlock | .rEof => tailOk "reader" p q
  | .wDone => tailOk "writer" p q
  | .reorder _ => reorderOk p q
  | .parseStart => headOk "parse" p q
  | .parseEnd => tailOk "parse" p q
  | .retrStart _ => headOk "retrieve" p q
  | .retrEnd _ _ => tailOk "retrieve" p q
  | .retrPost _ => tailOk "retr2" p q
  | .emitStart _ => headOk "emit" p q
  | .emitEnd _ => tailOk "emit" p q
  | .scanStart _ => headOk "scan" p q
  | .scanEnd _ _ => tailOk "scan" p q

/-! ### `select_task()` on the projection: the position-dependent inputs of
    the guards are unknown, so existentially quantified (7 bits). -/

def bit (x i : Nat) : Bool := (x / 2 ^ i) % 2 == 1

def viewP (n totalOut : Nat) (ultra : Bool) (p : Proj) (x : Nat) : DView :=
  { ultra := ultra, eof := p.eof, parseToken := p.pt, parsingDone := p.pd,
    workUnits := p.wu, outSlots := p.os, numWorker := n, totalOutSlots := totalOut,
    retrEmpty := p.retr == 0, emitEmpty := p.emit == 0, reordEmpty := p.reord == 0,
    orderEmpty := p.order == 0, scanEmpty := p.scan == 0,
    parserCanAttach := bit x 0, retrHeadCanAttach := bit x 1, scanHeadCanAttach := bit x 2,
    emitHeadEqOrderHead := bit x 3, emitHeadLeOrderHead := bit x 4,
    reordHeadLeOrderHead := bit x 5, reordHeadLtOrderHead := bit x 6 }

def selectP (n totalOut : Nat) (ultra : Bool) (p : Proj) (x : Nat) : Option String :=
  dTaskOrder.find? (fun t => guardOf t (viewP n totalOut ultra p x))

/-- some value of the unknown comparisons makes `select_task()` pick `t` -/
def selectable (n totalOut : Nat) (ultra : Bool) (p : Proj) (t : Option String) : Bool :=
  (List.range 128).any (fun x => selectP n totalOut ultra p x == t)

/-! ### trace acceptance -/

structure Ev where
  kind : String
  tid : Nat
  name : String
  p : Proj

def parseEv (s : String) : Option Ev :=
  match s.splitOn "," with
  | [k, t, nm, wu, os, eof, pt, pd, inq, scan, retr, emit, reord, order, unord, head, tail] => do
    pure { kind := k, tid := (← t.toNat?), name := nm,
           p := { wu := (← wu.toNat?), os := (← os.toNat?), eof := (← eof.toNat?) != 0,
                  pt := (← pt.toNat?) != 0, pd := (← pd.toNat?) != 0, inq := (← inq.toNat?),
                  scan := (← scan.toNat?), retr := (← retr.toNat?), emit := (← emit.toNat?),
                  reord := (← reord.toNat?), order := (← order.toNat?), unord := (← unord.toNat?),
                  head := (← head.toNat?), tail := (← tail.toNat?) } }
  | _ => none

/-- bounds every snapshot must satisfy (`over` = unord_q above capacity is
    reported separately: it is finding F4, not a rejection) -/
def snapOk (n totalIn totalOut : Nat) (p : Proj) : Bool :=
  decide (p.wu + p.retr + p.emit ≤ n) && decide (p.os + p.reord ≤ totalOut)
  && decide (p.order ≤ orderCap n totalOut) && decide (p.inq ≤ totalIn)
  && decide (p.scan ≤ totalIn) && decide (p.head ≤ p.tail)

def monoOk (p q : Proj) : Bool :=
  decide (p.head ≤ q.head) && decide (p.tail ≤ q.tail) && (!p.eof || q.eof) && (!p.pd || q.pd)

structure Acc where
  line : Nat := 0
  prev : Option Ev := none
  status : List (Nat × String) := []     -- thread ↦ "R:task" | "M:phase" (absent = idle/unknown)
  workers : List Nat := []
  precise : Bool := false
  rchecks : Nat := 0
  uchecks : Nat := 0
  headdeltas : Nat := 0
  reorderdeltas : Nat := 0
  taildeltas : Nat := 0
  overcap : Nat := 0
  err : Option String := none

def stGet (a : Acc) (t : Nat) : String :=
  match a.status.find? (·.1 == t) with | some x => x.2 | none => ""
def stSet (a : Acc) (t : Nat) (v : String) : Acc :=
  { a with status := (t, v) :: a.status.filter (·.1 != t) }

def fail (a : Acc) (why : String) : Acc :=
  if a.err.isSome then a else { a with err := some s!"reject {a.line} {why}" }

def acceptEv (n totalIn totalOut : Nat) (ultra : Bool) (a : Acc) (e : Ev) : Acc :=
  if a.err.isSome then a else
  -- `S` (xsignal inside sched_unlock, same locked region as the `U` that follows): no
  -- effect on the projection; checked by the refined acceptor (ProjW.lean)
  if e.kind == "S" then { a with line := a.line + 1 } else
  let a := { a with line := a.line + 1 }
  let a := if snapOk n totalIn totalOut e.p then a else fail a "snapshot-bounds"
  let a := if decide (e.p.unord > unordCap n totalOut) then { a with overcap := a.overcap + 1 } else a
  let a := match a.prev with
    | some pe => if monoOk pe.p e.p then a else fail a "monotonicity"
    | none => a
  let sameRegion := match a.prev with
    | some pe => pe.tid == e.tid && pe.kind == "R"
    | none => false
  let pp := match a.prev with | some pe => pe.p | none => e.p
  let stt := stGet a e.tid
  -- exact check of a tail (only when every locked region ends in a line)
  let a :=
    if a.precise && !sameRegion && a.prev.isSome && e.kind != "I" then
      let ph := if stt.startsWith "M:" then (stt.drop 2).toString
                else if a.workers.contains e.tid then "idle"
                else if e.kind == "U" then "io" else "idle"
      let ok :=
        if ph == "idle" then pp == e.p
        else if ph == "io" then tailOk "reader" pp e.p || tailOk "writer" pp e.p
        else tailOk ph pp e.p
      if ok then { a with taildeltas := a.taildeltas + 1 } else fail a s!"tail-delta {ph}"
    else a
  let a :=
    if e.kind == "I" then a
    else if e.kind == "R" then
      let a := { a with workers := if a.workers.contains e.tid then a.workers else e.tid :: a.workers }
      let a := if selectable n totalOut ultra e.p (some e.name) then { a with rchecks := a.rchecks + 1 }
               else fail a s!"task-not-selectable {e.name}"
      let a := match a.prev with
        | some pe =>
          if pe.tid == e.tid && pe.kind == "R" && pe.name == "reorder" then
            if reorderOk pe.p e.p then { a with reorderdeltas := a.reorderdeltas + 1 }
            else fail a "reorder-delta"
          else a
        | none => a
      stSet a e.tid ("R:" ++ e.name)
    else if e.kind == "U" then
      let nxt := if e.name == "-" then none else some e.name
      let a := if selectable n totalOut ultra e.p nxt then { a with uchecks := a.uchecks + 1 }
               else fail a s!"next-task-inconsistent {e.name}"
      if stt.startsWith "R:" then
        let task := (stt.drop 2).toString
        let a := if sameRegion then
            (if headOk task pp e.p then { a with headdeltas := a.headdeltas + 1 }
             else fail a s!"head-delta {task}")
          else a
        stSet a e.tid ("M:" ++ task)
      else if stt == "M:retrieve" then stSet a e.tid "M:retr2"
      else a
    else if e.kind == "W" then stSet a e.tid ""
    else if e.kind == "F" then
      if e.p.wu == n && e.p.os == totalOut && e.p.retr == 0 && e.p.emit == 0 && e.p.reord == 0
         && e.p.order == 0 && e.p.unord == 0 && e.p.scan == 0 && e.p.inq == 0 && e.p.pd && e.p.pt
         && e.p.eof && e.p.head == e.p.tail
      then a else fail a "final-state"
    else fail a "bad-kind"
  { a with prev := some e }

def acceptTrace (n totalIn totalOut : Nat) (ultra : Bool) (evs : String) : String :=
  match (evs.splitOn ";").mapM parseEv with
  | none => "bad-args"
  | some l =>
    let precise := l.any (fun e => e.kind == "W")
    let a := l.foldl (acceptEv n totalIn totalOut ultra) { precise := precise }
    match a.err with
    | some e => e
    | none =>
      s!"ok lines={a.line} rchecks={a.rchecks} uchecks={a.uchecks} headdeltas={a.headdeltas} " ++
      s!"reorderdeltas={a.reorderdeltas} taildeltas={a.taildeltas} overcap={a.overcap} " ++
      s!"precise={if precise then 1 else 0}"

end LbzVerif.Lemmas.SchedD
