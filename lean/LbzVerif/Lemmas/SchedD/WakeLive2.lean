/-
  Lemmas.SchedD.WakeLive2 — termination of the REFINED expansion scheduler
  `Model.SchedDW` up to spurious wake-ups.

  "Finitely many non-spurious steps" is false literally: a spuriously woken
  worker takes the mutex, finds `next_task == NULL` and waits again — two
  non-spurious steps per spurious wake-up.  What holds (as for the compression
  scheduler, Props/C11/Compress.lean) is: the measure

      muW w = (mu of the scheduler data, workers not yet gone, phase)

  (`phase`: 2 for a worker about to take the mutex, 1 for the worker at the top
  of the loop) decreases lexicographically along every transition that is not
  a spurious wake-up (`stepW_measure`), a spurious wake-up costs exactly 2
  units of `phase` (`spurious_cost_w`), hence every infinite run contains
  infinitely many spurious wake-ups (`terminates_w`, `terminates_w_ns`).
-/
import LbzVerif.Lemmas.SchedD.WakeLive

namespace LbzVerif.Lemmas.SchedD
open LbzVerif.Gen LbzVerif.Model.SchedD LbzVerif.Model.SchedDW

/-! ### the measure -/

/-- 1 for a worker thread that has not left its loop -/
def liveWt : WPh → Nat
  | .exited => 0
  | _ => 1

/-- what an idle worker still does on its own: `ready` → takes the mutex →
    `inloop` → waits / exits -/
def phWt : WPh → Nat
  | .ready => 2
  | .inloop => 1
  | _ => 0

/-- number of worker threads that have not exited -/
def live (w : WState) : Nat := msum liveWt w.ws

def phW (w : WState) : Nat := msum phWt w.ws

theorem live_eq_count (w : WState) : live w = (w.ws.filter (· != .exited)).length := by
  unfold live
  induction w.ws with
  | nil => rfl
  | cons p r ih =>
    rw [msum_cons, ih, List.filter_cons]
    cases p <;> simp [liveWt] <;> omega

abbrev WTuple := MTuple × Nat × Nat

def muW (c : Cfg) (w : WState) : WTuple := (mu c w.base, live w, phW w)

/-- lexicographic: `muLt` on the scheduler data, then `live`, then `phase` -/
def muLtW : WTuple → WTuple → Prop := Prod.Lex muLt (Prod.Lex (· < ·) (· < ·))

theorem muLtW_wf : WellFounded muLtW :=
  (Prod.lex ⟨muLt, muLt_wf⟩ (Prod.lex Nat.lt_wfRel Nat.lt_wfRel)).wf

theorem msum_set {f : WPh → Nat} {ws : List WPh} {i : Nat} {q : WPh} (p : WPh)
    (h : ws[i]? = some q) : msum f (ws.set i p) + f q = msum f ws + f p := by
  induction ws generalizing i with
  | nil => cases h
  | cons x xs ih =>
    cases i with
    | zero =>
      simp only [List.getElem?_cons_zero, Option.some.injEq] at h
      subst h
      rw [List.set_cons_zero, msum_cons, msum_cons]; omega
    | succ i =>
      simp only [List.getElem?_cons_succ] at h
      have := ih h
      rw [List.set_cons_succ, msum_cons, msum_cons]; omega

theorem live_broadcast (ws : List WPh) : msum liveWt (broadcast ws) = msum liveWt ws := by
  unfold broadcast
  apply msum_map
  intro p; cases p <;> simp [liveWt]

/-- a base step pays for everything -/
theorem muW_base {c : Cfg} (hW : 0 < c.W) {w w' : WState} {bl : Label} (h : ReachW c w)
    (hb : step c w.base bl = some w'.base) : muLtW (muW c w') (muW c w) :=
  Prod.Lex.left _ _ (step_measure hW (reachW_base h) hb)

theorem muW_same {c : Cfg} {w w' : WState} (hb : w'.base = w.base)
    (h : live w' < live w ∨ (live w' = live w ∧ phW w' < phW w)) :
    muLtW (muW c w') (muW c w) := by
  unfold muW
  rw [hb]
  apply Prod.Lex.right
  rcases h with h | ⟨e, h⟩
  · exact Prod.Lex.left _ _ h
  · rw [e]; exact Prod.Lex.right _ h

/-- **the measure decreases** along every transition of a reachable state of the
    refined model which is not a spurious wake-up: a transition that contains a
    section of the base model decreases `mu` (`step_measure`) whatever happens
    to the workers (signals, the worker entering / leaving a task); taking the
    mutex and going to `xwait` cost one unit of `phase` each; leaving the loop
    makes one worker less `live` (its `xbroadcast` may raise `phase`). -/
theorem stepW_measure {c : Cfg} (hW : 0 < c.W) {w w' : WState} {l : WLabel} (h : ReachW c w)
    (hl : WLabel.isSpurious l = false) (hs : stepW c w l = some w') :
    muLtW (muW c w') (muW c w) := by
  unfold stepW at hs
  split at hs
  · cases hs
  cases l with
  | io bl =>
    dsimp only at hs
    split at hs
    · simp only [Option.map_eq_some_iff] at hs
      obtain ⟨b, hb, rfl⟩ := hs
      exact muW_base hW h hb
    · cases hs
  | ioS bl k =>
    dsimp only at hs
    split at hs
    · simp only [Option.bind_eq_some_iff] at hs
      obtain ⟨b, hb, hu⟩ := hs
      exact muW_base hW h (by rw [(unlockW_inv hu).1]; exact hb)
    · cases hs
  | acquire i =>
    dsimp only at hs
    split at hs
    · next hc =>
      cases hs
      refine muW_same rfl (.inr ?_)
      have h1 := msum_set (f := liveWt) .inloop hc.2
      have h2 := msum_set (f := phWt) .inloop hc.2
      simp only [liveWt, phWt] at h1 h2
      simp only [live, phW]
      omega
    · cases hs
  | runTask i bl k =>
    dsimp only at hs
    split at hs
    · simp only [Option.bind_eq_some_iff] at hs
      obtain ⟨b, hb, hu⟩ := hs
      split at hu
      · cases hu; exact muW_base hW h hb
      · exact muW_base hW h (by rw [(unlockW_inv hu).1]; exact hb)
    · cases hs
  | relock i bl k =>
    dsimp only at hs
    split at hs
    · simp only [Option.bind_eq_some_iff] at hs
      obtain ⟨b, hb, hu⟩ := hs
      split at hu
      · exact muW_base hW h (by rw [(unlockW_inv hu).1]; exact hb)
      · cases hu; exact muW_base hW h hb
    · cases hs
  | wait i =>
    dsimp only at hs
    split at hs
    · next hc =>
      cases hs
      refine muW_same rfl (.inr ?_)
      have h1 := msum_set (f := liveWt) .waiting hc.2.1
      have h2 := msum_set (f := phWt) .waiting hc.2.1
      simp only [liveWt, phWt] at h1 h2
      simp only [live, phW]
      omega
    · cases hs
  | exit i =>
    dsimp only at hs
    split at hs
    · next hc =>
      cases hs
      refine muW_same rfl (.inl ?_)
      have h1 := msum_set (f := liveWt) .exited hc.2.1
      simp only [liveWt] at h1
      simp only [live]
      rw [live_broadcast]
      omega
    · cases hs
  | spurious i => cases hl

/-- **a spurious wake-up costs exactly 2 units of `phase` and nothing else**: the
    woken worker takes the mutex, sees `next_task == NULL` (or a task, or
    `finished()`: then it makes progress) and waits again. -/
theorem spurious_cost_w {c : Cfg} {w w' : WState} {i : Nat}
    (hs : stepW c w (.spurious i) = some w') :
    w'.base = w.base ∧ live w' = live w ∧ phW w' = phW w + 2 := by
  unfold stepW at hs
  split at hs
  · cases hs
  dsimp only at hs
  split at hs
  · next hc =>
    cases hs
    have h1 := msum_set (f := liveWt) .ready hc
    have h2 := msum_set (f := phWt) .ready hc
    simp only [liveWt, phWt] at h1 h2
    refine ⟨rfl, ?_, ?_⟩
    · simp only [live]; omega
    · simp only [phW]; omega
  · cases hs

/-- every state of a run from a reachable state is reachable -/
theorem reachW_seq {c : Cfg} (f : Nat → WState) (ℓ : Nat → WLabel) (h0 : ReachW c (f 0))
    (hstep : ∀ i, stepW c (f i) (ℓ i) = some (f (i + 1))) : ∀ i, ReachW c (f i) := by
  intro i
  induction i with
  | zero => exact h0
  | succ i ih => exact .step (ℓ i) ih (hstep i)

/-- **the refined expansion scheduler terminates up to spurious wake-ups**:
    for every infinite sequence of transitions `f 0 →ℓ 0→ f 1 →ℓ 1→ …` of
    `Model.SchedDW` starting in a reachable state (any worker count, input,
    slot totals, choice of signalled waiters; no fairness assumed) and every
    `N` there is an `i ≥ N` whose label is a spurious wake-up.  So every run
    with finitely many spurious wake-ups is finite, and by `deadlock_free_w` /
    `maximal_final_w` its maximal extension ends in the final state. -/
theorem terminates_w {c : Cfg} (hW : 0 < c.W) (f : Nat → WState) (ℓ : Nat → WLabel)
    (h0 : ReachW c (f 0)) (hstep : ∀ i, stepW c (f i) (ℓ i) = some (f (i + 1))) :
    ∀ N, ∃ i, N ≤ i ∧ WLabel.isSpurious (ℓ i) = true := by
  intro N
  have hreach := reachW_seq f ℓ h0 hstep
  apply Classical.byContradiction
  intro hno
  have hns : ∀ i, N ≤ i → WLabel.isSpurious (ℓ i) = false := by
    intro i hi
    cases hh : WLabel.isSpurious (ℓ i) with
    | false => rfl
    | true => exact absurd ⟨i, hi, hh⟩ hno
  apply mu_no_descending_chain muLtW_wf (fun i => muW c (f (N + i)))
  intro i
  exact stepW_measure hW (hreach (N + i)) (hns (N + i) (by omega)) (hstep (N + i))

/-- no infinite run without spurious wake-ups -/
theorem terminates_w_ns {c : Cfg} (hW : 0 < c.W) (f : Nat → WState) (ℓ : Nat → WLabel)
    (h0 : ReachW c (f 0)) :
    ¬ ∀ i, WLabel.isSpurious (ℓ i) = false ∧ stepW c (f i) (ℓ i) = some (f (i + 1)) := by
  intro h
  obtain ⟨i, _, hi⟩ := terminates_w hW f ℓ h0 (fun i => (h i).2) 0
  rw [(h i).1] at hi; cases hi

/-! ### non-vacuity -/

/-- the worker part of the measure in the initial state of the two-worker
    witness configuration (both workers about to take the mutex) and after
    `wakeTrace2` (both gone) -/
example : live (initW wakeCfg) = 2 ∧ phW (initW wakeCfg) = 4 ∧
    (runW wakeCfg (initW wakeCfg) wakeTrace2).any (fun w => live w == 0 && phW w == 0) = true := by
  decide +kernel

/-- a concrete decrease on the first step of `wakeTrace1` (worker 0 takes the
    mutex: `phase` 4 → 3) -/
example : ∃ w', stepW wakeCfg (initW wakeCfg) (.acquire 0) = some w' ∧
    phW w' = 3 ∧ muLtW (muW wakeCfg w') (muW wakeCfg (initW wakeCfg)) := by
  cases h : stepW wakeCfg (initW wakeCfg) (.acquire 0) with
  | none => exact absurd h (by decide +kernel)
  | some w' =>
    refine ⟨w', rfl, ?_, stepW_measure (by decide) .init rfl h⟩
    have : (stepW wakeCfg (initW wakeCfg) (.acquire 0)).any (fun w => phW w == 3) = true := by
      decide +kernel
    rw [h] at this
    simpa using this

/-- a spurious wake-up is possible in a reachable state (after worker 0 went to
    `xwait`), and there it raises `phase` by 2 -/
example : ∃ w w', ReachW wakeCfg w ∧ stepW wakeCfg w (.spurious 0) = some w' ∧
    phW w' = phW w + 2 := by
  cases h : runW wakeCfg (initW wakeCfg) [.acquire 0, .wait 0] with
  | none => exact absurd h (by decide +kernel)
  | some w =>
    have hr := reachW_run _ .init h
    cases h2 : stepW wakeCfg w (.spurious 0) with
    | none =>
      exfalso
      have : ((runW wakeCfg (initW wakeCfg) [.acquire 0, .wait 0]).bind
          (fun w => stepW wakeCfg w (.spurious 0))).isSome = true := by decide +kernel
      rw [h] at this
      simp [h2] at this
    | some w' => exact ⟨w, w', hr, h2, (spurious_cost_w h2).2.2⟩

end LbzVerif.Lemmas.SchedD
