/-
  Helper lemmas for the SchedD model: task selection, position order,
  the sequential reference, counting.
-/
import LbzVerif.Model.SchedD

namespace LbzVerif.Lemmas.SchedD
open LbzVerif.Model.SchedD LbzVerif.Gen

/-! ### select_task -/

theorem select_guard {c : Cfg} {s : State} {t : String} (h : selectTask c s = some t) :
    guardOf t (view c s) = true := by
  unfold selectTask at h
  exact List.find?_some (p := fun t => guardOf t (view c s)) h

theorem select_reorder {c : Cfg} {s : State} (h : selectTask c s = some "reorder") :
    dCanReorder (view c s) = true := by
  have := select_guard h; simpa [guardOf] using this

/-! ### positions -/

theorem posLe_not_posLt_eq {a b : Nat × Nat} (h1 : posLe a b = true) (h2 : posLt a b = false) :
    a = b := by
  obtain ⟨a1, a2⟩ := a; obtain ⟨b1, b2⟩ := b
  simp only [posLe, posLt, Bool.not_eq_true', Bool.or_eq_false_iff, Bool.and_eq_false_iff,
    decide_eq_false_iff_not, beq_eq_false_iff_ne, ne_eq] at h1 h2
  obtain ⟨h1a, h1b⟩ := h1; obtain ⟨h2a, h2b⟩ := h2
  have e1 : a1 = b1 := by omega
  subst e1
  have : a2 = b2 := by
    rcases h1b with h | h
    · exact absurd rfl h
    · rcases h2b with h' | h'
      · exact absurd rfl h'
      · omega
  subst this; rfl

/-! ### input abstraction -/

theorem pres_hdr {c : Cfg} {p b : Nat} (h : pres c p = .hdr b) : p < b ∧ b ≤ c.T := by
  unfold pres at h
  split at h
  · split at h
    · next hh => cases h; exact hh
    · cases h
  · next r hr => exact absurd h (hr b)

theorem rres_ge (c : Cfg) (b : Nat) : b ≤ (rres c b).e := by
  unfold rres; dsimp only; split
  · next h => simp only; omega
  · simp only; omega

theorem rres_ok_gt {c : Cfg} {b : Nat} (h : (rres c b).ok = true) : b < (rres c b).e := by
  unfold rres at h ⊢; dsimp only at h ⊢; split
  · next hh => simp only; omega
  · next hh => rw [if_neg hh] at h; simp at h

theorem rres_nb_pos (c : Cfg) (b : Nat) : 1 ≤ (rres c b).nb := by
  unfold rres; dsimp only; split <;> simp only <;> omega

/-! ### sequential reference -/

theorem bufs_succ (b i n : Nat) : bufs b i (n + 1) = (b, i) :: bufs b (i + 1) n := by
  simp [bufs, List.range'_succ]

theorem bufs_zero (b i : Nat) : bufs b i 0 = [] := by simp [bufs]

/-- remaining sink records of the blocks in `order_q`, then `k` -/
def orderOut (c : Cfg) : List (Nat × Nat) → List (Nat × Nat) × Bool → List (Nat × Nat) × Bool
  | [], k => k
  | (b, i) :: r, k =>
    let o := blockOut c b i
    if o.2 then (o.1 ++ (orderOut c r k).1, (orderOut c r k).2) else o

theorem orderOut_append (c : Cfg) (q : List (Nat × Nat)) (b : Nat) (k : List (Nat × Nat) × Bool) :
    orderOut c (q ++ [(b, 0)]) k = orderOut c q (orderOut c [(b, 0)] k) := by
  induction q with
  | nil => rfl
  | cons x xs ih =>
    obtain ⟨b', i'⟩ := x
    simp only [List.cons_append, orderOut, ih]

theorem orderOut_fail (c : Cfg) (q : List (Nat × Nat)) (k : List (Nat × Nat) × Bool)
    (hk : k.2 = false) : (orderOut c q k).2 = false := by
  induction q with
  | nil => exact hk
  | cons x xs ih =>
    obtain ⟨b, i⟩ := x
    simp only [orderOut]
    split
    · exact ih
    · next h => simpa using h

theorem rres_le {c : Cfg} {b : Nat} (hb : b ≤ c.T) : (rres c b).e ≤ c.T := by
  unfold rres; dsimp only; split
  · next h => simp only; omega
  · simp only; omega

theorem seqFrom_hdr {c : Cfg} {f p b : Nat} (hp : pres c p = .hdr b) :
    seqFrom c (f + 1) p =
      if (blockOut c b 0).2 then
        ((blockOut c b 0).1 ++ (seqFrom c f (rres c b).e).1, (seqFrom c f (rres c b).e).2)
      else blockOut c b 0 := by
  simp only [seqFrom, hp]

theorem seqFrom_err {c : Cfg} {f p u : Nat} (hp : pres c p = .err u) :
    seqFrom c (f + 1) p = ([], false) := by
  simp only [seqFrom, hp]

theorem seqFrom_finish {c : Cfg} {f p u : Nat} {ok : Bool} (hp : pres c p = .finish u ok) :
    seqFrom c (f + 1) p = ([], ok) := by
  simp only [seqFrom, hp]

theorem seqFrom_step (c : Cfg) : ∀ (f p : Nat), p ≤ c.T → c.T + 1 - p ≤ f →
    seqFrom c (f + 1) p = seqFrom c f p := by
  intro f
  induction f with
  | zero => intro p hp h; omega
  | succ f ih =>
    intro p hpT h
    cases hp : pres c p with
    | err u => rw [seqFrom_err hp, seqFrom_err hp]
    | finish u ok => rw [seqFrom_finish hp, seqFrom_finish hp]
    | hdr b =>
      have hb := pres_hdr hp
      have he := rres_ge c b
      have hl := rres_le hb.2
      rw [seqFrom_hdr hp, seqFrom_hdr hp, ih (rres c b).e hl (by omega)]

theorem seqFrom_fuel (c : Cfg) (p : Nat) (hp : p ≤ c.T) : ∀ (d : Nat),
    seqFrom c (c.T + 1 - p + d) p = seqFrom c (c.T + 1 - p) p := by
  intro d
  induction d with
  | zero => rfl
  | succ d ih =>
    rw [← Nat.add_assoc, seqFrom_step c _ p hp (by omega), ih]

theorem seqFrom_fuel' (c : Cfg) (p f : Nat) (hp : p ≤ c.T) (hf : c.T + 1 - p ≤ f) :
    seqFrom c f p = seqFrom c (c.T + 1 - p) p := by
  have := seqFrom_fuel c p hp (f - (c.T + 1 - p))
  rwa [Nat.add_sub_cancel' hf] at this

end LbzVerif.Lemmas.SchedD
