/-
  Lemmas.SchedD.Wake — the refined expansion scheduler `Model.SchedDW`
  (explicit worker threads, `next_task`, `sched_mutex`, `sched_cond`):

  * `stepW_base` / `reachW_base` (simulation): a refined step is a stutter or
    exactly one step of the base model `Model.SchedD`, so every theorem about
    `Reach` holds for the base component of every `ReachW` state;
  * `WI` / `wi_reach` / `no_lost_wakeup`: `next_task` is always up to date, only
    the owner of `sched_mutex` stands at the top of the worker loop, and
    whenever the mutex is free and a task is ready or the process has finished,
    some worker has a wake-up pending (`ready`) or nobody is in `xwait`.
  (`exit_final`, `running_count`: Wake2.lean.)
-/
import LbzVerif.Model.SchedDW
import LbzVerif.Lemmas.SchedD.Cons

namespace LbzVerif.Lemmas.SchedD
open LbzVerif.Gen LbzVerif.Model.SchedD LbzVerif.Model.SchedDW

/-! ### worker lists -/

theorem wset_get {ws : List WPh} {i j : Nat} {p q : WPh} (h : (ws.set i p)[j]? = some q) :
    (i = j ∧ q = p) ∨ (i ≠ j ∧ ws[j]? = some q) := by
  rw [List.getElem?_set] at h
  split at h
  · next e =>
    split at h
    · exact .inl ⟨e, (Option.some.inj h).symm⟩
    · cases h
  · next e => exact .inr ⟨e, h⟩

theorem wget_lt {ws : List WPh} {i : Nat} {q : WPh} (h : ws[i]? = some q) : i < ws.length := by
  rcases Nat.lt_or_ge i ws.length with h' | h'
  · exact h'
  · rw [List.getElem?_eq_none h'] at h; cases h

theorem wset_self {ws : List WPh} {i : Nat} {q : WPh} (p : WPh) (h : ws[i]? = some q) :
    (ws.set i p)[i]? = some p := by
  rw [List.getElem?_set]; simp [wget_lt h]

theorem wmem_set_self {ws : List WPh} {i : Nat} {q : WPh} (p : WPh) (h : ws[i]? = some q) :
    p ∈ ws.set i p :=
  List.mem_of_getElem? (wset_self p h)

theorem wmem_set {ws : List WPh} {i : Nat} {p r : WPh} (h : r ∈ ws.set i p) : r = p ∨ r ∈ ws := by
  obtain ⟨j, hj⟩ := List.getElem?_of_mem h
  rcases wset_get hj with ⟨_, e⟩ | ⟨_, e⟩
  · exact .inl e
  · exact .inr (List.mem_of_getElem? e)

/-- a member of `ws` other than the replaced entry survives `set` -/
theorem wmem_set_of_ne {ws : List WPh} {i : Nat} {q r : WPh} (p : WPh)
    (h : ws[i]? = some q) (hr : r ∈ ws) (hne : r ≠ q) : r ∈ ws.set i p := by
  obtain ⟨j, hj⟩ := List.getElem?_of_mem hr
  have hij : i ≠ j := by
    intro e; subst e; rw [h] at hj; exact hne (Option.some.inj hj).symm
  exact List.mem_of_getElem? (i := j) (by rw [List.getElem?_set_ne hij]; exact hj)

theorem wbroadcast_no_waiting (ws : List WPh) : ∀ p ∈ broadcast ws, p ≠ .waiting := by
  intro p hp
  simp only [broadcast, List.mem_map] at hp
  obtain ⟨q, _, rfl⟩ := hp
  split
  · intro e; cases e
  · next hq => exact hq

theorem wbroadcast_length (ws : List WPh) : (broadcast ws).length = ws.length := by
  simp [broadcast]

theorem wbroadcast_get {ws : List WPh} {i : Nat} {q : WPh} (h : (broadcast ws)[i]? = some q) :
    ∃ p, ws[i]? = some p ∧ q = if p = .waiting then .ready else p := by
  simp only [broadcast, List.getElem?_map, Option.map_eq_some_iff] at h
  obtain ⟨p, hp, e⟩ := h
  exact ⟨p, hp, e.symm⟩

theorem wmem_broadcast {ws : List WPh} {p : WPh} (h : p ∈ ws) (hp : p ≠ .waiting) :
    p ∈ broadcast ws := by
  simp only [broadcast, List.mem_map]
  exact ⟨p, h, by simp [hp]⟩

/-! ### `xsignal`, `sched_unlock` -/

theorem signal_inv {ws ws' : List WPh} {k : Nat} (h : signal ws k = some ws') :
    (ws' = ws ∧ ∀ p ∈ ws, p ≠ .waiting) ∨ (ws[k]? = some .waiting ∧ ws' = ws.set k .ready) := by
  unfold signal at h
  split at h
  · split at h
    · next hk => exact .inr ⟨hk, (Option.some.inj h).symm⟩
    · cases h
  · next hn =>
    refine .inl ⟨(Option.some.inj h).symm, ?_⟩
    intro p hp e; subst e; exact hn hp

/-- `xsignal` can always be performed -/
theorem signal_some (ws : List WPh) : ∃ k ws', signal ws k = some ws' := by
  by_cases h : WPh.waiting ∈ ws
  · obtain ⟨k, hk⟩ := List.getElem?_of_mem h
    exact ⟨k, ws.set k .ready, by simp [signal, h, hk]⟩
  · exact ⟨0, ws, by simp [signal, h]⟩

/-- what `sched_unlock()` does: the scheduler data are untouched, `next_task`
    is recomputed, the mutex is free, and either the worker list is unchanged
    (and then nobody waits if a task is ready or the process has finished) or
    one waiter has become `ready`. -/
theorem unlockW_inv {c : Cfg} {w w' : WState} {k : Nat} (h : unlockW c w k = some w') :
    w'.base = w.base ∧ w'.nextTask = selectTask c w.base ∧ w'.holder = none ∧
    ((w'.ws = w.ws ∧
        (((selectTask c w.base).isSome = true ∨ finished c w.base = true) →
          ∀ p ∈ w.ws, p ≠ .waiting)) ∨
     (w.ws[k]? = some .waiting ∧ w'.ws = w.ws.set k .ready)) := by
  unfold unlockW at h
  dsimp only at h
  split at h
  · simp only [Option.map_eq_some_iff] at h
    obtain ⟨ws', hs, rfl⟩ := h
    refine ⟨rfl, rfl, rfl, ?_⟩
    rcases signal_inv hs with ⟨e, hn⟩ | ⟨hk, e⟩
    · exact .inl ⟨e, fun _ => hn⟩
    · exact .inr ⟨hk, e⟩
  · next hc =>
    cases h
    refine ⟨rfl, rfl, rfl, .inl ⟨rfl, ?_⟩⟩
    intro hp
    exfalso; apply hc
    rcases hp with hp | hp <;> simp [hp]

/-- `sched_unlock()` never blocks: some waiter can be chosen for the signal -/
theorem unlockW_some (c : Cfg) (w : WState) : ∃ k w', unlockW c w k = some w' := by
  obtain ⟨k, ws', hk⟩ := signal_some w.ws
  unfold unlockW
  dsimp only
  split
  · exact ⟨k, _, by rw [hk]; rfl⟩
  · exact ⟨0, _, rfl⟩

/-! ### inversion of `stepW` -/

/-- The transitions of `stepW`, one constructor per case. -/
inductive WCore (c : Cfg) (w : WState) : WState → Prop where
  | io (l : Label) (b : State) : lockFreeIO l = true → step c w.base l = some b →
      WCore c w { w with base := b }
  | ioS (l : Label) (k : Nat) (b : State) (w' : WState) : lockedIO l = true → w.holder = none →
      step c w.base l = some b → unlockW c { w with base := b } k = some w' → WCore c w w'
  | acquire (i : Nat) : w.holder = none → w.ws[i]? = some .ready →
      WCore c w { w with holder := some i, ws := w.ws.set i .inloop }
  | reorder (i : Nat) (l : Label) (b : State) : w.holder = some i → w.ws[i]? = some .inloop →
      w.nextTask = some "reorder" → taskOf l = w.nextTask → step c w.base l = some b →
      WCore c w { w with base := b, nextTask := selectTask c b }
  | run (i : Nat) (l : Label) (k : Nat) (b : State) (w' : WState) : w.holder = some i →
      w.ws[i]? = some .inloop → w.nextTask.isSome = true → taskOf l = w.nextTask →
      w.nextTask ≠ some "reorder" → step c w.base l = some b →
      unlockW c { w with base := b, ws := w.ws.set i .running } k = some w' → WCore c w w'
  | relockU (i : Nat) (l : Label) (k : Nat) (b : State) (w' : WState) : w.holder = none →
      w.ws[i]? = some .running → isEnd l = true → step c w.base l = some b →
      retrFinished l w.base b → unlockW c { w with base := b } k = some w' → WCore c w w'
  | relockL (i : Nat) (l : Label) (b : State) : w.holder = none →
      w.ws[i]? = some .running → isEnd l = true → step c w.base l = some b →
      ¬ retrFinished l w.base b →
      WCore c w { w with base := b, nextTask := selectTask c b, holder := some i,
                         ws := w.ws.set i .inloop }
  | wait (i : Nat) : w.holder = some i → w.ws[i]? = some .inloop → w.nextTask = none →
      finished c w.base = false → WCore c w { w with holder := none, ws := w.ws.set i .waiting }
  | exit (i : Nat) : w.holder = some i → w.ws[i]? = some .inloop → w.nextTask = none →
      finished c w.base = true →
      WCore c w { w with holder := none, ws := broadcast (w.ws.set i .exited) }
  | spurious (i : Nat) : w.ws[i]? = some .waiting → WCore c w { w with ws := w.ws.set i .ready }

theorem stepW_core {c : Cfg} {w w' : WState} {l : WLabel} (h : stepW c w l = some w') :
    w.base.failed = false ∧ WCore c w w' := by
  unfold stepW at h
  split at h
  · cases h
  next hf =>
  refine ⟨by simpa using hf, ?_⟩
  split at h
  · next l =>
    split at h
    · next hl =>
      simp only [Option.map_eq_some_iff] at h
      obtain ⟨b, hb, rfl⟩ := h
      exact .io l b hl hb
    · cases h
  · next l k =>
    split at h
    · next hc =>
      simp only [Option.bind_eq_some_iff] at h
      obtain ⟨b, hb, hu⟩ := h
      exact .ioS l k b w' hc.1 hc.2 hb hu
    · cases h
  · next i =>
    split at h
    · next hc => cases h; exact .acquire i hc.1 hc.2
    · cases h
  · next i l k =>
    split at h
    · next hc =>
      simp only [Option.bind_eq_some_iff] at h
      obtain ⟨b, hb, hu⟩ := h
      split at hu
      · next hr => cases hu; exact .reorder i l b hc.1 hc.2.1 hr hc.2.2.2 hb
      · next hr => exact .run i l k b w' hc.1 hc.2.1 hc.2.2.1 hc.2.2.2 hr hb hu
    · cases h
  · next i l k =>
    split at h
    · next hc =>
      simp only [Option.bind_eq_some_iff] at h
      obtain ⟨b, hb, hu⟩ := h
      split at hu
      · next hr => exact .relockU i l k b w' hc.1 hc.2.1 hc.2.2 hb hr hu
      · next hr => cases hu; exact .relockL i l b hc.1 hc.2.1 hc.2.2 hb hr
    · cases h
  · next i =>
    split at h
    · next hc => cases h; exact .wait i hc.1 hc.2.1 hc.2.2.1 hc.2.2.2
    · cases h
  · next i =>
    split at h
    · next hc => cases h; exact .exit i hc.1 hc.2.1 hc.2.2.1 hc.2.2.2
    · cases h
  · next i =>
    split at h
    · next hc => cases h; exact .spurious i hc
    · cases h

/-! ### (a) simulation -/

theorem wcore_base {c : Cfg} {w w' : WState} (h : WCore c w w') :
    w'.base = w.base ∨ ∃ bl, step c w.base bl = some w'.base := by
  cases h with
  | io l b _ hb => exact .inr ⟨l, hb⟩
  | ioS l k b w' _ _ hb hu => exact .inr ⟨l, by rw [(unlockW_inv hu).1]; exact hb⟩
  | acquire => exact .inl rfl
  | reorder i l b _ _ _ _ hb => exact .inr ⟨l, hb⟩
  | run i l k b w' _ _ _ _ _ hb hu => exact .inr ⟨l, by rw [(unlockW_inv hu).1]; exact hb⟩
  | relockU i l k b w' _ _ _ hb _ hu => exact .inr ⟨l, by rw [(unlockW_inv hu).1]; exact hb⟩
  | relockL i l b _ _ _ hb _ => exact .inr ⟨l, hb⟩
  | wait => exact .inl rfl
  | exit => exact .inl rfl
  | spurious => exact .inl rfl

/-- **simulation**: a step of the refined model is a stutter or exactly one
    step of the base model. -/
theorem stepW_base {c : Cfg} {w w' : WState} {l : WLabel} (h : stepW c w l = some w') :
    w'.base = w.base ∨ ∃ bl, step c w.base bl = some w'.base :=
  wcore_base (stepW_core h).2

/-- the scheduler data of a reachable refined state are reachable in the base
    model: every `Reach` theorem applies. -/
theorem reachW_base {c : Cfg} {w : WState} (h : ReachW c w) : Reach c w.base := by
  induction h with
  | init => exact .init
  | step l _ hs ih =>
    rcases stepW_base hs with e | ⟨bl, hb⟩
    · rw [e]; exact ih
    · exact .step bl ih hb

/-! ### (b) the wake-up invariant -/

/-- the reader's `source_mutex`-only steps change nothing the guards read -/
theorem view_io {c : Cfg} {s s' : State} {l : Label} (hl : lockFreeIO l = true)
    (h : step c s l = some s') : view c s' = view c s := by
  unfold step at h
  split at h
  · cases h
  cases l <;> simp only [lockFreeIO] at hl <;> try (exact absurd hl (by decide))
  · simp only [stepRTake] at h
    split at h
    · cases h; rfl
    · cases h
  · simp only [stepRQuit] at h
    split at h
    · cases h; rfl
    · cases h
  · simp only [stepREmpty] at h
    split at h
    · cases h; rfl
    · cases h

theorem select_io {c : Cfg} {s s' : State} {l : Label} (hl : lockFreeIO l = true)
    (h : step c s l = some s') : selectTask c s' = selectTask c s := by
  unfold selectTask; rw [view_io hl h]

theorem finished_io {c : Cfg} {s s' : State} {l : Label} (hl : lockFreeIO l = true)
    (h : step c s l = some s') : finished c s' = finished c s := by
  unfold finished; rw [view_io hl h]

/-- **the wake-up discipline of `sched_cond`.** -/
structure WI (c : Cfg) (w : WState) : Prop where
  /-- `next_task` is `select_task()` of the current scheduler data: whoever
      reads it (mutex free, or at the top of the loop) reads the right value -/
  nt : w.nextTask = selectTask c w.base
  /-- the owner of `sched_mutex` stands at the top of the worker loop -/
  hold : ∀ i, w.holder = some i → w.ws[i]? = some .inloop
  /-- and nobody else does -/
  one : ∀ i, w.ws[i]? = some .inloop → w.holder = some i
  /-- no lost wake-up -/
  noLost : w.holder = none → (w.nextTask.isSome = true ∨ finished c w.base = true) →
    WPh.ready ∈ w.ws ∨ ∀ p ∈ w.ws, p ≠ .waiting
  /-- `num_worker` worker threads -/
  len : w.ws.length = c.n

theorem wi_init (c : Cfg) : WI c (initW c) := by
  refine ⟨rfl, ?_, ?_, ?_, by simp [initW]⟩
  · intro i h; cases h
  · intro i h
    have := List.mem_of_getElem? h
    simp only [initW, List.mem_replicate] at this
    exact absurd this.2 (by decide)
  · intro _ _
    refine .inr ?_
    intro p hp
    simp only [initW, List.mem_replicate] at hp
    rw [hp.2]; decide

/-- after a `sched_unlock()` executed while nobody stands at the top of the
    loop, the invariant holds (whatever the scheduler data are) -/
theorem wi_unlock {c : Cfg} {w w' : WState} {k : Nat} (hl : w.ws.length = c.n)
    (hno : ∀ i : Nat, w.ws[i]? ≠ some WPh.inloop) (h : unlockW c w k = some w') : WI c w' := by
  obtain ⟨hb, hn, hh, hw⟩ := unlockW_inv h
  refine ⟨by rw [hn, hb], ?_, ?_, ?_, ?_⟩
  · intro i hi; rw [hh] at hi; cases hi
  · intro i hi
    exfalso
    rcases hw with ⟨e, _⟩ | ⟨_, e⟩
    · rw [e] at hi; exact hno i hi
    · rw [e] at hi
      rcases wset_get hi with ⟨_, e'⟩ | ⟨_, e'⟩
      · cases e'
      · exact hno i e'
  · intro _ hp
    rw [hn, hb] at hp
    rcases hw with ⟨e, hq⟩ | ⟨hk, e⟩
    · rw [e]; exact .inr (hq hp)
    · rw [e]; exact .inl (wmem_set_self _ hk)
  · rcases hw with ⟨e, _⟩ | ⟨_, e⟩
    · rw [e]; exact hl
    · rw [e, List.length_set]; exact hl

theorem wi_core {c : Cfg} {w w' : WState} (I : WI c w) (h : WCore c w w') : WI c w' := by
  -- nobody at the top of the loop while the mutex is free
  have free : w.holder = none → ∀ i : Nat, w.ws[i]? ≠ some WPh.inloop := by
    intro hh i hi; rw [I.one i hi] at hh; cases hh
  cases h with
  | io l b hl hb =>
    refine ⟨?_, I.hold, I.one, ?_, I.len⟩
    · show w.nextTask = selectTask c b
      rw [select_io hl hb]; exact I.nt
    · intro hh hp
      have hp' : w.nextTask.isSome = true ∨ finished c w.base = true := by
        rcases hp with hp | hp
        · exact .inl hp
        · exact .inr (by rw [← finished_io hl hb]; exact hp)
      exact I.noLost hh hp'
  | ioS l k b w' _ hh hb hu =>
    exact wi_unlock (w := { w with base := b }) I.len (free hh) hu
  | acquire i hh hr =>
    refine ⟨I.nt, ?_, ?_, ?_, ?_⟩
    · intro j hj; cases hj; exact wset_self _ hr
    · intro j hj
      rcases wset_get hj with ⟨e, _⟩ | ⟨_, e⟩
      · rw [e]
      · exact absurd e (free hh j)
    · intro hn; cases hn
    · show (w.ws.set i .inloop).length = c.n
      rw [List.length_set]; exact I.len
  | reorder i l b hh hi hn hl hb =>
    refine ⟨rfl, I.hold, I.one, ?_, I.len⟩
    intro hn'; rw [hh] at hn'; cases hn'
  | run i l k b w' hh hi _ _ _ hb hu =>
    refine wi_unlock (w := { w with base := b, ws := w.ws.set i .running })
      (by show (w.ws.set i .running).length = c.n; rw [List.length_set]; exact I.len) ?_ hu
    intro j hj
    rcases wset_get hj with ⟨_, e⟩ | ⟨ne, e⟩
    · cases e
    · have := I.one j e
      rw [hh] at this
      exact ne (Option.some.inj this)
  | relockU i l k b w' hh _ _ hb _ hu =>
    exact wi_unlock (w := { w with base := b }) I.len (free hh) hu
  | relockL i l b hh hr _ hb _ =>
    refine ⟨rfl, ?_, ?_, ?_, ?_⟩
    · intro j hj; cases hj; exact wset_self _ hr
    · intro j hj
      rcases wset_get hj with ⟨e, _⟩ | ⟨_, e⟩
      · rw [e]
      · exact absurd e (free hh j)
    · intro hn; cases hn
    · show (w.ws.set i .inloop).length = c.n
      rw [List.length_set]; exact I.len
  | wait i hh hi hn hf =>
    refine ⟨I.nt, ?_, ?_, ?_, ?_⟩
    · intro j hj; cases hj
    · intro j hj
      exfalso
      rcases wset_get hj with ⟨_, e⟩ | ⟨ne, e⟩
      · cases e
      · have := I.one j e
        rw [hh] at this
        exact ne (Option.some.inj this)
    · intro _ hp
      exfalso
      rcases hp with hp | hp
      · rw [show ({ w with holder := none, ws := w.ws.set i .waiting } : WState).nextTask
            = w.nextTask from rfl, hn] at hp
        cases hp
      · rw [show ({ w with holder := none, ws := w.ws.set i .waiting } : WState).base
            = w.base from rfl, hf] at hp
        cases hp
    · show (w.ws.set i .waiting).length = c.n
      rw [List.length_set]; exact I.len
  | exit i hh hi hn hf =>
    refine ⟨I.nt, ?_, ?_, ?_, ?_⟩
    · intro j hj; cases hj
    · intro j hj
      exfalso
      obtain ⟨p, hp, e⟩ := wbroadcast_get hj
      have hpi : p = .inloop := by
        by_cases hw : p = .waiting
        · rw [if_pos hw] at e; cases e
        · rw [if_neg hw] at e; exact e.symm
      subst hpi
      rcases wset_get hp with ⟨_, e'⟩ | ⟨ne, e'⟩
      · cases e'
      · have := I.one j e'
        rw [hh] at this
        exact ne (Option.some.inj this)
    · intro _ _
      exact .inr (wbroadcast_no_waiting _)
    · show (broadcast (w.ws.set i .exited)).length = c.n
      rw [wbroadcast_length, List.length_set]; exact I.len
  | spurious i hw =>
    refine ⟨I.nt, ?_, ?_, ?_, ?_⟩
    · intro j hj
      have hj' := I.hold j hj
      have ne : i ≠ j := by
        intro e; subst e; rw [hw] at hj'; cases hj'
      show (w.ws.set i .ready)[j]? = some .inloop
      rw [List.getElem?_set_ne ne]; exact hj'
    · intro j hj
      rcases wset_get hj with ⟨_, e⟩ | ⟨_, e⟩
      · cases e
      · exact I.one j e
    · intro _ _
      exact .inl (wmem_set_self _ hw)
    · show (w.ws.set i .ready).length = c.n
      rw [List.length_set]; exact I.len

theorem wi_step {c : Cfg} {w w' : WState} {l : WLabel} (I : WI c w)
    (h : stepW c w l = some w') : WI c w' :=
  wi_core I (stepW_core h).2

/-- the wake-up invariant holds in every reachable state of the refined model -/
theorem wi_reach {c : Cfg} {w : WState} (h : ReachW c w) : WI c w := by
  induction h with
  | init => exact wi_init c
  | step l _ hs ih => exact wi_step ih hs

/-- **no lost wake-up**: in every reachable state in which `sched_mutex` is
    free and a task is ready or the process has finished, some worker has a
    wake-up pending or nobody is in `xwait`; and the stored `next_task` is
    `select_task()` of the current state.  All interleavings, every choice of
    the signalled waiter, spurious wake-ups included. -/
theorem no_lost_wakeup {c : Cfg} {w : WState} (h : ReachW c w) :
    (w.holder = none → (w.nextTask.isSome = true ∨ finished c w.base = true) →
      WPh.ready ∈ w.ws ∨ ∀ p ∈ w.ws, p ≠ .waiting) ∧
    (w.holder = none → w.nextTask = selectTask c w.base) :=
  let I := wi_reach h
  ⟨I.noLost, fun _ => I.nt⟩

end LbzVerif.Lemmas.SchedD
