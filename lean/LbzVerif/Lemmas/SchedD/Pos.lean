/-
  The parser position `ppos` (C: `parser_bs`) only moves forward and stays
  consistent with the master retrieve job: inductive invariant `PI`, proved on
  top of the safety invariant `SI` and the attach invariant `AI`.
-/
import LbzVerif.Lemmas.SchedD.Attach

namespace LbzVerif.Lemmas.SchedD
open LbzVerif.Model.SchedD LbzVerif.Gen

/-- the retrieve job exists: queued in `retr_q` or running -/
def PJIn (s : State) (j : Job) : Prop := j ∈ s.retrQ ∨ ∃ k, Phase.retr j k ∈ s.busy

structure PI (c : Cfg) (s : State) : Prop where
  pk : ∀ k, s.pphase = some (some k) → s.ppos < offs c (k + 1)
  pb : s.pdone = false → ∀ b, pres c s.gnext = .hdr b → s.ppos < b
  ml : ∀ j, PJIn s j → Job.mc j = true → s.ppos ≤ j.curr
  mb : ∀ j, PJIn s j → Job.mc j = true → j.base ≤ s.ppos
  op : s.pdone = false → ∀ b i, (b, i) ∈ s.orderQ → b ≤ s.ppos

theorem PI_init (c : Cfg) : PI c (init c) := by
  refine ⟨?_, ?_, ?_, ?_, ?_⟩
  · intro k hk; simp [init] at hk
  · intro _ b hb; exact (pres_hdr hb).1
  · intro j hj; rcases hj with hj | ⟨k, hk⟩
    · simp [init] at hj
    · simp [init] at hk
  · intro j hj; rcases hj with hj | ⟨k, hk⟩
    · simp [init] at hj
    · simp [init] at hk
  · intro _ b i hb; simp [init] at hb

theorem PI_nomc {s : State} (h : mcount s = 0) : ∀ j, PJIn s j → Job.mc j = true → False := by
  intro j hj hmc
  rcases hj with hj | ⟨k, hk⟩
  · have := (mcount_zero_jobs h).1 j hj
    rw [this] at hmc; cases hmc
  · exact no_mc_of_zero h j k hk hmc

theorem PI_mc_master {j : Job} (h : Job.mc j = true) : j.master = true := by
  unfold Job.mc at h; unfold Job.master
  cases hu : j.ub with
  | none => rfl
  | some f =>
    simp only [hu, Bool.and_eq_true] at h ⊢
    exact h.1

/-- `PI` is inherited when position and parser fields stay, every master-capable
    job has a predecessor with the same extent, and `order_q` only shrinks (up
    to buffer indices) -/
theorem PI_of {c : Cfg} {s s' : State} (h : PI c s)
    (e1 : s'.pphase = s.pphase) (e2 : s'.pdone = s.pdone) (e3 : s'.gnext = s.gnext)
    (e4 : s'.ppos = s.ppos)
    (hj : ∀ j, PJIn s' j → Job.mc j = true →
      ∃ j0, PJIn s j0 ∧ Job.mc j0 = true ∧ j0.curr = j.curr ∧ j0.base = j.base)
    (ho : ∀ b i, (b, i) ∈ s'.orderQ → ∃ i', (b, i') ∈ s.orderQ) : PI c s' := by
  obtain ⟨a1, a2, a3, a4, a5⟩ := h
  refine ⟨?_, ?_, ?_, ?_, ?_⟩
  · intro k hk; rw [e4]; exact a1 k (by rw [← e1]; exact hk)
  · intro hd b hb; rw [e4]; exact a2 (by rw [← e2]; exact hd) b (by rw [← e3]; exact hb)
  · intro j hin hmc
    obtain ⟨j0, h0, hm0, hc, _⟩ := hj j hin hmc
    have := a3 j0 h0 hm0
    rw [e4]; omega
  · intro j hin hmc
    obtain ⟨j0, h0, hm0, _, hb⟩ := hj j hin hmc
    have := a4 j0 h0 hm0
    rw [e4]; omega
  · intro hd b i hb
    obtain ⟨i', hi'⟩ := ho b i hb
    rw [e4]; exact a5 (by rw [← e2]; exact hd) b i' hi'

/-- `PI` only reads these fields -/
theorem PI_congr {c : Cfg} {s s' : State} (h : PI c s)
    (e1 : s'.pphase = s.pphase) (e2 : s'.pdone = s.pdone) (e3 : s'.gnext = s.gnext)
    (e4 : s'.ppos = s.ppos) (e5 : s'.retrQ = s.retrQ) (e6 : s'.busy = s.busy)
    (e7 : s'.orderQ = s.orderQ) : PI c s' := by
  refine PI_of h e1 e2 e3 e4 ?_ ?_
  · intro j hin hmc
    refine ⟨j, ?_, hmc, rfl, rfl⟩
    unfold PJIn at hin ⊢; rw [e5, e6] at hin; exact hin
  · intro b i hb; rw [e7] at hb; exact ⟨i, hb⟩

theorem PI_detach_ppos (s : State) (k : Option Nat) : (detach s k).ppos = s.ppos := by
  unfold detach; split
  · rfl
  · split <;> rfl

theorem PI_detach {c : Cfg} {s : State} (k : Option Nat) (h : PI c s) : PI c (detach s k) := by
  unfold detach; split
  · exact h
  · split
    · exact PI_congr h rfl rfl rfl rfl rfl rfl rfl
    · exact h

theorem PI_busy_erase {c : Cfg} {s : State} (ph : Phase) (h : PI c s) :
    PI c { s with busy := s.busy.erase ph } := by
  refine PI_of h rfl rfl rfl rfl ?_ (fun b i hb => ⟨i, hb⟩)
  intro j hin hmc
  refine ⟨j, ?_, hmc, rfl, rfl⟩
  rcases hin with hin | ⟨k, hk⟩
  · exact Or.inl hin
  · exact Or.inr ⟨k, List.mem_of_mem_erase hk⟩

theorem PI_busy_cons {c : Cfg} {s : State} (ph : Phase) (h : PI c s)
    (hn : ∀ j k, ph ≠ Phase.retr j k) : PI c { s with busy := ph :: s.busy } := by
  refine PI_of h rfl rfl rfl rfl ?_ (fun b i hb => ⟨i, hb⟩)
  intro j hin hmc
  refine ⟨j, ?_, hmc, rfl, rfl⟩
  rcases hin with hin | ⟨k, hk⟩
  · exact Or.inl hin
  · rcases List.mem_cons.1 hk with e | hm
    · exact absurd e.symm (hn j k)
    · exact Or.inr ⟨k, hm⟩

/-! ### `advance` -/

/-- `advance(p)` with `p` at or after the old position, before the next header,
    and inside every master-capable job -/
theorem PI_advance {c : Cfg} {s : State} (p : Nat)
    (hop : s.pdone = false → ∀ b i, (b, i) ∈ s.orderQ → b ≤ s.ppos)
    (hge : s.ppos ≤ p) (hpp : s.pphase = none)
    (hpb : s.pdone = false → ∀ b, pres c s.gnext = .hdr b → p < b)
    (hm : ∀ j, PJIn s j → Job.mc j = true → p ≤ j.curr ∧ j.base ≤ p) :
    PI c (advance c s p) := by
  have hin : ∀ j, PJIn (advance c s p) j → PJIn s j := by
    intro j hj
    rcases hj with hj | ⟨k, hk⟩
    · exact Or.inl (List.mem_filter.1 hj).1
    · exact Or.inr ⟨k, hk⟩
  refine ⟨?_, ?_, ?_, ?_, ?_⟩
  · intro k hk
    rw [show (advance c s p).pphase = s.pphase from rfl, hpp] at hk; cases hk
  · intro hd b hb; exact hpb hd b hb
  · intro j hj hmc; exact (hm j (hin j hj) hmc).1
  · intro j hj hmc; exact (hm j (hin j hj) hmc).2
  · intro hd b i hb
    have := hop hd b i hb
    show b ≤ p
    omega

/-! ### simple steps -/

theorem PI_rTake {c : Cfg} {s s' : State} (h : PI c s) (hs : stepRTake s = some s') :
    PI c s' ∧ s'.ppos = s.ppos := by
  unfold stepRTake at hs; split at hs <;> simp at hs; subst hs
  exact ⟨PI_congr h rfl rfl rfl rfl rfl rfl rfl, rfl⟩

theorem PI_rQuit {c : Cfg} {s s' : State} (h : PI c s) (hs : stepRQuit s = some s') :
    PI c s' ∧ s'.ppos = s.ppos := by
  unfold stepRQuit at hs; split at hs <;> simp at hs; subst hs
  exact ⟨PI_congr h rfl rfl rfl rfl rfl rfl rfl, rfl⟩

theorem PI_rBlock {c : Cfg} {s s' : State} (h : PI c s) (hs : stepRBlock c s = some s') :
    PI c s' ∧ s'.ppos = s.ppos := by
  unfold stepRBlock at hs; split at hs
  · dsimp only at hs; split at hs <;> simp only [Option.some.injEq] at hs <;> subst hs <;>
      exact ⟨PI_congr h rfl rfl rfl rfl rfl rfl rfl, rfl⟩
  · simp at hs

theorem PI_rEmpty {c : Cfg} {s s' : State} (h : PI c s) (hs : stepREmpty c s = some s') :
    PI c s' ∧ s'.ppos = s.ppos := by
  unfold stepREmpty at hs; split at hs <;> simp at hs; subst hs
  exact ⟨PI_congr h rfl rfl rfl rfl rfl rfl rfl, rfl⟩

theorem PI_rEof {c : Cfg} {s s' : State} (h : PI c s) (hs : stepREof s = some s') :
    PI c s' ∧ s'.ppos = s.ppos := by
  unfold stepREof at hs; split at hs <;> simp at hs; subst hs
  exact ⟨PI_congr h rfl rfl rfl rfl rfl rfl rfl, rfl⟩

theorem PI_wDone {c : Cfg} {s s' : State} (h : PI c s) (hs : stepWDone s = some s') :
    PI c s' ∧ s'.ppos = s.ppos := by
  unfold stepWDone at hs; split at hs <;> simp at hs; subst hs
  exact ⟨PI_congr h rfl rfl rfl rfl rfl rfl rfl, rfl⟩

theorem PI_reorder {c : Cfg} {s s' : State} {ob : OB} (h : PI c s)
    (hs : stepReorder c s ob = some s') : PI c s' ∧ s'.ppos = s.ppos := by
  have hid : ∀ j, PJIn s j → Job.mc j = true →
      ∃ j0, PJIn s j0 ∧ Job.mc j0 = true ∧ j0.curr = j.curr ∧ j0.base = j.base :=
    fun j hj hmc => ⟨j, hj, hmc, rfl, rfl⟩
  unfold stepReorder at hs; split at hs
  · split at hs
    · simp only [Option.some.injEq] at hs; subst hs
      exact ⟨PI_congr h rfl rfl rfl rfl rfl rfl rfl, rfl⟩
    · split at hs <;> simp only [Option.some.injEq] at hs <;> subst hs
      · exact ⟨PI_congr h rfl rfl rfl rfl rfl rfl rfl, rfl⟩
      · refine ⟨PI_of h rfl rfl rfl rfl hid ?_, rfl⟩
        intro b i hb
        cases hq : s.orderQ with
        | nil => simp [hq] at hb
        | cons x r =>
          obtain ⟨b0, i0⟩ := x
          simp only [hq, List.mem_cons, Prod.mk.injEq] at hb
          rcases hb with ⟨rfl, _⟩ | hb
          · exact ⟨i0, List.mem_cons_self⟩
          · exact ⟨i, List.mem_cons_of_mem _ hb⟩
      · refine ⟨PI_of h rfl rfl rfl rfl hid ?_, rfl⟩
        intro b i hb
        exact ⟨i, List.mem_of_mem_tail hb⟩
  · simp at hs

theorem PI_parseStart {c : Cfg} {s s' : State} (h : PI c s)
    (hs : stepParseStart c s = some s') : PI c s' ∧ s'.ppos = s.ppos := by
  unfold stepParseStart at hs; split at hs
  · simp only [Option.some.injEq] at hs; subst hs
    obtain ⟨a1, a2, a3, a4, a5⟩ := h
    refine ⟨⟨?_, a2, a3, a4, a5⟩, rfl⟩
    intro k hk
    have hk' : (if s.ppos < tailOffs c s then some (s.ppos / c.W) else none) = some k := by
      simpa using hk
    split at hk'
    · next hlt =>
      simp only [Option.some.injEq] at hk'; subst hk'
      exact lt_offs_succ_div (c := c) hlt
    · cases hk'
  · simp at hs

theorem PI_retrStart {c : Cfg} {s s' : State} {j : Job} (h : PI c s)
    (hs : stepRetrStart c s j = some s') : PI c s' ∧ s'.ppos = s.ppos := by
  unfold stepRetrStart at hs; split at hs
  · next hg =>
    simp only [Bool.and_eq_true, List.contains_iff_mem] at hg
    have hj : j ∈ s.retrQ := hg.1.2
    simp only [Option.some.injEq] at hs; subst hs
    refine ⟨PI_of h rfl rfl rfl rfl ?_ (fun b i hb => ⟨i, hb⟩), rfl⟩
    intro j' hin hmc
    rcases hin with hin | ⟨k', hk'⟩
    · exact ⟨j', Or.inl (List.mem_of_mem_erase hin), hmc, rfl, rfl⟩
    · rcases List.mem_cons.1 hk' with e | hm
      · cases e; exact ⟨j, Or.inl hj, hmc, rfl, rfl⟩
      · exact ⟨j', Or.inr ⟨k', hm⟩, hmc, rfl, rfl⟩
  · simp at hs

theorem PI_retrPost {c : Cfg} {s s' : State} {e : EJob} (h : PI c s)
    (hs : stepRetrPost s e = some s') : PI c s' ∧ s'.ppos = s.ppos := by
  unfold stepRetrPost at hs; split at hs
  · simp only [Option.some.injEq] at hs; subst hs
    exact ⟨PI_congr (PI_busy_erase (.retr2 e) h) rfl rfl rfl rfl rfl rfl rfl, rfl⟩
  · simp at hs

theorem PI_emitStart {c : Cfg} {s s' : State} {e : EJob} (h : PI c s)
    (hs : stepEmitStart c s e = some s') : PI c s' ∧ s'.ppos = s.ppos := by
  unfold stepEmitStart at hs; split at hs
  · simp only [Option.some.injEq] at hs; subst hs
    exact ⟨PI_congr (PI_busy_cons (.emit e) h (by intro j k hh; cases hh)) rfl rfl rfl rfl rfl rfl rfl,
      rfl⟩
  · simp at hs

theorem PI_emitEnd {c : Cfg} {s s' : State} {e : EJob} (h : PI c s)
    (hs : stepEmitEnd s e = some s') : PI c s' ∧ s'.ppos = s.ppos := by
  unfold stepEmitEnd at hs; split at hs
  · dsimp only at hs
    split at hs <;> simp only [Option.some.injEq] at hs <;> subst hs <;>
      exact ⟨PI_congr (PI_busy_erase (.emit e) h) rfl rfl rfl rfl rfl rfl rfl, rfl⟩
  · simp at hs

theorem PI_scanStart {c : Cfg} {s s' : State} {sp : Nat} (h : PI c s)
    (hs : stepScanStart c s sp = some s') : PI c s' ∧ s'.ppos = s.ppos := by
  unfold stepScanStart at hs; split at hs
  · simp only [Option.some.injEq] at hs; subst hs
    have h1 := PI_busy_cons
      (.scan (if sp / c.W == s.ppos / c.W && sp < s.ppos then s.ppos else sp) (sp / c.W))
      h (by intro j k hh; cases hh)
    exact ⟨PI_congr h1 rfl rfl rfl rfl rfl rfl rfl, rfl⟩
  · simp at hs

/-! ### scanEnd -/

theorem PI_scanNew {c : Cfg} {s1 : State} (x : Nat) (h1 : PI c s1) :
    PI c (scanNew c s1 x) ∧ (scanNew c s1 x).ppos = s1.ppos := by
  unfold scanNew; split
  · exact ⟨PI_congr h1 rfl rfl rfl rfl rfl rfl rfl, rfl⟩
  · refine ⟨PI_of h1 rfl rfl rfl rfl ?_ (fun b i hb => ⟨i, hb⟩), rfl⟩
    intro j hin hmc
    rcases hin with hin | ⟨k, hk⟩
    · rcases List.mem_cons.1 hin with e | hm
      · subst e; simp [Job.mc] at hmc
      · exact ⟨j, Or.inl hm, hmc, rfl, rfl⟩
    · exact ⟨j, Or.inr ⟨k, hk⟩, hmc, rfl, rfl⟩

theorem PI_scanRequeue {c : Cfg} {s2 : State} (x hi : Nat) (h : PI c s2) :
    PI c (scanRequeue c s2 x hi) ∧ (scanRequeue c s2 x hi).ppos = s2.ppos := by
  unfold scanRequeue; split
  · exact ⟨PI_congr h rfl rfl rfl rfl rfl rfl rfl, rfl⟩
  · exact ⟨h, rfl⟩

theorem PI_scanEnd {c : Cfg} {s s' : State} {st k : Nat} (h : PI c s)
    (hs : stepScanEnd c s st k = some s') : PI c s' ∧ s'.ppos = s.ppos := by
  unfold stepScanEnd at hs; split at hs
  · have h1 : PI c (detach { s with busy := s.busy.erase (.scan st k) } (some k)) :=
      PI_detach _ (PI_busy_erase _ h)
    have hp1 : (detach { s with busy := s.busy.erase (.scan st k) } (some k)).ppos = s.ppos :=
      PI_detach_ppos _ _
    generalize detach { s with busy := s.busy.erase (.scan st k) } (some k) = s1 at h1 hp1 hs
    dsimp only at hs
    split at hs
    · simp only [Option.some.injEq] at hs; subst hs
      exact ⟨PI_congr h1 rfl rfl rfl rfl rfl rfl rfl, hp1⟩
    · next x hx =>
      split at hs
      · simp only [Option.some.injEq] at hs; subst hs
        exact ⟨PI_congr h1 rfl rfl rfl rfl rfl rfl rfl, hp1⟩
      · simp only [Option.some.injEq] at hs; subst hs
        have n1 := PI_scanNew (c := c) x h1
        have n2 := PI_scanRequeue (c := c) x (offs c (k + 1)) n1.1
        exact ⟨n2.1, by rw [n2.2, n1.2, hp1]⟩
  · simp at hs

/-! ### retrEnd -/

theorem PI_retrMove {c : Cfg} {s1 : State} {j : Job} {newc : Nat} (h1 : PI c s1)
    (hmas : j.master = true → s1.ppos ≤ newc ∧ s1.pphase = none ∧
      (s1.pdone = false → ∀ b, pres c s1.gnext = .hdr b → newc < b) ∧ mcount s1 = 0) :
    PI c (retrMove c s1 j newc) ∧ s1.ppos ≤ (retrMove c s1 j newc).ppos ∧
    (j.master = true →
      (retrMove c s1 j newc).ppos = newc ∧ mcount (retrMove c s1 j newc) = 0) := by
  unfold retrMove; split
  · next hm =>
    obtain ⟨q1, q2, q3, q4⟩ := hmas hm
    have hA := PI_advance (c := c) newc h1.op q1 q2 q3
      (fun j' hj' hmc => (PI_nomc q4 j' hj' hmc).elim)
    have hc : mcount (advance c s1 newc) ≤ mcount s1 :=
      mcount_le_of (List.Sublist.countP_le List.filter_sublist) (Nat.le_refl _)
    refine ⟨PI_congr hA rfl rfl rfl rfl rfl rfl rfl, q1, fun _ => ⟨rfl, ?_⟩⟩
    show mcount (advance c s1 newc) = 0
    omega
  · next hm => exact ⟨h1, Nat.le_refl _, fun h => absurd h hm⟩

theorem PI_retrDone {c : Cfg} {s2 : State} (j : Job) (newc : Nat) (h2 : PI c s2) :
    PI c (retrDone c s2 j newc) ∧ (retrDone c s2 j newc).ppos = s2.ppos := by
  unfold retrDone
  split
  · exact ⟨PI_congr (PI_busy_cons _ h2 (by intro j k hh; cases hh)) rfl rfl rfl rfl rfl rfl rfl, rfl⟩
  · exact ⟨PI_congr (PI_busy_cons _ h2 (by intro j k hh; cases hh)) rfl rfl rfl rfl rfl rfl rfl, rfl⟩

theorem PI_retrEnd {c : Cfg} {s s' : State} {j : Job} {k : Option Nat} (h : PI c s) (hS : SI c s)
    (hs : stepRetrEnd c s j k = some s') : PI c s' ∧ s.ppos ≤ s'.ppos := by
  unfold stepRetrEnd at hs; split at hs
  · next hg =>
    have hmem : Phase.retr j k ∈ s.busy := by simpa using hg
    have hj : jobOK c s.gnext j := hS.busy _ hmem
    have hml := h.ml j (Or.inr ⟨k, hmem⟩)
    have hcnt : List.countP Phase.mc (s.busy.erase (.retr j k)) + (if Job.mc j then 1 else 0)
        = List.countP Phase.mc s.busy := countP_erase_add Phase.mc hmem
    have hm1 := hS.mc1
    have hm0 := hS.mc0
    have h1 : PI c (detach { s with busy := s.busy.erase (.retr j k) } k) :=
      PI_detach _ (PI_busy_erase _ h)
    have hf := detach_fields { s with busy := s.busy.erase (.retr j k) } k
    have hp1 : (detach { s with busy := s.busy.erase (.retr j k) } k).ppos = s.ppos :=
      PI_detach_ppos _ _
    have hmc1 : mcount (detach { s with busy := s.busy.erase (.retr j k) } k)
        + (if Job.mc j then 1 else 0) = mcount s := by
      rw [mcount_detach]
      show List.countP Job.mc s.retrQ + List.countP Phase.mc (s.busy.erase (.retr j k))
        + (if Job.mc j then 1 else 0) = List.countP Job.mc s.retrQ + List.countP Phase.mc s.busy
      omega
    generalize detach { s with busy := s.busy.erase (.retr j k) } k = s1 at h1 hf hmc1 hs hp1
    have f2 : s1.pphase = s.pphase := hf.2.1
    have f4 : s1.gnext = s.gnext := hf.2.2.2.1
    dsimp only at hs
    have hnl := newc_le (k := k) hj.1
    have hnge := newc_ge c j k
    generalize retrNewc c j k = newc at hs hnl hnge
    by_cases hpd : s1.pdone = true
    · rw [if_pos hpd] at hs
      simp only [Option.some.injEq] at hs; subst hs
      exact ⟨PI_congr h1 rfl rfl rfl rfl rfl rfl rfl, by show s.ppos ≤ s1.ppos; omega⟩
    · rw [if_neg hpd] at hs
      by_cases hab : j.redundant = true
      · rw [if_pos hab] at hs
        simp only [Option.some.injEq] at hs; subst hs
        exact ⟨PI_congr h1 rfl rfl rfl rfl rfl rfl rfl, by show s.ppos ≤ s1.ppos; omega⟩
      · rw [if_neg hab] at hs
        have hna' : j.redundant = false := by simpa using hab
        have hM := PI_retrMove (c := c) (j := j) (newc := newc) h1 (by
          intro hmas
          have hmc := master_mc hmas hna'
          have hs1 : mcount s1 = 0 := by simp only [hmc, if_true] at hmc1; omega
          have hms : mcount s = 1 := by simp only [hmc, if_true] at hmc1; omega
          have hpp : s.pphase = none := by
            cases hp : s.pphase with
            | none => rfl
            | some x => have := hm0 (Or.inr (by simp [hp])); omega
          refine ⟨?_, by rw [f2, hpp], ?_, hs1⟩
          · have := hml hmc; omega
          · intro _ b hb
            rw [f4] at hb
            have := (pres_hdr hb).1
            have := hj.2.1 hmc
            omega)
        obtain ⟨h2, hge2, hmas2⟩ := hM
        generalize retrMove c s1 j newc = s2 at h2 hge2 hmas2 hs
        by_cases hfin : (!decide ((rres c j.base).e ≤ newc)) = true
        · rw [if_pos hfin] at hs
          by_cases hov : newc < headOffs c s2
          · rw [if_pos hov] at hs
            simp only [Option.some.injEq] at hs; subst hs
            exact ⟨PI_congr h2 rfl rfl rfl rfl rfl rfl rfl, by show s.ppos ≤ s2.ppos; omega⟩
          · rw [if_neg hov] at hs
            simp only [Option.some.injEq] at hs; subst hs
            refine ⟨?_, by show s.ppos ≤ s2.ppos; omega⟩
            obtain ⟨a1, a2, a3, a4, a5⟩ := h2
            have key : ∀ x, PJIn (retrMore s2 j newc) x → PJIn s2 x ∨ x = retrMoreJob j newc := by
              intro x hx
              rcases hx with hx | ⟨k', hk'⟩
              · rcases List.mem_cons.1 hx with e | hm
                · exact Or.inr e
                · exact Or.inl (Or.inl hm)
              · exact Or.inl (Or.inr ⟨k', hk'⟩)
            refine ⟨a1, a2, ?_, ?_, a5⟩
            · intro x hx hmc
              rcases key x hx with hx | rfl
              · exact a3 x hx hmc
              · rw [mc_retrMoreJob] at hmc
                have := (hmas2 (PI_mc_master hmc)).1
                show s2.ppos ≤ newc
                omega
            · intro x hx hmc
              rcases key x hx with hx | rfl
              · exact a4 x hx hmc
              · rw [mc_retrMoreJob] at hmc
                have := (hmas2 (PI_mc_master hmc)).1
                have := hj.2.2.2.1
                show j.base ≤ s2.ppos
                omega
        · rw [if_neg hfin] at hs
          simp only [Option.some.injEq] at hs; subst hs
          have hD := PI_retrDone (c := c) j newc h2
          exact ⟨hD.1, by rw [hD.2]; omega⟩
  · simp at hs

/-! ### parseEnd -/

theorem PI_inqAt_base {b : Nat} {j : Job} (hq : Job.inqAt b j = true) : j.base = b := by
  unfold Job.inqAt at hq
  cases hu : j.ub with
  | none => simp [hu] at hq
  | some f =>
    simp only [hu, Bool.and_eq_true, beq_iff_eq] at hq
    exact hq.2

theorem PI_parsePush {c : Cfg} {s1 : State} {b : Nat} (h1 : PI c s1) (hP : PPre c s1)
    (hu : pres c s1.gnext = .hdr b) : PI c (parsePush c s1 b) := by
  have hlt : s1.ppos < b := h1.pb hP.pd b hu
  have hnoP := PI_nomc (PPre_push hP hu).1.m0
  refine ⟨?_, ?_, ?_, ?_, ?_⟩
  · intro k hk
    rw [show (parsePush c s1 b).pphase = s1.pphase from rfl, hP.pp] at hk; cases hk
  · intro _ b' hb'
    have h1' : (rres c b).e < b' :=
      (pres_hdr (show pres c (rres c b).e = .hdr b' from hb')).1
    have := rres_ge c b
    show b < b'
    omega
  · intro j hj hmc; exact (hnoP j hj hmc).elim
  · intro j hj hmc; exact (hnoP j hj hmc).elim
  · intro _ b' i hb'
    have hmem : (b', i) ∈ s1.orderQ ++ [(b, 0)] := hb'
    show b' ≤ b
    rcases List.mem_append.1 hmem with hm | hm
    · have := h1.op hP.pd b' i hm; omega
    · simp only [List.mem_singleton, Prod.mk.injEq] at hm; omega

theorem PI_parseMatch {c : Cfg} {s3 : State} {b : Nat} (h3 : PI c s3) (hA : AI c s3)
    (hP : PPre c s3) (hg : s3.gnext = (rres c b).e) (hhb : headOffs c s3 ≤ b)
    (hpp : s3.ppos = b) :
    PI c (parseMatch c s3 b) ∧ b ≤ (parseMatch c s3 b).ppos := by
  have hno := PI_nomc hP.m0
  have hle : ∀ p, p ≤ (rres c b).e →
      s3.pdone = false → ∀ b', pres c s3.gnext = .hdr b' → p < b' := by
    intro p hp _ b' hb'
    have := (pres_hdr hb').1
    rw [hg] at this; omega
  unfold parseMatch
  split
  · -- the scanner-found block's job is waiting in retr_q
    next j hj =>
    have hjm := List.mem_of_find?_eq_some hj
    have hjq := List.find?_some hj
    have hend := inqAt_endp hjq (hA.ecQ j hjm)
    have hend2 : j.endp ≤ (rres c b).e := by
      have := hP.si.jobs j hjm; rw [hg] at this; exact endp_le_job this hjq
    have hbase : j.base = b := PI_inqAt_base hjq
    have hm : ∀ y, PJIn { s3 with retrQ := replaceFirst (Job.inqAt b) Job.good s3.retrQ } y →
        Job.mc y = true → j.endp ≤ y.curr ∧ y.base ≤ j.endp := by
      intro y hy hmc
      rcases hy with hy | ⟨k, hk⟩
      · rcases mem_replaceFirst_find _ _ hj hy with hy | rfl
        · exact (hno y (Or.inl hy) hmc).elim
        · show j.endp ≤ j.curr ∧ j.base ≤ j.endp; omega
      · exact (hno y (Or.inr ⟨k, hk⟩) hmc).elim
    have hAd := PI_advance (c := c)
      (s := { s3 with retrQ := replaceFirst (Job.inqAt b) Job.good s3.retrQ }) j.endp
      h3.op (by show s3.ppos ≤ j.endp; omega) hP.pp (hle _ hend2) hm
    exact ⟨PI_congr hAd rfl rfl rfl rfl rfl rfl rfl, hend.1⟩
  · split
    · -- … is running
      next ph hph =>
      have hpm := List.mem_of_find?_eq_some hph
      have hpq := List.find?_some hph
      cases ph with
      | retr j0 k0 =>
        have hend := inqAt_endp (j := j0) hpq (hA.ecB j0 k0 hpm)
        have hend2 : j0.endp ≤ (rres c b).e := by
          have := hP.si.busy _ hpm; rw [hg] at this; exact endp_le_job this hpq
        have hbase : j0.base = b := PI_inqAt_base hpq
        have hm : ∀ y, PJIn { s3 with busy := replaceFirst (Phase.inqAt b) Phase.good s3.busy } y →
            Job.mc y = true → j0.endp ≤ y.curr ∧ y.base ≤ j0.endp := by
          intro y hy hmc
          rcases hy with hy | ⟨k, hk⟩
          · exact (hno y (Or.inl hy) hmc).elim
          · rcases mem_replaceFirst_find _ _ hph hk with hk | he
            · exact (hno y (Or.inr ⟨k, hk⟩) hmc).elim
            · simp only [Phase.good, Phase.retr.injEq] at he
              obtain ⟨rfl, _⟩ := he
              show j0.endp ≤ j0.curr ∧ j0.base ≤ j0.endp; omega
        have hAd := PI_advance (c := c)
          (s := { s3 with busy := replaceFirst (Phase.inqAt b) Phase.good s3.busy }) j0.endp
          h3.op (by show s3.ppos ≤ j0.endp; omega) hP.pp (hle _ hend2) hm
        exact ⟨PI_congr hAd rfl rfl rfl rfl rfl rfl rfl, hend.1⟩
      | retr2 e => simp [Phase.inqAt] at hpq
      | emit e => simp [Phase.inqAt] at hpq
      | scan a b => simp [Phase.inqAt] at hpq
    · split
      · -- … has finished: the entry is an orphan
        next u hu =>
        have hum := List.mem_of_find?_eq_some hu
        have huq := List.find?_some hu
        simp only [Bool.and_eq_true, beq_iff_eq] at huq
        have hub := hP.si.orph hP.pd u hum
        have hend : u.f.endp = (rres c b).e := by
          rcases hub.2 huq.1 with h | h
          · rw [h, huq.2]
          · rw [huq.2] at h; omega
        have hbe := rres_ge c b
        have hAd := PI_advance (c := c) (s := s3) u.f.endp h3.op (by omega) hP.pp
          (hle _ (by omega)) (fun y hy hmc => (hno y hy hmc).elim)
        split
        · exact ⟨PI_congr hAd rfl rfl rfl rfl rfl rfl rfl, by show b ≤ u.f.endp; omega⟩
        · exact ⟨PI_congr hAd rfl rfl rfl rfl rfl rfl rfl, by show b ≤ u.f.endp; omega⟩
      · -- nobody found it: the parser creates the master job
        refine ⟨?_, by show b ≤ s3.ppos; omega⟩
        obtain ⟨a1, a2, a3, a4, a5⟩ := h3
        refine ⟨a1, a2, ?_, ?_, a5⟩
        · intro y hy hmc
          rcases hy with hy | ⟨k, hk⟩
          · rcases List.mem_cons.1 hy with e | hm
            · subst e; show s3.ppos ≤ b; omega
            · exact a3 y (Or.inl hm) hmc
          · exact a3 y (Or.inr ⟨k, hk⟩) hmc
        · intro y hy hmc
          rcases hy with hy | ⟨k, hk⟩
          · rcases List.mem_cons.1 hy with e | hm
            · subst e; show b ≤ s3.ppos; omega
            · exact a4 y (Or.inl hm) hmc
          · exact a4 y (Or.inr ⟨k, hk⟩) hmc

theorem PI_parseVerdict {c : Cfg} {s1 : State} (h1 : PI c s1) (hA : AI c s1) (hP : PPre c s1) :
    PI c (parseVerdict c s1 (pres c s1.gnext)) ∧
    ((parseVerdict c s1 (pres c s1.gnext)).pdone = false →
      s1.ppos ≤ (parseVerdict c s1 (pres c s1.gnext)).ppos) := by
  cases hu : pres c s1.gnext with
  | err u => exact ⟨PI_congr h1 rfl rfl rfl rfl rfl rfl rfl, fun _ => Nat.le_refl _⟩
  | finish u ok =>
    cases ok with
    | false =>
      obtain ⟨a1, a2, a3, a4, a5⟩ := h1
      exact ⟨⟨a1, (fun hd => Bool.noConfusion hd), a3, a4, (fun hd => Bool.noConfusion hd)⟩,
        fun hd => Bool.noConfusion hd⟩
    | true =>
      show PI c (parseFinish s1 u) ∧ ((parseFinish s1 u).pdone = false → _)
      have hno := PI_nomc hP.m0
      refine ⟨⟨?_, (fun hd => Bool.noConfusion hd), ?_, ?_, (fun hd => Bool.noConfusion hd)⟩,
        fun hd => Bool.noConfusion hd⟩
      · intro k hk
        rw [show (parseFinish s1 u).pphase = s1.pphase from rfl, hP.pp] at hk; cases hk
      · intro j hj hmc
        rcases hj with hj | ⟨k, hk⟩
        · cases hj
        · simp only [parseFinish, List.mem_map] at hk
          obtain ⟨x, hx, hxe⟩ := hk
          cases x with
          | retr j0 k0 =>
            simp only [flagPhase, Phase.retr.injEq] at hxe
            obtain ⟨rfl, _⟩ := hxe
            exact (hno j0 (Or.inr ⟨k0, hx⟩) (mc_flagJob hmc)).elim
          | retr2 e => cases hxe
          | emit e => cases hxe
          | scan a b => cases hxe
      · intro j hj hmc
        rcases hj with hj | ⟨k, hk⟩
        · cases hj
        · simp only [parseFinish, List.mem_map] at hk
          obtain ⟨x, hx, hxe⟩ := hk
          cases x with
          | retr j0 k0 =>
            simp only [flagPhase, Phase.retr.injEq] at hxe
            obtain ⟨rfl, _⟩ := hxe
            exact (hno j0 (Or.inr ⟨k0, hx⟩) (mc_flagJob hmc)).elim
          | retr2 e => cases hxe
          | emit e => cases hxe
          | scan a b => cases hxe
  | hdr b =>
    have hlt : s1.ppos < b := h1.pb hP.pd b hu
    have p0 := PI_parsePush h1 hP hu
    obtain ⟨p1, p2, p3⟩ := AI_parsePush hA hP hu
    obtain ⟨q1, q2, q3⟩ := PPre_push hP hu
    obtain ⟨r1, r2⟩ := PI_parseMatch p0 p1 q1 q2 p2 p3
    exact ⟨r1, fun _ => by
      show s1.ppos ≤ (parseMatch c (parsePush c s1 b) b).ppos
      omega⟩

theorem PI_parseEnd {c : Cfg} {s s' : State} (h : PI c s) (hA : AI c s) (hS : SI c s)
    (hf : s.failed = false) (hs : stepParseEnd c s = some s') :
    PI c s' ∧ (s'.pdone = false → s.ppos ≤ s'.ppos) := by
  unfold stepParseEnd at hs
  split at hs
  · simp at hs
  · next k hk =>
    obtain ⟨hP, hg1, hpo⟩ := PPre_of_parsing hS hf hk
    have h0 : PI c { s with pphase := none } :=
      ⟨(fun k hk => by cases hk), h.pb, h.ml, h.mb, h.op⟩
    have hA0 : AI c { s with pphase := none } := by
      obtain ⟨a1, a2, a3, a4, a5, a6, a7, a8⟩ := hA
      exact ⟨a1, a2, (fun k hk => by cases hk), a4, a5, a6, a7, a8⟩
    have h1 : PI c (detach { s with pphase := none } k) := PI_detach k h0
    have hA1 : AI c (detach { s with pphase := none } k) := AI_detach k hA0
    have hp1 : (detach { s with pphase := none } k).ppos = s.ppos := PI_detach_ppos _ _
    have key : pres c s.porig = pres c (detach { s with pphase := none } k).gnext := by
      rw [hg1, hpo]
    have hpk := h.pk
    dsimp only at hs
    rw [key] at hs
    generalize detach { s with pphase := none } k = s1 at hs hP h1 hA1 hp1
    split at hs
    · next hmore =>
      simp only [Option.some.injEq] at hs; subst hs
      have hkk : ∃ kk, k = some kk := by
        cases k with
        | none => simp [parseMoreP] at hmore
        | some kk => exact ⟨kk, rfl⟩
      obtain ⟨kk, rfl⟩ := hkk
      have hlt : offs c (kk + 1) < parseTarget (pres c s1.gnext) := by
        unfold parseMoreP at hmore; exact of_decide_eq_true hmore
      have hk1 := hpk kk hk
      have hAd := PI_advance (c := c) (s := s1) (offs c (kk + 1)) h1.op (by omega) hP.pp
        (by intro _ b hb; rw [hb] at hlt; exact hlt)
        (fun y hy hmc => (PI_nomc hP.m0 y hy hmc).elim)
      exact ⟨PI_congr hAd rfl rfl rfl rfl rfl rfl rfl, fun _ => by
        show s.ppos ≤ offs c (kk + 1)
        omega⟩
    · simp only [Option.some.injEq] at hs; subst hs
      have hV := PI_parseVerdict h1 hA1 hP
      exact ⟨hV.1, fun hd => by have := hV.2 hd; omega⟩

/-! ### all steps -/

theorem pi_step {c : Cfg} {s s' : State} {l : Label} (h : PI c s) (hS : SI c s) (hA : AI c s)
    (hs : step c s l = some s') : PI c s' ∧ (s'.pdone = false → s.ppos ≤ s'.ppos) := by
  unfold step at hs
  split at hs
  · simp at hs
  · next hf =>
    have hf' : s.failed = false := by simpa using hf
    have fin : ∀ {t : State}, PI c t ∧ t.ppos = s.ppos →
        PI c t ∧ (t.pdone = false → s.ppos ≤ t.ppos) :=
      fun ht => ⟨ht.1, fun _ => Nat.le_of_eq ht.2.symm⟩
    cases l with
    | rTake => exact fin (PI_rTake h hs)
    | rQuit => exact fin (PI_rQuit h hs)
    | rBlock => exact fin (PI_rBlock h hs)
    | rEmpty => exact fin (PI_rEmpty h hs)
    | rEof => exact fin (PI_rEof h hs)
    | wDone => exact fin (PI_wDone h hs)
    | reorder ob => exact fin (PI_reorder h hs)
    | parseStart => exact fin (PI_parseStart h hs)
    | parseEnd => exact PI_parseEnd h hA hS hf' hs
    | retrStart j => exact fin (PI_retrStart h hs)
    | retrEnd j k =>
      have := PI_retrEnd h hS hs
      exact ⟨this.1, fun _ => this.2⟩
    | retrPost e => exact fin (PI_retrPost h hs)
    | emitStart e => exact fin (PI_emitStart h hs)
    | emitEnd e => exact fin (PI_emitEnd h hs)
    | scanStart sp => exact fin (PI_scanStart h hs)
    | scanEnd st k => exact fin (PI_scanEnd h hs)

theorem PI_step_pre {c : Cfg} {s s' : State} {l : Label} (hr : Reach c s)
    (hs : step c s l = some s') : SI c s ∧ AI c s := by
  have hf : s.failed = false := by
    unfold step at hs; split at hs
    · simp at hs
    · next hf => simpa using hf
  have g := good_reach hr
  exact ⟨by simpa [Good, hf] using g, ai_reach hr⟩

/-- `PI` holds in every reachable state (also in the state in which `failf`
    has just been called) -/
theorem pi_reach_all {c : Cfg} {s : State} (h : Reach c s) : PI c s := by
  induction h with
  | init => exact PI_init c
  | @step s s' l hr hs ih =>
    obtain ⟨hS, hA⟩ := PI_step_pre hr hs
    exact (pi_step ih hS hA hs).1

/-- **parser position invariant**: in every reachable (non-failed) state the
    parser position lies inside the attached input block, before the next block
    header, inside every master-capable retrieve job and at or after every
    block of `order_q`. -/
theorem pi_reach {c : Cfg} {s : State} (h : Reach c s) (hf : s.failed = false) : PI c s := by
  have _ := hf
  exact pi_reach_all h

/-- **`parser_bs` only moves forward** (as long as parsing is not done). -/
theorem ppos_mono {c : Cfg} {s s' : State} {l : Label} (h : Reach c s)
    (hs : step c s l = some s') (hd : s'.pdone = false) : s.ppos ≤ s'.ppos := by
  obtain ⟨hS, hA⟩ := PI_step_pre h hs
  exact (pi_step (pi_reach_all h) hS hA hs).2 hd

end LbzVerif.Lemmas.SchedD
