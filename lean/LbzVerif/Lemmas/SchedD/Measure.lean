/-
  Lemmas.SchedD.Measure — a termination measure for the expansion scheduler
  (definitions, the well-founded order, list lemmas, and the small invariant
  `RK` about running retrievers; the transitions are in Measure2.lean).

  `mu c s` is a 10-tuple of naturals ordered lexicographically (`muLt`), most
  significant first:
    0. `failf` not yet called
    1. the reader: blocks still to be read and its phase
    2. parsing not yet done
    3. the parser chain: distance of `gnext` (origin of the next header parse)
       from the end of the input
    4. the parser position: distance of `parser_bs` from the end of the input
    5. scan tasks (queued / running), each weighted `1 + number of candidates
       still ahead of it inside its input block`
    6. retrieve jobs (queued / running), each weighted by the distance of its
       position from the end of the input
    7. emit jobs (queued / in `decode()` / in `emit()`): buffers still to emit
    8. `2 * |reord_q| + buffers at the writer`
    9. hand-overs between queues and workers that are still due
  EVERY transition of a reachable state strictly decreases `mu`
  (`step_measure`, Measure2.lean).
-/
import LbzVerif.Lemmas.SchedD.ProgressFinal

namespace LbzVerif.Lemmas.SchedD
open LbzVerif.Model.SchedD LbzVerif.Gen

/-! ### weighted sums over lists -/

def msum {α} (f : α → Nat) (l : List α) : Nat := (l.map f).sum

theorem msum_nil {α} (f : α → Nat) : msum f [] = 0 := rfl

theorem msum_cons {α} (f : α → Nat) (a : α) (l : List α) : msum f (a :: l) = f a + msum f l := by
  simp [msum]

theorem msum_erase {α} [BEq α] [LawfulBEq α] (f : α → Nat) {a : α} {l : List α} (h : a ∈ l) :
    msum f (l.erase a) + f a = msum f l := by
  induction l with
  | nil => cases h
  | cons x xs ih =>
    by_cases hx : x = a
    · subst hx
      rw [List.erase_cons_head, msum_cons]; omega
    · have hne : (x == a) = false := by simpa using hx
      rw [List.erase_cons_tail (by simp [hne]), msum_cons, msum_cons]
      have hm : a ∈ xs := by
        rcases List.mem_cons.1 h with e | hm
        · exact absurd e.symm hx
        · exact hm
      have := ih hm
      omega

theorem msum_filter_le {α} (f : α → Nat) (p : α → Bool) (l : List α) :
    msum f (l.filter p) ≤ msum f l := by
  induction l with
  | nil => exact Nat.le_refl _
  | cons x xs ih =>
    rw [List.filter_cons]
    split
    · rw [msum_cons, msum_cons]; omega
    · rw [msum_cons]; omega

theorem msum_map {α} (f : α → Nat) (g : α → α) (h : ∀ x, f (g x) = f x) (l : List α) :
    msum f (l.map g) = msum f l := by
  induction l with
  | nil => rfl
  | cons x xs ih => rw [List.map_cons, msum_cons, msum_cons, h, ih]

theorem msum_replaceFirst {α} (f : α → Nat) (p : α → Bool) (g : α → α) (h : ∀ x, f (g x) = f x)
    (l : List α) : msum f (replaceFirst p g l) = msum f l := by
  induction l with
  | nil => rfl
  | cons x xs ih =>
    simp only [replaceFirst]
    split
    · rw [msum_cons, msum_cons, h]
    · rw [msum_cons, msum_cons, ih]

theorem filter_len_mono (p q : Nat → Bool) (h : ∀ x, p x = true → q x = true) (l : List Nat) :
    (l.filter p).length ≤ (l.filter q).length := by
  induction l with
  | nil => exact Nat.le_refl _
  | cons x xs ih =>
    cases hp : p x with
    | true =>
      have hq := h x hp
      simp only [List.filter_cons, hp, hq, if_true, List.length_cons]; omega
    | false =>
      cases hq : q x <;> simp only [List.filter_cons, hp, hq, if_true, List.length_cons] <;>
        simp <;> omega

theorem filter_len_lt (p q : Nat → Bool) (h : ∀ x, p x = true → q x = true) {l : List Nat}
    {a : Nat} (ha : a ∈ l) (hq : q a = true) (hp : p a = false) :
    (l.filter p).length < (l.filter q).length := by
  induction l with
  | nil => cases ha
  | cons x xs ih =>
    by_cases hx : a = x
    · subst hx
      have := filter_len_mono p q h xs
      simp only [List.filter_cons, hp, hq, if_true, List.length_cons]
      simp; omega
    · have hm : a ∈ xs := by
        rcases List.mem_cons.1 ha with e | hm
        · exact absurd e hx
        · exact hm
      have := ih hm
      cases hpx : p x with
      | true =>
        have hqx := h x hpx
        simp only [List.filter_cons, hpx, hqx, if_true, List.length_cons]; omega
      | false =>
        cases hqx : q x <;> simp only [List.filter_cons, hpx, hqx, if_true, List.length_cons] <;>
          simp <;> omega

/-! ### weights -/

/-- the scanner's filter: candidates in `(lo, hi]` -/
def candP (lo hi : Nat) (x : Nat) : Bool := decide (lo < x) && decide (x ≤ hi)

/-- number of candidates in `(lo, hi]` -/
def candCnt (c : Cfg) (lo hi : Nat) : Nat := (c.cand.filter (candP lo hi)).length

theorem candCnt_mono (c : Cfg) {lo lo' : Nat} (hi : Nat) (h : lo ≤ lo') :
    candCnt c lo' hi ≤ candCnt c lo hi := by
  unfold candCnt
  apply filter_len_mono
  intro x hx
  simp only [candP, Bool.and_eq_true, decide_eq_true_eq] at hx ⊢
  omega

theorem scanFind_eq (c : Cfg) (start hi : Nat) :
    scanFind c start hi = minNat? (c.cand.filter (candP start hi)) := rfl

/-- the candidate the scanner reports is no longer ahead of the re-queued task -/
theorem candCnt_found {c : Cfg} {start hi x : Nat} (h : scanFind c start hi = some x) :
    candCnt c x hi < candCnt c start hi := by
  rw [scanFind_eq] at h
  have hm := List.mem_filter.1 (minNat?_mem h)
  have hr := hm.2
  unfold candCnt
  refine filter_len_lt _ _ ?_ hm.1 hr ?_
  · intro y hy
    simp only [candP, Bool.and_eq_true, decide_eq_true_eq] at hy hr ⊢
    omega
  · simp [candP]

def rphW : RPhase → Nat
  | .idle => 3
  | .hold => 2
  | .ateof => 1
  | .done => 0

/-- a queued scan task at `sp` (it will attach to block `sp / W`) -/
def scanQW (c : Cfg) (sp : Nat) : Nat := 1 + candCnt c sp (offs c (sp / c.W + 1))

/-- a running scanner -/
def scanBW (c : Cfg) : Phase → Nat
  | .scan st k => 1 + candCnt c st (offs c (k + 1))
  | _ => 0

/-- a retrieve job -/
def jobW (c : Cfg) (j : Job) : Nat := c.T + 1 - j.curr

def retrBW (c : Cfg) : Phase → Nat
  | .retr j _ => jobW c j
  | _ => 0

def emitBW : Phase → Nat
  | .retr2 e => e.left
  | .emit e => e.left
  | _ => 0

def moveBW : Phase → Nat
  | .retr2 _ => 3
  | _ => 1

/-! ### the components -/

def m0 (s : State) : Nat := if s.failed then 0 else 1
def m1 (c : Cfg) (s : State) : Nat := 4 * (c.T - s.nread) + rphW s.rph
def m2 (s : State) : Nat := if s.pdone then 0 else 1
def m3 (c : Cfg) (s : State) : Nat := c.T + 1 - s.gnext
def m4 (c : Cfg) (s : State) : Nat := if s.pdone then 0 else c.T + 1 - s.ppos
def m5 (c : Cfg) (s : State) : Nat := msum (scanQW c) s.scanQ + msum (scanBW c) s.busy
def m6 (c : Cfg) (s : State) : Nat := msum (jobW c) s.retrQ + msum (retrBW c) s.busy
def m7 (s : State) : Nat := msum EJob.left s.emitQ + msum emitBW s.busy
def m8 (s : State) : Nat := 2 * s.reordQ.length + s.outq
def m9 (s : State) : Nat :=
  2 * s.scanQ.length + 2 * s.retrQ.length + 2 * s.emitQ.length + msum moveBW s.busy +
    (if s.ptok then 2 else 0) + (if s.pphase.isSome then 1 else 0)

abbrev MTuple := Nat × Nat × Nat × Nat × Nat × Nat × Nat × Nat × Nat × Nat

/-- the measure -/
def mu (c : Cfg) (s : State) : MTuple :=
  (m0 s, m1 c s, m2 s, m3 c s, m4 c s, m5 c s, m6 c s, m7 s, m8 s, m9 s)

/-! ### the order -/

/-- one lexicographic layer: a natural number in front -/
def lexN {β : Type} (r : β → β → Prop) : Nat × β → Nat × β → Prop := Prod.Lex (· < ·) r

theorem lexN_wf {β : Type} {r : β → β → Prop} (h : WellFounded r) : WellFounded (lexN r) :=
  (Prod.lex Nat.lt_wfRel ⟨r, h⟩).wf

theorem lexN_lt {β : Type} {r : β → β → Prop} {a b : Nat} {x y : β} (h : a < b) :
    lexN r (a, x) (b, y) := Prod.Lex.left _ _ h

theorem lexN_le {β : Type} {r : β → β → Prop} {a b : Nat} {x y : β} (h : a ≤ b)
    (h2 : a = b → r x y) : lexN r (a, x) (b, y) := by
  rcases Nat.lt_or_eq_of_le h with h' | h'
  · exact Prod.Lex.left _ _ h'
  · subst h'; exact Prod.Lex.right _ (h2 rfl)

/-- the lexicographic order on 10-tuples of naturals -/
def muLt : MTuple → MTuple → Prop :=
  lexN (lexN (lexN (lexN (lexN (lexN (lexN (lexN (lexN (· < ·)))))))))

theorem muLt_wf : WellFounded muLt :=
  lexN_wf (lexN_wf (lexN_wf (lexN_wf (lexN_wf (lexN_wf (lexN_wf (lexN_wf (lexN_wf
    Nat.lt_wfRel.wf))))))))

section dec
variable {c : Cfg} {s s' : State}

theorem dec0 (h0 : m0 s' < m0 s) : muLt (mu c s') (mu c s) := lexN_lt h0

theorem dec1 (h0 : m0 s' ≤ m0 s) (h1 : m1 c s' < m1 c s) : muLt (mu c s') (mu c s) :=
  lexN_le h0 fun _ => lexN_lt h1

theorem dec2 (h0 : m0 s' ≤ m0 s) (h1 : m1 c s' ≤ m1 c s) (h2 : m2 s' < m2 s) :
    muLt (mu c s') (mu c s) :=
  lexN_le h0 fun _ => lexN_le h1 fun _ => lexN_lt h2

theorem dec3 (h0 : m0 s' ≤ m0 s) (h1 : m1 c s' ≤ m1 c s) (h2 : m2 s' ≤ m2 s)
    (h3 : m3 c s' < m3 c s) : muLt (mu c s') (mu c s) :=
  lexN_le h0 fun _ => lexN_le h1 fun _ => lexN_le h2 fun _ => lexN_lt h3

theorem dec4 (h0 : m0 s' ≤ m0 s) (h1 : m1 c s' ≤ m1 c s) (h2 : m2 s' ≤ m2 s)
    (h3 : m3 c s' ≤ m3 c s) (h4 : m4 c s' < m4 c s) : muLt (mu c s') (mu c s) :=
  lexN_le h0 fun _ => lexN_le h1 fun _ => lexN_le h2 fun _ => lexN_le h3 fun _ => lexN_lt h4

theorem dec5 (h0 : m0 s' ≤ m0 s) (h1 : m1 c s' ≤ m1 c s) (h2 : m2 s' ≤ m2 s)
    (h3 : m3 c s' ≤ m3 c s) (h4 : m4 c s' ≤ m4 c s) (h5 : m5 c s' < m5 c s) :
    muLt (mu c s') (mu c s) :=
  lexN_le h0 fun _ => lexN_le h1 fun _ => lexN_le h2 fun _ => lexN_le h3 fun _ =>
    lexN_le h4 fun _ => lexN_lt h5

theorem dec6 (h0 : m0 s' ≤ m0 s) (h1 : m1 c s' ≤ m1 c s) (h2 : m2 s' ≤ m2 s)
    (h3 : m3 c s' ≤ m3 c s) (h4 : m4 c s' ≤ m4 c s) (h5 : m5 c s' ≤ m5 c s)
    (h6 : m6 c s' < m6 c s) : muLt (mu c s') (mu c s) :=
  lexN_le h0 fun _ => lexN_le h1 fun _ => lexN_le h2 fun _ => lexN_le h3 fun _ =>
    lexN_le h4 fun _ => lexN_le h5 fun _ => lexN_lt h6

theorem dec7 (h0 : m0 s' ≤ m0 s) (h1 : m1 c s' ≤ m1 c s) (h2 : m2 s' ≤ m2 s)
    (h3 : m3 c s' ≤ m3 c s) (h4 : m4 c s' ≤ m4 c s) (h5 : m5 c s' ≤ m5 c s)
    (h6 : m6 c s' ≤ m6 c s) (h7 : m7 s' < m7 s) : muLt (mu c s') (mu c s) :=
  lexN_le h0 fun _ => lexN_le h1 fun _ => lexN_le h2 fun _ => lexN_le h3 fun _ =>
    lexN_le h4 fun _ => lexN_le h5 fun _ => lexN_le h6 fun _ => lexN_lt h7

theorem dec8 (h0 : m0 s' ≤ m0 s) (h1 : m1 c s' ≤ m1 c s) (h2 : m2 s' ≤ m2 s)
    (h3 : m3 c s' ≤ m3 c s) (h4 : m4 c s' ≤ m4 c s) (h5 : m5 c s' ≤ m5 c s)
    (h6 : m6 c s' ≤ m6 c s) (h7 : m7 s' ≤ m7 s) (h8 : m8 s' < m8 s) :
    muLt (mu c s') (mu c s) :=
  lexN_le h0 fun _ => lexN_le h1 fun _ => lexN_le h2 fun _ => lexN_le h3 fun _ =>
    lexN_le h4 fun _ => lexN_le h5 fun _ => lexN_le h6 fun _ => lexN_le h7 fun _ => lexN_lt h8

theorem dec9 (h0 : m0 s' ≤ m0 s) (h1 : m1 c s' ≤ m1 c s) (h2 : m2 s' ≤ m2 s)
    (h3 : m3 c s' ≤ m3 c s) (h4 : m4 c s' ≤ m4 c s) (h5 : m5 c s' ≤ m5 c s)
    (h6 : m6 c s' ≤ m6 c s) (h7 : m7 s' ≤ m7 s) (h8 : m8 s' ≤ m8 s) (h9 : m9 s' < m9 s) :
    muLt (mu c s') (mu c s) :=
  lexN_le h0 fun _ => lexN_le h1 fun _ => lexN_le h2 fun _ => lexN_le h3 fun _ =>
    lexN_le h4 fun _ => lexN_le h5 fun _ => lexN_le h6 fun _ => lexN_le h7 fun _ =>
    lexN_le h8 fun _ => (h9 : m9 s' < m9 s)

end dec

theorem mu_no_descending_chain {β : Type} {r : β → β → Prop} (wf : WellFounded r)
    (g : Nat → β) : ¬ ∀ i, r (g (i + 1)) (g i) := by
  intro hg
  have key : ∀ x, ∀ i, g i = x → False := by
    intro x
    induction x using wf.induction with
    | _ x ih =>
      intro i hi
      exact ih (g (i + 1)) (hi ▸ hg i) (i + 1) rfl
  exact key (g 0) 0 rfl

/-! ### running retrievers: the attached block lies ahead of the job's position -/

/-- a retriever attached to block `kk` has not yet consumed it; a retriever
    attached "at end of input" has nothing left to retrieve (or parsing is done) -/
def retrK (c : Cfg) (pd : Bool) : Phase → Prop
  | .retr j (some kk) => j.curr < offs c (kk + 1)
  | .retr j none => pd = true ∨ (rres c j.base).e ≤ j.curr
  | _ => True

def RK (c : Cfg) (s : State) : Prop := ∀ ph ∈ s.busy, retrK c s.pdone ph

theorem retrK_mono {c : Cfg} {pd pd' : Bool} (h : pd = true → pd' = true) {ph : Phase}
    (hp : retrK c pd ph) : retrK c pd' ph := by
  cases ph with
  | retr j k =>
    cases k with
    | none => exact hp.imp h id
    | some kk => exact hp
  | retr2 e => trivial
  | emit e => trivial
  | scan a b => trivial

theorem retrK_flagPhase {c : Cfg} {pd : Bool} (p : Nat → Bool) {ph : Phase}
    (hp : retrK c pd ph) : retrK c pd (flagPhase p ph) := by
  cases ph with
  | retr j k =>
    cases k with
    | none => exact hp
    | some kk => exact hp
  | retr2 e => trivial
  | emit e => trivial
  | scan a b => trivial

theorem retrK_good {c : Cfg} {pd : Bool} {ph : Phase} (hp : retrK c pd ph) :
    retrK c pd (Phase.good ph) := by
  cases ph with
  | retr j k =>
    cases k with
    | none => exact hp
    | some kk => exact hp
  | retr2 e => trivial
  | emit e => trivial
  | scan a b => trivial

theorem RK_init (c : Cfg) : RK c (init c) := by
  intro ph hph; simp [init] at hph

theorem RK_of {c : Cfg} {s s' : State} (hp : s.pdone = true → s'.pdone = true)
    (hb : ∀ ph ∈ s'.busy, retrK c s.pdone ph) : RK c s' :=
  fun ph hph => retrK_mono hp (hb ph hph)

theorem RK_congr {c : Cfg} {s s' : State} (h : RK c s) (e1 : s'.pdone = s.pdone)
    (e2 : s'.busy = s.busy) : RK c s' :=
  RK_of (fun hh => e1 ▸ hh) (fun ph hph => h ph (e2 ▸ hph))

theorem RK_detach {c : Cfg} {s : State} (k : Option Nat) (h : RK c s) : RK c (detach s k) := by
  unfold detach; split
  · exact h
  · split
    · exact RK_congr h rfl rfl
    · exact h

theorem RK_busy_erase {c : Cfg} {s : State} (ph : Phase) (h : RK c s) :
    RK c { s with busy := s.busy.erase ph } :=
  RK_of (s := s) (fun hh => hh) (fun x hx => h x (List.mem_of_mem_erase hx))

theorem RK_busy_cons {c : Cfg} {s : State} (ph : Phase) (h : RK c s) (hp : retrK c s.pdone ph) :
    RK c { s with busy := ph :: s.busy } := by
  refine RK_of (s := s) (fun hh => hh) (fun x hx => ?_)
  rcases List.mem_cons.1 hx with e | hm
  · subst e; exact hp
  · exact h x hm

theorem RK_busy_flag {c : Cfg} {s : State} (p : Nat → Bool) (h : RK c s) :
    RK c { s with busy := s.busy.map (flagPhase p) } := by
  refine RK_of (s := s) (fun hh => hh) (fun x hx => ?_)
  obtain ⟨y, hy, rfl⟩ := List.mem_map.1 hx
  exact retrK_flagPhase p (h y hy)

theorem RK_busy_good {c : Cfg} {s : State} (q : Phase → Bool) (h : RK c s) :
    RK c { s with busy := replaceFirst q Phase.good s.busy } := by
  refine RK_of (s := s) (fun hh => hh) (fun x hx => ?_)
  rcases mem_replaceFirst _ _ hx with hm | ⟨y, hy, _, rfl⟩
  · exact h x hm
  · exact retrK_good (h y hy)

theorem RK_advance {c : Cfg} {s : State} (p : Nat) (h : RK c s) : RK c (advance c s p) :=
  RK_congr h rfl rfl

theorem RK_parsePush {c : Cfg} {s : State} (b : Nat) (h : RK c s) : RK c (parsePush c s b) := by
  have h2 := RK_advance (c := c) b h
  unfold parsePush; dsimp only
  generalize advance c s b = s2 at *
  exact RK_congr (RK_busy_flag (fun x => decide (x < b)) h2) rfl rfl

theorem RK_parseMatch {c : Cfg} {s : State} (b : Nat) (h : RK c s) : RK c (parseMatch c s b) := by
  unfold parseMatch; split
  · next j _ =>
    have h1 : RK c { s with retrQ := replaceFirst (Job.inqAt b) Job.good s.retrQ } :=
      RK_congr h rfl rfl
    exact RK_congr (RK_advance j.endp h1) rfl rfl
  · split
    · next ph _ =>
      exact RK_congr (RK_advance ph.endp (RK_busy_good (Phase.inqAt b) h)) rfl rfl
    · split
      · next u _ =>
        have h2 := RK_advance (c := c) u.f.endp h
        dsimp only
        generalize advance c s u.f.endp = a at *
        split
        · exact RK_congr h2 rfl rfl
        · exact RK_congr h2 rfl rfl
      · exact RK_congr h rfl rfl

theorem RK_parseFinish {c : Cfg} {s : State} (u : Nat) (h : RK c s) : RK c (parseFinish s u) := by
  have h1 := RK_busy_flag (c := c) (fun _ => true) h
  unfold parseFinish; dsimp only
  exact RK_of (s := { s with busy := s.busy.map (flagPhase fun _ => true) }) (fun _ => rfl) h1

theorem RK_parseMore {c : Cfg} {s : State} (k : Option Nat) (h : RK c s) :
    RK c (parseMore c s k) := by
  unfold parseMore; dsimp only
  exact RK_congr (RK_advance (offs c (k.getD 0 + 1)) h) rfl rfl

theorem RK_parseVerdict {c : Cfg} {s : State} (r : PRes) (h : RK c s) :
    RK c (parseVerdict c s r) := by
  cases r with
  | err u => exact RK_congr h rfl rfl
  | finish u ok =>
    cases ok with
    | false => exact RK_of (s := s) (fun _ => rfl) h
    | true =>
      simp only [parseVerdict, Bool.not_true, Bool.false_eq_true, if_false]
      exact RK_parseFinish u h
  | hdr b =>
    simp only [parseVerdict, parseOk]
    exact RK_parseMatch b (RK_parsePush b h)

theorem RK_retrExit {c : Cfg} {s : State} (j : Job) (h : RK c s) : RK c (retrExit s j) :=
  RK_congr h rfl rfl

theorem RK_retrMove {c : Cfg} {s : State} (j : Job) (n : Nat) (h : RK c s) :
    RK c (retrMove c s j n) := by
  unfold retrMove; split
  · exact RK_congr (RK_advance n h) rfl rfl
  · exact h

theorem RK_retrMore {c : Cfg} {s : State} (j : Job) (n : Nat) (h : RK c s) :
    RK c (retrMore s j n) :=
  RK_congr h rfl rfl

theorem RK_retrDone {c : Cfg} {s : State} (j : Job) (n : Nat) (h : RK c s) :
    RK c (retrDone c s j n) := by
  unfold retrDone; dsimp only; split
  · exact RK_congr (RK_busy_cons (.retr2 _) h trivial) rfl rfl
  · exact RK_congr (RK_busy_cons (.retr2 _) h trivial) rfl rfl

theorem RK_scanNew {c : Cfg} {s : State} (x : Nat) (h : RK c s) : RK c (scanNew c s x) := by
  unfold scanNew; split
  · exact RK_congr h rfl rfl
  · exact RK_congr h rfl rfl

theorem RK_scanRequeue {c : Cfg} {s : State} (x hi : Nat) (h : RK c s) :
    RK c (scanRequeue c s x hi) := by
  unfold scanRequeue; split
  · exact RK_congr h rfl rfl
  · exact h

theorem tailOffs_le (c : Cfg) (s : State) : tailOffs c s ≤ c.T := by
  unfold tailOffs offs; omega

/-- `can_retrieve` with the head of `retr_q` at or after `tail_offs`: `eof`, and
    the head stands exactly at `tail_offs` -/
theorem select_retrieve_attach {c : Cfg} {s : State} {m : Nat}
    (h : selectTask c s = some "retrieve") (hm : minNat? (s.retrQ.map Job.curr) = some m) :
    canAttach m (tailOffs c s) s.eof = true := by
  have := select_guard h
  simp [guardOf, dCanRetrieve, view, hm] at this
  exact this.2

/-- a freshly started retriever is attached to the block its position lies in -/
theorem RK_retrStart {c : Cfg} (hW : 0 < c.W) {s s' : State} {j : Job} (hr : Reach c s)
    (hf : s.failed = false) (h : RK c s) (hs : stepRetrStart c s j = some s') : RK c s' := by
  have hS : SI c s := by simpa [Good, hf] using good_reach hr
  have hA := ai_reach hr
  have hN := ni_reach hW hr
  unfold stepRetrStart at hs; split at hs
  · next hg =>
    simp only [Bool.and_eq_true, List.contains_iff_mem, beq_iff_eq] at hg
    obtain ⟨⟨⟨_, hsel⟩, hj⟩, hmin⟩ := hg
    have hca := select_retrieve_attach hsel hmin
    have hst : decide (j.curr < headOffs c s) = false := by
      have := hA.arQ j hj
      simp only [decide_eq_false_iff_not]; omega
    have hjk := hS.jobs j hj
    simp only [Option.some.injEq] at hs; subst hs
    intro ph hph
    rcases List.mem_cons.1 hph with e | hm
    · subst e
      show retrK c s.pdone _
      by_cases ht : tailOffs c s ≤ j.curr
      · rw [if_pos ht]
        show s.pdone = true ∨ (rres c j.base).e ≤ j.curr
        cases hpd : s.pdone with
        | true => exact Or.inl rfl
        | false =>
          right
          unfold canAttach at hca
          simp only [Bool.or_eq_true, decide_eq_true_eq, Bool.and_eq_true] at hca
          have hca2 : s.eof = true ∧ j.curr = tailOffs c s := by
            rcases hca with h' | h'
            · omega
            · exact h'
          have hT := hN.tl hca2.1 hpd
          have h1 := hjk.2.2.2.1
          have h2 : (rres c j.base).e ≤ c.T := rres_le (by omega)
          omega
      · rw [if_neg ht, hst]
        show j.curr < offs c (j.curr / c.W + 1)
        exact lt_offs_succ_div (c := c) (r := s.rd) (by unfold tailOffs at ht; omega)
    · exact h ph hm
  · simp at hs

/-- `RK` is inductive -/
theorem rk_step {c : Cfg} (hW : 0 < c.W) {s s' : State} {l : Label} (hr : Reach c s)
    (h : RK c s) (hs : step c s l = some s') : RK c s' := by
  unfold step at hs
  split at hs
  · simp at hs
  · next hf =>
    have hf' : s.failed = false := by simpa using hf
    cases l with
    | rTake =>
      replace hs : stepRTake s = some s' := hs
      unfold stepRTake at hs; split at hs <;> simp at hs; subst hs
      exact RK_congr h rfl rfl
    | rQuit =>
      replace hs : stepRQuit s = some s' := hs
      unfold stepRQuit at hs; split at hs <;> simp at hs; subst hs
      exact RK_congr h rfl rfl
    | rBlock =>
      replace hs : stepRBlock c s = some s' := hs
      unfold stepRBlock at hs; split at hs
      · dsimp only at hs; split at hs <;> simp only [Option.some.injEq] at hs <;> subst hs <;>
          exact RK_congr h rfl rfl
      · simp at hs
    | rEmpty =>
      replace hs : stepREmpty c s = some s' := hs
      unfold stepREmpty at hs; split at hs <;> simp at hs; subst hs
      exact RK_congr h rfl rfl
    | rEof =>
      replace hs : stepREof s = some s' := hs
      unfold stepREof at hs; split at hs <;> simp at hs; subst hs
      exact RK_congr h rfl rfl
    | wDone =>
      replace hs : stepWDone s = some s' := hs
      unfold stepWDone at hs; split at hs <;> simp at hs; subst hs
      exact RK_congr h rfl rfl
    | reorder ob =>
      replace hs : stepReorder c s ob = some s' := hs
      unfold stepReorder at hs; split at hs
      · split at hs
        · simp only [Option.some.injEq] at hs; subst hs
          exact RK_congr h rfl rfl
        · split at hs <;> simp only [Option.some.injEq] at hs <;> subst hs <;>
            exact RK_congr h rfl rfl
      · simp at hs
    | parseStart =>
      replace hs : stepParseStart c s = some s' := hs
      unfold stepParseStart at hs; split at hs
      · simp only [Option.some.injEq] at hs; subst hs
        exact RK_congr h rfl rfl
      · simp at hs
    | parseEnd =>
      replace hs : stepParseEnd c s = some s' := hs
      unfold stepParseEnd at hs; split at hs
      · simp at hs
      · next k hk =>
        have h0 : RK c (detach { s with pphase := none } k) :=
          RK_detach k (RK_congr h rfl rfl)
        dsimp only at hs
        generalize detach { s with pphase := none } k = s1 at *
        split at hs
        · simp only [Option.some.injEq] at hs; subst hs; exact RK_parseMore k h0
        · simp only [Option.some.injEq] at hs; subst hs; exact RK_parseVerdict _ h0
    | retrStart j => exact RK_retrStart hW hr hf' h hs
    | retrEnd j k =>
      replace hs : stepRetrEnd c s j k = some s' := hs
      unfold stepRetrEnd at hs; split at hs
      · have h0 : RK c (detach { s with busy := s.busy.erase (.retr j k) } k) :=
          RK_detach _ (RK_busy_erase _ h)
        dsimp only at hs
        generalize detach { s with busy := s.busy.erase (.retr j k) } k = s1 at *
        split at hs
        · simp only [Option.some.injEq] at hs; subst hs; exact RK_retrExit j h0
        · split at hs
          · simp only [Option.some.injEq] at hs; subst hs; exact RK_retrExit j h0
          · split at hs
            · split at hs
              · simp only [Option.some.injEq] at hs; subst hs
                exact RK_retrExit _ (RK_retrMove j _ h0)
              · simp only [Option.some.injEq] at hs; subst hs
                exact RK_retrMore _ _ (RK_retrMove j _ h0)
            · simp only [Option.some.injEq] at hs; subst hs
              exact RK_retrDone _ _ (RK_retrMove j _ h0)
      · simp at hs
    | retrPost e =>
      replace hs : stepRetrPost s e = some s' := hs
      unfold stepRetrPost at hs; split at hs
      · simp only [Option.some.injEq] at hs; subst hs
        exact RK_congr (RK_busy_erase (.retr2 e) h) rfl rfl
      · simp at hs
    | emitStart e =>
      replace hs : stepEmitStart c s e = some s' := hs
      unfold stepEmitStart at hs; split at hs
      · simp only [Option.some.injEq] at hs; subst hs
        exact RK_congr (RK_busy_cons (.emit e) h trivial) rfl rfl
      · simp at hs
    | emitEnd e =>
      replace hs : stepEmitEnd s e = some s' := hs
      unfold stepEmitEnd at hs; split at hs
      · dsimp only at hs
        split at hs <;> simp only [Option.some.injEq] at hs <;> subst hs <;>
          exact RK_congr (RK_busy_erase (.emit e) h) rfl rfl
      · simp at hs
    | scanStart sp =>
      replace hs : stepScanStart c s sp = some s' := hs
      unfold stepScanStart at hs; split at hs
      · simp only [Option.some.injEq] at hs; subst hs
        exact RK_congr (RK_busy_cons (.scan _ _) h trivial) rfl rfl
      · simp at hs
    | scanEnd st k =>
      replace hs : stepScanEnd c s st k = some s' := hs
      unfold stepScanEnd at hs; split at hs
      · have h1 : RK c (detach { s with busy := s.busy.erase (.scan st k) } (some k)) :=
          RK_detach _ (RK_busy_erase _ h)
        generalize detach { s with busy := s.busy.erase (.scan st k) } (some k) = s1 at h1 hs
        dsimp only at hs
        split at hs
        · simp only [Option.some.injEq] at hs; subst hs
          exact RK_congr h1 rfl rfl
        · split at hs
          · simp only [Option.some.injEq] at hs; subst hs
            exact RK_congr h1 rfl rfl
          · simp only [Option.some.injEq] at hs; subst hs
            exact RK_scanRequeue _ _ (RK_scanNew _ h1)
      · simp at hs

/-- in every reachable state a running retriever has not used up the input
    block it is attached to -/
theorem rk_reach {c : Cfg} (hW : 0 < c.W) {s : State} (h : Reach c s) : RK c s := by
  induction h with
  | init => exact RK_init c
  | step l hr hs ih => exact rk_step hW hr ih hs

end LbzVerif.Lemmas.SchedD
