/-
  Capacity of `unord_q`, part 2: the tails of `do_retrieve` and `do_parse`,
  and the theorem `unord_cap`.
-/
import LbzVerif.Lemmas.SchedD.UnordCap

namespace LbzVerif.Lemmas.SchedD
open LbzVerif.Model.SchedD LbzVerif.Gen

namespace UCap

/-! ### retrEnd -/

theorem nsB_cons_ne {ob : List Nat} {b x : Nat} (h : x ≠ b) : nsB (b :: ob) x = nsB ob x := by
  simp [nsB]
  exact fun _ => h

theorem nsB_cons_self (ob : List Nat) (b : Nat) : nsB (b :: ob) b = false := by
  simp [nsB]

theorem retrMove_parts {c : Cfg} {s1 : State} {d : Nat} (j : Job) (newc : Nat) (hg : KG s1)
    (hn : KN s1 d) : KG (retrMove c s1 j newc) ∧ KN (retrMove c s1 j newc) d := by
  unfold retrMove; split
  · exact ⟨KG_congr (KG_frame hg (KF_advance c s1 newc)) rfl rfl rfl rfl rfl rfl (Or.inl rfl),
      KN_congr (KN_advance c newc hn) rfl rfl rfl rfl rfl rfl (Nat.le_refl _) rfl rfl⟩
  · exact ⟨hg, hn⟩

theorem retrMove_eqs (c : Cfg) (s1 : State) (j : Job) (newc : Nat) :
    (retrMove c s1 j newc).orphans = s1.orphans ∧ (retrMove c s1 j newc).orderQ = s1.orderQ ∧
    (retrMove c s1 j newc).pdone = s1.pdone ∧ (retrMove c s1 j newc).pphase = s1.pphase := by
  unfold retrMove; split <;> exact ⟨rfl, rfl, rfl, rfl⟩

/-- the master finished retrieving -/
theorem doneMaster_parts {s2 : State} {d : Nat} (ej : EJob) (po : Nat) (hg : KG s2) (hn : KN s2 d)
    (hd : d ≤ 1) (hno : ej.base ∉ orphanBases s2) :
    KG { s2 with ptok := true, porig := po, busy := .retr2 ej :: s2.busy } ∧
    KN { s2 with ptok := true, porig := po, busy := .retr2 ej :: s2.busy } 0 := by
  refine ⟨KG_frame hg ⟨fun _ h => h, ?_, ?_, fun _ i h => ⟨i, h⟩, fun h => h⟩, ?_, ?_⟩
  · rintro y _ (⟨e0, he | he | he, rfl⟩ | ⟨o, ho, rfl⟩)
    · exact Or.inl ⟨e0, Or.inl he, rfl⟩
    · exact Or.inl ⟨e0, Or.inr (Or.inl (List.mem_cons_of_mem _ he)), rfl⟩
    · exact Or.inl ⟨e0, Or.inr (Or.inr (List.mem_cons_of_mem _ he)), rfl⟩
    · exact Or.inr ⟨o, ho, rfl⟩
  · rintro x (hq | ⟨k', hk'⟩) hi
    · exact ⟨x, Or.inl hq, hi, rfl⟩
    · rcases List.mem_cons.1 hk' with e' | hm'
      · cases e'
      · exact ⟨x, Or.inr ⟨k', hm'⟩, hi, rfl⟩
  · have := hn.r
    have hns : nsB (orphanBases s2) ej.base = true := nsB_iff.2 hno
    simp only [RS, Mq, Ens, pp, orphanBases, countP_cons', pnq, pens, Bool.toNat_false] at this hns ⊢
    simp only [hns, Bool.toNat_true]
    omega
  · have := hn.sl
    simp only [SS, EBns, Ons, orphanBases, countP_cons', pebns, Bool.toNat_false] at this ⊢
    omega

/-- a speculative job finished retrieving: its unord_blk stays behind as an orphan -/
theorem doneSpec_parts {s2 : State} (ej : EJob) (u : UB) (hb : u.base = ej.base) (hg : KG s2)
    (hn : KN s2 0) (hni : ¬ ItemBase s2 ej.base)
    (hox : s2.pdone = false → ∀ b i, (b, i) ∈ s2.orderQ → b < ej.base) :
    KG { s2 with busy := .retr2 ej :: s2.busy, orphans := [u] ++ s2.orphans } ∧
    KN { s2 with busy := .retr2 ej :: s2.busy, orphans := [u] ++ s2.orphans } 0 := by
  have hob : orphanBases { s2 with busy := .retr2 ej :: s2.busy, orphans := [u] ++ s2.orphans }
      = ej.base :: orphanBases s2 := by
    simp only [orphanBases, List.flatMap_cons, UB.baseL, List.cons_append, List.nil_append, hb]
  have hE : ∀ e0, EIn s2 e0 →
      EIn { s2 with busy := .retr2 ej :: s2.busy, orphans := [u] ++ s2.orphans } e0 := by
    rintro e0 (he | he | he)
    · exact Or.inl he
    · exact Or.inr (Or.inl (List.mem_cons_of_mem _ he))
    · exact Or.inr (Or.inr (List.mem_cons_of_mem _ he))
  have hI : ∀ y, ItemBase s2 y →
      ItemBase { s2 with busy := .retr2 ej :: s2.busy, orphans := [u] ++ s2.orphans } y := by
    rintro y (⟨e0, he, rfl⟩ | ⟨o, ho, rfl⟩)
    · exact Or.inl ⟨e0, hE e0 he, rfl⟩
    · exact Or.inr ⟨o, ho, rfl⟩
  have hJ : ∀ x, JIn { s2 with busy := .retr2 ej :: s2.busy, orphans := [u] ++ s2.orphans } x →
      JIn s2 x := by
    rintro x (hq | ⟨k', hk'⟩)
    · exact Or.inl hq
    · rcases List.mem_cons.1 hk' with e' | hm'
      · cases e'
      · exact Or.inr ⟨k', hm'⟩
  have hne1 : ∀ e0 ∈ s2.emitQ, e0.base ≠ ej.base :=
    fun e0 he hh => hni (Or.inl ⟨e0, Or.inl he, hh⟩)
  have hne2 : ∀ o ∈ s2.reordQ, o.base ≠ ej.base :=
    fun o ho hh => hni (Or.inr ⟨o, ho, hh⟩)
  refine ⟨⟨?_, ?_, ?_⟩, ?_, ?_⟩
  · intro u' hu'
    rcases List.mem_append.1 hu' with hu' | hu'
    · rw [List.mem_singleton.1 hu', hb]
      exact Or.inl ⟨ej, Or.inr (Or.inl List.mem_cons_self), rfl⟩
    · exact hI _ (hg.g u' hu')
  · intro hd u' hu' b i hi
    rcases List.mem_append.1 hu' with hu' | hu'
    · rw [List.mem_singleton.1 hu', hb]; exact hox hd b i hi
    · exact hg.ox hd u' hu' b i hi
  · intro hd x hx hq b i hi
    exact hg.oxj hd x (hJ x hx) hq b i hi
  · have := hn.r
    rw [hob]
    have c1 : s2.emitQ.countP (ejns (ej.base :: orphanBases s2))
        = s2.emitQ.countP (ejns (orphanBases s2)) :=
      countP_eq_of _ _ _ (fun e0 he => nsB_cons_ne (hne1 e0 he))
    have c2 : s2.busy.countP (pens (ej.base :: orphanBases s2))
        = s2.busy.countP (pens (orphanBases s2)) :=
      countP_eq_of _ _ _ (fun ph hph => by
        cases ph with
        | retr j k => rfl
        | retr2 e => exact nsB_cons_ne (fun hh => hni (Or.inl ⟨e, Or.inr (Or.inl hph), hh⟩))
        | emit e => exact nsB_cons_ne (fun hh => hni (Or.inl ⟨e, Or.inr (Or.inr hph), hh⟩))
        | scan a b => rfl)
    simp only [RS, Mq, Ens, pp, countP_cons', pnq, pens, nsB_cons_self, c1, c2,
      Bool.toNat_false] at this ⊢
    omega
  · have := hn.sl
    rw [hob]
    have c1 : s2.reordQ.countP (obns (ej.base :: orphanBases s2))
        = s2.reordQ.countP (obns (orphanBases s2)) :=
      countP_eq_of _ _ _ (fun o ho => nsB_cons_ne (hne2 o ho))
    have c2 : s2.busy.countP (pebns (ej.base :: orphanBases s2))
        = s2.busy.countP (pebns (orphanBases s2)) :=
      countP_eq_of _ _ _ (fun ph hph => by
        cases ph with
        | retr j k => rfl
        | retr2 e => rfl
        | emit e => exact nsB_cons_ne (fun hh => hni (Or.inl ⟨e, Or.inr (Or.inr hph), hh⟩))
        | scan a b => rfl)
    simp only [SS, EBns, Ons, countP_cons', pebns, c1, c2, Bool.toNat_false] at this ⊢
    omega

theorem retrDone_parts {c : Cfg} {s2 : State} {j : Job} {newc : Nat} {d : Nat} (hg : KG s2)
    (hn : KN s2 d) (hd : d ≤ 1) (hd0 : j.master = false → d = 0)
    (hno : j.base ∉ orphanBases s2) (hni : ¬ ItemBase s2 j.base)
    (hox : j.master = false → s2.pdone = false → ∀ b i, (b, i) ∈ s2.orderQ → b < j.base) :
    KG (retrDone c s2 j newc) ∧ KN (retrDone c s2 j newc) 0 := by
  cases hmas : j.master with
  | true =>
    simp only [retrDone, hmas, if_true]
    exact doneMaster_parts
      { base := j.base, idx := 0, left := (if (rres c j.base).ok then (rres c j.base).nb else 1),
        ok := (rres c j.base).ok && (rres c j.base).fin, corrupt := j.corrupt } newc hg hn hd hno
  | false =>
    obtain ⟨f, hu⟩ := not_master_ub hmas
    have hd' := hd0 hmas
    subst hd'
    simp only [retrDone, hmas, hu, Bool.false_eq_true, if_false]
    exact doneSpec_parts
      { base := j.base, idx := 0, left := (if (rres c j.base).ok then (rres c j.base).nb else 1),
        ok := (rres c j.base).ok && (rres c j.base).fin, corrupt := j.corrupt }
      { base := j.base, f := { f with complete := true, endp := newc }, corrupt := j.corrupt }
      rfl hg hn hni (hox hmas)

theorem retrMoreJob_jnq (j : Job) (newc : Nat) : jnq (retrMoreJob j newc) = jnq j := by
  unfold retrMoreJob jnq Job.inq
  cases hu : j.ub with
  | none => simp
  | some f => cases hm : j.master <;> simp

theorem not_master_jnq {c : Cfg} {s : State} {j : Job} {k : Option Nat} (hL : LI c s)
    (hm : Phase.retr j k ∈ s.busy) (hmas : j.master = false) : jnq j = false := by
  obtain ⟨f, hu⟩ := not_master_ub hmas
  have hc : f.complete = false := by
    unfold Job.master at hmas; simpa [hu] using hmas
  have := hL.atB j k hm f hu hc
  simp [jnq, Job.inq, hu, this]

/-- the token part of `retrEnd` -/
theorem TK_retrEnd {c : Cfg} {s s' : State} {j : Job} {k : Option Nat} (h : TK s)
    (hS : SI c s) (hA : AI c s) (hpt : s.pdone = true → s.ptok = true)
    (hs : stepRetrEnd c s j k = some s') : TK s' := by
  unfold stepRetrEnd at hs; split at hs
  · next hg =>
    have hmem : Phase.retr j k ∈ s.busy := by simpa using hg
    have hmhj := hA.mh j k hmem
    have hcnt : List.countP Phase.mc (s.busy.erase (.retr j k)) + (if Job.mc j then 1 else 0)
        = List.countP Phase.mc s.busy := countP_erase_add Phase.mc hmem
    have hm1 := hS.mc1
    have hf := detach_fields { s with busy := s.busy.erase (.retr j k) } k
    have hmc1 : mcount (detach { s with busy := s.busy.erase (.retr j k) } k)
        + (if Job.mc j then 1 else 0) = mcount s := by
      rw [mcount_detach]
      show List.countP Job.mc s.retrQ + List.countP Phase.mc (s.busy.erase (.retr j k))
        + (if Job.mc j then 1 else 0) = List.countP Job.mc s.retrQ + List.countP Phase.mc s.busy
      omega
    have hho : headOffs c (detach { s with busy := s.busy.erase (.retr j k) } k) = headOffs c s := by
      show offs c _ = offs c _; rw [hf.2.2.2.2.2.2.2.2.2.2.2]
    have hsplit : ∀ j0, JIn s j0 → j0 = j ∨
        JIn (detach { s with busy := s.busy.erase (.retr j k) } k) j0 := by
      intro j0 hj0
      rcases hj0 with hq | ⟨k0, hk0⟩
      · exact Or.inr (JM_detach _ _ _ (Or.inl hq))
      · by_cases he : Phase.retr j0 k0 = Phase.retr j k
        · cases he; exact Or.inl rfl
        · exact Or.inr (JM_detach _ _ _ (Or.inr ⟨k0, mem_erase_ne hk0 he⟩))
    generalize detach { s with busy := s.busy.erase (.retr j k) } k = s1
      at hf hmc1 hs hho hsplit
    obtain ⟨g1, g2, g3, g4, g5, g6, g7, g8, g9, g10, g11, g12⟩ := hf
    have g1 : s1.ptok = s.ptok := g1
    have g2 : s1.pphase = s.pphase := g2
    have g5 : s1.pdone = s.pdone := g5
    dsimp only at hs
    have hnge := newc_ge c j k
    generalize retrNewc c j k = newc at hs hnge
    -- the shape of every case: the token is where it was, or the job that held it is still there
    have fin : ∀ t : State, t.ptok = s.ptok → t.pphase = s.pphase →
        (∀ j0, JIn s j0 → Job.mc j0 = true → HasMc t) → TK t := by
      intro t e1 e2 hk ht
      rcases h (by rw [← e1]; exact ht) with hp | ⟨j0, hj0, hmc0⟩
      · exact Or.inl (by rw [e2]; exact hp)
      · exact Or.inr (hk j0 hj0 hmc0)
    by_cases hpd : s1.pdone = true
    · rw [if_pos hpd] at hs
      simp only [Option.some.injEq] at hs; subst hs
      have hptok : s.ptok = true := hpt (by rw [← g5]; exact hpd)
      intro ht
      have ht' : s1.ptok = false := ht
      rw [g1, hptok] at ht'; cases ht'
    · rw [if_neg hpd] at hs
      by_cases hab : j.redundant = true
      · rw [if_pos hab] at hs
        simp only [Option.some.injEq] at hs; subst hs
        refine fin _ g1 g2 ?_
        intro j0 hj0 hmc
        rcases hsplit j0 hj0 with he | hin
        · subst he; rw [redundant_not_mc hab] at hmc; cases hmc
        · exact ⟨j0, hin, hmc⟩
      · rw [if_neg hab] at hs
        have hna' : j.redundant = false := by simpa using hab
        have hmaster : j.master = true → Job.mc j = true := fun hm => master_mc hm hna'
        have hnm : Job.mc j = false → j.master = false := by
          intro hh
          cases hmas : j.master with
          | false => rfl
          | true => rw [hmaster hmas] at hh; cases hh
        obtain ⟨f2, m1, m2, m3, m4⟩ := retrMove_facts c s1 j newc
        obtain ⟨_, _, _, mp⟩ := retrMove_eqs c s1 j newc
        generalize retrMove c s1 j newc = s2 at hs f2 m1 m2 m3 m4 mp
        have hkeep : ∀ j0, JIn s1 j0 → Job.mc j0 = true → JIn s2 j0 := by
          intro j0 hj0 hmc0
          cases hmcj : Job.mc j with
          | true =>
            have hz : mcount s1 = 0 := by simp only [hmcj, if_true] at hmc1; omega
            exact (no_mc_JIn hz hj0 hmc0).elim
          | false =>
            have := m2 (hnm hmcj)
            rcases hj0 with hq | ⟨k0, hk0⟩
            · exact Or.inl (by rw [this]; exact hq)
            · exact Or.inr ⟨k0, by rw [m1]; exact hk0⟩
        by_cases hfin : (!decide ((rres c j.base).e ≤ newc)) = true
        · rw [if_pos hfin] at hs
          by_cases hov : newc < headOffs c s2
          · rw [if_pos hov] at hs
            simp only [Option.some.injEq] at hs; subst hs
            have hnmc : Job.mc j = false := by
              cases hmcj : Job.mc j with
              | false => rfl
              | true => have := hmhj hmcj; omega
            refine fin _ (m3.trans g1) (mp.trans g2) ?_
            intro j0 hj0 hmc
            rcases hsplit j0 hj0 with he | hin
            · subst he; rw [hnmc] at hmc; cases hmc
            · exact ⟨j0, hkeep j0 hin hmc, hmc⟩
          · rw [if_neg hov] at hs
            simp only [Option.some.injEq] at hs; subst hs
            refine fin _ (m3.trans g1) (mp.trans g2) ?_
            intro j0 hj0 hmc
            rcases hsplit j0 hj0 with he | hin
            · subst he
              exact ⟨retrMoreJob j0 newc, Or.inl List.mem_cons_self,
                by rw [mc_retrMoreJob]; exact hmc⟩
            · rcases hkeep j0 hin hmc with hq | hk
              · exact ⟨j0, Or.inl (List.mem_cons_of_mem _ hq), hmc⟩
              · exact ⟨j0, Or.inr hk, hmc⟩
        · rw [if_neg hfin] at hs
          simp only [Option.some.injEq] at hs; subst hs
          obtain ⟨_, m6, _⟩ := retrDone_facts c s2 j newc
          cases hmas : j.master with
          | true =>
            intro ht
            simp only [retrDone, hmas, if_true] at ht
            cases ht
          | false =>
            have e1 : (retrDone c s2 j newc).ptok = s2.ptok := by
              simp only [retrDone, hmas, Bool.false_eq_true, if_false]
            have e2 : (retrDone c s2 j newc).pphase = s2.pphase := by
              simp only [retrDone, hmas, Bool.false_eq_true, if_false]
            refine fin _ (e1.trans (m3.trans g1)) (e2.trans (mp.trans g2)) ?_
            intro j0 hj0 hmc
            rcases hsplit j0 hj0 with he | hin
            · subst he
              rw [PI_mc_master hmc] at hmas; cases hmas
            · exact ⟨j0, m6 j0 (hkeep j0 hin hmc), hmc⟩
  · simp at hs

theorem KI_retrEnd {c : Cfg} {s s' : State} {j : Job} {k : Option Nat} (h : KI c s)
    (hS : SI c s) (hA : AI c s) (hL : LI c s) (hP : PI c s) (hU : UI c s)
    (hpt : s.pdone = true → s.ptok = true)
    (hs : stepRetrEnd c s j k = some s') : KI c s' := by
  have hT : TK s' := TK_retrEnd h.tk hS hA hpt hs
  unfold stepRetrEnd at hs; split at hs
  · next hg =>
    have hmem : Phase.retr j k ∈ s.busy := by simpa using hg
    have hj : jobOK c s.gnext j := hS.busy _ hmem
    have hml := hP.ml j (Or.inr ⟨k, hmem⟩)
    have hUU : UIB s ∧ UIT c s :=
      ⟨⟨hU.u1, hU.u2, hU.ib, hU.nq⟩, ⟨hU.t1, hU.tb, hU.dq, hU.db, hU.ot⟩⟩
    have hoxj := h.kg.oxj
    have hnR : ∀ e, Phase.retr j k ≠ Phase.retr2 e ∧ Phase.retr j k ≠ Phase.emit e := by
      intro e; constructor <;> (intro hh; cases hh)
    obtain ⟨b0, _⟩ := Sh_busy_erase c s (.retr j k)
    obtain ⟨bd, _⟩ := Sh_detach c { s with busy := s.busy.erase (.retr j k) } k
    obtain ⟨fb0, _⟩ := Fresh_of_busy_retr hUU hmem
    have fb1 := FreshB_frame fb0 bd
    have g1 : KG (detach { s with busy := s.busy.erase (.retr j k) } k) :=
      KG_detach _ (KG_frame h.kg (KF_busy_erase s hnR))
    have n1 : KN (detach { s with busy := s.busy.erase (.retr j k) } k) (jnq j).toNat := by
      have := KN_detach k (KN_busy_erase (KN_of_KI h) hmem hnR)
      simpa [pnq, jnq] using this
    have hf := detach_fields { s with busy := s.busy.erase (.retr j k) } k
    obtain ⟨_, _, _, _, _, hp1⟩ := detach_more { s with busy := s.busy.erase (.retr j k) } k
    have hp1 : (detach { s with busy := s.busy.erase (.retr j k) } k).ppos = s.ppos := hp1
    generalize detach { s with busy := s.busy.erase (.retr j k) } k = s1
      at hs fb1 g1 n1 hf hp1
    obtain ⟨_, _, _, _, q5, _, _, _, q9, _, q11, _⟩ := hf
    have q5 : s1.pdone = s.pdone := q5
    have q9 : s1.orphans = s.orphans := q9
    have q11 : s1.orderQ = s.orderQ := q11
    have hd1 := Bool.toNat_le (jnq j)
    dsimp only at hs
    have hnge := newc_ge c j k
    generalize retrNewc c j k = newc at hs hnge
    have exitKI : ∀ (t : State) (jx : Job), KG t → KN t (jnq j).toNat → TK (retrExit t jx) →
        KI c (retrExit t jx) := by
      intro t jx gt nt tt
      exact KI_of (KG_congr gt rfl rfl rfl rfl rfl rfl (Or.inl rfl))
        (KN_congr nt rfl rfl rfl rfl rfl rfl (by show t.wu + (jnq j).toNat ≤ t.wu + 1 + 0; omega)
          rfl rfl) tt
    by_cases hpd : s1.pdone = true
    · rw [if_pos hpd] at hs
      simp only [Option.some.injEq] at hs; subst hs
      exact exitKI s1 j g1 n1 hT
    · rw [if_neg hpd] at hs
      by_cases hab : j.redundant = true
      · rw [if_pos hab] at hs
        simp only [Option.some.injEq] at hs; subst hs
        exact exitKI s1 j g1 n1 hT
      · rw [if_neg hab] at hs
        have hna' : j.redundant = false := by simpa using hab
        obtain ⟨bm, _, _, _⟩ := Sh_retrMove (c := c) (s1 := s1) j newc (by
          intro hmas _
          have := hml (master_mc hmas hna')
          omega)
        have fb2 := FreshB_frame fb1 bm
        obtain ⟨g2, n2⟩ := retrMove_parts (c := c) j newc g1 n1
        obtain ⟨r1, r2, r3, _⟩ := retrMove_eqs c s1 j newc
        generalize retrMove c s1 j newc = s2 at hs fb2 g2 n2 r1 r2 r3
        by_cases hfin : (!decide ((rres c j.base).e ≤ newc)) = true
        · rw [if_pos hfin] at hs
          by_cases hov : newc < headOffs c s2
          · rw [if_pos hov] at hs
            simp only [Option.some.injEq] at hs; subst hs
            exact exitKI s2 _ g2 n2 hT
          · rw [if_neg hov] at hs
            simp only [Option.some.injEq] at hs; subst hs
            refine KI_of (KG_addJob _ g2 ?_) (KN_addJob _ n2 ?_) hT
            · intro hd hq b i hb
              have hq' : Job.inq j = true := by
                have := retrMoreJob_jnq j newc
                simp only [jnq, hq, Bool.not_true] at this
                simpa using this.symm
              rw [r2, q11] at hb
              exact hoxj (by rw [← q5, ← r3]; exact hd) j (Or.inr ⟨k, hmem⟩) hq' b i hb
            · rw [retrMoreJob_jnq]; exact Nat.le_refl _
        · rw [if_neg hfin] at hs
          simp only [Option.some.injEq] at hs; subst hs
          obtain ⟨g3, n3⟩ := retrDone_parts (c := c) (newc := newc) (j := j) g2 n2 hd1
            (fun hmas => by rw [not_master_jnq hL hmem hmas]; rfl)
            (fun hm => fb2.nj (List.mem_append.2 (Or.inr hm))) fb2.ni
            (fun hmas hd b i hb => by
              have hq' : Job.inq j = true := by
                have := not_master_jnq hL hmem hmas
                simpa [jnq] using this
              rw [r2, q11] at hb
              exact hoxj (by rw [← q5, ← r3]; exact hd) j (Or.inr ⟨k, hmem⟩) hq' b i hb)
          exact KI_of g3 n3 hT
  · simp at hs

/-! ### the parser's writes through unord_q -/

open Uniq

theorem flagJob_inq {p : Nat → Bool} {j : Job} (h : Job.inq (flagJob p j) = true) :
    Job.inq j = true ∧ p j.base = false := by
  unfold flagJob Job.inq at h
  unfold Job.inq
  cases hu : j.ub with
  | none => simp [hu] at h
  | some f =>
    simp only [hu, Option.map_some] at h ⊢
    by_cases hc : (f.inq && p j.base) = true
    · rw [if_pos hc] at h; simp [UF.flagBad] at h
    · rw [if_neg hc] at h
      refine ⟨h, ?_⟩
      cases hp : p j.base with
      | false => rfl
      | true => exact absurd (by simp [h, hp]) hc

theorem jnq_flagJob {p : Nat → Bool} {j : Job} (h : jnq j = true) : jnq (flagJob p j) = true := by
  unfold jnq at h ⊢
  cases hq : Job.inq (flagJob p j) with
  | false => rfl
  | true => rw [(flagJob_inq hq).1] at h; cases h

theorem pnq_flagPhase {p : Nat → Bool} {ph : Phase} (h : pnq ph = true) :
    pnq (flagPhase p ph) = true := by
  cases ph with
  | retr j k => exact jnq_flagJob (p := p) h
  | retr2 e => exact h
  | emit e => exact h
  | scan a b => exact h

theorem countP_jnq_flag (p : Nat → Bool) (l : List Job) :
    l.countP jnq ≤ (l.map (flagJob p)).countP jnq := by
  rw [List.countP_map]
  exact countP_le_of_imp _ _ _ (fun j _ hj => jnq_flagJob hj)

theorem countP_pnq_flag (p : Nat → Bool) (l : List Phase) :
    l.countP pnq ≤ (l.map (flagPhase p)).countP pnq := by
  rw [List.countP_map]
  exact countP_le_of_imp _ _ _ (fun ph _ hp => pnq_flagPhase hp)

theorem countP_pens_flag (ob : List Nat) (p : Nat → Bool) (l : List Phase) :
    (l.map (flagPhase p)).countP (pens ob) = l.countP (pens ob) := by
  rw [List.countP_map]
  exact countP_eq_of _ _ _ (fun ph _ => by cases ph <;> rfl)

theorem countP_pebns_flag (ob : List Nat) (p : Nat → Bool) (l : List Phase) :
    (l.map (flagPhase p)).countP (pebns ob) = l.countP (pebns ob) := by
  rw [List.countP_map]
  exact countP_eq_of _ _ _ (fun ph _ => by cases ph <;> rfl)

theorem jnq_good (j : Job) (_h : jnq j = true) : jnq j.good = true := by
  unfold jnq Job.inq Job.good at *
  cases hu : j.ub with
  | none => rfl
  | some f => simp [UF.flagGood]

theorem countP_replaceFirst_ge {α} (p q : α → Bool) (g : α → α) (h : ∀ x, p x = true → p (g x) = true)
    (l : List α) : l.countP p ≤ (replaceFirst q g l).countP p := by
  induction l with
  | nil => exact Nat.le_refl _
  | cons x xs ih =>
    simp only [replaceFirst]
    split
    · simp only [countP_cons']
      have := h x
      cases hp : p x with
      | false => simp
      | true => rw [this hp]; exact Nat.le_refl _
    · simp only [countP_cons']; omega

theorem countP_replaceFirst_eq {α} (p q : α → Bool) (g : α → α) (h : ∀ x, p (g x) = p x)
    (l : List α) : (replaceFirst q g l).countP p = l.countP p := by
  induction l with
  | nil => rfl
  | cons x xs ih =>
    simp only [replaceFirst]
    split
    · simp only [countP_cons', h]
    · simp only [countP_cons', ih]

/-- in a list with pairwise different keys, `replaceFirst` leaves no other element that
    satisfies the predicate -/
theorem mem_replaceFirst_nodup {α} (key : α → List Nat) (p : α → Bool) (g : α → α) (b : Nat)
    (hp : ∀ x, p x = true → b ∈ key x) : ∀ (l : List α), (l.flatMap key).Nodup →
    ∀ y ∈ replaceFirst p g l, (y ∈ l ∧ p y = false) ∨ (∃ x ∈ l, p x = true ∧ y = g x) := by
  intro l
  induction l with
  | nil => intro _ y hy; simp [replaceFirst] at hy
  | cons x xs ih =>
    intro hn y hy
    simp only [List.flatMap_cons] at hn
    simp only [replaceFirst] at hy
    split at hy
    · next hpx =>
      rcases List.mem_cons.1 hy with e | hm
      · exact Or.inr ⟨x, List.mem_cons_self, hpx, e⟩
      · left
        refine ⟨List.mem_cons_of_mem _ hm, ?_⟩
        cases hpy : p y with
        | false => rfl
        | true =>
          exact absurd rfl ((List.nodup_append.1 hn).2.2 b (hp x hpx) b
            (List.mem_flatMap.2 ⟨y, hm, hp y hpy⟩))
    · next hpx =>
      rcases List.mem_cons.1 hy with e | hm
      · subst e
        exact Or.inl ⟨List.mem_cons_self, by simpa using hpx⟩
      · rcases ih (List.nodup_append.1 hn).2.1 y hm with ⟨h1, h2⟩ | ⟨z, hz, h1, h2⟩
        · exact Or.inl ⟨List.mem_cons_of_mem _ h1, h2⟩
        · exact Or.inr ⟨z, List.mem_cons_of_mem _ hz, h1, h2⟩

theorem erase_base_ne {os : List UB} (hn : (os.flatMap UB.baseL).Nodup) {u u' : UB} (hu : u ∈ os)
    (hu' : u' ∈ os.erase u) : u'.base ≠ u.base := by
  have hp := flatMap_erase_perm UB.baseL hu
  have hn2 := (hp.nodup_iff).1 hn
  simp only [UB.baseL, List.cons_append, List.nil_append] at hn2
  intro hh
  refine (List.nodup_cons.1 hn2).1 ?_
  rw [← hh]
  exact List.mem_flatMap.2 ⟨u', hu', by simp [UB.baseL]⟩

theorem mem_popOrphans_np {p : Nat → Bool} {os : List UB} {u : UB} (hu : u ∈ popOrphans p os)
    (hq : u.f.inq = true) : u ∈ os ∧ p u.base = false := by
  simp only [popOrphans, List.mem_map, List.mem_filter] at hu
  obtain ⟨x, ⟨hx, _⟩, rfl⟩ := hu
  split at hq
  · simp [UF.flagBad] at hq
  · next hn =>
    rw [if_neg hn]
    refine ⟨hx, ?_⟩
    cases hp : p x.base with
    | false => rfl
    | true => exact absurd (by simp [hq, hp]) hn

/-! ### numeric part of `parseEnd` -/

/-- `{ s2 with retrQ/busy flagged, orphans popped }` -/
theorem KN_flag {s2 : State} {d : Nat} (p : Nat → Bool) (oq : List (Nat × Nat)) (g : Nat)
    (hn : KN s2 d) :
    KN { s2 with orderQ := oq, gnext := g, retrQ := s2.retrQ.map (flagJob p),
                 busy := s2.busy.map (flagPhase p), orphans := popOrphans p s2.orphans } d := by
  have hsub : ∀ y ∈ (popOrphans p s2.orphans).flatMap UB.baseL, y ∈ orphanBases s2 :=
    fun y hy => (popOrphans_sublist p _).subset hy
  refine ⟨?_, ?_⟩
  · have h0 := hn.r
    have h1 := RS_mono hsub s2
    have c1 := countP_jnq_flag p s2.retrQ
    have c2 := countP_pnq_flag p s2.busy
    have c3 := countP_pens_flag ((popOrphans p s2.orphans).flatMap UB.baseL) p s2.busy
    simp only [RS, Mq, Ens, pp, orphanBases] at h0 h1 ⊢
    omega
  · have h0 := hn.sl
    have h1 := SS_mono hsub s2
    have c3 := countP_pebns_flag ((popOrphans p s2.orphans).flatMap UB.baseL) p s2.busy
    simp only [SS, EBns, Ons, orphanBases] at h0 h1 ⊢
    omega

theorem KN_parsePush {c : Cfg} {s1 : State} {d : Nat} (b : Nat) (hn : KN s1 d) :
    KN (parsePush c s1 b) d :=
  KN_flag (fun x => decide (x < b)) _ _ (KN_advance c b hn)

theorem KN_parseFinish {s1 : State} (u : Nat) (hn : KN s1 1) : KN (parseFinish s1 u) 0 := by
  have hsub : ∀ y ∈ (popOrphans (fun _ => true) s1.orphans).flatMap UB.baseL, y ∈ orphanBases s1 :=
    fun y hy => (popOrphans_sublist _ _).subset hy
  refine ⟨?_, ?_⟩
  · have h0 := hn.r
    have h1 := RS_mono hsub s1
    have c0 := List.countP_le_length (p := jnq) (l := s1.retrQ)
    have c2 := countP_pnq_flag (fun _ => true) s1.busy
    have c3 := countP_pens_flag ((popOrphans (fun _ => true) s1.orphans).flatMap UB.baseL)
      (fun _ => true) s1.busy
    simp only [RS, Mq, Ens, pp, orphanBases, parseFinish, List.countP_nil] at h0 h1 ⊢
    omega
  · have h0 := hn.sl
    have h1 := SS_mono hsub s1
    have c3 := countP_pebns_flag ((popOrphans (fun _ => true) s1.orphans).flatMap UB.baseL)
      (fun _ => true) s1.busy
    simp only [SS, EBns, Ons, orphanBases, parseFinish] at h0 h1 ⊢
    omega

theorem KN_wu1 {s : State} (h : KN s 1) : KN { s with wu := s.wu + 1 } 0 :=
  KN_congr h rfl rfl rfl rfl rfl rfl (Nat.le_refl _) rfl rfl

theorem KN_parseMatch {c : Cfg} {s3 : State} (b : Nat) (hn : KN s3 1)
    (huc : ∀ u ∈ s3.orphans, u.f.complete = true) : KN (parseMatch c s3 b) 0 := by
  unfold parseMatch
  split
  · next j hj =>
    have hR : KN { s3 with retrQ := replaceFirst (Job.inqAt b) Job.good s3.retrQ } 1 := by
      refine ⟨?_, hn.sl⟩
      have h0 := hn.r
      have c1 := countP_replaceFirst_ge jnq (Job.inqAt b) Job.good jnq_good s3.retrQ
      simp only [RS, Mq, Ens, pp, orphanBases] at h0 ⊢
      omega
    exact KN_wu1 (KN_advance c j.endp hR)
  · split
    · next ph hph =>
      have hB : KN { s3 with busy := replaceFirst (Phase.inqAt b) Phase.good s3.busy } 1 := by
        have c1 := countP_replaceFirst_ge pnq (Phase.inqAt b) Phase.good (by
          intro x hx
          cases x with
          | retr j k => exact jnq_good j hx
          | retr2 e => exact hx
          | emit e => exact hx
          | scan a b => exact hx) s3.busy
        have c2 := countP_replaceFirst_eq (pens (orphanBases s3)) (Phase.inqAt b) Phase.good
          (by intro x; cases x <;> rfl) s3.busy
        have c3 := countP_replaceFirst_eq (pebns (orphanBases s3)) (Phase.inqAt b) Phase.good
          (by intro x; cases x <;> rfl) s3.busy
        refine ⟨?_, ?_⟩
        · have h0 := hn.r
          simp only [RS, Mq, Ens, pp, orphanBases] at h0 c2 ⊢
          omega
        · have h0 := hn.sl
          simp only [SS, EBns, Ons, orphanBases] at h0 c3 ⊢
          omega
      exact KN_wu1 (KN_advance c ph.endp hB)
    · split
      · next u hu =>
        have hum := List.mem_of_find?_eq_some hu
        rw [if_pos (huc u hum)]
        have hA := KN_advance c u.f.endp hn
        have hsub : ∀ y ∈ ((advance c s3 u.f.endp).orphans.erase u).flatMap UB.baseL,
            y ∈ orphanBases (advance c s3 u.f.endp) :=
          fun y hy => (flatMap_sublist UB.baseL List.erase_sublist).subset hy
        refine ⟨?_, ?_⟩
        · have h0 := hA.r
          have h1 := RS_mono hsub (advance c s3 u.f.endp)
          simp only [RS, Mq, Ens, pp, orphanBases] at h0 h1 ⊢
          omega
        · have h0 := hA.sl
          have h1 := SS_mono hsub (advance c s3 u.f.endp)
          simp only [SS, EBns, Ons, orphanBases] at h0 h1 ⊢
          omega
      · exact KN_addJob _ hn (by simp [jnq, Job.inq])

/-! ### positions and ownership in `parseEnd` -/

theorem JIn_flag {s' s2 : State} {p : Nat → Bool} (e7 : s'.retrQ = s2.retrQ.map (flagJob p))
    (e6 : s'.busy = s2.busy.map (flagPhase p)) :
    ∀ j, JIn s' j → ∃ j0, JIn s2 j0 ∧ j = flagJob p j0 := by
  rintro j (hj | ⟨k, hk⟩)
  · rw [e7] at hj
    obtain ⟨j0, h0, rfl⟩ := List.mem_map.1 hj
    exact ⟨j0, Or.inl h0, rfl⟩
  · rw [e6] at hk
    rcases mem_map_flagPhase hk with ⟨j0, k0, h0, e⟩ | ⟨_, hn⟩
    · injection e with e1 e2
      subst e2
      exact ⟨j0, Or.inr ⟨k, h0⟩, e1⟩
    · exact absurd rfl (hn j k)

theorem ItemBase_flag {s' s2 : State} {p : Nat → Bool} (e5 : s'.emitQ = s2.emitQ)
    (e6 : s'.busy = s2.busy.map (flagPhase p)) (e4 : s'.reordQ = s2.reordQ) :
    ∀ y, ItemBase s2 y → ItemBase s' y := by
  rintro y (⟨e, he, rfl⟩ | ⟨o, ho, rfl⟩)
  · exact Or.inl ⟨e, EIn_flag he s' e5 e6, rfl⟩
  · exact Or.inr ⟨o, e4 ▸ ho, rfl⟩

theorem KG_parseFinish {s1 : State} (u : Nat) (hg : KG s1) : KG (parseFinish s1 u) := by
  refine KG_frame hg ⟨?_, ?_, ?_, fun _ i h => ⟨i, h⟩, fun hd => Bool.noConfusion hd⟩
  · intro y hy; exact (popOrphans_sublist (fun _ => true) s1.orphans).subset hy
  · intro y _ hi
    exact ItemBase_flag (s' := parseFinish s1 u) (s2 := s1) (p := fun _ => true) rfl rfl rfl y hi
  · intro j' hj' hq
    have hj2 : ∃ j0, JIn s1 j0 ∧ j' = flagJob (fun _ => true) j0 := by
      rcases hj' with hj | ⟨k, hk⟩
      · cases hj
      · rcases mem_map_flagPhase hk with ⟨j0, k0, h0, e⟩ | ⟨_, hn⟩
        · injection e with e1 e2
          subst e2
          exact ⟨j0, Or.inr ⟨k, h0⟩, e1⟩
        · exact absurd rfl (hn j' k)
    obtain ⟨j0, h0, rfl⟩ := hj2
    exact ⟨j0, h0, (flagJob_inq hq).1, rfl⟩

/-- what is known between `push(order_q)` and the take-over / creation of the master job -/
structure P3 (s3 : State) (b : Nat) : Prop where
  g  : ∀ u ∈ s3.orphans, ItemBase s3 u.base
  ob : ∀ u ∈ s3.orphans, b ≤ u.base
  jb : ∀ j, JIn s3 j → Job.inq j = true → b ≤ j.base
  oq : ∀ b' i, (b', i) ∈ s3.orderQ → b' ≤ b
  nd : (jobBases s3 ++ orphanBases s3).Nodup
  uc : ∀ u ∈ s3.orphans, u.f.inq = true ∧ u.f.complete = true

theorem P3_parsePush {c : Cfg} {s1 : State} {b : Nat} (hg : KG s1) (hL3 : Leak.LC (parsePush c s1 b))
    (hop : ∀ b' i, (b', i) ∈ s1.orderQ → b' ≤ s1.ppos) (hlt : s1.ppos < b)
    (hnd : (jobBases (parsePush c s1 b) ++ orphanBases (parsePush c s1 b)).Nodup) :
    P3 (parsePush c s1 b) b := by
  have hmem : ∀ u ∈ (parsePush c s1 b).orphans, u ∈ s1.orphans ∧ ¬ u.base < b := by
    intro u hu
    have hu' : u ∈ popOrphans (fun x => decide (x < b)) s1.orphans := hu
    obtain ⟨h1, h2⟩ := mem_popOrphans_np hu' (hL3.oc u hu).1
    exact ⟨h1, by simpa using h2⟩
  refine ⟨?_, ?_, ?_, ?_, hnd, fun u hu => hL3.oc u hu⟩
  · intro u hu
    have hi := hg.g u (hmem u hu).1
    exact ItemBase_flag (s' := parsePush c s1 b) (s2 := advance c s1 b)
      (p := fun x => decide (x < b)) rfl rfl rfl _ hi
  · intro u hu; have := (hmem u hu).2; omega
  · intro j hj hq
    obtain ⟨j0, _, rfl⟩ := JIn_flag (s' := parsePush c s1 b) (s2 := advance c s1 b)
      (p := fun x => decide (x < b)) rfl rfl j hj
    have := (flagJob_inq hq).2
    have h2 : ¬ j0.base < b := by simpa using this
    show b ≤ j0.base
    omega
  · intro b' i hi
    have hi' : (b', i) ∈ s1.orderQ ++ [(b, 0)] := hi
    rcases List.mem_append.1 hi' with hi' | hi'
    · have := hop b' i hi'; omega
    · simp only [List.mem_singleton, Prod.mk.injEq] at hi'; omega

/-- the result of `parseMatch`: the entry at exactly `b` is gone -/
theorem KG_of_P3 {s3 s' : State} {b : Nat} (h3 : P3 s3 b)
    (hA : ∀ u' ∈ s'.orphans, (∃ u ∈ s3.orphans, u.base = u'.base) ∧ u'.base ≠ b)
    (hB : ∀ y, ItemBase s3 y → ItemBase s' y)
    (hC : ∀ j', JIn s' j' → Job.inq j' = true →
      (∃ j, JIn s3 j ∧ Job.inq j = true ∧ j.base = j'.base) ∧ j'.base ≠ b)
    (hD : s'.orderQ = s3.orderQ) : KG s' := by
  refine ⟨?_, ?_, ?_⟩
  · intro u' hu'
    obtain ⟨⟨u, hu, hb⟩, _⟩ := hA u' hu'
    exact hB _ (hb ▸ h3.g u hu)
  · intro _ u' hu' b' i hi
    obtain ⟨⟨u, hu, hb⟩, hne⟩ := hA u' hu'
    rw [hD] at hi
    have := h3.oq b' i hi
    have := h3.ob u hu
    omega
  · intro _ j' hj' hq b' i hi
    obtain ⟨⟨j, hj, hq0, hb⟩, hne⟩ := hC j' hj' hq
    rw [hD] at hi
    have := h3.oq b' i hi
    have := h3.jb j hj hq0
    omega

theorem inqAt_false_ne {b : Nat} {j : Job} (h : Job.inqAt b j = false) (hq : Job.inq j = true) :
    j.base ≠ b := by
  unfold Job.inqAt at h; unfold Job.inq at hq
  cases hu : j.ub with
  | none => simp [hu] at hq
  | some f =>
    simp only [hu] at h hq
    simp only [hq, Bool.true_and, beq_eq_false_iff_ne, ne_eq] at h
    exact h

theorem good_not_inq (j : Job) : Job.inq j.good = false := by
  unfold Job.inq Job.good
  cases hu : j.ub with
  | none => rfl
  | some f => simp [UF.flagGood]

theorem KG_parseMatch {c : Cfg} {s3 : State} {b : Nat} (h3 : P3 s3 b) :
    KG (parseMatch c s3 b) := by
  have hndJ : (jobBases s3).Nodup := (List.nodup_append.1 h3.nd).1
  have hndO : (orphanBases s3).Nodup := (List.nodup_append.1 h3.nd).2.1
  have hdisj : ∀ y, y ∈ jobBases s3 → y ∈ orphanBases s3 → False :=
    fun y h1 h2 => (List.nodup_append.1 h3.nd).2.2 y h1 y h2 rfl
  have hndQ : (s3.retrQ.flatMap Job.baseL).Nodup := (List.nodup_append.1 hndJ).1
  have hndB : (s3.busy.flatMap Phase.jobBase).Nodup := (List.nodup_append.1 hndJ).2.1
  have hQB : ∀ y, y ∈ s3.retrQ.flatMap Job.baseL → y ∈ s3.busy.flatMap Phase.jobBase → False :=
    fun y h1 h2 => (List.nodup_append.1 hndJ).2.2 y h1 y h2 rfl
  -- an orphan that is not at `b`, given that a job sits at `b`
  have orphA : ∀ j0, JIn s3 j0 → j0.base = b →
      ∀ u' ∈ s3.orphans, (∃ u ∈ s3.orphans, u.base = u'.base) ∧ u'.base ≠ b := by
    intro j0 hj0 hb0 u' hu'
    refine ⟨⟨u', hu', rfl⟩, ?_⟩
    intro hh
    exact hdisj b (mem_jobBases.2 ⟨j0, hj0, hb0⟩) (mem_orphanBases.2 ⟨u', hu', hh⟩)
  unfold parseMatch
  split
  · -- the scanner-found block's job is waiting in retr_q
    next j hj =>
    have hjm := List.mem_of_find?_eq_some hj
    have hjq := List.find?_some hj
    have hjb := PI_inqAt_base hjq
    refine KG_of_P3 h3 (orphA j (Or.inl hjm) hjb) (fun _ h => h) ?_ rfl
    rintro j' (hq' | ⟨k', hk'⟩) hi
    · have hq2 : j' ∈ replaceFirst (Job.inqAt b) Job.good s3.retrQ := (List.mem_filter.1 hq').1
      rcases mem_replaceFirst_nodup Job.baseL (Job.inqAt b) Job.good b
          (by intro x hx; simp [Job.baseL, PI_inqAt_base hx]) s3.retrQ hndQ j' hq2
        with ⟨h1, h2⟩ | ⟨x, _, _, rfl⟩
      · exact ⟨⟨j', Or.inl h1, hi, rfl⟩, inqAt_false_ne h2 hi⟩
      · rw [good_not_inq] at hi; cases hi
    · refine ⟨⟨j', Or.inr ⟨k', hk'⟩, hi, rfl⟩, ?_⟩
      intro hh
      exact hQB b (List.mem_flatMap.2 ⟨j, hjm, by simp [Job.baseL, hjb]⟩)
        (List.mem_flatMap.2 ⟨_, hk', by simp [Phase.jobBase, Job.baseL, hh]⟩)
  · next hqn =>
    have hQn : ∀ j' ∈ s3.retrQ, Job.inqAt b j' = false := by
      intro j' hj'
      have := List.find?_eq_none.1 hqn j' hj'
      simpa using this
    split
    · -- … is running
      next ph hph =>
      have hpm := List.mem_of_find?_eq_some hph
      have hpq := List.find?_some hph
      have hpb : ∀ x, Phase.inqAt b x = true → b ∈ Phase.jobBase x := by
        intro x hx
        cases x with
        | retr j0 k0 => simp [Phase.jobBase, Job.baseL, PI_inqAt_base (j := j0) hx]
        | retr2 e => simp [Phase.inqAt] at hx
        | emit e => simp [Phase.inqAt] at hx
        | scan a b => simp [Phase.inqAt] at hx
      have hphj : ∃ j0 k0, ph = .retr j0 k0 ∧ j0.base = b := by
        cases ph with
        | retr j0 k0 => exact ⟨j0, k0, rfl, PI_inqAt_base (j := j0) hpq⟩
        | retr2 e => simp [Phase.inqAt] at hpq
        | emit e => simp [Phase.inqAt] at hpq
        | scan a b => simp [Phase.inqAt] at hpq
      obtain ⟨j0, k0, rfl, hb0⟩ := hphj
      refine KG_of_P3 h3 (orphA j0 (Or.inr ⟨k0, hpm⟩) hb0) ?_ ?_ rfl
      · rintro y (⟨e, he | he | he, rfl⟩ | ⟨o, ho, rfl⟩)
        · exact Or.inl ⟨e, Or.inl he, rfl⟩
        · exact Or.inl ⟨e, Or.inr (Or.inl (replaceFirst_mem_keep _ _ he rfl)), rfl⟩
        · exact Or.inl ⟨e, Or.inr (Or.inr (replaceFirst_mem_keep _ _ he rfl)), rfl⟩
        · exact Or.inr ⟨o, ho, rfl⟩
      · rintro j' (hq' | ⟨k', hk'⟩) hi
        · have hq2 : j' ∈ s3.retrQ := (List.mem_filter.1 hq').1
          exact ⟨⟨j', Or.inl hq2, hi, rfl⟩, inqAt_false_ne (hQn j' hq2) hi⟩
        · have hk2 : Phase.retr j' k' ∈ replaceFirst (Phase.inqAt b) Phase.good s3.busy := hk'
          rcases mem_replaceFirst_nodup Phase.jobBase (Phase.inqAt b) Phase.good b hpb s3.busy hndB
              _ hk2 with ⟨h1, h2⟩ | ⟨x, _, hx, e⟩
          · exact ⟨⟨j', Or.inr ⟨k', h1⟩, hi, rfl⟩, inqAt_false_ne (j := j') h2 hi⟩
          · cases x with
            | retr jx kx =>
              injection e with e1 e2
              rw [e1, good_not_inq] at hi; cases hi
            | retr2 e' => simp [Phase.inqAt] at hx
            | emit e' => simp [Phase.inqAt] at hx
            | scan a b => simp [Phase.inqAt] at hx
    · next hbn =>
      have hBn : ∀ j' k', Phase.retr j' k' ∈ s3.busy → Job.inqAt b j' = false := by
        intro j' k' hk'
        have := List.find?_eq_none.1 hbn _ hk'
        simpa [Phase.inqAt] using this
      have hJn : ∀ j', JIn s3 j' → Job.inq j' = true → j'.base ≠ b := by
        rintro j' (hq' | ⟨k', hk'⟩) hi
        · exact inqAt_false_ne (hQn j' hq') hi
        · exact inqAt_false_ne (hBn j' k' hk') hi
      split
      · -- … has finished: the entry is a complete orphan
        next u hu =>
        have hum := List.mem_of_find?_eq_some hu
        have huq := List.find?_some hu
        simp only [Bool.and_eq_true, beq_iff_eq] at huq
        rw [if_pos (h3.uc u hum).2]
        refine KG_of_P3 h3 ?_ (fun _ h => h) ?_ rfl
        · intro u' hu'
          have hu2 : u' ∈ s3.orphans.erase u := hu'
          refine ⟨⟨u', List.mem_of_mem_erase hu2, rfl⟩, ?_⟩
          have := erase_base_ne hndO hum hu2
          rw [huq.2] at this; exact this
        · rintro j' (hq' | ⟨k', hk'⟩) hi
          · have hq2 : j' ∈ s3.retrQ := (List.mem_filter.1 hq').1
            exact ⟨⟨j', Or.inl hq2, hi, rfl⟩, hJn j' (Or.inl hq2) hi⟩
          · exact ⟨⟨j', Or.inr ⟨k', hk'⟩, hi, rfl⟩, hJn j' (Or.inr ⟨k', hk'⟩) hi⟩
      · -- nobody found it: the parser creates the master job
        next hon =>
        refine KG_of_P3 h3 ?_ ?_ ?_ rfl
        · intro u' hu'
          refine ⟨⟨u', hu', rfl⟩, ?_⟩
          intro hh
          have := List.find?_eq_none.1 hon u' hu'
          exact this (by simp [(h3.uc u' hu').1, hh])
        · rintro y (⟨e, he, rfl⟩ | ⟨o, ho, rfl⟩)
          · exact Or.inl ⟨e, he, rfl⟩
          · exact Or.inr ⟨o, ho, rfl⟩
        · intro j' hj' hi
          rcases JIn_addJob _ j' hj' with rfl | hj'
          · simp [Job.inq] at hi
          · exact ⟨⟨j', hj', hi, rfl⟩, hJn j' hj' hi⟩

/-! ### the token in `parseEnd` -/

theorem TK_parseMatch {c : Cfg} {s3 : State} {b : Nat} (hA : AI c s3) (hhb : headOffs c s3 ≤ b)
    (huc : ∀ u ∈ s3.orphans, u.f.complete = true) : TK (parseMatch c s3 b) := by
  intro ht
  right
  revert ht
  unfold parseMatch
  split
  · next j hj =>
    intro _
    have hjm := List.mem_of_find?_eq_some hj
    have hjq := List.find?_some hj
    have hend := inqAt_endp hjq (hA.ecQ j hjm)
    obtain ⟨g1, _, g3⟩ := good_of_inqAt hjq
    have hle := headOffs_advance_le c
      { s3 with retrQ := replaceFirst (Job.inqAt b) Job.good s3.retrQ } j.endp
    refine ⟨j.good, Or.inl ?_, g1⟩
    show j.good ∈ (advance c { s3 with retrQ := replaceFirst (Job.inqAt b) Job.good s3.retrQ }
      j.endp).retrQ
    simp only [advance]
    refine List.mem_filter.2 ⟨replaceFirst_mem_find _ _ hj, ?_⟩
    have hle' : offs c (newHead c { s3 with retrQ := replaceFirst (Job.inqAt b) Job.good s3.retrQ }
        j.endp) ≤ max (headOffs c s3) j.endp := hle
    simp only [Bool.not_eq_true', decide_eq_false_iff_not, Nat.not_lt]
    rw [g3]
    omega
  · split
    · next ph hph =>
      intro _
      have hpq := List.find?_some hph
      cases ph with
      | retr j0 k0 =>
        obtain ⟨g1, _, _⟩ := good_of_inqAt (j := j0) hpq
        exact ⟨j0.good, Or.inr ⟨k0, replaceFirst_mem_find (Phase.inqAt b) Phase.good hph⟩, g1⟩
      | retr2 e => simp [Phase.inqAt] at hpq
      | emit e => simp [Phase.inqAt] at hpq
      | scan a b => simp [Phase.inqAt] at hpq
    · split
      · next u hu =>
        have hum := List.mem_of_find?_eq_some hu
        rw [if_pos (huc u hum)]
        intro ht; cases ht
      · intro _
        exact ⟨{ curr := b, base := b, ub := none, corrupt := false }, Or.inl List.mem_cons_self, rfl⟩

/-! ### parseEnd -/

theorem KI_parseVerdict {c : Cfg} {s1 : State} (g1 : KG s1) (n1 : KN s1 1)
    (h1 : UIB s1 ∧ UIT c s1) (hPI : PI c s1) (hA : AI c s1) (hLC : Leak.LC s1) (hPP : PPre c s1)
    (hf' : (parseVerdict c s1 (pres c s1.gnext)).failed = false) :
    KI c (parseVerdict c s1 (pres c s1.gnext)) := by
  cases hu : pres c s1.gnext with
  | err u => rw [hu] at hf'; cases hf'
  | finish u ok =>
    cases ok with
    | false => rw [hu] at hf'; cases hf'
    | true =>
      show KI c (parseFinish s1 u)
      exact KI_of (KG_parseFinish u g1) (KN_parseFinish u n1) (fun ht => by cases ht)
  | hdr b =>
    have hlt : s1.ppos < b := hPI.pb hPP.pd b hu
    obtain ⟨p1, _, _⟩ := UU_parsePush (c := c) (b := b) h1 hlt hPP.pd
    obtain ⟨a1, a2, _⟩ := AI_parsePush hA hPP hu
    have l3 := Leak.LC_parsePush (c := c) b hLC
    have h3 : P3 (parsePush c s1 b) b := P3_parsePush g1 l3 (hPI.op hPP.pd) hlt p1.1.u1
    have huc : ∀ u ∈ (parsePush c s1 b).orphans, u.f.complete = true :=
      fun u hu => (l3.oc u hu).2
    show KI c (parseMatch c (parsePush c s1 b) b)
    exact KI_of (KG_parseMatch h3) (KN_parseMatch b (KN_parsePush b n1) huc)
      (TK_parseMatch a1 a2 huc)

theorem KI_parseEnd {c : Cfg} {s s' : State} (h : KI c s) (hS : SI c s) (hA : AI c s)
    (hP : PI c s) (hL : LI c s) (hU : UI c s) (hf : s.failed = false)
    (hs : stepParseEnd c s = some s') (hf' : s'.failed = false) : KI c s' := by
  unfold stepParseEnd at hs
  split at hs
  · simp at hs
  · next k hk =>
    obtain ⟨hPP, hg1, hpo⟩ := PPre_of_parsing hS hf hk
    have hUU : UIB s ∧ UIT c s :=
      ⟨⟨hU.u1, hU.u2, hU.ib, hU.nq⟩, ⟨hU.t1, hU.tb, hU.dq, hU.db, hU.ot⟩⟩
    have h0 : UIB { s with pphase := none } ∧ UIT c { s with pphase := none } :=
      UU_frame hUU (ShB_same rfl rfl rfl rfl rfl rfl (Or.inl rfl)) (ShT_same rfl rfl (Nat.le_refl _))
    have hP0 : PI c { s with pphase := none } :=
      ⟨(fun k hk => by cases hk), hP.pb, hP.ml, hP.mb, hP.op⟩
    have hA0 : AI c { s with pphase := none } := by
      obtain ⟨a1, a2, a3, a4, a5, a6, a7, a8⟩ := hA
      exact ⟨a1, a2, (fun k hk => by cases hk), a4, a5, a6, a7, a8⟩
    have hL0 : Leak.LC { s with pphase := none } := by
      have l := (Leak.LJ_of_LI hL).lc
      exact ⟨l.oc, l.atQ, l.atB⟩
    obtain ⟨bd, td⟩ := Sh_detach c { s with pphase := none } k
    have h1 := UU_frame h0 bd td
    have hP1 : PI c (detach { s with pphase := none } k) := PI_detach k hP0
    have hA1 : AI c (detach { s with pphase := none } k) := AI_detach k hA0
    have hL1 : Leak.LC (detach { s with pphase := none } k) := Leak.LC_detach k hL0
    have g1 : KG (detach { s with pphase := none } k) :=
      KG_detach k (KG_congr h.kg rfl rfl rfl rfl rfl rfl (Or.inl rfl))
    have n0 : KN { s with pphase := none } 1 := by
      refine ⟨?_, h.sl⟩
      have := h.r
      simp only [RS, Mq, Ens, pp, orphanBases, hk, Option.isSome_some, Option.isSome_none,
        Bool.toNat_true, Bool.toNat_false] at this ⊢
      omega
    have n1 : KN (detach { s with pphase := none } k) 1 := KN_detach k n0
    have key : pres c s.porig = pres c (detach { s with pphase := none } k).gnext := by
      rw [hg1, hpo]
    dsimp only at hs
    rw [key] at hs
    generalize detach { s with pphase := none } k = s1 at hs hPP h1 hP1 hA1 hL1 g1 n1
    split at hs
    · simp only [Option.some.injEq] at hs; subst hs
      exact KI_of
        (KG_congr (KG_frame g1 (KF_advance c s1 (offs c (k.getD 0 + 1)))) rfl rfl rfl rfl rfl rfl
          (Or.inl rfl))
        (KN_congr (KN_advance c (offs c (k.getD 0 + 1)) n1) rfl rfl rfl rfl rfl rfl
          (Nat.le_refl _) rfl rfl)
        (fun ht => by cases ht)
    · simp only [Option.some.injEq] at hs; subst hs
      exact KI_parseVerdict g1 n1 h1 hP1 hA1 hL1 hPP hf'

/-! ### all steps -/

theorem ki_step {c : Cfg} (hW : 0 < c.W) {s s' : State} {l : Label} (hr : Reach c s)
    (h : KI c s) (hs : step c s l = some s') (hf' : s'.failed = false) : KI c s' := by
  have hf : s.failed = false := Leak.step_nf hs
  obtain ⟨hS, hA⟩ := PI_step_pre hr hs
  have hP := pi_reach_all hr
  have hL := li_reach hr hf
  have hU := ui_reach hW hr
  have hH := hi_reach hr hf
  unfold step at hs
  split at hs
  · simp at hs
  · cases l with
    | rTake => exact KI_rTake h hs
    | rQuit => exact KI_rQuit h hs
    | rBlock => exact KI_rBlock h hs
    | rEmpty => exact KI_rEmpty h hs
    | rEof => exact KI_rEof h hs
    | wDone => exact KI_wDone h hs
    | reorder ob => exact KI_reorder h hL hs hf'
    | parseStart => exact KI_parseStart h hs
    | parseEnd => exact KI_parseEnd h hS hA hP hL hU hf hs hf'
    | retrStart j => exact KI_retrStart h hs
    | retrEnd j k => exact KI_retrEnd h hS hA hL hP hU hH.h0.pt hs
    | retrPost e => exact KI_retrPost h hs
    | emitStart e => exact KI_emitStart h hL hs
    | emitEnd e => exact KI_emitEnd h hs
    | scanStart sp => exact KI_scanStart h hS hs
    | scanEnd st k => exact KI_scanEnd h hP hs

/-- `KI` holds in every reachable state in which `failf` has not been called -/
theorem ki_reach {c : Cfg} (hW : 0 < c.W) (hn : 1 ≤ c.n) (ho : EMIT_THRESH < c.totalOut)
    {s : State} (h : Reach c s) (hf : s.failed = false) : KI c s := by
  induction h with
  | init => exact KI_init hn ho
  | @step s s' l hr hs ih => exact ki_step hW hr (ih (Leak.step_nf hs)) hs hf

end UCap

/-! ### the theorem -/

/-- **capacity of `unord_q`**: in every reachable state in which `failf` has not been
    called, `unord_q` holds at most `num_worker + total_out_slots - UNORD_THRESH` entries,
    the capacity `init()` gives it
    (`pqueue_init(unord_q, work_units + out_slots > UNORD_THRESH ? … - UNORD_THRESH : 0)`).
    Needs `total_out_slots > EMIT_THRESH` (with fewer slots the bound is exceeded). -/
theorem unord_cap {c : Cfg} (hW : 0 < c.W) (hn : 1 ≤ c.n) (ho : EMIT_THRESH < c.totalOut)
    {s : State} (h : Reach c s) (hf : s.failed = false) : unordSize s ≤ unordCapOf c :=
  UCap.unord_cap_of_KI hn ho (UCap.ki_reach hW hn ho h hf) (ci_reach h hf) (li_reach h hf)
    (orphan_bases_nodup hW h)

/-- the three ingredients, for reachable states: one work unit and two output
    slots are never held by speculative jobs / buffers -/
theorem unord_reserve {c : Cfg} (hW : 0 < c.W) (hn : 1 ≤ c.n) (ho : EMIT_THRESH < c.totalOut)
    {s : State} (h : Reach c s) (hf : s.failed = false) :
    1 ≤ UCap.RS (orphanBases s) s ∧ 2 ≤ UCap.SS (orphanBases s) s :=
  ⟨(UCap.ki_reach hW hn ho h hf).r, (UCap.ki_reach hW hn ho h hf).sl⟩

end LbzVerif.Lemmas.SchedD
