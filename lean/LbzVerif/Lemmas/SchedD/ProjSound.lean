/-
  Soundness of the counter / queue-size projection rules (`Proj.lean`) for the
  SchedD model, part 1: list lemmas, the effect of `advance()` on the
  projection (`Adv`), the rule alternatives of `tailOk` as Prop-level lemmas,
  and the named sub-functions of `do_parse`.
  Part 2 (`ProjSound2.lean`): the transitions, `proj_sound`, `select_selectable`.
-/
import LbzVerif.Lemmas.SchedD.ProgressFinal
import LbzVerif.Lemmas.SchedD.Proj

namespace LbzVerif.Lemmas.SchedD
open LbzVerif.Model.SchedD LbzVerif.Gen

namespace ProjSound

/-! ### lists -/

theorem countP_filter_le {α} (p a : α → Bool) (l : List α) :
    (l.filter a).countP p ≤ l.countP p :=
  List.Sublist.countP_le List.filter_sublist

/-- what a filter throws away carries at most one counted element each -/
theorem countP_filter_drop {α} (p a : α → Bool) (l : List α) :
    l.countP p ≤ (l.filter (fun x => !a x)).countP p + (l.filter a).length := by
  induction l with
  | nil => simp
  | cons x xs ih =>
    cases ha : a x <;> cases hp : p x <;> simp [ha, hp] <;> omega

theorem countP_map_le {α} (p : α → Bool) (g : α → α) (hg : ∀ x, p (g x) = true → p x = true)
    (l : List α) : (l.map g).countP p ≤ l.countP p := by
  induction l with
  | nil => simp
  | cons x xs ih =>
    simp only [List.map_cons, List.countP_cons]
    have := hg x
    cases h1 : p (g x) <;> cases h2 : p x <;> simp_all <;> omega

theorem countP_map_zero {α} (p : α → Bool) (g : α → α) (hg : ∀ x, p (g x) = false)
    (l : List α) : (l.map g).countP p = 0 := by
  induction l with
  | nil => simp
  | cons x xs ih => simp [ih, hg x]

/-- `replaceFirst` on a list that has a matching element: the first match is
    counted before and not after -/
theorem countP_replaceFirst {α} (p q : α → Bool) (g : α → α)
    (h1 : ∀ x, q x = true → p x = true) (h2 : ∀ x, q x = true → p (g x) = false)
    (l : List α) (hm : ∃ x ∈ l, q x = true) :
    (replaceFirst q g l).countP p + 1 = l.countP p := by
  induction l with
  | nil => obtain ⟨x, hx, _⟩ := hm; cases hx
  | cons a as ih =>
    simp only [replaceFirst]
    split
    · next hq =>
      simp only [List.countP_cons, h1 a hq, h2 a hq]
      simp
    · next hq =>
      have hm' : ∃ x ∈ as, q x = true := by
        obtain ⟨x, hx, hqx⟩ := hm
        rcases List.mem_cons.1 hx with e | e
        · subst e; exact absurd hqx hq
        · exact ⟨x, e, hqx⟩
      have := ih hm'
      simp only [List.countP_cons]
      omega

theorem find_some_ex {α} {q : α → Bool} {l : List α} {a : α} (h : l.find? q = some a) :
    ∃ x ∈ l, q x = true :=
  ⟨a, List.mem_of_find?_eq_some h, List.find?_some h⟩

/-! ### the counted predicates under the parser's writes -/

theorem inq_flagJob (p : Nat → Bool) (j : Job) : (flagJob p j).inq = true → j.inq = true := by
  unfold flagJob Job.inq
  cases hu : j.ub with
  | none => simp
  | some f =>
    simp only [Option.map_some]
    split
    · simp [UF.flagBad]
    · exact id

theorem inq_flagPhase (p : Nat → Bool) (ph : Phase) :
    (flagPhase p ph).inq = true → ph.inq = true := by
  cases ph with
  | retr j k => exact inq_flagJob p j
  | retr2 e => exact id
  | emit e => exact id
  | scan a b => exact id

theorem inq_flagJob_all (j : Job) : (flagJob (fun _ => true) j).inq = false := by
  unfold flagJob Job.inq
  cases hu : j.ub with
  | none => simp
  | some f =>
    simp only [Option.map_some, Bool.and_true]
    cases hi : f.inq <;> simp [UF.flagBad, hi]

theorem inq_flagPhase_all (ph : Phase) : (flagPhase (fun _ => true) ph).inq = false := by
  cases ph with
  | retr j k => exact inq_flagJob_all j
  | retr2 e => rfl
  | emit e => rfl
  | scan a b => rfl

theorem countP_popOrphans_le (p : Nat → Bool) (os : List UB) :
    (popOrphans p os).countP (·.f.inq) ≤ os.countP (·.f.inq) := by
  unfold popOrphans
  refine Nat.le_trans (countP_map_le _ _ ?_ _) (countP_filter_le _ _ _)
  intro u
  by_cases hc : (u.f.inq && p u.base) = true
  · simp [hc, UF.flagBad]
  · simp [hc]

theorem countP_popOrphans_all (os : List UB) :
    (popOrphans (fun _ => true) os).countP (·.f.inq) = 0 := by
  unfold popOrphans
  refine countP_map_zero _ _ ?_ _
  intro u
  cases hi : u.f.inq <;> simp [UF.flagBad, hi]

theorem inqAt_inq {b : Nat} {j : Job} (h : Job.inqAt b j = true) : j.inq = true := by
  unfold Job.inqAt at h; unfold Job.inq
  cases hu : j.ub with
  | none => simp [hu] at h
  | some f => simp only [hu, Bool.and_eq_true] at h ⊢; exact h.1

theorem inq_good (j : Job) : j.good.inq = false := by
  unfold Job.good Job.inq
  cases hu : j.ub with
  | none => rfl
  | some f => simp [UF.flagGood]

theorem pinqAt_inq {b : Nat} {ph : Phase} (h : Phase.inqAt b ph = true) : ph.inq = true := by
  cases ph with
  | retr j k => exact inqAt_inq h
  | retr2 e => cases h
  | emit e => cases h
  | scan a b => cases h

theorem pinq_good (ph : Phase) (h : ph.inq = true) : ph.good.inq = false := by
  cases ph with
  | retr j k => exact inq_good j
  | retr2 e => cases h
  | emit e => cases h
  | scan a b => cases h

/-! ### the effect of `advance()` on the projection -/

/-- `advance()` (possibly several) between two projections: everything `advOk`
    and `unordDrop` ask for, with the untouched fields -/
structure Adv (p q : Proj) : Prop where
  head : p.head ≤ q.head
  inq : q.inq ≤ p.inq
  scan : q.scan ≤ p.scan
  retr : q.retr ≤ p.retr
  wu : q.wu = p.wu + (p.retr - q.retr)
  tail : q.tail = p.tail
  eof : q.eof = p.eof
  os : q.os = p.os
  emit : q.emit = p.emit
  reord : q.reord = p.reord
  pt : q.pt = p.pt
  pd : q.pd = p.pd
  order : q.order = p.order
  ule : q.unord ≤ p.unord
  drop : p.unord ≤ q.unord + (p.retr - q.retr)

theorem Adv.refl (p : Proj) : Adv p p :=
  ⟨Nat.le_refl _, Nat.le_refl _, Nat.le_refl _, Nat.le_refl _, by omega, rfl, rfl, rfl, rfl, rfl,
   rfl, rfl, rfl, Nat.le_refl _, by omega⟩

theorem adv_advance (c : Cfg) (s : State) (x : Nat) : Adv (proj c s) (proj c (advance c s x)) := by
  have e1 := length_filter_split (fun j : Job => decide (j.curr < offs c (newHead c s x))) s.retrQ
  have e2 := length_filter_split (fun y : Nat => decide (y < offs c (newHead c s x))) s.scanQ
  have e3 := countP_filter_drop Job.inq (fun j : Job => decide (j.curr < offs c (newHead c s x)))
    s.retrQ
  have e4 := countP_filter_le Job.inq (fun j : Job => !decide (j.curr < offs c (newHead c s x)))
    s.retrQ
  have hh : s.head ≤ newHead c s x := by unfold newHead; omega
  refine ⟨headOffs_advance_ge c s x, ?_, ?_, ?_, ?_, rfl, rfl, rfl, rfl, rfl, rfl, rfl, rfl, ?_, ?_⟩
  · show s.rd - newHead c s x ≤ s.rd - s.head; omega
  · show (s.scanQ.filter _).length ≤ s.scanQ.length; omega
  · show (s.retrQ.filter _).length ≤ s.retrQ.length; omega
  · show s.wu + (s.retrQ.filter _).length = s.wu + (s.retrQ.length - (s.retrQ.filter _).length)
    omega
  · show s.orphans.countP _ + (s.retrQ.filter _).countP Job.inq + s.busy.countP Phase.inq
      ≤ s.orphans.countP _ + s.retrQ.countP Job.inq + s.busy.countP Phase.inq
    omega
  · show s.orphans.countP _ + s.retrQ.countP Job.inq + s.busy.countP Phase.inq
      ≤ s.orphans.countP _ + (s.retrQ.filter _).countP Job.inq + s.busy.countP Phase.inq
        + (s.retrQ.length - (s.retrQ.filter _).length)
    omega

theorem Adv.trans {p m q : Proj} (h1 : Adv p m) (h2 : Adv m q) : Adv p q := by
  obtain ⟨a1, a2, a3, a4, a5, a6, a7, a8, a9, a10, a11, a12, a13, a14, a15⟩ := h1
  obtain ⟨b1, b2, b3, b4, b5, b6, b7, b8, b9, b10, b11, b12, b13, b14, b15⟩ := h2
  exact ⟨by omega, by omega, by omega, by omega, by omega, b6.trans a6, b7.trans a7, b8.trans a8,
    b9.trans a9, b10.trans a10, b11.trans a11, b12.trans a12, b13.trans a13, by omega, by omega⟩

/-- several `advance()`s and parser writes through unord_q: `o` pushes to
    order_q, unord_q only shrinks, `parse_token` not tracked -/
structure AdvW (p q : Proj) (o : Nat) : Prop where
  head : p.head ≤ q.head
  inq : q.inq ≤ p.inq
  scan : q.scan ≤ p.scan
  retr : q.retr ≤ p.retr
  wu : q.wu = p.wu + (p.retr - q.retr)
  tail : q.tail = p.tail
  eof : q.eof = p.eof
  os : q.os = p.os
  emit : q.emit = p.emit
  reord : q.reord = p.reord
  pd : q.pd = p.pd
  order : q.order = p.order + o
  ule : q.unord ≤ p.unord

theorem Adv.toW {p q : Proj} (h : Adv p q) : AdvW p q 0 :=
  ⟨h.head, h.inq, h.scan, h.retr, h.wu, h.tail, h.eof, h.os, h.emit, h.reord, h.pd, h.order, h.ule⟩

theorem AdvW.trans {p m q : Proj} {o1 o2 : Nat} (h1 : AdvW p m o1) (h2 : AdvW m q o2) :
    AdvW p q (o1 + o2) := by
  obtain ⟨a1, a2, a3, a4, a5, a6, a7, a8, a9, a10, a11, a12, a13⟩ := h1
  obtain ⟨b1, b2, b3, b4, b5, b6, b7, b8, b9, b10, b11, b12, b13⟩ := h2
  exact ⟨by omega, by omega, by omega, by omega, by omega, b6.trans a6, b7.trans a7, b8.trans a8,
    b9.trans a9, b10.trans a10, b11.trans a11, by omega, by omega⟩

/-! ### the alternatives of the rules, Prop level -/

macro "rule_open" : tactic =>
  `(tactic| (unfold tailOk; simp only [String.reduceEq, ↓reduceIte, Bool.or_eq_true,
      Bool.and_eq_true, decide_eq_true_eq, beq_iff_eq, advOk, unordDrop]))
macro "rule_close" : tactic =>
  `(tactic| ((repeat' apply And.intro) <;> first | assumption | omega | trivial | rfl))

theorem rule_parse_more {p m q : Proj} (h : Adv p m)
    (e : q = { m with pt := true, wu := m.wu + 1 }) : tailOk "parse" p q = true := by
  subst e
  obtain ⟨h1, h2, h3, h4, h5, h6, h7, h8, h9, h10, h11, h12, h13, h14, h15⟩ := h
  rule_open
  refine Or.inl (Or.inl (Or.inl ?_))
  rule_close

theorem rule_parse_new {p m q : Proj} (h : AdvW p m 1) (hpt : m.pt = false)
    (e : q = { m with retr := m.retr + 1 }) : tailOk "parse" p q = true := by
  subst e
  obtain ⟨h1, h2, h3, h4, h5, h6, h7, h8, h9, h10, h11, h12, h13⟩ := h
  rule_open
  refine Or.inl (Or.inr ?_)
  simp only [hpt, Bool.not_false]
  rule_close

theorem rule_parse_match {p m q : Proj} {t : Bool} {u : Nat} (h : AdvW p m 1) (hu : u < p.unord)
    (e : q = { m with wu := m.wu + 1, pt := t, unord := u }) : tailOk "parse" p q = true := by
  subst e
  obtain ⟨h1, h2, h3, h4, h5, h6, h7, h8, h9, h10, h11, h12, h13⟩ := h
  rule_open
  refine Or.inr ?_
  rule_close

theorem rule_retr_exit {p m q : Proj} {u : Nat} (hm : m = { p with unord := u })
    (hu : u = p.unord ∨ u + 1 = p.unord) (e : q = { m with wu := m.wu + 1 }) :
    tailOk "retrieve" p q = true := by
  subst e; subst hm
  rule_open
  rcases hu with hu | hu
  · refine Or.inl (Or.inl (Or.inl (Or.inl (Or.inl ?_)))); subst hu; rfl
  · refine Or.inl (Or.inl (Or.inl (Or.inl (Or.inr ?_))))
    have : u = p.unord - 1 := by omega
    subst this; rfl

theorem rule_retr_more_spec {p q : Proj} (e : q = { p with retr := p.retr + 1 }) :
    tailOk "retrieve" p q = true := by
  subst e
  rule_open
  exact Or.inl (Or.inl (Or.inl (Or.inr trivial)))

theorem rule_retr_more_master {p m q : Proj} (h : Adv p m)
    (e : q = { m with retr := m.retr + 1 }) : tailOk "retrieve" p q = true := by
  subst e
  obtain ⟨h1, h2, h3, h4, h5, h6, h7, h8, h9, h10, h11, h12, h13, h14, h15⟩ := h
  rule_open
  refine Or.inl (Or.inl (Or.inr ?_))
  rule_close

theorem rule_retr_done_spec {p q : Proj} (e : q = p) : tailOk "retrieve" p q = true := by
  subst e
  rule_open
  exact Or.inl (Or.inr trivial)

theorem rule_retr_done_master {p m q : Proj} (h : Adv p m)
    (e : q = { m with pt := true }) : tailOk "retrieve" p q = true := by
  subst e
  obtain ⟨h1, h2, h3, h4, h5, h6, h7, h8, h9, h10, h11, h12, h13, h14, h15⟩ := h
  rule_open
  refine Or.inr ?_
  rule_close

theorem rule_parse_finish {p q : Proj}
    (e : q = { p with pd := true, pt := true, inq := 0, scan := 0, retr := 0, unord := 0,
                      wu := p.wu + p.retr + 1, head := p.tail }) :
    tailOk "parse" p q = true := by
  subst e
  rule_open
  refine Or.inl (Or.inl (Or.inr ?_))
  rule_close

/-! ### the named sub-functions -/

theorem proj_detach (c : Cfg) (s : State) (k : Option Nat) : proj c (detach s k) = proj c s := by
  unfold detach; split
  · rfl
  · split <;> rfl

theorem unordSize_parseFinish (s1 : State) (u : Nat) : unordSize (parseFinish s1 u) = 0 := by
  unfold unordSize parseFinish; dsimp only
  rw [countP_popOrphans_all, countP_map_zero Phase.inq _ inq_flagPhase_all]
  rfl

theorem proj_parseFinish (c : Cfg) (s1 : State) (u : Nat) :
    proj c (parseFinish s1 u) =
      { proj c s1 with pd := true, pt := true, inq := 0, scan := 0, retr := 0, unord := 0,
                       wu := (proj c s1).wu + (proj c s1).retr + 1, head := (proj c s1).tail } := by
  have h1 := unordSize_parseFinish s1 u
  have h2 : (parseFinish s1 u).rd - (parseFinish s1 u).head = 0 := by
    show s1.rd - s1.rd = 0; omega
  unfold proj
  rw [h1, h2]
  rfl

theorem ok_parseFinish (c : Cfg) (s1 : State) (u : Nat) :
    tailOk "parse" (proj c s1) (proj c (parseFinish s1 u)) = true :=
  rule_parse_finish (proj_parseFinish c s1 u)

theorem ok_parseMore (c : Cfg) (s1 : State) (k : Option Nat) :
    tailOk "parse" (proj c s1) (proj c (parseMore c s1 k)) = true :=
  rule_parse_more (adv_advance c s1 (offs c (k.getD 0 + 1))) rfl

theorem unordSize_flag_le (lt : Nat → Bool) (s2 : State) (oq : List (Nat × Nat)) (g : Nat) :
    unordSize { s2 with orderQ := oq, gnext := g, retrQ := s2.retrQ.map (flagJob lt),
                        busy := s2.busy.map (flagPhase lt),
                        orphans := popOrphans lt s2.orphans } ≤ unordSize s2 := by
  have h1 := countP_popOrphans_le lt s2.orphans
  have h2 := countP_map_le Job.inq (flagJob lt) (inq_flagJob lt) s2.retrQ
  have h3 := countP_map_le Phase.inq (flagPhase lt) (inq_flagPhase lt) s2.busy
  unfold unordSize; dsimp only
  omega

theorem advw_parsePush (c : Cfg) (s : State) (b : Nat) :
    AdvW (proj c s) (proj c (parsePush c s b)) 1 := by
  have h := adv_advance c s b
  have hu := unordSize_flag_le (fun x => decide (x < b)) (advance c s b)
    ((advance c s b).orderQ ++ [(b, 0)]) (rres c b).e
  refine ⟨h.head, h.inq, h.scan, ?_, ?_, h.tail, h.eof, h.os, h.emit, h.reord, h.pd, ?_, ?_⟩
  · show (List.map _ (advance c s b).retrQ).length ≤ _
    rw [List.length_map]; exact h.retr
  · show (advance c s b).wu = _ + (_ - (List.map _ (advance c s b).retrQ).length)
    rw [List.length_map]; exact h.wu
  · show ((advance c s b).orderQ ++ [(b, 0)]).length = _
    rw [List.length_append]; exact congrArg (· + 1) h.order
  · exact Nat.le_trans hu h.ule

/-- the verdict of `parseMatch`, relative to the projection before it -/
inductive MatchRes (p q : Proj) : Prop where
  | matched (m : Proj) (t : Bool) (u : Nat) (h : AdvW p m 0) (hu : u < p.unord)
      (e : q = { m with wu := m.wu + 1, pt := t, unord := u })
  | fresh (e : q = { p with retr := p.retr + 1 })

theorem advw_unord {p : Proj} {u : Nat} (h : u ≤ p.unord) : AdvW p { p with unord := u } 0 :=
  ⟨Nat.le_refl _, Nat.le_refl _, Nat.le_refl _, Nat.le_refl _, by simp, rfl, rfl, rfl, rfl, rfl,
   rfl, rfl, h⟩

theorem res_parseMatch (c : Cfg) (s : State) (b : Nat) :
    MatchRes (proj c s) (proj c (parseMatch c s b)) := by
  unfold parseMatch; split
  · next j hj =>
    have hc := countP_replaceFirst Job.inq (Job.inqAt b) Job.good (fun x => inqAt_inq)
      (fun x _ => inq_good x) s.retrQ (find_some_ex hj)
    generalize hs' : ({ s with retrQ := replaceFirst (Job.inqAt b) Job.good s.retrQ } : State) = s0
    have hu : unordSize s0 + 1 = unordSize s := by
      subst hs'; unfold unordSize; dsimp only; omega
    have h0 : AdvW (proj c s) (proj c s0) 0 := by
      have e : proj c s0 = { proj c s with unord := unordSize s0 } := by
        subst hs'; unfold proj; dsimp only
        rw [length_replaceFirst]; rfl
      rw [e]; exact advw_unord (by show unordSize s0 ≤ unordSize s; omega)
    have h1 := adv_advance c s0 j.endp
    refine .matched (proj c (advance c s0 j.endp)) _ (unordSize (advance c s0 j.endp))
      (h0.trans h1.toW) ?_ rfl
    have := h1.ule
    show unordSize (advance c s0 j.endp) < unordSize s
    have : unordSize (advance c s0 j.endp) ≤ unordSize s0 := h1.ule
    omega
  · split
    · next ph hph =>
      have hc := countP_replaceFirst Phase.inq (Phase.inqAt b) Phase.good (fun x => pinqAt_inq)
        (fun x hx => pinq_good x (pinqAt_inq hx)) s.busy (find_some_ex hph)
      generalize hs' : ({ s with busy := replaceFirst (Phase.inqAt b) Phase.good s.busy } : State) = s0
      have hu : unordSize s0 + 1 = unordSize s := by
        subst hs'; unfold unordSize; dsimp only; omega
      have h0 : AdvW (proj c s) (proj c s0) 0 := by
        have e : proj c s0 = { proj c s with unord := unordSize s0 } := by
          subst hs'; rfl
        rw [e]; exact advw_unord (by show unordSize s0 ≤ unordSize s; omega)
      have h1 := adv_advance c s0 ph.endp
      refine .matched (proj c (advance c s0 ph.endp)) _ (unordSize (advance c s0 ph.endp))
        (h0.trans h1.toW) ?_ rfl
      show unordSize (advance c s0 ph.endp) < unordSize s
      have : unordSize (advance c s0 ph.endp) ≤ unordSize s0 := h1.ule
      omega
    · split
      · next u hfu =>
        have hmem : u ∈ s.orphans := List.mem_of_find?_eq_some hfu
        have hinq : u.f.inq = true := by
          have := List.find?_some hfu
          simp only [Bool.and_eq_true] at this; exact this.1
        have h1 := adv_advance c s u.f.endp
        have hle : s.orphans.countP (fun x : UB => x.f.inq)
            + (advance c s u.f.endp).retrQ.countP Job.inq
            + (advance c s u.f.endp).busy.countP Phase.inq ≤ unordSize s := h1.ule
        dsimp only
        split
        · refine .matched (proj c (advance c s u.f.endp)) _ _ h1.toW ?_ rfl
          have := countP_erase_add (fun x : UB => x.f.inq) hmem
          rw [hinq] at this
          simp only [if_true] at this
          show (s.orphans.erase u).countP (fun x : UB => x.f.inq)
            + (advance c s u.f.endp).retrQ.countP Job.inq
            + (advance c s u.f.endp).busy.countP Phase.inq < unordSize s
          omega
        · refine .matched (proj c (advance c s u.f.endp)) _ _ h1.toW ?_ rfl
          have := countP_replaceFirst (fun x : UB => x.f.inq) (fun x => x == u)
            (fun x => ({ x with f := x.f.flagGood } : UB))
            (fun x hx => by have : x = u := by simpa using hx
                            subst this; exact hinq)
            (fun x _ => rfl) s.orphans ⟨u, hmem, by simp⟩
          show (replaceFirst (fun x => x == u) (fun x => ({ x with f := x.f.flagGood } : UB))
              s.orphans).countP (fun x : UB => x.f.inq)
            + (advance c s u.f.endp).retrQ.countP Job.inq
            + (advance c s u.f.endp).busy.countP Phase.inq < unordSize s
          omega
      · exact .fresh rfl

theorem ok_parseOk {c : Cfg} {s1 : State} (b : Nat) (hpt : s1.ptok = false) :
    tailOk "parse" (proj c s1) (proj c (parseOk c s1 b)) = true := by
  unfold parseOk
  have h1 := advw_parsePush c s1 b
  have hp : (proj c (parsePush c s1 b)).pt = false := hpt
  generalize parsePush c s1 b = s3 at *
  rcases res_parseMatch c s3 b with ⟨m, t, u, h, hu, e⟩ | e
  · exact rule_parse_match (h1.trans h) (by have := h1.ule; omega) e
  · exact rule_parse_new h1 hp e

/-! ### `do_retrieve`, second locked section -/

theorem inq_retrMoreJob (j : Job) (newc : Nat) : (retrMoreJob j newc).inq = j.inq := by
  unfold retrMoreJob Job.inq
  cases hu : j.ub with
  | none => simp
  | some f => dsimp only; cases j.master <;> simp

theorem master_not_inq {c : Cfg} {g : Nat} {j : Job} (h : jobOK c g j) (hm : j.master = true) :
    j.inq = false := by
  obtain ⟨_, _, h3, _, _⟩ := h
  unfold Job.master at hm; unfold Job.inq
  cases hu : j.ub with
  | none => rfl
  | some f =>
    simp only [hu] at hm
    show f.inq = false
    cases hi : f.inq with
    | false => rfl
    | true => have := h3 f hu hi; rw [hm] at this; cases this

theorem unordSize_erase_busy {s : State} {ph : Phase} (hm : ph ∈ s.busy) :
    unordSize { s with busy := s.busy.erase ph } + (if ph.inq then 1 else 0) = unordSize s := by
  have := countP_erase_add Phase.inq hm
  unfold unordSize; dsimp only; omega

/-- the state after the job left `busy` and detached: the projection differs
    from `p` at most by the job's entry in unord_q -/
structure Left (c : Cfg) (p : Proj) (s1 : State) (j : Job) : Prop where
  pr : proj c s1 = { p with unord := unordSize s1 }
  un : unordSize s1 + (if j.inq then 1 else 0) = p.unord

theorem left_retr {c : Cfg} {s : State} {j : Job} {k : Option Nat} (hm : Phase.retr j k ∈ s.busy) :
    Left c (proj c s) (detach { s with busy := s.busy.erase (.retr j k) } k) j := by
  have h := unordSize_erase_busy hm
  have e := proj_detach c { s with busy := s.busy.erase (.retr j k) } k
  have eu : unordSize (detach { s with busy := s.busy.erase (.retr j k) } k)
      = unordSize { s with busy := s.busy.erase (.retr j k) } := congrArg Proj.unord e
  refine ⟨?_, ?_⟩
  · rw [e, eu]; rfl
  · rw [eu]; exact h

theorem ok_retrExit {c : Cfg} {p : Proj} {s1 : State} {j : Job} (h : Left c p s1 j) (j' : Job) :
    tailOk "retrieve" p (proj c (retrExit s1 j')) = true := by
  refine rule_retr_exit h.pr ?_ rfl
  have := h.un
  split at this
  · exact Or.inr this
  · exact Or.inl this

theorem ok_retrOvertaken {c : Cfg} {p : Proj} {s1 : State} {j : Job} {newc : Nat}
    (h : Left c p s1 j) (hov : j.master = true → headOffs c s1 ≤ newc)
    (hlt : newc < headOffs c (retrMove c s1 j newc)) (j' : Job) :
    tailOk "retrieve" p (proj c (retrExit (retrMove c s1 j newc) j')) = true := by
  unfold retrMove at hlt ⊢
  split
  · next hm =>
    exfalso
    rw [if_pos hm] at hlt
    have h1 := headOffs_advance_le c s1 newc
    have h2 := hov hm
    have h3 : headOffs c (advance c s1 newc) ≤ newc := by omega
    have h4 : newc < headOffs c (advance c s1 newc) := hlt
    omega
  · exact ok_retrExit h j'

theorem ok_retrMore {c : Cfg} {p : Proj} {s1 : State} {j : Job} {newc : Nat}
    (h : Left c p s1 j) (hmi : j.master = true → j.inq = false) :
    tailOk "retrieve" p (proj c (retrMore (retrMove c s1 j newc) j newc)) = true := by
  obtain ⟨hp, hu⟩ := h
  have hi := inq_retrMoreJob j newc
  unfold retrMove
  split
  · next hm =>
    have hj := hmi hm
    rw [hj] at hu hi
    simp only [Bool.false_eq_true, if_false, Nat.add_zero] at hu
    have e : proj c s1 = p := by rw [hp, hu]
    have ha := adv_advance c s1 newc
    rw [e] at ha
    refine rule_retr_more_master ha ?_
    unfold retrMore proj unordSize; dsimp only
    rw [List.countP_cons, hi]
    rfl
  · refine rule_retr_more_spec ?_
    have e : proj c (retrMore s1 j newc)
        = { proj c s1 with retr := (proj c s1).retr + 1,
                           unord := unordSize s1 + (if j.inq then 1 else 0) } := by
      unfold retrMore proj unordSize headOffs tailOffs; dsimp only
      rw [List.countP_cons, hi]
      simp only [List.length_cons, Proj.mk.injEq, true_and, and_true]
      omega
    rw [e, hp, hu]

theorem ok_retrDone {c : Cfg} {p : Proj} {s1 : State} {j : Job} {newc : Nat}
    (h : Left c p s1 j) (hmi : j.master = true → j.inq = false) :
    tailOk "retrieve" p (proj c (retrDone c (retrMove c s1 j newc) j newc)) = true := by
  obtain ⟨hp, hu⟩ := h
  unfold retrMove
  split
  · next hm =>
    have hj := hmi hm
    rw [hj] at hu
    simp only [Bool.false_eq_true, if_false, Nat.add_zero] at hu
    have e : proj c s1 = p := by rw [hp, hu]
    have ha := adv_advance c s1 newc
    rw [e] at ha
    refine rule_retr_done_master ha ?_
    unfold retrDone; dsimp only
    rw [if_pos hm]
    rfl
  · next hm =>
    refine rule_retr_done_spec ?_
    obtain ⟨f, hf⟩ := not_master_ub (by simpa using hm : j.master = false)
    have hji : j.inq = f.inq := by unfold Job.inq; rw [hf]
    have e : proj c (retrDone c s1 j newc)
        = { proj c s1 with unord := unordSize s1 + (if j.inq then 1 else 0) } := by
      unfold retrDone; dsimp only
      rw [if_neg hm, hf, hji]
      unfold proj unordSize headOffs tailOffs; dsimp only
      simp only [List.singleton_append, List.countP_cons, Phase.inq, Proj.mk.injEq, true_and,
        and_true]
      simp
      omega
    rw [e, hp, hu]

end ProjSound
end LbzVerif.Lemmas.SchedD
