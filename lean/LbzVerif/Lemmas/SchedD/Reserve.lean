/-
  The EMIT_THRESH reservation of the expansion scheduler (`can_emit`):

      out_slots > EMIT_THRESH
   || (out_slots > 0 && !empty(order_q) && pos_le(peek(emit_q), head(order_q)))

  An output slot is HELD by a buffer waiting in `reord_q` or by a worker inside
  `emit()`.  A holder is AHEAD of the output position when its position
  (base, index) lies strictly after the head of `order_q` — or, when `order_q`
  is empty, its base lies after `gnext` (the origin of the next header parse:
  every future entry of `order_q` has a base > `gnext`).

      #holders ahead of the output position + EMIT_THRESH ≤ total_out_slots

  in every reachable state in which `failf` has not been called: the last
  EMIT_THRESH slots are only ever handed to a job that is NOT ahead of the
  head of `order_q`.  Consequence (`not_all_ahead`): when every slot sits in
  `reord_q` and `order_q` is not empty, some buffer of `reord_q` is at or before
  the head of `order_q`.
-/
import LbzVerif.Lemmas.SchedD.Holder2

namespace LbzVerif.Lemmas.SchedD
open LbzVerif.Model.SchedD LbzVerif.Gen

/-! ### definitions -/

/-- the position `k` lies strictly after the output position -/
def aheadKey (oq : List (Nat × Nat)) (g : Nat) (k : Nat × Nat) : Bool :=
  match oq with
  | [] => decide (g < k.1)
  | h :: _ => posLt h k

namespace Reserve

/-- a buffer in `reord_q` that is ahead -/
def obAhead (oq : List (Nat × Nat)) (g : Nat) (o : OB) : Bool := aheadKey oq g o.key

/-- a worker inside `emit()` whose buffer is ahead -/
def phAhead (oq : List (Nat × Nat)) (g : Nat) : Phase → Bool
  | .emit e => aheadKey oq g e.key
  | _ => false

/-- slot holders ahead of the output position -/
def AC (oq : List (Nat × Nat)) (g : Nat) (rq : List OB) (bz : List Phase) : Nat :=
  rq.countP (obAhead oq g) + bz.countP (phAhead oq g)

end Reserve

/-- the number of slot holders (buffers in `reord_q`, running `emit()`s) ahead
    of the output position -/
def aheadCount (s : State) : Nat := Reserve.AC s.orderQ s.gnext s.reordQ s.busy

namespace Reserve

/-! ### lists -/

theorem exists_false_of_countP_lt {α} (p : α → Bool) :
    ∀ l : List α, l.countP p < l.length → ∃ x ∈ l, p x = false
  | [], h => by simp at h
  | a :: l, h => by
    cases hp : p a with
    | false => exact ⟨a, List.mem_cons_self, hp⟩
    | true =>
      rw [List.countP_cons_of_pos hp, List.length_cons] at h
      obtain ⟨x, hx, hpx⟩ := exists_false_of_countP_lt p l (by omega)
      exact ⟨x, List.mem_cons_of_mem _ hx, hpx⟩

theorem countP_cons_false {α} {p : α → Bool} {a : α} (l : List α) (h : p a = false) :
    (a :: l).countP p = l.countP p :=
  List.countP_cons_of_neg (by simp [h])

theorem countP_cons_true {α} {p : α → Bool} {a : α} (l : List α) (h : p a = true) :
    (a :: l).countP p = l.countP p + 1 :=
  List.countP_cons_of_pos h

theorem countP_cons_le {α} (p : α → Bool) (a : α) (l : List α) :
    (a :: l).countP p ≤ l.countP p + 1 := by
  cases h : p a
  · rw [countP_cons_false l h]; omega
  · rw [countP_cons_true l h]; omega

theorem countP_erase_false {α} [BEq α] [LawfulBEq α] {p : α → Bool} {a : α} {l : List α}
    (hm : a ∈ l) (h : p a = false) : (l.erase a).countP p = l.countP p := by
  rw [(List.perm_cons_erase hm).countP_eq p, countP_cons_false _ h]

theorem countP_erase_true {α} [BEq α] [LawfulBEq α] {p : α → Bool} {a : α} {l : List α}
    (hm : a ∈ l) (h : p a = true) : (l.erase a).countP p + 1 = l.countP p := by
  rw [(List.perm_cons_erase hm).countP_eq p, countP_cons_true _ h]

/-! ### positions -/

theorem posLt_succ {b i : Nat} {k : Nat × Nat} (h : posLt (b, i + 1) k = true) :
    posLt (b, i) k = true := by
  simp only [posLt, Bool.or_eq_true, Bool.and_eq_true, decide_eq_true_eq, beq_iff_eq] at h ⊢
  omega

theorem posLt_of_base_lt {a h k : Nat × Nat} (hb : a.1 < h.1) (hk : posLt h k = true) :
    posLt a k = true := by
  simp only [posLt, Bool.or_eq_true, Bool.and_eq_true, decide_eq_true_eq, beq_iff_eq] at hk ⊢
  omega

theorem posLt_of_gnext {a k : Nat × Nat} {g : Nat} (hb : a.1 ≤ g) (hk : g < k.1) :
    posLt a k = true := by
  simp only [posLt, Bool.or_eq_true, Bool.and_eq_true, decide_eq_true_eq, beq_iff_eq]
  omega

theorem base_ge_of_posLt {b : Nat} {k : Nat × Nat} (hk : posLt (b, 0) k = true) : b ≤ k.1 := by
  simp only [posLt, Bool.or_eq_true, Bool.and_eq_true, decide_eq_true_eq, beq_iff_eq] at hk
  omega

/-! ### the count -/

/-- if the output position only moves forward the count does not grow -/
theorem AC_mono {oq oq' : List (Nat × Nat)} {g g' : Nat} (rq : List OB) (bz : List Phase)
    (hk : ∀ k, aheadKey oq' g' k = true → aheadKey oq g k = true) :
    AC oq' g' rq bz ≤ AC oq g rq bz := by
  unfold AC
  have h1 : rq.countP (obAhead oq' g') ≤ rq.countP (obAhead oq g) :=
    List.countP_mono_left (fun o _ h => hk _ h)
  have h2 : bz.countP (phAhead oq' g') ≤ bz.countP (phAhead oq g) :=
    List.countP_mono_left (fun ph _ h => by
      cases ph with
      | emit e => exact hk _ h
      | retr j k => exact h
      | retr2 e => exact h
      | scan a b => exact h)
  omega

/-- holders ahead are holders -/
theorem AC_le (oq : List (Nat × Nat)) (g : Nat) (rq : List OB) (bz : List Phase) :
    AC oq g rq bz ≤ rq.length + bz.countP isEmit := by
  unfold AC
  have h1 := List.countP_le_length (p := obAhead oq g) (l := rq)
  have h2 : bz.countP (phAhead oq g) ≤ bz.countP isEmit :=
    List.countP_mono_left (fun ph _ h => by
      cases ph with
      | emit e => rfl
      | retr j k => exact h
      | retr2 e => exact h
      | scan a b => exact h)
  omega

theorem AC_erase_le (oq : List (Nat × Nat)) (g : Nat) (rq : List OB) (bz : List Phase) (ob : OB) :
    AC oq g (rq.erase ob) bz ≤ AC oq g rq bz := by
  unfold AC
  have := countP_erase_le (obAhead oq g) ob rq
  omega

theorem phAhead_flag (oq : List (Nat × Nat)) (g : Nat) (p : Nat → Bool) (ph : Phase) :
    phAhead oq g (flagPhase p ph) = phAhead oq g ph := by
  cases ph <;> rfl

theorem phAhead_good (oq : List (Nat × Nat)) (g : Nat) (ph : Phase) :
    phAhead oq g (Phase.good ph) = phAhead oq g ph := by
  cases ph <;> rfl

theorem countP_ph_flag (oq : List (Nat × Nat)) (g : Nat) (p : Nat → Bool) (l : List Phase) :
    (l.map (flagPhase p)).countP (phAhead oq g) = l.countP (phAhead oq g) := by
  induction l with
  | nil => rfl
  | cons x xs ih => simp only [List.map_cons, List.countP_cons, ih, phAhead_flag]

theorem countP_ph_good (oq : List (Nat × Nat)) (g : Nat) (q : Phase → Bool) (l : List Phase) :
    (replaceFirst q Phase.good l).countP (phAhead oq g) = l.countP (phAhead oq g) := by
  induction l with
  | nil => rfl
  | cons x xs ih =>
    simp only [replaceFirst]
    split
    · simp only [List.countP_cons, phAhead_good]
    · simp only [List.countP_cons, ih]

/-! ### frames: nothing the count reads has changed -/

structure RF (s s' : State) : Prop where
  eO : s'.orderQ = s.orderQ
  eG : s'.gnext = s.gnext
  eR : s'.reordQ = s.reordQ
  eB : ∀ oq g, s'.busy.countP (phAhead oq g) = s.busy.countP (phAhead oq g)

theorem RF.refl (s : State) : RF s s := ⟨rfl, rfl, rfl, fun _ _ => rfl⟩

theorem RF.trans {s s' s'' : State} (f : RF s s') (g : RF s' s'') : RF s s'' :=
  ⟨g.eO.trans f.eO, g.eG.trans f.eG, g.eR.trans f.eR, fun a b => (g.eB a b).trans (f.eB a b)⟩

theorem RF.ac {s s' : State} (f : RF s s') : aheadCount s' = aheadCount s := by
  unfold aheadCount AC
  rw [f.eO, f.eG, f.eR, f.eB]

theorem rf_fields {s s' : State} (e1 : s'.orderQ = s.orderQ) (e2 : s'.gnext = s.gnext)
    (e3 : s'.reordQ = s.reordQ) (e4 : s'.busy = s.busy) : RF s s' :=
  ⟨e1, e2, e3, fun _ _ => by rw [e4]⟩

/-- a phase that is not an `emit()` joins the busy workers -/
theorem rf_busy_cons {s s' : State} {ph : Phase} (hn : isEmit ph = false)
    (e1 : s'.orderQ = s.orderQ) (e2 : s'.gnext = s.gnext)
    (e3 : s'.reordQ = s.reordQ) (e4 : s'.busy = ph :: s.busy) : RF s s' := by
  refine ⟨e1, e2, e3, fun oq g => ?_⟩
  rw [e4]
  refine countP_cons_false _ ?_
  cases ph with
  | emit e => cases hn
  | retr j k => rfl
  | retr2 e => rfl
  | scan a b => rfl

/-- a phase that is not an `emit()` leaves the busy workers -/
theorem rf_busy_erase {s s' : State} {ph : Phase} (hm : ph ∈ s.busy) (hn : isEmit ph = false)
    (e1 : s'.orderQ = s.orderQ) (e2 : s'.gnext = s.gnext)
    (e3 : s'.reordQ = s.reordQ) (e4 : s'.busy = s.busy.erase ph) : RF s s' := by
  refine ⟨e1, e2, e3, fun oq g => ?_⟩
  rw [e4]
  refine countP_erase_false hm ?_
  cases ph with
  | emit e => cases hn
  | retr j k => rfl
  | retr2 e => rfl
  | scan a b => rfl

/-! ### the named sub-functions -/

theorem rf_detach (s : State) (k : Option Nat) : RF s (detach s k) := by
  unfold detach; split
  · exact RF.refl s
  · split
    · exact rf_fields rfl rfl rfl rfl
    · exact RF.refl s

theorem rf_advance (c : Cfg) (s : State) (p : Nat) : RF s (advance c s p) :=
  rf_fields rfl rfl rfl rfl

theorem rf_parseMatch (c : Cfg) (s : State) (b : Nat) : RF s (parseMatch c s b) := by
  unfold parseMatch; split
  · next j _ =>
    have h1 : RF s { s with retrQ := replaceFirst (Job.inqAt b) Job.good s.retrQ } :=
      rf_fields rfl rfl rfl rfl
    have h2 := rf_advance c { s with retrQ := replaceFirst (Job.inqAt b) Job.good s.retrQ } j.endp
    exact (h1.trans h2).trans (rf_fields rfl rfl rfl rfl)
  · split
    · next ph _ =>
      have h1 : RF s { s with busy := replaceFirst (Phase.inqAt b) Phase.good s.busy } :=
        ⟨rfl, rfl, rfl, fun oq g => countP_ph_good oq g _ _⟩
      have h2 := rf_advance c { s with busy := replaceFirst (Phase.inqAt b) Phase.good s.busy } ph.endp
      exact (h1.trans h2).trans (rf_fields rfl rfl rfl rfl)
    · split
      · next u _ =>
        have h2 := rf_advance c s u.f.endp
        dsimp only
        generalize advance c s u.f.endp = a at *
        split
        · exact h2.trans (rf_fields rfl rfl rfl rfl)
        · exact h2.trans (rf_fields rfl rfl rfl rfl)
      · exact rf_fields rfl rfl rfl rfl

theorem rf_parseFinish (s : State) (u : Nat) : RF s (parseFinish s u) := by
  unfold parseFinish; dsimp only
  exact ⟨rfl, rfl, rfl, fun oq g => countP_ph_flag oq g _ _⟩

theorem rf_parseMore (c : Cfg) (s : State) (k : Option Nat) : RF s (parseMore c s k) := by
  unfold parseMore; dsimp only
  exact (rf_advance c s (offs c (k.getD 0 + 1))).trans (rf_fields rfl rfl rfl rfl)

theorem rf_retrExit (s : State) (j : Job) : RF s (retrExit s j) := rf_fields rfl rfl rfl rfl

theorem rf_retrMove (c : Cfg) (s : State) (j : Job) (n : Nat) : RF s (retrMove c s j n) := by
  unfold retrMove; split
  · exact (rf_advance c s n).trans (rf_fields rfl rfl rfl rfl)
  · exact RF.refl s

theorem rf_retrMore (s : State) (j : Job) (n : Nat) : RF s (retrMore s j n) :=
  rf_fields rfl rfl rfl rfl

theorem rf_retrDone (c : Cfg) (s : State) (j : Job) (n : Nat) : RF s (retrDone c s j n) := by
  unfold retrDone; dsimp only; split
  · exact rf_busy_cons (ph := .retr2 _) rfl rfl rfl rfl rfl
  · exact rf_busy_cons (ph := .retr2 _) rfl rfl rfl rfl rfl

theorem rf_scanNew (c : Cfg) (s : State) (x : Nat) : RF s (scanNew c s x) := by
  unfold scanNew; split
  · exact rf_fields rfl rfl rfl rfl
  · exact rf_fields rfl rfl rfl rfl

theorem rf_scanRequeue (c : Cfg) (s : State) (x hi : Nat) : RF s (scanRequeue c s x hi) := by
  unfold scanRequeue; split
  · exact rf_fields rfl rfl rfl rfl
  · exact RF.refl s

/-- `push(order_q)`: a non-empty `order_q` keeps its head; the first entry of
    an empty one has a base after the old `gnext` -/
theorem ac_parsePush {c : Cfg} {s : State} {b : Nat} (hg : s.gnext < b) :
    aheadCount (parsePush c s b) ≤ aheadCount s := by
  show AC (s.orderQ ++ [(b, 0)]) (rres c b).e s.reordQ
      (s.busy.map (flagPhase fun x => decide (x < b))) ≤ AC s.orderQ s.gnext s.reordQ s.busy
  have h1 : AC (s.orderQ ++ [(b, 0)]) (rres c b).e s.reordQ
      (s.busy.map (flagPhase fun x => decide (x < b)))
      = AC (s.orderQ ++ [(b, 0)]) (rres c b).e s.reordQ s.busy := by
    unfold AC; rw [countP_ph_flag]
  rw [h1]
  apply AC_mono
  intro k hk
  cases hq : s.orderQ with
  | nil =>
    rw [hq] at hk
    have hk' : posLt (b, 0) k = true := hk
    have := base_ge_of_posLt hk'
    show decide (s.gnext < k.1) = true
    simp only [decide_eq_true_eq]; omega
  | cons h r =>
    rw [hq] at hk
    exact hk

/-! ### the transitions that leave the count alone -/

theorem rf_rTake {s s' : State} (hs : stepRTake s = some s') : RF s s' := by
  unfold stepRTake at hs; split at hs <;> simp at hs; subst hs
  exact rf_fields rfl rfl rfl rfl

theorem rf_rQuit {s s' : State} (hs : stepRQuit s = some s') : RF s s' := by
  unfold stepRQuit at hs; split at hs <;> simp at hs; subst hs
  exact rf_fields rfl rfl rfl rfl

theorem rf_rBlock {c : Cfg} {s s' : State} (hs : stepRBlock c s = some s') : RF s s' := by
  unfold stepRBlock at hs; split at hs
  · dsimp only at hs; split at hs <;> simp only [Option.some.injEq] at hs <;> subst hs <;>
      exact rf_fields rfl rfl rfl rfl
  · simp at hs

theorem rf_rEmpty {c : Cfg} {s s' : State} (hs : stepREmpty c s = some s') : RF s s' := by
  unfold stepREmpty at hs; split at hs <;> simp at hs; subst hs
  exact rf_fields rfl rfl rfl rfl

theorem rf_rEof {s s' : State} (hs : stepREof s = some s') : RF s s' := by
  unfold stepREof at hs; split at hs <;> simp at hs; subst hs
  exact rf_fields rfl rfl rfl rfl

theorem rf_wDone {s s' : State} (hs : stepWDone s = some s') : RF s s' := by
  unfold stepWDone at hs; split at hs <;> simp at hs; subst hs
  exact rf_fields rfl rfl rfl rfl

theorem rf_parseStart {c : Cfg} {s s' : State} (hs : stepParseStart c s = some s') : RF s s' := by
  unfold stepParseStart at hs; split at hs
  · simp only [Option.some.injEq] at hs; subst hs
    exact rf_fields rfl rfl rfl rfl
  · simp at hs

theorem rf_retrStart {c : Cfg} {s s' : State} {j : Job} (hs : stepRetrStart c s j = some s') :
    RF s s' := by
  unfold stepRetrStart at hs; split at hs
  · simp only [Option.some.injEq] at hs; subst hs
    exact rf_busy_cons (ph := .retr _ _) rfl rfl rfl rfl rfl
  · simp at hs

theorem rf_retrEnd {c : Cfg} {s s' : State} {j : Job} {k : Option Nat}
    (hs : stepRetrEnd c s j k = some s') : RF s s' := by
  unfold stepRetrEnd at hs; split at hs
  · next hg =>
    have hm : Phase.retr j k ∈ s.busy := by simpa using hg
    have h0 : RF s (detach { s with busy := s.busy.erase (.retr j k) } k) :=
      (rf_busy_erase (s' := { s with busy := s.busy.erase (.retr j k) }) hm rfl rfl rfl rfl rfl).trans
        (rf_detach _ k)
    dsimp only at hs
    generalize detach { s with busy := s.busy.erase (.retr j k) } k = s1 at *
    split at hs
    · simp only [Option.some.injEq] at hs; subst hs; exact h0.trans (rf_retrExit s1 j)
    · split at hs
      · simp only [Option.some.injEq] at hs; subst hs; exact h0.trans (rf_retrExit s1 j)
      · split at hs
        · split at hs
          · simp only [Option.some.injEq] at hs; subst hs
            exact (h0.trans (rf_retrMove c s1 j _)).trans (rf_retrExit _ _)
          · simp only [Option.some.injEq] at hs; subst hs
            exact (h0.trans (rf_retrMove c s1 j _)).trans (rf_retrMore _ _ _)
        · simp only [Option.some.injEq] at hs; subst hs
          exact (h0.trans (rf_retrMove c s1 j _)).trans (rf_retrDone c _ _ _)
  · simp at hs

theorem rf_retrPost {s s' : State} {e : EJob} (hs : stepRetrPost s e = some s') : RF s s' := by
  unfold stepRetrPost at hs; split at hs
  · next hg =>
    have hm : Phase.retr2 e ∈ s.busy := by simpa using hg
    simp only [Option.some.injEq] at hs; subst hs
    exact rf_busy_erase hm rfl rfl rfl rfl rfl
  · simp at hs

theorem rf_scanStart {c : Cfg} {s s' : State} {sp : Nat} (hs : stepScanStart c s sp = some s') :
    RF s s' := by
  unfold stepScanStart at hs; split at hs
  · simp only [Option.some.injEq] at hs; subst hs
    exact rf_busy_cons (ph := .scan _ _) rfl rfl rfl rfl rfl
  · simp at hs

theorem rf_scanEnd {c : Cfg} {s s' : State} {st k : Nat} (hs : stepScanEnd c s st k = some s') :
    RF s s' := by
  unfold stepScanEnd at hs; split at hs
  · next hg =>
    have hm : Phase.scan st k ∈ s.busy := by simpa using hg
    have h0 : RF s (detach { s with busy := s.busy.erase (.scan st k) } (some k)) :=
      (rf_busy_erase (s' := { s with busy := s.busy.erase (.scan st k) }) hm rfl rfl rfl rfl rfl).trans
        (rf_detach _ _)
    dsimp only at hs
    generalize detach { s with busy := s.busy.erase (.scan st k) } (some k) = s1 at *
    split at hs
    · simp only [Option.some.injEq] at hs; subst hs; exact h0.trans (rf_fields rfl rfl rfl rfl)
    · split at hs
      · simp only [Option.some.injEq] at hs; subst hs; exact h0.trans (rf_fields rfl rfl rfl rfl)
      · simp only [Option.some.injEq] at hs; subst hs
        exact (h0.trans (rf_scanNew c s1 _)).trans (rf_scanRequeue c _ _ _)
  · simp at hs

/-! ### emitEnd: the running `emit()` becomes a buffer with the same position -/

theorem ac_emitEnd {s s' : State} {e : EJob} (hs : stepEmitEnd s e = some s') :
    aheadCount s' = aheadCount s := by
  unfold stepEmitEnd at hs; split at hs
  · next hg =>
    have hm : Phase.emit e ∈ s.busy := by simpa using hg
    have core : ∀ o : OB, o.key = e.key →
        AC s.orderQ s.gnext (o :: s.reordQ) (s.busy.erase (.emit e))
          = AC s.orderQ s.gnext s.reordQ s.busy := by
      intro o hk
      have hoe : obAhead s.orderQ s.gnext o = phAhead s.orderQ s.gnext (.emit e) := by
        simp only [obAhead, phAhead, hk]
      unfold AC
      cases hb : phAhead s.orderQ s.gnext (.emit e) with
      | false =>
        rw [hb] at hoe
        rw [countP_cons_false _ hoe, countP_erase_false hm hb]
      | true =>
        rw [hb] at hoe
        have := countP_erase_true hm hb
        rw [countP_cons_true _ hoe]
        omega
    dsimp only at hs
    split at hs
    · simp only [Option.some.injEq] at hs; subst hs
      exact core _ rfl
    · simp only [Option.some.injEq] at hs; subst hs
      exact core _ rfl
  · simp at hs

/-! ### reorder: a buffer leaves, the output position moves forward -/

theorem ac_reorder {c : Cfg} {s s' : State} {ob : OB} (hH : HI c s)
    (hs : stepReorder c s ob = some s') (hf : s'.failed = false) :
    aheadCount s' ≤ aheadCount s := by
  unfold stepReorder at hs; split at hs
  · next hg =>
    simp only [Bool.and_eq_true, List.contains_iff_mem, beq_iff_eq] at hg
    obtain ⟨⟨⟨_, hsel⟩, _⟩, hmin⟩ := hg
    split at hs
    · simp only [Option.some.injEq] at hs; subst hs
      exact AC_erase_le _ _ _ _ _
    · next hb =>
      have hb' : dReorderBogus (view c s) = false := by simpa using hb
      obtain ⟨r, hr⟩ := reorder_head hsel hmin hb'
      have hp := hH.h0.srt
      rw [hr] at hp
      have hpc := List.pairwise_cons.1 hp
      have hog : ob.base ≤ s.gnext := hH.h0.og _ _ (by rw [hr]; exact List.mem_cons_self)
      split at hs
      · simp only [Option.some.injEq] at hs; subst hs
        cases hf
      · simp only [Option.some.injEq] at hs; subst hs
        refine Nat.le_trans (AC_erase_le _ _ _ _ _) ?_
        apply AC_mono
        intro k hk
        rw [hr] at hk ⊢
        exact posLt_succ hk
      · simp only [Option.some.injEq] at hs; subst hs
        refine Nat.le_trans (AC_erase_le _ _ _ _ _) ?_
        apply AC_mono
        intro k hk
        rw [hr] at hk ⊢
        show posLt (ob.base, ob.idx) k = true
        cases r with
        | nil =>
          have hk' : decide (s.gnext < k.1) = true := hk
          exact posLt_of_gnext (a := (ob.base, ob.idx)) hog (of_decide_eq_true hk')
        | cons h2 r2 =>
          have hk' : posLt h2 k = true := hk
          exact posLt_of_base_lt (hpc.1 h2 List.mem_cons_self) hk'
  · simp at hs

/-! ### parseEnd -/

theorem ac_parseEnd {c : Cfg} {s s' : State} (hS : SI c s)
    (hs : stepParseEnd c s = some s') (hf : s'.failed = false) :
    aheadCount s' ≤ aheadCount s := by
  unfold stepParseEnd at hs; split at hs
  · simp at hs
  · next k hk =>
    have hpo : s.porig = s.gnext := hS.porig (Or.inr (by simp [hk]))
    have f0 : RF s (detach { s with pphase := none } k) :=
      (rf_fields (s := s) (s' := { s with pphase := none }) rfl rfl rfl rfl).trans (rf_detach _ k)
    dsimp only at hs
    generalize detach { s with pphase := none } k = s1 at *
    split at hs
    · simp only [Option.some.injEq] at hs; subst hs
      rw [(f0.trans (rf_parseMore c s1 k)).ac]
      exact Nat.le_refl _
    · simp only [Option.some.injEq] at hs; subst hs
      cases hp : pres c s.porig with
      | err u => rw [hp] at hf; simp [parseVerdict] at hf
      | finish u ok =>
        rw [hp] at hf
        cases ok with
        | false => simp [parseVerdict] at hf
        | true =>
          simp only [parseVerdict, Bool.not_true, Bool.false_eq_true, if_false]
          rw [(f0.trans (rf_parseFinish s1 u)).ac]
          exact Nat.le_refl _
      | hdr b =>
        have hb := (pres_hdr hp).1
        simp only [parseVerdict, parseOk]
        rw [(rf_parseMatch c (parsePush c s1 b) b).ac]
        refine Nat.le_trans (ac_parsePush (by rw [f0.eG]; omega)) ?_
        rw [f0.ac]
        exact Nat.le_refl _

/-! ### emitStart: the reservation -/

theorem emit_guard {c : Cfg} {s : State} {e : EJob} (hsel : selectTask c s = some "emit")
    (hmin : minKey? (s.emitQ.map EJob.key) = some e.key) :
    EMIT_THRESH < s.outSlots ∨ aheadKey s.orderQ s.gnext e.key = false := by
  have hgd := select_guard hsel
  have hce : dCanEmit (view c s) = true := by simpa [guardOf] using hgd
  simp only [dCanEmit, Bool.and_eq_true, Bool.or_eq_true, decide_eq_true_eq] at hce
  rcases hce.2 with h | ⟨⟨_, h2⟩, h3⟩
  · exact Or.inl h
  · right
    cases hq : s.orderQ with
    | nil => simp [view, hq] at h2
    | cons hd r =>
      simp only [view, hq, hmin, List.head?_cons] at h3
      show posLt hd e.key = false
      simpa [posLe] using h3

theorem ac_emitStart {c : Cfg} {s s' : State} {e : EJob} (hC : CI c s)
    (hs : stepEmitStart c s e = some s') (h : aheadCount s + EMIT_THRESH ≤ c.totalOut) :
    aheadCount s' + EMIT_THRESH ≤ c.totalOut := by
  unfold stepEmitStart at hs; split at hs
  · next hg =>
    simp only [Bool.and_eq_true, List.contains_iff_mem, beq_iff_eq] at hg
    obtain ⟨⟨⟨_, hsel⟩, _⟩, hmin⟩ := hg
    simp only [Option.some.injEq] at hs; subst hs
    show AC s.orderQ s.gnext s.reordQ (.emit e :: s.busy) + EMIT_THRESH ≤ c.totalOut
    have h' : AC s.orderQ s.gnext s.reordQ s.busy + EMIT_THRESH ≤ c.totalOut := h
    rcases emit_guard hsel hmin with hgt | hna
    · have hle := AC_le s.orderQ s.gnext s.reordQ s.busy
      have hos := hC.osC
      rw [emitBusy_eq] at hos
      have hc := countP_cons_le (phAhead s.orderQ s.gnext) (.emit e) s.busy
      unfold AC at hle ⊢
      simp only [EMIT_THRESH] at hgt ⊢
      omega
    · have hc : (Phase.emit e :: s.busy).countP (phAhead s.orderQ s.gnext)
          = s.busy.countP (phAhead s.orderQ s.gnext) := countP_cons_false _ hna
      unfold AC at h' ⊢
      rw [hc]; exact h'
  · simp at hs

/-! ### all steps -/

theorem reserve_step {c : Cfg} {s s' : State} {l : Label} (hC : CI c s) (hH : HI c s)
    (hS : SI c s) (hs : step c s l = some s') (hf : s'.failed = false)
    (h : aheadCount s + EMIT_THRESH ≤ c.totalOut) :
    aheadCount s' + EMIT_THRESH ≤ c.totalOut := by
  unfold step at hs
  split at hs
  · simp at hs
  · have eqv : RF s s' → aheadCount s' + EMIT_THRESH ≤ c.totalOut := by
      intro f; rw [f.ac]; exact h
    have le : aheadCount s' ≤ aheadCount s → aheadCount s' + EMIT_THRESH ≤ c.totalOut := by
      intro f; omega
    cases l with
    | rTake => exact eqv (rf_rTake hs)
    | rQuit => exact eqv (rf_rQuit hs)
    | rBlock => exact eqv (rf_rBlock hs)
    | rEmpty => exact eqv (rf_rEmpty hs)
    | rEof => exact eqv (rf_rEof hs)
    | wDone => exact eqv (rf_wDone hs)
    | reorder ob => exact le (ac_reorder hH hs hf)
    | parseStart => exact eqv (rf_parseStart hs)
    | parseEnd => exact le (ac_parseEnd hS hs hf)
    | retrStart j => exact eqv (rf_retrStart hs)
    | retrEnd j k => exact eqv (rf_retrEnd hs)
    | retrPost e => exact eqv (rf_retrPost hs)
    | emitStart e => exact ac_emitStart hC hs h
    | emitEnd e => exact le (Nat.le_of_eq (ac_emitEnd hs))
    | scanStart sp => exact eqv (rf_scanStart hs)
    | scanEnd st k => exact eqv (rf_scanEnd hs)

end Reserve

open Reserve

/-- THE RESERVATION: in every reachable state in which `failf` has not been
    called, at most `total_out_slots - EMIT_THRESH` output slots are held by
    buffers / running `emit()`s that are ahead of the output position -/
theorem reserve_reach {c : Cfg} (ho : EMIT_THRESH < c.totalOut) {s : State} (h : Reach c s)
    (hf : s.failed = false) : aheadCount s + EMIT_THRESH ≤ c.totalOut := by
  induction h with
  | init =>
    have : aheadCount (init c) = 0 := rfl
    rw [this]; omega
  | @step s s' l hr hs ih =>
    have hf0 : s.failed = false := step_not_failed hs
    have hS : SI c s := by
      have g := good_reach hr
      simpa [Good, hf0] using g
    exact reserve_step (ci_reach hr hf0) (hi_reach hr hf0) hS hs hf (ih hf0)

/-- when every output slot is taken by a buffer waiting in `reord_q` and
    `order_q` is not empty, some buffer of `reord_q` is not after the head of
    `order_q` -/
theorem not_all_ahead {c : Cfg} (ho : EMIT_THRESH < c.totalOut) {s : State} (h : Reach c s)
    (hf : s.failed = false) {hd : Nat × Nat} {r : List (Nat × Nat)} (hq : s.orderQ = hd :: r)
    (hb : s.busy = []) (h0 : s.outSlots = 0) (hw : s.outq = 0) :
    ∃ o ∈ s.reordQ, posLt hd o.key = false := by
  have hr := reserve_reach ho h hf
  have hos := (ci_reach h hf).osC
  rw [emitBusy_eq, hb, h0, hw] at hos
  unfold aheadCount AC at hr
  rw [hb, hq] at hr
  simp only [List.countP_nil, EMIT_THRESH] at hr hos
  obtain ⟨o, ho', hp⟩ := exists_false_of_countP_lt (obAhead (hd :: r) s.gnext) s.reordQ (by omega)
  exact ⟨o, ho', hp⟩

end LbzVerif.Lemmas.SchedD
