/-
  Lemmas.Copy — invariants of the copy pipeline of Model.Copy and the facts
  about `xread` / the sniff that Props.C19 is assembled from.
-/
import LbzVerif.Model.Copy

namespace LbzVerif.Lemmas.Copy

open LbzVerif.Gen LbzVerif.Model.Copy

theorem readSize_le (h v a : Nat) : readSize h v a ≤ v ∧ readSize h v a ≤ a := by
  unfold readSize; omega

theorem readSize_eq_zero (h v a : Nat) (hv : v ≠ 0) : readSize h v a = 0 ↔ a = 0 := by
  unfold readSize; omega

theorem xreadGo_spec (fuel : Nat) : ∀ (inp : List UInt8) (vacant : Nat) (frag : List Nat),
    vacant ≤ fuel →
    (xreadGo fuel inp vacant frag).got = inp.take vacant ∧
    (xreadGo fuel inp vacant frag).rest = inp.drop vacant ∧
    (xreadGo fuel inp vacant frag).vacant = vacant - inp.length := by
  induction fuel with
  | zero =>
    intro inp vacant frag h
    have : vacant = 0 := by omega
    subst this; simp [xreadGo]
  | succ fuel ih =>
    intro inp vacant frag h
    unfold xreadGo
    by_cases hv : vacant = 0
    · subst hv; simp
    · rw [if_neg hv]
      have hle := readSize_le (frag.headD vacant) vacant inp.length
      by_cases hr : readSize (frag.headD vacant) vacant inp.length = 0
      · simp only [hr, if_true]
        have : inp.length = 0 := (readSize_eq_zero _ _ _ hv).1 hr
        have : inp = [] := List.eq_nil_of_length_eq_zero this
        subst this; simp
      · simp only [hr, if_false]
        generalize hrd : readSize (frag.headD vacant) vacant inp.length = rd at hle hr
        obtain ⟨h1, h2, h3⟩ := ih (inp.drop rd) (vacant - rd) frag.tail (by omega)
        have e : vacant = rd + (vacant - rd) := by omega
        refine ⟨?_, ?_, ?_⟩
        · rw [h1]; conv => rhs; rw [e, List.take_add]
        · rw [h2, List.drop_drop]; congr 1; omega
        · rw [h3, List.length_drop]; omega

theorem xread_spec (inp : List UInt8) (vacant : Nat) (frag : List Nat) :
    (xread inp vacant frag).got = inp.take vacant ∧
    (xread inp vacant frag).rest = inp.drop vacant ∧
    (xread inp vacant frag).vacant = vacant - inp.length :=
  xreadGo_spec vacant inp vacant frag (Nat.le_refl _)

/-- The input begins with a bzip2 stream header `BZh1` … `BZh9`. -/
def hasHeader : List UInt8 → Bool
  | b0 :: b1 :: b2 :: b3 :: _ =>
    b0.toNat == 0x42 && b1.toNat == 0x5A && b2.toNat == 0x68 &&
      (Nat.ble 0x31 b3.toNat && Nat.ble b3.toNat 0x39)
  | _ => false

/-- The digit of the header. -/
def headerLevel : List UInt8 → Nat
  | _ :: _ :: _ :: b3 :: _ => b3.toNat - 0x30
  | _ => 0

theorem isMagic_iff (inp : List UInt8) :
    isMagic (inp.take sniffLen) (sniffLen - inp.length) = hasHeader inp := by
  match inp with
  | [] => rfl
  | [_] => rfl
  | [_, _] => rfl
  | [_, _, _] => rfl
  | b0 :: b1 :: b2 :: b3 :: rest =>
    have h0 := b0.toNat_lt; have h1 := b1.toNat_lt; have h2 := b2.toNat_lt; have h3 := b3.toNat_lt
    simp only [sniffLen, List.take_succ_cons, List.take_zero, List.length_cons, isMagic, be32,
      hasHeader, sniffMagicBase, sniffLo, sniffHi]
    rw [Bool.eq_iff_iff]
    simp only [Bool.and_eq_true, beq_iff_eq, Nat.ble_eq]
    omega

theorem sniff_decision (inp : List UInt8) (frag : List Nat) (force stdout : Bool) :
    (sniff inp frag force stdout).1 =
      if hasHeader inp then .decompress (headerLevel inp)
      else if force && stdout then .copy (inp.take 4) else .fail := by
  obtain ⟨h1, h2, h3⟩ := xread_spec inp sniffLen frag
  simp only [sniff, decision, h1, h3, isMagic_iff]
  match inp with
  | [] => simp [hasHeader, sniffLen]
  | [_] => simp [hasHeader, sniffLen]
  | [_, _] => simp [hasHeader, sniffLen]
  | [_, _, _] => simp [hasHeader, sniffLen]
  | b0 :: b1 :: b2 :: b3 :: rest =>
    split
    · rename_i h
      have h0 := b0.toNat_lt; have h1 := b1.toNat_lt; have h2 := b2.toNat_lt; have h3 := b3.toNat_lt
      simp only [hasHeader, Bool.and_eq_true, beq_iff_eq, Nat.ble_eq] at h
      have e : be32 (List.take sniffLen (b0 :: b1 :: b2 :: b3 :: rest)) =
          b0.toNat * 2 ^ 24 + b1.toNat * 2 ^ 16 + b2.toNat * 2 ^ 8 + b3.toNat := rfl
      have e2 : headerLevel (b0 :: b1 :: b2 :: b3 :: rest) = b3.toNat - 0x30 := rfl
      rw [e, e2]
      have e3 : sniffMagicBase = 1113221168 := rfl
      rw [e3]
      apply congrArg Decision.decompress
      omega
    · simp [sniffLen]

def srcHeld : Src → Nat
  | .reading _ _ | .got _ _ | .pushing _ _ => 1
  | _ => 0
def srcBytes : Src → List UInt8
  | .reading b _ | .got b _ | .pushing b _ => b
  | _ => []
def srcOutst : Src → Nat
  | .pushing _ _ => 1
  | _ => 0
def snkHeld : Snk → Nat
  | .writing _ | .release => 1
  | _ => 0
def snkBytes : Snk → List UInt8
  | .writing r => r
  | _ => []
def snkOutst : Snk → Nat
  | .idle => 0
  | _ => 1

/-- Blocks whose `out_slots--` has happened and whose `out_slots++` has not. -/
def outstanding (s : St) : Nat := srcOutst s.src + s.queue.length + snkOutst s.snk

def chunkOk (s : St) : Prop :=
  match s.src with
  | .reading b v => b.length + v = copyGranul ∧ 0 < v
  | .got b v => b.length + v = copyGranul ∧ (0 < v → s.inp = [])
  | .pushing b v => b.length + v = copyGranul ∧ 0 < b.length ∧ (0 < v → s.inp = [])
  | .setEof => s.inp = []
  | .done => s.inp = []
  | .wait => True

structure Core (total : List UInt8) (s : St) : Prop where
  bytes : s.out ++ snkBytes s.snk ++ s.queue.flatten ++ srcBytes s.src ++ s.inp = total
  slots : s.inSlots + srcHeld s.src + s.queue.length + snkHeld s.snk = copyInSlots
  outs : s.outSlots = (copyOutSlots + u32 - outstanding s) % u32
  chunk : chunkOk s
  eofI : s.eof = true ↔ s.src = .done

def UsrOk (s : St) : Prop :=
  s.usr2 = if s.eof = true ∧ outstanding s = 0 then 1 else 0

def Inv (total : List UInt8) (s : St) : Prop := Core total s ∧ UsrOk s

theorem inv_init (hdr inp : List UInt8) : Inv (hdr ++ inp) (init hdr inp) := by
  refine ⟨⟨?_, ?_, ?_, ?_, ?_⟩, ?_⟩ <;> simp [init, snkBytes, srcBytes, srcHeld, snkHeld, outstanding,
    srcOutst, snkOutst, chunkOk, UsrOk, copyOutSlots, u32]

theorem outstanding_le {total : List UInt8} {s : St} (hc : Core total s) : outstanding s ≤ 4 := by
  obtain ⟨inp, inS, outS, eof, q, src, snk, out, usr2⟩ := s
  have hs := hc.slots
  simp only [outstanding, copyInSlots] at hs ⊢
  cases src <;> cases snk <;> simp only [srcOutst, snkOutst, srcHeld, snkHeld] at hs ⊢ <;> omega

theorem outSlots_full {total : List UInt8} {s : St} (hc : Core total s) :
    (s.outSlots == copyTotalOutSlots) = decide (outstanding s = 0) := by
  have hk := outstanding_le hc
  have ho := hc.outs
  generalize outstanding s = k at hk ho
  rw [ho, Bool.eq_iff_iff]
  simp only [copyOutSlots, copyTotalOutSlots, u32, beq_iff_eq, decide_eq_true_eq]
  omega

theorem core_usr2 {total : List UInt8} {s : St} (hc : Core total s) (n : Nat) :
    Core total { s with usr2 := n } :=
  ⟨hc.bytes, hc.slots, hc.outs, hc.chunk, hc.eofI⟩

theorem unlock_inv {total : List UInt8} {s : St} (hc : Core total s) (hu : s.usr2 = 0) :
    Inv total (unlock s) := by
  have hz := outSlots_full hc
  unfold unlock
  by_cases hcond : (s.eof && s.outSlots == copyTotalOutSlots) = true
  · rw [if_pos hcond]
    refine ⟨core_usr2 hc _, ?_⟩
    simp only [Bool.and_eq_true, hz, decide_eq_true_eq] at hcond
    show s.usr2 + 1 = if s.eof = true ∧ outstanding s = 0 then 1 else 0
    rw [if_pos hcond, hu]
  · rw [if_neg hcond]
    refine ⟨hc, ?_⟩
    simp only [Bool.and_eq_true, hz, decide_eq_true_eq] at hcond
    show s.usr2 = if s.eof = true ∧ outstanding s = 0 then 1 else 0
    rw [if_neg hcond, hu]

theorem usr2_zero_of_not_eof {s : St} (hu : UsrOk s) (h : s.eof = false) : s.usr2 = 0 := by
  unfold UsrOk at hu; rw [hu, h]; simp

theorem usr2_zero_of_outst {s : St} (hu : UsrOk s) (h : 0 < outstanding s) : s.usr2 = 0 := by
  unfold UsrOk at hu; rw [hu, if_neg]; omega

theorem eof_false_of_src {total : List UInt8} {s : St} (hc : Core total s) (h : s.src ≠ .done) :
    s.eof = false := by
  have := hc.eofI
  cases he : s.eof
  · rfl
  · exact absurd (this.1 he) h

theorem inv_step {total : List UInt8} {s s' : St} {l : Label}
    (hi : Inv total s) (h : step s l = some s') : Inv total s' := by
  obtain ⟨hc, hu⟩ := hi
  obtain ⟨inp, inS, outS, eof, q, src, snk, out, usr2⟩ := s
  cases l with
  | srcTake =>
    cases src <;> simp only [step] at h <;> try contradiction
    split at h <;> try contradiction
    rename_i hpos
    cases h
    obtain ⟨hb, hs, ho, hch, he⟩ := hc
    refine ⟨⟨?_, ?_, ?_, ?_, ?_⟩, ?_⟩
    · simpa [srcBytes] using hb
    · simp only [srcHeld] at hs ⊢; omega
    · simpa [outstanding, srcOutst] using ho
    · simp [chunkOk, copyGranul]
    · simpa using he
    · simpa [UsrOk, outstanding, srcOutst] using hu
  | srcRead hint =>
    cases src <;> simp only [step] at h <;> try contradiction
    rename_i buf vacant
    obtain ⟨hb, hs, ho, hch, he⟩ := hc
    simp only [chunkOk] at hch
    have hrs := readSize_le hint vacant inp.length
    split at h
    · rename_i hrd
      cases h
      have hz : inp.length = 0 := (readSize_eq_zero hint vacant inp.length (by omega)).1 hrd
      refine ⟨⟨?_, ?_, ?_, ?_, ?_⟩, ?_⟩
      · simpa [srcBytes] using hb
      · simpa [srcHeld] using hs
      · simpa [outstanding, srcOutst] using ho
      · simp only [chunkOk]; exact ⟨hch.1, fun _ => List.eq_nil_of_length_eq_zero hz⟩
      · simpa using he
      · simpa [UsrOk, outstanding, srcOutst] using hu
    · rename_i hrd
      cases h
      have hlen : (inp.take (readSize hint vacant inp.length)).length = readSize hint vacant inp.length := by
        rw [List.length_take]; omega
      split
      · rename_i hv0
        refine ⟨⟨?_, ?_, ?_, ?_, ?_⟩, ?_⟩
        · simpa [srcBytes, List.append_assoc] using hb
        · simpa [srcHeld] using hs
        · simpa [outstanding, srcOutst] using ho
        · simp only [chunkOk, List.length_append, hlen]; exact ⟨by omega, fun h => absurd h (by omega)⟩
        · simpa using he
        · simpa [UsrOk, outstanding, srcOutst] using hu
      · rename_i hv0
        refine ⟨⟨?_, ?_, ?_, ?_, ?_⟩, ?_⟩
        · simpa [srcBytes, List.append_assoc] using hb
        · simpa [srcHeld] using hs
        · simpa [outstanding, srcOutst] using ho
        · simp only [chunkOk, List.length_append, hlen]; omega
        · simpa using he
        · simpa [UsrOk, outstanding, srcOutst] using hu
  | srcDispatch =>
    cases src <;> simp only [step] at h <;> try contradiction
    rename_i buf vacant
    split at h
    · rename_i hb0
      cases h
      obtain ⟨hb, hs, ho, hch, he⟩ := hc
      simp only [chunkOk] at hch
      have hnil : buf = [] := List.eq_nil_of_length_eq_zero hb0
      subst hnil
      split
      · rename_i hv
        refine ⟨⟨?_, ?_, ?_, ?_, ?_⟩, ?_⟩
        · simpa [srcBytes] using hb
        · simp only [srcHeld] at hs ⊢; omega
        · simpa [outstanding, srcOutst] using ho
        · simp only [chunkOk]; exact hch.2 hv
        · simpa using he
        · simpa [UsrOk, outstanding, srcOutst] using hu
      · refine ⟨⟨?_, ?_, ?_, ?_, ?_⟩, ?_⟩
        · simpa [srcBytes] using hb
        · simp only [srcHeld] at hs ⊢; omega
        · simpa [outstanding, srcOutst] using ho
        · simp [chunkOk]
        · simpa using he
        · simpa [UsrOk, outstanding, srcOutst] using hu
    · rename_i hb0
      cases h
      have hk := outstanding_le hc
      have heof : eof = false := eof_false_of_src hc (by simp)
      have hz : usr2 = 0 := usr2_zero_of_not_eof hu heof
      obtain ⟨hb, hs, ho, hch, he⟩ := hc
      simp only [chunkOk] at hch
      apply unlock_inv
      · refine ⟨?_, ?_, ?_, ?_, ?_⟩
        · simpa [srcBytes] using hb
        · simpa [srcHeld] using hs
        · simp only [outstanding, srcOutst, copyOutSlots, u32, dec32] at ho hk ⊢; omega
        · simp only [chunkOk]; exact ⟨hch.1, by omega, hch.2⟩
        · simpa using he
      · exact hz
  | srcPush =>
    cases src <;> simp only [step] at h <;> try contradiction
    rename_i buf vacant
    cases h
    obtain ⟨hb, hs, ho, hch, he⟩ := hc
    simp only [chunkOk] at hch
    split
    · rename_i hv
      refine ⟨⟨?_, ?_, ?_, ?_, ?_⟩, ?_⟩
      · simpa [srcBytes, List.append_assoc] using hb
      · simp only [srcHeld, List.length_append, List.length_cons, List.length_nil] at hs ⊢; omega
      · simp only [outstanding, srcOutst, List.length_append, List.length_cons, List.length_nil] at ho ⊢
        rw [ho]; congr 2; omega
      · simp only [chunkOk]; exact hch.2.2 hv
      · simpa using he
      · simp only [UsrOk, outstanding, srcOutst, List.length_append, List.length_cons, List.length_nil] at hu ⊢
        rw [hu]; congr 2; apply propext; omega
    · refine ⟨⟨?_, ?_, ?_, ?_, ?_⟩, ?_⟩
      · simpa [srcBytes, List.append_assoc] using hb
      · simp only [srcHeld, List.length_append, List.length_cons, List.length_nil] at hs ⊢; omega
      · simp only [outstanding, srcOutst, List.length_append, List.length_cons, List.length_nil] at ho ⊢
        rw [ho]; congr 2; omega
      · simp [chunkOk]
      · simpa using he
      · simp only [UsrOk, outstanding, srcOutst, List.length_append, List.length_cons, List.length_nil] at hu ⊢
        rw [hu]; congr 2; apply propext; omega
  | srcEof =>
    cases src <;> simp only [step] at h <;> try contradiction
    cases h
    have heof : eof = false := eof_false_of_src hc (by simp)
    have hz : usr2 = 0 := usr2_zero_of_not_eof hu heof
    obtain ⟨hb, hs, ho, hch, he⟩ := hc
    simp only [chunkOk] at hch
    apply unlock_inv
    · refine ⟨?_, ?_, ?_, ?_, ?_⟩
      · simpa [srcBytes] using hb
      · simpa [srcHeld] using hs
      · simpa [outstanding, srcOutst] using ho
      · simpa [chunkOk] using hch
      · simp
    · exact hz
  | snkShift =>
    cases snk <;> cases q <;> simp only [step] at h <;> try contradiction
    rename_i b q'
    cases h
    obtain ⟨hb, hs, ho, hch, he⟩ := hc
    split
    · rename_i hb0
      have hnil : b = [] := List.eq_nil_of_length_eq_zero hb0
      subst hnil
      refine ⟨⟨?_, ?_, ?_, ?_, ?_⟩, ?_⟩
      · simpa [snkBytes] using hb
      · simp only [snkHeld, List.length_cons] at hs ⊢; omega
      · simp only [outstanding, snkOutst, List.length_cons] at ho ⊢
        rw [ho]; congr 2 <;> omega
      · exact hch
      · simpa using he
      · simp only [UsrOk, outstanding, snkOutst, List.length_cons] at hu ⊢
        rw [hu]; congr 2 <;> (apply propext; omega)
    · refine ⟨⟨?_, ?_, ?_, ?_, ?_⟩, ?_⟩
      · simpa [snkBytes, List.append_assoc] using hb
      · simp only [snkHeld, List.length_cons] at hs ⊢; omega
      · simp only [outstanding, snkOutst, List.length_cons] at ho ⊢
        rw [ho]; congr 2 <;> omega
      · exact hch
      · simpa using he
      · simp only [UsrOk, outstanding, snkOutst, List.length_cons] at hu ⊢
        rw [hu]; congr 2 <;> (apply propext; omega)
  | snkWrite hint =>
    cases snk <;> simp only [step] at h <;> try contradiction
    rename_i rest
    cases h
    obtain ⟨hb, hs, ho, hch, he⟩ := hc
    split
    · rename_i hd0
      have hnil := List.eq_nil_of_length_eq_zero hd0
      have hall : List.take (min (max hint 1) rest.length) rest = rest := by
        have := List.take_append_drop (min (max hint 1) rest.length) rest
        rw [hnil, List.append_nil] at this; exact this
      refine ⟨⟨?_, ?_, ?_, ?_, ?_⟩, ?_⟩
      · simpa [snkBytes, hall] using hb
      · simpa [snkHeld] using hs
      · simpa [outstanding, snkOutst] using ho
      · exact hch
      · simpa using he
      · simpa [UsrOk, outstanding, snkOutst] using hu
    · refine ⟨⟨?_, ?_, ?_, ?_, ?_⟩, ?_⟩
      · simpa [snkBytes, List.append_assoc] using hb
      · simpa [snkHeld] using hs
      · simpa [outstanding, snkOutst] using ho
      · exact hch
      · simpa using he
      · simpa [UsrOk, outstanding, snkOutst] using hu
  | snkRelease =>
    cases snk <;> simp only [step] at h <;> try contradiction
    cases h
    obtain ⟨hb, hs, ho, hch, he⟩ := hc
    refine ⟨⟨?_, ?_, ?_, ?_, ?_⟩, ?_⟩
    · simpa [snkBytes] using hb
    · simp only [snkHeld] at hs ⊢; omega
    · simpa [outstanding, snkOutst] using ho
    · exact hch
    · simpa using he
    · simpa [UsrOk, outstanding, snkOutst] using hu
  | snkInc =>
    cases snk <;> simp only [step] at h <;> try contradiction
    cases h
    have hk := outstanding_le hc
    have hz : usr2 = 0 := usr2_zero_of_outst hu (by simp [outstanding, snkOutst])
    obtain ⟨hb, hs, ho, hch, he⟩ := hc
    apply unlock_inv
    · refine ⟨?_, ?_, ?_, ?_, ?_⟩
      · simpa [snkBytes] using hb
      · simpa [snkHeld] using hs
      · simp only [outstanding, snkOutst, copyOutSlots, u32, inc32] at ho hk ⊢; omega
      · exact hch
      · simpa using he
    · exact hz

def srcW : Src → Nat
  | .wait => 5 | .reading _ _ => 4 | .got _ _ => 3 | .pushing _ _ => 2 | .setEof => 1 | .done => 0
def snkW : Snk → Nat
  | .writing _ => 3 | .release => 2 | .inc => 1 | .idle => 0

/-- Termination measure: every byte gets cheaper as it moves from the input
towards the output, every queue entry and every program counter position has a
weight; each step of either thread lowers the total. -/
def cost (s : St) : Nat :=
  30 * s.inp.length + 20 * (srcBytes s.src).length + 5 * s.queue.flatten.length +
    4 * s.queue.length + 3 * (snkBytes s.snk).length + srcW s.src + snkW s.snk

theorem cost_step {total : List UInt8} {s s' : St} {l : Label}
    (hi : Inv total s) (h : step s l = some s') : cost s' < cost s := by
  obtain ⟨hc, hu⟩ := hi
  obtain ⟨inp, inS, outS, eof, q, src, snk, out, usr2⟩ := s
  have hch := hc.chunk
  cases l with
  | srcTake =>
    cases src <;> simp only [step] at h <;> try contradiction
    split at h <;> try contradiction
    cases h
    simp [cost, srcBytes, srcW]
  | srcRead hint =>
    cases src <;> simp only [step] at h <;> try contradiction
    rename_i buf vacant
    simp only [chunkOk] at hch
    have hrs := readSize_le hint vacant inp.length
    split at h
    · cases h; simp [cost, srcBytes, srcW]
    · rename_i hrd
      cases h
      have hlen : (inp.take (readSize hint vacant inp.length)).length = readSize hint vacant inp.length := by
        rw [List.length_take]; omega
      split <;> simp only [cost, srcBytes, srcW, List.length_append, List.length_drop, hlen] <;> omega
  | srcDispatch =>
    cases src <;> simp only [step] at h <;> try contradiction
    rename_i buf vacant
    simp only [chunkOk, copyGranul] at hch
    split at h
    · rename_i hb0
      cases h
      have : 0 < vacant := by omega
      simp only [this, if_true]
      simp only [cost, srcBytes, srcW, hb0, List.length_nil]; omega
    · cases h
      simp only [unlock]
      split <;> simp only [cost, srcBytes, srcW] <;> omega
  | srcPush =>
    cases src <;> simp only [step] at h <;> try contradiction
    rename_i buf vacant
    simp only [chunkOk] at hch
    cases h
    split <;> simp only [cost, srcBytes, srcW, List.flatten_append, List.flatten_cons, List.flatten_nil,
      List.append_nil, List.length_append, List.length_cons, List.length_nil] <;> omega
  | srcEof =>
    cases src <;> simp only [step] at h <;> try contradiction
    cases h
    simp only [unlock]
    split <;> simp only [cost, srcBytes, srcW] <;> omega
  | snkShift =>
    cases snk <;> cases q <;> simp only [step] at h <;> try contradiction
    rename_i b q'
    cases h
    split <;> simp only [cost, snkBytes, snkW, List.flatten_cons, List.length_append, List.length_cons,
      List.length_nil] <;> omega
  | snkWrite hint =>
    cases snk <;> simp only [step] at h <;> try contradiction
    rename_i rest
    cases h
    split
    · simp only [cost, snkBytes, snkW, List.length_nil]; omega
    · rename_i hne
      simp only [List.length_drop] at hne
      simp only [cost, snkBytes, snkW, List.length_drop]; omega
  | snkRelease =>
    cases snk <;> simp only [step] at h <;> try contradiction
    cases h
    simp only [cost, snkBytes, snkW]; omega
  | snkInc =>
    cases snk <;> simp only [step] at h <;> try contradiction
    cases h
    simp only [unlock]
    split <;> simp only [cost, snkBytes, snkW] <;> omega

theorem progress {total : List UInt8} {s : St} (hi : Inv total s) (hnt : terminal s = false) :
    ∃ l s', step s l = some s' := by
  obtain ⟨hc, hu⟩ := hi
  obtain ⟨inp, inS, outS, eof, q, src, snk, out, usr2⟩ := s
  have hs := hc.slots
  simp only [copyInSlots] at hs
  cases src with
  | reading b v => exact ⟨.srcRead 0, by simp only [step]; split <;> exact ⟨_, rfl⟩⟩
  | got b v => exact ⟨.srcDispatch, by simp only [step]; split <;> exact ⟨_, rfl⟩⟩
  | pushing b v => exact ⟨.srcPush, _, rfl⟩
  | setEof => exact ⟨.srcEof, _, rfl⟩
  | wait =>
    by_cases hin : 0 < inS
    · exact ⟨.srcTake, by simp only [step, hin, if_true]; exact ⟨_, rfl⟩⟩
    · cases snk with
      | writing r => exact ⟨.snkWrite 0, _, rfl⟩
      | release => exact ⟨.snkRelease, _, rfl⟩
      | inc => exact ⟨.snkInc, _, rfl⟩
      | idle =>
        cases q with
        | nil => simp only [srcHeld, snkHeld, List.length_nil] at hs; omega
        | cons b q' => exact ⟨.snkShift, _, rfl⟩
  | done =>
    cases snk with
    | writing r => exact ⟨.snkWrite 0, _, rfl⟩
    | release => exact ⟨.snkRelease, _, rfl⟩
    | inc => exact ⟨.snkInc, _, rfl⟩
    | idle =>
      cases q with
      | nil => simp [terminal] at hnt
      | cons b q' => exact ⟨.snkShift, _, rfl⟩

/-! ### Executions given as label lists (for concrete witnesses) -/

/-- Run a list of labels; `none` if one of them is not enabled. -/
def runLabels : List Label → St → Option St
  | [], s => some s
  | l :: ls, s => (step s l).bind (runLabels ls)

theorem Reach.head {s0 s1 s : St} {l : Label} (h : step s0 l = some s1) (hr : Reach s1 s) :
    Reach s0 s := by
  induction hr with
  | refl => exact .step l .refl h
  | step l' _ hs ih => exact .step l' ih hs

theorem reach_of_labels : ∀ (ls : List Label) {s0 s : St}, runLabels ls s0 = some s → Reach s0 s
  | [], s0, s, h => by cases h; exact .refl
  | l :: ls, s0, s, h => by
    simp only [runLabels] at h
    cases hs : step s0 l with
    | none => rw [hs] at h; cases h
    | some s1 => rw [hs] at h; exact Reach.head hs (reach_of_labels ls h)

end LbzVerif.Lemmas.Copy
