/-
  Lemmas.IbwtDerand — derandomisation: the index-jumping loop of `decode()`

      i = 0, j = RAND_THRESH;
      while (j < n) { tt[j] ^= 1; i = (i + 1) & 0x1FF; j += rand_table[i]; }

  flips exactly the positions that the reference automaton (`rNToGo`, `rTPos`)
  of `Spec.Ibwt.derand` flips, for EVERY block length.

  Both are related to `flipsGo f rt d t`: "flip the element `d` positions
  ahead, then continue with distance `rt[t] - 1` and table position `t + 1
  (mod 512)`".  Facts taken from the generated table: all 512 entries are
  ≥ 3 and `rand_table[0] - 2 = RAND_THRESH` (`decide`).
-/
import LbzVerif.Model.Ibwt

namespace LbzVerif.Lemmas.IbwtDerand

open LbzVerif
open LbzVerif.Model.Ibwt

/-- Flip (apply `f` to) the element `d` positions ahead; the next flip is
`rt[t]` positions after it; `t` advances cyclically. -/
def flipsGo {α : Type} (f : α → α) (rt : List Nat) : Nat → Nat → List α → List α
  | _, _, [] => []
  | 0, t, b :: bs => f b :: flipsGo f rt (rt.getD t 0 - 1) ((t + 1) % 512) bs
  | d + 1, t, b :: bs => b :: flipsGo f rt d t bs

theorem flipsGo_nil {α : Type} (f : α → α) (rt : List Nat) (d t : Nat) :
    flipsGo f rt d t [] = [] := by
  cases d <;> rfl

theorem flipsGo_length {α : Type} (f : α → α) (rt : List Nat) :
    ∀ (l : List α) (d t : Nat), (flipsGo f rt d t l).length = l.length := by
  intro l
  induction l with
  | nil => intro d t; rw [flipsGo_nil]
  | cons b bs ih =>
    intro d t
    cases d <;> simp [flipsGo, ih]

theorem flipsGo_split {α : Type} (f : α → α) (rt : List Nat) :
    ∀ (d t : Nat) (l : List α),
      flipsGo f rt d t l = l.take d ++ flipsGo f rt 0 t (l.drop d) := by
  intro d
  induction d with
  | zero => intro t l; simp
  | succ d ih =>
    intro t l
    cases l with
    | nil => simp [flipsGo_nil]
    | cons b bs => simp [flipsGo, ih t bs]

theorem flipsGo_map {α β : Type} (f : α → α) (f' : β → β) (g : α → β) (rt : List Nat)
    (h : ∀ x, g (f x) = f' (g x)) :
    ∀ (l : List α) (d t : Nat), (flipsGo f rt d t l).map g = flipsGo f' rt d t (l.map g) := by
  intro l
  induction l with
  | nil => intro d t; simp [flipsGo_nil]
  | cons b bs ih =>
    intro d t
    cases d <;> simp [flipsGo, ih, h]

/-! ### The reference automaton -/

section Spec
open LbzVerif.Spec.Ibwt (derandGo derand)

theorem derandGo_succ (rt : List Nat) (g t : Nat) (b : UInt8) (bs : List UInt8) :
    derandGo rt (g + 1) t (b :: bs) =
      (if g = 1 then b ^^^ 1 else b) :: derandGo rt g t bs := by
  simp [derandGo]

theorem derandGo_zero (rt : List Nat) (t : Nat) (b : UInt8) (bs : List UInt8) :
    derandGo rt 0 t (b :: bs) =
      (if rt.getD t 0 - 1 = 1 then b ^^^ 1 else b) ::
        derandGo rt (rt.getD t 0 - 1) ((t + 1) % 512) bs := by
  simp [derandGo]

/-- The automaton in its three kinds of states, against `flipsGo`. -/
theorem derandGo_flips (rt : List Nat) (hrt : ∀ t, t < 512 → 3 ≤ rt.getD t 0) :
    ∀ (bs : List UInt8) (t : Nat), t < 512 →
      (∀ d, derandGo rt (d + 2) t bs = flipsGo (· ^^^ 1) rt d t bs) ∧
      derandGo rt 1 t bs = flipsGo (· ^^^ 1) rt (rt.getD t 0 - 1) ((t + 1) % 512) bs ∧
      derandGo rt 0 t bs = flipsGo (· ^^^ 1) rt (rt.getD t 0 - 2) ((t + 1) % 512) bs := by
  intro bs
  induction bs with
  | nil =>
    intro t _
    refine ⟨fun d => ?_, ?_, ?_⟩ <;> simp [derandGo, flipsGo_nil]
  | cons b bs ih =>
    intro t ht
    have hr := hrt t ht
    have ht' : (t + 1) % 512 < 512 := Nat.mod_lt _ (by omega)
    obtain ⟨ih1, ih2, ih3⟩ := ih t ht
    refine ⟨fun d => ?_, ?_, ?_⟩
    · cases d with
      | zero =>
        rw [derandGo_succ, ih2]
        simp [flipsGo]
      | succ d =>
        rw [show d + 1 + 2 = (d + 2) + 1 from rfl, derandGo_succ, ih1 d]
        have : ¬ d + 2 = 1 := by omega
        simp [flipsGo, this]
    · rw [derandGo_succ, ih3]
      obtain ⟨r, hr'⟩ : ∃ r, rt.getD t 0 = r + 3 := ⟨rt.getD t 0 - 3, by omega⟩
      rw [hr']
      simp [flipsGo]
    · rw [derandGo_zero]
      obtain ⟨r, hr'⟩ : ∃ r, rt.getD t 0 = r + 3 := ⟨rt.getD t 0 - 3, by omega⟩
      rw [hr']
      have e1 : r + 3 - 1 = r + 2 := by omega
      have e2 : r + 3 - 2 = r + 1 := by omega
      have e3 : ¬ r + 2 = 1 := by omega
      rw [e1, e2, (ih ((t + 1) % 512) ht').1 r]
      simp [flipsGo, e3]

theorem derand_flips (rt : List Nat) (hrt : ∀ t, t < 512 → 3 ≤ rt.getD t 0) (bs : List UInt8) :
    derand rt bs = flipsGo (· ^^^ 1) rt (rt.getD 0 0 - 2) 1 bs :=
  (derandGo_flips rt hrt bs 0 (by omega)).2.2

end Spec

/-! ### The generated table -/

theorem randTable_all : Gen.randTable.all (fun r => decide (3 ≤ r)) = true := by decide +kernel
theorem randTable_len : Gen.randTable.length = 512 := by decide +kernel

theorem randTable_ge (t : Nat) (ht : t < 512) : 3 ≤ Gen.randTable.getD t 0 := by
  have hl : t < Gen.randTable.length := by rw [randTable_len]; exact ht
  have hm : Gen.randTable[t] ∈ Gen.randTable := List.getElem_mem hl
  have := List.all_eq_true.mp randTable_all _ hm
  rw [List.getD_eq_getElem?_getD, List.getElem?_eq_getElem hl]
  simpa using this

theorem randTable_ge' (t : Nat) (ht : t < 512) : 1 ≤ Gen.randTable.getD t 0 := by
  have := randTable_ge t ht; omega

theorem randTable_zero : Gen.randTable.getD 0 0 - 2 = Gen.RAND_THRESH := by decide

/-- The reference derandomisation over the generated table. -/
theorem derand_randTable (bs : List UInt8) :
    Spec.Ibwt.derand Gen.randTable bs = flipsGo (· ^^^ 1) Gen.randTable Gen.RAND_THRESH 1 bs := by
  rw [derand_flips _ randTable_ge, randTable_zero]

/-! ### The loop of `decode()` -/

theorem and_1FF (x : Nat) : x &&& 0x1FF = x % 512 :=
  Nat.and_two_pow_sub_one_eq_mod x 9

theorem derandLoop_length (n : Nat) : ∀ (fuel i j : Nat) (tt : List Nat),
    (derandLoop n fuel i j tt).length = tt.length := by
  intro fuel
  induction fuel with
  | zero => intro i j tt; rfl
  | succ fuel ih =>
    intro i j tt
    simp only [derandLoop]
    split
    · rw [ih]; simp
    · rfl

/-- With enough fuel (`n ≤ j + fuel`; every table entry is ≥ 1) the loop flips
`tt[j]` and then every position `flipsGo` reaches from there. -/
theorem derandLoop_flips (n : Nat) : ∀ (fuel i j : Nat) (tt : List Nat),
    tt.length = n → n ≤ j + fuel →
      derandLoop n fuel i j tt =
        tt.take j ++ flipsGo (· ^^^ 1) Gen.randTable 0 ((i + 1) % 512) (tt.drop j) := by
  intro fuel
  induction fuel with
  | zero =>
    intro i j tt hl hf
    have : tt.length ≤ j := by omega
    simp [derandLoop, List.take_of_length_le this, List.drop_eq_nil_of_le this, flipsGo_nil]
  | succ fuel ih =>
    intro i j tt hl hf
    simp only [derandLoop]
    by_cases hj : j < n
    · simp only [hj, if_true, and_1FF]
      have ht : (i + 1) % 512 < 512 := Nat.mod_lt _ (by omega)
      obtain ⟨r, hr⟩ : ∃ r, Gen.randTable.getD ((i + 1) % 512) 0 = r + 1 :=
        ⟨Gen.randTable.getD ((i + 1) % 512) 0 - 1, by have := randTable_ge' _ ht; omega⟩
      have hjl : j < tt.length := by omega
      rw [ih _ _ _ (by simp [hl]) (by omega), hr]
      have hset : tt.set j (tt.getD j 0 ^^^ 1) =
          tt.take j ++ (tt.getD j 0 ^^^ 1) :: tt.drop (j + 1) := by
        rw [List.set_eq_take_append_cons_drop, if_pos hjl]
      have hlen : (tt.take j).length = j := by simp; omega
      rw [hset]
      have e1 : j + (r + 1) = (tt.take j).length + (r + 1) := by rw [hlen]
      rw [e1, List.take_length_add_append, List.drop_length_add_append,
        List.drop_eq_getElem_cons hjl]
      have hg : tt.getD j 0 = tt[j] := by
        simp [List.getD_eq_getElem?_getD, List.getElem?_eq_getElem hjl]
      simp only [flipsGo, hr, List.take_succ_cons, List.drop_succ_cons, hg]
      rw [flipsGo_split _ _ (r + 1 - 1)]
      simp
    · simp only [hj, if_false]
      have : tt.length ≤ j := by omega
      simp [List.take_of_length_le this, List.drop_eq_nil_of_le this, flipsGo_nil]

/-- **The derandomisation loop of `decode()`**, for every block length. -/
theorem derandLoop_eq (tt : List Nat) :
    derandLoop tt.length tt.length 0 Gen.RAND_THRESH tt =
      flipsGo (· ^^^ 1) Gen.randTable Gen.RAND_THRESH 1 tt := by
  rw [derandLoop_flips tt.length _ _ _ tt rfl (by omega), flipsGo_split _ _ Gen.RAND_THRESH]

/-- Low byte of a cell. -/
def low (v : Nat) : UInt8 := UInt8.ofNat (v % 256)

theorem low_eq (v : Nat) : low v = UInt8.ofNat v := by
  unfold low
  exact UInt8.ofNat_mod_size (x := v)

theorem low_xor (v : Nat) : low (v ^^^ 1) = low v ^^^ 1 := by
  rw [low_eq, low_eq, UInt8.ofNat_xor]
  rfl

/-- The bytes of the cells after the loop = the reference derandomisation of
the bytes of the cells before it. -/
theorem derandLoop_low (tt : List Nat) :
    (derandLoop tt.length tt.length 0 Gen.RAND_THRESH tt).map low =
      Spec.Ibwt.derand Gen.randTable (tt.map low) := by
  rw [derandLoop_eq, derand_randTable]
  exact flipsGo_map _ _ low _ low_xor _ _ _

end LbzVerif.Lemmas.IbwtDerand
