/-
  Lemmas.PrefixTree — facts about `Model.Canon.makeTree` (decode.c make_tree):
  the 64-bit Kraft accumulation equals `Spec.kraft20`, and the sentinel
  `base[21] = UINT64_MAX` stops the canonical walk.
-/
import LbzVerif.Spec.Prefix
import LbzVerif.Model.Canon
import LbzVerif.Lemmas.PrefixCanon

namespace LbzVerif.Lemmas.PrefixTree
open LbzVerif LbzVerif.Spec.Prefix LbzVerif.Model.Canon LbzVerif.Lemmas.PrefixCanon

/-! ### the Kraft test -/

theorem foldl_add_mod (M : Nat) : ∀ (xs : List Nat) (a : Nat),
    xs.foldl (fun s x => (s + x) % M) a = if xs = [] then a else (a + xs.sum) % M := by
  intro xs
  induction xs with
  | nil => intro a; simp
  | cons x t ih =>
    intro a
    simp only [List.foldl_cons, ih, List.sum_cons]
    by_cases ht : t = []
    · subst ht; simp
    · simp only [ht, if_false, reduceCtorEq]
      rw [Nat.mod_add_mod, Nat.add_assoc]

theorem sum_map_mod (M : Nat) {α : Type} (l : List α) (f : α → Nat) :
    (l.map (fun x => f x % M)).sum % M = (l.map f).sum % M := by
  induction l with
  | nil => rfl
  | cons a t ih =>
    simp only [List.map_cons, List.sum_cons]
    rw [Nat.add_mod, Nat.mod_mod, ih, ← Nat.add_mod]

theorem cnt_cons (l : Nat) (t : List Nat) (k : Nat) :
    cnt (l :: t) k = cnt t k + (if l = k then 1 else 0) := by
  unfold cnt
  rw [List.countP_cons]
  by_cases h : l = k <;> simp [h]

theorem kraft20_cons (l : Nat) (t : List Nat) : kraft20 (l :: t) = width l + kraft20 t := by
  unfold kraft20
  rw [List.map_cons, List.sum_cons]

/-- Counting by length: `Σ_{k=1..20} C[k]·2^(20-k) = Σ_ℓ 2^(20-ℓ)`. -/
theorem sum_cnt_eq_kraft (lens : List Nat) (hr : ∀ l ∈ lens, 1 ≤ l ∧ l ≤ 20) :
    ((List.range 20).map (fun j => cnt lens (j + 1) * 2 ^ (20 - (j + 1)))).sum = kraft20 lens := by
  induction lens with
  | nil =>
    rw [sum_map_zero _ _ (fun x _ => by simp [cnt])]
    rfl
  | cons l t ih =>
    have hl := hr l (List.mem_cons_self ..)
    have iht := ih (fun x hx => hr x (List.mem_cons_of_mem _ hx))
    have e : (fun j => cnt (l :: t) (j + 1) * 2 ^ (20 - (j + 1)))
        = (fun j => cnt t (j + 1) * 2 ^ (20 - (j + 1)) + (if j = l - 1 then width l else 0)) := by
      funext j
      rw [cnt_cons, Nat.add_mul]
      by_cases h : l = j + 1
      · subst h
        rw [if_pos rfl, if_pos (by omega), Nat.one_mul]
        unfold width
        rfl
      · rw [if_neg h, if_neg (by omega), Nat.zero_mul]
    rw [e, sum_map_add, iht, sum_range_indicator 20 (l - 1) (width l) (by omega), kraft20_cons,
      Nat.add_comm]

theorem kraft20_le (lens : List Nat) : kraft20 lens ≤ lens.length * 2 ^ 20 := by
  induction lens with
  | nil => simp [kraft20]
  | cons l t ih =>
    simp only [kraft20, List.map_cons, List.sum_cons, List.length_cons] at ih ⊢
    have : width l ≤ 2 ^ 20 := Nat.pow_le_pow_right (by decide) (by omega)
    rw [Nat.succ_mul]; omega

/-- The 64-bit accumulation of make_tree is the Kraft sum (no wrap-around for
an alphabet of at most 258 symbols). -/
theorem kraftSum_eq (lens : List Nat) (hr : ∀ l ∈ lens, 1 ≤ l ∧ l ≤ 20)
    (hn : lens.length ≤ 258) : kraftSum lens = kraft20 lens := by
  unfold kraftSum
  rw [foldl_add_mod]
  have hne : ¬ (List.map (fun j => cnt lens (j + 1) <<< (MAXL - (j + 1)) % M64) (List.range MAXL)) = [] := by
    simp [MAXL, Gen.MAX_CODE_LENGTH]
  rw [if_neg hne, Nat.zero_add, sum_map_mod]
  have e : (fun j => cnt lens (j + 1) <<< (MAXL - (j + 1)))
      = (fun j => cnt lens (j + 1) * 2 ^ (20 - (j + 1))) := by
    funext j; rw [Nat.shiftLeft_eq]; rfl
  rw [e]
  have h20 : MAXL = 20 := rfl
  rw [h20, sum_cnt_eq_kraft lens hr]
  apply Nat.mod_eq_of_lt
  have := kraft20_le lens
  have : lens.length * 2 ^ 20 ≤ 258 * 2 ^ 20 := Nat.mul_le_mul_right _ hn
  have : (258 : Nat) * 2 ^ 20 < M64 := by decide
  omega

/-! ### the sentinel -/

theorem getD_set_ne (B : List Nat) (i j x d : Nat) (h : i ≠ j) :
    (B.set i x).getD j d = B.getD j d := by
  simp [List.getD_eq_getElem?_getD, h]

theorem sentinel_getD_above (lens : List Nat) : ∀ (k : Nat) (B : List Nat) (j : Nat), k < j →
    (sentinel lens k B).getD j 0 = B.getD j 0 := by
  intro k
  induction k with
  | zero => intro B j _; rfl
  | succ k ih =>
    intro B j hj
    unfold sentinel
    split
    · rw [ih _ j (by omega), getD_set_ne _ _ _ _ _ (by omega)]
    · rfl

/-- `base[21]` is `UINT64_MAX`, whatever the lengths. -/
theorem base21 (lens : List Nat) : (mkBase lens).getD 21 0 = M64 - 1 := by
  unfold mkBase
  have h20 : MAXL = 20 := rfl
  simp only [h20]
  rw [sentinel_getD_above lens 20 _ 21 (by omega)]
  have hl : (ljLoop lens 20 1 0).length = 20 := by
    have : ∀ n k s, (ljLoop lens n k s).length = n := by
      intro n; induction n with
      | zero => intro k s; rfl
      | succ n ih => intro k s; simp [ljLoop, ih]
    exact this 20 1 0
  simp [List.getD_eq_getElem?_getD, hl]

/-- The walk `while (v >= base[k+1]) k++` never passes index 20 when
`base[21] > v`. -/
theorem walkUp_le (B : List Nat) (v : Nat) (h21 : v < B.getD 21 0) :
    ∀ fuel k, k ≤ 20 → walkUp B v fuel k ≤ 20 := by
  intro fuel
  induction fuel with
  | zero => intro k hk; exact hk
  | succ f ih =>
    intro k hk
    unfold walkUp
    split
    · rename_i hge
      have : k + 1 ≠ 21 := by
        intro e; rw [e] at hge; omega
      exact ih (k + 1) (by omega)
    · exact hk

end LbzVerif.Lemmas.PrefixTree
