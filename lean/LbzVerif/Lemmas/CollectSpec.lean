/-
  Lemmas.CollectSpec — the reference machine `canon` against the specification:
  it accepts a byte exactly when the run-length encoding of the bytes accepted
  so far plus that byte still fits into `cap`.
-/
import LbzVerif.Lemmas.CollectSplit
import LbzVerif.Lemmas.Rle1Len

namespace LbzVerif.Model
open LbzVerif.Spec

/-- The C block and `rle_state` against the specification's encoder state after
the same bytes: the block holds the closed runs and up to four copies of the open
run (its count byte is still missing), and there is room for that count byte. -/
def Rel (cap : Nat) (blk : List UInt8) (rle : Rle) (st : RunSt) : Prop :=
  blk = st.out ++ List.replicate (min st.r 4) st.c ∧
  rle = (if st.r = 0 then .idle else .run st.r st.c) ∧
  st.r + 1 ≤ 259 ∧ (4 ≤ st.r → blk.length + 1 ≤ cap)

theorem rel_len {cap blk rle st} (h : Rel cap blk rle st) :
    lenSt st = blk.length + (if 4 ≤ st.r then 1 else 0) := by
  obtain ⟨hb, _, _, _⟩ := h
  subst hb
  simp only [lenSt, List.length_append, List.length_replicate]
  split <;> omega

theorem rel_finish {cap blk rle st} (crc : UInt32) (h : Rel cap blk rle st) :
    finish ⟨cap, blk, rle, crc⟩ = encSt st := by
  obtain ⟨hb, hr, _, _⟩ := h
  subst hb hr
  rcases st with ⟨out, c, r⟩
  simp only [finish, encSt, flush]
  by_cases h0 : r = 0
  · subst h0; simp
  · simp only [h0, if_false]
    by_cases h4 : r ≥ 4
    · have : min r 4 = 4 := by omega
      simp [h4, this, List.replicate]
    · have : min r 4 = r := by omega
      simp [h4, this]

theorem rel_eager {cap blk rle st} (h : Rel cap blk rle st) (hn : blk.length ≥ cap)
    (hfit : lenSt st ≤ cap) :
    blk = encSt st ∧ ∀ x, cap < lenSt (stepSt st x) := by
  have hl := rel_len h
  obtain ⟨hb, hr, h259, hroom⟩ := h
  have h4 : ¬ 4 ≤ st.r := fun hc => by have := hroom hc; omega
  constructor
  · rw [hb, encSt, flush]
    have : min st.r 4 = st.r := by omega
    simp [h4, this]
  · intro x
    rw [lenSt_stepSt st x (by show st.r + 1 ≤ 259; omega)]
    simp only [h4, if_false, Nat.add_zero] at hl
    have : 1 ≤ delta st x := by
      unfold delta; split <;> (try split) <;> (try split) <;> omega
    omega

theorem stepByte_stop {cap blk rle st} (x : UInt8) (h : Rel cap blk rle st)
    (hn : blk.length < cap) (blk' : List UInt8)
    (hs : stepByte cap blk rle x = .stop blk') :
    cap < lenSt (stepSt st x) ∧ blk' = encSt st := by
  have hl := rel_len h
  have hls := lenSt_stepSt st x (by show st.r + 1 ≤ 259; exact h.2.2.1)
  obtain ⟨hb, hr, h259, hroom⟩ := h
  rcases st with ⟨out, c, r⟩
  simp only at hb hr h259 hroom hl hls
  subst hr
  unfold stepByte at hs
  by_cases h0 : r = 0
  · subst h0; simp at hs
  · simp only [h0, if_false] at hs
    split at hs
    · rename_i hlt
      split at hs
      · rename_i hx
        split at hs
        · rename_i hst
          simp only [Step.stop.injEq] at hs
          subst hs
          obtain ⟨h3, hge⟩ := hst
          subst h3
          constructor
          · rw [hls]; simp only [delta, hx, if_true]
            simp at hl ⊢; omega
          · rw [hb]; simp [encSt, flush]
        · simp at hs
      · simp at hs
    · rename_i hge
      split at hs
      · split at hs <;> simp at hs
      · rename_i hx
        split at hs
        · rename_i hfull
          simp only [Step.stop.injEq] at hs
          subst hs
          have h4 : 4 ≤ r := by omega
          constructor
          · rw [hls]; simp only [delta, hx, if_false]
            simp only [h4, if_true] at hl; omega
          · rw [hb]
            have : min r 4 = 4 := by omega
            simp [encSt, flush, h4, this, List.replicate]
        · simp at hs

theorem stepByte_next {cap blk rle st} (x : UInt8) (h : Rel cap blk rle st)
    (hn : blk.length < cap) (blk' : List UInt8) (rle' : Rle)
    (hs : stepByte cap blk rle x = .next blk' rle') :
    Rel cap blk' rle' (stepSt st x) ∧ lenSt (stepSt st x) ≤ cap := by
  have hm : maxRun = 259 := rfl
  have hm' : MAX_RUN_LENGTH = 259 := rfl
  have hl := rel_len h
  have hls := lenSt_stepSt st x (by show st.r + 1 ≤ 259; exact h.2.2.1)
  obtain ⟨hb, hr, h259, hroom⟩ := h
  rcases st with ⟨out, c, r⟩
  simp only at hb hr h259 hroom hl hls
  subst hr
  unfold stepByte at hs
  by_cases h0 : r = 0
  · subst h0
    simp only [if_true, Step.next.injEq] at hs
    obtain ⟨rfl, rfl⟩ := hs
    simp only [Nat.zero_min, List.replicate_zero, List.append_nil] at hb
    subst hb
    by_cases hx : x = c
    · subst hx
      refine ⟨⟨?_, ?_, ?_, ?_⟩, ?_⟩ <;> simp [stepSt, hm, lenSt] <;> omega
    · refine ⟨⟨?_, ?_, ?_, ?_⟩, ?_⟩ <;> simp [stepSt, hx, lenSt, flush] <;> omega
  · simp only [h0, if_false] at hs
    split at hs
    · rename_i hlt
      have hmin : min r 4 = r := by omega
      have h4 : ¬ 4 ≤ r := by omega
      rw [hmin] at hb
      simp only [h4, if_false, Nat.add_zero] at hl
      split at hs
      · rename_i hx
        subst hx
        split at hs
        · simp at hs
        · rename_i hst
          simp only [Step.next.injEq] at hs
          obtain ⟨rfl, rfl⟩ := hs
          have hne : ¬ r + 1 = maxRun := by omega
          have hroom' : r = 3 → blk.length + 1 < cap := by
            intro h3; apply Nat.lt_of_not_le; intro hc; exact hst ⟨h3, hc⟩
          refine ⟨⟨?_, ?_, ?_, ?_⟩, ?_⟩
          · have : min (r + 1) 4 = r + 1 := by omega
            simp [stepSt, hne, this, hb, List.replicate_succ']
          · simp [stepSt, hne]
          · simp only [stepSt, if_true, hne, if_false]; omega
          · simp only [stepSt, if_true, hne, if_false, List.length_append, List.length_cons,
              List.length_nil]
            intro h; have := hroom' (by omega); omega
          · rw [hls]; simp only [delta, if_true, h4, if_false]
            split
            · rename_i h3; have := hroom' h3; omega
            · omega
      · rename_i hx
        simp only [Step.next.injEq] at hs
        obtain ⟨rfl, rfl⟩ := hs
        refine ⟨⟨?_, ?_, ?_, ?_⟩, ?_⟩
        · simp [stepSt, hx, flush, h4, hb]
        · simp [stepSt, hx]
        · simp [stepSt, hx]
        · simp [stepSt, hx]
        · rw [hls]; simp only [delta, hx, if_false]; omega
    · rename_i hge
      have h4 : 4 ≤ r := by omega
      have hmin : min r 4 = 4 := by omega
      rw [hmin] at hb
      simp only [h4, if_true] at hl
      have hroom4 := hroom h4
      split at hs
      · rename_i hx
        subst hx
        split at hs
        · rename_i hmax
          simp only [Step.next.injEq] at hs
          obtain ⟨rfl, rfl⟩ := hs
          have hmax' : r + 1 = maxRun := hmax
          refine ⟨⟨?_, ?_, ?_, ?_⟩, ?_⟩
          · simp [stepSt, hmax', hb, flush, hm, List.replicate]
          · simp [stepSt, hmax']
          · simp [stepSt, hmax']
          · simp [stepSt, hmax']
          · rw [hls]; simp only [delta, if_true]
            have : r ≥ 4 := h4
            simp only [this, if_true]; omega
        · rename_i hmax
          simp only [Step.next.injEq] at hs
          obtain ⟨rfl, rfl⟩ := hs
          have hmax' : ¬ r + 1 = maxRun := hmax
          refine ⟨⟨?_, ?_, ?_, ?_⟩, ?_⟩
          · have : min (r + 1) 4 = 4 := by omega
            simp [stepSt, hmax', this, hb]
          · simp [stepSt, hmax']
          · simp only [stepSt, if_true, hmax', if_false]; omega
          · simp only [stepSt, if_true, hmax', if_false]; intro _; exact hroom4
          · rw [hls]; simp only [delta, if_true]
            have : r ≥ 4 := h4
            simp only [this, if_true]; omega
      · rename_i hx
        split at hs
        · simp at hs
        · rename_i hfull
          simp only [Step.next.injEq] at hs
          obtain ⟨rfl, rfl⟩ := hs
          refine ⟨⟨?_, ?_, ?_, ?_⟩, ?_⟩
          · simp [stepSt, hx, flush, h4, hb, List.replicate]
          · simp [stepSt, hx]
          · simp [stepSt, hx]
          · simp [stepSt, hx]
          · rw [hls]; simp only [delta, hx, if_false]; omega

/-- The reference machine against the specification, from a state related to the
encoder state `st` that fits. `k` is the number of bytes consumed. -/
theorem canon_spec (cap : Nat) (p : List UInt8) : ∀ blk rle crc st,
    Rel cap blk rle st → lenSt st ≤ cap →
    ∃ k, k + (canon cap blk rle crc p).2 = p.length ∧
      lenSt ((p.take k).foldl stepSt st) ≤ cap ∧
      (k < p.length → cap < lenSt ((p.take (k + 1)).foldl stepSt st)) ∧
      finish (canon cap blk rle crc p).1 = encSt ((p.take k).foldl stepSt st) ∧
      (canon cap blk rle crc p).1.crc = crcFold crc (p.take k) := by
  induction p with
  | nil =>
    intro blk rle crc st hrel hfit
    refine ⟨0, ?_, ?_, ?_, ?_, ?_⟩
    · simp only [canon]; split <;> simp [done]
    · simpa using hfit
    · simp
    · simp only [canon]
      split
      · rename_i hn
        simp only [done, finish, List.take_nil, List.foldl_nil]
        exact (rel_eager hrel hn hfit).1
      · simp only [done, List.take_nil, List.foldl_nil]
        exact rel_finish crc hrel
    · simp only [canon]; split <;> simp [done, crcFold]
  | cons x p ih =>
    intro blk rle crc st hrel hfit
    simp only [canon]
    by_cases hn : blk.length ≥ cap
    · simp only [hn, if_true]
      obtain ⟨hb, hov⟩ := rel_eager hrel hn hfit
      refine ⟨0, by simp [done], by simpa using hfit, ?_, ?_, by simp [done, crcFold]⟩
      · intro _; simpa using hov x
      · simpa [done, finish] using hb
    · simp only [hn, if_false]
      have hlt : blk.length < cap := by omega
      cases hstep : stepByte cap blk rle x with
      | stop blk' =>
        obtain ⟨hov, hb⟩ := stepByte_stop x hrel hlt blk' hstep
        refine ⟨0, by simp [done], by simpa using hfit, ?_, ?_, by simp [done, crcFold]⟩
        · intro _; simpa using hov
        · simpa [done, finish] using hb
      | next blk' rle' =>
        obtain ⟨hrel', hfit'⟩ := stepByte_next x hrel hlt blk' rle' hstep
        obtain ⟨k, hk, h1, h2, h3, h4⟩ := ih blk' rle' (crcStep crc x) (stepSt st x) hrel' hfit'
        refine ⟨k + 1, ?_, ?_, ?_, ?_, ?_⟩
        · simp only [List.length_cons]; omega
        · simpa using h1
        · intro hk'
          have := h2 (by simp only [List.length_cons] at hk'; omega)
          simpa using this
        · simpa using h3
        · simpa [crcFold] using h4

end LbzVerif.Model
