/-
  Lemmas.DeltaFastpath — small arithmetic models of `retrieve()` used by
  Props/C08/Arith.lean (work package W12; the models live here because W12
  owns no other Model file for them).

  * `refills w lens`: the bit-buffer accounting of the FAST decoding path
        for (j = 0; j < GROUP_SIZE; j++) { NEED_FAST(); …; DUMP(k); … }
    `NEED_FAST`: `if (w < 32) { v |= word << (64 - (w += 32)); next++; }`,
    `DUMP(k)`: `w -= k`.  `w` = number of live bits, `lens` = the code lengths
    `k` of the symbols decoded in this group, result = number of 32-bit words
    fetched.  `bufOK` = no `DUMP` removes more bits than are live and the
    buffer never holds more than 63 bits.
  * `Acc` / `accStep`: the run accumulator (`run`, `shift`, `tt - ds->tt`) fed
    with RUN-A / RUN-B / other symbols, with the `run <= MAX_BLOCK_SIZE` gate
    and the `run > tt_limit - tt` overflow test.
-/
import LbzVerif.Gen.Consts
import LbzVerif.Gen.DecodeTab

namespace LbzVerif.Lemmas.DeltaFastpath

open LbzVerif

/-- Words fetched by `NEED_FAST` while decoding symbols of lengths `lens`,
starting with `w` live bits. -/
def refills : Nat → List Nat → Nat
  | _, [] => 0
  | w, k :: ks =>
    if w < 32 then 1 + refills (w + 32 - k) ks else refills (w - k) ks

/-- Every `DUMP(k)` finds `k ≤ w`, and `w ≤ 63` throughout. -/
def bufOK : Nat → List Nat → Prop
  | w, [] => w ≤ 63
  | w, k :: ks =>
    w ≤ 63 ∧
      (if w < 32 then k ≤ w + 32 ∧ bufOK (w + 32 - k) ks else k ≤ w ∧ bufOK (w - k) ks)

theorem sum_le (l : List Nat) (b : Nat) (h : ∀ k ∈ l, k ≤ b) : l.sum ≤ b * l.length := by
  induction l with
  | nil => simp
  | cons x xs ih =>
    have hx := h x (by simp)
    have := ih (fun k hk => h k (by simp [hk]))
    simp only [List.sum_cons, List.length_cons, Nat.mul_add]
    omega

/-- Bit conservation, tight form: the last word is fetched BEFORE the last
symbol is dumped. -/
theorem refills_le : ∀ (lens : List Nat) (w : Nat), w ≤ 63 → (∀ k ∈ lens, k ≤ 32) →
    32 * refills w lens + w ≤ 63 + lens.dropLast.sum := by
  intro lens
  induction lens with
  | nil => intro w hw _; simp [refills]; omega
  | cons k ks ih =>
    intro w hw hk
    have hk0 : k ≤ 32 := hk k (by simp)
    have hks : ∀ x ∈ ks, x ≤ 32 := fun x hx => hk x (by simp [hx])
    cases ks with
    | nil =>
      simp only [refills, List.dropLast_singleton, List.sum_nil]
      split <;> omega
    | cons k2 ks2 =>
      simp only [List.dropLast_cons_cons, List.sum_cons]
      rw [refills]
      split
      · have := ih (w + 32 - k) (by omega) hks
        omega
      · have := ih (w - k) (by omega) hks
        omega

theorem bufOK_of_le : ∀ (lens : List Nat) (w : Nat), w ≤ 63 → (∀ k ∈ lens, k ≤ 32) →
    bufOK w lens := by
  intro lens
  induction lens with
  | nil => intro w hw _; exact hw
  | cons k ks ih =>
    intro w hw hk
    have hk0 : k ≤ 32 := hk k (by simp)
    have hks : ∀ x ∈ ks, x ≤ 32 := fun x hx => hk x (by simp [hx])
    refine ⟨hw, ?_⟩
    split
    · exact ⟨by omega, ih _ (by omega) hks⟩
    · exact ⟨by omega, ih _ (by omega) hks⟩

/-! ### Run accumulator -/

inductive Sym
  | runA
  | runB
  | other        -- an MTF value 1…255
  deriving DecidableEq, Repr

/-- `n = tt - ds->tt`, `run`, `shift`. -/
structure Acc where
  n : Nat
  run : Nat
  shift : Nat
  deriving DecidableEq, Repr

/-- One non-EOB symbol; `none` = `ERR_OVERFLOW`.
    `if (IS_RUN(s) && run <= MAX_BLOCK_SIZE) { run += RUN(s) << shift++; continue; }
     if (run > tt_limit - tt) return ERR_OVERFLOW;
     … write run copies …; shift = 0; run = 1;` -/
def accStep (a : Acc) (s : Sym) : Option Acc :=
  if s ≠ .other ∧ a.run ≤ Gen.MAX_BLOCK_SIZE then
    some { a with run := a.run + ((if s = .runA then 1 else 2) <<< a.shift), shift := a.shift + 1 }
  else if a.run > Gen.MAX_BLOCK_SIZE - a.n then none
  else some { n := a.n + a.run, run := 1, shift := 0 }

def accRun : Acc → List Sym → Option Acc
  | a, [] => some a
  | a, s :: ss => match accStep a s with
    | none => none
    | some a' => accRun a' ss

/-- Invariant: the block never exceeds `MAX_BLOCK_SIZE`, the run is at least
`2^shift - 1` (so the shift stays small while RUN symbols are accepted). -/
def AccInv (a : Acc) : Prop :=
  a.n ≤ Gen.MAX_BLOCK_SIZE ∧ 2 ^ a.shift ≤ a.run + 1

theorem accStep_inv (a a' : Acc) (s : Sym) (hi : AccInv a) (h : accStep a s = some a') :
    AccInv a' ∧ a.n + a.run + 1 ≤ a'.n + a'.run := by
  unfold accStep at h
  obtain ⟨h1, h2⟩ := hi
  split at h
  · rename_i hc
    simp only [Option.some.injEq] at h
    subst h
    have hp : 0 < 2 ^ a.shift := Nat.two_pow_pos _
    simp only [AccInv, Nat.shiftLeft_eq, Nat.pow_succ]
    split <;> exact ⟨⟨h1, by omega⟩, by omega⟩
  · split at h
    · simp at h
    · rename_i hc
      simp only [Option.some.injEq] at h
      subst h
      simp only [AccInv, Gen.MAX_BLOCK_SIZE] at *
      exact ⟨⟨by omega, by simp⟩, by omega⟩

/-- Potential argument: after `j` symbols, `n + run ≥ j` (plus the start). -/
theorem accRun_count : ∀ (ss : List Sym) (a a' : Acc), AccInv a → accRun a ss = some a' →
    AccInv a' ∧ a.n + a.run + ss.length ≤ a'.n + a'.run := by
  intro ss
  induction ss with
  | nil => intro a a' hi h; simp [accRun] at h; subst h; exact ⟨hi, by simp⟩
  | cons s ss ih =>
    intro a a' hi h
    simp only [accRun] at h
    cases hs : accStep a s with
    | none => simp [hs] at h
    | some a1 =>
      simp only [hs] at h
      obtain ⟨hi1, hc1⟩ := accStep_inv a a1 s hi hs
      obtain ⟨hi2, hc2⟩ := ih a1 a' hi1 h
      exact ⟨hi2, by simp only [List.length_cons]; omega⟩

end LbzVerif.Lemmas.DeltaFastpath
