/-
  Lemmas.RetrieveFrame — two small facts used to state the header theorems for
  a whole call of `Model.Retrieve`: the initial state `S_INIT` behaves like
  `S_BWT_IDX`, and the group phase never touches `rand` / `bwt_idx`.
-/
import LbzVerif.Lemmas.RetrieveHeader

set_option linter.unusedSimpArgs false

namespace LbzVerif.Lemmas.RetrieveFrame
open LbzVerif LbzVerif.Model.Retrieve LbzVerif.Lemmas.RetrieveSplit

theorem take_none (st : St) (k : Nat) (h : st.w < k) : take st k = none := by
  unfold take dump
  rw [if_pos (Or.inr h)]

theorem stepBwtIdx_pc (st : St) (p : Pc) : stepBwtIdx { st with pc := p } = stepBwtIdx st := by
  unfold stepBwtIdx
  by_cases h1 : st.w < 1
  · rw [take_none st 1 h1, take_none _ 1 (by exact h1)]
  · rw [Lemmas.RetrieveBitmap.take_ok st 1 (by omega) (by omega),
      Lemmas.RetrieveBitmap.take_ok ({ st with pc := p } : St) 1 (by omega) (by show 1 ≤ st.w; omega)]
    simp only
    by_cases h2 : st.w - 1 < 24
    · rw [take_none _ 24 (by exact h2), take_none _ 24 (by exact h2)]
    · rw [Lemmas.RetrieveBitmap.take_ok _ 24 (by omega) (by show 24 ≤ st.w - 1; omega),
        Lemmas.RetrieveBitmap.take_ok _ 24 (by omega) (by show 24 ≤ st.w - 1; omega)]
      rfl

/-- A fresh call: `S_INIT` runs exactly like `S_BWT_IDX`. -/
theorem toTop_init (st : St) (ws : List Nat) (h : st.pc = .init) :
    toTop st ws = toTop { st with pc := .bwtIdx } ws := by
  have hstep : step st = step { st with pc := .bwtIdx } := by
    have e1 : step st = stepBwtIdx st := by unfold step; rw [h]
    have e2 : step ({ st with pc := .bwtIdx } : St) = stepBwtIdx { st with pc := .bwtIdx } := rfl
    rw [e1, e2]; exact (stepBwtIdx_pc st .bwtIdx).symm
  have hnp : normPc st = { st with pc := .bwtIdx } := by unfold normPc; rw [if_pos h]
  have hnp' : normPc ({ st with pc := .bwtIdx } : St) = { st with pc := .bwtIdx } := by
    unfold normPc; rw [if_neg (by simp)]
  have hd : drain (st.w + 1) st = drain (st.w + 1) { st with pc := .bwtIdx } := by
    rw [drain, drain]
    by_cases hw : st.w < 32
    · rw [if_pos hw, if_pos (by exact hw), hnp, hnp']
    · rw [if_neg hw, if_neg (by exact hw), hstep]
  cases ws with
  | nil => rw [toTop, toTop]; rw [hd]
  | cons x ws' => rw [toTop, toTop]; rw [hd]

/-! ### `rand` and `bwt_idx` in the group phase -/

def SameId (a b : St) : Prop := b.rand = a.rand ∧ b.bwtIdx = a.bwtIdx

theorem dump_id (st st1 : St) (k : Nat) (h : dump st k = some st1) : SameId st st1 := by
  unfold dump at h
  split at h
  · cases h
  · injection h with h; subst h; exact ⟨rfl, rfl⟩

theorem eobFinish_id (st s : St) (r : Halt) (h : eobFinish st = .done r s) (hr : r = .ok) :
    SameId st s := by
  unfold eobFinish at h
  split at h
  · simp [errS] at h; rw [← h.1] at hr; cases hr
  · simp only at h
    split at h
    · simp [errS] at h; rw [← h.1] at hr; cases hr
    · split at h
      · simp [errS] at h; rw [← h.1] at hr; cases hr
      · injection h with _ h; subst h; exact ⟨rfl, rfl⟩

theorem stepPrefix_id (st : St) :
    (∀ s, stepPrefix st = .cont s → SameId st s) ∧ (∀ s, stepPrefix st = .top s → SameId st s) ∧
    (∀ s, stepPrefix st = .done .ok s → SameId st s) := by
  unfold stepPrefix
  split
  · exact ⟨fun _ h => (by simp [ubS] at h), fun _ h => (by simp [ubS] at h), fun _ h => (by simp [ubS] at h)⟩
  · split
    · exact ⟨fun _ h => (by simp [ubS] at h), fun _ h => (by simp [ubS] at h), fun _ h => (by simp [ubS] at h)⟩
    · split
      · exact ⟨fun _ h => (by simp [ubS] at h), fun _ h => (by simp [ubS] at h), fun _ h => (by simp [ubS] at h)⟩
      · rename_i st1 hd
        obtain ⟨d1, d2⟩ := dump_id _ _ _ hd
        split
        · refine ⟨fun s h => absurd h ((eobFinish_not_cont st1).1 s),
            fun s h => absurd h ((eobFinish_not_cont st1).2 s), fun s h => ?_⟩
          obtain ⟨e1, e2⟩ := eobFinish_id st1 s .ok h rfl
          exact ⟨e1.trans d1, e2.trans d2⟩
        · rename_i r hr
          refine ⟨fun _ h => (by cases h), fun _ h => (by cases h), fun s h => ?_⟩
          injection h with h1 _
          exact absurd h1 (Lemmas.RetrieveOk.symStep_stop_ne_ok _ _ _ hr)
        · unfold nextSym
          split
          · refine ⟨fun s h => ?_, fun _ h => (by cases h), fun _ h => (by cases h)⟩
            injection h with h; subst h; exact ⟨d1, d2⟩
          · refine ⟨fun _ h => (by cases h), fun s h => ?_, fun _ h => (by cases h)⟩
            injection h with h; subst h; exact ⟨d1, d2⟩

theorem sameId_trans {a b c : St} (h1 : SameId a b) (h2 : SameId b c) : SameId a c :=
  ⟨h2.1.trans h1.1, h2.2.trans h1.2⟩

theorem drain_id : ∀ (f : Nat) (st : St), st.pc = .prefix →
    (∀ s, drain f st = .need s → SameId st s) ∧ (∀ s, drain f st = .top s → SameId st s) ∧
    (∀ s, drain f st = .done .ok s → SameId st s) := by
  intro f
  induction f with
  | zero => intro st _; exact ⟨fun _ h => (by simp [drain] at h), fun _ h => (by simp [drain] at h), fun _ h => (by simp [drain] at h)⟩
  | succ f ih =>
    intro st hpc
    have hs : step st = stepPrefix st := by unfold step; rw [hpc]
    obtain ⟨p1, p2, p3⟩ := stepPrefix_id st
    unfold drain
    by_cases hw : st.w < 32
    · rw [if_pos hw, normPc_prefix st hpc]
      exact ⟨fun s h => (by injection h with h; subst h; exact ⟨rfl, rfl⟩), fun _ h => (by cases h), fun _ h => (by cases h)⟩
    · rw [if_neg hw, hs]
      cases hsp : stepPrefix st with
      | cont s1 =>
        simp only
        have hpc1 : s1.pc = .prefix := ((step_prefix st hpc).1 s1 (by rw [hs]; exact hsp)).1.1
        by_cases hlt : s1.w < st.w
        · rw [if_pos hlt]
          obtain ⟨i1, i2, i3⟩ := ih s1 hpc1
          have b := p1 s1 hsp
          exact ⟨fun s h => sameId_trans b (i1 s h), fun s h => sameId_trans b (i2 s h),
            fun s h => sameId_trans b (i3 s h)⟩
        · rw [if_neg hlt]
          exact ⟨fun _ h => (by cases h), fun _ h => (by cases h), fun _ h => (by cases h)⟩
      | top s1 =>
        exact ⟨fun _ h => (by cases h), fun s h => (by injection h with h; subst h; exact p2 _ hsp), fun _ h => (by cases h)⟩
      | done r s1 =>
        refine ⟨fun _ h => (by cases h), fun _ h => (by cases h), fun s h => ?_⟩
        injection h with h1 h2
        subst h1; subst h2
        exact p3 _ hsp

theorem refill_id (st : St) (x : Nat) : SameId st (refill st x) := ⟨rfl, rfl⟩

theorem toTop_id (ws : List Nat) : ∀ (st : St), st.pc = .prefix →
    (∀ s, toTop st ws = .susp s → SameId st s) ∧ (∀ s r, toTop st ws = .top s r → SameId st s) ∧
    (∀ s r, toTop st ws = .halt .ok s r → SameId st s) := by
  induction ws with
  | nil =>
    intro st hpc
    obtain ⟨d1, d2, d3⟩ := drain_id (st.w + 1) st hpc
    unfold toTop
    cases hd : drain (st.w + 1) st with
    | need s => exact ⟨fun s' h => (by injection h with h; subst h; exact d1 _ hd), fun _ _ h => (by cases h), fun _ _ h => (by cases h)⟩
    | top s => exact ⟨fun _ h => (by cases h), fun s' r h => (by injection h with h _; subst h; exact d2 _ hd), fun _ _ h => (by cases h)⟩
    | done r s =>
      refine ⟨fun _ h => (by cases h), fun _ _ h => (by cases h), fun s' r' h => ?_⟩
      injection h with h1 h2 _
      subst h1; subst h2
      exact d3 _ hd
  | cons x ws ih =>
    intro st hpc
    obtain ⟨d1, d2, d3⟩ := drain_id (st.w + 1) st hpc
    rw [toTop]
    cases hd : drain (st.w + 1) st with
    | need s =>
      simp only
      have b := d1 _ hd
      have hpc1 : s.pc = .prefix := ((drain_prefix _ st hpc).1 s hd).1
      obtain ⟨i1, i2, i3⟩ := ih (refill s x) hpc1
      have b2 := sameId_trans b (refill_id s x)
      exact ⟨fun s' h => sameId_trans b2 (i1 s' h), fun s' r h => sameId_trans b2 (i2 s' r h),
        fun s' r h => sameId_trans b2 (i3 s' r h)⟩
    | top s => exact ⟨fun _ h => (by cases h), fun s' r h => (by injection h with h _; subst h; exact d2 _ hd), fun _ _ h => (by cases h)⟩
    | done r s =>
      refine ⟨fun _ h => (by cases h), fun _ _ h => (by cases h), fun s' r' h => ?_⟩
      injection h with h1 h2 _
      subst h1; subst h2
      exact d3 _ hd

theorem selectTree_id (st st1 : St) (h : selectTree st = .ok st1) : SameId st st1 := by
  unfold selectTree at h
  simp only at h
  split at h
  · cases h
  · injection h with h; subst h; exact ⟨rfl, rfl⟩

/-- The group loop hands over `rand` and `bwt_idx` unchanged. -/
theorem groups_id : ∀ (n : Nat) (st : St) (ws : List Nat) (s : St) (rest : List Nat),
    groups false n st ws = .halt .ok s rest → SameId st s := by
  intro n
  induction n with
  | zero => intro st ws s rest h; simp [groups] at h
  | succ n ih =>
    intro st ws s rest h
    rw [groups] at h
    cases hsel : selectTree st with
    | error e =>
      rw [hsel] at h
      simp only at h
      injection h with h1 _ _
      subst h1
      exact absurd rfl (Lemmas.RetrieveBits.selectTree_err_ne_ok st _ hsel)
    | ok st1 =>
      rw [hsel] at h
      simp only [Bool.false_eq_true, false_and, if_false] at h
      have b := selectTree_id st st1 hsel
      have b' : SameId st ({ st1 with pc := Pc.prefix, j := 0 } : St) := b
      obtain ⟨t1, t2, t3⟩ := toTop_id ws { st1 with pc := Pc.prefix, j := 0 } rfl
      cases ht : toTop { st1 with pc := Pc.prefix, j := 0 } ws with
      | halt r s' rest' =>
        rw [ht] at h
        injection h with h1 h2 _
        subst h1; subst h2
        exact sameId_trans b' (t3 _ _ ht)
      | top st2 ws2 => rw [ht] at h; exact sameId_trans (sameId_trans b' (t2 _ _ ht)) (ih _ _ _ _ h)
      | susp s' => rw [ht] at h; cases h

end LbzVerif.Lemmas.RetrieveFrame
