/-
  Lemmas.BwtInverseKey — tools for the proof that the inverse BWT of the format
  inverts the rotation-sort BWT (Lemmas.BwtInverseLF, Lemmas.BwtInverseNaive):

  * `key`: a byte string read as a base-256 numeral.  On strings of EQUAL
    length the numeric order of the keys is the lexicographic order
    (`lexLe_iff_key`) and `key` is injective (`key_inj`); this turns every
    order argument about rotations into linear arithmetic.
  * `rotl` / `rotr`: rotate a row one step to the left / right.
  * `eq_of_sorted_perm`: two lists sorted by a key that is injective on their
    members, one a permutation of the other, are equal.
-/
import LbzVerif.Model.Ibwt

namespace LbzVerif.Lemmas.BwtInverse
open LbzVerif

/-! ### keys -/

/-- a byte string as a base-256 numeral, most significant byte first -/
def key (xs : List UInt8) : Nat := xs.foldl (fun a b => a * 256 + b.toNat) 0

theorem foldl_key (xs : List UInt8) : ∀ a : Nat,
    xs.foldl (fun a b => a * 256 + b.toNat) a = a * 256 ^ xs.length + key xs := by
  induction xs with
  | nil => intro a; simp [key]
  | cons x xs ih =>
    intro a
    simp only [List.foldl_cons, List.length_cons, key]
    rw [ih, ih (0 * 256 + x.toNat), Nat.pow_succ]
    generalize 256 ^ xs.length = P
    generalize key xs = k
    grind

theorem key_nil : key [] = 0 := rfl

theorem key_cons (x : UInt8) (xs : List UInt8) :
    key (x :: xs) = x.toNat * 256 ^ xs.length + key xs := by
  have := foldl_key xs (0 * 256 + x.toNat)
  simp only [Nat.zero_mul, Nat.zero_add] at this
  simpa [key] using this

theorem key_snoc (xs : List UInt8) (c : UInt8) : key (xs ++ [c]) = key xs * 256 + c.toNat := by
  simp [key, List.foldl_append]

/-- `x < y`, `k < P` ⟹ `x·P + k < y·P` -/
theorem mul_add_lt (x y P k : Nat) (h : x < y) (hk : k < P) : x * P + k < y * P := by
  have h1 : (x + 1) * P ≤ y * P := Nat.mul_le_mul_right P h
  rw [Nat.succ_mul] at h1
  omega

theorem key_lt (xs : List UInt8) : key xs < 256 ^ xs.length := by
  induction xs with
  | nil => simp [key]
  | cons x xs ih =>
    rw [key_cons, List.length_cons, Nat.pow_succ, Nat.mul_comm (256 ^ xs.length) 256]
    exact mul_add_lt _ _ _ _ x.toNat_lt ih

theorem key_inj : ∀ (xs ys : List UInt8), xs.length = ys.length → key xs = key ys → xs = ys := by
  intro xs
  induction xs with
  | nil =>
    intro ys hl _
    cases ys with
    | nil => rfl
    | cons _ _ => simp at hl
  | cons x xs ih =>
    intro ys hl hk
    cases ys with
    | nil => simp at hl
    | cons y ys =>
      have hl' : xs.length = ys.length := by simpa using hl
      rw [key_cons, key_cons, ← hl'] at hk
      have b1 := key_lt xs
      have b2 := key_lt ys
      rw [← hl'] at b2
      have hxy : x.toNat = y.toNat := by
        rcases Nat.lt_trichotomy x.toNat y.toNat with h | h | h
        · have := mul_add_lt _ _ _ _ h b1; omega
        · exact h
        · have := mul_add_lt _ _ _ _ h b2; omega
      have hx : x = y := UInt8.toNat_inj.mp hxy
      rw [hxy] at hk
      rw [hx, ih ys hl' (by omega)]

/-- On strings of equal length the lexicographic order is the order of the keys. -/
theorem lexLe_iff_key : ∀ (xs ys : List UInt8), xs.length = ys.length →
    (Spec.Ibwt.lexLe xs ys = true ↔ key xs ≤ key ys) := by
  intro xs
  induction xs with
  | nil => intro ys _; simp [Spec.Ibwt.lexLe, key]
  | cons x xs ih =>
    intro ys hl
    cases ys with
    | nil => simp at hl
    | cons y ys =>
      have hl' : xs.length = ys.length := by simpa using hl
      rw [key_cons, key_cons, ← hl']
      have b1 := key_lt xs
      have b2 := key_lt ys
      rw [← hl'] at b2
      simp only [Spec.Ibwt.lexLe]
      by_cases h1 : x < y
      · rw [if_pos h1]
        have := mul_add_lt _ _ _ _ (UInt8.lt_iff_toNat_lt.mp h1) b1
        constructor
        · intro _; omega
        · intro _; rfl
      · rw [if_neg h1]
        by_cases h2 : y < x
        · rw [if_pos h2]
          have := mul_add_lt _ _ _ _ (UInt8.lt_iff_toNat_lt.mp h2) b2
          constructor
          · intro h; cases h
          · intro _; omega
        · rw [if_neg h2]
          have hxy : x.toNat = y.toNat := by
            have h1' : ¬ x.toNat < y.toNat := fun h => h1 (UInt8.lt_iff_toNat_lt.mpr h)
            have h2' : ¬ y.toNat < x.toNat := fun h => h2 (UInt8.lt_iff_toNat_lt.mpr h)
            omega
          rw [ih ys hl', hxy]
          omega

/-! ### rotating a row -/

/-- one step to the left: the first byte goes to the end -/
def rotl : List UInt8 → List UInt8
  | [] => []
  | c :: xs => xs ++ [c]

/-- one step to the right: the last byte goes to the front -/
def rotr (r : List UInt8) : List UInt8 := r.getLastD 0 :: r.dropLast

theorem row_split (r : List UInt8) (h : r ≠ []) : r = r.dropLast ++ [r.getLastD 0] := by
  have h1 := List.dropLast_concat_getLast h
  have h2 : r.getLastD 0 = r.getLast h := by
    rw [List.getLastD_eq_getLast?, List.getLast?_eq_some_getLast h]; rfl
  rw [h2, h1]

theorem rotr_snoc (xs : List UInt8) (c : UInt8) : rotr (xs ++ [c]) = c :: xs := by
  simp [rotr, List.getLastD_eq_getLast?]

theorem rotl_rotr (r : List UInt8) (h : r ≠ []) : rotl (rotr r) = r := by
  simp only [rotr, rotl]
  exact (row_split r h).symm

theorem rotr_rotl (r : List UInt8) : r ≠ [] → rotr (rotl r) = r := by
  intro h
  cases r with
  | nil => exact absurd rfl h
  | cons c xs => simp only [rotl, rotr_snoc]

theorem rotl_length (r : List UInt8) : (rotl r).length = r.length := by
  cases r <;> simp [rotl]

theorem rotr_length (r : List UInt8) (h : r ≠ []) : (rotr r).length = r.length := by
  have := congrArg List.length (row_split r h)
  simp only [rotr, List.length_cons, List.length_append, List.length_nil] at this ⊢
  omega

theorem rotl_ne (r : List UInt8) (h : r ≠ []) : rotl r ≠ [] := by
  intro h0
  have := rotl_length r
  rw [h0] at this
  exact h (List.eq_nil_of_length_eq_zero this.symm)

/-- last byte of the left rotation = first byte -/
theorem getLastD_rotl (c : UInt8) (xs : List UInt8) : (rotl (c :: xs)).getLastD 0 = c := by
  simp [rotl, List.getLastD_eq_getLast?]

/-! ### sorted + permutation ⟹ equal -/

theorem eq_of_sorted_perm {α : Type} (f : α → Nat) : ∀ (l₁ l₂ : List α),
    (∀ a ∈ l₁, ∀ b ∈ l₂, f a = f b → a = b) →
    l₁.Pairwise (fun a b => f a ≤ f b) → l₂.Pairwise (fun a b => f a ≤ f b) →
    l₁.Perm l₂ → l₁ = l₂ := by
  intro l₁
  induction l₁ with
  | nil => intro l₂ _ _ _ hp; exact hp.nil_eq
  | cons a t₁ ih =>
    intro l₂ hinj h1 h2 hp
    cases l₂ with
    | nil => exact absurd hp.symm.nil_eq (by simp)
    | cons b t₂ =>
      rw [List.pairwise_cons] at h1 h2
      have ha : a ∈ b :: t₂ := hp.mem_iff.mp (List.mem_cons_self ..)
      have hb : b ∈ a :: t₁ := hp.mem_iff.mpr (List.mem_cons_self ..)
      have hba : f b ≤ f a := by
        rcases List.mem_cons.mp ha with h | h
        · rw [h]; exact Nat.le_refl _
        · exact h2.1 a h
      have hab : f a ≤ f b := by
        rcases List.mem_cons.mp hb with h | h
        · rw [h]; exact Nat.le_refl _
        · exact h1.1 b h
      have hab' : a = b :=
        hinj a (List.mem_cons_self ..) b (List.mem_cons_self ..) (Nat.le_antisymm hab hba)
      subst hab'
      rw [ih t₂ (fun x hx y hy => hinj x (List.mem_cons_of_mem _ hx) y (List.mem_cons_of_mem _ hy))
        h1.2 h2.2 (List.Perm.cons_inv hp)]

end LbzVerif.Lemmas.BwtInverse
