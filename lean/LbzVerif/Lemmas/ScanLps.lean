/-
  Lemmas.ScanLps — the generic border argument behind Knuth–Morris–Pratt:
  the longest pattern prefix that is a suffix of `w ++ [b]` only depends on the
  longest pattern prefix that is a suffix of `w`, and on `b`.
  Independent of the concrete pattern and of the scanner tables.
-/
import LbzVerif.Spec.Scan

namespace LbzVerif.Lemmas.ScanLps

open LbzVerif.Spec.Scan

variable (pat w w' : List Bool)

theorem lpsFrom_le (n : Nat) : lpsFrom pat w n ≤ n := by
  induction n with
  | zero => simp [lpsFrom]
  | succ k ih => unfold lpsFrom; split <;> omega

theorem lpsFrom_suffix (n : Nat) : pat.take (lpsFrom pat w n) <:+ w := by
  induction n with
  | zero => simp [lpsFrom]
  | succ k ih =>
    unfold lpsFrom
    split
    · rename_i h; exact List.isSuffixOf_iff_suffix.mp h
    · exact ih

theorem lpsFrom_max (n k : Nat) (hk : k ≤ n) (h : pat.take k <:+ w) :
    k ≤ lpsFrom pat w n := by
  induction n with
  | zero => omega
  | succ m ih =>
    unfold lpsFrom
    split
    · exact hk
    · rename_i hns
      rcases Nat.lt_or_ge k (m + 1) with hlt | hge
      · exact ih (by omega)
      · have : k = m + 1 := by omega
        subst this
        exact absurd (List.isSuffixOf_iff_suffix.mpr h) hns

theorem lpsFrom_congr (n : Nat)
    (h : ∀ k ≤ n, pat.take k <:+ w ↔ pat.take k <:+ w') :
    lpsFrom pat w n = lpsFrom pat w' n := by
  induction n with
  | zero => simp [lpsFrom]
  | succ m ih =>
    have ih' := ih (fun k hk => h k (by omega))
    have hm := h (m + 1) (Nat.le_refl _)
    unfold lpsFrom
    simp only [List.isSuffixOf_iff_suffix]
    by_cases hc : pat.take (m + 1) <:+ w
    · simp [hc, hm.mp hc]
    · have hc' : ¬ pat.take (m + 1) <:+ w' := fun x => hc (hm.mpr x)
      simp [hc, hc', ih']

/-- Suffix of a list extended by one element. -/
theorem concat_suffix_concat (x y : List Bool) (a b : Bool) :
    x ++ [a] <:+ y ++ [b] ↔ a = b ∧ x <:+ y := by
  rw [← List.reverse_prefix]
  simp only [List.reverse_append, List.reverse_cons, List.reverse_nil,
    List.nil_append, List.cons_append]
  rw [List.cons_prefix_cons, List.reverse_prefix]

/-- One more pattern element matched. -/
theorem take_succ_suffix_concat (j : Nat) (hj : j < pat.length) (b : Bool) :
    pat.take (j + 1) <:+ w ++ [b] ↔ pat[j] = b ∧ pat.take j <:+ w := by
  rw [List.take_succ_eq_append_getElem hj]
  exact concat_suffix_concat _ _ _ _

/-- The border argument. -/
theorem lpsFrom_step (n : Nat) (hn : n ≤ pat.length) (b : Bool) :
    lpsFrom pat (w ++ [b]) n =
      lpsFrom pat (pat.take (lpsFrom pat w n) ++ [b]) n := by
  apply lpsFrom_congr
  intro k hk
  cases k with
  | zero => simp
  | succ j =>
    have hj : j < pat.length := by omega
    rw [take_succ_suffix_concat pat w j hj b,
      take_succ_suffix_concat pat _ j hj b]
    have hs := lpsFrom_suffix pat w n
    constructor
    · rintro ⟨hb, hsuf⟩
      refine ⟨hb, ?_⟩
      have hle : j ≤ lpsFrom pat w n := lpsFrom_max pat w n j (by omega) hsuf
      have hsn := lpsFrom_le pat w n
      apply List.suffix_of_suffix_length_le hsuf hs
      simp only [List.length_take]
      omega
    · rintro ⟨hb, hsuf⟩
      exact ⟨hb, hsuf.trans hs⟩

end LbzVerif.Lemmas.ScanLps
