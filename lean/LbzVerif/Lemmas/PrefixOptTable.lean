/-
  Lemmas.PrefixOptTable — the memoised tables of `Spec.Prefix.optSorted`
  contain exactly the values of the recursion `Lemmas.PrefixOpt.optN`.
-/
import LbzVerif.Spec.Prefix
import LbzVerif.Lemmas.PrefixOpt

namespace LbzVerif.Lemmas.PrefixOptTable
open LbzVerif.Spec.Prefix LbzVerif.Lemmas.PrefixOpt

/-- `F` on every suffix of `gs`, longest first. -/
def sufMap (F : List Nat → Option Nat) : List Nat → List (Option Nat)
  | [] => [F []]
  | g :: gs => F (g :: gs) :: sufMap F gs

theorem sufMap_head (F : List Nat → Option Nat) (gs : List Nat) :
    (sufMap F gs).headD none = F gs := by
  cases gs <;> rfl

theorem sufMap_congr (F G : List Nat → Option Nat) (gs : List Nat)
    (h : ∀ s, s.length ≤ gs.length → F s = G s) : sufMap F gs = sufMap G gs := by
  induction gs with
  | nil => simp [sufMap, h [] (Nat.le_refl _)]
  | cons g t ih =>
    simp only [sufMap]
    rw [h (g :: t) (Nat.le_refl _), ih (fun s hs => h s (by simp; omega))]

theorem row0_eq (d : Nat) (B : Nat → List Nat → Option Nat) (gs : List Nat) :
    row0 gs = sufMap (optRow d B 0) gs := by
  induction gs with
  | nil => rfl
  | cons g t ih => simp [row0, sufMap, optRow, ih]

theorem rowNone_eq (gs : List Nat) : rowNone gs = sufMap (fun _ => none) gs := by
  induction gs with
  | nil => rfl
  | cons g t ih => simp [rowNone, sufMap, ih]

theorem combine_eq (d : Nat) (B : Nat → List Nat → Option Nat) (m : Nat) (gs : List Nat) :
    combine d gs (sufMap (optRow d B m) gs) (sufMap (B (2 * (m + 1))) gs)
      = sufMap (optRow d B (m + 1)) gs := by
  induction gs with
  | nil => simp [combine, sufMap, optRow]
  | cons g t ih =>
    simp only [combine, sufMap, List.tail_cons, List.headD_cons, sufMap_head, optRow, ih]

/-- More open nodes than symbols left can never be closed. -/
theorem optRow_prune (d : Nat) (B : Nat → List Nat → Option Nat)
    (hB : ∀ m s, s.length < m → B m s = none) :
    ∀ gs m, gs.length < m → optRow d B m gs = none := by
  intro gs
  induction gs with
  | nil => intro m hm; cases m with
    | zero => omega
    | succ m => rfl
  | cons g t ih =>
    intro m hm
    cases m with
    | zero => omega
    | succ m =>
      simp only [optRow]
      rw [ih m (by simpa using hm), hB _ _ (by simp at hm ⊢; omega)]
      rfl

theorem optN_prune (L : Nat) : ∀ h m gs, gs.length < m → optN L h m gs = none := by
  intro h
  induction h with
  | zero => intro m gs hm; exact optRow_prune L _ (fun _ _ _ => rfl) gs m hm
  | succ h ih => intro m gs hm; exact optRow_prune _ _ ih gs m hm

/-- The list of rows `T` tabulates the value function `B` over the suffixes of
`g` (rows beyond the end of the list read as all-infeasible). -/
def TableOK (T : List (List (Option Nat))) (B : Nat → List Nat → Option Nat) (g : List Nat) : Prop :=
  ∀ j, T.getD j (rowNone g) = sufMap (B j) g

theorem buildRows_eq (d : Nat) (g : List Nat) (T : List (List (Option Nat)))
    (B : Nat → List Nat → Option Nat) (hT : TableOK T B g) :
    ∀ k m0, buildRows d g T k (m0 + 1) (sufMap (optRow d B m0) g)
      = (List.range k).map (fun i => sufMap (optRow d B (m0 + 1 + i)) g) := by
  intro k
  induction k with
  | zero => intro m0; rfl
  | succ k ih =>
    intro m0
    simp only [buildRows]
    rw [hT (2 * (m0 + 1)), combine_eq, ih (m0 + 1)]
    rw [List.range_succ_eq_map, List.map_cons, List.map_map]
    congr 1
    apply List.map_congr_left
    intro i _
    simp only [Function.comp]
    congr 2
    omega

theorem level_ok (d : Nat) (g : List Nat) (T : List (List (Option Nat)))
    (B : Nat → List Nat → Option Nat) (hT : TableOK T B g)
    (hB : ∀ m s, s.length < m → B m s = none) :
    TableOK (level d g T) (optRow d B) g := by
  intro j
  unfold level
  cases j with
  | zero => rw [List.getD_cons_zero]; exact row0_eq d B g
  | succ i =>
    rw [List.getD_cons_succ, row0_eq d B g, buildRows_eq d g T B hT g.length 0]
    rw [List.getD_eq_getElem?_getD, List.getElem?_map]
    by_cases hi : i < g.length
    · rw [List.getElem?_range hi]
      simp only [Option.map_some, Option.getD_some]
      congr 2
      omega
    · rw [List.getElem?_eq_none (by simpa using Nat.le_of_not_lt hi)]
      simp only [Option.map_none, Option.getD_none]
      rw [rowNone_eq]
      apply sufMap_congr
      intro s hs
      exact (optRow_prune d B hB s (i + 1) (by omega)).symm

theorem tableFrom_ok (L : Nat) (g : List Nat) : ∀ h, TableOK (tableFrom L g h) (optN L h) g := by
  intro h
  induction h with
  | zero =>
    have h0 : TableOK [] (fun _ _ => none) g := by
      intro j; simp [rowNone_eq]
    exact level_ok L g [] _ h0 (fun _ _ _ => rfl)
  | succ h ih => exact level_ok _ g _ _ ih (optN_prune L h)

/-- The executable optimum is the recursion started at depth 1 with two open
nodes. -/
theorem optSorted_eq (g : List Nat) (L : Nat) (hL : 1 ≤ L) :
    optSorted g L = optN L (L - 1) 2 g := by
  unfold optSorted
  rw [if_neg (by omega), tableFrom_ok L g (L - 1) 2, sufMap_head]

end LbzVerif.Lemmas.PrefixOptTable
