/-
  Spec.Delta — reference, bit-by-bit decoding of ONE delta-coded table of
  code lengths of the bzip2 format (properties C05 / C06), independent of
  lbzip2 and of its tables.

  Format: a 5-bit start value, then for each of the `n` symbols a sequence of
  2-bit steps `10` (+1) / `11` (−1) closed by a single `0`; the next symbol
  starts from the value the previous one ended with.  EVERY value the running
  length takes — the start value and every intermediate value — must lie in
  1…20; this is what bzip2 1.0.x tests (`curr < 1 || curr > 20`) before every
  bit it reads.  Running out of bits is a rejection.
-/
namespace LbzVerif.Spec.Delta

/-- Smallest / largest admissible code length of the format. -/
def minLen : Nat := 1
def maxLen : Nat := 20

/-- `1 ≤ v ≤ 20`. -/
def inRange (v : Nat) : Bool := decide (minLen ≤ v) && decide (v ≤ maxLen)

/-- Value of a bit string, most significant bit first. -/
def toNum (bits : List Bool) : Nat :=
  bits.foldl (fun acc b => 2 * acc + (if b then 1 else 0)) 0

/-- Take an `n`-bit unsigned number (MSB first); `none` when fewer than `n`
bits are left. -/
def takeNum (n : Nat) (bits : List Bool) : Option (Nat × List Bool) :=
  if n ≤ bits.length then some (toNum (bits.take n), bits.drop n) else none

/-- One symbol, starting from the current length `c`.  The range test comes
before every bit read (so it covers `c` itself and every intermediate value).
Result: the symbol's length and the unread bits. -/
def sym (c : Nat) : List Bool → Option (Nat × List Bool)
  | [] => none
  | false :: r => if inRange c then some (c, r) else none
  | [true] => none
  | true :: false :: r => if inRange c then sym (c + 1) r else none
  | true :: true :: r => if inRange c then sym (c - 1) r else none

/-- `n` symbols in a row. -/
def syms : Nat → Nat → List Bool → Option (List Nat × List Bool)
  | 0, _, bits => some ([], bits)
  | n + 1, c, bits =>
    match sym c bits with
    | none => none
    | some (c', r) =>
      match syms n c' r with
      | none => none
      | some (ls, r') => some (c' :: ls, r')

/-- A whole table for an alphabet of `n` symbols: the lengths and the unread
bits, or `none` (rejected). -/
def table (n : Nat) (bits : List Bool) : Option (List Nat × List Bool) :=
  match takeNum 5 bits with
  | none => none
  | some (c, r) => if inRange c then syms n c r else none

/-- Number of bits a successful `table` consumed. -/
def consumed (bits rest : List Bool) : Nat := bits.length - rest.length

end LbzVerif.Spec.Delta
