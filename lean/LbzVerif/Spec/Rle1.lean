/-
  Spec.Rle1 — the initial run-length encoding of bzip2 ("RLE1") as lbzip2 always
  applies it, its decoder, and the greedy packing rule of property C04.

  Nothing here follows the control flow of `collect()` in encode.c: `rle1` encodes
  a WHOLE block, `rleLen` is the length of that encoding, and `pack cap xs` is
  *by definition* the largest prefix length whose encoding fits into `cap`
  bytes.  The byte-step machine of the C code lives in `Model/Collect.lean`;
  `Props/C04.lean` relates the two.
-/
import LbzVerif.Gen.Consts

namespace LbzVerif.Spec

/-- Longest run one count byte can describe: four literal copies plus a count of
at most 255 (taken from `MAX_RUN_LENGTH` of encode.c, `4+255`). -/
abbrev maxRun : Nat := LbzVerif.Gen.MAX_RUN_LENGTH

/-- Encoding of one complete run of `r` copies of `c` (`r ≤ maxRun`): runs
shorter than four are copied, runs of 4…259 become four copies and the count of
the remaining ones. -/
def flush (c : UInt8) (r : Nat) : List UInt8 :=
  if r ≥ 4 then [c, c, c, c, UInt8.ofNat (r - 4)] else List.replicate r c

/-- Encoder with the current run `(c, r)` still open; a run is closed when a
different byte arrives, when it has reached `maxRun` copies, or at the end of
the data. -/
def encAux (c : UInt8) (r : Nat) : List UInt8 → List UInt8
  | [] => flush c r
  | x :: xs =>
    if x = c ∧ r < maxRun then encAux c (r + 1) xs
    else flush c r ++ encAux x 1 xs

/-- lbzip2's (and bzip2's) initial run-length encoding of a whole block. -/
def rle1 : List UInt8 → List UInt8
  | [] => []
  | x :: xs => encAux x 1 xs

/-- Decoder state: `p` is the previous byte, `k` (0…4) the number of
consecutive copies of `p` just seen; after four copies the next byte is a
count.  Data that stops right after four equal bytes (count byte missing) is
rejected. -/
def decAux (p : UInt8) (k : Nat) : List UInt8 → Option (List UInt8)
  | [] => if k = 4 then none else some []
  | b :: bs =>
    if k = 4 then (decAux p 0 bs).map (List.replicate b.toNat p ++ ·)
    else if k ≠ 0 ∧ b = p then (decAux p (k + 1) bs).map (b :: ·)
    else (decAux b 1 bs).map (b :: ·)

/-- Inverse of `rle1`; `none` when the data ends in four equal bytes without a
count byte. -/
def unRle1 (l : List UInt8) : Option (List UInt8) := decAux 0 0 l

/-- Size of the run-length encoding of `xs` taken as a whole block.  A trailing
run of four or more bytes is counted with its count byte (4+1), because that is
what the block will contain once it is closed. -/
def rleLen (xs : List UInt8) : Nat := (rle1 xs).length

/-- The greedy packing rule of C04: the largest `k ≤ xs.length` such that the
first `k` bytes, run-length encoded as a block, occupy at most `cap` bytes.
(`k = 0` always qualifies.)  In particular a fourth equal byte is taken only
when it and its count byte both fit: `rleLen` jumps from 3 to 5 there. -/
def pack (cap : Nat) (xs : List UInt8) : Nat :=
  (List.range (xs.length + 1)).foldl
    (fun best k => if rleLen (xs.take k) ≤ cap then k else best) 0

/-- Cutting a piece of input into blocks by repeating `pack` (what happens to one
N·100000-byte chunk in the default mode, and to the whole input with
`--sequential`).  `fuel` bounds the number of blocks; `blocksOf` supplies
`xs.length`, which suffices because every block takes at least one byte when
`cap ≥ 1` (`Props.C04.pack_pos`). -/
def blocks (cap : Nat) : Nat → List UInt8 → List (List UInt8)
  | 0, _ => []
  | fuel + 1, xs =>
    if xs.isEmpty then []
    else
      let k := pack cap xs
      if k = 0 then [] else xs.take k :: blocks cap fuel (xs.drop k)

def blocksOf (cap : Nat) (xs : List UInt8) : List (List UInt8) :=
  blocks cap xs.length xs

end LbzVerif.Spec
