/-
  LbzVerif.Spec.Bzip2 — strict reference decoder and inspector for the bzip2
  1.0.x file format.  This is the ORACLE of properties C01, C02, C05, C06, C07,
  C15, C20: it says what a valid `.bz2` file is and what it decodes to.

  It is written from the format, not from lbzip2's code.  The only data taken
  from `LbzVerif.Gen` are the CRC table (Basic.Crc) and the randomisation table
  (`Gen.randTable`); both are compared with libbz2's own tables by
  `tools/spec_xcheck.py` on every run.  All numeric constants of the format
  (magics, 50, 20, 100000, 18002 …) are written out here on purpose.

  Shape:  bytes ──bytesToBits──▶ `List Bool` ──parse──▶ `Block` values
          ──unMtfRle2──▶ ──ibwt──▶ ──derand──▶ ──unRle1──▶ bytes, CRC checks.

  Everything is total.  Loops are structural recursions on the bit list, on a
  counter that the format bounds (50 symbols per group, `alphaSize` lengths per
  table, …), on the selector list, or — for the two outermost loops (blocks of a
  stream, streams of a file) — on a fuel value `bytes + 1` that can never run
  out because every block and every stream consumes at least one byte.
  Long loops are tail recursive with array accumulators so that the compiled
  driver handles 900 kB blocks (≈ 1 s per 100 kB of plaintext, < 10 s and
  ≈ 330 MB for a 900 kB block of random data).  Nothing uses well-founded
  recursion, so the kernel can also evaluate the oracle on small concrete
  files: `example : decodeFile [...] = .ok [...] := by decide +kernel`
  (see Lemmas/SpecBasic.lean, `decodeFile_helloBz2`; `DecidableEq (Except ..)`
  is derived below for that purpose).  `Lemmas/SpecBasic.lean` proves that the
  fuel of the outer loops never runs out (`decodeFile_ne_fuel`).

  The accepted language (strict bzip2 1.0.x):

    file    = stream+ garbage?
    stream  = "BZh" ('1'…'9')  block*  eos  crc32(combined)  pad-to-byte
    block   = 0x314159265359 crc32 rand(1) origPtr(24) bitmap(16 + 16·k)
              nGroups(3) nSelectors(15) selector-MTF(unary)… tables… symbols… EOB
    eos     = 0x177245385090

  Strictness (documented lbzip2 behaviour, built into this oracle; libbz2 is
  laxer in both places — see the cross-check):
    * a group coded by a table whose code lengths are not Kraft-complete
      (incomplete OR oversubscribed) is rejected; such a table is harmless as
      long as no group that is actually decoded selects it;
    * a block whose run-length layer ends in four equal bytes with no count
      byte is rejected.

  Trailing data (property C05): after at least one complete stream, and after
  the padding to the next byte boundary, the remaining bytes are ignored
  UNLESS they begin with a full four-byte header "BZh1"…"BZh9"; in that case
  they must parse as a further complete stream (recursively).
  Corners of the byte-level rule:
    * 0–3 remaining bytes can never hold a full header: always ignored
      (including "B", "BZ", "BZh");
    * "BZh0…", "BZhA…", "BZ" followed by anything else: ignored;
    * "BZh9" followed by anything that is not a valid rest-of-stream
      (including nothing at all): the whole file is rejected;
    * the padding bits before the byte boundary are not inspected.
  lbzip2's header parser consumes 16-bit words ("BZ", then "h1"…"h9"); on byte
  strings this is the same rule (it gives up on the first word that does not
  fit, or at end of input inside the header) — disagreements, if any, are for
  the check scripts to find.
-/
import LbzVerif.Basic.Bits
import LbzVerif.Basic.Crc
import LbzVerif.Gen.DecodeTab

namespace LbzVerif.Spec.Bzip2

open LbzVerif.Basic

/-! ## Reasons for rejection -/

inductive Reject
  /-- the file is empty -/
  | empty
  /-- the file does not start with "BZh1"…"BZh9" -/
  | badMagic
  /-- the data ends inside a stream -/
  | truncated
  /-- neither block magic nor end-of-stream magic where one is required -/
  | badBlockMagic
  /-- no symbol is marked as used -/
  | emptyBitmap
  /-- number of tables not in 2…6 -/
  | badNGroups
  /-- declared number of selectors is 0 -/
  | noSelectors
  /-- a selector's MTF index is ≥ the number of tables -/
  | badSelector
  /-- a code length (start value or any intermediate value) leaves 1…20 -/
  | badCodeLen
  /-- a decoded group selects a table that is not Kraft-complete -/
  | tableNotComplete
  /-- no symbol matched within 20 bits (cannot happen with a complete table) -/
  | badCode
  /-- selectors exhausted before the end-of-block symbol -/
  | missingEob
  /-- MTF symbol out of range for the used-symbol list (cannot come out of `parseBlock`) -/
  | badSymbol
  /-- the block decodes to more than level × 100000 bytes (before inverse BWT) -/
  | blockOverflow
  /-- the block decodes to zero bytes -/
  | emptyBlock
  /-- origPtr ≥ block size -/
  | badOrigPtr
  /-- the run-length layer ends in four equal bytes with no count byte -/
  | missingCount
  /-- stored block CRC ≠ CRC of the decoded block -/
  | blockCrc
  /-- stored stream CRC ≠ combination of the block CRCs -/
  | streamCrc
  /-- (unreachable) the fuel of an outer loop ran out -/
  | fuel
  /-- inspector only: a block is randomised -/
  | randomised
  /-- inspector only: some table (used or not) is not Kraft-complete -/
  | incompleteTable
  /-- inspector only: more than 18002 selectors -/
  | tooManySelectors
  /-- inspector only: something follows the single stream -/
  | trailingData
  deriving Repr, DecidableEq, Inhabited

deriving instance DecidableEq for Except

def Reject.name : Reject → String
  | .empty => "empty"
  | .badMagic => "bad-magic"
  | .truncated => "truncated"
  | .badBlockMagic => "bad-block-magic"
  | .emptyBitmap => "empty-bitmap"
  | .badNGroups => "bad-ngroups"
  | .noSelectors => "no-selectors"
  | .badSelector => "bad-selector"
  | .badCodeLen => "bad-code-length"
  | .tableNotComplete => "used-table-not-complete"
  | .badCode => "bad-code"
  | .missingEob => "missing-eob"
  | .badSymbol => "bad-symbol"
  | .blockOverflow => "block-overflow"
  | .emptyBlock => "empty-block"
  | .badOrigPtr => "bad-origptr"
  | .missingCount => "missing-count"
  | .blockCrc => "block-crc"
  | .streamCrc => "stream-crc"
  | .fuel => "fuel"
  | .randomised => "randomised"
  | .incompleteTable => "incomplete-table"
  | .tooManySelectors => "too-many-selectors"
  | .trailingData => "trailing-data"

/-! ## Format constants -/

/-- 48-bit block header magic (BCD of π). -/
def blockMagic : Nat := 0x314159265359
/-- 48-bit end-of-stream magic (BCD of √π). -/
def eosMagic : Nat := 0x177245385090
/-- symbols per selector group -/
def groupSize : Nat := 50
/-- longest code length -/
def maxLen : Nat := 20
/-- block capacity (bytes after the first run-length layer) at a level -/
def blockCap (level : Nat) : Nat := level * 100000
/-- the producer-side limit on selectors checked by `inspect` (C02) -/
def maxSelectorsStrict : Nat := 18002

/-- `some level` iff the 32-bit word is "BZh1"…"BZh9". -/
def headerLevel (w : Nat) : Option Nat :=
  if 0x425A6831 ≤ w ∧ w ≤ 0x425A6839 then some (w - 0x425A6830) else none

/-! ## Block syntax -/

/-- A parsed block: every field of the bit syntax, plus the prefix-decoded
    symbol stream.  Offsets are bit offsets from the start of the file. -/
structure Block where
  /-- level of the enclosing stream (1…9) -/
  level : Nat
  /-- bit offset of the first bit of the 48-bit block magic -/
  startBit : Nat
  /-- bit offset just after the last bit of the end-of-block code -/
  endBit : Nat
  /-- stored block CRC -/
  storedCrc : Nat
  /-- randomisation flag -/
  rand : Bool
  /-- stored BWT primary index -/
  origPtr : Nat
  /-- byte values marked in the bitmap, increasing; 1…256 of them -/
  used : List UInt8
  /-- number of prefix tables, 2…6 -/
  nGroups : Nat
  /-- all selectors read (declared count = `selectors.length`, 1…32767),
      after undoing their MTF coding: indices into `tables` -/
  selectors : List Nat
  /-- code lengths per table: `nGroups` lists of `alphaSize` values in 1…20 -/
  tables : List (List Nat)
  /-- number of selectors actually used (= number of groups decoded) -/
  nSelectorsUsed : Nat
  /-- the MTF/RLE2 symbols in order, WITHOUT the final end-of-block symbol
      (RUNA = 0, RUNB = 1, MTF index i ≥ 1 coded as i + 1, EOB = alphaSize − 1) -/
  syms : Array Nat
  deriving Repr, Inhabited

/-- alphabet size of the prefix codes: used byte values + RUNA/RUNB/EOB − 1 -/
def Block.alphaSize (b : Block) : Nat := b.used.length + 2
/-- the end-of-block symbol -/
def Block.eob (b : Block) : Nat := b.used.length + 1
/-- number of prefix-coded symbols including the end-of-block symbol -/
def Block.nSyms (b : Block) : Nat := b.syms.size + 1

/-! ### bitmap -/

/-- byte values `16·i + j` for the set bits (MSB = j 0) of a 16-bit row word -/
def usedOfRow (i : Nat) (small : Nat) : List UInt8 :=
  (List.range 16).filterMap fun j =>
    if small.testBit (15 - j) then some (UInt8.ofNat (16 * i + j)) else none

/-- Read the 16-bit row words for the rows whose bit is set in `big`
    (MSB = row 0); returns the used byte values in increasing order. -/
def readBitmapRows (big : Nat) : (rows : List Nat) → (pos : Nat) → Bits →
    Option (List UInt8 × Nat × Bits)
  | [], pos, bits => some ([], pos, bits)
  | i :: rows, pos, bits =>
    if big.testBit (15 - i) then
      match takeNat 16 bits with
      | none => none
      | some (small, bits) =>
        match readBitmapRows big rows (pos + 16) bits with
        | none => none
        | some (u, pos, bits) => some (usedOfRow i small ++ u, pos, bits)
    else readBitmapRows big rows pos bits

/-! ### selectors -/

/-- One unary-coded MTF index: `k` one-bits then a zero bit; must stay below
    `nGroups`.  Returns the index and the rest (it consumed `index + 1` bits). -/
def readUnary (nGroups : Nat) : (k : Nat) → Bits → Except Reject (Nat × Bits)
  | _, [] => .error .truncated
  | k, false :: bits => .ok (k, bits)
  | k, true :: bits =>
    if k + 1 < nGroups then readUnary nGroups (k + 1) bits else .error .badSelector

/-- `n` unary-coded selector MTF indices. -/
def readSelectorMtf (nGroups : Nat) : (n : Nat) → (pos : Nat) → Bits → (acc : Array Nat) →
    Except Reject (Array Nat × Nat × Bits)
  | 0, pos, bits, acc => .ok (acc, pos, bits)
  | n + 1, pos, bits, acc =>
    match readUnary nGroups 0 bits with
    | .error e => .error e
    | .ok (j, bits) => readSelectorMtf nGroups n (pos + j + 1) bits (acc.push j)

/-- Move the element at index `j` to the front (`none` if out of range). -/
def moveToFront {α : Type} (l : List α) (j : Nat) : Option (α × List α) :=
  match l[j]? with
  | none => none
  | some x => some (x, x :: l.eraseIdx j)

/-- Undo the MTF coding of the selectors (initial list 0,1,…,nGroups−1). -/
def unMtfSelectors : (mtf : List Nat) → (js : List Nat) → (acc : Array Nat) → Option (Array Nat)
  | _, [], acc => some acc
  | mtf, j :: js, acc =>
    match moveToFront mtf j with
    | none => none
    | some (t, mtf) => unMtfSelectors mtf js (acc.push t)

/-! ### code lengths -/

/-- Delta coding of one code length, starting from the current value `cur`
    (which the caller has checked to be in 1…20):
    `0` = this symbol's length is `cur`; `10` = increment; `11` = decrement.
    EVERY intermediate value must stay in 1…20. -/
def readLen : (cur : Nat) → (pos : Nat) → Bits → Except Reject (Nat × Nat × Bits)
  | _, _, [] => .error .truncated
  | cur, pos, false :: bits => .ok (cur, pos + 1, bits)
  | _, _, [true] => .error .truncated
  | cur, pos, true :: false :: bits =>
    if cur + 1 ≤ maxLen then readLen (cur + 1) (pos + 2) bits else .error .badCodeLen
  | cur, pos, true :: true :: bits =>
    if 2 ≤ cur then readLen (cur - 1) (pos + 2) bits else .error .badCodeLen

/-- The `n` code lengths of one table; each symbol continues from the previous
    symbol's length. -/
def readLens : (n : Nat) → (cur : Nat) → (pos : Nat) → Bits → (acc : Array Nat) →
    Except Reject (Array Nat × Nat × Bits)
  | 0, _, pos, bits, acc => .ok (acc, pos, bits)
  | n + 1, cur, pos, bits, acc =>
    match readLen cur pos bits with
    | .error e => .error e
    | .ok (len, pos, bits) => readLens n len pos bits (acc.push len)

/-- One table: 5-bit start value (must itself be in 1…20), then `alphaSize`
    delta-coded lengths. -/
def readTable (alphaSize : Nat) (pos : Nat) (bits : Bits) :
    Except Reject (List Nat × Nat × Bits) :=
  match takeNat 5 bits with
  | none => .error .truncated
  | some (start, bits) =>
    if 1 ≤ start ∧ start ≤ maxLen then
      match readLens alphaSize start (pos + 5) bits (Array.mkEmpty alphaSize) with
      | .error e => .error e
      | .ok (lens, pos, bits) => .ok (lens.toList, pos, bits)
    else .error .badCodeLen

def readTables (alphaSize : Nat) : (n : Nat) → (pos : Nat) → Bits → (acc : Array (List Nat)) →
    Except Reject (List (List Nat) × Nat × Bits)
  | 0, pos, bits, acc => .ok (acc.toList, pos, bits)
  | n + 1, pos, bits, acc =>
    match readTable alphaSize pos bits with
    | .error e => .error e
    | .ok (t, pos, bits) => readTables alphaSize n pos bits (acc.push t)

/-! ### canonical prefix codes

  Codes are assigned in order of increasing length and, within a length, of
  increasing symbol index; the first code is all zeros and each next code is
  the previous one plus one, left-shifted when the length grows.  For length
  `l` let `count l` be the number of symbols of that length and `first l` the
  first code of that length (`first 1 = 0`, `first (l+1) = (first l + count l)·2`).
  A bit string `c` of length `l` is a code word iff `first l ≤ c < first l + count l`,
  and it then denotes the `(c − first l)`-th symbol of length `l`. -/

/-- Kraft sum scaled by 2^20: Σ 2^(20 − len). -/
def kraftSum (lens : List Nat) : Nat :=
  lens.foldl (fun s l => s + 2 ^ (maxLen - l)) 0

/-- Kraft-complete: the code words exactly tile the code space. -/
def kraftComplete (lens : List Nat) : Bool := kraftSum lens == 2 ^ maxLen

/-- A table prepared for decoding. -/
structure Code where
  /-- number of symbols of length 1, 2, …, 20 -/
  counts : List Nat
  /-- symbols ordered by (length, index) -/
  perm : Array Nat
  /-- Kraft-complete? -/
  complete : Bool
  deriving Repr, Inhabited

def mkCode (lens : List Nat) : Code :=
  let n := lens.length
  let ls := lens.toArray
  let lengths := (List.range maxLen).map (· + 1)
  { counts := lengths.map fun l => lens.count l
    perm := (lengths.flatMap fun l => (List.range n).filter fun s => ls.getD s 0 == l).toArray
    complete := kraftComplete lens }

/-- Canonical decoding of one symbol: walk the lengths 1…20, extending the
    code by one bit each time.  `first` is the first code of the current
    length, `index` the number of symbols with shorter codes.  Returns the
    rank of the symbol in `perm`. -/
def decodeRank : (counts : List Nat) → (code first index : Nat) → (pos : Nat) → Bits →
    Except Reject (Nat × Nat × Bits)
  | [], _, _, _, _, _ => .error .badCode
  | _ :: _, _, _, _, _, [] => .error .truncated
  | c :: counts, code, first, index, pos, b :: bits =>
    let code := 2 * code + bit b
    if first ≤ code ∧ code < first + c then .ok (index + (code - first), pos + 1, bits)
    else decodeRank counts code (2 * (first + c)) (index + c) (pos + 1) bits

/-- Decode one prefix-coded symbol. -/
def decodeSym (c : Code) (pos : Nat) (bits : Bits) : Except Reject (Nat × Nat × Bits) :=
  match decodeRank c.counts 0 0 0 pos bits with
  | .error e => .error e
  | .ok (r, pos, bits) =>
    match c.perm[r]? with
    | none => .error .badCode
    | some s => .ok (s, pos, bits)

/-- Up to `k` symbols of one group; stops at the end-of-block symbol
    (result flag `true`).  The EOB symbol itself is not appended. -/
def decodeGroup (c : Code) (eob : Nat) : (k : Nat) → (pos : Nat) → Bits → (acc : Array Nat) →
    Except Reject (Bool × Nat × Bits × Array Nat)
  | 0, pos, bits, acc => .ok (false, pos, bits, acc)
  | k + 1, pos, bits, acc =>
    match decodeSym c pos bits with
    | .error e => .error e
    | .ok (s, pos, bits) =>
      if s == eob then .ok (true, pos, bits, acc)
      else decodeGroup c eob k pos bits (acc.push s)

/-- Groups of 50 symbols, one selector per group, until the end-of-block
    symbol.  A group whose table is not Kraft-complete is rejected; selectors
    left over after EOB are ignored; running out of selectors is an error.
    Returns the number of selectors used. -/
def decodeGroups (codes : Array Code) (eob : Nat) : (sels : List Nat) → (nUsed : Nat) →
    (pos : Nat) → Bits → (acc : Array Nat) → Except Reject (Nat × Nat × Bits × Array Nat)
  | [], _, _, _, _ => .error .missingEob
  | s :: sels, nUsed, pos, bits, acc =>
    match codes[s]? with
    | none => .error .badSelector
    | some c =>
      if !c.complete then .error .tableNotComplete
      else
        match decodeGroup c eob groupSize pos bits acc with
        | .error e => .error e
        | .ok (true, pos, bits, acc) => .ok (nUsed + 1, pos, bits, acc)
        | .ok (false, pos, bits, acc) => decodeGroups codes eob sels (nUsed + 1) pos bits acc

/-! ### the whole block -/

/-- Parse one block.  `bits` starts right AFTER the 48-bit block magic, whose
    first bit is at offset `start`.  Returns the block and the remaining bits
    (the block's `endBit` is the offset of the first remaining bit). -/
def parseBlock (level : Nat) (start : Nat) (bits : Bits) : Except Reject (Block × Bits) :=
  match takeNat 32 bits with
  | none => .error .truncated
  | some (storedCrc, bits) =>
  match takeNat 1 bits with
  | none => .error .truncated
  | some (rand, bits) =>
  match takeNat 24 bits with
  | none => .error .truncated
  | some (origPtr, bits) =>
  match takeNat 16 bits with
  | none => .error .truncated
  | some (big, bits) =>
  -- 48 magic + 32 crc + 1 rand + 24 origPtr + 16 bitmap
  match readBitmapRows big (List.range 16) (start + 121) bits with
  | none => .error .truncated
  | some (used, pos, bits) =>
  if used.isEmpty then .error .emptyBitmap else
  let alphaSize := used.length + 2
  match takeNat 3 bits with
  | none => .error .truncated
  | some (nGroups, bits) =>
  if nGroups < 2 ∨ 6 < nGroups then .error .badNGroups else
  match takeNat 15 bits with
  | none => .error .truncated
  | some (nSelectors, bits) =>
  if nSelectors = 0 then .error .noSelectors else
  match readSelectorMtf nGroups nSelectors (pos + 18) bits (Array.mkEmpty nSelectors) with
  | .error e => .error e
  | .ok (selMtf, pos, bits) =>
  match unMtfSelectors (List.range nGroups) selMtf.toList (Array.mkEmpty nSelectors) with
  | none => .error .badSelector
  | some selectors =>
  match readTables alphaSize nGroups pos bits (Array.mkEmpty nGroups) with
  | .error e => .error e
  | .ok (tables, pos, bits) =>
  let codes := (tables.map mkCode).toArray
  match decodeGroups codes (alphaSize - 1) selectors.toList 0 pos bits (Array.mkEmpty 1024) with
  | .error e => .error e
  | .ok (nUsed, pos, bits, syms) =>
  .ok ({ level := level, startBit := start, endBit := pos, storedCrc := storedCrc,
         rand := rand == 1, origPtr := origPtr, used := used, nGroups := nGroups,
         selectors := selectors.toList, tables := tables, nSelectorsUsed := nUsed,
         syms := syms }, bits)

/-! ## Pure stages -/

/-- append `n` copies of `b` -/
def pushN {α : Type} (acc : Array α) (b : α) : Nat → Array α
  | 0 => acc
  | n + 1 => pushN (acc.push b) b n

/-- State of the MTF / zero-run decoder: the MTF list, the pending run of the
    byte at the front of the list (`run` copies, next RUNA/RUNB digit worth
    `weight`), and the output so far.

    RUNA/RUNB are the digits 1 and 2 of a bijective base-2 numeral, least
    significant first: a maximal sequence d₀ d₁ … d_k stands for
    Σ dᵢ·2^i copies of the byte currently at the front of the MTF list. -/
def unMtfRle2Go (cap : Nat) : (syms : List Nat) → (mtf : List UInt8) → (run weight : Nat) →
    (out : Array UInt8) → Except Reject (Array UInt8)
  | [], mtf, run, _, out =>
    if out.size + run ≤ cap then .ok (pushN out (mtf.headD 0) run) else .error .blockOverflow
  | s :: syms, mtf, run, weight, out =>
    if s ≤ 1 then
      -- RUNA (s = 0) adds 1·weight, RUNB (s = 1) adds 2·weight
      let run := run + (s + 1) * weight
      if run ≤ cap then unMtfRle2Go cap syms mtf run (2 * weight) out
      else .error .blockOverflow
    else if out.size + run + 1 ≤ cap then
      let out := pushN out (mtf.headD 0) run
      match moveToFront mtf (s - 1) with
      | none => .error .badSymbol
      | some (b, mtf) => unMtfRle2Go cap syms mtf 0 1 (out.push b)
    else .error .blockOverflow

/-- Undo the zero-run coding and the move-to-front transform.  `used` is the
    initial MTF list (used byte values, increasing), `syms` the symbol stream
    without the end-of-block symbol, `cap` the block capacity: the result is
    rejected as soon as it would exceed `cap` bytes. -/
def unMtfRle2 (used : List UInt8) (cap : Nat) (syms : List Nat) : Except Reject (Array UInt8) :=
  unMtfRle2Go cap syms used 0 1 (Array.mkEmpty 1024)

/-- Follow the permutation `t` for `n` steps from `p`, collecting `l[p]`. -/
def ibwtWalk (l : Array UInt8) (t : Array Nat) : (n : Nat) → (p : Nat) → (acc : Array UInt8) →
    Array UInt8
  | 0, _, acc => acc
  | n + 1, p, acc => ibwtWalk l t n (t.getD p 0) (acc.push (l.getD p 0))

/-- `bucketStarts l`[c] = number of positions of `l` holding a byte smaller
    than `c` (256 entries): where the bucket of value `c` starts when the
    positions are listed in order of their byte value. -/
def bucketStarts (l : Array UInt8) : Array Nat :=
  let counts := l.foldl (fun (c : Array Nat) b => c.setIfInBounds b.toNat (c.getD b.toNat 0 + 1))
    (Array.replicate 256 0)
  (counts.foldl (fun (acc : Array Nat × Nat) c => (acc.1.push acc.2, acc.2 + c))
    (Array.mkEmpty 256, 0)).1

/-- The positions `0 … n−1` of `l` in STABLE order of their byte value
    (a counting sort: position `i` goes to the next free slot of the bucket of
    `l[i]`).  Same list as `(List.range n).mergeSort (l[·] ≤ l[·])`; written as
    two folds so that the kernel can evaluate it (`decide +kernel` examples). -/
def ibwtPerm (l : Array UInt8) : Array Nat :=
  (l.foldl (fun (s : Array Nat × Array Nat × Nat) b =>
      let p := s.1.getD b.toNat 0
      (s.1.setIfInBounds b.toNat (p + 1), s.2.1.setIfInBounds p s.2.2, s.2.2 + 1))
    (bucketStarts l, Array.replicate l.size 0, 0)).2.1

/-- Inverse Burrows–Wheeler transform.  `l` is the last column of the sorted
    rotation matrix and `origPtr` the row holding the original text.
    `t = ibwtPerm l` lists the positions of `l` in stable order of their byte
    value: `t[j]` is the row whose LAST byte is the FIRST byte of row `j`, i.e.
    the row of the rotation one step to the left.  The text is read off by
    starting at `t[origPtr]` and following `t`. -/
def ibwt (l : Array UInt8) (origPtr : Nat) : Option (Array UInt8) :=
  if origPtr < l.size then
    let t := ibwtPerm l
    some (ibwtWalk l t l.size (t.getD origPtr 0) (Array.mkEmpty l.size))
  else none

/-- The randomisation table as an array. -/
def randTab : Array Nat := Gen.randTable.toArray

/-- bzip2's `BZ_RAND_UPD_MASK` / `BZ_RAND_MASK` applied to each byte in turn:
    a countdown `toGo` reloaded from the table (cyclically, 512 entries) when
    it is 0, decremented for every byte; the byte is XORed with 1 when the
    countdown is 1 after the decrement. -/
def derandGo : List UInt8 → (toGo tpos : Nat) → (acc : Array UInt8) → Array UInt8
  | [], _, _, acc => acc
  | b :: bs, toGo, tpos, acc =>
    let reload := toGo == 0
    let toGo := (if reload then randTab.getD tpos 0 else toGo) - 1
    let tpos := if reload then (tpos + 1) % 512 else tpos
    derandGo bs toGo tpos (acc.push (if toGo == 1 then b ^^^ 1 else b))

/-- Undo the block randomisation of bzip2 0.9.0 and earlier. -/
def derand (bs : Array UInt8) : Array UInt8 :=
  derandGo bs.toList 0 0 (Array.mkEmpty bs.size)

/-- Final run-length decoding.  `cnt` (0…4) consecutive bytes equal to `last`
    have just been copied; after four, the next byte is a repeat count 0…255
    and the run detection starts afresh after it.  A block that ends right
    after four equal bytes (count byte missing) is rejected. -/
def unRle1Go : List UInt8 → (last : UInt8) → (cnt : Nat) → (acc : Array UInt8) →
    Except Reject (Array UInt8)
  | [], _, cnt, acc => if cnt == 4 then .error .missingCount else .ok acc
  | b :: bs, last, cnt, acc =>
    if cnt == 4 then unRle1Go bs last 0 (pushN acc last b.toNat)
    else if cnt != 0 && b == last then unRle1Go bs last (cnt + 1) (acc.push b)
    else unRle1Go bs b 1 (acc.push b)

def unRle1 (bs : Array UInt8) : Except Reject (Array UInt8) :=
  unRle1Go bs.toList 0 0 (Array.mkEmpty (bs.size + bs.size / 2))

/-- What the later stages make of a parsed block. -/
structure Decoded where
  /-- block size before the final run-length decoding (≥ 1, ≤ level × 100000) -/
  nblock : Nat
  /-- the plaintext of the block -/
  bytes : Array UInt8
  deriving Inhabited

/-- All stages after parsing, with every check of the format. -/
def decodeBlock (b : Block) : Except Reject Decoded :=
  match unMtfRle2 b.used (blockCap b.level) b.syms.toList with
  | .error e => .error e
  | .ok tt =>
    if tt.size = 0 then .error .emptyBlock
    else match ibwt tt b.origPtr with
    | none => .error .badOrigPtr
    | some t =>
      match unRle1 (if b.rand then derand t else t) with
      | .error e => .error e
      | .ok out =>
        if (crc32Arr out).toNat = b.storedCrc then .ok { nblock := tt.size, bytes := out }
        else .error .blockCrc

/-! ## Inspector records -/

/-- How often each symbol (index < alphaSize, EOB included) is coded with each
    table: `nGroups` rows of `alphaSize` counts.  Symbol number `i` of the
    block (0-based, EOB last) belongs to group `i / 50`. -/
def tableFreqs (b : Block) : List (List Nat) :=
  let sels := b.selectors.toArray
  let zero : Array (Array Nat) := Array.replicate b.nGroups (Array.replicate b.alphaSize 0)
  let bump (f : Array (Array Nat)) (i s : Nat) : Array (Array Nat) :=
    f.modify (sels.getD (i / groupSize) 0) fun row => row.modify s (· + 1)
  let f := (b.syms.foldl (fun (fi : Array (Array Nat) × Nat) s => (bump fi.1 fi.2 s, fi.2 + 1))
             (zero, 0)).1
  (bump f b.syms.size b.eob).toList.map Array.toList

structure BlockReport where
  block : Block
  /-- size before the final run-length decoding -/
  nblock : Nat
  /-- plaintext size -/
  size : Nat
  /-- per-table symbol frequencies -/
  freqs : List (List Nat)
  deriving Repr, Inhabited

structure StreamReport where
  level : Nat
  /-- bit offset of the 'B' of the header -/
  startBit : Nat
  /-- bit offset after the padding that follows the stream CRC -/
  endBit : Nat
  /-- stored combined CRC -/
  storedCrc : Nat
  blocks : List BlockReport
  deriving Repr, Inhabited

structure Report where
  streams : List StreamReport
  /-- total plaintext size -/
  size : Nat
  /-- CRC-32/bzip2 of the whole plaintext (handy for comparisons) -/
  crc : Nat
  deriving Repr, Inhabited

/-- The producer-side rules of C02 that concern one block. -/
def strictBlockCheck (b : Block) : Except Reject Unit :=
  if b.rand then .error .randomised
  else if !(b.tables.all kraftComplete) then .error .incompleteTable
  else if b.selectors.length > maxSelectorsStrict then .error .tooManySelectors
  else .ok ()

/-! ## Streams and files -/

/-- Accumulated result of walking a file. -/
structure Acc where
  out : Array UInt8 := #[]
  streams : Array StreamReport := #[]
  deriving Inhabited

/-- The blocks of one stream, up to and including the end-of-stream trailer
    (magic and combined CRC, not the padding).  `pos` is the offset of the
    first bit of `bits`.  `strict` adds the C02 producer rules and keeps the
    per-block reports.  Returns the offset and bits after the stored CRC. -/
def decodeBlocks (strict : Bool) (level : Nat) : (fuel : Nat) → (pos : Nat) → Bits →
    (cc : UInt32) → (out : Array UInt8) → (reps : Array BlockReport) →
    Except Reject (Nat × Bits × Nat × Array UInt8 × Array BlockReport)
  | 0, _, _, _, _, _ => .error .fuel
  | fuel + 1, pos, bits, cc, out, reps =>
    match takeNat 48 bits with
    | none => .error .truncated
    | some (magic, bits) =>
      if magic = blockMagic then
        match parseBlock level pos bits with
        | .error e => .error e
        | .ok (b, bits) =>
          match (if strict then strictBlockCheck b else .ok ()) with
          | .error e => .error e
          | .ok () =>
            match decodeBlock b with
            | .error e => .error e
            | .ok d =>
              let reps := if strict then
                  reps.push { block := b, nblock := d.nblock, size := d.bytes.size,
                              freqs := tableFreqs b }
                else reps
              decodeBlocks strict level fuel b.endBit bits
                (combine cc (UInt32.ofNat b.storedCrc)) (out ++ d.bytes) reps
      else if magic = eosMagic then
        match takeNat 32 bits with
        | none => .error .truncated
        | some (stored, bits) =>
          if stored = cc.toNat then .ok (pos + 80, bits, stored, out, reps)
          else .error .streamCrc
      else .error .badBlockMagic

/-- Streams, starting right after a four-byte header "BZh<level>" whose first
    bit is at offset `start`.  After each stream: pad to a byte boundary, then
    apply the trailing-data rule. -/
def decodeStreams (strict : Bool) : (fuel : Nat) → (innerFuel : Nat) → (level : Nat) →
    (start : Nat) → Bits → Acc → Except Reject Acc
  | 0, _, _, _, _, _ => .error .fuel
  | fuel + 1, innerFuel, level, start, bits, acc =>
    match decodeBlocks strict level innerFuel (start + 32) bits 0 acc.out #[] with
    | .error e => .error e
    | .ok (pos, bits, stored, out, reps) =>
      -- padding: the stream began on a byte boundary, so `pos % 8` bits of the
      -- current byte are used
      let pad := (8 - pos % 8) % 8
      let bits := bits.drop pad
      let pos := pos + pad
      let acc : Acc :=
        { out := out
          streams := if strict then
              acc.streams.push { level := level, startBit := start, endBit := pos,
                                 storedCrc := stored, blocks := reps.toList }
            else acc.streams }
      if strict then
        if bits.isEmpty then .ok acc else .error .trailingData
      else
        match takeNat 32 bits with
        | none => .ok acc                      -- 0…3 bytes left: ignored
        | some (w, rest) =>
          match headerLevel w with
          | none => .ok acc                    -- not a full header: ignored
          | some level' => decodeStreams strict fuel innerFuel level' pos rest acc

/-- Walk a whole file. -/
def walkFile (strict : Bool) (data : List UInt8) : Except Reject Acc :=
  if data.isEmpty then .error .empty
  else
    let fuel := data.length + 1
    match takeNat 32 (bytesToBits data) with
    | none => .error .badMagic
    | some (w, bits) =>
      match headerLevel w with
      | none => .error .badMagic
      | some level => decodeStreams strict fuel fuel level 0 bits {}

/-- THE reference decoder: the plaintext of a valid bzip2 file, or why the
    file is not valid. -/
def decodeFile (data : List UInt8) : Except Reject (List UInt8) :=
  match walkFile false data with
  | .error e => .error e
  | .ok acc => .ok acc.out.toList

/-- `decodeFile` without the final conversion to a list (for large outputs). -/
def decodeFileArr (data : List UInt8) : Except Reject (Array UInt8) :=
  match walkFile false data with
  | .error e => .error e
  | .ok acc => .ok acc.out

theorem decodeFile_eq (data : List UInt8) :
    decodeFile data = (decodeFileArr data).map Array.toList := by
  unfold decodeFile decodeFileArr
  cases walkFile false data <;> rfl

/-- THE strict inspector (C02): `decodeFile`'s rules plus — exactly one stream
    with nothing after it, no randomised block, every table (used or not)
    Kraft-complete, at most 18002 selectors per block — and a report of what
    was found. -/
def inspect (data : List UInt8) : Except Reject Report :=
  match walkFile true data with
  | .error e => .error e
  | .ok acc =>
    .ok { streams := acc.streams.toList, size := acc.out.size, crc := (crc32Arr acc.out).toNat }

end LbzVerif.Spec.Bzip2

namespace LbzVerif.Spec
/-- Names used in DESIGN.md. -/
abbrev decodeFile := Bzip2.decodeFile
abbrev inspect := Bzip2.inspect
end LbzVerif.Spec
