/-
  Spec.Scan — what "finding the block-header pattern" means, independent of
  lbzip2 (property C14).  No Mathlib, no reference to the scanner tables.
-/
namespace LbzVerif.Spec.Scan

/-- The `n` low bits of `v`, most significant first. -/
def bitsMSB : Nat → Nat → List Bool
  | 0, _ => []
  | n + 1, v => v.testBit n :: bitsMSB n v

/-- The bzip2 block-header magic. -/
def patWord : Nat := 0x314159265359

/-- Length of the pattern in bits. -/
def patLen : Nat := 48

/-- Number of bits that follow the pattern in a block header (the block CRC). -/
def trailLen : Nat := 32

/-- The pattern `P`: the 48 bits of `0x314159265359`, most significant first. -/
def P : List Bool := bitsMSB patLen patWord

/-- Largest `k ≤ n` such that `pat.take k` is a suffix of `w`. -/
def lpsFrom (pat w : List Bool) : Nat → Nat
  | 0 => 0
  | k + 1 => if (pat.take (k + 1)).isSuffixOf w then k + 1 else lpsFrom pat w k

/-- `lps w`: the longest `k ≤ 48` such that the first `k` bits of `P` are a
suffix of `w` (how much of the pattern has just been read). -/
def lps (w : List Bool) : Nat := lpsFrom P w patLen

/-- Generic Knuth–Morris–Pratt transition: having matched `s` pattern bits,
read bit `b`. -/
def δ (s : Nat) (b : Bool) : Nat := lps (P.take s ++ [b])

/-- A header candidate ends at bit index `i` of `bits`: the first `i` bits are
some prefix, then the pattern `P`, then exactly 32 more bits. -/
def occursAt (bits : List Bool) (i : Nat) : Prop :=
  i ≤ bits.length ∧
    ∃ pre post, bits.take i = pre ++ P ++ post ∧ post.length = trailLen

/-- `i` is the end of the first header candidate lying wholly inside `bits`. -/
def firstOcc (bits : List Bool) (i : Nat) : Prop :=
  occursAt bits i ∧ ∀ j, occursAt bits j → i ≤ j

/-- Executable form of `occursAt` (used by the driver as oracle helper). -/
def occursAtB (bits : List Bool) (i : Nat) : Bool :=
  decide (i ≤ bits.length) && decide (patLen + trailLen ≤ i) &&
    ((bits.drop (i - (patLen + trailLen))).take patLen == P)

/-- Executable search for the first candidate end, `none` if there is none. -/
def firstOccB (bits : List Bool) : Option Nat :=
  (List.range (bits.length + 1)).find? (occursAtB bits)

end LbzVerif.Spec.Scan
