/-
  Spec.Prefix — what a (canonical, complete, length-limited) prefix code is,
  independent of lbzip2 (properties C01, C02, C05, C20).  Core Lean only.

  * `kraft20`, `Complete`        — Kraft sum in units of 2^-20, completeness.
  * `canonCode`, `encodeSym`     — canonical code: symbols ordered by
                                   (length, index); the code word of symbol `i`
                                   is the top `ℓᵢ` bits of the total width of
                                   all symbols that come before it.
  * `decodeSym`, `decodeSyms`    — bit-by-bit reference decoder.
  * `cost`, `optLL`, `tableOptimal` — Σ fᵢ·ℓᵢ, the minimum of it over all
                                   complete codes with lengths in 1..L (a
                                   level-by-level dynamic programme over the
                                   frequencies sorted descending), and the
                                   checker used for property C20.
-/
namespace LbzVerif.Spec.Prefix

/-! ## Kraft sum and completeness -/

/-- Width of a code of length `l` in units of `2^-20`. -/
def width (l : Nat) : Nat := 2 ^ (20 - l)

/-- `Σ 2^(20-ℓ)`. -/
def kraft20 (lens : List Nat) : Nat := (lens.map width).sum

/-- Kraft sum exactly one and every length in `1..20`. -/
def Complete (lens : List Nat) : Prop :=
  kraft20 lens = 2 ^ 20 ∧ ∀ l ∈ lens, 1 ≤ l ∧ l ≤ 20

instance (lens : List Nat) : Decidable (Complete lens) := by
  unfold Complete; infer_instance

/-- Complete and no code longer than `L`. -/
def CompleteWithin (L : Nat) (lens : List Nat) : Prop :=
  Complete lens ∧ ∀ l ∈ lens, l ≤ L

instance (L : Nat) (lens : List Nat) : Decidable (CompleteWithin L lens) := by
  unfold CompleteWithin; infer_instance

/-! ## Canonical code -/

/-- Symbol `j` comes before symbol `i` in canonical order: shorter code first,
equal lengths by symbol index. -/
def precedes (lens : List Nat) (j i : Nat) : Bool :=
  decide (lens[j]! < lens[i]!) || (decide (lens[j]! = lens[i]!) && decide (j < i))

/-- Total width (units of `2^-20`) of all symbols that come before `i`. -/
def offset20 (lens : List Nat) (i : Nat) : Nat :=
  ((List.range lens.length).map
    (fun j => if precedes lens j i then width lens[j]! else 0)).sum

/-- Canonical code word of symbol `i`, as a number of `lens[i]` bits. -/
def canonCode (lens : List Nat) (i : Nat) : Nat :=
  offset20 lens i / width lens[i]!

/-- Bit `m` of `v`. -/
def bit (v m : Nat) : Bool := decide (v / 2 ^ m % 2 = 1)

/-- The `n` low bits of `v`, most significant first. -/
def bitsMSB : Nat → Nat → List Bool
  | 0, _ => []
  | n + 1, v => bit v n :: bitsMSB n v

/-- Code word of symbol `i` as a bit string. -/
def encodeSym (lens : List Nat) (i : Nat) : List Bool :=
  bitsMSB lens[i]! (canonCode lens i)

def encodeSyms (lens : List Nat) (s : List Nat) : List Bool :=
  s.flatMap (encodeSym lens)

/-- First symbol whose code word is the `k`-bit number `v`. -/
def findSym (lens : List Nat) (k v : Nat) : Option Nat :=
  (List.range lens.length).find?
    (fun i => decide (lens[i]! = k) && decide (canonCode lens i = v))

/-- Read one more bit; stop as soon as the bits read so far are a code word. -/
def decodeAux (lens : List Nat) : Nat → Nat → Nat → List Bool → Option (Nat × List Bool)
  | 0, _, _, _ => none
  | _ + 1, _, _, [] => none
  | fuel + 1, k, v, b :: bs =>
    let v' := 2 * v + b.toNat
    match findSym lens (k + 1) v' with
    | some i => some (i, bs)
    | none => decodeAux lens fuel (k + 1) v' bs

/-- Bit-by-bit reference decoder: the symbol decoded and the unread bits;
`none` if the first 20 bits (or all the bits there are) start no code word. -/
def decodeSym (lens : List Nat) (bits : List Bool) : Option (Nat × List Bool) :=
  decodeAux lens 20 0 0 bits

/-- Decode exactly `n` symbols. -/
def decodeSyms (lens : List Nat) : Nat → List Bool → Option (List Nat × List Bool)
  | 0, bits => some ([], bits)
  | n + 1, bits =>
    match decodeSym lens bits with
    | none => none
    | some (i, rest) =>
      match decodeSyms lens n rest with
      | none => none
      | some (is, r) => some (i :: is, r)

/-! ## Cost and the length-limited optimum -/

/-- `Σ fᵢ·ℓᵢ`. -/
def cost (f lens : List Nat) : Nat := (List.zipWith (· * ·) f lens).sum

def insertDesc (x : Nat) : List Nat → List Nat
  | [] => [x]
  | y :: ys => if y < x then x :: y :: ys else y :: insertDesc x ys

/-- Insertion sort, descending. -/
def sortDesc : List Nat → List Nat
  | [] => []
  | x :: xs => insertDesc x (sortDesc xs)

/-- Minimum of two optional costs (`none` = infeasible). -/
def omin : Option Nat → Option Nat → Option Nat
  | none, b => b
  | a, none => a
  | some a, some b => some (min a b)

def oadd (c : Nat) : Option Nat → Option Nat
  | none => none
  | some a => some (c + a)

/-!
The dynamic programme.  Frequencies `g` are sorted descending, so an optimal
code gives them non-decreasing lengths, and such a code is a walk over the
levels `d = 1, 2, …, L` of the code tree: with `m` open nodes at depth `d` and
the symbols `gs` (a suffix of `g`) still to place, either make the next symbol
a leaf at depth `d` (`m-1` open nodes, cost `g·d`) or, when no more leaves are
wanted at this depth, split all open nodes (`2m` open nodes at depth `d+1`).
`V(d, m, gs)` = least cost to finish, `none` when impossible.

A *row* is the list of `V(d, m, s)` for every suffix `s` of `g`, longest first
(`g.length + 1` entries); a *level* is the list of rows `m = 0 … g.length`
(more open nodes than symbols can never be closed).
-/

/-- Row `m = 0`: finished iff nothing is left to place. -/
def row0 : List Nat → List (Option Nat)
  | [] => [some 0]
  | _ :: gs => none :: row0 gs

/-- An all-infeasible row. -/
def rowNone : List Nat → List (Option Nat)
  | [] => [none]
  | _ :: gs => none :: rowNone gs

/-- Row `(d, m+1)` from row `(d, m)` (`a`) and row `(d+1, 2(m+1))` (`b`). -/
def combine (d : Nat) : List Nat → List (Option Nat) → List (Option Nat) → List (Option Nat)
  | [], _, _ => [none]
  | g :: gs, a, b =>
    omin (oadd (g * d) (a.tail.headD none)) (b.headD none) :: combine d gs a.tail b.tail

/-- Rows `m, m+1, …, m+k-1` of level `d`, given row `m-1` and the level below. -/
def buildRows (d : Nat) (g : List Nat) (below : List (List (Option Nat))) :
    Nat → Nat → List (Option Nat) → List (List (Option Nat))
  | 0, _, _ => []
  | k + 1, m, prev =>
    let r := combine d g prev (below.getD (2 * m) (rowNone g))
    r :: buildRows d g below k (m + 1) r

/-- All rows `m = 0 … g.length` of level `d`. -/
def level (d : Nat) (g : List Nat) (below : List (List (Option Nat))) :
    List (List (Option Nat)) :=
  row0 g :: buildRows d g below g.length 1 (row0 g)

/-- Level `L - h` (computed from level `L` downwards). -/
def tableFrom (L : Nat) (g : List Nat) : Nat → List (List (Option Nat))
  | 0 => level L g []
  | h + 1 => level (L - (h + 1)) g (tableFrom L g h)

/-- Optimum for frequencies sorted descending: depth 1, two open nodes,
everything still to place. -/
def optSorted (g : List Nat) (L : Nat) : Option Nat :=
  if L = 0 then none else ((tableFrom L g (L - 1)).getD 2 (rowNone g)).headD none

/-- Minimum of `cost f ℓ` over all complete codes `ℓ` (Kraft sum exactly one)
for `f.length` symbols with every length in `1..L`; `none` if there is none
(fewer than two symbols, or more than `2^L`). -/
def optLL (f : List Nat) (L : Nat) : Option Nat := optSorted (sortDesc f) L

def maxLen (lens : List Nat) : Nat := lens.foldl max 0

/-- The C20 checker for one table: no code longer than 20 bits and no complete
code within the table's own longest length is cheaper for these frequencies. -/
def tableOptimal (freq lens : List Nat) : Bool :=
  decide (maxLen lens ≤ 20) && (optLL freq (maxLen lens) == some (cost freq lens))

end LbzVerif.Spec.Prefix
