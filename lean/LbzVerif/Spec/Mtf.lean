/-
  Spec.Mtf — the second stage of bzip2 (move-to-front followed by zero-run
  coding, "RLE2") and its inverse, written from the file-format description
  and independent of both lbzip2 implementations (encode.c `do_mtf`,
  decode.c `mtf_one` / `retrieve`).  No Mathlib.

  Symbol numbering is bzip2's: with `n = used.length` symbols in use,
    0 = RUNA, 1 = RUNB, p + 1 for move-to-front position p (1 ≤ p < n),
    n + 1 = EOB.
  A maximal run of k ≥ 1 zero positions is written as the bijective base-2
  numeral of k, least significant digit first (RUNA = digit 1, RUNB = digit 2).
-/
namespace LbzVerif.Spec.Mtf

/-- One move-to-front step on a list: the element at position `p` goes to the
front. -/
def moveToFront (l : List UInt8) (p : Nat) : List UInt8 :=
  match l[p]? with
  | some b => b :: l.eraseIdx p
  | none => l

/-- Move-to-front positions of `block` w.r.t. the list `l` (initially the used
bytes in ascending order). -/
def mtfEncode : List UInt8 → List UInt8 → List Nat
  | _, [] => []
  | l, b :: bs =>
    let p := l.idxOf b
    p :: mtfEncode (moveToFront l p) bs

/-- Inverse: positions back to bytes (`none` if a position is out of range). -/
def mtfDecode : List UInt8 → List Nat → Option (List UInt8)
  | _, [] => some []
  | l, p :: ps =>
    match l[p]? with
    | none => none
    | some b => (mtfDecode (moveToFront l p) ps).map (b :: ·)

/-- Bijective base-2 numeral of `n`, least significant digit first, digits
written 0 (RUNA, value 1) and 1 (RUNB, value 2).  `runDigits 0 = []`. -/
def runDigits (n : Nat) : List Nat :=
  if n = 0 then []
  else if n % 2 = 1 then 0 :: runDigits ((n - 1) / 2)
  else 1 :: runDigits ((n - 2) / 2)
termination_by n
decreasing_by all_goals omega

/-- Value of a bijective base-2 numeral whose first digit has weight `w`. -/
def runValue (w : Nat) : List Nat → Nat
  | [] => 0
  | d :: ds => (d + 1) * w + runValue (2 * w) ds

/-- Zero-run coding of a list of MTF positions, `k` zeros pending. -/
def zrle : Nat → List Nat → List Nat
  | k, [] => runDigits k
  | k, 0 :: ps => zrle (k + 1) ps
  | k, (p + 1) :: ps => runDigits k ++ (p + 2) :: zrle 0 ps

/-- The reference MTF + zero-run encoder: symbols of one block, EOB included. -/
def mtfRle2 (used block : List UInt8) : List Nat :=
  zrle 0 (mtfEncode used block) ++ [used.length + 1]

/-- Reference decoder state machine.  `l` current MTF list, `n` bytes produced
so far, `w` weight of the next run digit.  Result: the bytes produced from
here on up to EOB. -/
def unGo (eob limit : Nat) : List UInt8 → Nat → Nat → List Nat → Option (List UInt8)
  | _, _, _, [] => none                                   -- EOB missing
  | l, n, w, s :: ss =>
    if s = eob then some []
    else if s < 2 then                                    -- RUNA / RUNB
      match l with
      | [] => none
      | b :: _ =>
        let k := (s + 1) * w
        if n + k > limit then none                        -- does not fit
        else (unGo eob limit l (n + k) (2 * w) ss).map (List.replicate k b ++ ·)
    else if s < eob then                                  -- MTF position s-1
      match l[s - 1]? with
      | none => none
      | some b =>
        if n + 1 > limit then none
        else (unGo eob limit (moveToFront l (s - 1)) (n + 1) 1 ss).map (b :: ·)
    else none                                             -- symbol out of range

/-- The reference inverse of the MTF / zero-run stage.  `used`: the bytes in
use in ascending order; `syms`: bzip2-numbered symbols; `limit`: capacity of
the block.  `none` when the block does not fit `limit`, EOB is missing, or a
symbol is outside `0 … used.length + 1`.  Symbols after EOB are ignored. -/
def unMtfRle2 (used : List UInt8) (syms : List Nat) (limit : Nat) : Option (List UInt8) :=
  unGo (used.length + 1) limit used 0 1 syms

/-- Frequency table of a symbol list over the alphabet `0 … eob`. -/
def symFreq (eob : Nat) (syms : List Nat) : List Nat :=
  (List.range (eob + 1)).map (fun s => syms.count s)

/-- Byte histogram (the decoder's `ftab`). -/
def byteFreq (bs : List UInt8) : List Nat :=
  (List.range 256).map (fun v => bs.count (UInt8.ofNat v))

end LbzVerif.Spec.Mtf
