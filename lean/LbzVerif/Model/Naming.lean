/-
  Model of the FILE operand rules of src/main.c: `suffix_xform`, `input_init`,
  `output_init`, `output_regf_uninit`, `input_oprnd_rm` and the operand body of
  `main`.

  The suffix table and the two permission masks are `LbzVerif.Gen.suffixTable`,
  `outputCreateMask`, `outputChmodMask` (regenerated from main.c on every
  run); this file says how they are used.

  The file system is abstracted to the answers the system calls give for ONE
  operand (`World`); `admitOp` computes what lbzip2 does with it (`Effect`).
-/
import LbzVerif.Gen.Cli
import LbzVerif.Model.Cli

namespace LbzVerif.Model.Naming
open LbzVerif.Gen
open LbzVerif.Model.Cli (Tok OutMode Config)

/-- `suffix[]` as character lists: (compr, decompr, chk_compr) -/
def suffixL : List (Tok × Tok × Bool) :=
  suffixTable.map fun r => (r.1.toList, r.2.1.toList, r.2.2)

/-- `suffix_xform(name, wantOut ? &out : NULL)` over a table: the first row, in
table order, with `(chk_compr || wantOut) && len >= compr_len` and
`strcmp(name + len - compr_len, compr) == 0`; result = the formatted output
name (meaningful when `wantOut`).  `none` = the `return 0` after the loop. -/
def xformRows : List (Tok × Tok × Bool) → Tok → Bool → Option Tok
  | [], _, _ => none
  | (compr, decompr, chk) :: rs, name, wantOut =>
    if (chk || wantOut) && decide (compr.length ≤ name.length)
        && name.drop (name.length - compr.length) == compr then
      some (name.take (name.length - compr.length) ++ decompr)
    else xformRows rs name wantOut

/-- `suffix_xform(name, 0)` -/
def hasCompressedSuffix (name : Tok) : Bool := (xformRows suffixL name false).isSome

/-- `suffix_xform(name, &tmp)`; `none` would be the failed
`assert(0 == decompr_pathname)` (impossible with the shipped table, see
`Props.C17.outName_decompress_total`). -/
def outNameDecompress (name : Tok) : Option Tok := xformRows suffixL name true

/-- the `strcpy(tmp + len, ".bz2")` of `output_init` (a literal in the C code,
not a table entry) -/
def outNameCompress (name : Tok) : Tok := name ++ ['.', 'b', 'z', '2']

/-! ### One operand -/

inductive FKind where
  | regular | directory | symlink | other
  deriving DecidableEq, Repr, Inhabited

/-- the fields of `struct stat` that main.c looks at; `mode` = st_mode & 07777 -/
structure Stat where
  kind : FKind := .regular
  nlink : Nat := 1
  mode : Nat := 0o644
  atime : Nat := 0
  mtime : Nat := 0
  deriving DecidableEq, Repr, Inhabited

structure Flags where
  decompress : Bool := false
  force : Bool := false
  keep : Bool := false
  outmode : OutMode := .regf
  deriving DecidableEq, Repr, Inhabited

def Flags.ofConfig (c : Config) : Flags :=
  { decompress := c.decompress, force := c.force, keep := c.keep, outmode := c.outmode }

/-- What the system calls answer for this operand. -/
structure World where
  /-- `lstat(operand)`; `none` = -1 -/
  lstat : Option Stat := some {}
  /-- `open(operand, O_RDONLY | O_NOCTTY)` succeeds (follows symbolic links) -/
  openOk : Bool := true
  /-- `fstat` of the opened file (the link target for a symbolic link) -/
  fstat : Stat := {}
  /-- something (of any kind) exists at the output pathname -/
  outExists : Bool := false
  /-- `unlink(output pathname)` succeeds when something is there -/
  outUnlinkOk : Bool := true
  /-- `open(O_WRONLY|O_CREAT|O_EXCL)` succeeds when nothing is there -/
  outCreatable : Bool := true
  /-- `work()` returns (no read/write/format error, which would be `fail`) -/
  workOk : Bool := true
  /-- `fchown` succeeds -/
  chownOk : Bool := true
  deriving DecidableEq, Repr, Inhabited

inductive Skip where
  | lstat | notRegular | multiLink | suffix | openIn | openOut
  deriving DecidableEq, Repr, Inhabited

/-- What happened. -/
structure Effect where
  /-- the operand was skipped with a warning (and why) -/
  skip : Option Skip := none
  /-- `fail…()` was called: exit status 1 after `cleanup()` -/
  fatal : Bool := false
  /-- a `warn…()` was called: `warned = 1`, exit status 4 -/
  warned : Bool := false
  /-- the output file that exists under this name afterwards, created by this run -/
  outPath : Option Tok := none
  /-- a pre-existing object at the output pathname was unlinked -/
  oldOutputRemoved : Bool := false
  /-- mode argument of the creating `open` -/
  createMode : Nat := 0
  /-- permission bits after `output_regf_uninit` -/
  finalMode : Nat := 0
  atime : Nat := 0
  mtime : Nat := 0
  /-- `input_oprnd_rm` was called -/
  inputRemoved : Bool := false
  deriving DecidableEq, Repr, Inhabited

def Effect.status (e : Effect) : Nat := if e.fatal then 1 else if e.warned then 4 else 0

def skipE (r : Skip) : Effect := { skip := some r, warned := true }

/-- `S_ISUID | S_ISGID | S_ISVTX` -/
def specialBits : Nat := 0o7000

/-- `input_init(operand)`: `some reason` = return -1 -/
def inputInit (fl : Flags) (name : Tok) (w : World) : Option Skip :=
  if !fl.force && w.lstat.isNone then some .lstat
  else if !fl.force && fl.outmode = .regf
      && (w.lstat.map (·.kind)) != some FKind.regular then some .notRegular
  else if !fl.force && fl.outmode = .regf && !fl.keep
      && decide ((w.lstat.map (·.nlink)).getD 0 > 1) then some .multiLink
  else if !fl.decompress && hasCompressedSuffix name then some .suffix
  else if !w.openOk then some .openIn
  else none

/-- the pathname `output_init` formats in the `OM_REGF` case -/
def outName (fl : Flags) (name : Tok) : Option Tok :=
  if fl.decompress then outNameDecompress name else some (outNameCompress name)

/-- One iteration of the operand loop of `main` for a FILE operand. -/
def admitOp (fl : Flags) (name : Tok) (w : World) : Effect :=
  match inputInit fl name w with
  | some r => skipE r
  | none =>
    match fl.outmode with
    | .stdout | .discard => { fatal := !w.workOk }
    | .regf =>
      match outName fl name with
      | none => { fatal := true }
      | some out =>
        -- `if (force && -1 == unlink(tmp) ...)`
        let removed := fl.force && w.outExists && w.outUnlinkOk
        if (outputOpenExcl && w.outExists && !removed) || !w.outCreatable then
          -- open(O_WRONLY | O_CREAT | O_EXCL) fails
          { skip := some .openOut, warned := true, oldOutputRemoved := removed }
        else if !w.workOk then
          -- `fail` -> `cleanup()` unlinks the new output; the input stays
          { fatal := true, oldOutputRemoved := removed }
        else
          { outPath := some out
            oldOutputRemoved := removed
            createMode := w.fstat.mode &&& outputCreateMask
            finalMode := if w.chownOk then w.fstat.mode &&& outputChmodMask
                         else w.fstat.mode &&& outputCreateMask
            atime := w.fstat.atime
            mtime := w.fstat.mtime
            warned := !w.chownOk || (w.fstat.mode &&& specialBits) != 0
            inputRemoved := !fl.keep }

end LbzVerif.Model.Naming
