/-
  Model.Race — a small generic framework for lock-discipline / ownership
  arguments about data races (property C12).

  * `Lock`    — the three monitors of src/process.c:231-236
                (`sched_mutex`, `source_mutex`, `sink_mutex`).
  * `Access`  — one read or write of a shared variable / heap object by a
                thread, with the set of locks the thread holds at that moment.
  * `conflict a b` — different threads, same variable, at least one write.
  * `common a b`   — both accesses are made while holding one common lock
                (then the monitor serialises them).
  * `Owner`   — who may touch a variable at a given moment:
                `lock l`      every access holds `l` (guarded variable; a heap
                              object sitting in a queue that `l` protects),
                `thread t`    only thread `t` touches it (thread-owned object,
                              single-thread variable such as `next_id`),
                `frozen`      immutable after the threads have started
                              (`bs100k`, `num_worker`, granularities …),
                `writer t l`  guarded by `l`, but `t` is the only writer and may
                              therefore READ it without the lock (`tail_offs`
                              in src/expand.c:895-897).
  * `Discipline` — `owns s v o`: in state `s` variable `v` has owner `o`.
                `Protected`: the access respects some owner of its variable;
                `Unique`: a variable has at most one owner.
  * `System`  — a transition system annotated with footprints: which
                `sections` (a locked section together with the unlocked work
                that leads to it) are in progress in a state and which accesses
                each performs.  `RaceFree` is the statement of C12.

  The instances are `Model.Race.SchedC` (compression scheduler) and
  `Model.Race.Copy` (the `-cdf` pipeline).  An instance for `Model.SchedD` only
  has to supply its own variable type, `Discipline` and footprints; the
  `writer` owner kind is there for it.
-/

namespace LbzVerif.Model.Race

/-- the monitors of src/process.c:231-236 -/
inductive Lock where
  | sched | source | sink
  deriving DecidableEq, Repr

/-- one access: `thread` reads (`write = false`) or writes `var` while holding
    `locks`. -/
structure Access (T V : Type) where
  thread : T
  var : V
  write : Bool
  locks : List Lock
  deriving DecidableEq, Repr

section
variable {T V : Type}

/-- two accesses conflict: different threads, same variable, one is a write -/
def conflict (a b : Access T V) : Prop :=
  a.thread ≠ b.thread ∧ a.var = b.var ∧ (a.write = true ∨ b.write = true)

/-- both accesses are made under one common lock -/
def common (a b : Access T V) : Prop := ∃ l, l ∈ a.locks ∧ l ∈ b.locks

/-- who may touch a variable -/
inductive Owner (T : Type) where
  | lock (l : Lock)
  | thread (t : T)
  | frozen
  | writer (t : T) (l : Lock)
  deriving DecidableEq, Repr

/-- the access obeys the rule of owner `o` -/
def Respects (a : Access T V) : Owner T → Prop
  | .lock l => l ∈ a.locks
  | .thread t => a.thread = t
  | .frozen => a.write = false
  | .writer t l =>
    (a.write = true → a.thread = t ∧ l ∈ a.locks) ∧ (a.write = false → a.thread = t ∨ l ∈ a.locks)

/-- ownership of variables as a function of the state -/
structure Discipline (S T V : Type) where
  owns : S → V → Owner T → Prop

/-- the `Protected` discipline: the access holds the guarding lock, or the
    variable is owned by the accessing thread at that time, or it is
    immutable-after-start and only read (or single-writer, see `Owner.writer`) -/
def Discipline.Protected {S : Type} (D : Discipline S T V) (s : S) (a : Access T V) : Prop :=
  ∃ o, D.owns s a.var o ∧ Respects a o

/-- every variable has at most one owner in state `s` -/
def Discipline.Unique {S : Type} (D : Discipline S T V) (s : S) : Prop :=
  ∀ v o₁ o₂, D.owns s v o₁ → D.owns s v o₂ → o₁ = o₂

/-- A transition system with footprints.  A *section* is one atomic section of
    the model together with the unlocked work of the thread that precedes it
    (the phase the thread is in); `inProg s x` says that in state `s` the thread
    of `x` is inside that unlocked work, or is entitled to enter / is inside the
    locked part.  `fp s x` lists everything it touches. -/
structure System (S T V X : Type) where
  reach : S → Prop
  inProg : S → X → Prop
  fp : S → X → List (Access T V)
  disc : Discipline S T V

/-- C12: two accesses that can be performed concurrently never conflict unless
    both are made under a common lock. -/
def System.RaceFree {S X : Type} (sys : System S T V X) : Prop :=
  ∀ s, sys.reach s → ∀ x y, sys.inProg s x → sys.inProg s y →
    ∀ a ∈ sys.fp s x, ∀ b ∈ sys.fp s y, conflict a b → common a b

/-- every access in every footprint respects the discipline -/
def System.AllProtected {S X : Type} (sys : System S T V X) : Prop :=
  ∀ s, sys.reach s → ∀ x, sys.inProg s x → ∀ a ∈ sys.fp s x, sys.disc.Protected s a

/-- ownership is unambiguous in every reachable state -/
def System.AllUnique {S X : Type} (sys : System S T V X) : Prop :=
  ∀ s, sys.reach s → sys.disc.Unique s

end

/-! ### helpers for writing footprints -/

section
variable {T V : Type}

/-- a read of `v` by `t` holding `L` -/
def rd (t : T) (L : List Lock) (v : V) : Access T V := ⟨t, v, false, L⟩
/-- a write of `v` by `t` holding `L` -/
def wr (t : T) (L : List Lock) (v : V) : Access T V := ⟨t, v, true, L⟩
/-- read-modify-write -/
def rw (t : T) (L : List Lock) (v : V) : List (Access T V) := [rd t L v, wr t L v]
def rds (t : T) (L : List Lock) (vs : List V) : List (Access T V) := vs.map (rd t L)
def wrs (t : T) (L : List Lock) (vs : List V) : List (Access T V) := vs.map (wr t L)

end

end LbzVerif.Model.Race
