/-
  Model.Transmit — the bit-level emitter of the compressor: `transmit()` of
  encode.c, and the cost arithmetic of `encode()` that predicts how many bits
  `transmit()` will write (properties C01, C02).  Core Lean only.

  `EncBlock` holds exactly what `transmit()` reads out of `struct
  encoder_state` after `encode()` returned.  Tables are listed in TRANSMITTED
  order: entry `t` of `lens` / `codes` is `length[tmap_new2old[t]][0..as)` /
  `code[tmap_new2old[t]][0..as)`; `selectors` holds
  `tmap_old2new[selector[gr]]` for the `ns = ⌈nmtf/50⌉` real groups (so it
  indexes `lens` / `codes` directly — the C code reads `code[selector[gr]]`,
  the same array).  The harness (harness/h_transmit.c) performs this
  renumbering and checks that it is a bijection on the tables in use.

  `transmitBits` follows the C statement order of `transmit()`; every
  `PUTBIT(n, v)` / `SEND(n, v)` appends the `n` low bits of `v`.

  Domain.  The C macro is `b = (b << n) | v`: if `v ≥ 2^n` the excess bits are
  OR-ed into bits written earlier.  The model writes `v mod 2^n` instead, so it
  describes the C code only when every value fits its field:
  `bwt_idx < 2^24`, `num_trees < 8`, `num_selectors < 2^15`, start values
  `< 32`, `code[t][v] < 2^length[t][v]`, selector MTF values `≤ 6`.  These are
  part of `WF` below (and hold for everything `encode()` produces: the check
  compares the C bytes with the model on every run).  Likewise the C
  arithmetic on `cost` is `uint32_t`; a block has at most 900050 coded
  symbols of at most 20 bits, far below 2^32, so plain `Nat` is used.

  The sentinel symbol: `generate_prefix_code` pads `mtfv[]` to a multiple of
  50 with the value `as` and sets `length[t][as] = code[t][as] = 0` for every
  table in use, so `SEND(0, 0)` writes nothing for the padding.  In the model
  the tables have `as` entries and the lookup defaults to 0 (`getD _ 0`).
-/
import LbzVerif.Basic.Bits
import LbzVerif.Gen.Consts
import LbzVerif.Model.Canon
import LbzVerif.Spec.Prefix

namespace LbzVerif.Model.Transmit
open LbzVerif LbzVerif.Basic LbzVerif.Model.Canon

/-- What `transmit()` reads from `struct encoder_state`. -/
structure EncBlock where
  /-- `s->block_crc` (the CRC register as `collect()` left it; the stored CRC
      is its complement) -/
  crc : Nat
  /-- `s->bwt_idx` -/
  bwtIdx : Nat
  /-- `s->cmap[0..256)` -/
  cmap : List Bool
  /-- `s->u.s.num_trees` -/
  numTrees : Nat
  /-- `length[tmap_new2old[t]][0..as)` for `t < num_trees` -/
  lens : List (List Nat)
  /-- `code[tmap_new2old[t]][0..as)` for `t < num_trees` -/
  codes : List (List Nat)
  /-- `tmap_old2new[selector[gr]]` for `gr < ns` (real groups only) -/
  selectors : List Nat
  /-- `selectorMTF[0..num_selectors)` (including the dummy one, if any) -/
  selectorMtf : List Nat
  /-- `s->u.s.num_selectors` after `encode()` (including the dummy one) -/
  numSelectors : Nat
  /-- `s->u.s.tree_pad` -/
  treePad : Nat
  /-- `mtfv[0..nmtf)`: the MTF/RLE2 symbols, the last one is EOB -/
  mtfv : List Nat
  deriving Repr, Inhabited, DecidableEq

namespace EncBlock

/-- `s->nmtf` -/
def nmtf (b : EncBlock) : Nat := b.mtfv.length

/-- `as = mtfv[nmtf - 1] + 1` -/
def alphaSize (b : EncBlock) : Nat := b.mtfv.getLastD 0 + 1

/-- `ns = (nmtf + GROUP_SIZE - 1) / GROUP_SIZE` -/
def ns (b : EncBlock) : Nat := Canon.numSelectors b.nmtf

/-- `mtfv[0 .. ns * GROUP_SIZE)`: padded with the sentinel symbol `as`
    ("Complete the last group with dummy symbols", generate_prefix_code). -/
def padded (b : EncBlock) : List Nat :=
  b.mtfv ++ List.replicate (b.ns * Gen.GROUP_SIZE - b.nmtf) b.alphaSize

end EncBlock

/-! ## `encode()`: the branch-free selector MTF -/

def M32 : Nat := 2 ^ 32

/-- `__builtin_ctz` on a non-zero 32-bit value (32 for 0, where C is undefined). -/
def ctz32 (h : Nat) : Nat :=
  ((List.range 32).find? (fun i => h.testBit i)).getD 32

/-- One iteration of the `while ((c = *sp) != MAX_TREES)` loop of `encode()`
    on MTF state `p` and (renumbered) selector `c`: new state and `j`.
    All arithmetic is `uint32_t`; `j` is `uint8_t`. -/
def selStep (p c : Nat) : Nat × Nat :=
  let v := p ^^^ ((0x111111 * c) % M32)
  let z := ((v + 0xEEEEEF) % M32) &&& 0x888888
  let l := z ^^^ ((z + M32 - 1) % M32)
  let h := (M32 - 1) ^^^ l                    -- ~l
  let p' := (p ||| l) &&& ((((p <<< 4) % M32) ||| h) ||| c)
  let j := (((ctz32 h) >>> 2) + 256 - 1) % 256
  (p', j)

/-- The selector loop: the values stored to `selectorMTF[]`. -/
def selLoop : Nat → List Nat → List Nat
  | _, [] => []
  | p, c :: cs => (selStep p c).2 :: selLoop (selStep p c).1 cs

/-- "Set up initial MTF state": `p = 0x543210`. -/
def selInit : Nat := 0x543210

/-- `selectorMTF[0..ns)` as `encode()` computes it from the renumbered selectors. -/
def selectorMtfOf (sels : List Nat) : List Nat := selLoop selInit sels

/-! ## `encode()`: cost arithmetic -/

/-- `|a - b|` -/
def absDiff (a b : Nat) : Nat := (a - b) + (b - a)

/-- `Σ_{symbol ≥ 1} |length[symbol-1] - length[symbol]|` -/
def deltaSum : List Nat → Nat
  | [] => 0
  | [_] => 0
  | a :: c :: cs => absDiff a c + deltaSum (c :: cs)

/-- Cost of transmitting one table (`assign_codes`: `2·Σ|Δ| + 5 + as`; the
    dummy table: `as + 5` plus 2 when both lengths occur — the same value). -/
def tableCost (lens : List Nat) : Nat := 2 * deltaSum lens + 5 + lens.length

/-- `mtfv[50·gr .. 50·gr + 50)` -/
def group (b : EncBlock) (gr : Nat) : List Nat :=
  (b.padded.drop (Gen.GROUP_SIZE * gr)).take Gen.GROUP_SIZE

/-- Bits spent on the symbols of group `gr` (`Σ frequency·length`, regrouped
    by group instead of by table; the sentinel has length 0). -/
def groupCost (b : EncBlock) (gr : Nat) : Nat :=
  let B := b.lens.getD (b.selectors.getD gr 0) []
  ((group b gr).map (fun mv => B.getD mv 0)).sum

/-- What `generate_prefix_code` returns: tables plus coded symbols. -/
def gpcCost (b : EncBlock) : Nat :=
  (b.lens.map tableCost).sum + ((List.range b.ns).map (groupCost b)).sum

/-- `cost` when `encode()` reaches "Compute number of padding bit": header,
    crc, rand bit, bwt index, nGroups, nSelectors, `generate_prefix_code`, and
    `j + 1` per real selector. -/
def costBase (b : EncBlock) : Nat :=
  48 + 32 + 1 + 24 + 3 + 15 + gpcCost b + (((b.selectorMtf.take b.ns).map (· + 1)).sum)

/-- "Calculate the cost of transmitting character map": `pk << 4` per row with
    a used byte, and 16 for the big bucket. -/
def bitmapCost (cmap : List Bool) : Nat :=
  ((List.range 16).map (fun i =>
      (if (List.range 16).any (fun j => cmap.getD (16 * i + j) false) then 1 else 0) <<< 4)).sum
    + 16

/-- `cost` just before `cost >>= 3`. -/
def cost (b : EncBlock) : Nat := costBase b + padBits (costBase b) + bitmapCost b.cmap

/-- `s->out_expect_len` -/
def outExpectLen (b : EncBlock) : Nat := cost b >>> 3

/-! ## `transmit()` -/

/-- `PUTBIT(n, v)` / `SEND(n, v)`: the `n` low bits of `v`, MSB first. -/
def send (n v : Nat) : Bits := natToBits n v

/-- `pk = (pk << 1) + s->cmap[16 * i + j]` for `j = 0..15`. -/
def packRow (cmap : List Bool) (i : Nat) : Nat :=
  bitsToNat ((List.range 16).map (fun j => cmap.getD (16 * i + j) false))

/-- `big = (big << 1) + !!pk` for `i = 0..15`. -/
def bigWord (cmap : List Bool) : Nat :=
  bitsToNat ((List.range 16).map (fun i => packRow cmap i != 0))

/-- "Transmit character map." -/
def bitmapBits (cmap : List Bool) : Bits :=
  send 16 (bigWord cmap) ++
  (List.range 16).flatMap (fun i => if packRow cmap i != 0 then send 16 (packRow cmap i) else [])

/-- `v = 1 + *sp++; SEND(v, (1 << v) - 2);` for `num_selectors` entries. -/
def selectorBits (b : EncBlock) : Bits :=
  (List.range b.numSelectors).flatMap (fun i =>
    let v := 1 + b.selectorMtf.getD i 0
    send v ((1 <<< v) - 2))

/-- `while (a < c) { SEND(2, 2); a++; } while (a > c) { SEND(2, 3); a--; } SEND(1, 0);` -/
def deltaCode (a c : Nat) : Bits :=
  (List.replicate (c - a) (send 2 2)).flatten ++ (List.replicate (a - c) (send 2 3)).flatten
    ++ send 1 0

/-- The `for (v = 0; v < as; v++)` loop over the lengths `cs`, entered with `a`. -/
def deltaLoop : Nat → List Nat → Bits
  | _, [] => []
  | a, c :: cs => deltaCode a c ++ deltaLoop c cs

/-- `len[0..as)` as the loop reads it. -/
def tableRow (as : Nat) (len : List Nat) : List Nat :=
  (List.range as).map (fun v => len.getD v 0)

/-- One iteration of "Transmit prefix trees". -/
def tableBits (b : EncBlock) (t : Nat) : Bits :=
  let len := b.lens.getD t []
  let a0 := len.getD 0 0
  let a := if t = 0 then paddedStart a0 b.treePad else a0
  send 5 a ++ deltaLoop a (tableRow b.alphaSize len)

/-- One iteration of "Transmit prefix codes": 50 symbols with the table
    `selector[gr]`. -/
def groupBits (b : EncBlock) (gr : Nat) : Bits :=
  let t := b.selectors.getD gr 0
  let L := b.codes.getD t []
  let B := b.lens.getD t []
  (group b gr).flatMap (fun mv => send (B.getD mv 0) (L.getD mv 0))

/-- The block metadata up to the bwt index (the 48-bit magic first:
    `PUTBIT(24, 0x314159); PUTBIT(24, 0x265359);` — the two constants are
    regenerated from the source as `Gen.encBlockMagic`). -/
def headerBits (b : EncBlock) : Bits :=
  send 24 (Gen.encBlockMagic >>> 24) ++ send 24 (Gen.encBlockMagic % 2 ^ 24) ++
  send 32 (b.crc ^^^ 0xFFFFFFFF) ++
  send 1 0 ++ send 24 b.bwtIdx

/-- Everything `transmit()` writes before the final flush, in order. -/
def transmitBits (b : EncBlock) : Bits :=
  headerBits b ++
  bitmapBits b.cmap ++
  send 3 b.numTrees ++
  send 15 b.numSelectors ++
  selectorBits b ++
  (List.range b.numTrees).flatMap (tableBits b) ++
  (List.range b.ns).flatMap (groupBits b)

/-- The block body as `Spec.Bzip2.parseBlock` expects it: without the 48-bit magic. -/
def bodyBits (b : EncBlock) : Bits := (transmitBits b).drop 48

/-- The buffer `transmit()` returns: the bits, then `SEND(31, 0)` flushes the
    last partial 32-bit word padded with zero bits. -/
def transmitBytes (b : EncBlock) : List UInt8 :=
  let bits := transmitBits b
  bitsToBytes (bits ++ List.replicate ((32 - bits.length % 32) % 32) false)

/-! ## Well-formedness: what `encode()` establishes -/

/-- Byte values marked in `cmap`, increasing. -/
def usedBytes (cmap : List Bool) : List UInt8 :=
  (List.range 256).filterMap (fun v => if cmap.getD v false then some (UInt8.ofNat v) else none)

/-- The facts about an `EncBlock` that `encode()` establishes and the
    theorems about `transmitBits` rely on.  (Kraft-completeness of the tables
    and canonicity of the codes are separate hypotheses of `parse_transmit`.) -/
structure WF (b : EncBlock) : Prop where
  crc_lt : b.crc < 2 ^ 32
  bwt_lt : b.bwtIdx < 2 ^ 24
  cmap_len : b.cmap.length = 256
  mtfv_ne : b.mtfv ≠ []
  /-- `nmtf ≤ nblock + 1` (`do_mtf`: at most one value per block byte, plus EOB)
      and `nblock ≤ max_block_size ≤ MAX_BLOCK_SIZE` -/
  nmtf_le : b.nmtf ≤ Gen.MAX_BLOCK_SIZE + 1
  trees_ge : Gen.MIN_TREES ≤ b.numTrees
  trees_le : b.numTrees ≤ Gen.MAX_TREES
  lens_len : b.lens.length = b.numTrees
  codes_len : b.codes.length = b.numTrees
  /-- every table has `as` lengths, each in 1…20 -/
  lens_ok : ∀ l ∈ b.lens, l.length = b.alphaSize ∧
    ∀ x ∈ l, Gen.MIN_CODE_LENGTH ≤ x ∧ x ≤ Gen.MAX_CODE_LENGTH
  sel_len : b.selectors.length = b.ns
  sel_lt : ∀ s ∈ b.selectors, s < b.numTrees
  /-- `selectorMTF[]`: the branch-free MTF of the real selectors, then the dummy zeros -/
  selMtf_eq : b.selectorMtf =
    selectorMtfOf b.selectors ++ List.replicate (dummySelectors (costBase b)) 0
  /-- `s->u.s.num_selectors += j` -/
  nsel_eq : b.numSelectors = b.ns + dummySelectors (costBase b)
  /-- `s->u.s.tree_pad = j >> 1` -/
  pad_eq : b.treePad = Canon.treePad (costBase b)

/-- `WF` as a plain conjunction (for the `Decidable` instance). -/
def WFConj (b : EncBlock) : Prop :=
  b.crc < 2 ^ 32 ∧ b.bwtIdx < 2 ^ 24 ∧ b.cmap.length = 256 ∧ b.mtfv ≠ [] ∧
  b.nmtf ≤ Gen.MAX_BLOCK_SIZE + 1 ∧ Gen.MIN_TREES ≤ b.numTrees ∧ b.numTrees ≤ Gen.MAX_TREES ∧
  b.lens.length = b.numTrees ∧ b.codes.length = b.numTrees ∧
  (∀ l ∈ b.lens, l.length = b.alphaSize ∧
    ∀ x ∈ l, Gen.MIN_CODE_LENGTH ≤ x ∧ x ≤ Gen.MAX_CODE_LENGTH) ∧
  b.selectors.length = b.ns ∧ (∀ s ∈ b.selectors, s < b.numTrees) ∧
  b.selectorMtf =
    selectorMtfOf b.selectors ++ List.replicate (dummySelectors (costBase b)) 0 ∧
  b.numSelectors = b.ns + dummySelectors (costBase b) ∧
  b.treePad = Canon.treePad (costBase b)

theorem WF_iff (b : EncBlock) : WF b ↔ WFConj b :=
  ⟨fun h => ⟨h.crc_lt, h.bwt_lt, h.cmap_len, h.mtfv_ne, h.nmtf_le, h.trees_ge, h.trees_le, h.lens_len,
      h.codes_len, h.lens_ok, h.sel_len, h.sel_lt, h.selMtf_eq, h.nsel_eq, h.pad_eq⟩,
   fun ⟨h1, h2, h3, h4, h4', h5, h6, h7, h8, h9, h10, h11, h12, h13, h14⟩ =>
     ⟨h1, h2, h3, h4, h4', h5, h6, h7, h8, h9, h10, h11, h12, h13, h14⟩⟩

instance (b : EncBlock) : Decidable (WFConj b) := by unfold WFConj; infer_instance
instance (b : EncBlock) : Decidable (WF b) := decidable_of_iff _ (WF_iff b).symm

/-- What `parse_transmit` needs beyond `WF`: the bitmap is not empty and gives
    the alphabet size; every table is a complete code; the tables that code a
    group carry the canonical code words (`assign_codes`; the dummy table's
    `code[]` row is never read); the symbols are below `as`, and the
    end-of-block symbol `as - 1` occurs exactly once, at the end. -/
structure Coded (b : EncBlock) : Prop where
  alpha_eq : b.alphaSize = (usedBytes b.cmap).length + 2
  used_ne : usedBytes b.cmap ≠ []
  complete : ∀ l ∈ b.lens, Spec.Prefix.Complete l
  canon : ∀ s ∈ b.selectors,
    b.codes.getD s [] = (List.range b.alphaSize).map (Spec.Prefix.canonCode (b.lens.getD s []))
  syms_lt : ∀ x ∈ b.mtfv, x < b.alphaSize
  eob_last : ∀ x ∈ b.mtfv.dropLast, x + 1 ≠ b.alphaSize

def CodedConj (b : EncBlock) : Prop :=
  b.alphaSize = (usedBytes b.cmap).length + 2 ∧ usedBytes b.cmap ≠ [] ∧
  (∀ l ∈ b.lens, Spec.Prefix.Complete l) ∧
  (∀ s ∈ b.selectors,
    b.codes.getD s [] = (List.range b.alphaSize).map (Spec.Prefix.canonCode (b.lens.getD s []))) ∧
  (∀ x ∈ b.mtfv, x < b.alphaSize) ∧ (∀ x ∈ b.mtfv.dropLast, x + 1 ≠ b.alphaSize)

theorem Coded_iff (b : EncBlock) : Coded b ↔ CodedConj b :=
  ⟨fun h => ⟨h.alpha_eq, h.used_ne, h.complete, h.canon, h.syms_lt, h.eob_last⟩,
   fun ⟨h1, h2, h3, h4, h5, h6⟩ => ⟨h1, h2, h3, h4, h5, h6⟩⟩

instance (b : EncBlock) : Decidable (CodedConj b) := by unfold CodedConj; infer_instance
instance (b : EncBlock) : Decidable (Coded b) := decidable_of_iff _ (Coded_iff b).symm

end LbzVerif.Model.Transmit
