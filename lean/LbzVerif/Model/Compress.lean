/-
  Model.Compress — the COMPRESSOR of lbzip2 as one function from the input to
  the bytes of the `.bz2` file (properties C01, C02): the glue between the
  stage models

      input ──cut into blocks (collect(), compress.c)──▶ block bytes
            ──RLE1 (collect() + "Finalize initial RLE" of encode())──▶ rb
            ──BWT (divbwt)                      [CHOICE]──▶ (L, idx)
            ──make_map_e + do_mtf (Model.MtfEnc)──────────▶ mtfv
            ──generate_prefix_code              [CHOICE]──▶ tables, selectors
            ──selector MTF, padding (encode())────────────▶ Model.Transmit.EncBlock
            ──transmit()──────────────────────────────────▶ block bytes
      header ++ blocks in order ++ trailer(combined CRC)   (compress.c).

  Three parts of the real compressor are heuristics or too large to verify
  (DESIGN.md 2.2): `divbwt` (the Burrows–Wheeler sort), the EM clustering of
  `generate_prefix_code`, and `package_merge`.  They enter as a CHOICE per
  block — `Choice`: the sorted block `L`, the primary index `idx`, the number
  of tables, the code lengths of every table (in transmitted order) and one
  table number per group of 50 symbols — constrained by the DECIDABLE contract
  `ChoicesOK`.  Every theorem about `compressFile` is of the form "for every
  choice function satisfying the contract".  A choice is a function of the
  block content (what `encode()` is given), like the C code, which is
  deterministic per block.

  What is modelled after the C code, statement by statement:
  * `encode()`                                            → `encodeBlock`
      - `EOB = make_map_e(cmap, s->cmap) + 1`, `do_mtf`   → `MtfEnc.doMtf`
        over `s->cmap` = the byte values present in the block (`cmapOf`);
      - `cost = 48+32+1+24+3+15 + generate_prefix_code(s)`, the branch-free
        selector MTF (`Transmit.selectorMtfOf`), `cost += j + 1`;
      - `j = (8 - (cost & 7)) & 7; tree_pad = j >> 1; num_selectors += j & 1;`
        and the dummy `selectorMTF` entry;
      - `*crc = s->block_crc`.
  * `transmit()`                                          → `Transmit.transmitBits`;
    `do_transmit` allocates `(size + 3) / 4` words, `do_reorder` hands
    `wblk->size = out_expect_len` bytes of them to the sink → `blockBytes`.
  * `write_header`, `write_trailer`, `combined_crc = combine_crc(combined_crc,
    wblk->crc)` in block order (`do_reorder`)             → `assemble`.
  * the block cutting of `do_collect` / `do_collect_seq` is NOT re-modelled
    here: `cutBlocks` is the specification's `Spec.blocksOf` per chunk
    (default) / over the whole input (`--sequential`), which
    `Props.C04.Blocks.blocks_nonseq` / `blocks_seq` prove to be what every
    terminated run of the scheduler model with the real `collect()` produces
    (`Props.C01.Roundtrip.assemble_sched` uses exactly that).

  Core Lean only (linked into the driver).
-/
import LbzVerif.Basic.Bits
import LbzVerif.Gen.Consts
import LbzVerif.Gen.Process
import LbzVerif.Spec.Rle1
import LbzVerif.Spec.Prefix
import LbzVerif.Spec.Bzip2
import LbzVerif.Model.Collect
import LbzVerif.Model.MtfEnc
import LbzVerif.Model.Canon
import LbzVerif.Model.Transmit
import LbzVerif.Model.SchedC

namespace LbzVerif.Model.Compress
open LbzVerif LbzVerif.Basic LbzVerif.Model.Transmit

/-! ## Choices and their contract -/

/-- What the unverified parts of `encode()` decide for one block. -/
structure Choice where
  /-- last column of the sorted rotations of the block (`divbwt`'s output, read
      through `SA`) -/
  L : List UInt8
  /-- `s->bwt_idx`: the row of the original text -/
  idx : Nat
  /-- `s->u.s.num_trees` -/
  numTrees : Nat
  /-- code lengths, one row of `alphaSize` entries per table, in TRANSMITTED
      order (`length[tmap_new2old[t]]`) -/
  lens : List (List Nat)
  /-- `tmap_old2new[selector[gr]]` for every group of 50 symbols -/
  selectors : List Nat
  deriving Repr, Inhabited, DecidableEq

/-- `s->cmap[0..256)` when `encode()` runs `make_map_e`: `collect()` marks a
    byte value exactly when it stores it in the block, and "Finalize initial
    RLE" marks the last count byte — so the flag of `v` says whether `v` occurs
    in the block that is sorted (see the header of Model/Collect.lean). -/
def cmapOf (rb : List UInt8) : List Bool :=
  (List.range 256).map (fun v => rb.contains (UInt8.ofNat v))

/-- The byte values in use, increasing. -/
def usedOf (rb : List UInt8) : List UInt8 := usedBytes (cmapOf rb)

/-- `mtfv[0..nmtf)`: `make_map_e` + `do_mtf` over the sorted block `L`
    (`[]` where the model of `do_mtf` would index outside its arrays, which
    `ChoicesOK` excludes). -/
def mtfvOf (rb L : List UInt8) : List Nat := (MtfEnc.doMtf (usedOf rb) L).getD []

/-- What `divbwt` must satisfy: the reference inverse transform maps `(L, idx)`
    back to the block, and `L` contains no byte value foreign to the block.
    (The second clause does not follow from the first: `ibwt "ab" 0 = "aa"`.
    A true BWT is a permutation of the block and satisfies both.) -/
def BwtOK (rb L : List UInt8) (idx : Nat) : Prop :=
  Spec.Bzip2.ibwt L.toArray idx = some rb.toArray ∧ ∀ x ∈ L, x ∈ rb

instance (rb L : List UInt8) (idx : Nat) : Decidable (BwtOK rb L idx) := by
  unfold BwtOK; infer_instance

/-- What `generate_prefix_code` must satisfy for an alphabet of `as` symbols
    and `nmtf` MTF values: 2…6 tables, one row per table, every row a complete
    prefix code (Kraft sum one, lengths 1…20) over the `as` symbols, one
    selector per group of 50 values, every selector naming a table. -/
def TablesOK (as nmtf : Nat) (ch : Choice) : Prop :=
  Gen.MIN_TREES ≤ ch.numTrees ∧ ch.numTrees ≤ Gen.MAX_TREES ∧
  ch.lens.length = ch.numTrees ∧
  (∀ l ∈ ch.lens, l.length = as ∧ Spec.Prefix.Complete l) ∧
  ch.selectors.length = Canon.numSelectors nmtf ∧
  ∀ s ∈ ch.selectors, s < ch.numTrees

instance (as nmtf : Nat) (ch : Choice) : Decidable (TablesOK as nmtf ch) := by
  unfold TablesOK; infer_instance

/-- The contract for one block `rb` (the run-length encoded block `encode()`
    sorts). -/
def ChoicesOK (rb : List UInt8) (ch : Choice) : Prop :=
  BwtOK rb ch.L ch.idx ∧ TablesOK ((usedOf rb).length + 2) (mtfvOf rb ch.L).length ch

instance (rb : List UInt8) (ch : Choice) : Decidable (ChoicesOK rb ch) := by
  unfold ChoicesOK; infer_instance

/-! ## One block: `encode()` -/

/-- The encoder state before "Compute number of padding bit": no dummy
    selector, no tree padding yet. -/
def encodeBlock0 (rb : List UInt8) (crc : UInt32) (ch : Choice) : EncBlock :=
  let mtfv := mtfvOf rb ch.L
  { crc := crc.toNat, bwtIdx := ch.idx, cmap := cmapOf rb,
    numTrees := ch.numTrees, lens := ch.lens,
    codes := ch.lens.map Canon.assignCodes,
    selectors := ch.selectors,
    selectorMtf := selectorMtfOf ch.selectors,
    numSelectors := Canon.numSelectors mtfv.length,
    treePad := 0, mtfv := mtfv }

/-- `encode(s, &crc)` for the block `rb` = `block[0..nblock)` after "Finalize
    initial RLE", CRC register `crc` = `s->block_crc`, and the choices `ch`:
    what `transmit()` will read.  `cost` at the padding step is
    `Transmit.costBase`, which reads only the first `ns` selector-MTF values,
    so it is computed on the state before the padding is applied. -/
def encodeBlock (rb : List UInt8) (crc : UInt32) (ch : Choice) : EncBlock :=
  let b0 := encodeBlock0 rb crc ch
  let c := costBase b0
  let j := Canon.dummySelectors c
  { b0 with
    selectorMtf := b0.selectorMtf ++ List.replicate j 0,
    numSelectors := b0.numSelectors + j,
    treePad := Canon.treePad c }

/-- What `collect()` + "Finalize initial RLE" hand to the rest of `encode()`
    for a block whose input bytes are `b`: the run-length encoded block and the
    CRC register (`Props.C04.collect_pack`; the same pair as
    `Props.C04.Blocks.specOut`). -/
def blockIn (b : List UInt8) : List UInt8 × UInt32 :=
  (Spec.rle1 b, Model.crcFold 0xFFFFFFFF b)

/-- The whole block pipeline on the input bytes `b` of one block. -/
def compressBlock (choose : List UInt8 → Choice) (b : List UInt8) : EncBlock :=
  encodeBlock (blockIn b).1 (blockIn b).2 (choose (blockIn b).1)

/-- The bytes of one block in the output file: `transmit()` fills
    `(size + 3) / 4` 32-bit words, `sink_write_buffer(buffer, size)` writes the
    first `size = out_expect_len` bytes. -/
def blockBytes (b : EncBlock) : List UInt8 := (transmitBytes b).take (outExpectLen b)

/-! ## The file -/

/-- `write_header()` -/
def headerBytes (level : Nat) : List UInt8 := (Gen.streamHeaderBytes level).map UInt8.ofNat

/-- `write_trailer()` -/
def trailerBytes (cc : Nat) : List UInt8 :=
  Gen.streamTrailerMagic.map UInt8.ofNat ++
    (if Gen.trailerCrcBigEndian then be32 cc else (be32 cc).reverse)

/-- `combined_crc` after `do_reorder` has seen the blocks in order
    (`wblk->crc` is the raw register `s->block_crc`). -/
def combinedCrc (crcs : List UInt32) : Nat :=
  crcs.foldl (fun cc c => Gen.combineCrc cc c.toNat) 0

/-- The output file for a list of collected blocks `(finished block, block_crc)`
    in writing order. -/
def assemble (level : Nat) (choose : List UInt8 → Choice)
    (outs : List (List UInt8 × UInt32)) : List UInt8 :=
  headerBytes level ++
  outs.flatMap (fun o => blockBytes (encodeBlock o.1 o.2 (choose o.1))) ++
  trailerBytes (combinedCrc (outs.map (·.2)))

/-- The input bytes of the blocks, in order: the greedy packing `Spec.blocksOf
    cap` of the whole input (`--sequential`), or of every `granul`-byte chunk in
    turn (default mode). -/
def cutBlocks (cap granul : Nat) (seq : Bool) (input : List UInt8) : List (List UInt8) :=
  if seq then Spec.blocksOf cap input
  else (SchedC.cutChunks granul 0 input).flatMap (fun ib => Spec.blocksOf cap ib.data)

/-- The compressor with explicit block capacity and chunk size (lbzip2 uses
    `cap = granul = level·100000`; other values are for tests). -/
def compressFileGen (level cap granul : Nat) (seq : Bool) (input : List UInt8)
    (choose : List UInt8 → Choice) : List UInt8 :=
  assemble level choose ((cutBlocks cap granul seq input).map blockIn)

/-- **The compressor**: `lbzip2 -<level> [--sequential]` on `input`.
    `encoder_init(enc, bs100k * 100000u, …)`; `in_granul` from
    `set_memory_constraints` (generated). -/
def compressFile (level : Nat) (seq : Bool) (input : List UInt8)
    (choose : List UInt8 → Choice) : List UInt8 :=
  compressFileGen level (level * 100000) (Gen.memCompress 1 level).2.2.1 seq input choose

/-! ## A simple executable choice function

  NOT lbzip2's choices (those are `divbwt`, the EM clustering and
  `package_merge`): a reference compressor used as non-vacuity witness for the
  theorems and by the driver command `compressfile`.  The BWT sorts the
  rotations naively (insertion sort, quadratic — small inputs only); the tables
  are twice the "dummy second table" of `generate_prefix_code`
  (`Canon.dummyLens`, a complete code for every alphabet size 3…258,
  `Props.C02.dummyTable_complete`), every group coded with table 0. -/

/-- rotation `i` ≤ rotation `k` of `a` (length `n`), comparing from offset `j`
    for at most `fuel` positions -/
def rotLe (a : Array UInt8) (n i k : Nat) : (fuel j : Nat) → Bool
  | 0, _ => true
  | fuel + 1, j =>
    let x := a.getD ((i + j) % n) 0
    let y := a.getD ((k + j) % n) 0
    if x < y then true else if y < x then false else rotLe a n i k fuel (j + 1)

def insertRot (a : Array UInt8) (n i : Nat) : List Nat → List Nat
  | [] => [i]
  | k :: ks => if rotLe a n i k n 0 then i :: k :: ks else k :: insertRot a n i ks

/-- last column of the sorted rotations, and the row of rotation 0 -/
def naiveBwt (rb : List UInt8) : List UInt8 × Nat :=
  let a := rb.toArray
  let n := a.size
  let order := (List.range n).foldr (insertRot a n) []
  (order.map (fun i => a.getD ((i + n - 1) % n) 0), order.idxOf 0)

def simpleChoice (rb : List UInt8) : Choice :=
  let bw := naiveBwt rb
  let as := (usedOf rb).length + 2
  let nm := (mtfvOf rb bw.1).length
  { L := bw.1, idx := bw.2, numTrees := 2,
    lens := [Canon.dummyLens as, Canon.dummyLens as],
    selectors := List.replicate (Canon.numSelectors nm) 0 }

end LbzVerif.Model.Compress
