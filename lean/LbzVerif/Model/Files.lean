/-
  Model.Files — an abstract file system and `main`'s per-operand sequence of
  effectful steps for a FILE operand written to a regular file (OM_REGF, i.e.
  neither -c nor -t), with fault and signal injection (property C16).

  C code modelled (src/main.c, read line by line):
    main loop 925-987 : input_init; cli(); output_init; work();
                        output_regf_uninit; if (!keep) input_oprnd_rm;
                        sti(); input_uninit(); ... _exit(warned ? 4 : 0)
    input_init        : [!force] lstat → S_ISREG? nlink ≤ 1 (unless keep)?;
                        compressed suffix? ; open(O_RDONLY); fstat;
                        every failure = warning + skip (return -1); after a
                        failed fstat the descriptor is closed, a failing close
                        there is FATAL (failx)
    output_init       : [force] unlink(out) (failure ≠ ENOENT: infox only);
                        open(out, O_WRONLY|O_CREAT|O_EXCL, mode & 0600);
                        failure = warning + skip; success: opathn = out
    output_regf_uninit: fchown (failure: warning, and fchmod is SKIPPED);
                        fchmod (warning); futimens (warning);
                        close (failure FATAL: failx → bailout → cleanup()
                        unlinks opathn); opathn = 0
    input_oprnd_rm    : unlink(in); failure ≠ ENOENT: warning
    input_uninit      : close(in); failure FATAL (opathn is 0: nothing removed)
    cleanup           : if (opathn) { (void)unlink(opathn); opathn = 0; }
    DEF macro         : fatal variants print nothing for EPIPE/EFBIG
  src/signals.c: cli() blocks SIGINT/SIGTERM (and USR1/USR2) and installs the
    handler; sti() restores SIG_DFL then unblocks → a signal that became
    pending in between kills the process there; halt() = sigsuspend: SIGINT /
    SIGTERM → cleanup(); terminate(sig) (re-raise with SIG_DFL);
    SIGUSR1 (a sub-thread failed) → bailout(); SIGUSR2 → return.
  src/process.c: work() — reads and writes done by sub-threads while main sits
    in halt(); any read()/write() returning -1 is fatal (failfx, never
    returns); corrupt data is fatal too (failf).

  What is abstracted:
    * work() is a list `ops` of read / write(chunk) / corrupt events in the
      order they happen (the theorems quantify over ALL such lists, so over
      every interleaving of reader and writer and every block structure);
      "the complete output" is by definition the concatenation of all chunks.
      That the chunks are the right bytes is C01/C05's business.
    * `opathn = tmp` right after the successful open() and `opathn = 0` right
      after the successful close() are merged with those calls: SIGINT/SIGTERM
      are blocked there (they are only acted on in halt()/sti()), and SIGKILL
      performs no cleanup anyway, so no observable state lies in between.
    * The main thread reacts to a pending SIGINT/SIGTERM asynchronously: the
      sub-threads may do any number of further reads/writes first (oracle bit
      `defer`).  When several handled signals are pending as sigsuspend
      wakes, the one whose handler ran last wins (`caught_index`).  A
      SIGINT/SIGTERM that arrives together with the final SIGUSR2 may
      therefore be LOST (observed on the real binary for SIGTERM sent at the
      last write: exit status 0, operand done).  `defer` at the end of work()
      is that case; both outcomes are allowed.
    * Nobody else modifies the two paths during the run; the two path names
      are different strings and not aliases of one file.
    * stderr itself is healthy (a failing message write would turn every
      warning into a fatal error, main.c:96-101).
-/
import LbzVerif.Model.Fail

namespace LbzVerif.Model.Files

open LbzVerif.Model.Fail

inductive Kind
  | reg
  | dir
  | other
  deriving DecidableEq, Repr, Inhabited

structure File where
  kind : Kind
  bytes : List UInt8
  /-- `st_mode & 07777` -/
  mode : Nat
  nlink : Nat
  uid : Nat
  gid : Nat
  atime : Nat
  mtime : Nat
  deriving DecidableEq, Repr, Inhabited

abbrev Path := String

/-- The file system: which file (if any) each path names. -/
def FS := Path → Option File

def FS.set (fs : FS) (p : Path) (v : Option File) : FS :=
  fun q => if q = p then v else fs q

/-- An event of `work()`. -/
inductive WOp
  | read
  | write (chunk : List UInt8)
  /-- the decoder meets corrupt data / a bad magic: `failf` -/
  | corrupt
  deriving DecidableEq, Repr

/-- One operand and the options in force. -/
structure Scn where
  decompress : Bool
  force : Bool
  keep : Bool
  inP : Path
  outP : Path
  /-- compressing and the operand name has a compressed suffix -/
  sufSkip : Bool
  ops : List WOp
  euid : Nat
  egid : Nat
  now : Nat
  disp : Disp

def writes : List WOp → List UInt8
  | [] => []
  | .write ch :: l => ch ++ writes l
  | _ :: l => writes l

/-- The complete output of this operand. -/
def expected (sc : Scn) : List UInt8 := writes sc.ops

inductive Pc
  | lstat
  | openIn
  | fstat
  | closeInSkip
  | cli
  | unlinkOut
  | openOut
  | work (todo : List WOp)
  | fchown
  | fchmod
  | futimens
  | closeOut
  | unlinkIn
  | sti
  | closeIn
  | exit
  | ended (e : Ending)
  deriving DecidableEq, Repr

inductive Sig
  | int
  | term
  | kill
  deriving DecidableEq, Repr

/-- What the environment does at one step. -/
structure Inj where
  /-- the system call of this step returns -1 with this errno -/
  err : Option Errno := none
  /-- a signal arrives just before / just after the call -/
  sigBefore : Option Sig := none
  sigAfter : Option Sig := none
  /-- during work(): the main thread (in sigsuspend) has not yet reacted to a
      pending SIGINT/SIGTERM — signal delivery is asynchronous, the sub-threads
      go on; at the end of work(): the signal loses against SIGUSR2 (both
      handlers run, `caught_index` keeps the last) and is LOST -/
  defer : Bool := false
  /-- the `(void)unlink(opathn)` inside cleanup() fails -/
  cleanupErr : Bool := false
  deriving DecidableEq, Repr

structure Cfg where
  fs : FS
  pc : Pc
  /-- between cli() and sti() -/
  blocked : Bool
  pendInt : Bool
  pendTerm : Bool
  /-- `opathn != NULL` -/
  opathn : Bool
  warned : Bool
  stderr : Bool
  /-- `instat` (lstat, then fstat) -/
  instat : File
  /-- ghost: close(outfd) returned 0 -/
  closedOk : Bool
  /-- ghost: unlink(input) failed (input stays although -k was not given) -/
  rmFailed : Bool
  /-- ghost: cleanup()'s unlink failed -/
  cleanupFailed : Bool

def init (fs0 : FS) : Cfg :=
  { fs := fs0, pc := .lstat, blocked := false, pendInt := false,
    pendTerm := false, opathn := false, warned := false, stderr := false,
    instat := default, closedOk := false, rmFailed := false,
    cleanupFailed := false }

def Cfg.isEnded (c : Cfg) : Bool :=
  match c.pc with
  | .ended _ => true
  | _ => false

/-- A signal arrives. -/
def arrive (c : Cfg) : Sig → Cfg
  | .kill => { c with pc := .ended (.died SIGKILL) }
  | .int =>
    if c.blocked then { c with pendInt := true }
    else { c with pc := .ended (.died SIGINT) }
  | .term =>
    if c.blocked then { c with pendTerm := true }
    else { c with pc := .ended (.died SIGTERM) }

/-- main.c `cleanup()`. -/
def cleanup (sc : Scn) (c : Cfg) (inj : Inj) : Cfg :=
  if c.opathn then
    if inj.cleanupErr then { c with opathn := false, cleanupFailed := true }
    else { c with fs := c.fs.set sc.outP none, opathn := false }
  else c

/-- A warning (`warn*`): message, `warned = 1`. -/
def warn (c : Cfg) : Cfg := { c with warned := true, stderr := true }

/-- Fatal error on the main thread (`fail*` → `bailout()`), or the main
thread's reaction to SIGUSR1 from a failed sub-thread: message unless the
errno is silent, cleanup(), unblock SIGPIPE/SIGXFSZ, `_exit(1)`. -/
def fatal (sc : Scn) (c : Cfg) (inj : Inj) (msg : Bool) (pipe xfsz : Bool) : Cfg :=
  let c := cleanup sc c inj
  { c with stderr := c.stderr || msg, pc := .ended (mainBailoutEnd pipe xfsz) }

/-- halt(): SIGINT/SIGTERM caught → cleanup(); terminate(sig). -/
def haltSignal (sc : Scn) (c : Cfg) (inj : Inj) : Cfg :=
  let c := cleanup sc c inj
  { c with pc := .ended (.died (if c.pendInt then SIGINT else SIGTERM)) }

def updOut (sc : Scn) (c : Cfg) (g : File → File) : Cfg :=
  match c.fs sc.outP with
  | some f => { c with fs := c.fs.set sc.outP (some (g f)) }
  | none => c

/-- The file `open(O_CREAT|O_EXCL, instat.mode & 0600)` creates. -/
def newFile (sc : Scn) (c : Cfg) : File :=
  { kind := .reg, bytes := [], mode := c.instat.mode &&& 0o600, nlink := 1,
    uid := sc.euid, gid := sc.egid, atime := sc.now, mtime := sc.now }

/-- input_init returned -1: no cli/sti, next operand (here: the end). -/
def skip (c : Cfg) : Cfg := { warn c with pc := .exit }

/-- The call of the current step, without the signals around it. -/
def exec (sc : Scn) (c : Cfg) (inj : Inj) : Cfg :=
  match c.pc with
  | .lstat =>
    if sc.force then { c with pc := .openIn } else
    match c.fs sc.inP, inj.err with
    | none, _ => skip c                                   -- ENOENT
    | some _, some _ => skip c
    | some f, none =>
      if f.kind != .reg then skip { c with instat := f }
      else if !sc.keep && f.nlink > 1 then skip { c with instat := f }
      else { c with instat := f, pc := .openIn }
  | .openIn =>
    if !sc.decompress && sc.sufSkip then skip c else
    match c.fs sc.inP, inj.err with
    | none, _ => skip c
    | some _, some _ => skip c
    | some _, none => { c with pc := .fstat }
  | .fstat =>
    match inj.err with
    | some _ => { warn c with pc := .closeInSkip }
    | none =>
      match c.fs sc.inP with
      | some f => { c with instat := f, pc := .cli }
      | none => { c with pc := .cli }
  | .closeInSkip =>
    match inj.err with
    | some e => fatal sc c inj (!silent e) false false
    | none => { c with pc := .exit }
  | .cli => { c with blocked := true, pc := if sc.force then .unlinkOut else .openOut }
  | .unlinkOut =>
    match c.fs sc.outP, inj.err with
    | none, none => { c with pc := .openOut }             -- ENOENT: silent
    | _, some e =>
      { c with stderr := c.stderr || (e != ENOENT), pc := .openOut }  -- infox
    | some _, none => { c with fs := c.fs.set sc.outP none, pc := .openOut }
  | .openOut =>
    match c.fs sc.outP, inj.err with
    | some _, _ => { warn c with pc := .sti }             -- EEXIST
    | none, some _ => { warn c with pc := .sti }
    | none, none =>
      { c with fs := c.fs.set sc.outP (some (newFile sc c)), opathn := true,
               pc := .work sc.ops }
  | .work (op :: todo) =>
    if (c.pendInt || c.pendTerm) && !inj.defer then haltSignal sc c inj else
    match op, inj.err with
    | .corrupt, _ => fatal sc c inj true false false
    | .read, some e => fatal sc c inj (!silent e) false false
    | .write _, some e =>
      fatal sc c inj (!silent e)
        (genSignal sc.disp .write e == some SIGPIPE)
        (genSignal sc.disp .write e == some SIGXFSZ)
    | .read, none => { c with pc := .work todo }
    | .write ch, none =>
      { updOut sc c (fun f => { f with bytes := f.bytes ++ ch }) with
        pc := .work todo }
  | .work [] =>
    if c.pendInt || c.pendTerm then
      if inj.defer then { c with pendInt := false, pendTerm := false, pc := .fchown }
      else haltSignal sc c inj
    else { c with pc := .fchown }
  | .fchown =>
    match inj.err with
    | some _ => { warn c with pc := .futimens }           -- fchmod skipped
    | none =>
      let c := updOut sc c (fun f => { f with uid := c.instat.uid, gid := c.instat.gid })
      let c := if c.instat.mode &&& 0o7000 != 0 then warn c else c
      { c with pc := .fchmod }
  | .fchmod =>
    match inj.err with
    | some _ => { warn c with pc := .futimens }
    | none =>
      { updOut sc c (fun f => { f with mode := c.instat.mode &&& 0o777 }) with
        pc := .futimens }
  | .futimens =>
    match inj.err with
    | some _ => { warn c with pc := .closeOut }
    | none =>
      { updOut sc c (fun f => { f with atime := c.instat.atime, mtime := c.instat.mtime }) with
        pc := .closeOut }
  | .closeOut =>
    match inj.err with
    | some e => fatal sc c inj (!silent e) false false
    | none =>
      { c with closedOk := true, opathn := false,
               pc := if sc.keep then .sti else .unlinkIn }
  | .unlinkIn =>
    match c.fs sc.inP, inj.err with
    | none, _ => { c with pc := .sti }                    -- ENOENT: silent
    | some _, some e =>
      if e == ENOENT then { c with rmFailed := true, pc := .sti }
      else { warn c with rmFailed := true, pc := .sti }
    | some _, none => { c with fs := c.fs.set sc.inP none, pc := .sti }
  | .sti =>
    if c.pendInt then { c with blocked := false, pc := .ended (.died SIGINT) }
    else if c.pendTerm then { c with blocked := false, pc := .ended (.died SIGTERM) }
    else { c with blocked := false, pc := .closeIn }
  | .closeIn =>
    match inj.err with
    | some e => fatal sc c inj (!silent e) false false
    | none => { c with pc := .exit }
  | .exit => { c with pc := .ended (.exit (if c.warned then 4 else 0)) }
  | .ended _ => c

/-- The signal (if any) that arrives just before the call. -/
def before (c : Cfg) (inj : Inj) : Cfg :=
  match inj.sigBefore with
  | some sg => arrive c sg
  | none => c

/-- The signal (if any) that arrives just after the call; `c1` is the
configuration before the call, `c2` after it. -/
def after (c1 c2 : Cfg) (inj : Inj) : Cfg :=
  match inj.sigAfter with
  | some .kill =>
    -- SIGKILL lands right after the call: its file-system effect is there,
    -- the program's reaction (message, warned flag) is not
    if c2.isEnded then c2
    else { arrive c2 .kill with stderr := c1.stderr, warned := c1.warned }
  | some sg => if c2.isEnded then c2 else arrive c2 sg
  | none => c2

/-- One step: signal before, the call, signal after. -/
def step (sc : Scn) (c : Cfg) (inj : Inj) : Cfg :=
  if c.isEnded then c else
  if (before c inj).isEnded then before c inj
  else after (before c inj) (exec sc (before c inj) inj) inj

/-- Every configuration the process can be in (= every prefix of the step
sequence, for every behaviour of the environment). -/
inductive Reach (sc : Scn) (fs0 : FS) : Cfg → Prop
  | init : Reach sc fs0 (init fs0)
  | step {c : Cfg} (inj : Inj) : Reach sc fs0 c → Reach sc fs0 (step sc c inj)

/-- The output file holds everything work() writes, and close() succeeded. -/
def Complete (sc : Scn) (c : Cfg) : Prop :=
  ∃ f, c.fs sc.outP = some f ∧ f.kind = .reg ∧ f.bytes = expected sc ∧ c.closedOk = true

/-- Operand untouched: the input is as before, and at the output path there
is nothing of ours: it is as before, or — only with `-f` — a pre-existing file
there has been removed, as the user asked. -/
def Untouched (sc : Scn) (fs0 : FS) (c : Cfg) : Prop :=
  c.fs sc.inP = fs0 sc.inP ∧
  (c.fs sc.outP = fs0 sc.outP ∨ (sc.force = true ∧ c.fs sc.outP = none))

/-- Operand done: complete closed output; the input is gone, or it is as
before because of `-k` or because its unlink() failed (with a warning). -/
def Done (sc : Scn) (fs0 : FS) (c : Cfg) : Prop :=
  Complete sc c ∧
  (c.fs sc.inP = none ∨ (c.fs sc.inP = fs0 sc.inP ∧ (sc.keep = true ∨ c.rmFailed = true)))

/-- The system-call class of the step at `pc` (`none`: no call). -/
inductive Cls
  | lstat | open_ | fstat | close | unlink | read | write | fchown | fchmod | futimens
  deriving DecidableEq, Repr

def pcClass (sc : Scn) : Pc → Option Cls
  | .lstat => if sc.force then none else some .lstat
  | .openIn => if !sc.decompress && sc.sufSkip then none else some .open_
  | .fstat => some .fstat
  | .closeInSkip => some .close
  | .cli => none
  | .unlinkOut => some .unlink
  | .openOut => some .open_
  | .work (.read :: _) => some .read
  | .work (.write _ :: _) => some .write
  | .work _ => none
  | .fchown => some .fchown
  | .fchmod => some .fchmod
  | .futimens => some .futimens
  | .closeOut => some .close
  | .unlinkIn => some .unlink
  | .sti => none
  | .closeIn => some .close
  | .exit => none
  | .ended _ => none

end LbzVerif.Model.Files
