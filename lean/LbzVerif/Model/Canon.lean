/-
  Model.Canon — lbzip2's own canonical-code machinery.

  * encoder: the tail of `assign_codes` (encode.c): per-depth `base_code[]`
    computed with `next_code = (next_code + avail) << 1` and the final loop
    `code[symbol] = base_code[length[symbol]]++` in symbol order (uint32).
  * decoder: `make_tree` (decode.c): length counts, Kraft test against
    `1 << 20`, left-justified 64-bit `base[]` with its `UINT64_MAX` sentinels,
    cumulative `count[]`, the stable counting sort `perm[]` with the internal
    symbol renumbering (RUN_A = 257, RUN_B = 258, MTF value s-1, EOB = 0), the
    `start[]` table of `1 << HUFF_START_WIDTH` entries; and the lookup done in
    `retrieve()`.

  All arithmetic that is done in a fixed-width C type is reduced explicitly.
  Domain: `3 ≤ lens.length ≤ 258` and every length in `1..20` (what the callers
  guarantee); outside it the C code has undefined behaviour and the model's
  value means nothing.
-/
import LbzVerif.Gen.Consts
import LbzVerif.Gen.DecodeTab

namespace LbzVerif.Model.Canon
open LbzVerif

def M32 : Nat := 2 ^ 32
def M64 : Nat := 2 ^ 64

/-- Number of symbols of length `d` (`avail` in assign_codes, `C[k]` after the
counting loop of make_tree). -/
def cnt (lens : List Nat) (d : Nat) : Nat := lens.countP (fun l => l == d)

/-! ## Encoder side: tail of `assign_codes` -/

/-- `base_code[depth], base_code[depth+1], …` (`k` entries) given `next_code`. -/
def baseLoop (lens : List Nat) : Nat → Nat → Nat → List Nat
  | 0, _, _ => []
  | k + 1, depth, next =>
    next :: baseLoop lens k (depth + 1) (((next + cnt lens depth) * 2) % M32)

/-- Entry `j` is `base_code[j+1]`, for depths `1..height`. -/
def baseCodes (lens : List Nat) (height : Nat) : List Nat := baseLoop lens height 1 0

/-- `for (symbol…) code[symbol] = base_code[length[symbol]]++`. -/
def assignLoop : List Nat → List Nat → List Nat
  | [], _ => []
  | l :: ls, base =>
    let c := base.getD (l - 1) 0
    c :: assignLoop ls (base.set (l - 1) ((c + 1) % M32))

def height (lens : List Nat) : Nat := lens.foldl max 0

/-- The code words the encoder transmits for the given lengths. -/
def assignCodes (lens : List Nat) : List Nat :=
  assignLoop lens (baseCodes lens (height lens))

/-! ## Encoder side: the dummy second table and the padding tricks -/

/-- `generate_prefix_code`, single-table case: lengths of the dummy second
table for alphabet size `as` (`cl0` for the first `(2 << cl0) - as` symbols —
unsigned arithmetic — and `cl0 + 1` for the rest). -/
def dummyLens (as : Nat) : List Nat :=
  let c := Gen.cl0 as
  let nShort := ((2 <<< c) % M32 + M32 - as % M32) % M32
  (List.range as).map (fun v => if v < nShort then c else c + 1)

/-- `num_selectors = (nm + GROUP_SIZE - 1) / GROUP_SIZE`. -/
def numSelectors (nm : Nat) : Nat := (nm + Gen.GROUP_SIZE - 1) / Gen.GROUP_SIZE

/-- `encode()`: number of padding bits for a block of `cost` bits so far. -/
def padBits (cost : Nat) : Nat := (8 - (cost &&& 7)) &&& 7

/-- `tree_pad = j >> 1`. -/
def treePad (cost : Nat) : Nat := padBits cost >>> 1

/-- dummy selector count `j & 1`. -/
def dummySelectors (cost : Nat) : Nat := padBits cost &&& 1

/-- `transmit()`: start value sent for the first table. -/
def paddedStart (a pad : Nat) : Nat := if a < 4 then a + pad else a - pad

/-- `transmit()`: the values `a` takes while `while (a < c) a++` /
`while (a > c) a--` walks from the start value to `c` (fuel = distance). -/
def deltaWalk : Nat → Nat → Nat → List Nat
  | 0, a, _ => [a]
  | fuel + 1, a, c =>
    if a < c then a :: deltaWalk fuel (a + 1) c
    else if a > c then a :: deltaWalk fuel (a - 1) c
    else [a]

/-! ## Decoder side: `make_tree` -/

def MAXL : Nat := Gen.MAX_CODE_LENGTH
def SW : Nat := Gen.HUFF_START_WIDTH

inductive Verdict where
  | ok | incomplete | oversubscribed
  deriving DecidableEq, Repr

structure Tree where
  start : List Nat   -- 1 << HUFF_START_WIDTH entries
  base : List Nat    -- MAX_CODE_LENGTH + 2 entries; entry 0 is never written by the C code
  count : List Nat   -- MAX_CODE_LENGTH + 1 entries
  perm : List Nat    -- alpha_size entries
  deriving Repr

/-- `sofar += (uint64_t)C[k] << (MAX_CODE_LENGTH - k)` for `k = 1..20`. -/
def kraftSum (lens : List Nat) : Nat :=
  ((List.range MAXL).map (fun j => (cnt lens (j + 1) <<< (MAXL - (j + 1))) % M64)).foldl
    (fun s x => (s + x) % M64) 0

def verdict (lens : List Nat) : Verdict :=
  let s := kraftSum lens
  if s = 1 <<< MAXL then .ok else if s < 1 <<< MAXL then .incomplete else .oversubscribed

/-- Left-justified bases `B[k], B[k+1], …` (`n` entries) given `sofar`. -/
def ljLoop (lens : List Nat) : Nat → Nat → Nat → List Nat
  | 0, _, _ => []
  | n + 1, k, sofar =>
    sofar :: ljLoop lens n (k + 1) ((sofar + (cnt lens k <<< (64 - k)) % M64) % M64)

/-- `do B[k--] = -1; while (C[k] == 0);` entered with `k = 21`: here `k+1` is
the index just written, `k` the one tested next. -/
def sentinel (lens : List Nat) : Nat → List Nat → List Nat
  | 0, B => B   -- the C loop would run below index 0; unreachable once the Kraft test passed
  | k + 1, B => if cnt lens (k + 1) = 0 then sentinel lens k (B.set (k + 1) (M64 - 1)) else B

/-- `base[0..21]` (entry 0 is not written by make_tree; 0 here). -/
def mkBase (lens : List Nat) : List Nat :=
  let B := 0 :: (ljLoop lens MAXL 1 0 ++ [0])
  sentinel lens MAXL (B.set (MAXL + 1) (M64 - 1))

/-- Cumulative counts `count[0..20]`: `count[k]` = number of symbols shorter
than `k` bits (the state after the final restore loop). -/
def cumLoop (lens : List Nat) : Nat → Nat → Nat → List Nat
  | 0, _, _ => []
  | n + 1, k, cum => cum :: cumLoop lens n (k + 1) (cum + cnt lens k)

def mkCount (lens : List Nat) : List Nat := 0 :: cumLoop lens MAXL 1 0

/-- Internal symbol numbering of the decoder. -/
def renumber (n s : Nat) : Nat :=
  if s = 0 then 257 else if s = 1 then 258 else if s + 1 = n then 0 else s - 1

/-- Symbols of length `k`, in symbol order. -/
def symsOfLen (lens : List Nat) (k : Nat) : List Nat :=
  (List.range lens.length).filter (fun s => lens[s]! == k)

/-- Result of the counting sort `P[C[L[s]]++] = …` (stable by length). -/
def mkPerm (lens : List Nat) : List Nat :=
  (List.range MAXL).flatMap
    (fun j => (symsOfLen lens (j + 1)).map (renumber lens.length))

/-- `while (v >= base[k + 1]) k++` (at most `fuel` steps). -/
def walkUp (B : List Nat) (v : Nat) : Nat → Nat → Nat
  | 0, k => k
  | fuel + 1, k => if v ≥ B.getD (k + 1) 0 then walkUp B v fuel (k + 1) else k

/-- "Create first, complete start entries". -/
def startFull (lens : List Nat) : List Nat :=
  (List.range SW).flatMap (fun j =>
    (symsOfLen lens (j + 1)).flatMap (fun s =>
      List.replicate (1 <<< (SW - (j + 1)))
        (((renumber lens.length s <<< 5) ||| (j + 1)) % 2 ^ 16)))

/-- "Fill remaining, incomplete start entries": `k` is carried from one entry
to the next. -/
def startRest (B : List Nat) : Nat → Nat → Nat → List Nat
  | 0, _, _ => []
  | n + 1, code, k =>
    let k' := walkUp B ((code <<< (64 - SW)) % M64) (MAXL + 1) k
    k' :: startRest B n (code + 1) k'

def mkStart (lens : List Nat) (B : List Nat) : List Nat :=
  let full := startFull lens
  full ++ startRest B ((1 <<< SW) - full.length) full.length (SW + 1)

/-- The tables make_tree leaves behind when it accepts. -/
def mkTree (lens : List Nat) : Tree :=
  let B := mkBase lens
  { start := mkStart lens B, base := B, count := mkCount lens, perm := mkPerm lens }

def makeTree (lens : List Nat) : Verdict × Option Tree :=
  match verdict lens with
  | .ok => (.ok, some (mkTree lens))
  | v => (v, none)

/-- The table lookup of `retrieve()` on the 64-bit window `v`: internal symbol
and code length.  `none` stands for an out-of-bounds read in the C code (the
walk passing `base[21]`, or a `perm` index beyond the alphabet). -/
def lookup (t : Tree) (v : Nat) : Option (Nat × Nat) :=
  let x := t.start.getD (v >>> (64 - SW)) 0
  let k := x &&& 0x1F
  if k ≤ SW then some (x >>> 5, k)
  else
    let k' := walkUp t.base v (MAXL + 1) k
    if k' > MAXL then none
    else
      let idx := t.count.getD k' 0 + (((v + M64 - t.base.getD k' 0) % M64) >>> (64 - k'))
      if idx < t.perm.length then some (t.perm.getD idx 0, k') else none

end LbzVerif.Model.Canon
