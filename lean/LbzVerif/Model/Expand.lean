/-
  Model.Expand — lbzip2's decompression of a WHOLE FILE as the sequential
  composition of the pieces that exist as separate models (work package W22;
  properties C05, C06, C09).

      expandFile : List UInt8 → Except Err (List UInt8)

  What is composed, in the order the C code does it:

  * `work()` (process.c): `xread` of the 4-byte header, the `MAGIC(1..9)` test,
    `bs100k = ntohl(header) - MAGIC(0)`  —  `Model.Copy.sniff` (constants from
    Gen.Process); anything else is "not a valid bzip2 file" (no `-f`).
  * `on_input_avail` (expand.c): the rest of the file arrives in blocks whose
    size is a multiple of 4 except the last, which is zero-filled to a
    multiple of 4 (`missing = -size % 4`, kept in `eof_missing`); the input is
    then an array of big-endian 32-bit words (`toWords`).  With no input at
    all `eof_missing` keeps its initial 0.
  * `parse()` (parse.c) on the parser bitstream `parser_bs`: the bit buffer
    `buff`/`live` (`Cur.v`/`Cur.w`, same encoding as `Model.Retrieve`: `w` live
    bits left-justified in 64) and the unread words (`Cur.ws`);
    `bits_need(bs,16)` (`need16`: loads a word iff `live < 16`; no word left
    and `eof` → FINISH), `bits_peek(16)` = `buff >> 48`, `bits_dump(16)`, the
    switch = the TRANSLATED `Gen.parseStep` (its `align` flag = the arm executed
    `bits_align`: `bits_dump(live % 8)`), the tail after the loop =
    `Gen.parseAtEof`.  `parse()` resumes with the state it left, so the
    chunking into calls (MORE at the end of every input block) is invisible.
  * `do_parse`: OK → the header `(bs100k, crc)` is queued and a retrieve job
    starts at `parser_bs` (the position after the 32-bit CRC, buffer
    included); FINISH → `live += garbage; if (live >= 32) {live -= 32;
    offset--;}` and the test `offset == tail_offs && live < 8 * eof_missing`
    → ERR_EOF (`finishCheck`); any other code → `failf`.
  * `do_retrieve` / `decode()` / `do_emit` / `do_reorder` for that block:
    `Model.Retrieve.retrieve` on ALL remaining words as one segment with
    `eof = true` (`Props.C09.Retrieve.retrieve_split`: any admissible
    segmentation gives the same), `Model.Ibwt.nodes` (= `decode()` + the list
    `emit()` walks), `Model.Emit.run` with ONE output buffer of 2^32 − 2 bytes
    (`Props.C09.Emit.emit_split`: any buffer sizes give the same bytes),
    `Gen.reorderStatus` (declared size `blk_sz > bs100k·100000` → ERR_OVERFLOW;
    `crc != hdr.crc` → ERR_BLKCRC) with the header's `bs100k` and CRC; the
    bytes are appended to the output and the parser continues at the
    retriever's end position (`advance(rb->curr_pos)`: buffer and words).

  Sequential = the order in which `do_reorder` consumes `order_q`; that the
  real scheduler (any worker count, speculation, any interleaving) produces
  this result is `Props.C09.Sched.output_eq` (instantiated in
  Props/C09/File.lean).

  Deliberate inexactness (error CODE only, never ok/err): when `retrieve()`
  fails, `do_reorder` still applies the size test to `ds->block_size`, which
  holds the value of the last `SAVE()`; the retriever model keeps that value
  for ERR_EOF only (0 otherwise), so a block that already exceeds the level's
  capacity when another error is found is reported with that error instead of
  ERR_OVERFLOW.  Which of two errors is reported first is decided by the scheduler
  in the real program: when `retrieve()` fails the parser gets the token back
  and runs on from the retriever's last saved position before the block's
  status reaches `do_reorder`, so its verdict (ERR_HEADER / ERR_EOF /
  ERR_STRMCRC) usually overtakes the block's.  The model reports the first
  failure in file order and marks it (`Err.block`).

  Fuel: every iteration of `go` removes at least 16 bits from the unread bits
  (`w + 32·|ws|`), so `32·|ws| + 1` iterations always suffice
  (`Props.C06.File.expandFile_ne_fuel`, from `Lemmas.ExpandMain.complete_main`).
-/
import LbzVerif.Gen.Consts
import LbzVerif.Gen.Parse
import LbzVerif.Gen.SchedD
import LbzVerif.Gen.Process
import LbzVerif.Model.Copy
import LbzVerif.Model.Retrieve
import LbzVerif.Model.Ibwt
import LbzVerif.Model.Emit

namespace LbzVerif.Model.Expand
open LbzVerif

/-- How a decompression fails. -/
inductive Err
  /-- `failf(&ispec, "not a valid bzip2 file")` -/
  | notBzip2
  /-- `failf(&ispec, "compressed data error: %s", err2str(code))` in `do_parse`,
      `code` = value of `enum error` -/
  | data (code : Nat)
  /-- the same `failf` in `do_reorder` (a block's status) -/
  | block (code : Nat)
  /-- model-only statuses of the parts (`ub` 1000, `overread` 1001, `assertFail` 1002 of
      Model.Retrieve; 1003: `emit()` aborted or did not finish in the 2^32 − 2 byte buffer) -/
  | model (code : Nat)
  /-- the fuel of `go` ran out (impossible: `Props.C06.File.expandFile_ne_fuel`) -/
  | fuel
  deriving DecidableEq, Repr, Inhabited

def Err.name : Err → String
  | .notBzip2 => "not-bzip2"
  | .data c => toString c
  | .block c => toString c ++ " block"
  | .model c => "model-" ++ toString c
  | .fuel => "fuel"

/-! ### input -/

/-- `missing = -size % 4` for the last input block; all earlier blocks have a
size that is a multiple of 4 (`in_granul`), so this is a function of the total
length.  (No input at all: `eof_missing` keeps its initial value 0.) -/
def missingOf (n : Nat) : Nat := (4 - n % 4) % 4

/-- `ntohl` of four bytes in memory. -/
def word (a b c d : UInt8) : Nat :=
  a.toNat <<< 24 ||| b.toNat <<< 16 ||| c.toNat <<< 8 ||| d.toNat

/-- The input buffers seen as `uint32_t` arrays. -/
def toWords : List UInt8 → List Nat
  | a :: b :: c :: d :: rest => word a b c d :: toWords rest
  | _ => []

/-- The zero-filled input (`memset((char *)buffer + size, 0, missing)`). -/
def padded (rest : List UInt8) : List UInt8 := rest ++ List.replicate (missingOf rest.length) 0

/-! ### the parser bitstream -/

/-- A bitstream: `buff`, `live` and the words from `data` to the end of the input. -/
structure Cur where
  v : Nat
  w : Nat
  ws : List Nat
  deriving Repr, DecidableEq, Inhabited

/-- `bits_need(bs, 16)` with all input present and `eof` set: `none` = FINISH. -/
def need16 (c : Cur) : Option Cur :=
  if 16 ≤ c.w then some c
  else
    match c.ws with
    | [] => none
    | x :: ws => some ⟨Retrieve.refillV c.v c.w x, c.w + 32, ws⟩

/-- `bits_dump(bs, n)` -/
def dumpC (c : Cur) (n : Nat) : Cur := ⟨Retrieve.dumpV c.v n, c.w - n, c.ws⟩

/-- `bits_align(bs)` -/
def alignC (c : Cur) : Cur := dumpC c (c.w % 8)

/-- Number of unread bits. -/
def Cur.size (c : Cur) : Nat := c.w + 32 * c.ws.length

/-! ### one block -/

/-- Size of the single output buffer handed to `emit()`. -/
def bigBuf : Nat := 0xFFFFFFFE

/-- `enum error` value of an `emit()` status (`abort` / an unfinished block: model-only 1003). -/
def emitCode : Emit.Status → Nat
  | .ok => Gen.RV_OK
  | .more => 1003
  | .errRunlen => Gen.ERR_RUNLEN
  | .abort => 1003

/-- What `decode()` + `emit()` make of the block a successful `retrieve()` handed over. -/
def emitOf (r : Retrieve.Result) : Emit.Run :=
  Emit.run (Emit.St.init (Ibwt.nodes (r.st.rand == 1) r.st.bwtIdx r.st.run.out.reverse)) [bigBuf]

/-- An `enum error` value as the failure it causes in `do_parse`. -/
def failCode (s : Nat) : Err := if s < 1000 then .data s else .model s

/-- … in `do_reorder`. -/
def failBlock (s : Nat) : Err := if s < 1000 then .block s else .model s

/-- `do_retrieve` + `decode()` + `do_emit` + `do_reorder` for the block whose
header `(bs100k, crc)` the parser just returned, the retrieve job starting at
`c`.  Result: the block's bytes and where the retriever stopped. -/
def blockAt (bs100k crc : Nat) (c : Cur) : Except Err (List UInt8 × Cur) :=
  let r := Retrieve.retrieve (Retrieve.St.start c.v c.w) c.ws true
  match r.status with
  | .ok =>
    -- do_reorder applies the size test to EVERY out_blk of the block, also to those with
    -- status MORE; in the model (one buffer) that is the test below, made before the bytes
    -- are computed (a block over the declared size fails whatever emit() would say)
    let s0 := Gen.reorderStatus r.st.run.n bs100k Gen.RV_MORE 0 crc
    if s0 ≠ Gen.RV_MORE then .error (failBlock s0)
    else
      let e := emitOf r
      let s := Gen.reorderStatus r.st.run.n bs100k (emitCode e.final) e.crc.toNat crc
      if s = Gen.RV_OK then .ok (e.bytes, ⟨r.st.v, r.st.w, r.rest⟩) else .error (failBlock s)
  | .err code =>
    -- `eb->status = rv`; do_emit does not call emit(); do_reorder: size test, then failf
    .error (failBlock (Gen.reorderStatus r.st.run.n bs100k code 0 crc))
  | .more => .error (.model 1002)          -- not with `eof = true`
  | .ub => .error (.model 1000)
  | .overread => .error (.model 1001)
  | .assertFail => .error (.model 1002)

/-! ### FINISH -/

/-- `do_parse`, `rv == FINISH`: `parser_bs.live += garbage; if (parser_bs.live >= 32)
{ parser_bs.live -= 32; parser_bs.offset--; } if (parser_bs.offset == tail_offs &&
parser_bs.live < 8 * eof_missing) failf(ERR_EOF)`.  `offset == tail_offs` before the
adjustment iff no unread word is left; after `offset--` it cannot hold. -/
def finishCheck (missing garbage : Nat) (c : Cur) (acc : List UInt8) : Except Err (List UInt8) :=
  let live := c.w + garbage
  let atTail := if 32 ≤ live then false else c.ws.isEmpty
  let live := if 32 ≤ live then live - 32 else live
  if atTail ∧ live < 8 * missing then .error (.data Gen.ERR_EOF) else .ok acc

/-! ### the loop -/

/-- One iteration = one pass of `while (OK == bits_need(bs, 16))` in `parse()`
(followed, when `parse()` returns OK, by the whole block).  `p` is `par` (the
parser state survives from call to call), `c` is `parser_bs`, `acc` the bytes
written so far. -/
def go (missing : Nat) : Nat → Gen.ParseSt → Cur → List UInt8 → Except Err (List UInt8)
  | 0, _, _, _ => .error .fuel
  | f + 1, p, c, acc =>
    match need16 c with
    | none =>
      let r := Gen.parseAtEof p
      if r.2 = Gen.RV_FINISH then finishCheck missing r.1.garbage c acc
      else .error (failCode r.2)
    | some c1 =>
      let wd := c1.v >>> 48
      let c2 := dumpC c1 16
      let r := Gen.parseStep { p with align := false } wd
      let c3 := if r.1.align then alignC c2 else c2
      match r.2 with
      | none => go missing f r.1 c3 acc
      | some rv =>
        if rv = Gen.RV_OK then
          match blockAt r.1.hdBs100k r.1.hdCrc c3 with
          | .error e => .error e
          | .ok (out, c4) => go missing f r.1 c4 (acc ++ out)
        else if rv = Gen.RV_FINISH then finishCheck missing r.1.garbage c3 acc
        else .error (failCode rv)

/-- The decompressor on the bytes after the 4-byte header, level `bs100k`. -/
def expandRest (bs100k : Nat) (rest : List UInt8) : Except Err (List UInt8) :=
  let ws := toWords (padded rest)
  go (missingOf rest.length) (32 * ws.length + 1) (Gen.parserInit bs100k false) ⟨0, 0, ws⟩ []

/-- **lbzip2 -d** on a whole file (sequential composition). -/
def expandFile (x : List UInt8) : Except Err (List UInt8) :=
  match Copy.sniff x [] false false with
  | (.decompress bs100k, rest, _) => expandRest bs100k rest
  | _ => .error .notBzip2

end LbzVerif.Model.Expand
