/-
  Model.SchedD — the expansion (decompression) scheduler of lbzip2
  (src/expand.c + the generic machinery of src/process.c) as a labelled
  transition system.

  * Parametric in three UNINTERPRETED functions of the input (`Cfg.parseAt`,
    `Cfg.retrieveFrom`, `Cfg.cand`); nothing about the codec is assumed (the
    accessors `pres`/`rres` only clamp impossible answers: a header ends after
    it starts and inside the input, a block ends at or after its start).
  * One abstract position unit (think: 32-bit word).  `struct position`,
    `detached_bitstream.offset` and the `live` look-ahead are identified; an
    output buffer position is the pair (base, buffer index) (`minor++`).
  * Transitions are split at every `sched_lock`/`sched_unlock` exactly as in
    the C code (`attach()` unlocks, `detach()` locks).  A worker that finishes
    a section becomes available; "the same worker goes on with the next task
    without releasing the mutex" is the special case where the next model step
    is taken by a worker at once, so every C interleaving is a model run.
  * Guards / thresholds / priorities are the GENERATED ones (`Gen.SchedD`).
  * The code is modelled AS IT IS (tree with the `pos_le` repair of `can_emit`
    and with `discard()` as of /repo commit b64cc56: F2, F4 and F5 of DESIGN
    7.1 are repaired).  Ghost fields (never read by a guard): `gnext`,
    `Job.corrupt` …, `taint`.
  * Heap objects are values: a `struct unord_blk` is carried by the retrieve
    job that owns it (`Job.ub`, = `rb->unord_link`) while that job exists and
    sits in `orphans` afterwards (only a job that FINISHED retrieving leaves
    one: a complete entry waiting for the parser; `discard(rb)` frees the
    job's unord_blk with the job, taking it out of unord_q if it is still
    queued — in this encoding: it simply disappears with the job).  `unord_q` =
    all entries with `inq`.  The parser's writes through
    `unord_q` update the owning job in place.  Queues are multisets (lists up
    to order); a dequeue takes any element with a minimal key.
-/
import LbzVerif.Gen.SchedD
import LbzVerif.Gen.Process

namespace LbzVerif.Model.SchedD
open LbzVerif.Gen

/-! ## Input abstraction -/

/-- What `parse()` does when started (fresh automaton state) at a position. -/
inductive PRes where
  /-- block header found; the block's data (`base`) starts at `base`. -/
  | hdr (base : Nat)
  /-- end of the (last) stream recognised having read up to `upto`;
      `ok = false` is the `ERR_EOF` zero-padding test of the FINISH path. -/
  | finish (upto : Nat) (ok : Bool)
  /-- parse error detected having read up to `upto`. -/
  | err (upto : Nat)
  deriving DecidableEq, Repr, Hashable

/-- What `retrieve()`+`decode()`+`emit()`+the checks of `do_reorder` do for a
    block whose data starts at a position. -/
structure RRes where
  /-- `retrieve()` returned OK (otherwise an error code) -/
  ok : Bool
  /-- where `retrieve()` stops -/
  e : Nat
  /-- number of output buffers (`emit()` returns MORE `nb-1` times) -/
  nb : Nat
  /-- status of the last buffer after emit / size / CRC checks is OK -/
  fin : Bool
  deriving DecidableEq, Repr, Hashable

structure Cfg where
  n : Nat                     -- num_worker
  W : Nat                     -- in_granul / 4
  T : Nat                     -- total input length (units)
  totalIn : Nat
  totalOut : Nat
  ultra : Bool
  parseAt : Nat → PRes
  retrieveFrom : Nat → RRes
  cand : List Nat             -- positions (bases) the scanner reports

/-- `parseAt`, with impossible answers turned into errors. -/
def pres (c : Cfg) (p : Nat) : PRes :=
  match c.parseAt p with
  | .hdr b => if p < b ∧ b ≤ c.T then .hdr b else .err b
  | r => r

/-- `retrieveFrom`, clamped: `b ≤ e ≤ T` (for `b ≤ T`), `ok → b < e`, `nb ≥ 1`. -/
def rres (c : Cfg) (b : Nat) : RRes :=
  let r := c.retrieveFrom b
  if r.ok ∧ b < r.e ∧ r.e ≤ c.T then
    { ok := true, e := r.e, nb := max r.nb 1, fin := r.fin }
  else
    { ok := false, e := min (max r.e b) (max c.T b), nb := 1, fin := false }

/-! ## Sequential reference -/

def bufs (b i cnt : Nat) : List (Nat × Nat) := (List.range' i cnt).map (fun j => (b, j))

/-- Sink records still to come from block `b` when its first `i` buffers have
    been written, and whether the block ends well. -/
def blockOut (c : Cfg) (b i : Nat) : List (Nat × Nat) × Bool :=
  let r := rres c b
  if r.ok then
    if r.fin then (bufs b i (r.nb - i), true) else (bufs b i (r.nb - 1 - i), false)
  else ([], false)

/-- The sequential decoder from parser origin `p`: sink records and success. -/
def seqFrom (c : Cfg) : Nat → Nat → List (Nat × Nat) × Bool
  | 0, _ => ([], false)
  | f + 1, p =>
    match pres c p with
    | .err _ => ([], false)
    | .finish _ ok => ([], ok)
    | .hdr b =>
      let o := blockOut c b 0
      if o.2 then
        let r := seqFrom c f (rres c b).e
        (o.1 ++ r.1, r.2)
      else o

def seqRun (c : Cfg) : List (Nat × Nat) × Bool := seqFrom c (c.T + 1) 0

/-! ## State -/

structure UF where            -- mutable fields of a struct unord_blk
  endp : Nat
  complete : Bool
  legit : Bool
  inq : Bool                  -- still in unord_q
  deriving DecidableEq, Repr, Hashable

structure UB where            -- an unord_blk whose retrieve job no longer exists
  base : Nat
  f : UF
  corrupt : Bool              -- ghost
  deriving DecidableEq, Repr, Hashable

structure Job where           -- struct retr_blk
  curr : Nat
  base : Nat
  ub : Option UF              -- unord_link
  corrupt : Bool              -- ghost: was attached behind head_offs
  deriving DecidableEq, Repr, Hashable

structure EJob where          -- struct emit_blk
  base : Nat
  idx : Nat
  left : Nat                  -- buffers still to emit (≥ 1)
  ok : Bool                   -- status of the last buffer
  corrupt : Bool
  deriving DecidableEq, Repr, Hashable

inductive OSt where | more | ok | err
  deriving DecidableEq, Repr, Hashable

structure OB where            -- struct out_blk
  base : Nat
  idx : Nat
  st : OSt
  corrupt : Bool
  deriving DecidableEq, Repr, Hashable

def EJob.key (e : EJob) : Nat × Nat := (e.base, e.idx)
def OB.key (o : OB) : Nat × Nat := (o.base, o.idx)

/-- What a busy worker (other than the parser) is doing while the scheduler
    mutex is released. -/
inductive Phase where
  | retr (j : Job) (k : Option Nat)   -- retrieve() running, attached to block k
  | retr2 (e : EJob)                  -- decode() running, before `enqueue(emit_q)`
  | emit (e : EJob)                   -- emit() running, one out slot taken
  | scan (start k : Nat)              -- scan() running on block k from `start`
  deriving DecidableEq, Repr, Hashable

inductive RPhase where | idle | hold | ateof | done
  deriving DecidableEq, Repr, Hashable

structure State where
  rph : RPhase
  nread : Nat                 -- blocks read from the file
  rd : Nat                    -- blocks pushed to input_q so far (tail_offs = offs rd)
  head : Nat                  -- blocks shifted out of input_q (head_offs = offs head)
  eof : Bool
  rclose : Bool               -- request_close
  inSlots : Nat
  scanQ : List Nat
  retrQ : List Job
  emitQ : List EJob
  reordQ : List OB
  orderQ : List (Nat × Nat)
  orphans : List UB           -- unord_blk objects without a job
  ptok : Bool
  pdone : Bool
  ppos : Nat                  -- parser_bs
  porig : Nat                 -- where the header now being parsed started (`par`)
  gnext : Nat                 -- ghost: origin of the next header parse
  pphase : Option (Option Nat) -- parser running, attached to block
  wu : Nat
  outSlots : Nat
  outq : Nat                  -- buffers in output_q / being written
  busy : List Phase
  written : List (Nat × Nat)  -- sink_write_buffer calls so far
  failed : Bool               -- failf() was called
  taint : Bool                -- ghost: a stale-attached job acted as master / reached the sink
  deriving DecidableEq, Repr, Hashable

def init (c : Cfg) : State :=
  { rph := .idle, nread := 0, rd := 0, head := 0, eof := false, rclose := false,
    inSlots := c.totalIn, scanQ := [], retrQ := [], emitQ := [], reordQ := [],
    orderQ := [], orphans := [], ptok := true, pdone := false,
    ppos := 0, porig := 0, gnext := 0, pphase := none, wu := c.n,
    outSlots := c.totalOut, outq := 0, busy := [], written := [], failed := false,
    taint := false }

/-! ## Positions, queues, guards -/

def offs (c : Cfg) (k : Nat) : Nat := min (k * c.W) c.T
def tailOffs (c : Cfg) (s : State) : Nat := offs c s.rd
def headOffs (c : Cfg) (s : State) : Nat := offs c s.head

def posLt (a b : Nat × Nat) : Bool := a.1 < b.1 || (a.1 == b.1 && a.2 < b.2)
def posLe (a b : Nat × Nat) : Bool := !posLt b a

def minKey? : List (Nat × Nat) → Option (Nat × Nat)
  | [] => none
  | x :: xs =>
    match minKey? xs with
    | none => some x
    | some m => if posLt m x then some m else some x

def minNat? : List Nat → Option Nat
  | [] => none
  | x :: xs =>
    match minNat? xs with
    | none => some x
    | some m => if m < x then some m else some x

def view (c : Cfg) (s : State) : DView :=
  let tl := tailOffs c s
  let oh := s.orderQ.head?
  let eh := minKey? (s.emitQ.map EJob.key)
  let rh := minKey? (s.reordQ.map OB.key)
  { ultra := c.ultra, eof := s.eof, parseToken := s.ptok, parsingDone := s.pdone,
    workUnits := s.wu, outSlots := s.outSlots, numWorker := c.n,
    totalOutSlots := c.totalOut,
    retrEmpty := s.retrQ.isEmpty, emitEmpty := s.emitQ.isEmpty,
    reordEmpty := s.reordQ.isEmpty, orderEmpty := s.orderQ.isEmpty,
    scanEmpty := s.scanQ.isEmpty,
    parserCanAttach := canAttach s.ppos tl s.eof,
    retrHeadCanAttach :=
      (match minNat? (s.retrQ.map Job.curr) with
       | some m => canAttach m tl s.eof | none => false),
    scanHeadCanAttach :=
      (match minNat? s.scanQ with
       | some m => canAttach m tl s.eof | none => false),
    emitHeadEqOrderHead :=
      (match eh, oh with | some e, some o => e == o | _, _ => false),
    emitHeadLeOrderHead :=
      (match eh, oh with | some e, some o => posLe e o | _, _ => false),
    reordHeadLeOrderHead :=
      (match rh, oh with | some r, some o => posLe r o | _, _ => false),
    reordHeadLtOrderHead :=
      (match rh, oh with | some r, some o => posLt r o | _, _ => false) }

def guardOf (t : String) (v : DView) : Bool :=
  if t = "reorder" then dCanReorder v
  else if t = "parse" then dCanParse v
  else if t = "emit" then dCanEmit v
  else if t = "retrieve" then dCanRetrieve v
  else if t = "scan" then dCanScan v
  else false

/-- `select_task()` over the generated priority list and guards. -/
def selectTask (c : Cfg) (s : State) : Option String :=
  dTaskOrder.find? (fun t => guardOf t (view c s))

def busyCount (s : State) : Nat := s.busy.length + (if s.pphase.isSome then 1 else 0)
def freeWorker (c : Cfg) (s : State) : Bool := busyCount s < c.n

def Phase.block : Phase → Option Nat
  | .retr _ k => k
  | .scan _ k => some k
  | _ => none

def attachedTo (s : State) (k : Nat) : Bool :=
  s.pphase == some (some k) || s.busy.any (fun ph => ph.block == some k)

/-- `detach()`'s `--ref_count == 0` (the phase has already been removed). -/
def detach (s : State) (k : Option Nat) : State :=
  match k with
  | none => s
  | some k =>
    if k < s.head && !attachedTo s k then { s with inSlots := s.inSlots + 1 } else s

def newHead (c : Cfg) (s : State) (p : Nat) : Nat :=
  max s.head (min s.rd (if c.T ≤ p then s.rd else p / c.W))

def releaseCount (s : State) (h h' : Nat) : Nat :=
  ((List.range' h (h' - h)).filter (fun k => !attachedTo s k)).length

/-- `advance(bs)`. -/
def advance (c : Cfg) (s : State) (p : Nat) : State :=
  let h' := newHead c s p
  let ho := offs c h'
  { s with
    ppos := p, head := h',
    inSlots := s.inSlots + releaseCount s s.head h',
    wu := s.wu + (s.retrQ.filter (fun j => j.curr < ho)).length,
    retrQ := s.retrQ.filter (fun j => !(j.curr < ho)),
    scanQ := s.scanQ.filter (fun x => !(x < ho)) }

/-! ### the parser's writes through unord_q -/

def UF.flagBad (f : UF) : UF := { f with complete := true, legit := false, inq := false }
def UF.flagGood (f : UF) : UF := { f with complete := true, legit := true, inq := false }

/-- "mis-recognised bit pattern": an incomplete entry with `p base` is popped
    and flagged -/
def flagJob (p : Nat → Bool) (j : Job) : Job :=
  { j with ub := j.ub.map (fun f => if f.inq && p j.base then f.flagBad else f) }

def flagPhase (p : Nat → Bool) : Phase → Phase
  | .retr j k => .retr (flagJob p j) k
  | ph => ph

/-- orphans: complete entries are freed, incomplete ones flagged -/
def popOrphans (p : Nat → Bool) (os : List UB) : List UB :=
  (os.filter (fun u => !(u.f.inq && p u.base && u.f.complete))).map
    (fun u => if u.f.inq && p u.base then { u with f := u.f.flagBad } else u)

def replaceFirst {α} (p : α → Bool) (g : α → α) : List α → List α
  | [] => []
  | x :: xs => if p x then g x :: xs else x :: replaceFirst p g xs

def Job.inqAt (b : Nat) (j : Job) : Bool :=
  match j.ub with | some f => f.inq && j.base == b | none => false
def Phase.inqAt (b : Nat) : Phase → Bool
  | .retr j _ => j.inqAt b
  | _ => false
def Job.good (j : Job) : Job := { j with ub := j.ub.map UF.flagGood }
def Phase.good : Phase → Phase
  | .retr j k => .retr j.good k
  | ph => ph
def Job.endp (j : Job) : Nat := match j.ub with | some f => f.endp | none => j.curr
def Phase.endp : Phase → Nat
  | .retr j _ => j.endp
  | _ => 0

/-! ## Transitions -/

inductive Label where
  | rTake | rQuit | rBlock | rEmpty | rEof
  | wDone
  | reorder (ob : OB)
  | parseStart | parseEnd
  | retrStart (j : Job) | retrEnd (j : Job) (k : Option Nat) | retrPost (e : EJob)
  | emitStart (e : EJob) | emitEnd (e : EJob)
  | scanStart (sp : Nat) | scanEnd (start k : Nat)
  deriving DecidableEq, Repr, Hashable

/-- source thread: `in_slots--` under source_mutex -/
def stepRTake (s : State) : Option State :=
  if s.rph == .idle && !s.rclose && decide (0 < s.inSlots) then
    some { s with inSlots := s.inSlots - 1, rph := .hold }
  else none

def stepRQuit (s : State) : Option State :=
  if s.rph == .idle && s.rclose then some { s with rph := .ateof } else none

/-- `xread` delivered data: `on_input_avail` -/
def stepRBlock (c : Cfg) (s : State) : Option State :=
  if s.rph == .hold && decide (s.nread * c.W < c.T) then
    let rph' := if (s.nread + 1) * c.W ≤ c.T then RPhase.idle else RPhase.ateof
    if s.pdone then
      some { s with nread := s.nread + 1, inSlots := s.inSlots + 1, rph := rph' }
    else
      some { s with nread := s.nread + 1, rd := s.rd + 1,
                    scanQ := offs c s.rd :: s.scanQ, rph := rph' }
  else none

/-- `xread` found end of file at once -/
def stepREmpty (c : Cfg) (s : State) : Option State :=
  if s.rph == .hold && !decide (s.nread * c.W < c.T) then
    some { s with inSlots := s.inSlots + 1, rph := .ateof }
  else none

def stepREof (s : State) : Option State :=
  if s.rph == .ateof then some { s with eof := true, rph := .done } else none

/-- sink thread: write one buffer, `on_write_complete` -/
def stepWDone (s : State) : Option State :=
  if decide (0 < s.outq) then
    some { s with outq := s.outq - 1, outSlots := s.outSlots + 1 }
  else none

/-- `do_reorder` (one atomic section) -/
def stepReorder (c : Cfg) (s : State) (ob : OB) : Option State :=
  if freeWorker c s && selectTask c s == some "reorder" && s.reordQ.contains ob
      && minKey? (s.reordQ.map OB.key) == some ob.key then
    if dReorderBogus (view c s) then
      some { s with reordQ := s.reordQ.erase ob, outSlots := s.outSlots + 1 }
    else
      match ob.st with
      | .err => some { s with reordQ := s.reordQ.erase ob, failed := true }
      | .more =>
        some { s with reordQ := s.reordQ.erase ob,
                      orderQ := (match s.orderQ with
                                 | [] => [] | (b, i) :: r => (b, i + 1) :: r),
                      written := s.written ++ [ob.key], outq := s.outq + 1,
                      taint := s.taint || ob.corrupt }
      | .ok =>
        some { s with reordQ := s.reordQ.erase ob, orderQ := s.orderQ.tail,
                      written := s.written ++ [ob.key], outq := s.outq + 1,
                      taint := s.taint || ob.corrupt }
  else none

/-- `do_parse` up to the `sched_unlock` inside `attach` -/
def stepParseStart (c : Cfg) (s : State) : Option State :=
  if freeWorker c s && selectTask c s == some "parse" && s.pphase.isNone then
    let k := if s.ppos < tailOffs c s then some (s.ppos / c.W) else none
    some { s with ptok := false, wu := s.wu - 1, pphase := some k }
  else none

/-- `do_parse`, rv == OK, first half: `advance`, `push(order_q)`, pop the
    entries of unord_q that lie before the new header -/
def parsePush (c : Cfg) (s1 : State) (b : Nat) : State :=
  let lt : Nat → Bool := fun x => decide (x < b)
  let s2 := advance c s1 b
  { s2 with orderQ := s2.orderQ ++ [(b, 0)], gnext := (rres c b).e,
            retrQ := s2.retrQ.map (flagJob lt),
            busy := s2.busy.map (flagPhase lt),
            orphans := popOrphans lt s2.orphans }

/-- `do_parse`, rv == OK, second half: take over a scanner-found block at
    exactly this position, or create the master retrieve job -/
def parseMatch (c : Cfg) (s3 : State) (b : Nat) : State :=
  match s3.retrQ.find? (Job.inqAt b) with
  | some j =>
    let a := advance c { s3 with retrQ := replaceFirst (Job.inqAt b) Job.good s3.retrQ } j.endp
    { a with wu := a.wu + 1 }
  | none =>
    match s3.busy.find? (Phase.inqAt b) with
    | some ph =>
      let a := advance c { s3 with busy := replaceFirst (Phase.inqAt b) Phase.good s3.busy } ph.endp
      { a with wu := a.wu + 1 }
    | none =>
      match s3.orphans.find? (fun u => u.f.inq && u.base == b) with
      | some u =>
        let a := advance c s3 u.f.endp
        if u.f.complete then
          { a with orphans := a.orphans.erase u, ptok := true, porig := u.f.endp,
                   wu := a.wu + 1, taint := a.taint || u.corrupt }
        else
          { a with orphans := replaceFirst (fun x => x == u) (fun x => { x with f := x.f.flagGood }) a.orphans,
                   wu := a.wu + 1 }
      | none =>
        { s3 with retrQ := { curr := b, base := b, ub := none, corrupt := false } :: s3.retrQ }

def parseOk (c : Cfg) (s1 : State) (b : Nat) : State := parseMatch c (parsePush c s1 b) b

/-- `do_parse`, rv == FINISH (and no ERR_EOF) -/
def parseFinish (s1 : State) (u : Nat) : State :=
  let all : Nat → Bool := fun _ => true
  { s1 with
    rclose := true, ptok := true, pdone := true, ppos := u,
    head := s1.rd,
    inSlots := s1.inSlots + releaseCount s1 s1.head s1.rd,
    wu := s1.wu + s1.retrQ.length + 1,
    retrQ := [], scanQ := [],
    busy := s1.busy.map (flagPhase all),
    orphans := popOrphans all s1.orphans }

/-- how far `parse()` has to read before it can return its verdict -/
def parseTarget : PRes → Nat
  | .hdr b => b
  | .finish u _ => u
  | .err u => u

/-- `parse()` returns MORE: the attached input block ends first -/
def parseMoreP (c : Cfg) (k : Option Nat) (target : Nat) : Bool :=
  match k with
  | some kk => decide (offs c (kk + 1) < target)
  | none => false

def parseMore (c : Cfg) (s1 : State) (k : Option Nat) : State :=
  let a := advance c s1 (offs c (k.getD 0 + 1))
  { a with ptok := true, wu := a.wu + 1 }

def parseVerdict (c : Cfg) (s1 : State) : PRes → State
  | .err _ => { s1 with failed := true }
  | .finish u ok =>
    if !ok then { s1 with rclose := true, ptok := true, pdone := true, failed := true }
    else parseFinish s1 u
  | .hdr b => parseOk c s1 b

/-- `do_parse` from the `sched_lock` inside `detach` to its end -/
def stepParseEnd (c : Cfg) (s : State) : Option State :=
  match s.pphase with
  | none => none
  | some k =>
    let s1 := detach { s with pphase := none } k
    if parseMoreP c k (parseTarget (pres c s.porig)) then some (parseMore c s1 k)
    else some (parseVerdict c s1 (pres c s.porig))

/-- `do_retrieve` up to the `sched_unlock` inside `attach` -/
def stepRetrStart (c : Cfg) (s : State) (j : Job) : Option State :=
  if freeWorker c s && selectTask c s == some "retrieve" && s.retrQ.contains j
      && minNat? (s.retrQ.map Job.curr) == some j.curr then
    let stale := decide (j.curr < headOffs c s)
    let k : Option Nat :=
      if tailOffs c s ≤ j.curr then none
      else if stale then (if s.head < s.rd then some s.head else none)
      else some (j.curr / c.W)
    some { s with retrQ := s.retrQ.erase j,
                  busy := .retr { j with corrupt := j.corrupt || stale } k :: s.busy }
  else none

/-- the job is (now) the master: created by the parser, or confirmed by it -/
def Job.master (j : Job) : Bool := match j.ub with | none => true | some f => f.complete

/-- `discard(rb)` on the early returns of `do_retrieve` (parsing_done / "found
    himself redundant" / "was overtaken"): the job and its unord_blk are gone,
    the work unit is back -/
def retrExit (s1 : State) (_j : Job) : State :=
  { s1 with wu := s1.wu + 1 }

/-- the master moves the parser position -/
def retrMove (c : Cfg) (s1 : State) (j : Job) (newc : Nat) : State :=
  if j.master then
    let a := advance c s1 newc
    { a with taint := a.taint || j.corrupt }
  else s1

def retrMoreJob (j : Job) (newc : Nat) : Job :=
  { j with curr := newc,
           ub := if j.master then j.ub else j.ub.map (fun f => { f with endp := newc }) }

/-- rv == MORE: back into retr_q (speculative: `end_pos` follows) -/
def retrMore (s2 : State) (j : Job) (newc : Nat) : State :=
  { s2 with retrQ := retrMoreJob j newc :: s2.retrQ }

/-- "We are not yet finished retrieving, but were proven not to be legitimate" -/
def Job.redundant (j : Job) : Bool :=
  match j.ub with | some f => f.complete && !f.legit | none => false

/-- where `retrieve()` stops in this step: the end of the block or of the
    attached input block -/
def retrNewc (c : Cfg) (j : Job) (k : Option Nat) : Nat :=
  match k with
  | some kk => max j.curr (min (rres c j.base).e (offs c (kk + 1)))
  | none => j.curr

/-- retrieve finished (OK or error): hand the token back or mark complete -/
def retrDone (c : Cfg) (s2 : State) (j : Job) (newc : Nat) : State :=
  let r := rres c j.base
  let ej : EJob :=
    { base := j.base, idx := 0, left := (if r.ok then r.nb else 1),
      ok := r.ok && r.fin, corrupt := j.corrupt }
  if j.master then
    { s2 with ptok := true, porig := newc, busy := .retr2 ej :: s2.busy }
  else
    { s2 with busy := .retr2 ej :: s2.busy,
              orphans :=
                (match j.ub with
                 | some f => [{ base := j.base, f := { f with complete := true, endp := newc },
                                corrupt := j.corrupt }]
                 | none => []) ++ s2.orphans }

/-- `do_retrieve` from the `sched_lock` in `detach` to the `sched_unlock`
    before `decode()` (or to its early returns) -/
def stepRetrEnd (c : Cfg) (s : State) (j : Job) (k : Option Nat) : Option State :=
  if s.busy.contains (.retr j k) then
    let newc := retrNewc c j k
    let s1 := detach { s with busy := s.busy.erase (.retr j k) } k
    if s1.pdone then some (retrExit s1 j)
    else if j.redundant then some (retrExit s1 j)
    else if !decide ((rres c j.base).e ≤ newc) then
      -- rv == MORE
      if newc < headOffs c (retrMove c s1 j newc) then
        some (retrExit (retrMove c s1 j newc) (retrMoreJob j newc))   -- "Retriever was overtaken"
      else some (retrMore (retrMove c s1 j newc) j newc)
    else some (retrDone c (retrMove c s1 j newc) j newc)
  else none

/-- `do_retrieve`: `sched_lock(); enqueue(emit_q, eb)` -/
def stepRetrPost (s : State) (e : EJob) : Option State :=
  if s.busy.contains (.retr2 e) then
    some { s with busy := s.busy.erase (.retr2 e), emitQ := e :: s.emitQ }
  else none

/-- `do_emit` up to its `sched_unlock` -/
def stepEmitStart (c : Cfg) (s : State) (e : EJob) : Option State :=
  if freeWorker c s && selectTask c s == some "emit" && s.emitQ.contains e
      && minKey? (s.emitQ.map EJob.key) == some e.key then
    some { s with outSlots := s.outSlots - 1, emitQ := s.emitQ.erase e,
                  busy := .emit e :: s.busy }
  else none

/-- `do_emit` from its `sched_lock` to the end -/
def stepEmitEnd (s : State) (e : EJob) : Option State :=
  if s.busy.contains (.emit e) then
    let s1 := { s with busy := s.busy.erase (.emit e) }
    if 1 < e.left then
      some { s1 with emitQ := { e with idx := e.idx + 1, left := e.left - 1 } :: s1.emitQ,
                     reordQ := { base := e.base, idx := e.idx, st := .more, corrupt := e.corrupt } :: s1.reordQ }
    else
      some { s1 with wu := s1.wu + 1,
                     reordQ := { base := e.base, idx := e.idx,
                                 st := (if e.ok then .ok else .err), corrupt := e.corrupt } :: s1.reordQ }
  else none

/-- `do_scan` up to the `sched_unlock` inside `attach` -/
def stepScanStart (c : Cfg) (s : State) (sp : Nat) : Option State :=
  if freeWorker c s && selectTask c s == some "scan" && s.scanQ.contains sp
      && minNat? s.scanQ == some sp then
    let start := if sp / c.W == s.ppos / c.W && sp < s.ppos then s.ppos else sp
    some { s with wu := s.wu - 1, scanQ := s.scanQ.erase sp,
                  busy := .scan start (sp / c.W) :: s.busy }
  else none

/-- first candidate in (start, hi] -/
def scanFind (c : Cfg) (start hi : Nat) : Option Nat :=
  minNat? (c.cand.filter (fun x => decide (start < x) && decide (x ≤ hi)))

/-- "Scanner found a known pattern" / "a unique match" -/
def scanNew (c : Cfg) (s1 : State) (x : Nat) : State :=
  if x ≤ s1.ppos ∨ x < headOffs c s1 then { s1 with wu := s1.wu + 1 }
  else
    { s1 with
      retrQ := { curr := x, base := x,
                 ub := some { endp := x, complete := false, legit := false, inq := true },
                 corrupt := false } :: s1.retrQ }

/-- the scan job goes back to scan_q unless its input block is used up or released -/
def scanRequeue (c : Cfg) (s2 : State) (x hi : Nat) : State :=
  if x != hi && decide (headOffs c s2 ≤ x) then { s2 with scanQ := x :: s2.scanQ } else s2

/-- `do_scan` from the `sched_lock` in `detach` to its end -/
def stepScanEnd (c : Cfg) (s : State) (start k : Nat) : Option State :=
  if s.busy.contains (.scan start k) then
    let s1 := detach { s with busy := s.busy.erase (.scan start k) } (some k)
    let hi := offs c (k + 1)
    match scanFind c start hi with
    | none => some { s1 with wu := s1.wu + 1 }
    | some x =>
      if s1.pdone then some { s1 with wu := s1.wu + 1 }
      else some (scanRequeue c (scanNew c s1 x) x hi)
  else none

def step (c : Cfg) (s : State) (l : Label) : Option State :=
  if s.failed then none
  else
    match l with
    | .rTake => stepRTake s
    | .rQuit => stepRQuit s
    | .rBlock => stepRBlock c s
    | .rEmpty => stepREmpty c s
    | .rEof => stepREof s
    | .wDone => stepWDone s
    | .reorder ob => stepReorder c s ob
    | .parseStart => stepParseStart c s
    | .parseEnd => stepParseEnd c s
    | .retrStart j => stepRetrStart c s j
    | .retrEnd j k => stepRetrEnd c s j k
    | .retrPost e => stepRetrPost s e
    | .emitStart e => stepEmitStart c s e
    | .emitEnd e => stepEmitEnd s e
    | .scanStart sp => stepScanStart c s sp
    | .scanEnd st k => stepScanEnd c s st k

/-- Every label that could possibly be enabled in `s` (superset; `step` decides). -/
def candLabels (s : State) : List Label :=
  [.rTake, .rQuit, .rBlock, .rEmpty, .rEof, .wDone, .parseStart, .parseEnd]
  ++ s.reordQ.map .reorder
  ++ s.retrQ.map .retrStart
  ++ s.emitQ.map .emitStart
  ++ s.scanQ.map .scanStart
  ++ s.busy.map (fun ph => match ph with
      | .retr j k => .retrEnd j k
      | .retr2 e => .retrPost e
      | .emit e => .emitEnd e
      | .scan st k => .scanEnd st k)

def enabled (c : Cfg) (s : State) : List Label :=
  (candLabels s).filter (fun l => (step c s l).isSome)

inductive Reach (c : Cfg) : State → Prop where
  | init : Reach c (init c)
  | step {s s' : State} (l : Label) : Reach c s → step c s l = some s' → Reach c s'

/-- run a list of labels -/
def run (c : Cfg) : State → List Label → Option State
  | s, [] => some s
  | s, l :: ls => match step c s l with | some s' => run c s' ls | none => none

theorem reach_run {c : Cfg} {s s' : State} (ls : List Label) (h : Reach c s)
    (hr : run c s ls = some s') : Reach c s' := by
  induction ls generalizing s with
  | nil => simp [run] at hr; exact hr ▸ h
  | cons l ls ih =>
    simp only [run] at hr
    split at hr
    · next s1 h1 => exact ih (Reach.step l h h1) hr
    · exact absurd hr (by simp)

/-- all workers have left the loop: `can_terminate` and nothing selected -/
def terminated (c : Cfg) (s : State) : Bool :=
  !s.failed && dCanTerminate (view c s) && (selectTask c s).isNone

/-- process over: clean termination or `failf` -/
def final (c : Cfg) (s : State) : Bool := s.failed || terminated c s

/-! ## Monitored predicates (used by theorems, witnesses and the BFS driver) -/

def Job.inq (j : Job) : Bool := match j.ub with | some f => f.inq | none => false
def Phase.inq : Phase → Bool
  | .retr j _ => j.inq
  | _ => false

/-- size(unord_q) -/
def unordSize (s : State) : Nat :=
  s.orphans.countP (·.f.inq) + s.retrQ.countP Job.inq + s.busy.countP Phase.inq
def unordCapOf (c : Cfg) : Nat := unordCap c.n c.totalOut


/-- F5: a retrieve job is queued behind `head_offs` -/
def staleAttach (c : Cfg) (s : State) : Bool := s.retrQ.any (fun j => j.curr < headOffs c s)

/-- F2: unord_blk objects nobody will ever free -/
def leakedCount (s : State) : Nat := s.orphans.countP (fun u => !u.f.inq)

def emitBusy (s : State) : Nat :=
  s.busy.countP (fun ph => match ph with | .emit _ => true | _ => false)

def unitsHeld (s : State) : Nat := s.retrQ.length + s.emitQ.length + busyCount s
def slotsHeld (s : State) : Nat := s.reordQ.length + s.outq + emitBusy s

def inputAlive (s : State) : Nat :=
  (s.rd - s.head) + ((List.range s.head).filter (fun k => attachedTo s k)).length
  + (if s.rph == .hold then 1 else 0)

def stuck (c : Cfg) (s : State) : Bool := !final c s && (enabled c s).isEmpty

end LbzVerif.Model.SchedD
