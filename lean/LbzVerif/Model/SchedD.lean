/-
  Model.SchedD — the expansion (decompression) scheduler of lbzip2
  (src/expand.c + the generic machinery of src/process.c) as a labelled
  transition system.

  * Parametric in three UNINTERPRETED functions of the input (`Cfg.parseAt`,
    `Cfg.retrieveFrom`, `Cfg.cand`); nothing about the codec is assumed (the
    accessors `pres`/`rres` only clamp impossible answers: a header ends after
    it starts and inside the input, a block ends at or after its start).
  * One abstract position unit (think: 32-bit word).  `struct position`,
    `detached_bitstream.offset` and the `live` look-ahead are identified; an
    output buffer position is the pair (base, buffer index) (`minor++`).
  * Transitions are split at every `sched_lock`/`sched_unlock` exactly as in
    the C code (`attach()` unlocks, `detach()` locks).  A worker that finishes
    a section becomes available; "the same worker goes on with the next task
    without releasing the mutex" is the special case where the next model step
    is taken by a worker at once, so every C interleaving is a model run.
  * Guards / thresholds / priorities are the GENERATED ones (`Gen.SchedD`).
  * The code is modelled AS IT IS, including the lifecycle gaps of overtaken
    speculative jobs (DESIGN 7.1 F2, F4, F5).  Ghost fields (never read by a
    guard): `gnext`, `Job.corrupt` …, `taint`.
-/
import LbzVerif.Gen.SchedD
import LbzVerif.Gen.Process

namespace LbzVerif.Model.SchedD
open LbzVerif.Gen

/-! ## Input abstraction -/

/-- What `parse()` does when started (fresh automaton state) at a position. -/
inductive PRes where
  /-- block header found; the block's data (`base`) starts at `base`. -/
  | hdr (base : Nat)
  /-- end of the (last) stream recognised having read up to `upto`;
      `ok = false` is the `ERR_EOF` zero-padding test of the FINISH path. -/
  | finish (upto : Nat) (ok : Bool)
  /-- parse error detected having read up to `upto`. -/
  | err (upto : Nat)
  deriving DecidableEq, Repr, Hashable

/-- What `retrieve()`+`decode()`+`emit()`+the checks of `do_reorder` do for a
    block whose data starts at a position. -/
structure RRes where
  /-- `retrieve()` returned OK (otherwise an error code) -/
  ok : Bool
  /-- where `retrieve()` stops -/
  e : Nat
  /-- number of output buffers (`emit()` returns MORE `nb-1` times) -/
  nb : Nat
  /-- status of the last buffer after emit / size / CRC checks is OK -/
  fin : Bool
  deriving DecidableEq, Repr, Hashable

structure Cfg where
  n : Nat                     -- num_worker
  W : Nat                     -- in_granul / 4
  T : Nat                     -- total input length (units)
  totalIn : Nat
  totalOut : Nat
  ultra : Bool
  parseAt : Nat → PRes
  retrieveFrom : Nat → RRes
  cand : List Nat             -- positions (bases) the scanner reports

/-- `parseAt`, with impossible answers turned into errors. -/
def pres (c : Cfg) (p : Nat) : PRes :=
  match c.parseAt p with
  | .hdr b => if p < b ∧ b ≤ c.T then .hdr b else .err b
  | r => r

/-- `retrieveFrom`, clamped: `b ≤ e ≤ T` (for `b ≤ T`), `ok → b < e`, `nb ≥ 1`. -/
def rres (c : Cfg) (b : Nat) : RRes :=
  let r := c.retrieveFrom b
  if r.ok ∧ b < r.e ∧ r.e ≤ c.T then
    { ok := true, e := r.e, nb := max r.nb 1, fin := r.fin }
  else
    { ok := false, e := min (max r.e b) (max c.T b), nb := 1, fin := false }

/-! ## Sequential reference -/

def bufs (b i cnt : Nat) : List (Nat × Nat) := (List.range' i cnt).map (fun j => (b, j))

/-- Sink records still to come from block `b` when its first `i` buffers have
    been written, and whether the block ends well. -/
def blockOut (c : Cfg) (b i : Nat) : List (Nat × Nat) × Bool :=
  let r := rres c b
  if r.ok then
    if r.fin then (bufs b i (r.nb - i), true) else (bufs b i (r.nb - 1 - i), false)
  else ([], false)

/-- The sequential decoder from parser origin `p`: sink records and success. -/
def seqFrom (c : Cfg) : Nat → Nat → List (Nat × Nat) × Bool
  | 0, _ => ([], false)
  | f + 1, p =>
    match pres c p with
    | .err _ => ([], false)
    | .finish _ ok => ([], ok)
    | .hdr b =>
      let o := blockOut c b 0
      if o.2 then
        let r := seqFrom c f (rres c b).e
        (o.1 ++ r.1, r.2)
      else o

def seqRun (c : Cfg) : List (Nat × Nat) × Bool := seqFrom c (c.T + 1) 0

/-! ## State -/

structure UB where            -- struct unord_blk (a heap object)
  id : Nat
  base : Nat
  endp : Nat
  complete : Bool
  legit : Bool
  inq : Bool                  -- still in unord_q
  corrupt : Bool              -- ghost
  deriving DecidableEq, Repr, Hashable

structure Job where           -- struct retr_blk
  curr : Nat
  base : Nat
  link : Option Nat           -- unord_link (id)
  corrupt : Bool              -- ghost: was attached behind head_offs
  deriving DecidableEq, Repr, Hashable

structure EJob where          -- struct emit_blk
  base : Nat
  idx : Nat
  left : Nat                  -- buffers still to emit (≥ 1)
  ok : Bool                   -- status of the last buffer
  corrupt : Bool
  deriving DecidableEq, Repr, Hashable

inductive OSt where | more | ok | err
  deriving DecidableEq, Repr, Hashable

structure OB where            -- struct out_blk
  base : Nat
  idx : Nat
  st : OSt
  corrupt : Bool
  deriving DecidableEq, Repr, Hashable

def EJob.key (e : EJob) : Nat × Nat := (e.base, e.idx)
def OB.key (o : OB) : Nat × Nat := (o.base, o.idx)

/-- What a busy worker (other than the parser) is doing while the scheduler
    mutex is released. -/
inductive Phase where
  | retr (j : Job) (k : Option Nat)   -- retrieve() running, attached to block k
  | retr2 (e : EJob)                  -- decode() running, before `enqueue(emit_q)`
  | emit (e : EJob)                   -- emit() running, one out slot taken
  | scan (start k : Nat)              -- scan() running on block k from `start`
  deriving DecidableEq, Repr, Hashable

inductive RPhase where | idle | hold | ateof | done
  deriving DecidableEq, Repr, Hashable

structure State where
  rph : RPhase
  nread : Nat                 -- blocks read from the file
  rd : Nat                    -- blocks pushed to input_q so far (tail_offs = offs rd)
  head : Nat                  -- blocks shifted out of input_q (head_offs = offs head)
  eof : Bool
  rclose : Bool               -- request_close
  inSlots : Nat
  scanQ : List Nat
  retrQ : List Job
  emitQ : List EJob
  reordQ : List OB
  orderQ : List (Nat × Nat)
  ublks : List UB             -- every live unord_blk (in unord_q iff `inq`)
  nextId : Nat
  ptok : Bool
  pdone : Bool
  ppos : Nat                  -- parser_bs
  porig : Nat                 -- where the header now being parsed started (`par`)
  gnext : Nat                 -- ghost: origin of the next header parse
  pphase : Option (Option Nat) -- parser running, attached to block
  wu : Nat
  outSlots : Nat
  outq : Nat                  -- buffers in output_q / being written
  busy : List Phase
  written : List (Nat × Nat)  -- sink_write_buffer calls so far
  failed : Bool               -- failf() was called
  taint : Bool                -- ghost: a stale-attached job acted as master / reached the sink
  deriving DecidableEq, Repr, Hashable

def init (c : Cfg) : State :=
  { rph := .idle, nread := 0, rd := 0, head := 0, eof := false, rclose := false,
    inSlots := c.totalIn, scanQ := [], retrQ := [], emitQ := [], reordQ := [],
    orderQ := [], ublks := [], nextId := 0, ptok := true, pdone := false,
    ppos := 0, porig := 0, gnext := 0, pphase := none, wu := c.n,
    outSlots := c.totalOut, outq := 0, busy := [], written := [], failed := false,
    taint := false }

/-! ## Positions, queues, guards -/

def offs (c : Cfg) (k : Nat) : Nat := min (k * c.W) c.T
def tailOffs (c : Cfg) (s : State) : Nat := offs c s.rd
def headOffs (c : Cfg) (s : State) : Nat := offs c s.head

def posLt (a b : Nat × Nat) : Bool := a.1 < b.1 || (a.1 == b.1 && a.2 < b.2)
def posLe (a b : Nat × Nat) : Bool := !posLt b a

def minKey? : List (Nat × Nat) → Option (Nat × Nat)
  | [] => none
  | x :: xs =>
    match minKey? xs with
    | none => some x
    | some m => if posLt m x then some m else some x

def minNat? : List Nat → Option Nat
  | [] => none
  | x :: xs =>
    match minNat? xs with
    | none => some x
    | some m => if m < x then some m else some x

def inqBases (s : State) : List Nat := (s.ublks.filter (·.inq)).map (·.base)

def view (c : Cfg) (s : State) : DView :=
  let tl := tailOffs c s
  let oh := s.orderQ.head?
  let eh := minKey? (s.emitQ.map EJob.key)
  let rh := minKey? (s.reordQ.map OB.key)
  { ultra := c.ultra, eof := s.eof, parseToken := s.ptok, parsingDone := s.pdone,
    workUnits := s.wu, outSlots := s.outSlots, numWorker := c.n,
    totalOutSlots := c.totalOut,
    retrEmpty := s.retrQ.isEmpty, emitEmpty := s.emitQ.isEmpty,
    reordEmpty := s.reordQ.isEmpty, orderEmpty := s.orderQ.isEmpty,
    scanEmpty := s.scanQ.isEmpty,
    parserCanAttach := canAttach s.ppos tl s.eof,
    retrHeadCanAttach :=
      (match minNat? (s.retrQ.map Job.curr) with
       | some m => canAttach m tl s.eof | none => false),
    scanHeadCanAttach :=
      (match minNat? s.scanQ with
       | some m => canAttach m tl s.eof | none => false),
    emitHeadEqOrderHead :=
      (match eh, oh with | some e, some o => e == o | _, _ => false),
    emitHeadLeOrderHead :=
      (match eh, oh with | some e, some o => posLe e o | _, _ => false),
    reordHeadLeOrderHead :=
      (match rh, oh with | some r, some o => posLe r o | _, _ => false),
    reordHeadLtOrderHead :=
      (match rh, oh with | some r, some o => posLt r o | _, _ => false) }

def guardOf (t : String) (v : DView) : Bool :=
  if t = "reorder" then dCanReorder v
  else if t = "parse" then dCanParse v
  else if t = "emit" then dCanEmit v
  else if t = "retrieve" then dCanRetrieve v
  else if t = "scan" then dCanScan v
  else false

/-- `select_task()` over the generated priority list and guards. -/
def selectTask (c : Cfg) (s : State) : Option String :=
  dTaskOrder.find? (fun t => guardOf t (view c s))

def busyCount (s : State) : Nat := s.busy.length + (if s.pphase.isSome then 1 else 0)
def freeWorker (c : Cfg) (s : State) : Bool := busyCount s < c.n

def Phase.block : Phase → Option Nat
  | .retr _ k => k
  | .scan _ k => some k
  | _ => none

def attachedTo (s : State) (k : Nat) : Bool :=
  s.pphase == some (some k) || s.busy.any (fun ph => ph.block == some k)

/-- `detach()`'s `--ref_count == 0` (the phase has already been removed). -/
def detach (s : State) (k : Option Nat) : State :=
  match k with
  | none => s
  | some k =>
    if k < s.head && !attachedTo s k then { s with inSlots := s.inSlots + 1 } else s

def newHead (c : Cfg) (s : State) (p : Nat) : Nat :=
  max s.head (min s.rd (if c.T ≤ p then s.rd else p / c.W))

def releaseCount (s : State) (h h' : Nat) : Nat :=
  ((List.range' h (h' - h)).filter (fun k => !attachedTo s k)).length

/-- `advance(bs)`. -/
def advance (c : Cfg) (s : State) (p : Nat) : State :=
  let h' := newHead c s p
  let ho := offs c h'
  { s with
    ppos := p, head := h',
    inSlots := s.inSlots + releaseCount s s.head h',
    wu := s.wu + (s.retrQ.filter (fun j => j.curr < ho)).length,
    retrQ := s.retrQ.filter (fun j => !(j.curr < ho)),
    scanQ := s.scanQ.filter (fun x => !(x < ho)) }

def ubFind (s : State) (id : Nat) : Option UB := s.ublks.find? (·.id == id)
def ubLink (s : State) (l : Option Nat) : Option UB :=
  match l with | none => none | some id => ubFind s id
def ubSet (us : List UB) (u : UB) : List UB := us.map (fun x => if x.id == u.id then u else x)
def ubDel (us : List UB) (id : Nat) : List UB := us.filter (fun x => !(x.id == id))

/-- the parser pops an entry of unord_q that it did not match -/
def ubPopStale (us : List UB) (p : UB → Bool) : List UB :=
  (us.filter (fun u => !(p u && u.complete))).map
    (fun u => if p u then { u with complete := true, legit := false, inq := false } else u)

/-! ## Transitions -/

inductive Label where
  | rTake | rQuit | rBlock | rEmpty | rEof
  | wDone
  | reorder (ob : OB)
  | parseStart | parseEnd
  | retrStart (j : Job) | retrEnd (j : Job) (k : Option Nat) | retrPost (e : EJob)
  | emitStart (e : EJob) | emitEnd (e : EJob)
  | scanStart (sp : Nat) | scanEnd (start k : Nat)
  deriving DecidableEq, Repr, Hashable

/-- source thread: `in_slots--` under source_mutex -/
def stepRTake (s : State) : Option State :=
  if s.rph == .idle && !s.rclose && decide (0 < s.inSlots) then
    some { s with inSlots := s.inSlots - 1, rph := .hold }
  else none

def stepRQuit (s : State) : Option State :=
  if s.rph == .idle && s.rclose then some { s with rph := .ateof } else none

/-- `xread` delivered data: `on_input_avail` -/
def stepRBlock (c : Cfg) (s : State) : Option State :=
  if s.rph == .hold && decide (s.nread * c.W < c.T) then
    let rph' := if (s.nread + 1) * c.W ≤ c.T then RPhase.idle else RPhase.ateof
    if s.pdone then
      some { s with nread := s.nread + 1, inSlots := s.inSlots + 1, rph := rph' }
    else
      some { s with nread := s.nread + 1, rd := s.rd + 1,
                    scanQ := offs c s.rd :: s.scanQ, rph := rph' }
  else none

/-- `xread` found end of file at once -/
def stepREmpty (c : Cfg) (s : State) : Option State :=
  if s.rph == .hold && !decide (s.nread * c.W < c.T) then
    some { s with inSlots := s.inSlots + 1, rph := .ateof }
  else none

def stepREof (s : State) : Option State :=
  if s.rph == .ateof then some { s with eof := true, rph := .done } else none

/-- sink thread: write one buffer, `on_write_complete` -/
def stepWDone (s : State) : Option State :=
  if decide (0 < s.outq) then
    some { s with outq := s.outq - 1, outSlots := s.outSlots + 1 }
  else none

/-- `do_reorder` (one atomic section) -/
def stepReorder (c : Cfg) (s : State) (ob : OB) : Option State :=
  if freeWorker c s && selectTask c s == some "reorder" && s.reordQ.contains ob
      && minKey? (s.reordQ.map OB.key) == some ob.key then
    if dReorderBogus (view c s) then
      some { s with reordQ := s.reordQ.erase ob, outSlots := s.outSlots + 1 }
    else
      match ob.st with
      | .err => some { s with reordQ := s.reordQ.erase ob, failed := true }
      | .more =>
        some { s with reordQ := s.reordQ.erase ob,
                      orderQ := (match s.orderQ with
                                 | [] => [] | (b, i) :: r => (b, i + 1) :: r),
                      written := s.written ++ [ob.key], outq := s.outq + 1,
                      taint := s.taint || ob.corrupt }
      | .ok =>
        some { s with reordQ := s.reordQ.erase ob, orderQ := s.orderQ.tail,
                      written := s.written ++ [ob.key], outq := s.outq + 1,
                      taint := s.taint || ob.corrupt }
  else none

/-- `do_parse` up to the `sched_unlock` inside `attach` -/
def stepParseStart (c : Cfg) (s : State) : Option State :=
  if freeWorker c s && selectTask c s == some "parse" && s.pphase.isNone then
    let k := if s.ppos < tailOffs c s then some (s.ppos / c.W) else none
    some { s with ptok := false, wu := s.wu - 1, pphase := some k }
  else none

/-- `do_parse` from the `sched_lock` inside `detach` to its end -/
def stepParseEnd (c : Cfg) (s : State) : Option State :=
  match s.pphase with
  | none => none
  | some k =>
    let r := pres c s.porig
    let target := match r with | .hdr b => b | .finish u _ => u | .err u => u
    let s1 := detach { s with pphase := none } k
    let more := match k with
      | some kk => decide (offs c (kk + 1) < target)
      | none => false
    if more then
      let kk := k.getD 0
      some { advance c s1 (offs c (kk + 1)) with ptok := true, wu := (advance c s1 (offs c (kk + 1))).wu + 1 }
    else
      match r with
      | .err _ => some { s1 with failed := true }
      | .finish u ok =>
        if !ok then some { s1 with rclose := true, ptok := true, pdone := true, failed := true }
        else
          some { s1 with
            rclose := true, ptok := true, pdone := true, ppos := u,
            head := s1.rd,
            inSlots := s1.inSlots + releaseCount s1 s1.head s1.rd,
            wu := s1.wu + s1.retrQ.length + 1,
            retrQ := [], scanQ := [],
            ublks := ubPopStale s1.ublks (fun u => u.inq) }
      | .hdr b =>
        let s2 := advance c s1 b
        let us := ubPopStale s2.ublks (fun u => u.inq && decide (u.base < b))
        let s3 := { s2 with orderQ := s2.orderQ ++ [(b, 0)], ublks := us,
                            gnext := (rres c b).e }
        match us.find? (fun u => u.inq && u.base == b) with
        | some u =>
          let s4 := advance c s3 u.endp
          if u.complete then
            some { s4 with ublks := ubDel s4.ublks u.id, ptok := true, porig := u.endp,
                           wu := s4.wu + 1, taint := s4.taint || u.corrupt }
          else
            some { s4 with ublks := ubSet s4.ublks { u with complete := true, legit := true, inq := false },
                           wu := s4.wu + 1 }
        | none =>
          some { s3 with retrQ := { curr := b, base := b, link := none, corrupt := false } :: s3.retrQ }

/-- `do_retrieve` up to the `sched_unlock` inside `attach` -/
def stepRetrStart (c : Cfg) (s : State) (j : Job) : Option State :=
  if freeWorker c s && selectTask c s == some "retrieve" && s.retrQ.contains j
      && minNat? (s.retrQ.map Job.curr) == some j.curr then
    let stale := decide (j.curr < headOffs c s)
    let k : Option Nat :=
      if tailOffs c s ≤ j.curr then none
      else if stale then (if s.head < s.rd then some s.head else none)
      else some (j.curr / c.W)
    some { s with retrQ := s.retrQ.erase j,
                  busy := .retr { j with corrupt := j.corrupt || stale } k :: s.busy }
  else none

/-- `do_retrieve` from the `sched_lock` in `detach` to the `sched_unlock`
    before `decode()` (or to its early returns) -/
def stepRetrEnd (c : Cfg) (s : State) (j : Job) (k : Option Nat) : Option State :=
  if s.busy.contains (.retr j k) then
    let r := rres c j.base
    let newc := match k with
      | some kk => max j.curr (min r.e (offs c (kk + 1)))
      | none => j.curr
    let fin := decide (r.e ≤ newc)
    let s1 := detach { s with busy := s.busy.erase (.retr j k) } k
    let u? := ubLink s1 j.link
    if s1.pdone then some { s1 with wu := s1.wu + 1 }
    else if (match u? with | some u => u.complete && !u.legit | none => false) then
      some { s1 with wu := s1.wu + 1 }
    else
      let master := match u? with | some u => u.complete | none => true
      let s2 :=
        if master then
          let a := advance c s1 newc
          { a with taint := a.taint || j.corrupt }
        else
          match u? with
          | some u => { s1 with ublks := ubSet s1.ublks { u with endp := newc } }
          | none => s1
      if !fin then
        some { s2 with retrQ := { j with curr := newc } :: s2.retrQ }
      else
        let ej : EJob :=
          { base := j.base, idx := 0, left := (if r.ok then r.nb else 1),
            ok := r.ok && r.fin, corrupt := j.corrupt }
        let s3 :=
          if master then
            { s2 with ptok := true, porig := newc,
                      ublks := (match j.link with | some id => ubDel s2.ublks id | none => s2.ublks) }
          else
            match u? with
            | some u =>
              { s2 with ublks := ubSet s2.ublks
                  { u with complete := true, endp := newc, corrupt := j.corrupt } }
            | none => s2
        some { s3 with busy := .retr2 ej :: s3.busy }
  else none

/-- `do_retrieve`: `sched_lock(); enqueue(emit_q, eb)` -/
def stepRetrPost (s : State) (e : EJob) : Option State :=
  if s.busy.contains (.retr2 e) then
    some { s with busy := s.busy.erase (.retr2 e), emitQ := e :: s.emitQ }
  else none

/-- `do_emit` up to its `sched_unlock` -/
def stepEmitStart (c : Cfg) (s : State) (e : EJob) : Option State :=
  if freeWorker c s && selectTask c s == some "emit" && s.emitQ.contains e
      && minKey? (s.emitQ.map EJob.key) == some e.key then
    some { s with outSlots := s.outSlots - 1, emitQ := s.emitQ.erase e,
                  busy := .emit e :: s.busy }
  else none

/-- `do_emit` from its `sched_lock` to the end -/
def stepEmitEnd (s : State) (e : EJob) : Option State :=
  if s.busy.contains (.emit e) then
    let s1 := { s with busy := s.busy.erase (.emit e) }
    if 1 < e.left then
      some { s1 with emitQ := { e with idx := e.idx + 1, left := e.left - 1 } :: s1.emitQ,
                     reordQ := { base := e.base, idx := e.idx, st := .more, corrupt := e.corrupt } :: s1.reordQ }
    else
      some { s1 with wu := s1.wu + 1,
                     reordQ := { base := e.base, idx := e.idx,
                                 st := (if e.ok then .ok else .err), corrupt := e.corrupt } :: s1.reordQ }
  else none

/-- `do_scan` up to the `sched_unlock` inside `attach` -/
def stepScanStart (c : Cfg) (s : State) (sp : Nat) : Option State :=
  if freeWorker c s && selectTask c s == some "scan" && s.scanQ.contains sp
      && minNat? s.scanQ == some sp then
    let start := if sp / c.W == s.ppos / c.W && sp < s.ppos then s.ppos else sp
    some { s with wu := s.wu - 1, scanQ := s.scanQ.erase sp,
                  busy := .scan start (sp / c.W) :: s.busy }
  else none

/-- first candidate in (start, hi] -/
def scanFind (c : Cfg) (start hi : Nat) : Option Nat :=
  minNat? (c.cand.filter (fun x => decide (start < x) && decide (x ≤ hi)))

/-- `do_scan` from the `sched_lock` in `detach` to its end -/
def stepScanEnd (c : Cfg) (s : State) (start k : Nat) : Option State :=
  if s.busy.contains (.scan start k) then
    let s1 := detach { s with busy := s.busy.erase (.scan start k) } (some k)
    let hi := offs c (k + 1)
    match scanFind c start hi with
    | none => some { s1 with wu := s1.wu + 1 }
    | some x =>
      if s1.pdone then some { s1 with wu := s1.wu + 1 }
      else
        let s2 :=
          if x ≤ s1.ppos then { s1 with wu := s1.wu + 1 }
          else
            { s1 with
              ublks := { id := s1.nextId, base := x, endp := x, complete := false,
                         legit := false, inq := true, corrupt := false } :: s1.ublks,
              nextId := s1.nextId + 1,
              retrQ := { curr := x, base := x, link := some s1.nextId, corrupt := false } :: s1.retrQ }
        if x != hi && decide (headOffs c s2 ≤ x) then
          some { s2 with scanQ := x :: s2.scanQ }
        else some s2
  else none

def step (c : Cfg) (s : State) (l : Label) : Option State :=
  if s.failed then none
  else
    match l with
    | .rTake => stepRTake s
    | .rQuit => stepRQuit s
    | .rBlock => stepRBlock c s
    | .rEmpty => stepREmpty c s
    | .rEof => stepREof s
    | .wDone => stepWDone s
    | .reorder ob => stepReorder c s ob
    | .parseStart => stepParseStart c s
    | .parseEnd => stepParseEnd c s
    | .retrStart j => stepRetrStart c s j
    | .retrEnd j k => stepRetrEnd c s j k
    | .retrPost e => stepRetrPost s e
    | .emitStart e => stepEmitStart c s e
    | .emitEnd e => stepEmitEnd s e
    | .scanStart sp => stepScanStart c s sp
    | .scanEnd st k => stepScanEnd c s st k

/-- Every label that could possibly be enabled in `s` (superset; `step` decides). -/
def candLabels (s : State) : List Label :=
  [.rTake, .rQuit, .rBlock, .rEmpty, .rEof, .wDone, .parseStart, .parseEnd]
  ++ s.reordQ.map .reorder
  ++ s.retrQ.map .retrStart
  ++ s.emitQ.map .emitStart
  ++ s.scanQ.map .scanStart
  ++ s.busy.map (fun ph => match ph with
      | .retr j k => .retrEnd j k
      | .retr2 e => .retrPost e
      | .emit e => .emitEnd e
      | .scan st k => .scanEnd st k)

def enabled (c : Cfg) (s : State) : List Label :=
  (candLabels s).filter (fun l => (step c s l).isSome)

inductive Reach (c : Cfg) : State → Prop where
  | init : Reach c (init c)
  | step {s s' : State} (l : Label) : Reach c s → step c s l = some s' → Reach c s'

/-- run a list of labels -/
def run (c : Cfg) : State → List Label → Option State
  | s, [] => some s
  | s, l :: ls => match step c s l with | some s' => run c s' ls | none => none

theorem reach_run {c : Cfg} {s s' : State} (ls : List Label) (h : Reach c s)
    (hr : run c s ls = some s') : Reach c s' := by
  induction ls generalizing s with
  | nil => simp [run] at hr; exact hr ▸ h
  | cons l ls ih =>
    simp only [run] at hr
    split at hr
    · next s1 h1 => exact ih (Reach.step l h h1) hr
    · exact absurd hr (by simp)

/-- all workers have left the loop: `can_terminate` and nothing selected -/
def terminated (c : Cfg) (s : State) : Bool :=
  !s.failed && dCanTerminate (view c s) && (selectTask c s).isNone

/-- process over: clean termination or `failf` -/
def final (c : Cfg) (s : State) : Bool := s.failed || terminated c s

/-! ## Monitored predicates (used by theorems, witnesses and the BFS driver) -/

def unordSize (s : State) : Nat := (s.ublks.filter (·.inq)).length
def unordCapOf (c : Cfg) : Nat := unordCap c.n c.totalOut

/-- a job (queued or running) owns unord_blk `id` -/
def hasOwner (s : State) (id : Nat) : Bool :=
  s.retrQ.any (fun j => j.link == some id)
  || s.busy.any (fun ph => match ph with | .retr j _ => j.link == some id | _ => false)

/-- entries of unord_q whose job `advance()` dropped: they hold no resource (F4) -/
def staleCount (s : State) : Nat :=
  (s.ublks.filter (fun u => u.inq && !u.complete && !hasOwner s u.id)).length

/-- F5: a retrieve job is queued behind `head_offs` -/
def staleAttach (c : Cfg) (s : State) : Bool := s.retrQ.any (fun j => j.curr < headOffs c s)

/-- F2: unord_blk objects nobody will ever free -/
def leakedCount (s : State) : Nat :=
  (s.ublks.filter (fun u => !u.inq && !hasOwner s u.id)).length

def emitBusy (s : State) : Nat :=
  (s.busy.filter (fun ph => match ph with | .emit _ => true | _ => false)).length

def unitsHeld (s : State) : Nat := s.retrQ.length + s.emitQ.length + busyCount s
def slotsHeld (s : State) : Nat := s.reordQ.length + s.outq + emitBusy s

def inputAlive (s : State) : Nat :=
  (s.rd - s.head) + ((List.range s.head).filter (fun k => attachedTo s k)).length
  + (if s.rph == .hold then 1 else 0)

def stuck (c : Cfg) (s : State) : Bool := !final c s && (enabled c s).isEmpty

end LbzVerif.Model.SchedD
