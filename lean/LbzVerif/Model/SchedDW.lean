/-
  Model.SchedDW — the worker threads and the condition variable `sched_cond`
  of src/process.c as a REFINEMENT layer on top of `Model.SchedD`.

  The base model has anonymous workers: any free worker may start the selected
  task at any time, so `xwait` / `xsignal` / `xbroadcast` do not appear in it.
  Here every worker thread is a small automaton (`WPh`) around the loop of
  `worker_thread_proc`:

      xlock(&sched_mutex);
      for (;;) {
        while (next_task != NULL) { next_task->run(); select_task(); }
        if (process->finished()) break;
        xwait(&sched_cond, &sched_mutex);
      }
      xbroadcast(&sched_cond);
      xunlock(&sched_mutex);

  and `next_task`, the owner of `sched_mutex` and `sched_unlock()` (=
  `select_task()`, `xsignal` if a task is ready or the process has finished,
  `xunlock`) are explicit.  Everything the tasks, the reader and the writer do
  to the scheduler data is still the base model's `step`: a refined step is
  either a pure thread/mutex step or exactly one base step plus its
  bookkeeping (`Lemmas.SchedD.stepW_base`).  `pthread_cond_signal` wakes one
  waiter (which one is part of the label), a signal without waiter is lost,
  spurious wake-ups are allowed.
-/
import LbzVerif.Model.SchedD

namespace LbzVerif.Model.SchedDW
open LbzVerif.Gen LbzVerif.Model.SchedD

/-- Where a worker thread is in `worker_thread_proc`. -/
inductive WPh where
  /-- runnable and about to take `sched_mutex`: thread start (`xlock`), or
      woken from `xwait` (which re-acquires the mutex before it returns) -/
  | ready
  /-- holds `sched_mutex` at the top of `while (next_task != NULL)` -/
  | inloop
  /-- inside `next_task->run()` with the mutex released (`sched_unlock` in
      `attach()` / `do_emit` / before `decode()`) -/
  | running
  /-- blocked in `xwait(&sched_cond, &sched_mutex)` -/
  | waiting
  /-- left the loop (`break`; `xbroadcast`; `xunlock`) -/
  | exited
  deriving DecidableEq, Repr, Hashable

structure WState where
  /-- the scheduler data (`Model.SchedD`) -/
  base : State
  /-- `next_task` (a task name of `dTaskOrder`) -/
  nextTask : Option String
  /-- the worker that owns `sched_mutex`; the sections of the reader / writer
      threads are atomic here, so only workers appear -/
  holder : Option Nat
  ws : List WPh
  deriving DecidableEq, Repr, Hashable

/-- `primary_thread`: `process->init(); select_task();` then the workers start. -/
def initW (c : Cfg) : WState :=
  ⟨init c, selectTask c (init c), none, List.replicate c.n .ready⟩

/-- `process->finished()` = `can_terminate()` of expand.c -/
def finished (c : Cfg) (s : State) : Bool := dCanTerminate (view c s)

/-! ## Condition variable -/

/-- `xsignal(&sched_cond)`: wake waiter `k`; if nobody waits the signal is
    lost (any `k`). -/
def signal (ws : List WPh) (k : Nat) : Option (List WPh) :=
  if WPh.waiting ∈ ws then
    match ws[k]? with
    | some .waiting => some (ws.set k .ready)
    | _ => none
  else some ws

/-- `xbroadcast(&sched_cond)` -/
def broadcast (ws : List WPh) : List WPh :=
  ws.map (fun p => if p = .waiting then .ready else p)

/-- `sched_unlock()`: `select_task(); if (next_task != NULL ||
    process->finished()) xsignal(&sched_cond); xunlock(&sched_mutex);` -/
def unlockW (c : Cfg) (w : WState) (k : Nat) : Option WState :=
  let nt := selectTask c w.base
  if nt.isSome || finished c w.base then
    (signal w.ws k).map (fun ws => { w with nextTask := nt, holder := none, ws := ws })
  else some { w with nextTask := nt, holder := none }

/-! ## Labels -/

/-- reader steps that do not touch the scheduler monitor (`source_mutex` only) -/
def lockFreeIO : Label → Bool
  | .rTake | .rQuit | .rEmpty => true
  | _ => false

/-- `sched_lock(); …; sched_unlock();` sections of the reader and the writer:
    `on_input_avail`, `eof = 1` in `source_thread_proc`, `on_write_complete` -/
def lockedIO : Label → Bool
  | .rBlock | .rEof | .wDone => true
  | _ => false

/-- the base label(s) with which task `t` starts: `t->run()` up to its first
    `sched_unlock` (all of `do_reorder`, which never unlocks) -/
def taskOf : Label → Option String
  | .reorder _ => some "reorder"
  | .parseStart => some "parse"
  | .retrStart _ => some "retrieve"
  | .emitStart _ => some "emit"
  | .scanStart _ => some "scan"
  | _ => none

/-- base labels that start with a `sched_lock()` inside a task: `detach()` in
    `do_parse` / `do_retrieve` / `do_scan`, the `sched_lock` before
    `enqueue(emit_q)` in `do_retrieve`, the one in `do_emit` -/
def isEnd : Label → Bool
  | .parseEnd | .retrEnd _ _ | .retrPost _ | .emitEnd _ | .scanEnd _ _ => true
  | _ => false

def isRetrEnd : Label → Bool
  | .retrEnd _ _ => true
  | _ => false

inductive WLabel where
  /-- reader without the scheduler mutex (`lockFreeIO`): base step only -/
  | io (l : Label)
  /-- reader / writer section under `sched_lock` (`lockedIO`); its
      `sched_unlock` signals waiter `k` -/
  | ioS (l : Label) (k : Nat)
  /-- worker `i` obtains `sched_mutex` (`xlock` at thread start, or inside
      `xwait` after a wake-up) and stands at the top of the loop -/
  | acquire (i : Nat)
  /-- `next_task->run()` by worker `i`, up to the task's first `sched_unlock`
      (signalling `k`); for `do_reorder` the whole task and the `select_task()`
      that follows `run()`, mutex kept -/
  | runTask (i : Nat) (l : Label) (k : Nat)
  /-- worker `i`, inside a task, takes the mutex again (`sched_lock`) and
      runs the section `l`.  `do_retrieve` with `retrieve()` finished ends in a
      second `sched_unlock` (signalling `k`) and the worker goes on with
      `decode()`; every other section runs to the end of the task function,
      which returns into the loop: `select_task()`, mutex kept -/
  | relock (i : Nat) (l : Label) (k : Nat)
  /-- `xwait`: `next_task == NULL`, not finished; releases the mutex WITHOUT
      signalling -/
  | wait (i : Nat)
  /-- `break; xbroadcast(&sched_cond); xunlock(&sched_mutex);` -/
  | exit (i : Nat)
  /-- spurious wake-up of a waiter -/
  | spurious (i : Nat)
  deriving DecidableEq, Repr, Hashable

/-! ## Transitions -/

/-- `do_retrieve` took the "retrieve finished" branch: the `.retr` phase was
    replaced by a `.retr2` phase (every other branch removes the phase). -/
def retrFinished (l : Label) (b b' : State) : Prop :=
  isRetrEnd l = true ∧ b'.busy.length = b.busy.length

instance (l : Label) (b b' : State) : Decidable (retrFinished l b b') := by
  unfold retrFinished; infer_instance

def stepW (c : Cfg) (w : WState) (l : WLabel) : Option WState :=
  if w.base.failed then none    -- `failf` ends the process
  else
    match l with
    | .io l =>
      if lockFreeIO l then (step c w.base l).map (fun b => { w with base := b }) else none
    | .ioS l k =>
      if lockedIO l = true ∧ w.holder = none then
        (step c w.base l).bind (fun b => unlockW c { w with base := b } k)
      else none
    | .acquire i =>
      if w.holder = none ∧ w.ws[i]? = some .ready then
        some { w with holder := some i, ws := w.ws.set i .inloop }
      else none
    | .runTask i l k =>
      if w.holder = some i ∧ w.ws[i]? = some .inloop ∧ w.nextTask.isSome = true
          ∧ taskOf l = w.nextTask then
        (step c w.base l).bind (fun b =>
          if w.nextTask = some "reorder" then
            some { w with base := b, nextTask := selectTask c b }
          else unlockW c { w with base := b, ws := w.ws.set i .running } k)
      else none
    | .relock i l k =>
      if w.holder = none ∧ w.ws[i]? = some .running ∧ isEnd l = true then
        (step c w.base l).bind (fun b =>
          if retrFinished l w.base b then unlockW c { w with base := b } k
          else some { w with base := b, nextTask := selectTask c b, holder := some i,
                             ws := w.ws.set i .inloop })
      else none
    | .wait i =>
      if w.holder = some i ∧ w.ws[i]? = some .inloop ∧ w.nextTask = none
          ∧ finished c w.base = false then
        some { w with holder := none, ws := w.ws.set i .waiting }
      else none
    | .exit i =>
      if w.holder = some i ∧ w.ws[i]? = some .inloop ∧ w.nextTask = none
          ∧ finished c w.base = true then
        some { w with holder := none, ws := broadcast (w.ws.set i .exited) }
      else none
    | .spurious i =>
      if w.ws[i]? = some .waiting then some { w with ws := w.ws.set i .ready } else none

/-- reachable states of the refined model (every interleaving, every choice of
    the woken waiter, spurious wake-ups included) -/
inductive ReachW (c : Cfg) : WState → Prop where
  | init : ReachW c (initW c)
  | step {w w' : WState} (l : WLabel) : ReachW c w → stepW c w l = some w' → ReachW c w'

/-- run a list of labels -/
def runW (c : Cfg) : WState → List WLabel → Option WState
  | w, [] => some w
  | w, l :: ls => match stepW c w l with | some w' => runW c w' ls | none => none

theorem reachW_run {c : Cfg} {w w' : WState} (ls : List WLabel) (h : ReachW c w)
    (hr : runW c w ls = some w') : ReachW c w' := by
  induction ls generalizing w with
  | nil => simp [runW] at hr; exact hr ▸ h
  | cons l ls ih =>
    simp only [runW] at hr
    split at hr
    · next w1 h1 => exact ih (ReachW.step l h h1) hr
    · exact absurd hr (by simp)

end LbzVerif.Model.SchedDW
