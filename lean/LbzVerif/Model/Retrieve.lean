/-
  Model.Retrieve — executable model of the WHOLE block retriever `retrieve()`
  of src/decode.c, with its suspend / resume behaviour (work package W15;
  properties C09, C05, C06, C08).

  What is modelled, line by line:

  * the bit buffer: `v` holds `w` live bits left-justified in 64 bits;
    `NEED(s)`: `if (w < 32) { if (next == limit) { SAVE(); if (eof) return
    ERR_EOF; state = s; return MORE; case s: …RESTORE() } v |= word << (64 -
    (w += 32)); next++ }`; `PEEK`, `DUMP`, `TAKE`;
  * the seven resume states (`Pc`); the code between two `NEED` sites is one
    `step`; `drain` runs steps while no refill is due; `toTop` feeds the words
    of the segment one at a time;
  * rand bit, 24-bit index, bitmap (row words through `big` / `small`, the
    bytes stored at `imtf_slide[CMAP_BASE + alpha_size]`), `num_trees` /
    `num_selectors` tests, selector MTF values through `table[64]`
    (`Gen.firstZero`), the delta loop (`Model.Delta.stepLen`, tables HI/LO/R/L
    from Gen), `make_tree` per table (`Model.Canon.makeTree`; the verdict is
    stored in `mtf[t]` as the C code does), the clamp to 18001 selectors, tree
    selection with the error code taken from `mtf[i]`, the group loop with
      - the FAST branch (`fastLoop`, taken when at least `Gen.fastWords` words
        remain in the segment: tree pointer computed once, `run` / `runChar` /
        `shift` in locals, `NEED_FAST` without a limit test, write-back at the
        end of the group / at EOB) and
      - the SLOW branch (`stepPrefix`: `NEED(S_PREFIX)` per symbol),
    the symbol actions (`symStep`: run accumulation, overflow test, flush,
    `mtf_one` = `Model.MtfDec.mtfOne`), EOB handling (`eobFinish`: overflow,
    flush, `SAVE`, ERR_EMPTY, ERR_BWTIDX, OK), ERR_UNTERM.

  Reused, not re-modelled: `Model.Delta` (range test + tables), `Model.Canon`
  (`makeTree`, `lookup`), `Model.MtfDec` (`bitmapLoop`, `slideOf`, `initRun`,
  `flush`, `mtfOne`, `RunSt`).

  Conventions / deliberate abstractions (all unobservable through the C API):
  * `St.pc` is tracked continuously; the C code writes `rs->state` only when
    it returns MORE.  A state found at a `NEED` site with `pc = init` is
    stored as `bwtIdx` (`rs->state = S_BWT_IDX`).
  * When a call ends with a status other than MORE / ERR_EOF the internal
    state is dead (freed on OK, never resumed after an error): the model
    returns `St.final` (position, rand, bwt_idx, block) on OK and `St.blank`
    on errors.  `bs->data/live/buff` are NOT updated by the C code on error
    returns other than ERR_EOF, so nothing is lost.
  * Dead variables are canonicalised at the top of a group (`j := 0`,
    `pc := prefix`): the fast branch leaves `rs->j` / `rs->state` untouched,
    the slow one ends with `j = 50`; neither value is read again.
  * Model-only statuses: `ub` (something the C code can only do by undefined
    behaviour / `abort()`: `DUMP` of more bits than are live or of 0 bits,
    out-of-bounds table access, shift ≥ 32, a step that does not consume a
    bit), `overread` (`NEED_FAST` reading at `limit`), `assertFail` (the
    `assert(bs->eof)` / `assert(w < 32u)` of the resume path).  The campaign
    (checks/w15_retrieve.py) never sees `ub` / `overread`;
    `Props.C09.Retrieve.fast_no_overread` proves `overread` impossible.
-/
import LbzVerif.Gen.Consts
import LbzVerif.Gen.DecodeTab
import LbzVerif.Basic.Bits
import LbzVerif.Model.Delta
import LbzVerif.Model.Canon
import LbzVerif.Model.MtfDec

namespace LbzVerif.Model.Retrieve
open LbzVerif
open LbzVerif.Model.MtfDec (RunSt)

/-- "FSM states from which retriever can be started or resumed." -/
inductive Pc
  | init | bwtIdx | bitmapBig | bitmapSmall | selectorMtf | deltaTag | prefix
  deriving DecidableEq, Repr, Inhabited

/-- Value of the C enum. -/
def Pc.toNat : Pc → Nat
  | .init => 0 | .bwtIdx => 1 | .bitmapBig => 2 | .bitmapSmall => 3
  | .selectorMtf => 4 | .deltaTag => 5 | .prefix => 6

inductive Status
  | ok
  | more
  | err (code : Nat)          -- value of `enum error` (Gen.ERR_*)
  | ub                        -- model only, see header
  | overread                  -- model only
  | assertFail                -- model only: an `assert` of the resume path
  deriving DecidableEq, Repr, Inhabited

/-- How the code between two `NEED` sites can end the call. -/
inductive Halt
  | ok
  | err (code : Nat)
  | ub
  | overread
  deriving DecidableEq, Repr, Inhabited

def Halt.toStatus : Halt → Status
  | .ok => .ok
  | .err c => .err c
  | .ub => .ub
  | .overread => .overread

def Status.code : Status → Nat
  | .ok => Gen.RV_OK
  | .more => Gen.RV_MORE
  | .err c => c
  | .ub => 1000
  | .overread => 1001
  | .assertFail => 1002

/-- `struct retriever_internal_state` + the bit buffer (`bs->buff`,
`bs->live`) + the fields of `decoder_state` that `retrieve()` writes. -/
structure St where
  pc : Pc
  v : Nat                       -- bit buffer, < 2^64
  w : Nat                       -- live bits
  rand : Nat                    -- ds->rand
  bwtIdx : Nat                  -- ds->bwt_idx
  big : Nat                     -- uint16_t
  small : Nat                   -- uint16_t
  alphaSize : Nat
  j : Nat
  t : Nat
  g : Nat
  numTrees : Nat
  numSel : Nat
  selector : Array Nat          -- selector[0 .. j) (written in order: push)
  clCur : Nat                   -- code_len[j]
  clAcc : List Nat              -- code_len[0 .. j), reversed
  mtf : List Nat                -- mtf[MAX_TREES]
  trees : List (Option Canon.Tree)
  cmap : List UInt8             -- imtf_slide[CMAP_BASE ..] while the bitmap is read
  run : RunSt                   -- slide, runChar, run, shift, tt - ds->tt, tt bytes, ftab

def blankRun : RunSt := ⟨⟨#[], []⟩, 0, 0, 0, 0, [], []⟩

def St.blank : St :=
  { pc := .init, v := 0, w := 0, rand := 0, bwtIdx := 0, big := 0, small := 0,
    alphaSize := 0, j := 0, t := 0, g := 0, numTrees := 0, numSel := 0,
    selector := #[], clCur := 0, clAcc := [], mtf := List.replicate Gen.MAX_TREES 0,
    trees := List.replicate Gen.MAX_TREES none, cmap := [], run := blankRun }

/-- State after `decoder_init()` with the bit buffer of the caller's
bitstream (`bs->buff`, `bs->live`). -/
def St.start (v w : Nat) : St := { St.blank with v := v, w := w }

/-- What is left after OK: position, `rand`, `bwt_idx`, `block_size`, `tt`,
`ftab` (the internal state has been freed). -/
def St.final (st : St) : St :=
  { St.blank with v := st.v, w := st.w, rand := st.rand, bwtIdx := st.bwtIdx,
                  run := { blankRun with n := st.run.n, out := st.run.out, ftab := st.run.ftab } }

/-- Outcome of the code between two `NEED` sites. -/
inductive Step
  | cont (st : St)              -- arrived at the next `NEED` site (`st.pc`)
  | top (st : St)               -- arrived at the top of the group loop
  | done (r : Halt) (st : St)

def errS (code : Nat) : Step := .done (.err code) St.blank
def ubS : Step := .done .ub St.blank

/-! ### bit buffer -/

/-- `PEEK(k)` -/
def peek (st : St) (k : Nat) : Nat := st.v >>> (64 - k)

def dumpV (v k : Nat) : Nat := (v <<< k) % 2 ^ 64

/-- `DUMP(k)`; `none`: `k = 0` or more than the live bits (never in C). -/
def dump (st : St) (k : Nat) : Option St :=
  if k = 0 ∨ st.w < k then none else some { st with v := dumpV st.v k, w := st.w - k }

/-- `TAKE(x, k)` -/
def take (st : St) (k : Nat) : Option (Nat × St) :=
  match dump st k with
  | none => none
  | some st' => some (peek st k, st')

def refillV (v w x : Nat) : Nat := v ||| ((x % 2 ^ 32) <<< (64 - (w + 32)))

/-- `v |= (uint64_t)ntohl(*next) << (64u - (w += 32u)); next++` -/
def refill (st : St) (x : Nat) : St := { st with v := refillV st.v st.w x, w := st.w + 32 }

/-! ### header -/

/-- `TAKE(ds->rand, 1u); TAKE(ds->bwt_idx, 24u);` -/
def stepBwtIdx (st : St) : Step :=
  match take st 1 with
  | none => ubS
  | some (r, st) =>
    match take st 24 with
    | none => ubS
    | some (i, st) => .cont { st with rand := r, bwtIdx := i, pc := .bitmapBig }

/-- One pass of the inner `do … while (rs->j & 0xF)` loop followed by
`rs->big <<= 1`. -/
def rowBody (st : St) : St :=
  let r := MtfDec.bitmapLoop (Basic.natToBits 16 st.small) st.j st.cmap st.alphaSize
  { st with cmap := r.1, alphaSize := r.2, j := st.j + 16, small := (st.small <<< 16) % 65536,
            big := (st.big <<< 1) % 65536 }

/-- `if (k != 6u) { j++; if (j < alpha_size) code_len[j] = code_len[j-1]; }`
… one iteration of the delta loop (entered with `j < alpha_size`). -/
def deltaWindow (st : St) : Step :=
  let k := peek st 6
  match Delta.stepLen st.clCur k with
  | none => errS Gen.ERR_DELTA
  | some c' =>
    let l := Delta.tL k
    let st1 := if l ≠ 6 then { st with j := st.j + 1, clAcc := c' :: st.clAcc, clCur := c' }
               else { st with clCur := c' }
    match dump st1 l with
    | none => ubS
    | some st2 => .cont { st2 with pc := .deltaTag }

/-- "Initialize IMTF decoding structure", `runChar`, `run`, `shift`, `ftab`,
"Bound selectors at 18001", `g = 0`. -/
def groupsInit (st : St) : Step :=
  match MtfDec.initRun (MtfDec.slideOf st.cmap) with
  | none => ubS
  | some rs =>
    .top { st with run := { rs with n := st.run.n, out := st.run.out },
                   numSel := min st.numSel Gen.selectorBound, g := 0, j := 0, pc := .prefix }

/-- Loop test of `for (rs->t = 0; rs->t < rs->num_trees; rs->t++)`, then
`rs->j = 0; TAKE(rs->code_len[0], 5)` and the first window. -/
def tableStart (st : St) : Step :=
  if st.t < st.numTrees then
    match take st 5 with
    | none => ubS
    | some (c, st) =>
      let st := { st with j := 0, clCur := c, clAcc := [] }
      if st.j < st.alphaSize then deltaWindow st else ubS
  else groupsInit st

/-- `make_tree(rs)` and `rs->t++`. -/
def finishTable (st : St) : St :=
  let r := Canon.makeTree st.clAcc.reverse
  let code := match r.1 with
    | .ok => st.t
    | .incomplete => Gen.ERR_INCOMPLT
    | .oversubscribed => Gen.ERR_PREFIX
  { st with mtf := st.mtf.set st.t code, trees := st.trees.set st.t r.2, t := st.t + 1 }

/-- After `NEED(S_DELTA_TAG)`: loop test `while (rs->j < rs->alpha_size)`. -/
def stepDeltaTag (st : St) : Step :=
  if st.j < st.alphaSize then deltaWindow st else tableStart (finishTable st)

/-- Loop test of `for (rs->j = 0; rs->j < rs->num_selectors; rs->j++)` and the
body up to `NEED(S_SELECTOR_MTF)`. -/
def selLoop (st : St) : Step :=
  if st.j < st.numSel then
    let k := Gen.firstZero.getD (peek st 6) 0
    if k > st.numTrees then errS Gen.ERR_SELECTOR
    else
      match dump st k with
      | none => ubS
      | some st => .cont { st with selector := st.selector.push (k - 1), pc := .selectorMtf }
  else tableStart { st with t := 0 }

def stepSelectorMtf (st : St) : Step := selLoop { st with j := st.j + 1 }

/-- From the end of the bitmap loop to the first selector. -/
def afterBitmap (st : St) : Step :=
  if st.alphaSize = 0 then errS Gen.ERR_BITMAP
  else
    let st := { st with alphaSize := st.alphaSize + 2 }
    match take st 3 with
    | none => ubS
    | some (nt, st) =>
      if nt < Gen.MIN_TREES ∨ nt > Gen.MAX_TREES then errS Gen.ERR_TREES
      else
        match take st 15 with
        | none => ubS
        | some (ns, st) =>
          if ns = 0 then errS Gen.ERR_GROUPS
          else selLoop { st with numTrees := nt, numSel := ns, j := 0, selector := #[] }

/-- The outer bitmap loop with `n` rows to go (`j = 256 - 16 n`). -/
def bitmapOuter : Nat → St → Step
  | 0, st => afterBitmap st
  | n + 1, st =>
    if st.big &&& 0x8000 ≠ 0 then
      match take st 16 with
      | none => ubS
      | some (s, st) => .cont { st with small := s, pc := .bitmapSmall }
    else bitmapOuter n (rowBody st)

def stepBitmapBig (st : St) : Step :=
  match take st 16 with
  | none => ubS
  | some (b, st) =>
    bitmapOuter 16 { st with big := b, small := 0, alphaSize := 0, j := 0,
                             cmap := List.replicate 256 0 }

def stepBitmapSmall (st : St) : Step :=
  let st := rowBody st
  bitmapOuter ((256 - st.j) / 16) st

/-! ### symbols -/

inductive SymRes
  | eob
  | cont (rs : RunSt)
  | stop (r : Halt)

/-- What both branches do with a decoded symbol `s` (internal numbering):
`IS_EOB`, `IS_RUN(s) && run <= MAX_BLOCK_SIZE` → `run += RUN(s) << shift++`
(32-bit unsigned), else overflow test, flush, `mtf_one`, `shift = 0; run = 1`.
Same text as `Model.MtfDec.consume`, one symbol at a time. -/
def symStep (rs : RunSt) (s : Nat) : SymRes :=
  if s = 0 then .eob
  else if 256 ≤ s ∧ rs.run ≤ Gen.MAX_BLOCK_SIZE then
    if 32 ≤ rs.shift then .stop .ub
    else .cont { rs with run := (rs.run + ((s - 256) <<< rs.shift) % 2 ^ 32) % 2 ^ 32
                         shift := rs.shift + 1 }
  else if rs.run > Gen.MAX_BLOCK_SIZE - rs.n then .stop (.err Gen.ERR_OVERFLOW)
  else
    let rs' := MtfDec.flush rs
    match MtfDec.mtfOne rs'.sl (UInt8.ofNat s) with
    | none => .stop .ub
    | some (b, sl') => .cont { rs' with sl := sl', runChar := b, shift := 0, run := 1 }

/-- Label `eob:` — overflow test, flush, `SAVE()`, ERR_EMPTY, ERR_BWTIDX, OK. -/
def eobFinish (st : St) : Step :=
  if st.run.run > Gen.MAX_BLOCK_SIZE - st.run.n then errS Gen.ERR_OVERFLOW
  else
    let rs := MtfDec.flush st.run
    if rs.n = 0 then errS Gen.ERR_EMPTY
    else if st.bwtIdx ≥ rs.n then errS Gen.ERR_BWTIDX
    else .done .ok ({ st with run := rs }).final

/-- `rs->j++` and the loop test of the slow `for`; at the end of the group
`rs->g++` (loop test of the group loop is in `groups`). -/
def nextSym (st : St) : Step :=
  if st.j + 1 < Gen.GROUP_SIZE then .cont { st with j := st.j + 1 }
  else .top { st with j := 0, g := st.g + 1 }

/-- SLOW branch: body of the loop after `NEED(S_PREFIX)`. -/
def stepPrefix (st : St) : Step :=
  match st.trees.getD st.t none with
  | none => ubS
  | some T =>
    match Canon.lookup T st.v with
    | none => ubS
    | some (s, k) =>
      match dump st k with
      | none => ubS
      | some st1 =>
        match symStep st1.run s with
        | .eob => eobFinish st1
        | .stop r => .done r St.blank
        | .cont rs => nextSym { st1 with run := rs }

def step (st : St) : Step :=
  match st.pc with
  | .init => stepBwtIdx st
  | .bwtIdx => stepBwtIdx st
  | .bitmapBig => stepBitmapBig st
  | .bitmapSmall => stepBitmapSmall st
  | .selectorMtf => stepSelectorMtf st
  | .deltaTag => stepDeltaTag st
  | .prefix => stepPrefix st

/-! ### `NEED` -/

/-- `rs->state = (s)` at the first site. -/
def normPc (st : St) : St := if st.pc = .init then { st with pc := .bwtIdx } else st

inductive Drained
  | need (st : St)              -- at a `NEED` site with `w < 32`
  | top (st : St)
  | done (r : Halt) (st : St)

/-- Run steps as long as `NEED` finds at least 32 live bits.  Every step must
consume at least one bit (all of them do: each ends in a `DUMP`), so `w + 1`
is enough fuel; a step that does not is reported as `ub`. -/
def drain : Nat → St → Drained
  | 0, _ => .done .ub St.blank
  | f + 1, st =>
    if st.w < 32 then .need (normPc st)
    else
      match step st with
      | .cont st' => if st'.w < st.w then drain f st' else .done .ub St.blank
      | .top st' => .top st'
      | .done r st' => .done r st'

/-- Result of running up to the top of a group. -/
inductive Out
  | halt (r : Halt) (st : St) (rest : List Nat)
  | top (st : St) (rest : List Nat)
  | susp (st : St)              -- `NEED` at `next == limit`: SAVE, then MORE / ERR_EOF

/-- From a `NEED` site to the next group top / the end of the call, over the
words of the segment. -/
def toTop (st : St) (ws : List Nat) : Out :=
  match ws with
  | [] =>
    match drain (st.w + 1) st with
    | .done r st' => .halt r st' []
    | .top st' => .top st' []
    | .need st' => .susp st'
  | x :: ws' =>
    match drain (st.w + 1) st with
    | .done r st' => .halt r st' (x :: ws')
    | .top st' => .top st' (x :: ws')
    | .need st' => toTop (refill st' x) ws'

/-! ### groups -/

/-- "Select the tree coding this group" + "Update IMTF table". -/
def selectTree (st : St) : Except Halt St :=
  let i := st.selector.getD st.g 0
  let t := st.mtf.getD i 0
  if t ≥ Gen.MAX_TREES then .error (.err t)
  else .ok { st with t := t, mtf := t :: st.mtf.eraseIdx i }

inductive FastRes
  | next (v w : Nat) (ws : List Nat) (rs : RunSt)
  | eob (v w : Nat) (ws : List Nat) (rs : RunSt)
  | stop (r : Halt) (ws : List Nat)

/-- `NEED_FAST()`: no test against `limit`; `none` = a read at `limit`. -/
def needFast (v w : Nat) (ws : List Nat) : Option (Nat × Nat × List Nat) :=
  if w < 32 then
    match ws with
    | [] => none
    | x :: ws' => some (refillV v w x, w + 32, ws')
  else some (v, w, ws)

/-- FAST branch: `for (j = 0; j < GROUP_SIZE; j++) { NEED_FAST(); … }` with
`run`, `runChar`, `shift` (here: `rs`) and the bit buffer in locals. -/
def fastLoop (T : Canon.Tree) : Nat → Nat → Nat → List Nat → RunSt → FastRes
  | 0, v, w, ws, rs => .next v w ws rs
  | n + 1, v, w, ws, rs =>
    match needFast v w ws with
    | none => .stop .overread []
    | some (v1, w1, ws1) =>
      match Canon.lookup T v1 with
      | none => .stop .ub ws1
      | some (s, k) =>
        if k = 0 ∨ w1 < k then .stop .ub ws1
        else
          match symStep rs s with
          | .eob => .eob (dumpV v1 k) (w1 - k) ws1 rs
          | .stop r => .stop r ws1
          | .cont rs' => fastLoop T n (dumpV v1 k) (w1 - k) ws1 rs'

def ofStep (s : Step) (ws : List Nat) : Out :=
  match s with
  | .cont _ => .halt .ub St.blank ws       -- not produced by `eobFinish`
  | .top st => .top st ws
  | .done r st => .halt r st ws

/-- One group through the FAST branch. -/
def fastGroup (st : St) (ws : List Nat) : Out :=
  match st.trees.getD st.t none with
  | none =>
    -- (tables never built: cannot happen after `selectTree`) the first lookup
    -- after `NEED_FAST` reads an uninitialised table
    match needFast st.v st.w ws with
    | none => .halt .overread St.blank []
    | some (_, _, ws1) => .halt .ub St.blank ws1
  | some T =>
    match fastLoop T Gen.GROUP_SIZE st.v st.w ws st.run with
    | .next v w ws' rs => .top { st with v := v, w := w, run := rs, j := 0, g := st.g + 1, pc := .prefix } ws'
    | .eob v w ws' rs =>
      -- `rs->run = run; rs->runChar = runChar; goto eob;` (`shift` is not written back)
      ofStep (eobFinish { st with v := v, w := w, run := { rs with shift := st.run.shift } }) ws'
    | .stop r ws' => .halt r St.blank ws'

/-- How one call ends, before `bs->eof` is looked at. -/
inductive RunOut
  | halt (r : Halt) (st : St) (rest : List Nat)
  | susp (st : St)

structure Result where
  status : Status
  st : St
  rest : List Nat               -- words of the segment not consumed (`limit - next`)

/-- `for (rs->g = …; rs->g < rs->num_selectors; rs->g++)` entered at the loop
test with `n = num_selectors - g`.  `fast = false` is the retriever with the
fast branch removed (reference for `fast_eq_slow`). -/
def groups (fast : Bool) : Nat → St → List Nat → RunOut
  | 0, _, ws => .halt (.err Gen.ERR_UNTERM) St.blank ws
  | n + 1, st, ws =>
    match selectTree st with
    | .error e => .halt e St.blank ws
    | .ok st1 =>
      if fast ∧ Gen.fastWords ≤ ws.length then
        match fastGroup st1 ws with
        | .top st2 ws2 => groups fast n st2 ws2
        | .halt r st2 ws2 => .halt r st2 ws2
        | .susp st2 => .susp st2
      else
        match toTop { st1 with pc := .prefix, j := 0 } ws with
        | .top st2 ws2 => groups fast n st2 ws2
        | .halt r st2 ws2 => .halt r st2 ws2
        | .susp st2 => .susp st2

/-- One call, entered at the `NEED` site `st.pc`. -/
def run (fast : Bool) (st : St) (ws : List Nat) : RunOut :=
  match toTop st ws with
  | .halt r st' ws' => .halt r st' ws'
  | .susp st' => .susp st'
  | .top st' ws' => groups fast (st'.numSel - st'.g) st' ws'

/-- `SAVE(); if (bs->eof) return ERR_EOF; rs->state = (s); return MORE;` -/
def RunOut.result (eof : Bool) : RunOut → Result
  | .halt r st rest => ⟨r.toStatus, st, rest⟩
  | .susp st => ⟨if eof then .err Gen.ERR_EOF else .more, st, []⟩

/-- ONE call of `retrieve(ds, bs)` on the word segment `ws` (`bs->data ..
bs->limit`) with `bs->eof = eof`.  The `case (s):` entry of a resumed call:
`if (bs->data == bs->limit) { assert(bs->eof); return ERR_EOF; } RESTORE();
assert(w < 32u);`. -/
def retrieveWith (fast : Bool) (st : St) (ws : List Nat) (eof : Bool) : Result :=
  if st.pc = .init then (run fast st ws).result eof
  else if ws = [] then
    if eof then ⟨.err Gen.ERR_EOF, st, []⟩ else ⟨.assertFail, St.blank, []⟩
  else if 32 ≤ st.w then ⟨.assertFail, St.blank, ws⟩
  else (run fast st ws).result eof

def retrieve (st : St) (ws : List Nat) (eof : Bool) : Result := retrieveWith true st ws eof

/-- The retriever without its fast branch. -/
def retrieveSlow (st : St) (ws : List Nat) (eof : Bool) : Result := retrieveWith false st ws eof

def Result.addRest (r : Result) (ws : List Nat) : Result := { r with rest := r.rest ++ ws }

/-- Feed the segments one call at a time: `eof = false` for all but the last,
`eof = true` for the last; stop at the first status other than MORE (the words
not offered are appended to `rest`). -/
def retrieveAllWith (fast : Bool) : St → List (List Nat) → Result
  | st, [] => retrieveWith fast st [] true
  | st, [s] => retrieveWith fast st s true
  | st, s :: s2 :: segs =>
    let r := retrieveWith fast st s false
    match r.status with
    | .more => retrieveAllWith fast r.st (s2 :: segs)
    | _ => r.addRest (s2 :: segs).flatten

def retrieveAll (st : St) (segments : List (List Nat)) : Result := retrieveAllWith true st segments

end LbzVerif.Model.Retrieve
