/-
  Model.Collect — `collect()` of /repo/src/encode.c (lines 136–336) as an
  executable byte-step machine, `encoder_init`, and the "Finalize initial RLE"
  flush at the start of `encode()` (lines 443–447).

  The model follows the C control flow label by label, INCLUDING the fact that
  the code has two separate paths for the same job:
    * the in-call path  state0 / S1 (state1) / state2 / STATE 3 / STATE 4+,
      with the run kept in local variables (`last`, `ch`, `run`);
    * the resume path `finish_run`, entered when the previous call ended inside
      a run (`rle_state` 1…258), with its own copies of the capacity tests.
  That the two paths agree (so that buffer boundaries are invisible) is a
  THEOREM (`Props/C04.collect_split`), not a modelling decision.

  Correspondence of names (C → model):
    block[0 .. q-block)       q : List UInt8           (`*q++ = x` is `q ++ [x]`)
    qMax = block + mbs - 1    `cap - 1`   (encoder_init asserts mbs > 0)
    q >  qMax                 q.length > cap - 1
    q >= qMax                 q.length ≥ cap - 1
    p, pLim                   p : List UInt8  = the bytes of the buffer not yet fetched
    p == pLim                 p = []
    *p (look-ahead)           head of p, only inspected under `p < pLim`
    crc / save_crc            crc : UInt32   (the unget restores the saved value)
    s->rle_state              Rle.full = -1, Rle.idle = 0, Rle.run n c = n (1…258)
    s->rle_character          the `c` of `Rle.run n c`.  The C code reads
                              rle_character only under `rle_state != 0` (line 155)
                              and never in encode(); its value while rle_state ≤ 0
                              is dead and is not represented.
    *buf_sz on return         second component of `Res` (bytes left = pLim - p)
    s->cmap                   not stored: cmap[b] is set exactly when b is written
                              to the block (S1 for a run's first byte, lines 255/
                              271/294/308/446 for count bytes), so it is
                              `b ∈ block`; the harness check compares this.
  In STATE 2/3/4+ the C variables `ch` and `last` hold the same value; the model
  keeps one of them.
-/
import LbzVerif.Gen.Consts
import LbzVerif.Gen.CrcTab

namespace LbzVerif.Model

/-- `rle_state` (and `rle_character` where it is live). -/
inductive Rle where
  | full                          -- rle_state = -1
  | idle                          -- rle_state = 0
  | run (n : Nat) (c : UInt8)     -- rle_state = n ≥ 1, rle_character = c
  deriving DecidableEq, Repr

/-- The part of `struct encoder_state` that `collect` reads and writes. -/
structure CollectState where
  cap   : Nat            -- max_block_size
  block : List UInt8     -- block[0 .. nblock)
  rle   : Rle
  crc   : UInt32         -- block_crc
  deriving DecidableEq, Repr

/-- `s->nblock`. -/
def CollectState.nblock (s : CollectState) : Nat := s.block.length

/-- `s->rle_state` as the C integer. -/
def Rle.toInt : Rle → Int
  | .full => -1
  | .idle => 0
  | .run n _ => n

abbrev MAX_RUN_LENGTH : Nat := LbzVerif.Gen.MAX_RUN_LENGTH

def crcTab : Array UInt32 := (LbzVerif.Gen.crcTableList.map UInt32.ofNat).toArray

/-- `#define CRC(x) crc = (crc << 8) ^ crc_table[(crc >> 24) ^ (x)]` -/
def crcStep (crc : UInt32) (x : UInt8) : UInt32 :=
  (crc <<< 8) ^^^ crcTab.getD ((crc >>> 24) ^^^ x.toUInt32).toNat 0

/-- `encoder_init` (the fields `collect` uses). -/
def init (cap : Nat) : CollectState :=
  { cap := cap, block := [], rle := .idle, crc := 0xFFFFFFFF }

/-- State written back at `done:` and the number of input bytes left. -/
abbrev Res := CollectState × Nat

/-- `done:` — store nblock, block_crc; `*buf_sz -= p - inbuf`. -/
def done (cap : Nat) (q : List UInt8) (rle : Rle) (crc : UInt32) (p : List UInt8) : Res :=
  ({ cap := cap, block := q, rle := rle, crc := crc }, p.length)

/-- The look-ahead `p < pLim && *p == ch`. -/
def peekIs (p : List UInt8) (ch : UInt8) : Bool :=
  match p with
  | [] => false
  | x :: _ => x == ch

mutual
/-- label `state0:` (lines 160–171). -/
def state0 (cap : Nat) (q : List UInt8) (crc : UInt32) (p : List UInt8) : Res :=
  if q.length > cap - 1 then done cap q .full crc p
  else match p with
    | [] => done cap q .idle crc []
    | ch :: p => state1 cap ch q (crcStep crc ch) p
termination_by structural p

/-- macro `S1` (lines 173–189), entered with `ch` fetched and added to the CRC but
not yet stored; the four unrolled copies and `goto state1` are one loop. -/
def state1 (cap : Nat) (ch : UInt8) (q : List UInt8) (crc : UInt32) (p : List UInt8) : Res :=
  let q := q ++ [ch]
  if q.length > cap - 1 then done cap q .full crc p
  else match p with
    | [] => done cap q (.run 1 ch) crc []
    | x :: p =>
      let crc := crcStep crc x
      if x == ch then state2 cap x q crc p else state1 cap x q crc p
termination_by structural p

/-- label `state2:` (lines 199–214); `ch == last`. -/
def state2 (cap : Nat) (ch : UInt8) (q : List UInt8) (crc : UInt32) (p : List UInt8) : Res :=
  let q := q ++ [ch]
  if q.length > cap - 1 then done cap q .full crc p
  else match p with
    | [] => done cap q (.run 2 ch) crc []
    | x :: p =>
      let crc := crcStep crc x
      if x != ch then state1 cap x q crc p else state3 cap x q crc p
termination_by structural p

/-- `STATE 3` (lines 216–230); `ch == last`. -/
def state3 (cap : Nat) (ch : UInt8) (q : List UInt8) (crc : UInt32) (p : List UInt8) : Res :=
  let q := q ++ [ch]
  if q.length ≥ cap - 1 ∧ (q.length > cap - 1 ∨ peekIs p ch) then done cap q .full crc p
  else match p with
    | [] => done cap q (.run 3 ch) crc []
    | x :: p =>
      let crc := crcStep crc x
      if x != ch then state1 cap x q crc p
      else
        -- STATE 4+ : `*q++ = ch;` then the `for (run = 4; …)` loop
        state4 cap x 4 (q ++ [x]) crc p
termination_by structural p

/-- head of one iteration of `for (run = 4; run < MAX_RUN_LENGTH; run++)`
(lines 238–272) with the current value of `run`; `ch == last`. -/
def state4 (cap : Nat) (ch : UInt8) (run : Nat) (q : List UInt8) (crc : UInt32)
    (p : List UInt8) : Res :=
  match p with
  | [] => done cap q (.run run ch) crc []
  | x :: p' =>
    let saveCrc := crc
    let crc := crcStep crc x
    if x != ch then
      let q := q ++ [UInt8.ofNat (run - 4)]
      if q.length ≤ cap - 1 then state1 cap x q crc p'
      else
        -- unget: `p--; crc = save_crc; s->rle_state = -1;`
        done cap q .full saveCrc (x :: p')
    else if run + 1 < MAX_RUN_LENGTH then state4 cap ch (run + 1) q crc p'
    else state0 cap (q ++ [UInt8.ofNat (MAX_RUN_LENGTH - 4)]) crc p'
termination_by structural p
end

/-- the `while (p < pLim)` loop of `finish_run` for `rle_state >= 4`
(lines 289–314); `r` is the current `s->rle_state`. -/
def finishLong (cap : Nat) (ch : UInt8) (r : Nat) (q : List UInt8) (crc : UInt32)
    (p : List UInt8) : Res :=
  match p with
  | [] => done cap q (.run r ch) crc []
  | x :: p' =>
    if x != ch then state0 cap (q ++ [UInt8.ofNat (r - 4)]) crc (x :: p')
    else
      let crc := crcStep crc ch
      if r + 1 == MAX_RUN_LENGTH then
        state0 cap (q ++ [UInt8.ofNat (MAX_RUN_LENGTH - 4)]) crc p'
      else finishLong cap ch (r + 1) q crc p'

/-- label `finish_run:` (lines 274–329); `r` is the current `s->rle_state`
(≥ 1), `ch = s->rle_character`. -/
def finishRun (cap : Nat) (ch : UInt8) (r : Nat) (q : List UInt8) (crc : UInt32)
    (p : List UInt8) : Res :=
  if q.length ≥ cap - 1 ∧ (q.length > cap - 1 ∨ (r == 3 ∧ peekIs p ch)) then
    done cap q .full crc p
  else match p with
    | [] => done cap q (.run r ch) crc []
    | x :: p' =>
      if r ≥ 4 then finishLong cap ch r q crc (x :: p')
      else if x != ch then state0 cap q crc (x :: p')
      else finishRun cap ch (r + 1) (q ++ [ch]) (crcStep crc ch) p'

/-- One call `collect(s, buf, &buf_sz)`: new state, number of bytes consumed
(`buf.length - *buf_sz`), and the return value `s->rle_state < 0`.

The C function asserts `0 <= rle_state < MAX_RUN_LENGTH` on entry, i.e. it must
not be called again after it has returned "full" (compress.c never does).  The
model is total: on a full state it consumes nothing and reports full again. -/
def collect (s : CollectState) (buf : List UInt8) : CollectState × Nat × Bool :=
  match s.rle with
  | .full => (s, 0, true)
  | .idle =>
    let r := state0 s.cap s.block s.crc buf
    (r.1, buf.length - r.2, r.1.rle == .full)
  | .run n c =>
    let r := finishRun s.cap c n s.block s.crc buf
    (r.1, buf.length - r.2, r.1.rle == .full)

/-- The callers' loop (do_collect_seq): hand over successive buffers, stop at the
first call that returns "full".  Result: state, total bytes consumed, full. -/
def collectMany (s : CollectState) : List (List UInt8) → CollectState × Nat × Bool
  | [] => (s, 0, s.rle == .full)
  | b :: bs =>
    let r := collect s b
    if r.2.2 then r
    else
      let r' := collectMany r.1 bs
      (r'.1, r.2.1 + r'.2.1, r'.2.2)

/-- "Finalize initial RLE" at the start of `encode()`: the block that is sorted. -/
def finish (s : CollectState) : List UInt8 :=
  match s.rle with
  | .run n _ => if n ≥ 4 then s.block ++ [UInt8.ofNat (n - 4)] else s.block
  | _ => s.block

/-- CRC of a byte string continued from `crc` (what `block_crc` accumulates). -/
def crcFold (crc : UInt32) (xs : List UInt8) : UInt32 := xs.foldl crcStep crc

end LbzVerif.Model
