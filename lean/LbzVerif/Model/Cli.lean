/-
  Model of lbzip2's command line handling: src/main.c `opts_setup`,
  `opts_outmode`, `opts_decompress`, `xstrtol`, and the `small = 0` of `main`.

  The option tables, environment variable names, separator characters and the
  program names are NOT written here: they are `LbzVerif.Gen.longOpts`,
  `shortOpts`, `evNames`, `envSep`, `decompressNames`, `catNames`, regenerated
  from main.c on every run.  This file only says how the tables are
  interpreted.

  Structure (exactly the two passes the C code makes over one linked list):

    argList  : the homogeneous argument list  env tokens ++ argv[1..]
    flatten  : the left-to-right scan of that list into a sequence of events
               (operand kept / one option action / option argument / error);
               the scan never looks at the option *values* (`decompress`,
               `outmode` ...), only at the text, so it is a function of the
               token list alone
    interp   : the effect of the events on the option variables, in order,
               stopping at the first fatal error / -h / -V

  Strings are handled as `List Char` (`Tok`); `parse` is the `String` face.
  Assumption: arguments are valid UTF-8 (the C code works on bytes; every
  comparison it makes is against ASCII characters, so a multi-byte character
  behaves like "some unknown character" in both).
-/
import LbzVerif.Gen.Cli

namespace LbzVerif.Model.Cli
open LbzVerif.Gen

abbrev Tok := List Char

/-- `enum outmode` -/
inductive OutMode where
  | stdout | discard | regf
  deriving DecidableEq, Repr, Inhabited

/-- The option variables of main.c (file-scope statics) with their static
initialisers.  `numWorker`/`maxMem`: `none` = 0 = "not given". -/
structure Config where
  decompress : Bool := false
  outmode : OutMode := .regf
  bs100k : Nat := 9
  force : Bool := false
  keep : Bool := false
  small : Bool := false
  ultra : Bool := false
  verbose : Bool := false
  cctrs : Bool := false
  numWorker : Option Nat := none
  maxMem : Option Nat := none
  deriving DecidableEq, Repr, Inhabited

/-- What the process does after option processing. -/
inductive OutcomeL where
  | help | version | fatal
  | config (c : Config) (operands : List Tok)
  deriving DecidableEq, Repr, Inhabited

inductive Outcome where
  | help | version | fatal
  | config (c : Config) (operands : List String)
  deriving DecidableEq, Repr, Inhabited

/-! ### Environment tokenisation: `strtok(ev_val, envsep)` -/

/-- `strtok` loop: maximal runs of non-separator characters; `cur` is the
token being collected, reversed. -/
def tokAux (seps : List Char) : List Char → List Char → List Tok
  | [], cur => if cur.isEmpty then [] else [cur.reverse]
  | ch :: cs, cur =>
    if seps.contains ch then
      if cur.isEmpty then tokAux seps cs [] else cur.reverse :: tokAux seps cs []
    else tokAux seps cs (ch :: cur)

def tokensL (s : List Char) : List Tok := tokAux envSep s []

def tokens (s : String) : List String := (tokensL s.toList).map String.ofList

/-- tokens contributed by the environment, in `ev_name[]` order -/
def envToks (env : String → Option String) : List Tok :=
  evNames.flatMap fun n => match env n with
    | none => []
    | some v => tokensL v.toList

/-- the homogeneous argument list of `opts_setup` (`argv` = argv[1..]) -/
def argList (env : String → Option String) (argv : List Tok) : List Tok :=
  envToks env ++ argv

/-! ### `xstrtol` -/

def isSpace (c : Char) : Bool := c = ' ' || (9 ≤ c.toNat && c.toNat ≤ 13)
def isDigit (c : Char) : Bool := 48 ≤ c.toNat && c.toNat ≤ 57

def digitsVal (ds : List Char) : Nat := ds.foldl (fun a d => 10 * a + (d.toNat - 48)) 0

/-- "EePpTtGgMmKk" -/
def sizeSuffixes : List Char := ['E','e','P','p','T','t','G','g','M','m','K','k']

def uintmaxMax : Nat := 2 ^ 64 - 1
def longMax : Nat := 2 ^ 63 - 1
/-- `SIZE_MAX` (LP64) -/
def sizeMax : Nat := 2 ^ 64 - 1
/-- `mx_worker` = min(sysconf(_SC_THREAD_THREADS_MAX) [= -1 on glibc, i.e.
UINTMAX_MAX], UINT_MAX, SIZE_MAX / sizeof(pthread_t)) = UINT_MAX on the
platform the checks run on (the campaign probes the boundary). -/
def mxWorker : Nat := 2 ^ 32 - 1

/-- `xstrtol(str, _, lower, upper)`; `none` = `fail(...)`.
`strtol(str, &end, 10)`: white space, optional sign, digits.  Without digits
no conversion is performed: value 0 and `end = str`. -/
def xstrtol (s : Tok) (lower upper : Nat) : Option Nat :=
  if s.isEmpty then none else
  let s1 := s.dropWhile isSpace
  let neg := s1.head? == some '-'
  let s2 := if s1.head? == some '-' || s1.head? == some '+' then s1.drop 1 else s1
  let ds := s2.takeWhile isDigit
  let mag := digitsVal ds
  let rest := if ds.isEmpty then s else s2.dropWhile isDigit
  -- errno == ERANGE  ||  tmp < 0
  if (!neg && mag > longMax) || (neg && mag > 0) then none else
  -- endptr[0] != 0 && endptr[1] != 0
  if rest.length ≥ 2 then none else
  -- strchr(suffix, *endptr): index of the suffix letter, 12 = the terminator
  let idx? : Option Nat := match rest with
    | [] => some 12
    | ch :: _ => let i := sizeSuffixes.idxOf ch
                 if i < 12 then some i else none
  match idx? with
  | none => none
  | some i =>
    let shift := (12 - i + 1) / 2 * 10
    if mag > uintmaxMax >>> shift then none else
    let val := mag <<< shift
    if val < lower || val > upper then none else some val

/-! ### The option actions -/

/-- Effect of one option action that takes no argument and does not end
processing.  `none` = `fail(...)`.  `ch` is the option letter (only used by
`bs100k = opt - '0'`).  `opts_outmode` / `opts_decompress` are reproduced
here (the translator checks their bodies verbatim). -/
def applyAct (a : OptAct) (ch : Char) (c : Config) : Option Config :=
  match a with
  | .outmodeC => if c.outmode = .discard then none else some { c with outmode := .stdout }
  | .outmodeT => if c.outmode = .stdout then none
                 else some { c with outmode := .discard, decompress := true }
  | .decompressD => some { c with decompress := true,
                                  outmode := if c.outmode = .discard then .regf else c.outmode }
  | .decompressZ => some { c with decompress := false,
                                  outmode := if c.outmode = .discard then .regf else c.outmode }
  | .level n => some { c with bs100k := n }
  | .levelDigit => some { c with bs100k := ch.toNat - 48 }
  | .force => some { c with force := true }
  | .keep => some { c with keep := true }
  | .small => some { c with small := true }
  | .ultra => some { c with ultra := true }
  | .verbose => some { c with verbose := true }
  | .cctrs => some { c with cctrs := true }
  | .nop => some c
  -- not reachable through `interp` (handled there); total for completeness
  | .usage | .version | .argN | .argM => none

/-! ### The scan of the argument list -/

inductive Ev where
  | operand (t : Tok)                 -- argument kept on the list
  | act (a : OptAct) (ch : Char)      -- one option (long, or one letter of a cluster)
  | setN (s : Tok)                    -- `-n` with its argument text
  | setM (s : Tok)                    -- `-m` with its argument text
  | bad                               -- unknown option / missing option argument
  deriving DecidableEq, Repr, Inhabited

def longOptsL : List (Tok × OptAct) := longOpts.map fun p => (p.1.toList, p.2)

/-- The `do … while (cont)` loop over one cluster of short options (text
after the leading `-`).  Second component: `some isN` when the cluster ended
in `-n`/`-m` with nothing after the letter, so that the next list element is
the option argument. -/
def cluster : List Char → List Ev × Option Bool
  | [] => ([], none)
  | ch :: cs =>
    match shortOpts.lookup ch with
    | none => ([.bad], none)                       -- `default: fail(...)`
    | some a =>
      if a = .usage ∨ a = .version then ([.act a ch], none)     -- `cont = 0`
      else if a = .argN then (if cs.isEmpty then ([], some true) else ([.setN cs], none))
      else if a = .argM then (if cs.isEmpty then ([], some false) else ([.setM cs], none))
      else let r := cluster cs; (.act a ch :: r.1, r.2)

/-- one long option (text after `--`, non-empty) -/
def longEv (name : Tok) : Ev :=
  match longOptsL.lookup name with
  | none => .bad
  | some a => .act a '0'

/-- How the arguments loop looks at one list element. -/
inductive ArgKind where
  | operand                       -- `'-' != *argscan`: kept
  | stop                          -- exactly `--`
  | long (name : Tok)             -- `--name`, name non-empty
  | short (cs : List Char)        -- `-cs` (cs may be empty: the argument `-`)
  deriving DecidableEq, Repr

def argKind : Tok → ArgKind
  | [] => .operand
  | c0 :: t =>
    if c0 ≠ '-' then .operand
    else match t with
      | [] => .short []
      | c1 :: t' =>
        if c1 = '-' then (if t'.isEmpty then .stop else .long t')
        else .short (c1 :: t')

/-- The arguments loop of `opts_setup`. -/
def flatten : List Tok → List Ev
  | [] => []
  | a :: rest =>
    match argKind a with
    | .operand => .operand a :: flatten rest
    | .stop => rest.map .operand                     -- AS_STOP
    | .long name => longEv name :: flatten rest
    | .short cs =>
      match cluster cs with
      | (es, none) => es ++ flatten rest
      | (es, some isN) =>
        match rest with
        | [] => es ++ [.bad]                          -- "requires an argument"
        | v :: rest' => es ++ (if isN then Ev.setN v else Ev.setM v) :: flatten rest'

def consOp (t : Tok) : OutcomeL → OutcomeL
  | .config c ops => .config c (t :: ops)
  | o => o

/-- The effect of the scanned events, in order. -/
def interp (c : Config) : List Ev → OutcomeL
  | [] => .config c []
  | .operand t :: es => consOp t (interp c es)
  | .bad :: _ => .fatal
  | .setN s :: es =>
    match xstrtol s 1 mxWorker with
    | none => .fatal
    | some v => interp { c with numWorker := some v } es
  | .setM s :: es =>
    match xstrtol s 1 sizeMax with
    | none => .fatal
    | some v => interp { c with maxMem := some v } es
  | .act a ch :: es =>
    if a = .usage then .help
    else if a = .version then .version
    else match applyAct a ch c with
         | none => .fatal
         | some c' => interp c' es

/-- "Effectuate option defaults": the invocation name. -/
def initial (pname : String) : Config :=
  if decompressNames.contains pname then { decompress := true }
  else if catNames.contains pname then { decompress := true, outmode := .stdout }
  else {}

/-- "Finalize options" (without the terminal checks, see `ttyFatal`). -/
def finalize : OutcomeL → OutcomeL
  | .config c ops =>
    .config (if c.outmode = .regf ∧ ops.isEmpty then { c with outmode := .stdout } else c) ops
  | o => o

/-- The two `isatty` refusals of "Finalize options" (applied to a finalized
configuration). -/
def ttyFatal (stdinTty stdoutTty : Bool) (c : Config) (ops : List Tok) : Bool :=
  if c.decompress then ops.isEmpty && stdinTty
  else c.outmode = .stdout && stdoutTty

/-- `opts_setup` on the homogeneous list, with no terminal attached. -/
def optsSetupL (pname : String) (args : List Tok) : OutcomeL :=
  finalize (interp (initial pname) (flatten args))

/-- `small = 0;` in `main` (present iff `Gen.smallForcedOff`). -/
def mainView : OutcomeL → OutcomeL
  | .config c ops => .config (if smallForcedOff then { c with small := false } else c) ops
  | o => o

/-- What `main` works with, for the homogeneous list `args`. -/
def parseL (pname : String) (args : List Tok) : OutcomeL :=
  mainView (optsSetupL pname args)

def OutcomeL.toOutcome : OutcomeL → Outcome
  | .help => .help
  | .version => .version
  | .fatal => .fatal
  | .config c ops => .config c (ops.map String.ofList)

/-- `pname` as `main` computes it from argv[0]. -/
def basenameL (s : List Char) : List Char :=
  (s.splitOn '/').getLast?.getD s

def basename (s : String) : String := String.ofList (basenameL s.toList)

/-- The whole of option processing as seen by `main`: `pname` is the
basename of argv[0], `env` the environment, `argv` = argv[1..]. -/
def parse (pname : String) (env : String → Option String) (argv : List String) : Outcome :=
  (parseL pname (argList env (argv.map String.toList))).toOutcome

/-- With terminals: the `isatty` checks turn a configuration into `fatal`. -/
def parseTty (stdinTty stdoutTty : Bool) (pname : String) (env : String → Option String)
    (argv : List String) : Outcome :=
  match parseL pname (argList env (argv.map String.toList)) with
  | .config c ops => if ttyFatal stdinTty stdoutTty c ops then .fatal
                     else (OutcomeL.config c ops).toOutcome
  | o => o.toOutcome

end LbzVerif.Model.Cli
