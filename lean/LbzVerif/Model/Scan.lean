/-
  Model.Scan — executable model of `scan(bs, skip)` in src/parse.c (lines
  281-342) together with the bit macros `bits_need`, `bits_peek`, `bits_dump`,
  `bits_consume` at the top of that file.  The two automata come from
  `LbzVerif.Gen.ScanTab` (regenerated from src/scantab.h on every run).

  The model reproduces what the code does, including
    * `skip` is IGNORED when `skip ≤ live` (the `if` has no else branch),
    * when `skip > live` the remainder is rounded up to whole 32-bit words in
      `unsigned` arithmetic (`(skip + 31u) / 32u` may wrap) and clamped at the
      end of the block,
    * the word loop backs up one word and re-scans it bit by bit on ACCEPT.
-/
import LbzVerif.Gen.ScanTab
import LbzVerif.Spec.Scan

namespace LbzVerif.Model.Scan

open LbzVerif

/-- `struct bitstream` as far as `scan` uses it.  `buff` is the 64-bit
accumulator whose top `live` bits are meaningful; `data` is the index of the
next word in `words`; `limit = words.length`.  `words` holds the values
`ntohl(*p)` of the 32-bit words of ONE input block. -/
structure BS where
  live : Nat
  buff : Nat
  data : Nat
  words : List Nat
  deriving Repr, DecidableEq

/-- Return codes of `scan`. -/
inductive Res
  | ok
  | more
  deriving Repr, DecidableEq

/-- `ACCEPT`. -/
def accept : Nat := Gen.accept

/-- `mini_dfa[s][b]`. -/
def mini (s : Nat) (b : Bool) : Nat :=
  let p := Gen.miniDfa.getD s (0, 0)
  if b then p.2 else p.1

/-- `big_dfa[s][c]`. -/
def big (s c : Nat) : Nat := (Gen.bigRows.getD s 0 >>> (6 * c)) &&& 63

/-- One `mini_dfa` step that stays in `ACCEPT` once there (how the generator
script describes the automaton; the C bit loop never steps from `ACCEPT`). -/
def miniAbs (s : Nat) (b : Bool) : Nat := if s = accept then accept else mini s b

/-- `bits_dump(bs, n)`: `buff <<= n` on a `uint64_t`, `live -= n`. -/
def dump (bs : BS) (n : Nat) : BS :=
  { bs with buff := (bs.buff <<< n) % 2 ^ 64, live := bs.live - n }

/-- `bits_need(bs, n) == OK`, with the side effect on `bs` (at most one word
is loaded).  `eof` only selects between `MORE` and `FINISH`, both "not OK". -/
def need (bs : BS) (n : Nat) : Bool × BS :=
  if n ≤ bs.live then (true, bs)
  else if bs.data = bs.words.length then (false, bs)
  else
    (true, { bs with
      buff := bs.buff ||| (bs.words.getD bs.data 0 <<< (32 - bs.live))
      data := bs.data + 1
      live := bs.live + 32 })

/-- `bits_consume(bs)`. -/
def consume (bs : BS) : BS :=
  { dump bs bs.live with data := bs.words.length }

/-- The `if (skip > bs->live) { ... }` prologue. -/
def skipPhase (bs : BS) (skip : Nat) : BS :=
  if skip > bs.live then
    let skip1 := skip - bs.live
    let bs1 := dump bs bs.live
    let skip2 := ((skip1 + 31) % 2 ^ 32) / 32
    if bs1.words.length - bs1.data < skip2 then
      { bs1 with data := bs1.words.length }
    else
      { bs1 with data := bs1.data + skip2 }
  else bs

/-- The `while (bs->live > 0)` loop; the first argument counts `bs.live` down
(callers pass `bs.live`).  `.inl` = `scan` returned, `.inr` = fell through
with the automaton state. -/
def bitLoop : Nat → Nat → BS → Sum (Res × BS) (Nat × BS)
  | 0, st, bs => .inr (st, bs)
  | n + 1, st, bs =>
    let bit := bs.buff >>> 63
    let bs1 := dump bs 1
    let st1 := mini st (bit != 0)
    if st1 = accept then
      let (okb, bs2) := need bs1 32
      if okb then .inl (.ok, dump bs2 32) else .inl (.more, consume bs2)
    else bitLoop n st1 bs1

/-- The four `big_dfa` lookups for one word. -/
def wordStep (st w : Nat) : Nat :=
  let s1 := big st (w >>> 24)
  let s2 := big s1 ((w >>> 16) % 256)
  let s3 := big s2 ((w >>> 8) % 256)
  big s3 (w % 256)

/-- The `while (data < limit)` loop over the remaining words.  `.inl data` =
limit reached; `.inr (bt_state, data)` = ACCEPT inside the word at `data`. -/
def wordLoop (st data : Nat) : List Nat → Sum Nat (Nat × Nat)
  | [] => .inl data
  | w :: ws =>
    let st1 := wordStep st w
    if st1 = accept then .inr (st, data) else wordLoop st1 (data + 1) ws

/-- Everything from the label `again:`.  The first argument is fuel; one unit
is used per `goto again`, each of which advances `data` by one word, so
`limit - data + 1` suffices (`scan_correct` shows the fuel never runs out:
running out would return `MORE` without consuming the block). -/
def again : Nat → Nat → BS → Res × BS
  | 0, _, bs => (.more, bs)
  | f + 1, st, bs =>
    match bitLoop bs.live st bs with
    | .inl r => r
    | .inr (st1, bs1) =>
      match wordLoop st1 bs1.data (bs1.words.drop bs1.data) with
      | .inl data => (.more, { bs1 with data := data })
      | .inr (bt, data) => again f bt (need { bs1 with data := data } 1).2

/-- `scan(bs, skip)`. -/
def scan (bs : BS) (skip : Nat) : Res × BS :=
  let bs1 := skipPhase bs skip
  again (bs1.words.length - bs1.data + 1) 0 bs1

/-! ### What a `BS` stands for -/

/-- The bits still to be read: the top `live` bits of `buff`, then the words
from `data` on. -/
def rem (bs : BS) : List Bool :=
  (Spec.Scan.bitsMSB 64 bs.buff).take bs.live ++
    (bs.words.drop bs.data).flatMap (Spec.Scan.bitsMSB 32)

/-- Well-formed stream state: what the rest of lbzip2 maintains. -/
def Consistent (bs : BS) : Prop :=
  bs.live ≤ 63 ∧ bs.buff < 2 ^ 64 ∧ bs.buff % 2 ^ (64 - bs.live) = 0 ∧
    bs.data ≤ bs.words.length ∧ ∀ w ∈ bs.words, w < 2 ^ 32

/-- Bit offset (from the current position) at which `scan` really starts
looking, exactly as the code computes it. -/
def effStart (bs : BS) (skip : Nat) : Nat :=
  if skip > bs.live then
    bs.live + 32 * min (((skip - bs.live + 31) % 2 ^ 32) / 32)
      (bs.words.length - bs.data)
  else 0

end LbzVerif.Model.Scan
