/-
  Model.Fail — what lbzip2 does when a read()/write() fails (property C21),
  plus the few basic notions (errno values, signal numbers, ways a process can
  end, the fatal-message suppression rule) that `Model.Files` (C16) shares.

  C code modelled (read line by line):
    * src/process.c  `xread` / `xwrite`  : a call returning -1 runs
        `failfx(&spec, errno, "read()"/"write()")` and NEVER returns;
    * src/main.c  the `DEF` macro, fatal variants (`bail = 1`):
        flockfile(stderr);
        if (EPIPE != x && EFBIG != x) log_generic(...);     -- message
        bailout();                                          -- lock NOT released
    * src/signals.c  `bailout`:
        main thread : cleanup(); unblock SIGPIPE,SIGXFSZ; _exit(1)
        sub-thread  : promote()  -- kill(pid, s) for s ∈ {SIGPIPE,SIGXFSZ}
                                    pending on this thread or the process
                      xraise(SIGUSR1); pthread_exit(NULL)
    * src/signals.c  `halt`: sigsuspend(&saved); SIGUSR1 → bailout() (main),
        SIGUSR2 → return (success);
    * src/process.c  `primary_thread` raises SIGUSR2 after it joined the
        workers and `uninit_io()` joined reader and writer; in `-cdf` copy mode
        `copy_terminate` raises it when `eof && out_slots == total_out_slots`
        (every buffer read has been written).
    * kernel: a write() failing with EPIPE / EFBIG generates SIGPIPE / SIGXFSZ
        for the CALLING THREAD; both are blocked in every thread since
        `setup_signals`; a signal whose disposition is SIG_IGN is discarded on
        generation.  Several handled signals pending when `sigsuspend` wakes
        are all delivered before it returns; `caught_index` keeps the one
        whose handler ran last — Linux dequeues the lowest number first and
        runs its handler last, so SIGUSR1 (10) wins over SIGUSR2 (12).

  Threads: main, P (primary thread = worker 0; stands for all workers: a
  worker fails the same way, e.g. `failf` on corrupt data), R (reader /
  source thread), W (writer / sink thread).  Each sub-thread has a *script*:
  the list of read()/write() calls it will make, each with the result the
  environment gives it (`none` = success, `some e` = returns -1, errno e).
  The theorems quantify over all scripts, i.e. over every position and errno
  of every failing call, and over all interleavings (`step` takes the thread
  to run next as an argument).

  ABSTRACTION (stated, not proved here): P raises SIGUSR2 only when R and W
  have completed their scripts.  In the code this is `process->finished()`
  plus the joins: a block counts as written only in `on_written`, which runs
  after `xwrite` RETURNED — and xwrite does not return on failure.  The
  scheduler models (C11) carry that accounting; here it is the guard of P's
  last step.  Copy mode (`-cdf` on non-bzip2 input) has no P in the code;
  P with an empty script plays `copy_terminate`.
-/

namespace LbzVerif.Model.Fail

/-! ### Shared basics -/

abbrev Errno := Nat
def EPERM : Errno := 1
def ENOENT : Errno := 2
def EIO : Errno := 5
def EACCES : Errno := 13
def EEXIST : Errno := 17
def EFBIG : Errno := 27
def ENOSPC : Errno := 28
def EPIPE : Errno := 32

abbrev Signo := Nat
def SIGINT : Signo := 2
def SIGKILL : Signo := 9
def SIGUSR1 : Signo := 10
def SIGUSR2 : Signo := 12
def SIGPIPE : Signo := 13
def SIGTERM : Signo := 15
def SIGXFSZ : Signo := 25

/-- How the process ends. -/
inductive Ending
  | exit (status : Nat)
  | died (sig : Signo)
  deriving DecidableEq, Repr, Inhabited

/-- main.c `DEF`, fatal variants: no message when the errno is EPIPE or EFBIG. -/
def silent (e : Errno) : Bool := e == EPIPE || e == EFBIG

/-- Inherited dispositions of the two blocked signals (`true` = SIG_DFL,
`false` = SIG_IGN inherited through exec). -/
structure Disp where
  pipeDfl : Bool
  xfszDfl : Bool
  deriving DecidableEq, Repr

inductive RW
  | read
  | write
  deriving DecidableEq, Repr

/-- Kernel: the signal generated for the thread whose `write` fails with `e`
(`none` for a read, for other errnos, or when the disposition is SIG_IGN). -/
def genSignal (d : Disp) (rw : RW) (e : Errno) : Option Signo :=
  match rw with
  | .read => none
  | .write =>
    if e == EPIPE then (if d.pipeDfl then some SIGPIPE else none)
    else if e == EFBIG then (if d.xfszDfl then some SIGXFSZ else none)
    else none

/-- signals.c `bailout()`, main-thread branch, after `cleanup()`:
`xmask(SIG_UNBLOCK, &blocked)` delivers a pending SIGPIPE (13) before a
pending SIGXFSZ (25); with neither pending `_exit(EX_FAIL)`. -/
def mainBailoutEnd (pendPipe pendXfsz : Bool) : Ending :=
  if pendPipe then .died SIGPIPE
  else if pendXfsz then .died SIGXFSZ
  else .exit 1

/-! ### Threads -/

/-- One read()/write() call and the result the environment gives it. -/
structure Io where
  rw : RW
  err : Option Errno
  deriving DecidableEq, Repr

/-- A sub-thread.  The constructors after `run` are the consecutive program
points of `failfx` + `bailout` (sub-thread branch). -/
inductive Sub
  | run (script : List Io)
  /-- the call returned -1 with errno `e`; `sig` is pending on this thread;
      next: `flockfile(stderr)` -/
  | failed (e : Errno) (sig : Option Signo)
  /-- holds the stderr lock; next: `log_generic` unless `silent e` -/
  | locked (e : Errno) (sig : Option Signo)
  /-- next: `promote()` -/
  | logged (sig : Option Signo)
  /-- next: `xraise(SIGUSR1)` -/
  | promoted
  /-- next: `pthread_exit` -/
  | raised
  | exited
  /-- script completed, thread function returned -/
  | finished
  deriving DecidableEq, Repr

inductive Main
  /-- I/O the main thread does itself before `halt()` (decompression: the
      4-byte header `xread`; copy: the header `xwrite`) -/
  | pre (script : List Io)
  /-- in `sigsuspend` -/
  | susp
  /-- `halt` returned through SIGUSR2; next `sti()`, `_exit(EX_OK)` -/
  | post
  | done (e : Ending)
  deriving DecidableEq, Repr

structure St where
  main : Main
  p : Sub
  r : Sub
  w : Sub
  /-- stderr's FILE lock is held (a bailing thread never releases it) -/
  lock : Bool
  /-- process-pending SIGUSR1 / SIGUSR2 -/
  usr1 : Bool
  usr2 : Bool
  /-- process-pending SIGPIPE / SIGXFSZ (blocked in every thread) -/
  pipe : Bool
  xfsz : Bool
  /-- something has been written to stderr -/
  stderr : Bool
  /-- ghost: some write() has returned -1 -/
  wfail : Bool
  deriving DecidableEq, Repr

inductive Thr
  | main
  | p
  | r
  | w
  deriving DecidableEq, Repr

inductive Tid
  | p
  | r
  | w
  deriving DecidableEq, Repr

def St.get (s : St) : Tid → Sub
  | .p => s.p
  | .r => s.r
  | .w => s.w

def St.set (s : St) (t : Tid) (x : Sub) : St :=
  match t with
  | .p => { s with p := x }
  | .r => { s with r := x }
  | .w => { s with w := x }

def init (ms ps rs ws : List Io) : St :=
  { main := .pre ms, p := .run ps, r := .run rs, w := .run ws,
    lock := false, usr1 := false, usr2 := false, pipe := false, xfsz := false,
    stderr := false, wfail := false }

/-- Sub-threads exist while main is in `halt` (or has just returned from it). -/
def St.subsAlive (s : St) : Bool :=
  match s.main with
  | .susp => true
  | .post => true
  | _ => false

/-- One step of sub-thread `t`; `none` = not enabled (blocked or gone). -/
def stepSub (d : Disp) (s : St) (t : Tid) : Option St :=
  if !s.subsAlive then none else
  match s.get t with
  | .run (io :: l) =>
    match io.err with
    | none => some (s.set t (.run l))
    | some e =>
      some { s.set t (.failed e (genSignal d io.rw e)) with
             wfail := s.wfail || (io.rw == .write) }
  | .run [] =>
    match t with
    | .p =>
      -- process->finished() / joins: only when reader and writer completed
      if s.r == .finished && s.w == .finished then
        some { s with p := .finished, usr2 := true }      -- xraise(SIGUSR2)
      else none
    | _ => some (s.set t .finished)
  | .failed e sig =>
    if s.lock then none                                   -- flockfile blocks
    else some { s.set t (.locked e sig) with lock := true }
  | .locked e sig =>
    some { s.set t (.logged sig) with stderr := s.stderr || !silent e }
  | .logged sig =>
    -- promote(): kill(pid, s) for each of SIGPIPE, SIGXFSZ pending here
    some { s.set t .promoted with
           pipe := s.pipe || (sig == some SIGPIPE),
           xfsz := s.xfsz || (sig == some SIGXFSZ) }
  | .promoted => some { s.set t .raised with usr1 := true }
  | .raised => some (s.set t .exited)
  | .exited => none
  | .finished => none

/-- One step of the main thread. -/
def stepMain (d : Disp) (s : St) : Option St :=
  match s.main with
  | .pre (io :: l) =>
    match io.err with
    | none => some { s with main := .pre l }
    | some e =>
      -- failfx on the main thread: message unless silent, then bailout():
      -- cleanup(); unblock; the signal generated for THIS thread is pending
      let sig := genSignal d io.rw e
      some { s with
             stderr := s.stderr || !silent e,
             wfail := s.wfail || (io.rw == .write),
             main := .done (mainBailoutEnd (s.pipe || (sig == some SIGPIPE))
                                           (s.xfsz || (sig == some SIGXFSZ))) }
  | .pre [] => some { s with main := .susp }
  | .susp =>
    if s.usr1 then some { s with main := .done (mainBailoutEnd s.pipe s.xfsz) }
    else if s.usr2 then some { s with main := .post, usr2 := false }
    else none
  | .post =>
    -- sti(): SIG_DFL for the handled signals, then unblock
    if s.usr1 then some { s with main := .done (.died SIGUSR1) }
    else some { s with main := .done (.exit 0) }
  | .done _ => none

def step (d : Disp) (s : St) : Thr → Option St
  | .main => stepMain d s
  | .p => stepSub d s .p
  | .r => stepSub d s .r
  | .w => stepSub d s .w

def St.final (s : St) : Bool :=
  match s.main with
  | .done _ => true
  | _ => false

/-- A sub-thread that has had a failing call. -/
def Sub.bad : Sub → Bool
  | .run _ => false
  | .finished => false
  | _ => true

/-- States reachable from `s0` under any interleaving. -/
inductive Reach (d : Disp) (s0 : St) : St → Prop
  | init : Reach d s0 s0
  | step {s s' : St} (t : Thr) : Reach d s0 s → step d s t = some s' → Reach d s0 s'

/-- A run: the list of threads scheduled, each step enabled. -/
inductive Run (d : Disp) : St → List Thr → St → Prop
  | nil (s : St) : Run d s [] s
  | cons {s s' s'' : St} {ts : List Thr} (t : Thr) :
      step d s t = some s' → Run d s' ts s'' → Run d s (t :: ts) s''

def Sub.weight : Sub → Nat
  | .run l => 7 * l.length + 1
  | .failed _ _ => 6
  | .locked _ _ => 5
  | .logged _ => 4
  | .promoted => 3
  | .raised => 2
  | .exited => 0
  | .finished => 0

def Main.weight : Main → Nat
  | .pre l => l.length + 3
  | .susp => 2
  | .post => 1
  | .done _ => 0

/-- Termination measure. -/
def St.weight (s : St) : Nat :=
  s.main.weight + s.p.weight + s.r.weight + s.w.weight

/-! ### Executable exploration (used by the driver) -/

def allThr : List Thr := [.main, .p, .r, .w]

/-- All final states' (ending, stderr non-empty) reachable from the states in
`front`, by exhaustive interleaving; `fuel` bounds the depth (the weight of
the initial state is enough). -/
def explore (d : Disp) : Nat → List St → List (Ending × Bool) → List (Ending × Bool)
  | 0, _, acc => acc
  | fuel + 1, front, acc =>
    let fin := front.filterMap fun s =>
      match s.main with
      | .done e => some (e, s.stderr)
      | _ => none
    let acc := fin.foldl (fun a x => if a.contains x then a else a ++ [x]) acc
    let next := front.foldl (fun a s =>
      allThr.foldl (fun a t =>
        match step d s t with
        | some s' => if a.contains s' then a else a ++ [s']
        | none => a) a) []
    if next.isEmpty then acc else explore d fuel next acc

/-- Stuck non-final states reachable (a hang); must be empty. -/
def stuck (d : Disp) : Nat → List St → List St → List St
  | 0, _, acc => acc
  | fuel + 1, front, acc =>
    let st := front.filter fun s =>
      !s.final && allThr.all fun t => (step d s t).isNone
    let next := front.foldl (fun a s =>
      allThr.foldl (fun a t =>
        match step d s t with
        | some s' => if a.contains s' then a else a ++ [s']
        | none => a) a) []
    if next.isEmpty then acc ++ st else stuck d fuel next (acc ++ st)

end LbzVerif.Model.Fail
