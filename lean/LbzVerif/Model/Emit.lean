/-
  Model.Emit — the resumable run-length emitter `emit()` of src/decode.c
  (the six-state "UNRLE finite state automaton"), reproduced label by label.

  Abstraction.  The IBWT linked list `t[]` with cursor `p` is represented by
  the byte sequence it yields in traversal order: `xs` = the bytes of the
  nodes NOT YET READ (`c = p = t[p >> 8]` pops the head).  `a` (`rle_avail`)
  is kept as the separate counter the C code keeps; `decode()` sets
  `a = block_size = xs.length`, and the theorems assume that equation.  Reading
  with `xs = []` yields 0 (in C the cyclic list would simply be walked again;
  unreachable when `a = xs.length`).

  Unsigned arithmetic.  `a` and `m` are `uint32_t`; `if (!a--)` tests for
  zero and then decrements, so an exhausted counter is left at
  `M1 = 0xFFFFFFFF`; the code after the loops dispatches on exactly that
  (`a != M1 && m != M1`, `m == M1`).  The model keeps that encoding.
  `m = *buf_sz` truncates a `size_t` to 32 bits — modelled (`size % 2^32`);
  the theorems assume `size < 2^32` (lbzip2's output buffers are `out_granul`
  bytes).  `c` is a `uint8_t`: after `while (c--)` it is 255.

  Control flow.  `switch (ds->rle_state)` enters at one of six labels
  (`case0` … `case5`, falling through 1→2→3→4→0→5) which duplicate parts of
  the main loop; leaving the switch by `break` reaches `post` (the test
  `a != M1 && m != M1` guarding the main loop).  The main `for(;;)` is `loop`
  with one label for each of the nine `if (!a--)` sites: `D 0 … D 3` (the four
  unrolled "next byte differs" copies), `E2`, `E3`, `E4` (2nd, 3rd equal
  byte, the count byte) and `E0` (first byte after a run).  Every label
  starts with `if (!a--)`, so `loop` is structurally recursive on `a`.

  Output is returned as the list of bytes stored through `*b++` in this call.
-/
import LbzVerif.Gen.CrcTab

namespace LbzVerif.Model.Emit

open LbzVerif

/-- `0xFFFFFFFFu`. -/
def M1 : Nat := 0xFFFFFFFF

/-- `s = (s << 8) ^ crc_table[(s >> 24) ^ b]`. -/
def crcStep (s : UInt32) (b : UInt8) : UInt32 :=
  (s <<< 8) ^^^ Gen.crcTable.getD ((s >>> 24) ^^^ b.toUInt32).toNat 0

/-- CRC register after the bytes `bs`. -/
def crcBytes (s : UInt32) (bs : List UInt8) : UInt32 := bs.foldl crcStep s

/-- The `rle_*` fields of `struct decoder_state` between two calls. -/
structure St where
  state : Nat          -- rle_state
  crc : UInt32         -- rle_crc
  xs : List UInt8      -- nodes not yet read (abstraction of rle_index over tt)
  a : Nat              -- rle_avail
  c : UInt8            -- rle_char
  d : UInt8            -- rle_prev
  deriving Repr, DecidableEq

/-- State left by `decode()`: `rle_state = 0`, `rle_crc = -1`,
`rle_avail = block_size`, `rle_prev = rle_char = 0`. -/
def St.init (xs : List UInt8) : St :=
  { state := 0, crc := 0xFFFFFFFF, xs := xs, a := xs.length, c := 0, d := 0 }

/-- Locals of one call (`p`/`t` abstracted to `xs`; `a` is passed separately
because the main loop recurses on it). -/
structure Loc where
  xs : List UInt8
  m : Nat              -- free output bytes, uint32_t
  c : UInt8
  d : UInt8
  s : UInt32
  state : Nat          -- value `ds->rle_state` holds now
  deriving Repr, DecidableEq

inductive Status
  | ok
  | more
  | errRunlen
  | abort              -- `default: abort();`
  deriving Repr, DecidableEq

/-- What one call leaves behind. -/
structure Ret where
  out : List UInt8     -- bytes written to `buf` in this call
  status : Status
  st : St              -- the rle_* fields afterwards
  left : Nat           -- `*buf_sz` afterwards
  crc : UInt32         -- `ds->crc` (assigned on OK only; 0 here otherwise)
  deriving Repr, DecidableEq

def out1 (b : UInt8) (r : Ret) : Ret := { r with out := b :: r.out }
def outN (n : Nat) (b : UInt8) (r : Ret) : Ret :=
  { r with out := List.replicate n b ++ r.out }

/-- `return ERR_RUNLEN;` — nothing is written back (fixed up in `emit`). -/
def retErr (L : Loc) : Ret :=
  { out := [], status := .errRunlen,
    st := ⟨L.state, L.s, L.xs, 0, L.c, L.d⟩, left := 0, crc := 0 }

/-- The code after the main loop:
    `ds->rle_avail = a; if (m == M1) { save; *buf_sz = 0; return MORE; }
     ds->crc = s ^ M1; *buf_sz = m; return OK;` -/
def finish (a : Nat) (L : Loc) : Ret :=
  if L.m = M1 then
    { out := [], status := .more, st := ⟨L.state, L.s, L.xs, a, L.c, L.d⟩,
      left := 0, crc := 0 }
  else
    { out := [], status := .ok, st := ⟨L.state, L.s, L.xs, a, L.c, L.d⟩,
      left := L.m, crc := L.s ^^^ 0xFFFFFFFF }

/-- The nine `if (!a--)` sites of the main loop. -/
inductive Lbl
  | D (k : Nat)        -- k-th unrolled copy (0…3) of "read next, expect it to differ"
  | E2                 -- previous two bytes equal
  | E3                 -- previous three bytes equal
  | E4                 -- four equal bytes: the count byte comes next
  | E0                 -- first byte after a completed run
  deriving Repr, DecidableEq

/-- `for (;;) { … }` entered at label `lbl` with counter `a`. -/
def loop : Lbl → Nat → Loc → Ret
  | .E4, 0, L => retErr L                       -- if (!a--) return ERR_RUNLEN;
  | _, 0, L => finish M1 L                      -- if (!a--) break;   (a = M1)
  | lbl, a + 1, L0 =>
    let x := L0.xs.headD 0                      -- c = p = t[p >> 8]
    let L := { L0 with xs := L0.xs.tail }
    match lbl with
    | .D k =>
      let L := { L with d := L.c, c := x }
      match L.m with
      | 0 => finish a { L with m := M1, state := 1 }
      | m + 1 =>
        let L := { L with m := m, s := crcStep L.s x }
        out1 x (if x ≠ L.d then loop (.D (if k < 3 then k + 1 else 0)) a L
                else loop .E2 a L)
    | .E2 =>
      let L := { L with c := x }
      match L.m with
      | 0 => finish a { L with m := M1, state := 2 }
      | m + 1 =>
        let L := { L with m := m, s := crcStep L.s x }
        out1 x (if x ≠ L.d then loop (.D 0) a L else loop .E3 a L)
    | .E3 =>
      let L := { L with c := x }
      match L.m with
      | 0 => finish a { L with m := M1, state := 3 }
      | m + 1 =>
        let L := { L with m := m, s := crcStep L.s x }
        out1 x (if x ≠ L.d then loop (.D 0) a L else loop .E4 a L)
    | .E4 =>
      if L.m < x.toNat then
        -- c -= m; while (m--) *b++ = d;  rle_state = 4; break;
        outN L.m L.d (finish a { L with c := x - UInt8.ofNat L.m,
                                        s := crcBytes L.s (List.replicate L.m L.d),
                                        m := M1, state := 4 })
      else
        -- m -= c; while (c--) *b++ = d;          (c is left at 255)
        outN x.toNat L.d (loop .E0 a { L with m := L.m - x.toNat, c := 255,
                                              s := crcBytes L.s (List.replicate x.toNat L.d) })
    | .E0 =>
      let L := { L with c := x }
      match L.m with
      | 0 => finish a { L with m := M1, state := 5 }
      | m + 1 => out1 x (loop (.D 0) a { L with m := m, s := crcStep L.s x })

/-- After `break` out of the switch: `if (likely(a != M1 && m != M1)) for(;;)…`. -/
def post (a : Nat) (L : Loc) : Ret :=
  if a ≠ M1 ∧ L.m ≠ M1 then loop (.D 0) a L else finish a L

/-- `case 5:` -/
def case5 (a : Nat) (L : Loc) : Ret :=
  match L.m with
  | 0 => finish a { L with m := M1, state := 5 }
  | m + 1 => out1 L.c (post a { L with m := m, s := crcStep L.s L.c })

/-- `case 0:` -/
def case0 (a : Nat) (L : Loc) : Ret :=
  match a with
  | 0 => post M1 L
  | a + 1 => case5 a { L with c := L.xs.headD 0, xs := L.xs.tail }

/-- `case 4:` -/
def case4 (a : Nat) (L : Loc) : Ret :=
  if L.m < L.c.toNat then
    outN L.m L.d (finish a { L with c := L.c - UInt8.ofNat L.m,
                                    s := crcBytes L.s (List.replicate L.m L.d),
                                    m := M1, state := 4 })
  else
    outN L.c.toNat L.d (case0 a { L with m := L.m - L.c.toNat, c := 255,
                                         s := crcBytes L.s (List.replicate L.c.toNat L.d) })

/-- `case 3:` -/
def case3 (a : Nat) (L : Loc) : Ret :=
  match L.m with
  | 0 => finish a { L with m := M1, state := 3 }
  | m + 1 =>
    let L := { L with m := m, s := crcStep L.s L.c }
    out1 L.c (if L.c ≠ L.d then post a L
              else match a with
                | 0 => retErr L
                | a + 1 => case4 a { L with c := L.xs.headD 0, xs := L.xs.tail })

/-- `case 2:` -/
def case2 (a : Nat) (L : Loc) : Ret :=
  match L.m with
  | 0 => finish a { L with m := M1, state := 2 }
  | m + 1 =>
    let L := { L with m := m, s := crcStep L.s L.c }
    out1 L.c (if L.c ≠ L.d then post a L
              else match a with
                | 0 => post M1 L
                | a + 1 => case3 a { L with c := L.xs.headD 0, xs := L.xs.tail })

/-- `case 1:` (`rle_state` is not assigned on the `!m--` exit: it is 1). -/
def case1 (a : Nat) (L : Loc) : Ret :=
  match L.m with
  | 0 => finish a { L with m := M1 }
  | m + 1 =>
    let L := { L with m := m, s := crcStep L.s L.c }
    out1 L.c (if L.c ≠ L.d then post a L
              else match a with
                | 0 => post M1 L
                | a + 1 => case2 a { L with c := L.xs.headD 0, xs := L.xs.tail })

/-- One call `emit(ds, buf, &size)`. -/
def emit (st : St) (size : Nat) : Ret :=
  let L : Loc := { xs := st.xs, m := size % 2 ^ 32, c := st.c, d := st.d,
                   s := st.crc, state := st.state }
  let r : Ret :=
    match st.state with
    | 0 => case0 st.a L
    | 1 => case1 st.a L
    | 2 => case2 st.a L
    | 3 => case3 st.a L
    | 4 => case4 st.a L
    | 5 => case5 st.a L
    | _ => { out := [], status := .abort, st := st, left := size, crc := 0 }
  match r.status with
  | .errRunlen => { r with st := st, left := size }      -- nothing written back
  | .ok => { r with st := { st with a := r.st.a } }       -- only rle_avail is stored
  | _ => r

/-- Result of a sequence of calls, one per buffer size, stopping at the first
call that does not return MORE. -/
structure Run where
  calls : List (Status × List UInt8)
  final : Status       -- status of the last call made (`more` if none)
  crc : UInt32         -- `ds->crc` after an OK
  st : St
  deriving Repr, DecidableEq

def run : St → List Nat → Run
  | st, [] => { calls := [], final := .more, crc := 0, st := st }
  | st, sz :: rest =>
    let r := emit st sz
    if r.status = .more then
      let q := run r.st rest
      { q with calls := (r.status, r.out) :: q.calls }
    else { calls := [(r.status, r.out)], final := r.status, crc := r.crc, st := r.st }

/-- All bytes written by a run. -/
def Run.bytes (r : Run) : List UInt8 := (r.calls.map (·.2)).flatten

end LbzVerif.Model.Emit

/-! ### Reference: bzip2's initial run-length decoding (RLE1)

Own definition, placed here because work package W12 owns no separate Spec
file for it (namespace `LbzVerif.Spec.UnRle1`; independent of lbzip2): bytes
are copied; after four equal consecutive bytes the next byte is a repeat count
`n` (0…255) standing for `n` more copies, after which counting starts afresh.
A sequence that ends right after four equal bytes (count byte missing) is
rejected. -/
namespace LbzVerif.Spec.UnRle1

/-- `p` = byte of the current run, `k` = its length so far (0 = no run yet,
4 = the count byte is due). -/
def go (p : UInt8) (k : Nat) : List UInt8 → Option (List UInt8)
  | [] => if k = 4 then none else some []
  | b :: bs =>
    if k = 4 then (go p 0 bs).map (List.replicate b.toNat p ++ ·)
    else if k ≠ 0 ∧ b = p then (go p (k + 1) bs).map (b :: ·)
    else (go b 1 bs).map (b :: ·)

def unRle1 (xs : List UInt8) : Option (List UInt8) := go 0 0 xs

end LbzVerif.Spec.UnRle1
