/-
  Model.Operands — the operand loop of `main()` (src/main.c, the `do { … }
  while (0 != operands)` loop, lines 925-987) and what survives from one
  operand to the next.

  Per operand the code runs
      input_init → cli → output_init → work → output_regf_uninit →
      input_oprnd_rm → sti → input_uninit
  and the ONLY things `main` itself carries to the next operand are
    * the outside world (file system, and the bytes already sent to stdout),
    * the static flag `warned` (set by every `warn*()`, never cleared),
  and the process exits with `warned ? EX_WARN : EX_OK` after the last operand.
  Every `fail*()` goes through `bailout()` and `_exit(EX_FAIL)` immediately
  (after `cleanup()` has unlinked the current output file): later operands
  are not touched.

  Besides that, C statics of the scheduler and of the two pipelines survive
  physically.  They are modelled by `Statics`; `prologue` is what `work()`,
  `primary_thread()` / `copy()` and `init_io()` overwrite before any thread
  reads them; the rest (`Sticky`) is only safe because every non-fatal run
  puts it back (theorem `terminal_restores`, Props/C18/Restore.lean, proved
  from the scheduler models by another work package — here it is an explicit
  hypothesis).

  `ω` = operand descriptions, `σ` = outside world (file system + stdout).
  With no FILE operand the loop body runs once as a filter: that is an `ω`
  too (the caller passes the one-element list).
-/
namespace LbzVerif.Model.Operands

/-- How the processing of one operand ends. -/
inductive Outcome
  | ok          -- processed (or silently nothing to do), no warning
  | warned      -- at least one `warn*()`: operand skipped, or processed with a metadata warning
  | fatal       -- a `fail*()`: `bailout()`, exit status 1, nothing after it runs
  deriving Repr, DecidableEq

def exOk : Nat := 0      -- EX_OK
def exWarn : Nat := 4    -- EX_WARN
def exFail : Nat := 1    -- EX_FAIL in signals.c

/-- Result of one invocation. -/
structure Result (σ : Type) where
  world : σ           -- file system and stdout afterwards
  status : Nat        -- exit status
  completed : Nat     -- operands finished (not counting a fatal one)
  deriving Repr, DecidableEq

/-- The loop of `main()`: `w` is the world, `warned` the static flag, `n`
counts finished operands. -/
def loop {ω σ : Type} (runOne : ω → σ → σ × Outcome) :
    List ω → σ → Bool → Nat → Result σ
  | [], w, warned, n => ⟨w, if warned then exWarn else exOk, n⟩
  | op :: ops, w, warned, n =>
    match (runOne op w).2 with
    | .fatal => ⟨(runOne op w).1, exFail, n⟩
    | .ok => loop runOne ops (runOne op w).1 warned (n + 1)
    | .warned => loop runOne ops (runOne op w).1 true (n + 1)

/-- One invocation with operands `ops`. -/
def runMany {ω σ : Type} (runOne : ω → σ → σ × Outcome) (ops : List ω) (w : σ) : Result σ :=
  loop runOne ops w false 0

/-! ### The same loop as a fold -/

/-- Everything the loop carries. -/
structure Acc (σ : Type) where
  world : σ
  warned : Bool
  fatal : Bool
  completed : Nat
  deriving Repr, DecidableEq

def Acc.start {σ : Type} (w : σ) : Acc σ := ⟨w, false, false, 0⟩

/-- One iteration (an absorbing state once a fatal error happened). -/
def stepAcc {ω σ : Type} (runOne : ω → σ → σ × Outcome) (a : Acc σ) (op : ω) : Acc σ :=
  if a.fatal then a
  else
    match (runOne op a.world).2 with
    | .fatal => { a with world := (runOne op a.world).1, fatal := true }
    | .ok => { a with world := (runOne op a.world).1, completed := a.completed + 1 }
    | .warned => { a with world := (runOne op a.world).1, warned := true, completed := a.completed + 1 }

def Acc.result {σ : Type} (a : Acc σ) : Result σ :=
  ⟨a.world, if a.fatal then exFail else if a.warned then exWarn else exOk, a.completed⟩

/-! ### Status algebra on the outcomes alone -/

/-- Exit status and number of finished operands from the list of per-operand
outcomes (outcomes after the first fatal one never materialise). -/
def statusOf : List Outcome → Bool → Nat → Nat × Nat
  | [], warned, n => (if warned then exWarn else exOk, n)
  | .fatal :: _, _, n => (exFail, n)
  | .ok :: os, warned, n => statusOf os warned (n + 1)
  | .warned :: os, _, n => statusOf os true (n + 1)

/-- The outcomes as they materialise in one invocation: the world is threaded
through, nothing follows a fatal one. -/
def outcomes {ω σ : Type} (runOne : ω → σ → σ × Outcome) : List ω → σ → List Outcome
  | [], _ => []
  | op :: ops, w =>
    match (runOne op w).2 with
    | .fatal => [.fatal]
    | .ok => .ok :: outcomes runOne ops (runOne op w).1
    | .warned => .warned :: outcomes runOne ops (runOne op w).1

/-- Exit status of "first these operands, then those" from the two statuses. -/
def combineStatus (a b : Nat) : Nat :=
  if a = exFail then exFail
  else if b = exFail then exFail
  else if a = exWarn ∨ b = exWarn then exWarn
  else exOk

/-- One invocation PER OPERAND, in order, each on the world the previous one
left, stopping after the first that exits with status 1; statuses combined
with `combineStatus`.  (This is the reference execution of checks/C18.py.) -/
def separately {ω σ : Type} (runOne : ω → σ → σ × Outcome) : List ω → σ → Result σ
  | [], w => ⟨w, exOk, 0⟩
  | op :: ops, w =>
    let a := runMany runOne [op] w
    if a.status = exFail then a
    else
      let b := separately runOne ops a.world
      ⟨b.world, combineStatus a.status b.status, a.completed + b.completed⟩

/-- Outcome read off the exit status of a one-operand invocation. -/
def outcomeOfStatus (st : Nat) : Outcome :=
  if st = exOk then .ok else if st = exWarn then .warned else .fatal

/-! ### Statics that physically survive -/

/-- Statics nobody resets at the start of a run: `collect_token`,
`unfinished_work` (compress.c), `next_task` (process.c; recomputed by
`select_task()` before its first read, listed here all the same). -/
structure Sticky where
  collectToken : Bool
  unfinishedWork : Bool       -- `unfinished_work != NULL`
  nextTaskNull : Bool         -- `next_task == NULL`
  deriving Repr, DecidableEq

/-- Statics overwritten at the start of every run before any thread reads
them: `set_memory_constraints()` (the four sizes), `primary_thread()` /
`copy()` (`eof`, `in_slots`, `out_slots`, `work_units`, `thread_id`),
`init_io()` (`request_close`, `finish`).  `copy()` leaves `total_out_slots =
2`, `in_granul = 65536` behind: both are in this group. -/
structure Volatile where
  totalInSlots : Nat
  totalOutSlots : Nat
  inGranul : Nat
  outGranul : Nat
  eof : Bool
  inSlots : Nat
  outSlots : Nat
  workUnits : Nat
  requestClose : Bool
  finish : Bool
  deriving Repr, DecidableEq

structure Statics where
  sticky : Sticky
  vol : Volatile
  deriving Repr, DecidableEq

/-- Initial values of the sticky statics (C initialisers). -/
def Sticky.initial : Sticky := ⟨true, false, true⟩

/-- The operand loop with the statics threaded through.  `body op w st`
receives the statics exactly as the previous operand left them. -/
def loopS {ω σ : Type} (body : ω → σ → Statics → (σ × Outcome) × Statics) :
    List ω → σ → Statics → Bool → Nat → Result σ
  | [], w, _, warned, n => ⟨w, if warned then exWarn else exOk, n⟩
  | op :: ops, w, st, warned, n =>
    match (body op w st).1.2 with
    | .fatal => ⟨(body op w st).1.1, exFail, n⟩
    | .ok => loopS body ops (body op w st).1.1 (body op w st).2 warned (n + 1)
    | .warned => loopS body ops (body op w st).1.1 (body op w st).2 true (n + 1)

/-- A body respects the reset discipline when it reads the volatile statics
only after `prologue` has overwritten them: its result is a function of the
sticky part alone. -/
def ReadsOnlySticky {ω σ : Type} (body : ω → σ → Statics → (σ × Outcome) × Statics) : Prop :=
  ∀ op w st st', st.sticky = st'.sticky → body op w st = body op w st'

/-- `terminal_restores` (Props/C18/Restore.lean): a run that starts with the
sticky statics at their initial values and does not end fatally leaves them at
their initial values. -/
def TerminalRestores {ω σ : Type} (body : ω → σ → Statics → (σ × Outcome) × Statics) : Prop :=
  ∀ op w st, st.sticky = Sticky.initial →
    (body op w st).1.2 ≠ Outcome.fatal → (body op w st).2.sticky = Sticky.initial

end LbzVerif.Model.Operands
