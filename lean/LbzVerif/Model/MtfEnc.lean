/-
  Model.MtfEnc — executable model of encode.c `make_map_e` and `do_mtf`
  (move-to-front + zero-run coding in the compressor), written the way the C
  code works: the MTF list is kept as the current front symbol `u` plus the
  array `order[255]` holding positions 1…255, zero runs are counted in `k` and
  flushed by the RUN() macro as `--k & 1` / `k >>= 1`, an MTF symbol at
  position p ≥ 1 is emitted as the value `p + 1` (`t = p - order + 2` with `p`
  pointing into `order`, i.e. one less than the list position).
  Array accesses are checked: an access outside `order[0,255)` or
  `cmap[0,256)` makes the model return `none`.  No Mathlib.
-/
import LbzVerif.Gen.Consts

namespace LbzVerif.Model.MtfEnc

/-- `make_map_e` loop: `cmap[i] = j; j += inuse[i]` (cmap is `uint8_t`). -/
def makeMapEGo : List Bool → Nat → List UInt8 × Nat
  | [], j => ([], j)
  | k :: rest, j =>
    let r := makeMapEGo rest (j + (if k then 1 else 0))
    (UInt8.ofNat j :: r.1, r.2)

/-- `make_map_e(cmap, inuse)`: the map and the return value `ninuse`. -/
def makeMapE (inuse : List Bool) : List UInt8 × Nat := makeMapEGo inuse 0

/-- The `inuse[256]` array for a set of bytes. -/
def inuseOf (used : List UInt8) : List Bool :=
  (List.range 256).map (fun i => used.contains (UInt8.ofNat i))

/-- The RUN() macro: `if (k) do { emit(--k & 1); k >>= 1; } while (k);`. -/
def runEmit (k : Nat) : List Nat :=
  if k = 0 then []
  else ((k - 1) &&& 1) :: runEmit ((k - 1) >>> 1)
termination_by k
decreasing_by
  rw [Nat.shiftRight_eq_div_pow]; omega

/-- The `for (;;)` loop of the MTF() macro.  `p` is the index into `order`
(C: `p - order`), `x` the value being carried (C alternates between the
registers `t` and `u` for it; the two halves of the unrolled loop body are the
same step with the roles swapped).  Result: the updated array and final `p`. -/
def mtfLoop (c : UInt8) (order : List UInt8) (p : Nat) (x : UInt8) :
    Option (List UInt8 × Nat) :=
  if c = x then some (order, p)
  else
    if h : p + 1 < order.length then
      mtfLoop c (order.set (p + 1) x) (p + 1) order[p + 1]
    else none                                 -- would step past order[254]
termination_by order.length - p
decreasing_by simp only [List.length_set]; omega

/-- The MTF() macro: `t = *p; *p = u; loop; t = p - order + 2; u = c`.
Result: emitted value, new `order`. -/
def mtfMacro (c u : UInt8) (order : List UInt8) : Option (Nat × List UInt8) :=
  match order[0]? with
  | none => none
  | some t =>
    match mtfLoop c (order.set 0 u) 0 t with
    | none => none
    | some (order', p) => some (p + 2, order')

/-- Main loop of `do_mtf` over the block (`bwt[i]`, bytes), without the final
EOB bookkeeping. -/
def loop (cmap : List UInt8) (eob : Nat) :
    (u : UInt8) → (order : List UInt8) → (k : Nat) → List UInt8 → Option (List Nat)
  | _, _, k, [] => some (runEmit k ++ [eob])
  | u, order, k, b :: bs =>
    match cmap[b.toNat]? with
    | none => none
    | some c =>
      if c = u then loop cmap eob u order (k + 1) bs
      else
        match mtfMacro c u order with
        | none => none
        | some (t, order') =>
          (loop cmap eob c order' 0 bs).map (runEmit k ++ t :: ·)

/-- Initial `order[i] = i + 1`, `i < 255`. -/
def order0 : List UInt8 := (List.range 255).map (fun i => UInt8.ofNat (i + 1))

/-- `do_mtf(bwt, mtffreq, cmap, nblock, EOB)`: the emitted `mtfv` values. -/
def doMtfWith (cmap : List UInt8) (eob : Nat) (block : List UInt8) : Option (List Nat) :=
  loop cmap eob 0 order0 0 block

/-- `mtffreq`: zeroed for `0 … EOB`, then incremented once per emitted value
(the C code increments at the point of emission; same increments, same
order). -/
def bump (f : List Nat) (s : Nat) : List Nat := f.modify s (· + 1)

def mtfFreq (eob : Nat) (syms : List Nat) : List Nat :=
  syms.foldl bump (List.replicate (eob + 1) 0)

/-- `encode()`'s use: `EOB = make_map_e(cmap, inuse) + 1; do_mtf(…, cmap, nblock, EOB)`
for the set of bytes `used`.  Result: symbols and frequency table. -/
def doMtf (used block : List UInt8) : Option (List Nat) :=
  let m := makeMapE (inuseOf used)
  doMtfWith m.1 (m.2 + 1) block

def doMtfFreq (used block : List UInt8) : Option (List Nat × List Nat) :=
  let m := makeMapE (inuseOf used)
  (doMtfWith m.1 (m.2 + 1) block).map (fun s => (s, mtfFreq (m.2 + 1) s))

end LbzVerif.Model.MtfEnc
