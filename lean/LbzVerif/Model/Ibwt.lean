/-
  Model.Ibwt — `decode()` of src/decode.c as written: cumulative `ftab`, the
  singly-linked cyclic list packed into `tt[]` (`tt[ftab[uc]++] += i << 8`),
  and for randomised blocks the in-situ IBWT by binary search over `ftab`,
  derandomisation with `rand_table` / `RAND_THRESH` (both from Gen) and the
  re-formed list; finally `rle_index = rand ? 0 : tt[bwt_idx]`.

  `tt` and `ftab` are `List Nat` (`uint32_t` cells; every value stays below
  `900000 · 256 + 256 < 2^32`, no wrap-around is involved and none is
  modelled).  The result handed to `Model.Emit` is the byte sequence that
  `emit()` will read: `nodes` walks the list `block_size` times from
  `rle_index` exactly as `c = p = t[p >> 8]` does.

  The second half of the file is an own reference (`LbzVerif.Spec.Ibwt`,
  independent of lbzip2; W5's Spec did not exist when this was written): the
  textbook inverse BWT in two forms — `ibwtNaive` (rebuild the sorted rotation
  matrix by n rounds of "prepend the last column, sort") and `ibwt` (stable
  sort of the last column gives the successor vector) — and bzip2's
  derandomisation as the (rNToGo, rTPos) automaton of the reference decoder.
-/
import LbzVerif.Gen.DecodeTab

namespace LbzVerif.Model.Ibwt

open LbzVerif

/-- `ds->ftab` as `retrieve()` leaves it: the number of occurrences of every
byte value in `tt[0 .. block_size)`. -/
def counts (bytes : List UInt8) : List Nat :=
  (List.range 256).map (fun b => (bytes.filter (fun x => x.toNat = b)).length)

/-- `for (i = 0; i < 256; i++) ftab[i] = (cum += ftab[i]) - ftab[i];` -/
def cumulate : Nat → List Nat → List Nat
  | _, [] => []
  | cum, f :: fs => cum :: cumulate (cum + f) fs

/-- One iteration of the list construction:
    `uc = tt[i]; tt[ftab[uc]] += (i << 8); ftab[uc]++;` (`uc` is a `uint8_t`). -/
def linkStep (st : List Nat × List Nat) (i : Nat) : List Nat × List Nat :=
  let (tt, ftab) := st
  let uc := tt.getD i 0 % 256
  let q := ftab.getD uc 0
  (tt.set q (tt.getD q 0 + (i <<< 8)), ftab.set uc (q + 1))

/-- The list construction loop. -/
def link (tt ftab : List Nat) (n : Nat) : List Nat × List Nat :=
  (List.range n).foldl linkStep (tt, ftab)

/-- The eight-step binary search `k = 0; if (j >= ftab[k+127]) k += 128; …`. -/
def bsearch (ftab : List Nat) (j : Nat) : Nat :=
  let s (k w : Nat) : Nat := if j ≥ ftab.getD (k + w - 1) 0 then k + w else k
  let k := s 0 128
  let k := s k 64
  let k := s k 32
  let k := s k 16
  let k := s k 8
  let k := s k 4
  let k := s k 2
  s k 1

/-- In-situ IBWT: `for i: tt[i] = (tt[i] & ~0xFF) + k(j); j = tt[j] >> 8;`. -/
def insitu (ftab : List Nat) : Nat → Nat → Nat → List Nat → List Nat
  | 0, _, _, tt => tt
  | todo + 1, i, j, tt =>
    let k := bsearch ftab j
    let tt := tt.set i (tt.getD i 0 / 256 * 256 + k)
    insitu ftab todo (i + 1) (tt.getD j 0 >>> 8) tt

/-- `i = 0, j = RAND_THRESH; while (j < n) { tt[j] ^= 1; i = (i+1) & 0x1FF;
j += rand_table[i]; }` — `fuel` bounds the iterations (every table entry is
≥ 50, so `n` is plenty). -/
def derandLoop (n : Nat) : Nat → Nat → Nat → List Nat → List Nat
  | 0, _, _, tt => tt
  | fuel + 1, i, j, tt =>
    if j < n then
      let tt := tt.set j (tt.getD j 0 ^^^ 1)
      let i := (i + 1) &&& 0x1FF
      derandLoop n fuel i (j + Gen.randTable.getD i 0) tt
    else tt

/-- `for i: tt[i] = ((i + 1) << 8) + (tt[i] & 0xFF);` -/
def reform (tt : List Nat) : List Nat :=
  tt.zipIdx.map (fun (v, i) => ((i + 1) <<< 8) + v % 256)

/-- What `decode()` leaves: the final `tt` and `rle_index`. -/
structure Decoded where
  tt : List Nat
  rleIndex : Nat
  ftab : List Nat
  deriving Repr, DecidableEq

/-- `decode(ds)` given `ds->tt[0..n)` (one byte per cell), `ds->ftab` (counts),
`ds->bwt_idx`, `ds->rand`. -/
def decode (rand : Bool) (bwtIdx : Nat) (bytes : List UInt8) (ftab0 : List Nat) : Decoded :=
  let n := bytes.length
  let tt0 := bytes.map (·.toNat)
  let (tt, ftab) := link tt0 (cumulate 0 ftab0) n
  if rand then
    let tt := insitu ftab n 0 bwtIdx tt
    let tt := derandLoop n n 0 Gen.RAND_THRESH tt
    let tt := reform tt
    { tt := tt, rleIndex := 0, ftab := ftab }
  else
    { tt := tt, rleIndex := tt.getD bwtIdx 0, ftab := ftab }

/-- The bytes `emit()` reads: `n` times `c = p = t[p >> 8]`. -/
def walk (tt : List Nat) : Nat → Nat → List UInt8
  | 0, _ => []
  | n + 1, p =>
    let p' := tt.getD (p >>> 8) 0
    UInt8.ofNat (p' % 256) :: walk tt n p'

/-- `decode()` followed by the traversal `emit()` performs: the node bytes in
traversal order. -/
def nodes (rand : Bool) (bwtIdx : Nat) (bytes : List UInt8) : List UInt8 :=
  let d := decode rand bwtIdx bytes (counts bytes)
  walk d.tt bytes.length d.rleIndex

/-- Largest list pointer `p >> 8` that the traversal dereferences (for the
bound `rle_index >> 8 < block_size`). -/
def walkMaxPtr (tt : List Nat) : Nat → Nat → Nat
  | 0, _ => 0
  | n + 1, p => max (p >>> 8) (walkMaxPtr tt n (tt.getD (p >>> 8) 0))

end LbzVerif.Model.Ibwt

namespace LbzVerif.Spec.Ibwt

/-- Lexicographic `≤` on byte strings. -/
def lexLe : List UInt8 → List UInt8 → Bool
  | [], _ => true
  | _ :: _, [] => false
  | a :: as, b :: bs => if a < b then true else if b < a then false else lexLe as bs

/-- Stable insertion sort (structural, so that small instances evaluate by
`decide`). -/
def insertBy {α : Type} (le : α → α → Bool) (x : α) : List α → List α
  | [] => [x]
  | y :: ys => if le x y then x :: y :: ys else y :: insertBy le x ys

def isort {α : Type} (le : α → α → Bool) : List α → List α
  | [] => []
  | x :: xs => insertBy le x (isort le xs)

/-- One round of the naive inversion: prepend the last column, sort the rows. -/
def naiveRound (L : List UInt8) (rows : List (List UInt8)) : List (List UInt8) :=
  isort lexLe (List.zipWith (· :: ·) L rows)

/-- The sorted rotation matrix of the text, rebuilt from its last column. -/
def matrix (L : List UInt8) : List (List UInt8) :=
  (List.range L.length).foldl (fun rows _ => naiveRound L rows) (L.map (fun _ => []))

/-- Textbook inverse BWT, naive form: row `idx` of the sorted rotation matrix. -/
def ibwtNaive (L : List UInt8) (idx : Nat) : List UInt8 :=
  (matrix L).getD idx []

/-- Successor vector: the positions of `L` sorted stably by byte value
(`T[q]` = the row that starts one text position after row `q`). -/
def succVec (L : List UInt8) : List Nat :=
  isort (fun i j => decide (L.getD i 0 ≤ L.getD j 0)) (List.range L.length)

/-- Follow the successor vector `n` times from row `q`, reading `L`. -/
def follow (L : List UInt8) (T : List Nat) : Nat → Nat → List UInt8
  | 0, _ => []
  | n + 1, q => let q' := T.getD q 0; L.getD q' 0 :: follow L T n q'

/-- Textbook inverse BWT via the successor vector. -/
def ibwt (L : List UInt8) (idx : Nat) : List UInt8 :=
  follow L (succVec L) L.length idx

/-- bzip2's block randomisation mask as the reference decoder computes it:
`rNToGo`, `rTPos` start at 0; before every byte `if (rNToGo == 0) { rNToGo =
rNums[rTPos]; rTPos = (rTPos + 1) % 512 }; rNToGo--;` and the byte is XORed
with 1 iff `rNToGo == 1`.  `rNums` is a parameter (the format's table). -/
def derandGo (rNums : List Nat) : Nat → Nat → List UInt8 → List UInt8
  | _, _, [] => []
  | toGo, tPos, b :: bs =>
    let (toGo, tPos) :=
      if toGo = 0 then (rNums.getD tPos 0, (tPos + 1) % 512) else (toGo, tPos)
    let toGo := toGo - 1
    (if toGo = 1 then b ^^^ 1 else b) :: derandGo rNums toGo tPos bs

def derand (rNums : List Nat) (bs : List UInt8) : List UInt8 := derandGo rNums 0 0 bs

end LbzVerif.Spec.Ibwt
