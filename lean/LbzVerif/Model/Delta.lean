/-
  Model.Delta — the table-driven delta-code reader of `retrieve()`
  (src/decode.c, "Retrieve decoding tables"):

      rs->j = 0u;
      TAKE(rs->code_len[0u], 5);
      while (rs->j < rs->alpha_size) {
        unsigned k = PEEK(6u);
        if (code_len[j] < MIN_CODE_LENGTH + LO[k] ||
            code_len[j] + HI[k] > MAX_CODE_LENGTH)  return ERR_DELTA;
        code_len[j] += R[k];  code_len[j] -= 3;          /* uint8_t */
        k = L[k];
        if (k != 6u) { j++; if (j < alpha_size) code_len[j] = code_len[j-1]; }
        DUMP(k);
        NEED(S_DELTA_TAG);
      }

  The tables `L`, `R`, `HI`, `LO`, the bias and the SHAPE of the range test
  come from `LbzVerif.Gen.DecodeTab` (regenerated from the source on every
  run).  `Gen.deltaCheckShape = 1` is the test above; `0` is the older test
  (`code_len += R[k]` first, then `code_len < biasLo + MIN || code_len >
  biasHi + MAX`), modelled too so that a reverted fix changes the theorem
  being checked instead of silently keeping the proof.

  Bits.  The model runs over a bit list.  `PEEK(6)` is the next six bits; in
  the C code the 64-bit buffer always holds ≥ 26 real bits at this point (or
  `NEED` has already returned `ERR_EOF` / `MORE`), and the bits below the live
  ones are zero.  Here the window is the next six bits padded with zeros
  (`win 6 bits`), and a window that DUMPs more bits than the list still holds
  ends the run with `errEof` — the place where the C code would have failed
  in `NEED` (see `Props.C05.Delta.delta_eof`).
-/
import LbzVerif.Gen.Consts
import LbzVerif.Gen.DecodeTab

namespace LbzVerif.Model.Delta

open LbzVerif

/-- The next `n` bits, padded with zeros at the end of the input. -/
def win : Nat → List Bool → List Bool
  | 0, _ => []
  | n + 1, [] => false :: win n []
  | n + 1, b :: r => b :: win n r

/-- Value of a bit string, most significant bit first. -/
def toNum (bits : List Bool) : Nat :=
  bits.foldl (fun acc b => 2 * acc + (if b then 1 else 0)) 0

/-- `PEEK(6u)`. -/
def peek6 (bits : List Bool) : Nat := toNum (win 6 bits)

def tL (k : Nat) : Nat := Gen.deltaL.getD k 0
def tR (k : Nat) : Nat := Gen.deltaR.getD k 0
def tHI (k : Nat) : Nat := Gen.deltaHI.getD k 0
def tLO (k : Nat) : Nat := Gen.deltaLO.getD k 0

/-- Result of reading one table. -/
inductive Res
  | ok (lens : List Nat) (rest : List Bool)
  | errDelta
  | errEof
  deriving Repr, DecidableEq

/-- Outcome of the range test and the `uint8_t` update of `code_len[j]` for
window value `k` and current length `c`: `none` = `ERR_DELTA`, otherwise the
new value of `code_len[j]`.  `shape` selects the form of the test (see the
file header); the C code as it is has `shape = Gen.deltaCheckShape`. -/
def stepLenShape (shape c k : Nat) : Option Nat :=
  if shape = 1 then
    if c < Gen.MIN_CODE_LENGTH + tLO k ∨ c + tHI k > Gen.MAX_CODE_LENGTH then none
    else some (((c + tR k) % 256 + 256 - Gen.deltaBias) % 256)
  else
    let c1 := (c + tR k) % 256
    if c1 < Gen.deltaBiasLo + Gen.MIN_CODE_LENGTH ∨
        c1 > Gen.deltaBiasHi + Gen.MAX_CODE_LENGTH then none
    else some ((c1 + 256 - Gen.deltaBias) % 256)

def stepLen (c k : Nat) : Option Nat := stepLenShape Gen.deltaCheckShape c k

/-- The `while (rs->j < rs->alpha_size)` loop.  `todo = alpha_size - j`,
`c = code_len[j]`, `acc` = the finished entries `code_len[0..j)` reversed.
`fuel` bounds the number of iterations (every iteration DUMPs ≥ 1 bit, so
`bits.length + 1` is enough: `Lemmas.Delta.loop_eq` holds for any such fuel). -/
def loop : Nat → Nat → Nat → List Nat → List Bool → Res
  | 0, _, _, _, _ => .errEof
  | fuel + 1, todo, c, acc, bits =>
    if todo = 0 then .ok acc.reverse bits
    else
      let k := peek6 bits
      match stepLen c k with
      | none => .errDelta
      | some c' =>
        let l := tL k
        if bits.length < l then .errEof                 -- NEED fails at EOF
        else if l ≠ 6 then loop fuel (todo - 1) c' (c' :: acc) (bits.drop l)
        else loop fuel todo c' acc (bits.drop l)

/-- One table: `TAKE(code_len[0], 5)` then the loop.  `n = alpha_size`. -/
def table (n : Nat) (bits : List Bool) : Res :=
  if bits.length < 5 then .errEof
  else loop (bits.length + 1) n (toNum (bits.take 5)) [] (bits.drop 5)

end LbzVerif.Model.Delta
