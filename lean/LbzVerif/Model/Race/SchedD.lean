/-
  Model.Race.SchedD — the race annotation of the expansion scheduler
  (`Model.SchedD`): threads, shared variables and heap objects, who holds each
  heap object in a state, and — for every atomic section of the model together
  with the unlocked work that precedes it — the accesses it performs with the
  locks held.  Written by reading src/expand.c and src/process.c line by line
  (line numbers of the pinned tree are cited).

  Threads.  `Model.SchedD` has anonymous workers: a worker inside an unlocked
  region IS its phase (`busy (ph)`, `parser`); `Lemmas.Race.SchedDUniq.busy_nodup`
  shows that no two workers are in the same phase, so this naming is injective.
  A worker that holds no job (`free i`, any number of them) only ever executes
  sections that are under `sched_mutex` from beginning to end.

  Heap objects (identified by position keys):
    * `retrBlk b`  — `struct retr_blk` of the block whose data starts at `b`,
                     with its decoder (`tt`, `internal_state`); held by
                     `retr_q`, by the worker in `retrieve()`, and by the worker
                     in `decode()` until `free(rb)` (expand.c:682);
    * `emitBlk b`  — `struct emit_blk` (takes the decoder over, expand.c:677-680);
                     held by the worker in `decode()`, `emit_q`, the worker in
                     `emit()`;
    * `outBlk b i` — `struct out_blk` + `out_granul` bytes, buffer `i` of block
                     `b`; held by the worker in `emit()` and by `reord_q`;
    * `sinkBuf m`  — the same memory after `sink_write_buffer` (expand.c:791),
                     named by its sequence number `m` in the output; the oldest
                     buffer in flight is held by the writer thread (the others
                     sit in `output_q` and are touched by nobody).  (The model keeps no
                     identities in `output_q`; that no emit job / `reord_q`
                     entry has the key of a buffer already handed over is NOT
                     proved, see Props.C12 "expand_owner_unique".)
    * `inBlk k`    — `struct in_blk` of input block `k` (`ref_count`, `size`,
                     `offset`, `buffer` pointer): reader until pushed, then
                     scheduler monitor until freed;
    * `inBuf k`    — the input buffer itself: written by the reader (`xread`,
                     zero padding), then READ-SHARED among the holders of a
                     reference: `inBufOwner` (ref_count discipline);
    * `scanD k`    — the `struct detached_bitstream` scan task of block `k`;
    * `unordBlk b` — `struct unord_blk`: every access is under `sched_mutex`.

  Not annotated: the `KJN_LBZIP2_VERIF` hooks (`verif_delay` reads
  `parser_bs.offset` / `bs->offset` outside the monitor: instrumentation only),
  `Trace()` (compiled out), `failf` (exits), the pthread objects, everything
  before `init_io()` / after the joins, and the initialisation of an object
  that is allocated INSIDE a locked section and published by that same
  section (`rb`/`ub` in do_parse:572-578 and do_scan:850-861: unreachable for
  other threads before the `enqueue`, which is under the lock).
-/
import LbzVerif.Model.SchedD
import LbzVerif.Model.Race

namespace LbzVerif.Model.Race.D
open LbzVerif.Model.SchedD

/-! ## Threads, variables -/

inductive Thread where
  | main | reader | writer
  /-- the worker between `attach()` and `detach()` of `do_parse` -/
  | parser
  /-- the worker in the unlocked region `ph` -/
  | busy (ph : Phase)
  /-- a worker without a job (waiting, or inside a fully locked section) -/
  | free (i : Nat)
  deriving DecidableEq, Repr

/-- written only before the threads are created (`main()`,
    `set_memory_constraints()`, `schedule()`), `crc_table` etc. are constants -/
inductive CfgVar where
  | bs100k | numWorker | ultra | totalOutSlots | inGranul | outGranul | process | verbose
  | ispecSize
  deriving DecidableEq, Repr

inductive DVar where
  -- src/process.c:240-243, 267 — scheduler monitor
  | workUnits | outSlots | eof | nextTask
  -- src/expand.c:154-171 — scheduler monitor
  | eofMissing | inputQ | headOffs | retrQ | emitQ | reordQ | orderQ | unordQ
  | parseToken | parsingDone | scanQ | reordOffs | parserBs
  -- expand.c:158, 895-897: scheduler monitor, but the reader is the only writer
  | tailOffs
  -- expand.c:171 `par`: only the holder of the parse token, inside `parse()`
  | par
  -- `ispec.total` (xread): reader only; `ospec.total` (xwrite): writer only
  | ispecTotal | ospecTotal
  -- src/process.c:242, 249 — source monitor
  | inSlots | requestClose
  -- src/process.c:262-263 — sink monitor
  | outputQ | finish
  | cfg (k : CfgVar)
  -- heap objects
  | inBlk (k : Nat) | inBuf (k : Nat) | scanD (k : Nat)
  | unordBlk (b : Nat)
  | retrBlk (b : Nat) | emitBlk (b : Nat)
  | outBlk (b i : Nat)
  | sinkBuf (m : Nat)
  deriving DecidableEq, Repr

abbrev Acc := Access Thread DVar

/-! ## Holders of heap objects -/

inductive Queue where
  | retr | emit | reord | input | scan
  deriving DecidableEq, Repr

inductive Holder where
  | queue (q : Queue)
  | thread (t : Thread)
  deriving DecidableEq, Repr

/-- all five queues belong to the scheduler monitor -/
def Holder.owner : Holder → Owner Thread
  | .queue _ => .lock .sched
  | .thread t => .thread t

/-- base of the retr_blk a busy worker holds (`decode()` runs before `free(rb)`) -/
def jobOf : Phase → Option Nat
  | .retr j _ => some j.base
  | .retr2 e => some e.base
  | _ => none

/-- base of the emit_blk a busy worker holds -/
def emitOf : Phase → Option Nat
  | .retr2 e => some e.base
  | .emit e => some e.base
  | _ => none

/-- key of the out_blk a busy worker holds -/
def outOf : Phase → Option (Nat × Nat)
  | .emit e => some e.key
  | _ => none

/-- block of the scan descriptor a busy worker holds -/
def scanOf : Phase → Option Nat
  | .scan _ k => some k
  | _ => none

/-- input block `k` has been pushed and not yet freed: it is in `input_q`, or
    shifted out but still referenced (`ref_count > 0`) -/
def alive (s : State) (k : Nat) : Prop := k < s.rd ∧ (s.head ≤ k ∨ attachedTo s k = true)

instance (s : State) (k : Nat) : Decidable (alive s k) := by unfold alive; infer_instance

/-- holder `h` holds heap object `v` -/
def holds (c : Cfg) (s : State) : DVar → Holder → Prop
  | .retrBlk b, .queue .retr => ∃ j ∈ s.retrQ, j.base = b
  | .retrBlk b, .thread (.busy ph) => ph ∈ s.busy ∧ jobOf ph = some b
  | .emitBlk b, .queue .emit => ∃ e ∈ s.emitQ, e.base = b
  | .emitBlk b, .thread (.busy ph) => ph ∈ s.busy ∧ emitOf ph = some b
  | .outBlk b i, .queue .reord => ∃ o ∈ s.reordQ, o.key = (b, i)
  | .outBlk b i, .thread (.busy ph) => ph ∈ s.busy ∧ outOf ph = some (b, i)
  | .inBlk k, .thread .reader => s.rph = .hold ∧ k = s.rd
  | .inBlk k, .queue .input => alive s k
  | .scanD k, .thread .reader => s.rph = .hold ∧ k = s.rd
  | .scanD k, .queue .scan => ∃ sp ∈ s.scanQ, sp / c.W = k
  | .scanD k, .thread (.busy ph) => ph ∈ s.busy ∧ scanOf ph = some k
  | .sinkBuf m, .thread .writer => 0 < s.outq ∧ m = s.written.length - s.outq
  | _, _ => False

/-- the heap object is live -/
def live (c : Cfg) (s : State) (v : DVar) : Prop := ∃ h, holds c s v h

/-! ### the input buffer: read-shared while referenced -/

/-- the threads that hold a reference on input block `k` taken by `attach()`
    (`blk->ref_count++`, expand.c:297) and not yet dropped by `detach()` -/
def attThreads (s : State) (k : Nat) : List Thread :=
  (if s.pphase = some (some k) then [Thread.parser] else []) ++
    (s.busy.filter (fun ph => ph.block == some k)).map Thread.busy

/-- `ref_count` of input block `k`: 1 for `input_q` + 1 per attached thread -/
def refCount (s : State) (k : Nat) : Nat :=
  (if s.head ≤ k ∧ k < s.rd then 1 else 0) + (attThreads s k).length

/-- who may touch the input buffer of block `k`:
    * the reader while it fills it (`xread`, padding; expand.c:899-900);
    * once pushed and until freed, it is only READ, without a lock, by the
      threads that hold a reference, and WRITTEN (= freed,
      `source_release_buffer`, expand.c:344/403/489) under `sched_mutex` by the
      thread that drops the last reference.  In terms of the existing owner
      kinds: nobody attached — monitor-owned; exactly one thread `t` attached —
      `writer t sched` (`t` reads unlocked, only `t` can drop the last
      reference, under the lock); two or more attached — `frozen` (nobody can
      drop the last reference in this state). -/
def inBufOwner (s : State) (k : Nat) : Option (Owner Thread) :=
  if s.rph = .hold ∧ k = s.rd then some (.thread .reader)
  else if alive s k then
    match attThreads s k with
    | [] => some (.lock .sched)
    | [t] => some (.writer t .sched)
    | _ :: _ :: _ => some .frozen
  else none

/-! ## The discipline -/

/-- the fixed owner of a global variable (`none` for heap objects) -/
def staticOwner : DVar → Option (Owner Thread)
  | .workUnits | .outSlots | .eof | .nextTask => some (.lock .sched)
  | .eofMissing | .inputQ | .headOffs | .retrQ | .emitQ | .reordQ | .orderQ | .unordQ
  | .parseToken | .parsingDone | .scanQ | .reordOffs | .parserBs => some (.lock .sched)
  | .tailOffs => some (.writer .reader .sched)
  | .par => some (.thread .parser)
  | .ispecTotal => some (.thread .reader)
  | .ospecTotal => some (.thread .writer)
  | .inSlots | .requestClose => some (.lock .source)
  | .outputQ | .finish => some (.lock .sink)
  | .cfg _ => some .frozen
  | .unordBlk _ => some (.lock .sched)
  | .inBlk _ | .inBuf _ | .scanD _ | .retrBlk _ | .emitBlk _ | .outBlk _ _ | .sinkBuf _ => none

/-- owner of `v` in state `s`: the static one; for the input buffer the
    reference-count rule; for another heap object the lock of the queue that
    holds it / the thread that holds it -/
def owns (c : Cfg) (s : State) (v : DVar) (o : Owner Thread) : Prop :=
  match staticOwner v with
  | some o' => o = o'
  | none =>
    match v with
    | .inBuf k => inBufOwner s k = some o
    | _ => ∃ h, holds c s v h ∧ o = h.owner

def disc (c : Cfg) : Discipline State Thread DVar := ⟨owns c⟩

/-! ## Sections -/

/-- The atomic sections of `Model.SchedD` (one per `Label`), each taken
    together with the unlocked work its thread does before it, plus `idle`
    (the wait loop / exit test of `worker_thread_proc`).  The `*Start` sections
    and `reorder` are executed by a worker without a job and are under
    `sched_mutex` throughout. -/
inductive Sec where
  | rTake | rQuit | rBlock | rEmpty | rEof
  | wDone
  | idle (i : Nat)
  | reorder (i : Nat) (ob : OB)
  | parseStart (i : Nat)
  | retrStart (i : Nat) (j : Job)
  | emitStart (i : Nat) (e : EJob)
  | scanStart (i : Nat) (sp : Nat)
  | parseEnd (k : Option Nat)
  | retrEnd (j : Job) (k : Option Nat)
  | retrPost (e : EJob)
  | emitEnd (e : EJob)
  | scanEnd (st k : Nat)

/-- the thread that executes a section -/
def Sec.thread : Sec → Thread
  | .rTake | .rQuit | .rBlock | .rEmpty | .rEof => .reader
  | .wDone => .writer
  | .idle i | .reorder i _ | .parseStart i | .retrStart i _ | .emitStart i _ | .scanStart i _ =>
    .free i
  | .parseEnd _ => .parser
  | .retrEnd j k => .busy (.retr j k)
  | .retrPost e => .busy (.retr2 e)
  | .emitEnd e => .busy (.emit e)
  | .scanEnd st k => .busy (.scan st k)

/-- In state `s` the thread of the section is in the phase that leads to it
    (doing the unlocked work, waiting for the mutex, or inside the locked
    part).  For the fully locked sections of a job-less worker: the guard of
    the corresponding model transition holds. -/
def inProg (c : Cfg) (s : State) : Sec → Prop
  | .rTake => s.rph = .idle
  | .rQuit => s.rph = .idle
  | .rBlock => s.rph = .hold
  | .rEmpty => s.rph = .hold
  | .rEof => s.rph = .ateof
  | .wDone => 0 < s.outq
  | .idle _ => True
  | .reorder _ ob => (stepReorder c s ob).isSome = true
  | .parseStart _ => (stepParseStart c s).isSome = true
  | .retrStart _ j => (stepRetrStart c s j).isSome = true
  | .emitStart _ e => (stepEmitStart c s e).isSome = true
  | .scanStart _ sp => (stepScanStart c s sp).isSome = true
  | .parseEnd k => s.pphase = some k
  | .retrEnd j k => Phase.retr j k ∈ s.busy
  | .retrPost e => Phase.retr2 e ∈ s.busy
  | .emitEnd e => Phase.emit e ∈ s.busy
  | .scanEnd st k => Phase.scan st k ∈ s.busy

/-! ## Footprints -/

def S : List Lock := [.sched]
/-- `source_release_buffer` / `source_close` called from inside the scheduler
    monitor (expand.c:344, 403, 464, 489) -/
def SS : List Lock := [.sched, .source]

/-- the queue members whose key a `pqueue` operation / a guard may read
    (`up_heap`/`down_heap`, `peek(q)->…`, the `blk->size` loop of `attach()`,
    expand.c:290-295).  Over-approximation: any member. -/
def members (c : Cfg) (s : State) : List DVar :=
  s.retrQ.map (fun j => .retrBlk j.base) ++ s.emitQ.map (fun e => .emitBlk e.base) ++
    s.reordQ.map (fun o => .outBlk o.base o.idx) ++ s.scanQ.map (fun sp => .scanD (sp / c.W)) ++
    (List.range' s.head (s.rd - s.head)).map .inBlk

/-- what the guards read: `can_reorder` (expand.c:748-754), `can_parse`
    (426-430, `can_attach` 252-258), `can_emit` (693-699), `can_retrieve`
    (587-590), `can_scan` (797-801), `can_terminate` (876-881); `select_task`
    (process.c:555-568) reads `process->tasks` and writes `next_task`;
    `sched_unlock` (630-636) reads `next_task` again. -/
def guardReads : List DVar :=
  [.cfg .process, .reordQ, .orderQ, .parsingDone, .parseToken, .workUnits, .parserBs, .headOffs,
   .tailOffs, .eof, .emitQ, .outSlots, .retrQ, .cfg .ultra, .scanQ, .cfg .numWorker,
   .cfg .totalOutSlots]

def selectFp (t : Thread) (c : Cfg) (s : State) : List Acc :=
  rds t S guardReads ++ rds t S (members c s) ++ [wr t S .nextTask, rd t S .nextTask]

/-- `attach()` (expand.c:261-310) at offset `p`: `blk->ref_count++` on the block
    that contains `p` (nothing if `p = tail_offs`) -/
def attachFp (t : Thread) (c : Cfg) (s : State) (p : Nat) : List Acc :=
  if p < tailOffs c s then [rd t S (.inBlk (p / c.W)), wr t S (.inBlk (p / c.W))] else []

/-- the unlocked reads of the input buffer between `attach()` and `detach()` -/
def bufRead (t : Thread) : Option Nat → List Acc
  | some k => [rd t [] (.inBuf k)]
  | none => []

/-- `detach()` (expand.c:313-349) on the attached block: `blk->offset`,
    `blk->size`, `--blk->ref_count` -/
def detachFp (t : Thread) : Option Nat → List Acc
  | some k => [rd t S (.inBlk k), wr t S (.inBlk k)]
  | none => []

/-- the input blocks thread `t` may free in its locked part (`detach()`:343-346,
    `advance()`:394-406, do_parse:484-492): pushed, not yet freed, and nobody
    else holds a reference.  Over-approximation of what the model releases
    (`detach`: `!attachedTo`; `advance`/`parseFinish`: `releaseCount` filters
    `!attachedTo`, both after the thread's own reference is gone). -/
def mayFree (s : State) (t : Thread) : List Nat :=
  (List.range s.rd).filter (fun k =>
    decide (alive s k) && (decide (attThreads s k = []) || decide (attThreads s k = [t])))

def releaseFp (t : Thread) (s : State) : List Acc :=
  wrs t S ((mayFree s t).map .inBuf) ++ rds t S ((mayFree s t).map .inBlk) ++
    wrs t S ((mayFree s t).map .inBlk) ++ [rd t SS .inSlots, wr t SS .inSlots]

/-- `discard(rb)` of queued jobs / `free(dequeue(scan_q))` in `advance()`
    (408-421) and do_parse FINISH (494-507) -/
def discardFp (t : Thread) (c : Cfg) (s : State) : List Acc :=
  wrs t S (s.retrQ.map (fun j => .retrBlk j.base)) ++
    wrs t S (s.scanQ.map (fun sp => .scanD (sp / c.W)))

/-- bases of the unord_blk objects alive -/
def unordBases (s : State) : List Nat :=
  (s.retrQ.filter (fun j => j.ub.isSome)).map (·.base) ++
    s.busy.flatMap (fun ph => match ph with
      | .retr j _ => if j.ub.isSome then [j.base] else []
      | _ => []) ++
    s.orphans.map (·.base)

/-- any access to any unord_blk, under the lock -/
def unordFp (t : Thread) (s : State) : List Acc :=
  rds t S ((unordBases s).map .unordBlk) ++ wrs t S ((unordBases s).map .unordBlk)

/-- `process->finished()` (process.c:587) = `can_terminate` -/
def finishedReads : List DVar :=
  [.cfg .process, .eof, .parsingDone, .parseToken, .workUnits, .cfg .numWorker, .outSlots,
   .cfg .totalOutSlots]

/-- the accesses of a section (its unlocked lead-in first, then the locked
    part), evaluated in the state in which the locked part starts -/
def fp (c : Cfg) (s : State) : Sec → List Acc
  -- process.c:402-416
  | .rTake =>
    [rd .reader [.source] .inSlots, rd .reader [.source] .requestClose,
     wr .reader [.source] .inSlots]
  -- process.c:402-411
  | .rQuit => [rd .reader [.source] .inSlots, rd .reader [.source] .requestClose]
  -- process.c:418-429 (XNMALLOC, xread), on_input_avail expand.c:885-920: in_blk,
  -- padding, scan task, `tail_offs` read WITHOUT the lock (895-897); then the
  -- locked part 905-919; on the `parsing_done` exit (906-911) the three objects
  -- are freed outside the lock and `in_slots++` under `source_mutex`
  | .rBlock =>
    [rd .reader [] (.cfg .inGranul), wr .reader [] (.inBuf s.rd), rd .reader [] .ispecTotal,
     wr .reader [] .ispecTotal, rd .reader [] (.cfg .process), wr .reader [] (.inBlk s.rd),
     rd .reader [] .tailOffs, wr .reader [] (.scanD s.rd)] ++
      rds .reader S [.parsingDone, .tailOffs, .inputQ, .scanQ] ++
      wrs .reader S [.eofMissing, .inputQ, .scanQ] ++
      [wr .reader S .tailOffs, rd .reader S (.inBlk s.rd), rd .reader S (.scanD s.rd)] ++
      selectFp .reader c s ++
      [rd .reader [.source] .inSlots, wr .reader [.source] .inSlots]
  -- process.c:418-427, 445-454
  | .rEmpty =>
    [rd .reader [] (.cfg .inGranul), wr .reader [] (.inBuf s.rd), rd .reader [] .ispecTotal,
     wr .reader [] .ispecTotal, rd .reader [.source] .inSlots, wr .reader [.source] .inSlots]
  -- process.c:435-437
  | .rEof => [wr .reader S .eof] ++ selectFp .reader c s
  -- process.c:508-523 (xwrite), on_write_complete expand.c:923-934
  | .wDone =>
    [rd .writer [.sink] .outputQ, rd .writer [.sink] .finish, wr .writer [.sink] .outputQ,
     rd .writer [] (.sinkBuf (s.written.length - s.outq)), rd .writer [] .ospecTotal,
     wr .writer [] .ospecTotal, rd .writer [] (.cfg .process),
     wr .writer [] (.sinkBuf (s.written.length - s.outq)), rd .writer [] (.cfg .verbose),
     rd .writer [] (.cfg .ispecSize), rd .writer S .outSlots, wr .writer S .outSlots] ++
      selectFp .writer c s
  -- process.c:578, 587-594, 609-610
  | .idle i => rd (.free i) S .nextTask :: rds (.free i) S finishedReads
  -- process.c:578-584, do_reorder expand.c:756-793 (the push into output_q
  -- additionally under sink_mutex, process.c:468-481; only the POINTER is
  -- handed over)
  | .reorder i ob =>
    [rd (.free i) S .nextTask] ++ rds (.free i) S [.reordQ, .orderQ, .reordOffs, .outSlots] ++
      wrs (.free i) S [.reordQ, .orderQ, .reordOffs, .outSlots] ++
      [rd (.free i) S (.outBlk ob.base ob.idx), wr (.free i) S (.outBlk ob.base ob.idx),
       rd (.free i) [.sched, .sink] .outputQ, wr (.free i) [.sched, .sink] .outputQ] ++
      selectFp (.free i) c s
  -- do_parse expand.c:443-445 + attach()
  | .parseStart i =>
    [rd (.free i) S .nextTask] ++
      rds (.free i) S [.parseToken, .workUnits, .parserBs, .headOffs, .tailOffs, .eof, .inputQ] ++
      wrs (.free i) S [.parseToken, .workUnits] ++ attachFp (.free i) c s s.ppos ++
      selectFp (.free i) c s
  -- do_retrieve expand.c:600-603 + attach()
  | .retrStart i j =>
    [rd (.free i) S .nextTask] ++
      rds (.free i) S [.retrQ, .parsingDone, .headOffs, .tailOffs, .eof, .inputQ] ++
      wrs (.free i) S [.retrQ] ++ [rd (.free i) S (.retrBlk j.base)] ++
      attachFp (.free i) c s j.curr ++ selectFp (.free i) c s
  -- do_emit expand.c:708-711
  | .emitStart i e =>
    [rd (.free i) S .nextTask] ++ rds (.free i) S [.outSlots, .emitQ] ++
      wrs (.free i) S [.outSlots, .emitQ] ++ [rd (.free i) S (.emitBlk e.base)] ++
      selectFp (.free i) c s
  -- do_scan expand.c:811-822 + attach()
  | .scanStart i sp =>
    [rd (.free i) S .nextTask] ++
      rds (.free i) S [.parsingDone, .workUnits, .scanQ, .parserBs, .headOffs, .tailOffs, .eof,
        .inputQ] ++
      wrs (.free i) S [.workUnits, .scanQ] ++ [rd (.free i) S (.scanD (sp / c.W))] ++
      attachFp (.free i) c s sp ++ selectFp (.free i) c s
  -- do_parse: `parse()` unlocked (449: `par`, the input buffer), then detach(),
  -- advance() and everything up to 583 under the lock
  | .parseEnd k =>
    [rd .parser [] .par, wr .parser [] .par] ++ bufRead .parser k ++ detachFp .parser k ++
      releaseFp .parser s ++
      rds .parser S [.parserBs, .headOffs, .tailOffs, .eofMissing, .inputQ, .retrQ, .scanQ,
        .unordQ, .orderQ, .parseToken, .parsingDone, .workUnits, .cfg .inGranul] ++
      wrs .parser S [.parserBs, .headOffs, .inputQ, .retrQ, .scanQ, .unordQ, .orderQ,
        .parseToken, .parsingDone, .workUnits] ++
      [rd .parser SS .inSlots, wr .parser SS .requestClose] ++ discardFp .parser c s ++
      unordFp .parser s ++ selectFp .parser c s
  -- do_retrieve: `retrieve()` unlocked (609: own retr_blk + decoder, the input
  -- buffer), then detach() and 612-671 under the lock
  | .retrEnd j k =>
    [rd (.busy (.retr j k)) [] (.retrBlk j.base), wr (.busy (.retr j k)) [] (.retrBlk j.base)] ++
      bufRead (.busy (.retr j k)) k ++ detachFp (.busy (.retr j k)) k ++
      releaseFp (.busy (.retr j k)) s ++
      [rd (.busy (.retr j k)) S (.retrBlk j.base), wr (.busy (.retr j k)) S (.retrBlk j.base)] ++
      rds (.busy (.retr j k)) S [.parsingDone, .parserBs, .headOffs, .tailOffs, .inputQ, .retrQ,
        .scanQ, .unordQ, .parseToken, .workUnits, .cfg .inGranul] ++
      wrs (.busy (.retr j k)) S [.parserBs, .headOffs, .inputQ, .retrQ, .scanQ, .unordQ,
        .parseToken, .workUnits] ++
      discardFp (.busy (.retr j k)) c s ++ unordFp (.busy (.retr j k)) s ++
      selectFp (.busy (.retr j k)) c s
  -- do_retrieve expand.c:672-688: decode(), XMALLOC(emit_blk), copy, free(rb)
  -- unlocked; `enqueue(emit_q, eb)` under the lock
  | .retrPost e =>
    [rd (.busy (.retr2 e)) [] (.retrBlk e.base), wr (.busy (.retr2 e)) [] (.retrBlk e.base),
     wr (.busy (.retr2 e)) [] (.emitBlk e.base)] ++
      rds (.busy (.retr2 e)) S [.emitQ] ++ wrs (.busy (.retr2 e)) S [.emitQ] ++
      [rd (.busy (.retr2 e)) S (.emitBlk e.base)] ++ selectFp (.busy (.retr2 e)) c s
  -- do_emit expand.c:713-743: xmalloc(out_blk), emit() unlocked; the enqueues
  -- and `work_units++` under the lock
  | .emitEnd e =>
    [rd (.busy (.emit e)) [] (.cfg .outGranul), rd (.busy (.emit e)) [] (.emitBlk e.base),
     wr (.busy (.emit e)) [] (.emitBlk e.base), wr (.busy (.emit e)) [] (.outBlk e.base e.idx)] ++
      rds (.busy (.emit e)) S [.emitQ, .reordQ, .workUnits] ++
      wrs (.busy (.emit e)) S [.emitQ, .reordQ, .workUnits] ++
      [rd (.busy (.emit e)) S (.emitBlk e.base), rd (.busy (.emit e)) S (.outBlk e.base e.idx)] ++
      selectFp (.busy (.emit e)) c s
  -- do_scan: `scan()` unlocked (826: the input buffer), then detach() and
  -- 827-872 under the lock
  | .scanEnd st k =>
    bufRead (.busy (.scan st k)) (some k) ++ detachFp (.busy (.scan st k)) (some k) ++
      releaseFp (.busy (.scan st k)) s ++
      [rd (.busy (.scan st k)) S (.scanD k), wr (.busy (.scan st k)) S (.scanD k)] ++
      rds (.busy (.scan st k)) S [.parsingDone, .workUnits, .parserBs, .headOffs, .tailOffs,
        .unordQ, .retrQ, .scanQ, .cfg .inGranul] ++
      wrs (.busy (.scan st k)) S [.workUnits, .unordQ, .retrQ, .scanQ] ++
      unordFp (.busy (.scan st k)) s ++ selectFp (.busy (.scan st k)) c s

/-- the annotated system: expansion with configuration `c` (which contains the
    worker count, the slot totals, the candidate set and the parse / retrieve
    functions).  States in which `failf` has been called are excluded: `failf`
    exits the process, and the model stops there. -/
def sys (c : Cfg) : System State Thread DVar Sec where
  reach := fun s => Reach c s ∧ s.failed = false
  inProg := inProg c
  fp := fp c
  disc := disc c

end LbzVerif.Model.Race.D
