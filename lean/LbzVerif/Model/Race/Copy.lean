/-
  Model.Race.Copy — the race annotation of the `-cdf` copy pipeline
  (`Model.Copy`: reader thread, writer thread, and the main thread sitting in
  `halt()` / `uninit_io()`; src/process.c:730-785).

  `Model.Copy.St` keeps buffers as values; to give them identities the state is
  instrumented with two ghost counters: `nPush` = number of
  `sink_write_buffer` calls so far, `nShift` = number of `shift(output_q)` so
  far.  Buffer `k` (variable `CVar.inBlk k`: the `uint8_t[in_granul]` array
  allocated at process.c:420) is
    * with the reader while it is the `nPush`-th buffer and the reader is
      between `XNMALLOC` and `sink_write_buffer` (`reading`/`got`/`pushing`),
    * in `output_q` (sink monitor) while `nShift ≤ k < nPush`,
    * with the writer while `k + 1 = nShift` and the writer is between `shift`
      and `free` (`writing`/`release`).
  The ghost counters do not influence the transitions (`gstep_proj`).
-/
import LbzVerif.Model.Copy
import LbzVerif.Model.Race.SchedC

namespace LbzVerif.Model.Race.Cp
open LbzVerif.Model.Copy
open LbzVerif.Model.Race.C (Thread CVar CfgVar Acc ind)

/-- `Model.Copy.St` + ghost counters -/
structure GSt where
  st : St
  nPush : Nat
  nShift : Nat
  deriving Repr, DecidableEq

def ginit (hdr inp : List UInt8) : GSt := ⟨init hdr inp, 0, 0⟩

/-- the instrumented step: `Model.Copy.step` plus counting -/
def gstep (g : GSt) (l : Label) : Option GSt :=
  (step g.st l).map fun s' =>
    ⟨s', g.nPush + (if l = .srcPush then 1 else 0), g.nShift + (if l = .snkShift then 1 else 0)⟩

theorem gstep_proj {g g' : GSt} {l : Label} (h : gstep g l = some g') : step g.st l = some g'.st := by
  unfold gstep at h
  cases hs : step g.st l with
  | none => simp [hs] at h
  | some s' => simp only [hs, Option.map_some, Option.some.injEq] at h; rw [← h]

inductive GReach (g0 : GSt) : GSt → Prop
  | refl : GReach g0 g0
  | step {g g' : GSt} (l : Label) : GReach g0 g → gstep g l = some g' → GReach g0 g'

/-- every reachable state of `Model.Copy` is the projection of a reachable
    instrumented state -/
theorem greach_of_reach {hdr inp : List UInt8} {s : St} (h : Reach (init hdr inp) s) :
    ∃ g, GReach (ginit hdr inp) g ∧ g.st = s := by
  induction h with
  | refl => exact ⟨_, .refl, rfl⟩
  | step l _ hs ih =>
    obtain ⟨g, hg, rfl⟩ := ih
    refine ⟨⟨_, g.nPush + (if l = .srcPush then 1 else 0),
      g.nShift + (if l = .snkShift then 1 else 0)⟩, .step l hg ?_, rfl⟩
    simp only [gstep, hs, Option.map_some]

/-! ## Holders -/

def srcHolds : Src → Bool
  | .reading _ _ | .got _ _ | .pushing _ _ => true
  | _ => false

def snkHolds : Snk → Bool
  | .writing _ | .release => true
  | _ => false

inductive Holder where
  | reader | outputQ | writer
  deriving DecidableEq, Repr

def Holder.owner : Holder → Owner Thread
  | .reader => .thread .reader
  | .outputQ => .lock .sink
  | .writer => .thread .writer

/-- holder `h` holds buffer `k` -/
def holds (g : GSt) (k : Nat) : Holder → Prop
  | .reader => k = g.nPush ∧ srcHolds g.st.src = true
  | .outputQ => g.nShift ≤ k ∧ k < g.nPush
  | .writer => k + 1 = g.nShift ∧ snkHolds g.st.snk = true

/-- fixed owners in copy mode: `out_slots`, `eof`, `next_task` under
    `sched_mutex`; `in_slots`, `request_close` under `source_mutex`;
    `output_q`, `finish` under `sink_mutex`; the configuration (`process`,
    `total_out_slots`, `in_granul`: written by `copy()` before `init_io()`)
    frozen; `ispec.total` reader-only, `ospec.total` writer-only. -/
def staticOwner : CVar → Option (Owner Thread)
  | .outSlots | .eof | .nextTask => some (.lock .sched)
  | .inSlots | .requestClose => some (.lock .source)
  | .outputQ | .finish => some (.lock .sink)
  | .ispecTotal => some (.thread .reader)
  | .ospecTotal => some (.thread .writer)
  | .cfg _ => some .frozen
  | _ => none

def owns (g : GSt) (v : CVar) (o : Owner Thread) : Prop :=
  match v with
  | .inBlk k => ∃ h, holds g k h ∧ o = h.owner
  | v => staticOwner v = some o

def disc : Discipline GSt Thread CVar := ⟨owns⟩

/-! ## Sections and footprints -/

inductive Sec where
  | srcTake | srcRead | srcRelease | srcDec | srcPush | srcEof
  | snkIdle | snkShift | snkWrite | snkRelease | snkInc
  | mainFinish
  deriving DecidableEq, Repr

def Sec.thread : Sec → Thread
  | .srcTake | .srcRead | .srcRelease | .srcDec | .srcPush | .srcEof => .reader
  | .snkIdle | .snkShift | .snkWrite | .snkRelease | .snkInc => .writer
  | .mainFinish => .main

def inProg (g : GSt) : Sec → Prop
  | .srcTake => g.st.src = .wait
  | .srcRead => ∃ b v, g.st.src = .reading b v
  | .srcRelease => ∃ b v, g.st.src = .got b v
  | .srcDec => ∃ b v, g.st.src = .got b v
  | .srcPush => ∃ b v, g.st.src = .pushing b v
  | .srcEof => g.st.src = .setEof
  | .snkIdle => g.st.snk = .idle
  | .snkShift => g.st.snk = .idle
  | .snkWrite => ∃ r, g.st.snk = .writing r
  | .snkRelease => g.st.snk = .release
  | .snkInc => g.st.snk = .inc
  -- `uninit_io` runs in the main thread once `halt()` returns; nothing in the
  -- model says when, so it is taken to be possible at any time
  | .mainFinish => True

def S : List Lock := [.sched]

/-- `sched_unlock` in copy mode (process.c:630-636): `select_task` walks the
    empty task list and sets `next_task = NULL`; `copy_terminate`
    (process.c:752-759) reads `eof`, `out_slots`, `total_out_slots` -/
def unlockFp (t : Thread) : List Acc :=
  [rd t S (.cfg .process), wr t S .nextTask, rd t S .nextTask, rd t S .eof, rd t S .outSlots,
   rd t S (.cfg .totalOutSlots)]

def fp (g : GSt) : Sec → List Acc
  -- process.c:402-416
  | .srcTake =>
    [rd .reader [.source] .inSlots, rd .reader [.source] .requestClose,
     wr .reader [.source] .inSlots]
  -- process.c:418-421, xread 110-140 (one `read(2)` per model step)
  | .srcRead =>
    [rd .reader [] (.cfg .inGranul), wr .reader [] (.inBlk g.nPush), rd .reader [] .ispecTotal,
     wr .reader [] .ispecTotal]
  -- process.c:426-427, 445-454 (`avail == 0`)
  | .srcRelease =>
    [wr .reader [] (.inBlk g.nPush), rd .reader [.source] .inSlots, wr .reader [.source] .inSlots]
  -- process.c:429, 730-735
  | .srcDec =>
    [rd .reader [] (.cfg .process), rd .reader S .outSlots, wr .reader S .outSlots] ++
      unlockFp .reader
  -- process.c:737, 468-481 (the pointer is queued; the buffer is not touched)
  | .srcPush => [rd .reader [.sink] .outputQ, wr .reader [.sink] .outputQ]
  -- process.c:435-437
  | .srcEof => wr .reader S .eof :: unlockFp .reader
  -- process.c:508-515, 547
  | .snkIdle => [rd .writer [.sink] .outputQ, rd .writer [.sink] .finish]
  -- process.c:508-518
  | .snkShift =>
    [rd .writer [.sink] .outputQ, rd .writer [.sink] .finish, wr .writer [.sink] .outputQ]
  -- process.c:521, xwrite 142-169 (one `write(2)` per model step); 525-543
  | .snkWrite =>
    [rd .writer [] (.inBlk (g.nShift - 1)), rd .writer [] .ospecTotal, wr .writer [] .ospecTotal,
     rd .writer [] (.cfg .verbose), rd .writer [] (.cfg .ispecSize)]
  -- process.c:523, 741-744, 445-454
  | .snkRelease =>
    [rd .writer [] (.cfg .process), wr .writer [] (.inBlk (g.nShift - 1)),
     rd .writer [.source] .inSlots, wr .writer [.source] .inSlots]
  -- process.c:746-748
  | .snkInc => [rd .writer S .outSlots, wr .writer S .outSlots] ++ unlockFp .writer
  -- process.c:670-673
  | .mainFinish => [rd .main [.sink] .finish, wr .main [.sink] .finish]

/-- the annotated copy pipeline -/
def sys (hdr inp : List UInt8) : System GSt Thread CVar Sec where
  reach := GReach (ginit hdr inp)
  inProg := inProg
  fp := fp
  disc := disc

end LbzVerif.Model.Race.Cp
