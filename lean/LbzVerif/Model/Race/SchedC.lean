/-
  Model.Race.SchedC — the race annotation of the compression scheduler
  (`Model.SchedC`): threads, shared variables and heap objects, who holds each
  heap object in a state, and — for every atomic section of the model together
  with the unlocked work that precedes it — the list of accesses it performs
  with the locks held.  Written by reading src/compress.c and src/process.c line
  by line (line numbers of the pinned tree are cited).

  Heap objects are identified by position keys:
    * `inBlk m`   — input chunk `m` = the `uint8_t` buffer `xread` fills plus
                    the `struct in_blk` wrapped around it (`pos.major = m`; the
                    same object survives re-queuing with `++pos.minor`);
    * `workBlk x` — the `struct work_blk` with `pos = x` and its encoder
                    (`enc`, freed at the end of `do_transmit`);
    * `outBuf x`  — the compressed buffer `wblk->buffer` of the block at `x`
                    (allocated in `do_transmit`, freed in `on_write_complete`).

  What is NOT annotated: the `KJN_LBZIP2_VERIF` hooks (one of them,
  `verif_dump_compress`, reads `next_id` under `sched_mutex` while the reader
  increments it outside — an instrumentation-only race, see the report), the
  pthread objects themselves, `Trace()` (compiled out), and everything
  `primary_thread` does before `init_io()` / after the joins (single-threaded).
-/
import LbzVerif.Model.SchedC
import LbzVerif.Model.Race

namespace LbzVerif.Model.Race.C
open LbzVerif.Model.SchedC

/-! ## Threads, variables -/

/-- `main` = the thread in `schedule()`/`halt()` (touches none of the variables
    below while the others run); worker 0 is `primary_thread`. -/
inductive Thread where
  | main | reader | writer
  | worker (i : Nat)
  deriving DecidableEq, Repr

/-- written only before the threads are created (`main()`,
    `set_memory_constraints()`, `schedule()`; src/process.c:791, 803-822) -/
inductive CfgVar where
  | bs100k | numWorker | ultra | totalOutSlots | inGranul | process | verbose | ispecSize
  deriving DecidableEq, Repr

inductive CVar where
  -- src/process.c:240-243, 267 — scheduler monitor
  | workUnits | outSlots | eof | nextTask
  -- src/compress.c:62-69 — scheduler monitor
  | collQ | transQ | reordQ | order | collectToken | unfinished | combinedCrc
  -- src/compress.c:66 `next_id`: reader thread only (compress.c:278)
  | nextId
  -- `ispec.total` (xread, process.c:137): reader only; `ospec.total`
  -- (xwrite, process.c:147): writer only
  | ispecTotal | ospecTotal
  -- src/process.c:242, 249 — source monitor
  | inSlots | requestClose
  -- src/process.c:262-263 — sink monitor
  | outputQ | finish
  | cfg (k : CfgVar)
  -- heap objects
  | inBlk (id : Nat)
  | workBlk (p : Pos)
  | outBuf (p : Pos)
  deriving DecidableEq, Repr

abbrev Acc := Access Thread CVar

/-! ## Holders of heap objects -/

inductive Queue where
  | coll | trans | reord | unfinished | output
  deriving DecidableEq, Repr

/-- `output_q` belongs to the sink monitor, everything else to the scheduler -/
def Queue.lock : Queue → Lock
  | .output => .sink
  | _ => .sched

inductive Holder where
  | queue (q : Queue)
  | thread (t : Thread)
  deriving DecidableEq, Repr

def Holder.owner : Holder → Owner Thread
  | .queue q => .lock q.lock
  | .thread t => .thread t

/-- 1 if `p` -/
def ind (p : Prop) [Decidable p] : Nat := if p then 1 else 0

section
variable {α σ : Type}

/-- the worker holds input chunk `m` -/
def inCnt (m : Nat) : WPhase α σ → Nat
  | .c1 ib => ind (ib.pos.major = m)
  | .s1 _ (some ib) => ind (ib.pos.major = m)
  | _ => 0

/-- the worker holds the work_blk (+ encoder) with key `x`.  In `c1 ib` and
    `s1 none (some ib)` it is the block being allocated from `ib`
    (`wblk->pos = iblk->pos`, compress.c:91, 161). -/
def wbCnt (x : Pos) : WPhase α σ → Nat
  | .c1 ib => ind (ib.pos = x)
  | .c2 w => ind (w.pos = x)
  | .s1 (some w) _ => ind (w.pos = x)
  | .s1 none (some ib) => ind (ib.pos = x)
  | .s2 w _ => ind (w.pos = x)
  | .t1 w => ind (w.pos = x)
  | _ => 0

/-- the worker holds the compressed buffer with key `x` (`do_transmit`) -/
def obCnt (x : Pos) : WPhase α σ → Nat
  | .t1 w => ind (w.pos = x)
  | _ => 0

def cntI (m : Nat) (q : List (IBlk α)) : Nat := (q.map (fun ib => ind (ib.pos.major = m))).sum
def cntW (x : Pos) (q : List (WBlk σ)) : Nat := (q.map (fun w => ind (w.pos = x))).sum
def cntO (x : Pos) : Option (WBlk σ) → Nat
  | some w => ind (w.pos = x)
  | none => 0

/-- phase of worker `i` (`exited` for a non-existent worker) -/
def phaseOf (s : State α σ) (i : Nat) : WPhase α σ := (s.ws[i]?).getD .exited

/-- how many times `h` holds input chunk `m` -/
def inHold (s : State α σ) (m : Nat) : Holder → Nat
  | .queue .coll => cntI m s.collQ
  | .thread (.worker i) => inCnt m (phaseOf s i)
  | .thread .reader => ind (s.rd = .hold ∧ m = s.nextId)
  | _ => 0

/-- how many times `h` holds the work_blk (+ encoder) with key `x` -/
def wbHold (s : State α σ) (x : Pos) : Holder → Nat
  | .queue .trans => cntW x s.transQ
  | .queue .reord => cntW x s.reordQ
  | .queue .unfinished => cntO x s.unfinished
  | .thread (.worker i) => wbCnt x (phaseOf s i)
  | _ => 0

/-- how many times `h` holds the compressed buffer with key `x` -/
def obHold (s : State α σ) (x : Pos) : Holder → Nat
  | .queue .reord => cntW x s.reordQ
  | .queue .output => cntW x s.outputQ
  | .thread .writer => cntO x s.wr
  | .thread (.worker i) => obCnt x (phaseOf s i)
  | _ => 0

/-- how many times holder `h` holds heap object `v` in state `s` (the theorems
    show it is never more than once, and that all holders together hold it at
    most once) -/
def holdCnt (s : State α σ) : CVar → Holder → Nat
  | .inBlk m, h => inHold s m h
  | .workBlk x, h => wbHold s x h
  | .outBuf x, h => obHold s x h
  | _, _ => 0

/-- holder `h` holds heap object `v` -/
def holds (s : State α σ) (v : CVar) (h : Holder) : Prop := 0 < holdCnt s v h

/-- the heap object is live -/
def live (s : State α σ) (v : CVar) : Prop := ∃ h, holds s v h

/-! ## The discipline -/

/-- the fixed owner of a global variable (`none` for heap objects) -/
def staticOwner : CVar → Option (Owner Thread)
  | .workUnits | .outSlots | .eof | .nextTask => some (.lock .sched)
  | .collQ | .transQ | .reordQ | .order | .collectToken | .unfinished | .combinedCrc =>
    some (.lock .sched)
  | .nextId | .ispecTotal => some (.thread .reader)
  | .ospecTotal => some (.thread .writer)
  | .inSlots | .requestClose => some (.lock .source)
  | .outputQ | .finish => some (.lock .sink)
  | .cfg _ => some .frozen
  | .inBlk _ | .workBlk _ | .outBuf _ => none

/-- owner of `v` in state `s`: the static one, or — for a heap object — the
    lock of the queue that holds it / the thread that holds it -/
def owns (s : State α σ) (v : CVar) (o : Owner Thread) : Prop :=
  match staticOwner v with
  | some o' => o = o'
  | none => ∃ h, holds s v h ∧ o = h.owner

def disc : Discipline (State α σ) Thread CVar := ⟨owns⟩

/-! ## Sections -/

/-- The atomic sections of `Model.SchedC` (one per `Core` constructor), each
    taken together with the unlocked work its thread does before it, plus
    `wIdle` (the writer's wait loop / exit test) and `finishIO` (the part of
    `uninit_io` that runs while the writer thread is still alive). -/
inductive Sec (α σ : Type) where
  | rTake | rDeliver | rEmpty | rEof
  | wIdle | wTake
  | wDone (b : WBlk σ)
  | acquire (i : Nat)
  | spurious (i : Nat)
  | runCollect (i : Nat)
  | runCollectSeq (i : Nat)
  | runTransmit (i : Nat)
  | runReorder (i : Nat) (w : WBlk σ)
  | runWait (i : Nat)
  | runExit (i : Nat)
  | c1Requeue (i : Nat) (ib : IBlk α)
  | c1Release (i : Nat) (ib : IBlk α)
  | c2Enq (i : Nat) (w : WBlk σ)
  | t1Enq (i : Nat) (w : WBlk σ)
  | s1Requeue (i : Nat) (wo : Option (WBlk σ)) (ib : IBlk α)
  | s1Release (i : Nat) (wo : Option (WBlk σ)) (ib : IBlk α)
  | s1Flush (i : Nat) (w : WBlk σ)
  | s2Full (i : Nat) (w : WBlk σ)
  | s2Part (i : Nat) (w : WBlk σ)
  | finishIO

/-- the thread that executes a section -/
def Sec.thread : Sec α σ → Thread
  | .rTake | .rDeliver | .rEmpty | .rEof => .reader
  | .wIdle | .wTake | .wDone _ => .writer
  | .acquire i | .spurious i | .runCollect i | .runCollectSeq i | .runTransmit i
  | .runReorder i _ | .runWait i | .runExit i | .c1Requeue i _ | .c1Release i _ | .c2Enq i _
  | .t1Enq i _ | .s1Requeue i _ _ | .s1Release i _ _ | .s1Flush i _ | .s2Full i _
  | .s2Part i _ => .worker i
  | .finishIO => .worker 0

/-- key of the work_blk `do_collect_seq` works on (compress.c:145, 158-166) -/
def seqKey (wo : Option (WBlk σ)) (ib : IBlk α) : Pos :=
  match wo with
  | some w => w.pos
  | none => ib.pos

/-- In state `s` the thread of the section is in the phase that leads to it
    (doing the unlocked work, waiting for the mutex, or inside the locked
    part).  Deliberately WITHOUT the `lockFree` guard of `step`: a worker in
    `c1` does its unlocked work no matter who holds `sched_mutex`. -/
def inProg (cd : Codec α σ) (s : State α σ) : Sec α σ → Prop
  | .rTake => s.rd = .idle
  | .rDeliver => s.rd = .hold
  | .rEmpty => s.rd = .hold
  | .rEof => s.rd = .eofPending
  | .wIdle => s.wr = none
  | .wTake => s.wr = none
  | .wDone b => s.wr = some b
  | .acquire i => s.ws[i]? = some .ready
  | .spurious i => s.ws[i]? = some .waiting
  | .runCollect i => s.ws[i]? = some .atHead ∧ s.nextTask = some .collect
  | .runCollectSeq i => s.ws[i]? = some .atHead ∧ s.nextTask = some .collectSeq
  | .runTransmit i => s.ws[i]? = some .atHead ∧ s.nextTask = some .transmit
  | .runReorder i w => s.ws[i]? = some .atHead ∧ s.nextTask = some .reorder ∧ s.reordQ.head? = some w
  | .runWait i => s.ws[i]? = some .atHead ∧ s.nextTask = none
  | .runExit i => s.ws[i]? = some .atHead ∧ s.nextTask = none
  | .c1Requeue i ib => s.ws[i]? = some (.c1 ib) ∧ (collectOn cd cd.init ib.data).2.1 ≠ []
  | .c1Release i ib => s.ws[i]? = some (.c1 ib) ∧ (collectOn cd cd.init ib.data).2.1 = []
  | .c2Enq i w => s.ws[i]? = some (.c2 w)
  | .t1Enq i w => s.ws[i]? = some (.t1 w)
  | .s1Requeue i wo ib => s.ws[i]? = some (.s1 wo (some ib))
  | .s1Release i wo ib => s.ws[i]? = some (.s1 wo (some ib))
  | .s1Flush i w => s.ws[i]? = some (.s1 (some w) none)
  | .s2Full i w => s.ws[i]? = some (.s2 w true)
  | .s2Part i w => s.ws[i]? = some (.s2 w false)
  | .finishIO => s.ws[0]? = some .exited

/-! ## Footprints -/

def S : List Lock := [.sched]

/-- the `struct position`s a `pqueue` operation on `coll_q` may compare
    (`up_heap`/`down_heap`, process.c:176-228, dereference `*root[..]`, i.e. the
    `pos` field — first member — of queued in_blks) -/
def collMembers (s : State α σ) : List CVar := s.collQ.map (fun ib => .inBlk ib.pos.major)
def transMembers (s : State α σ) : List CVar := s.transQ.map (fun w => .workBlk w.pos)
def reordMembers (s : State α σ) : List CVar := s.reordQ.map (fun w => .workBlk w.pos)

/-- what the guards read: `can_collect` (compress.c:72-76), `can_collect_seq`
    (129-135), `can_transmit` (210-216, incl. `peek(trans_q)->pos`),
    `can_reorder` (243-247, incl. `peek(reord_q)->pos`), `can_terminate`
    (265-270); `select_task` (process.c:555-568) reads `process->tasks` and
    writes `next_task`; `sched_unlock` (630-636) reads `next_task` again.
    Over-approximation: all guards, and `peek` may be any queue member. -/
def guardReads : List CVar :=
  [.cfg .ultra, .collQ, .workUnits, .collectToken, .eof, .unfinished, .transQ, .outSlots, .order,
   .reordQ, .cfg .numWorker, .cfg .totalOutSlots, .cfg .process]

def selectFp (t : Thread) (s : State α σ) : List Acc :=
  rds t S guardReads ++ rds t S (transMembers s) ++ rds t S (reordMembers s) ++
    [wr t S .nextTask, rd t S .nextTask]

/-- `process->finished()` alone (process.c:587) -/
def finishedFp (t : Thread) : List Acc :=
  rds t S [.cfg .process, .eof, .collQ, .workUnits, .cfg .numWorker, .outSlots,
           .cfg .totalOutSlots]

/-- unlocked part of `do_collect` / `do_collect_seq` on in_blk `m` building
    work_blk `x`: compress.c:89-105 / 157-175 (XMALLOC, `encoder_init` with
    `bs100k`, `collect()` reads the chunk and fills the encoder, updates
    `iblk->left/next/pos.minor`, `wblk->next`) -/
def collectWork (t : Thread) (m : Nat) (x : Pos) : List Acc :=
  [rd t [] (.cfg .bs100k), rd t [] (.inBlk m), wr t [] (.inBlk m), rd t [] (.workBlk x),
   wr t [] (.workBlk x)]

/-- `sched_lock(); enqueue(coll_q, iblk); sched_unlock()` (compress.c:110-112,
    179-181, 285-287) -/
def enqColl (t : Thread) (s : State α σ) (m : Nat) : List Acc :=
  [rd t S .collQ, wr t S .collQ, rd t S (.inBlk m)] ++ rds t S (collMembers s) ++ selectFp t s

/-- `source_release_buffer(iblk->buffer); free(iblk)` (compress.c:117-118,
    186-187; process.c:445-454): the frees are unlocked, `in_slots++` is under
    `source_mutex` -/
def releaseIn (t : Thread) (m : Nat) : List Acc :=
  [wr t [] (.inBlk m), rd t [.source] .inSlots, wr t [.source] .inSlots]

/-- the accesses of a section (its unlocked lead-in first, then the locked
    part), evaluated in the state in which the locked part starts -/
def fp (s : State α σ) : Sec α σ → List Acc
  -- process.c:402-416
  | .rTake =>
    [rd .reader [.source] .inSlots, rd .reader [.source] .requestClose,
     wr .reader [.source] .inSlots]
  -- process.c:418-429 (buffer = XNMALLOC; xread: process.c:110-140), then
  -- on_input_avail compress.c:273-288 (`next_id++` OUTSIDE sched_mutex)
  | .rDeliver =>
    [rd .reader [] (.cfg .inGranul), wr .reader [] (.inBlk s.nextId),
     rd .reader [] .ispecTotal, wr .reader [] .ispecTotal, rd .reader [] (.cfg .process),
     rd .reader [] .nextId, wr .reader [] .nextId] ++ enqColl .reader s s.nextId
  -- process.c:418-427, 445-454
  | .rEmpty =>
    [rd .reader [] (.cfg .inGranul), wr .reader [] (.inBlk s.nextId),
     rd .reader [.source] .inSlots, wr .reader [.source] .inSlots]
  -- process.c:435-437
  | .rEof => [wr .reader S .eof] ++ selectFp .reader s
  -- process.c:508-515, 547
  | .wIdle => [rd .writer [.sink] .outputQ, rd .writer [.sink] .finish]
  -- process.c:508-518
  | .wTake =>
    [rd .writer [.sink] .outputQ, rd .writer [.sink] .finish, wr .writer [.sink] .outputQ]
  -- process.c:520-523 (xwrite: 142-169), 525-543 (progress), compress.c:290-299
  | .wDone b =>
    [rd .writer [] (.outBuf b.pos), rd .writer [] .ospecTotal, wr .writer [] .ospecTotal,
     rd .writer [] (.cfg .process), wr .writer [] (.outBuf b.pos),
     rd .writer [] (.cfg .verbose), rd .writer [] (.cfg .ispecSize),
     rd .writer S .outSlots, wr .writer S .outSlots] ++ selectFp .writer s
  -- process.c:574 / return from xwait (594): mutex only
  | .acquire _ => []
  | .spurious _ => []
  -- process.c:578-584, compress.c:85-87
  | .runCollect i =>
    [rd (.worker i) S .nextTask, rd (.worker i) S .collQ, wr (.worker i) S .collQ,
     rd (.worker i) S .workUnits, wr (.worker i) S .workUnits] ++
      rds (.worker i) S (collMembers s) ++ selectFp (.worker i) s
  -- process.c:578-584, compress.c:145-155
  | .runCollectSeq i =>
    [rd (.worker i) S .nextTask, rd (.worker i) S .unfinished, wr (.worker i) S .unfinished,
     rd (.worker i) S .workUnits, wr (.worker i) S .workUnits, rd (.worker i) S .collQ,
     wr (.worker i) S .collQ, wr (.worker i) S .collectToken] ++
      rds (.worker i) S (collMembers s) ++ selectFp (.worker i) s
  -- process.c:578-584, compress.c:224-226
  | .runTransmit i =>
    [rd (.worker i) S .nextTask, rd (.worker i) S .transQ, wr (.worker i) S .transQ,
     rd (.worker i) S .outSlots, wr (.worker i) S .outSlots] ++
      rds (.worker i) S (transMembers s) ++ selectFp (.worker i) s
  -- process.c:578-584, compress.c:255-261 (all under sched_mutex; the push
  -- into output_q additionally under sink_mutex, process.c:468-481; only the
  -- POINTER `wblk->buffer` is copied, the buffer is not touched)
  | .runReorder i w =>
    [rd (.worker i) S .nextTask, rd (.worker i) S .reordQ, wr (.worker i) S .reordQ,
     rd (.worker i) S (.workBlk w.pos), wr (.worker i) S .order,
     rd (.worker i) [.sched, .sink] .outputQ, wr (.worker i) [.sched, .sink] .outputQ,
     rd (.worker i) S .combinedCrc, wr (.worker i) S .combinedCrc,
     wr (.worker i) S (.workBlk w.pos)] ++
      rds (.worker i) S (reordMembers s) ++ selectFp (.worker i) s
  -- process.c:578, 587-594
  | .runWait i => rd (.worker i) S .nextTask :: finishedFp (.worker i)
  -- process.c:578, 587-588, 609-610
  | .runExit i => rd (.worker i) S .nextTask :: finishedFp (.worker i)
  -- compress.c:89-112
  | .c1Requeue i ib =>
    collectWork (.worker i) ib.pos.major ib.pos ++ enqColl (.worker i) s ib.pos.major
  -- compress.c:89-105, 114-119
  | .c1Release i ib =>
    collectWork (.worker i) ib.pos.major ib.pos ++ releaseIn (.worker i) ib.pos.major
  -- compress.c:122-125 / 203-206 (`encode` works on the encoder only), then
  -- enqueue(trans_q) and, back in worker_thread_proc, select_task (584)
  | .c2Enq i w =>
    [rd (.worker i) [] (.workBlk w.pos), wr (.worker i) [] (.workBlk w.pos),
     rd (.worker i) S .transQ, wr (.worker i) S .transQ, rd (.worker i) S (.workBlk w.pos)] ++
      rds (.worker i) S (transMembers s) ++ selectFp (.worker i) s
  -- compress.c:228-239 (XNMALLOC buffer, transmit, free(enc)), select_task
  | .t1Enq i w =>
    [rd (.worker i) [] (.workBlk w.pos), wr (.worker i) [] (.workBlk w.pos),
     wr (.worker i) [] (.outBuf w.pos),
     rd (.worker i) S .workUnits, wr (.worker i) S .workUnits,
     rd (.worker i) S .reordQ, wr (.worker i) S .reordQ, rd (.worker i) S (.workBlk w.pos)] ++
      rds (.worker i) S (reordMembers s) ++ selectFp (.worker i) s
  -- compress.c:157-182
  | .s1Requeue i wo ib =>
    collectWork (.worker i) ib.pos.major (seqKey wo ib) ++ enqColl (.worker i) s ib.pos.major
  -- compress.c:157-175, 183-188
  | .s1Release i wo ib =>
    collectWork (.worker i) ib.pos.major (seqKey wo ib) ++ releaseIn (.worker i) ib.pos.major
  -- compress.c:157-169 (nothing to do: wblk != NULL, iblk == NULL), 198-200
  | .s1Flush i _ => wr (.worker i) S .collectToken :: selectFp (.worker i) s
  -- compress.c:191, 198-200
  | .s2Full i _ => wr (.worker i) S .collectToken :: selectFp (.worker i) s
  -- compress.c:191-196, process.c:584
  | .s2Part i _ =>
    [wr (.worker i) S .collectToken, wr (.worker i) S .unfinished] ++ selectFp (.worker i) s
  -- process.c:670-673 (primary thread = worker 0, after it left
  -- worker_thread_proc; the writer thread is still running)
  | .finishIO => [rd (.worker 0) [.sink] .finish, wr (.worker 0) [.sink] .finish]

/-- the annotated system: compression with `c`, `cd`, `input` -/
def sys (c : Cfg) (cd : Codec α σ) (input : List α) :
    System (State α σ) Thread CVar (Sec α σ) where
  reach := Reach c cd input
  inProg := inProg cd
  fp := fp
  disc := disc

end

end LbzVerif.Model.Race.C
