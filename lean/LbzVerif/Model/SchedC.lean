/-
  Model.SchedC — the COMPRESSION scheduler of lbzip2 (src/compress.c + the
  generic machinery of src/process.c) as a labelled transition system.

  * Parametric in an uninterpreted codec `Codec α σ` (`init` = a fresh
    `encoder_init`, `collect st bytes = (st', consumed, full)` = what
    `collect()` does to an encoder state when offered `bytes`).  Nothing is
    assumed about it in the model; theorems that need it say so
    (`Codec.OK`).  C04's `pack` is an instance.
  * The state is what the C statics are BETWEEN atomic sections of
    `sched_mutex`.  A worker that holds `sched_mutex` across the
    `while (next_task != NULL)` loop of `worker_thread_proc` is in phase
    `atHead`; every other section acquires and releases the mutex inside one
    transition, so "mutex free" = "no worker is `atHead`".
  * Transitions are split at every `sched_lock`/`sched_unlock` exactly as the
    C functions are.  `next_task` is a stored variable, recomputed at every
    `sched_unlock` and after every `run()` (never when a worker merely
    acquires the mutex) and workers run the STORED `next_task`.
  * `pthread_cond_signal` wakes exactly one waiter (which one is part of the
    label); `spurious` wake-ups are a separate label so that safety
    invariants cover them and the progress theorems can exclude them.
  * Guards / priority order / thresholds / capacities / slot formulas are the
    GENERATED ones (`Gen.SchedC`, `Gen.Consts`, `Gen.Process`).
-/
import LbzVerif.Gen.SchedC
import LbzVerif.Gen.Process

namespace LbzVerif.Model.SchedC
open LbzVerif.Gen

/-! ## Positions, blocks, codec -/

/-- `struct position` -/
structure Pos where
  major : Nat
  minor : Nat
  deriving DecidableEq, Repr, Hashable, Inhabited

/-- `pos_lt` -/
def Pos.lt (a b : Pos) : Bool :=
  decide (a.major < b.major) || (decide (a.major = b.major) && decide (a.minor < b.minor))

/-- `++p.minor` -/
def Pos.incMinor (p : Pos) : Pos := ⟨p.major, p.minor + 1⟩
/-- `++p.major; p.minor = 0` -/
def Pos.incMajor (p : Pos) : Pos := ⟨p.major + 1, 0⟩

/-- `struct in_blk`: position and the bytes not yet collected
    (`next .. next+left`). -/
structure IBlk (α : Type) where
  pos : Pos
  data : List α
  deriving DecidableEq, Repr, Hashable

/-- `struct work_blk`: `enc` stands for the encoder state and everything
    computed from it (`buffer`, `size`, `crc`, `weight`). -/
structure WBlk (σ : Type) where
  pos : Pos
  next : Pos
  enc : σ
  deriving DecidableEq, Repr, Hashable

/-- The uninterpreted block collector. -/
structure Codec (α σ : Type) where
  /-- `encoder_init` -/
  init : σ
  /-- `collect(enc, next, &left)`: new encoder state, bytes consumed,
      return value (block is full). -/
  collect : σ → List α → σ × Nat × Bool

/-- Facts about the real `collect()` that progress theorems and the
    canonical block list need (they are theorems about `Model.collect`, C04):
    a fresh encoder takes at least one byte; a call that does not fill the
    block has consumed everything; never more than offered. -/
structure Codec.OK {α σ : Type} (cd : Codec α σ) : Prop where
  fresh : ∀ r : List α, r ≠ [] → 1 ≤ (cd.collect cd.init r).2.1
  notFull : ∀ (s : σ) (r : List α), (cd.collect s r).2.2 = false → r.length ≤ (cd.collect s r).2.1
  le : ∀ (s : σ) (r : List α), (cd.collect s r).2.1 ≤ r.length

/-! ## Configuration -/

structure Cfg where
  /-- `num_worker` -/
  n : Nat
  /-- `--sequential` (`ultra`) -/
  ultra : Bool
  totalIn : Nat
  totalOut : Nat
  inGranul : Nat
  deriving DecidableEq, Repr

/-- The configuration `set_memory_constraints()` computes (generated). -/
def Cfg.ofGen (n bs100k : Nat) (ultra : Bool) : Cfg :=
  let m := memCompress n bs100k
  { n := n, ultra := ultra, totalIn := m.1, totalOut := m.2.1, inGranul := m.2.2.1 }

/-- The extents given to `pqueue_init` in `init()` (generated):
    `(coll_q, trans_q, reord_q)`. -/
def Cfg.caps (c : Cfg) : Nat × Nat × Nat := cCaps c.totalIn c.n c.totalOut

/-! ## Tasks -/

inductive Task where
  | collectSeq | reorder | transmit | collect
  deriving DecidableEq, Repr, Hashable

def Task.name : Task → String
  | .collectSeq => "collect_seq"
  | .reorder => "reorder"
  | .transmit => "transmit"
  | .collect => "collect"

def Task.ofName (s : String) : Option Task :=
  if s = "collect_seq" then some .collectSeq
  else if s = "reorder" then some .reorder
  else if s = "transmit" then some .transmit
  else if s = "collect" then some .collect
  else none

/-- `task_list[]` in the generated priority order. -/
def taskOrder : List Task := cTaskOrder.filterMap Task.ofName

/-- Every generated task name is known to the model (fails to compile if a
    task is added to `task_list[]`). -/
theorem taskOrder_names : taskOrder.map Task.name = cTaskOrder := by decide

/-- the generated guard of a task -/
def Task.ready (t : Task) (v : CView) : Bool :=
  match t with
  | .collectSeq => cCanCollectSeq v
  | .reorder => cCanReorder v
  | .transmit => cCanTransmit v
  | .collect => cCanCollect v

/-- `select_task()` -/
def selectTask (v : CView) : Option Task := taskOrder.find? (fun t => t.ready v)

/-! ## Thread phases -/

/-- Where a worker thread is. -/
inductive WPhase (α σ : Type) where
  /-- runnable, wants `sched_mutex` (just spawned, or woken from `xwait`) -/
  | ready
  /-- blocked in `xwait(&sched_cond, …)` -/
  | waiting
  /-- holds `sched_mutex`, at the test `while (next_task != NULL)` -/
  | atHead
  /-- left `worker_thread_proc` -/
  | exited
  /-- `do_collect` after its first `sched_unlock` (holds the in_blk and a unit) -/
  | c1 (ib : IBlk α)
  /-- encoding (`do_collect`/`do_collect_seq`), then `sched_lock; enqueue(trans_q)` -/
  | c2 (w : WBlk σ)
  /-- `do_collect_seq` after its first `sched_unlock` -/
  | s1 (w : Option (WBlk σ)) (ib : Option (IBlk α))
  /-- `do_collect_seq` after the in_blk was re-queued / released; `full` = `done` -/
  | s2 (w : WBlk σ) (full : Bool)
  /-- `do_transmit` after its `sched_unlock` (holds a unit and an out slot) -/
  | t1 (w : WBlk σ)
  deriving DecidableEq, Repr, Hashable

def WPhase.isAtHead {α σ} : WPhase α σ → Bool
  | .atHead => true
  | _ => false

def WPhase.isWaiting {α σ} : WPhase α σ → Bool
  | .waiting => true
  | _ => false

def WPhase.isExited {α σ} : WPhase α σ → Bool
  | .exited => true
  | _ => false

/-- reader thread (`source_thread_proc`) -/
inductive RPhase where
  /-- top of the loop, needs `in_slots > 0` -/
  | idle
  /-- took a slot (`in_slots--`), about to `xread` -/
  | hold
  /-- left the loop, about to `sched_lock; eof = 1` -/
  | eofPending
  | done
  deriving DecidableEq, Repr, Hashable

/-! ## State -/

structure State (α σ : Type) where
  /-- input not yet read -/
  input : List α
  rd : RPhase
  nextId : Nat
  inSlots : Nat
  eof : Bool
  collQ : List (IBlk α)
  transQ : List (WBlk σ)
  reordQ : List (WBlk σ)
  order : Pos
  workUnits : Nat
  outSlots : Nat
  collectToken : Bool
  unfinished : Option (WBlk σ)
  nextTask : Option Task
  ws : List (WPhase α σ)
  /-- `output_q` of the sink -/
  outputQ : List (WBlk σ)
  /-- buffer the writer thread is writing -/
  wr : Option (WBlk σ)
  /-- everything passed to `sink_write_buffer`, in call order (observable) -/
  handed : List (WBlk σ)
  /-- everything `xwrite` has finished, in order -/
  written : List (WBlk σ)
  deriving DecidableEq, Repr, Hashable

/-! ## Priority queues (`pqueue`): lists kept sorted by position -/

def insI {α} (x : IBlk α) : List (IBlk α) → List (IBlk α)
  | [] => [x]
  | y :: l => if x.pos.lt y.pos then x :: y :: l else y :: insI x l

def insW {σ} (x : WBlk σ) : List (WBlk σ) → List (WBlk σ)
  | [] => [x]
  | y :: l => if x.pos.lt y.pos then x :: y :: l else y :: insW x l

/-! ## Guard view -/

def headIs {σ} (q : List (WBlk σ)) (p : Pos) : Bool :=
  match q with
  | [] => false
  | w :: _ => decide (w.pos = p)

def view {α σ} (c : Cfg) (s : State α σ) : CView :=
  { ultra := c.ultra
    eof := s.eof
    collectToken := s.collectToken
    unfinished := s.unfinished.map (fun _ => ())
    workUnits := s.workUnits
    outSlots := s.outSlots
    numWorker := c.n
    totalOutSlots := c.totalOut
    collEmpty := s.collQ.isEmpty
    transEmpty := s.transQ.isEmpty
    reordEmpty := s.reordQ.isEmpty
    transHeadIsOrder := headIs s.transQ s.order
    reordHeadIsOrder := headIs s.reordQ s.order }

/-- `process->finished()` -/
def finished {α σ} (c : Cfg) (s : State α σ) : Bool := cCanTerminate (view c s)

/-- `sched_mutex` is free -/
def lockFree {α σ} (s : State α σ) : Bool := s.ws.all (fun p => !p.isAtHead)

/-! ## Condition variable -/

/-- `xsignal(&sched_cond)`: wake waiter `k`; if nobody waits the signal is
    lost (any `k`). -/
def signal {α σ} (ws : List (WPhase α σ)) (k : Nat) : Option (List (WPhase α σ)) :=
  if ws.any (·.isWaiting) then
    match ws[k]? with
    | some .waiting => some (ws.set k .ready)
    | _ => none
  else some ws

/-- `xbroadcast(&sched_cond)` -/
def broadcast {α σ} (ws : List (WPhase α σ)) : List (WPhase α σ) :=
  ws.map (fun p => if p.isWaiting then .ready else p)

/-- `select_task()` alone (after `run()` returns, mutex kept). -/
def reselect {α σ} (c : Cfg) (s : State α σ) : State α σ :=
  { s with nextTask := selectTask (view c s) }

/-- `sched_unlock()`: `select_task`, then signal if a task is ready or the
    process has finished. -/
def unlock {α σ} (c : Cfg) (s : State α σ) (k : Nat) : Option (State α σ) :=
  let s1 := reselect c s
  if s1.nextTask.isSome || finished c s1 then
    (signal s1.ws k).map (fun ws => { s1 with ws := ws })
  else some s1

def setW {α σ} (s : State α σ) (i : Nat) (p : WPhase α σ) : State α σ :=
  { s with ws := s.ws.set i p }

/-! ## Labels -/

inductive Label where
  /-- reader: `in_slots--` under `source_mutex` -/
  | rTake
  /-- reader: `xread` got a chunk; `on_input_avail` (one section) -/
  | rDeliver (k : Nat)
  /-- reader: `xread` got nothing; `source_release_buffer` -/
  | rEmpty
  /-- reader: `sched_lock; eof = 1; sched_unlock` -/
  | rEof (k : Nat)
  /-- writer: `shift(output_q)` under `sink_mutex` -/
  | wTake
  /-- writer: `xwrite` done; `on_write_complete` (one section) -/
  | wDone (k : Nat)
  /-- worker `i` (ready) obtains `sched_mutex` -/
  | acquire (i : Nat)
  /-- worker `i` at the loop head: first section of `next_task`, or the whole
      of `do_reorder` (+ `select_task`), or `xwait`, or exit -/
  | run (i : Nat) (k : Nat)
  /-- worker `i` inside a task: its next section -/
  | cont (i : Nat) (k : Nat)
  /-- spurious wake-up of worker `i` -/
  | spurious (i : Nat)
  deriving DecidableEq, Repr, Hashable

def Label.isSpurious : Label → Bool
  | .spurious _ => true
  | _ => false

/-! ## Transitions -/

section Step
variable {α σ : Type}

/-- result of one `collect()` call on an in_blk: (encoder state, what is left
    of the chunk, full) -/
def collectOn (cd : Codec α σ) (enc : σ) (data : List α) : σ × List α × Bool :=
  let r := cd.collect enc data
  (r.1, data.drop r.2.1, r.2.2)

theorem collectOn_length_le (cd : Codec α σ) (e : σ) (d : List α) :
    (collectOn cd e d).2.1.length ≤ d.length := by
  simp only [collectOn, List.length_drop]; omega

/-- first section of `next_task` (or all of `do_reorder`) for worker `i`
    which is `atHead`. -/
def runTask (c : Cfg) (s : State α σ) (i k : Nat) (t : Task) : Option (State α σ) :=
  match t with
  | .collect =>
    match s.collQ with
    | [] => none
    | ib :: q =>
      if s.workUnits = 0 then none else
      unlock c (setW { s with collQ := q, workUnits := s.workUnits - 1 } i (.c1 ib)) k
  | .collectSeq =>
    if s.unfinished.isNone && s.workUnits == 0 then none else
    let wu := if s.unfinished.isNone then s.workUnits - 1 else s.workUnits
    unlock c (setW { s with unfinished := none, workUnits := wu,
                            collQ := s.collQ.tail, collectToken := false }
                i (.s1 s.unfinished s.collQ.head?)) k
  | .transmit =>
    match s.transQ with
    | [] => none
    | w :: q =>
      if s.outSlots = 0 then none else
      unlock c (setW { s with transQ := q, outSlots := s.outSlots - 1 } i (.t1 w)) k
  | .reorder =>
    match s.reordQ with
    | [] => none
    | w :: q =>
      some (reselect c { s with reordQ := q, order := w.next,
                                outputQ := s.outputQ ++ [w], handed := s.handed ++ [w] })

/-- worker `i` at the head of the loop of `worker_thread_proc`. -/
def runHead (c : Cfg) (s : State α σ) (i k : Nat) : Option (State α σ) :=
  match s.nextTask with
  | some t => runTask c s i k t
  | none =>
    if finished c s then some { s with ws := broadcast (s.ws.set i .exited) }
    else some (setW s i .waiting)

/-- the next section of the task worker `i` is in. -/
def contTask (c : Cfg) (cd : Codec α σ) (s : State α σ) (i k : Nat) :
    WPhase α σ → Option (State α σ)
  | .c1 ib =>
    let r := collectOn cd cd.init ib.data
    if r.2.1 ≠ [] then
      if lockFree s then
        unlock c (setW { s with collQ := insI ⟨ib.pos.incMinor, r.2.1⟩ s.collQ } i
                    (.c2 ⟨ib.pos, ib.pos.incMinor, r.1⟩)) k
      else none
    else
      some (setW { s with inSlots := s.inSlots + 1 } i (.c2 ⟨ib.pos, ib.pos.incMajor, r.1⟩))
  | .c2 w =>
    if lockFree s then
      some (reselect c (setW { s with transQ := insW w s.transQ } i .atHead))
    else none
  | .t1 w =>
    if lockFree s then
      some (reselect c (setW { s with workUnits := s.workUnits + 1,
                                      reordQ := insW w s.reordQ } i .atHead))
    else none
  | .s1 wo (some ib) =>
    let w0 : WBlk σ := wo.getD ⟨ib.pos, ib.pos, cd.init⟩
    let r := collectOn cd w0.enc ib.data
    if r.2.1 ≠ [] then
      if lockFree s then
        unlock c (setW { s with collQ := insI ⟨ib.pos.incMinor, r.2.1⟩ s.collQ } i
                    (.s2 ⟨w0.pos, w0.next.incMinor, r.1⟩ r.2.2)) k
      else none
    else
      some (setW { s with inSlots := s.inSlots + 1 } i
              (.s2 ⟨w0.pos, w0.next.incMajor, r.1⟩ r.2.2))
  | .s1 (some w) none =>
    -- `iblk == NULL`: `done` stays true
    if lockFree s then
      unlock c (setW { s with collectToken := true } i (.c2 w)) k
    else none
  | .s1 none none => none      -- `assert(iblk != NULL)`
  | .s2 w true =>
    if lockFree s then
      unlock c (setW { s with collectToken := true } i (.c2 w)) k
    else none
  | .s2 w false =>
    if lockFree s then
      some (reselect c (setW { s with collectToken := true, unfinished := some w } i .atHead))
    else none
  | _ => none

/-- The labelled transition function. -/
def step (c : Cfg) (cd : Codec α σ) (s : State α σ) : Label → Option (State α σ)
  | .rTake =>
    if s.rd = .idle ∧ 0 < s.inSlots then some { s with rd := .hold, inSlots := s.inSlots - 1 }
    else none
  | .rDeliver k =>
    if s.rd = .hold ∧ s.input ≠ [] ∧ lockFree s then
      let chunk := s.input.take c.inGranul
      unlock c { s with input := s.input.drop c.inGranul
                        collQ := insI ⟨⟨s.nextId, 0⟩, chunk⟩ s.collQ
                        nextId := s.nextId + 1
                        rd := if chunk.length < c.inGranul then .eofPending else .idle } k
    else none
  | .rEmpty =>
    if s.rd = .hold ∧ s.input = [] then
      some { s with rd := .eofPending, inSlots := s.inSlots + 1 }
    else none
  | .rEof k =>
    if s.rd = .eofPending ∧ lockFree s then unlock c { s with eof := true, rd := .done } k
    else none
  | .wTake =>
    match s.wr, s.outputQ with
    | none, b :: q => some { s with wr := some b, outputQ := q }
    | _, _ => none
  | .wDone k =>
    match s.wr with
    | some b =>
      if lockFree s then
        unlock c { s with wr := none, outSlots := s.outSlots + 1, written := s.written ++ [b] } k
      else none
    | none => none
  | .acquire i =>
    match s.ws[i]? with
    | some .ready => if lockFree s then some (setW s i .atHead) else none
    | _ => none
  | .run i k =>
    match s.ws[i]? with
    | some .atHead => runHead c s i k
    | _ => none
  | .cont i k =>
    match s.ws[i]? with
    | some p => contTask c cd s i k p
    | none => none
  | .spurious i =>
    match s.ws[i]? with
    | some .waiting => some (setW s i .ready)
    | _ => none

end Step

/-! ## Initial and final states, reachability -/

/-- State when the worker threads start: `primary_thread` has reset the
    counters, `init()` the queues, `order`, `next_id`, and `select_task()` ran;
    `collect_token`/`unfinished_work` are whatever the previous run left
    (static initialisers for the first run). -/
def initWith {α σ} (c : Cfg) (input : List α) (token : Bool) (unf : Option (WBlk σ)) :
    State α σ :=
  reselect c
    { input := input, rd := .idle, nextId := 0, inSlots := c.totalIn, eof := false
      collQ := [], transQ := [], reordQ := [], order := ⟨0, 0⟩
      workUnits := c.n, outSlots := c.totalOut
      collectToken := token, unfinished := unf, nextTask := none
      ws := List.replicate c.n .ready
      outputQ := [], wr := none, handed := [], written := [] }

def init {α σ} (c : Cfg) (input : List α) : State α σ := initWith c input true none

/-- every thread has finished (what `primary_thread` sees after the joins) -/
def isFinal {α σ} (s : State α σ) : Bool :=
  s.ws.all (·.isExited) && decide (s.rd = .done) && s.outputQ.isEmpty && s.wr.isNone

/-- reachable states (every interleaving, spurious wake-ups included) -/
inductive Reach {α σ} (c : Cfg) (cd : Codec α σ) (input : List α) : State α σ → Prop where
  | init : Reach c cd input (init c input)
  | step {s s' : State α σ} (l : Label) : Reach c cd input s → step c cd s l = some s' →
      Reach c cd input s'

/-- reachable without spurious wake-ups -/
inductive ReachNS {α σ} (c : Cfg) (cd : Codec α σ) (input : List α) : State α σ → Prop where
  | init : ReachNS c cd input (init c input)
  | step {s s' : State α σ} (l : Label) : ReachNS c cd input s → l.isSpurious = false →
      step c cd s l = some s' → ReachNS c cd input s'

theorem ReachNS.reach {α σ} {c : Cfg} {cd : Codec α σ} {input : List α} {s : State α σ}
    (h : ReachNS c cd input s) : Reach c cd input s := by
  induction h with
  | init => exact .init
  | step l _ _ hs ih => exact .step l ih hs

/-! ## Resource accounting (who holds what) -/

/-- work units held by a worker in this phase -/
def WPhase.units {α σ} : WPhase α σ → Nat
  | .c1 _ | .c2 _ | .s1 _ _ | .s2 _ _ | .t1 _ => 1
  | _ => 0

/-- output slots held by a worker in this phase -/
def WPhase.slots {α σ} : WPhase α σ → Nat
  | .t1 _ => 1
  | _ => 0

/-- input chunks (in_blk + buffer) held by a worker in this phase -/
def WPhase.chunks {α σ} : WPhase α σ → Nat
  | .c1 _ | .s1 _ (some _) => 1
  | _ => 0

/-- the worker holds `collect_token` (it is inside `do_collect_seq` between
    `collect_token = false` and `collect_token = true`) -/
def WPhase.tok {α σ} : WPhase α σ → Nat
  | .s1 _ _ | .s2 _ _ => 1
  | _ => 0

/-- 1 for `true` -/
def boolCount : Bool → Nat
  | true => 1
  | false => 0

/-- 1 for `some`, 0 for `none` -/
def optCount {β : Type} : Option β → Nat
  | some _ => 1
  | none => 0

/-- the reader holds an input buffer -/
def RPhase.chunks : RPhase → Nat
  | .hold => 1
  | _ => 0

/-- encoders (`encoder_alloc_size` bytes each) alive = work units in use -/
def unitHolders {α σ} (s : State α σ) : Nat :=
  (s.ws.map WPhase.units).sum + s.transQ.length + optCount s.unfinished

/-- compressed buffers alive = output slots in use -/
def slotHolders {α σ} (s : State α σ) : Nat :=
  (s.ws.map WPhase.slots).sum + s.reordQ.length + s.outputQ.length + optCount s.wr

/-- input chunks alive = input slots in use -/
def chunkHolders {α σ} (s : State α σ) : Nat :=
  (s.ws.map WPhase.chunks).sum + s.collQ.length + s.rd.chunks

/-- `Chain a ws b`: the blocks `ws` follow the `next` chain from `a` to `b`
    (strictly increasing, gap-free). -/
def Chain {σ} : Pos → List (WBlk σ) → Pos → Prop
  | a, [], b => a = b
  | a, w :: ws, b => w.pos = a ∧ w.pos.lt w.next = true ∧ Chain w.next ws b

/-- executable version of `Chain` -/
def chainB {σ} : Pos → List (WBlk σ) → Pos → Bool
  | a, [], b => decide (a = b)
  | a, w :: ws, b => decide (w.pos = a) && w.pos.lt w.next && chainB w.next ws b

/-! ## Canonical (schedule-free) block list -/

section Canon
variable {α σ : Type}
set_option linter.unusedVariables false

/-- blocks `do_collect` makes out of one in_blk (non-sequential mode) -/
def chunkBlocks (cd : Codec α σ) (pos : Pos) (data : List α) : List (WBlk σ) :=
  let r := collectOn cd cd.init data
  if _h : r.2.1 ≠ [] ∧ r.2.1.length < data.length then
    ⟨pos, pos.incMinor, r.1⟩ :: chunkBlocks cd pos.incMinor r.2.1
  else
    [⟨pos, if r.2.1 ≠ [] then pos.incMinor else pos.incMajor, r.1⟩]
termination_by data.length
decreasing_by exact _h.2

/-- the chunks `xread` delivers: the `g`-sized cut of the input, numbered -/
def cutChunks (g : Nat) (id : Nat) (input : List α) : List (IBlk α) :=
  if h : input ≠ [] ∧ 0 < g then
    ⟨⟨id, 0⟩, input.take g⟩ :: cutChunks g (id + 1) (input.drop g)
  else []
termination_by input.length
decreasing_by
  have : 0 < input.length := List.length_pos_iff.mpr h.1
  simp only [List.length_drop]; omega

/-- sequential mode: run `do_collect_seq` over in_blks in order, starting with
    the pending block `cur`; at the end the pending block is flushed. -/
def seqBlocks (cd : Codec α σ) (cur : Option (WBlk σ)) (ibs : List (IBlk α)) :
    List (WBlk σ) :=
  match ibs with
  | [] => match cur with
    | none => []
    | some w => [w]
  | ib :: rest =>
    let w0 : WBlk σ := cur.getD ⟨ib.pos, ib.pos, cd.init⟩
    let r := collectOn cd w0.enc ib.data
    if r.2.1 ≠ [] then
      -- in_blk is re-queued with `++pos.minor`
      if h : r.2.2 = true ∧ (r.2.1.length < ib.data.length ∨ cur.isSome) then
        ⟨w0.pos, w0.next.incMinor, r.1⟩ :: seqBlocks cd none (⟨ib.pos.incMinor, r.2.1⟩ :: rest)
      else [] -- not the behaviour of a `Codec.OK` collector (C would spin / mis-chain)
    else
      let w : WBlk σ := ⟨w0.pos, w0.next.incMajor, r.1⟩
      if r.2.2 then w :: seqBlocks cd none rest else seqBlocks cd (some w) rest
termination_by 2 * (ibs.map (fun ib => ib.data.length + 1)).sum + (if cur.isSome then 1 else 0)
decreasing_by
  · have h2 : r.2.1.length < ib.data.length ∨ cur.isSome := h.2
    simp only [r, w0] at h2
    simp only [List.map_cons, List.sum_cons, Option.isSome_none, Bool.false_eq_true, if_false]
    cases cur with
    | none =>
      have hle := collectOn_length_le cd cd.init ib.data
      simp only [Option.getD_none, Option.isSome_none, Bool.false_eq_true, or_false] at h2 ⊢
      simp only [if_false]; omega
    | some w' =>
      have hle := collectOn_length_le cd w'.enc ib.data
      simp only [Option.getD_some, Option.isSome_some, if_true] at h2 ⊢
      omega
  · simp only [List.map_cons, List.sum_cons, Option.isSome_none, Bool.false_eq_true, if_false]
    omega
  · simp only [List.map_cons, List.sum_cons, Option.isSome_some, if_true]
    omega

/-- The canonical block list: what a run produces, as a function of the input
    and the options only. -/
def canon (c : Cfg) (cd : Codec α σ) (input : List α) : List (WBlk σ) :=
  if c.ultra then seqBlocks cd none (cutChunks c.inGranul 0 input)
  else (cutChunks c.inGranul 0 input).flatMap (fun ib => chunkBlocks cd ib.pos ib.data)

end Canon

/-! ## `xread` / `xwrite` (src/process.c) over arbitrary short transfers -/

section XIO
variable {α : Type}

/-- `xread(buf, &vacant)`: `read()` is asked for `vacant` bytes and returns
    between 1 and that many (as many as the next element of `frags` says,
    clamped), 0 only at end of file; loop until `vacant = 0` or EOF.  When
    `frags` runs out the reads are full.  Result: (bytes stored, input left). -/
def xread : List α → Nat → List Nat → List α × List α
  | src, vacant, [] => (src.take vacant, src.drop vacant)
  | src, vacant, f :: fs =>
    if vacant = 0 then ([], src)
    else if src = [] then ([], [])
    else
      let r := min (max 1 f) (min vacant src.length)
      let rest := xread (src.drop r) (vacant - r) fs
      (src.take r ++ rest.1, rest.2)

/-- `xwrite(buf, size)`: `write()` accepts between 1 and `size` bytes per call
    (next element of `frags`, clamped); loop until everything is written.
    Result: the bytes that reached the file, in order. -/
def xwrite : List α → List Nat → List α
  | buf, [] => buf
  | buf, f :: fs =>
    if buf = [] then []
    else
      let r := min (max 1 f) buf.length
      buf.take r ++ xwrite (buf.drop r) fs

/-- the reader loop of `source_thread_proc` with an arbitrary fragmentation
    per `xread` call (`frags id`), producing numbered chunks -/
def readChunks (g : Nat) (frags : Nat → List Nat) : Nat → Nat → List α → List (IBlk α)
  | 0, _, _ => []
  | fuel + 1, id, src =>
    let r := xread src g (frags id)
    if r.1 = [] then []
    else if r.1.length < g then [⟨⟨id, 0⟩, r.1⟩]
    else ⟨⟨id, 0⟩, r.1⟩ :: readChunks g frags fuel (id + 1) r.2

end XIO

end LbzVerif.Model.SchedC
