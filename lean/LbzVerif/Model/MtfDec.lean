/-
  Model.MtfDec — executable model of decode.c's inverse move-to-front
  ("sliding lists", `mtf_one`) and of the part of `retrieve()` that consumes
  decoded symbols (zero-run accumulation `run`/`shift`, delayed writes of
  `runChar`, overflow test against `tt_limit`, EOB).

  Memory is modelled explicitly: `imtf_slide` is an array of `SLIDE_LENGTH`
  bytes, `imtf_row[i]` is the offset `imtf_row[i] - imtf_slide`.  Every read
  and write goes through `rd` / `wr`, which return `none` when the index is
  outside the array, and a pointer that would be decremented below
  `imtf_slide` also gives `none`; `Props.C08.slide_bounds` shows that `none`
  never happens.  No Mathlib.
-/
import LbzVerif.Gen.Consts
import LbzVerif.Gen.DecodeTab

namespace LbzVerif.Model.MtfDec
open LbzVerif.Gen

/-- `#define NUM_ROWS (256u / ROW_WIDTH)` -/
def NUM_ROWS : Nat := 256 / ROW_WIDTH
/-- `#define CMAP_BASE (SLIDE_LENGTH - 256)` -/
def CMAP_BASE : Nat := SLIDE_LENGTH - 256

/-- `imtf_slide[SLIDE_LENGTH]` and `imtf_row[NUM_ROWS]` (as offsets). -/
structure Slide where
  mem : Array UInt8
  row : List Nat

/-- checked read `imtf_slide[i]` -/
def rd (m : Array UInt8) (i : Nat) : Option UInt8 := m[i]?

/-- checked write `imtf_slide[i] = v` -/
def wr (m : Array UInt8) (i : Nat) (v : UInt8) : Option (Array UInt8) :=
  if i < m.size then some (m.setIfInBounds i v) else none

/-- `while (nn > 0) { pp[nn] = pp[nn-1]; nn--; }` with `pp = imtf_slide + base`
(the unrolled `switch` of the fast path, and `while (pp > bb) { tt = pp--;
*tt = *pp; }` of the general path, which is the same loop). -/
def shiftUp (m : Array UInt8) (base : Nat) : Nat → Option (Array UInt8)
  | 0 => some m
  | nn + 1 =>
    match rd m (base + nn) with
    | none => none
    | some v =>
      match wr m (base + nn + 1) v with
      | none => none
      | some m' => shiftUp m' base nn

/-- `while (bb > bg) *--kk = *--bb;` with `n = bb - bg` bytes still to copy.
Returns the memory and the final `kk`. -/
def copyDown (m : Array UInt8) (bg : Nat) (kk : Nat) : Nat → Option (Array UInt8 × Nat)
  | 0 => some (m, kk)
  | n + 1 =>
    if kk = 0 then none
    else
      match rd m (bg + n) with
      | none => none
      | some v =>
        match wr m (kk - 1) v with
        | none => none
        | some m' => copyDown m' bg (kk - 1) n

/-- `while (rr > imtf_row) { bg = *--rr; bb = bg + ROW_WIDTH; copy; *rr = kk; }` -/
def rebuildLoop (m : Array UInt8) (row : List Nat) (kk : Nat) :
    Nat → Option (Array UInt8 × List Nat)
  | 0 => some (m, row)
  | rr + 1 =>
    match row[rr]? with
    | none => none
    | some bg =>
      match copyDown m bg kk ROW_WIDTH with
      | none => none
      | some (m', kk') => rebuildLoop m' (row.set rr kk') kk' rr

/-- The rebuild executed when `imtf_row[0] == imtf_slide`. -/
def rebuild (s : Slide) : Option Slide :=
  match rebuildLoop s.mem s.row SLIDE_LENGTH NUM_ROWS with
  | none => none
  | some (m, row) => some ⟨m, row⟩

/-- `while (lno > imtf_row) { lno1 = lno; pp = --(*--lno); **lno1 = pp[ROW_WIDTH]; }`
Returns memory, rows and the final `pp`. -/
def slideLoop (m : Array UInt8) (row : List Nat) (pp : Nat) :
    Nat → Option (Array UInt8 × List Nat × Nat)
  | 0 => some (m, row, pp)
  | lno + 1 =>
    match row[lno]? with
    | none => none
    | some r =>
      if r = 0 then none                      -- pointer below imtf_slide
      else
        let pp' := r - 1
        let row' := row.set lno pp'
        match rd m (pp' + ROW_WIDTH) with
        | none => none
        | some v =>
          match row'[lno + 1]? with
          | none => none
          | some r1 =>
            match wr m r1 v with
            | none => none
            | some m' => slideLoop m' row' pp' lno

/-- `mtf_one(imtf_row, imtf_slide, c)`: returned byte and new state.  `none`:
`abort()` (c = 0) or an out-of-bounds access. -/
def mtfOne (s : Slide) (c : UInt8) : Option (UInt8 × Slide) :=
  let cn := c.toNat
  if cn < ROW_WIDTH then
    if cn = 0 then none                       -- switch: default: abort()
    else
      match s.row[0]? with
      | none => none
      | some pp =>
        match rd s.mem (pp + cn) with
        | none => none
        | some b =>
          match shiftUp s.mem pp cn with
          | none => none
          | some m1 =>
            match wr m1 pp b with
            | none => none
            | some m2 => some (b, ⟨m2, s.row⟩)
  else
    match s.row[0]? with
    | none => none
    | some r0 =>
      match (if r0 = 0 then rebuild s else some s) with
      | none => none
      | some s1 =>
        let lno := cn / ROW_WIDTH
        match s1.row[lno]? with
        | none => none
        | some bb =>
          match rd s1.mem (bb + cn % ROW_WIDTH) with
          | none => none
          | some b =>
            match shiftUp s1.mem bb (cn % ROW_WIDTH) with
            | none => none
            | some m1 =>
              match slideLoop m1 s1.row bb lno with
              | none => none
              | some (m2, row2, pp2) =>
                match wr m2 pp2 b with
                | none => none
                | some m3 => some (b, ⟨m3, row2⟩)

/-- `mtf_one` applied to a sequence of indices: returned bytes, final state. -/
def mtfMany : Slide → List UInt8 → Option (List UInt8 × Slide)
  | s, [] => some ([], s)
  | s, c :: cs =>
    match mtfOne s c with
    | none => none
    | some (b, s') =>
      match mtfMany s' cs with
      | none => none
      | some (bs, s'') => some (b :: bs, s'')

/-- The rows as set up by `retrieve()`:
`imtf_row[i] = imtf_slide + CMAP_BASE + i * ROW_WIDTH`. -/
def initRows : List Nat := (List.range NUM_ROWS).map (fun i => CMAP_BASE + i * ROW_WIDTH)

/-- A slide whose 256 list entries are `bytes` (padded with 0 / truncated to
256); the pool below `CMAP_BASE` is uninitialised in C, 0 here. -/
def slideOf (bytes : List UInt8) : Slide :=
  ⟨(List.replicate CMAP_BASE (0 : UInt8) ++ (bytes ++ List.replicate (256 - bytes.length) 0).take 256).toArray,
   initRows⟩

/-- The bitmap loop of `retrieve()`:
`imtf_slide[CMAP_BASE + alpha_size] = j++; alpha_size += bit;` for j = 0…255.
Returns the 256 bytes at `CMAP_BASE` (never-written ones 0) and `alpha_size`. -/
def bitmapLoop : List Bool → Nat → List UInt8 → Nat → List UInt8 × Nat
  | [], _, acc, a => (acc, a)
  | k :: rest, j, acc, a =>
    bitmapLoop rest (j + 1) (acc.set a (UInt8.ofNat j)) (a + (if k then 1 else 0))

def initSlide (inuse : List Bool) : Slide × Nat :=
  let r := bitmapLoop inuse 0 (List.replicate 256 0) 0
  (slideOf r.1, r.2)

/-- The logical MTF list: the 16 rows of 16 bytes, concatenated. -/
def absAt (s : Slide) (k : Nat) : UInt8 :=
  s.mem.getD (s.row.getD (k / ROW_WIDTH) 0 + k % ROW_WIDTH) 0

def abs (s : Slide) : List UInt8 := (List.range 256).map (absAt s)

/-! ### symbol consumption in `retrieve()` -/

/-- decode.c's internal symbol numbering, as produced by `make_tree`'s counting
sort from the bzip2 symbol `s` of an alphabet of `n + 2` symbols (`n` bytes in
use): `P[…] = RUN_A` for s = 0, `RUN_B` for s = 1, `s - 1` for
`2 ≤ s < alpha_size - 1`, `EOB` for `s = alpha_size - 1`. -/
def internalSym (n s : Nat) : Nat :=
  if s = 0 then 257 else if s = 1 then 258 else if s = n + 1 then 0 else s - 1

structure RunSt where
  sl : Slide
  runChar : UInt8
  run : Nat
  shift : Nat
  n : Nat                 -- `tt - ds->tt`
  out : List UInt8        -- bytes written to `tt`, most recent first
  ftab : List Nat

inductive Res where
  | ok (out : List UInt8) (ftab : List Nat)
  | overflow                                -- ERR_OVERFLOW
  | unterm                                  -- ERR_UNTERM (symbols exhausted)
  | ub                                      -- abort() / out-of-bounds / shift ≥ 32
  deriving Repr, DecidableEq

/-- `ds->ftab[runChar] += run; while (run-- > 0) *tt++ = runChar;` -/
def flush (st : RunSt) : RunSt :=
  { st with
    ftab := st.ftab.modify st.runChar.toNat (· + st.run)
    out := List.replicate st.run st.runChar ++ st.out
    n := st.n + st.run }

/-- State at the start of the MTF-value loop: `runChar = imtf_row[0][0];
run = 0; shift = 0; memset(ftab, 0)`. -/
def initRun (sl : Slide) : Option RunSt :=
  match sl.row[0]? with
  | none => none
  | some r0 =>
    match rd sl.mem r0 with
    | none => none
    | some b => some ⟨sl, b, 0, 0, 0, [], List.replicate 256 0⟩

/-- The loop body of `retrieve()` after a symbol `s` (internal numbering) has
been decoded, folded over the symbol sequence.  `limit` is `tt_limit - ds->tt`
(= MAX_BLOCK_SIZE in the C code). -/
def consume (limit : Nat) : RunSt → List Nat → Res
  | _, [] => .unterm
  | st, s :: ss =>
    if s = 0 then                                       -- IS_EOB
      if st.run > limit - st.n then .overflow
      else
        let st' := flush st
        .ok st'.out.reverse st'.ftab
    else if 256 ≤ s ∧ st.run ≤ MAX_BLOCK_SIZE then      -- IS_RUN(s) && run <= MAX_BLOCK_SIZE
      if 32 ≤ st.shift then .ub                         -- undefined shift of a 32-bit unsigned
      else
        consume limit
          { st with run := (st.run + ((s - 256) <<< st.shift) % 2 ^ 32) % 2 ^ 32
                    shift := st.shift + 1 } ss
    else if st.run > limit - st.n then .overflow
    else
      let st' := flush st
      match mtfOne st'.sl (UInt8.ofNat s) with          -- `uint8_t c` parameter
      | none => .ub
      | some (b, sl') =>
        consume limit { st' with sl := sl', runChar := b, shift := 0, run := 1 } ss

/-- `retrieve()`'s MTF-value stage on a bitmap and a bzip2-numbered symbol
sequence. -/
def retrieveSyms (inuse : List Bool) (syms : List Nat) (limit : Nat) : Res :=
  let i := initSlide inuse
  match initRun i.1 with
  | none => .ub
  | some st => consume limit st (syms.map (internalSym i.2))

end LbzVerif.Model.MtfDec
