/-
  Model.Copy — executable model of the `-cdf` fallback in src/process.c:

    * `xread()`  (lines 110-140): loop of `read(2)` calls, each of which may be
      short; stops at end of file (`rd == 0`) or when `*vacant == 0`;
    * the sniff in `work()` (lines 845-862): `xread(&header, &vacant)` with
      `vacant = sizeof(uint32_t)`, the `MAGIC(1) .. MAGIC(9)` range test
      (evaluated only when `vacant == 0`), the
      `force && ospec.fd == STDOUT_FILENO` fallback which first writes the
      `sizeof(header) - vacant` bytes already consumed and then calls `copy()`;
    * `copy()` / `copy_on_input_avail` / `copy_on_write_complete` /
      `copy_terminate` together with `source_thread_proc`, `sink_thread_proc`,
      `source_release_buffer`, `sink_write_buffer`, `sched_unlock` as a
      transition system whose steps are the critical sections and the single
      `read(2)` / `write(2)` calls of the two I/O threads.

  The constants come from `LbzVerif.Gen.Process` (regenerated from the source).

  What the code does and the model reproduces:
    * `out_slots` is `unsigned`; `copy_on_input_avail` decrements it without a
      guard.  The sink gives the input slot back (`source_release_buffer`)
      BEFORE it increments `out_slots`, so the source can run a third
      `out_slots--` while `out_slots == 0`: the counter wraps to 2^32-1 and
      comes back.  All counter arithmetic below is modulo 2^32.
    * `copy_terminate` (called as `process->finished()` from EVERY
      `sched_unlock`) raises SIGUSR2 when `eof && out_slots == total_out_slots`
      and always returns false.
    * `request_close` is never set in copy mode (`source_close` is only called
      by the decompressor), so the source's wait condition is `in_slots == 0`.
    * the observable is: bytes written to the output, in order, and the
      number of SIGUSR2 raised.
  Not modelled: `read`/`write` errors (fatal, property C21), `ispec.total` /
  `ospec.total` bookkeeping, the progress display.
-/
import LbzVerif.Gen.Process

namespace LbzVerif.Model.Copy

open LbzVerif.Gen

/-! ## `read(2)` and `xread` -/

/-- One `read(fd, buf, vacant)` with `avail` bytes left before end of file:
the kernel returns between 1 and `min vacant avail` bytes (the `hint` chosen by
the environment is clamped into that range), or 0 exactly at end of file. -/
def readSize (hint vacant avail : Nat) : Nat := min (max hint 1) (min vacant avail)

/-- Result of `xread`. -/
structure XRead where
  got : List UInt8      -- bytes stored into the buffer
  rest : List UInt8     -- input not yet consumed
  vacant : Nat          -- `*vacant` on return
  frag : List Nat       -- unused fragmentation hints
  deriving Repr, DecidableEq

/-- The loop of `xread`; `fuel` bounds the number of `read(2)` calls (every call
that does not end the loop stores at least one byte, so `vacant` calls are
enough). -/
def xreadGo : Nat → List UInt8 → Nat → List Nat → XRead
  | 0, inp, vacant, frag => ⟨[], inp, vacant, frag⟩
  | fuel + 1, inp, vacant, frag =>
    if vacant = 0 then ⟨[], inp, 0, frag⟩
    else
      let rd := readSize (frag.headD vacant) vacant inp.length
      if rd = 0 then ⟨[], inp, vacant, frag.tail⟩       -- `if (0 == rd) break;`
      else
        let r := xreadGo fuel (inp.drop rd) (vacant - rd) frag.tail
        ⟨inp.take rd ++ r.got, r.rest, r.vacant, r.frag⟩

/-- `xread(buf, &vacant)`.  `frag` lists the sizes the successive `read(2)`
calls are inclined to return (missing entries: as much as asked). -/
def xread (inp : List UInt8) (vacant : Nat) (frag : List Nat) : XRead :=
  xreadGo vacant inp vacant frag

/-! ## The sniff in `work()` -/

/-- `sizeof(uint32_t header)`. -/
def sniffLen : Nat := 4

/-- `ntohl(header)` when the four bytes in memory are `b`. -/
def be32 : List UInt8 → Nat
  | [a, b, c, d] => a.toNat * 2 ^ 24 + b.toNat * 2 ^ 16 + c.toNat * 2 ^ 8 + d.toNat
  | _ => 0

/-- What `work()` does after the sniff. -/
inductive Decision
  | decompress (bs100k : Nat)    -- `bs100k = ntohl(header) - MAGIC(0); schedule(&expansion)`
  | copy (hdr : List UInt8)      -- `xwrite(&header, sizeof(header) - vacant); copy()`
  | fail                         -- `failf(&ispec, "not a valid bzip2 file")`
  deriving Repr, DecidableEq

/-- `vacant == 0 && ntohl(header) >= MAGIC(1) && ntohl(header) <= MAGIC(9)`. -/
def isMagic (hdr : List UInt8) (vacant : Nat) : Bool :=
  vacant == 0 && (Nat.ble (sniffMagicBase + sniffLo) (be32 hdr) &&
                  Nat.ble (be32 hdr) (sniffMagicBase + sniffHi))

/-- The three-way branch of `work()` given the bytes `xread` stored. -/
def decision (hdr : List UInt8) (vacant : Nat) (force stdout : Bool) : Decision :=
  if isMagic hdr vacant then .decompress (be32 hdr - sniffMagicBase)
  else if force && stdout then .copy hdr
  else .fail

/-- `work()` up to the branch: decision, unread input, unused hints. -/
def sniff (inp : List UInt8) (frag : List Nat) (force stdout : Bool) :
    Decision × List UInt8 × List Nat :=
  let r := xread inp sniffLen frag
  (decision r.got r.vacant force stdout, r.rest, r.frag)

/-! ## The copy pipeline -/

def u32 : Nat := 4294967296
/-- `x--` on an `unsigned`. -/
def dec32 (x : Nat) : Nat := (x + 4294967295) % 4294967296
/-- `x++` on an `unsigned`. -/
def inc32 (x : Nat) : Nat := (x + 1) % 4294967296

/-- Program counter of `source_thread_proc`. -/
inductive Src
  | wait                                          -- top of the loop, needs `in_slots > 0`
  | reading (buf : List UInt8) (vacant : Nat)     -- inside `xread`, `vacant > 0`
  | got (buf : List UInt8) (vacant : Nat)         -- `xread` returned
  | pushing (buf : List UInt8) (vacant : Nat)     -- in `copy_on_input_avail` after `sched_unlock`
  | setEof                                        -- left the loop, before `eof = 1`
  | done
  deriving Repr, DecidableEq

/-- Program counter of `sink_thread_proc`. -/
inductive Snk
  | idle                               -- waiting for `output_q`
  | writing (rest : List UInt8)        -- inside `xwrite`
  | release                            -- before `source_release_buffer`
  | inc                                -- before `sched_lock(); out_slots++`
  deriving Repr, DecidableEq

structure St where
  inp : List UInt8               -- input not yet read
  inSlots : Nat                  -- `in_slots`
  outSlots : Nat                 -- `out_slots` (unsigned)
  eof : Bool                     -- `eof`
  queue : List (List UInt8)      -- `output_q`
  src : Src
  snk : Snk
  out : List UInt8               -- everything written to the output so far
  usr2 : Nat                     -- number of `xraise(SIGUSR2)` executed
  deriving Repr, DecidableEq

/-- State at `init_io()` in `copy()`; `hdr` is what `work()` already wrote. -/
def init (hdr inp : List UInt8) : St :=
  { inp := inp, inSlots := copyInSlots, outSlots := copyOutSlots, eof := false,
    queue := [], src := .wait, snk := .idle, out := hdr, usr2 := 0 }

/-- `sched_unlock()` in copy mode: `select_task()` finds nothing, then
`process->finished()` = `copy_terminate()`. -/
def unlock (s : St) : St :=
  if s.eof && s.outSlots == copyTotalOutSlots then { s with usr2 := s.usr2 + 1 } else s

inductive Label
  | srcTake                 -- `in_slots--` under source_mutex
  | srcRead (hint : Nat)    -- one `read(2)` inside `xread`
  | srcDispatch             -- `source_release_buffer` (avail = 0) or
                            -- `sched_lock; out_slots--; sched_unlock` (avail > 0)
  | srcPush                 -- `sink_write_buffer`, then `if (vacant > 0) break`
  | srcEof                  -- `sched_lock; eof = 1; sched_unlock`
  | snkShift                -- `shift(output_q)`
  | snkWrite (hint : Nat)   -- one `write(2)` inside `xwrite`
  | snkRelease              -- `source_release_buffer`
  | snkInc                  -- `sched_lock; out_slots++; sched_unlock`
  deriving Repr, DecidableEq

/-- One atomic step; `none` when the step is not enabled. -/
def step (s : St) : Label → Option St
  | .srcTake =>
    match s.src with
    | .wait =>
      if 0 < s.inSlots then
        some { s with inSlots := s.inSlots - 1, src := .reading [] copyGranul }
      else none
    | _ => none
  | .srcRead hint =>
    match s.src with
    | .reading buf vacant =>
      let rd := readSize hint vacant s.inp.length
      if rd = 0 then some { s with src := .got buf vacant }
      else
        let buf' := buf ++ s.inp.take rd
        some { s with inp := s.inp.drop rd,
                      src := if vacant - rd = 0 then .got buf' 0 else .reading buf' (vacant - rd) }
    | _ => none
  | .srcDispatch =>
    match s.src with
    | .got buf vacant =>
      if buf.length = 0 then
        some { s with inSlots := s.inSlots + 1, src := if 0 < vacant then .setEof else .wait }
      else
        some (unlock { s with outSlots := dec32 s.outSlots, src := .pushing buf vacant })
    | _ => none
  | .srcPush =>
    match s.src with
    | .pushing buf vacant =>
      some { s with queue := s.queue ++ [buf], src := if 0 < vacant then .setEof else .wait }
    | _ => none
  | .srcEof =>
    match s.src with
    | .setEof => some (unlock { s with eof := true, src := .done })
    | _ => none
  | .snkShift =>
    match s.snk, s.queue with
    | .idle, b :: q => some { s with queue := q, snk := if b.length = 0 then .release else .writing b }
    | _, _ => none
  | .snkWrite hint =>
    match s.snk with
    | .writing rest =>
      let wr := min (max hint 1) rest.length
      some { s with out := s.out ++ rest.take wr,
                    snk := if (rest.drop wr).length = 0 then .release else .writing (rest.drop wr) }
    | _ => none
  | .snkRelease =>
    match s.snk with
    | .release => some { s with inSlots := s.inSlots + 1, snk := .inc }
    | _ => none
  | .snkInc =>
    match s.snk with
    | .inc => some (unlock { s with outSlots := inc32 s.outSlots, snk := .idle })
    | _ => none

/-- States reachable from `s0` under any interleaving and any short reads /
short writes. -/
inductive Reach (s0 : St) : St → Prop
  | refl : Reach s0 s0
  | step {s s' : St} (l : Label) : Reach s0 s → step s l = some s' → Reach s0 s'

/-- Both I/O threads are at rest and nothing is queued: the state in which
`uninit_io()` can join them. -/
def terminal (s : St) : Bool :=
  s.src == .done && s.snk == .idle && s.queue.isEmpty

/-! ## Executable runner (driver, examples) -/

/-- Labels tried in state `s`, in a fixed order, with read/write hint `h`. -/
def candidates (h : Nat) : List Label :=
  [.srcTake, .srcRead h, .srcDispatch, .srcPush, .srcEof,
   .snkShift, .snkWrite h, .snkRelease, .snkInc]

/-- Enabled steps of `s` with hint `h`. -/
def enabled (s : St) (h : Nat) : List St :=
  (candidates h).filterMap (step s)

/-- Run under a schedule: each entry `(pick, hint)` chooses the
`pick mod n`-th of the `n` enabled steps.  Stops when nothing is enabled, or
the schedule / fuel is used up (then the remaining steps are taken first-enabled
with full-size reads and writes). -/
def run : Nat → List (Nat × Nat) → St → St
  | 0, _, s => s
  | fuel + 1, sched, s =>
    let (pick, hint) := sched.headD (0, copyGranul)
    match enabled s hint with
    | [] => s
    | e :: es => run fuel sched.tail ((e :: es).getD (pick % (es.length + 1)) e)

/-- The whole `-cdf` run on a non-bzip2 input: sniff, partial header, copy.
Returns (bytes written, SIGUSR2 count) or `none` if the sniff did not choose
the copy. -/
def runCopy (inp : List UInt8) (frag : List Nat) (sched : List (Nat × Nat)) (fuel : Nat) :
    Option (List UInt8 × Nat × Bool) :=
  match sniff inp frag true true with
  | (.copy hdr, rest, _) =>
    let s := run fuel sched (init hdr rest)
    some (s.out, s.usr2, terminal s)
  | _ => none

end LbzVerif.Model.Copy
