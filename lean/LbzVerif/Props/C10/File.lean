/-
  C10 — speculative block discovery never influences the output, at file level.

  In `Lemmas.ExpandSched.cfgOf` the scanner's findings are a free parameter
  `cand : List Nat` — ANY list of bit positions, true block headers, look-alike
  magics inside coded data, or positions where nothing is — while the parser
  and the retriever are the real models run on the file's bits.  Whatever the
  scanner reports, and however the speculative jobs it starts are interleaved
  with the parser, a terminated run writes exactly what the sequential decoder
  (`expandFile`, no scanner at all) writes; and on a file the sequential
  decoder accepts, no candidate set can make a run fail.
-/
import LbzVerif.Props.C09.File

namespace LbzVerif.Props.C10.File
open LbzVerif LbzVerif.Model.SchedD LbzVerif.Model.Expand
open LbzVerif.Lemmas.ExpandSched (cfgOf render)

/-- A terminated run with scanner findings `cand` writes what a terminated run
    WITHOUT any scanner findings writes (`cand = []`: the parser discovers
    every block itself) — for every file, every pair of configurations and
    schedules. -/
theorem speculation_invisible (x : List UInt8) (hh : Lemmas.Copy.hasHeader x = true)
    (n W tin tout : Nat) (u : Bool) (cand : List Nat)
    (n' W' tin' tout' : Nat) (u' : Bool) {s s' : State}
    (hr : Reach (cfgOf (Lemmas.Copy.headerLevel x) (x.drop 4) n W tin tout u cand) s)
    (ht : terminated (cfgOf (Lemmas.Copy.headerLevel x) (x.drop 4) n W tin tout u cand) s = true)
    (hr' : Reach (cfgOf (Lemmas.Copy.headerLevel x) (x.drop 4) n' W' tin' tout' u' []) s')
    (ht' : terminated (cfgOf (Lemmas.Copy.headerLevel x) (x.drop 4) n' W' tin' tout' u' []) s'
      = true) :
    s.written.flatMap (render (Lemmas.Copy.headerLevel x) (x.drop 4)) =
      s'.written.flatMap (render (Lemmas.Copy.headerLevel x) (x.drop 4)) :=
  Props.C09.File.sched_output_indep x hh n W tin tout u cand n' W' tin' tout' u' [] hr ht hr' ht'

/-- The output of a terminated run is the sequential decoder's, whatever the
    scanner found. -/
theorem speculation_output (x : List UInt8) (hh : Lemmas.Copy.hasHeader x = true)
    (n W tin tout : Nat) (u : Bool) (cand : List Nat) {s : State}
    (hr : Reach (cfgOf (Lemmas.Copy.headerLevel x) (x.drop 4) n W tin tout u cand) s)
    (ht : terminated (cfgOf (Lemmas.Copy.headerLevel x) (x.drop 4) n W tin tout u cand) s = true) :
    expandFile x = .ok (s.written.flatMap (render (Lemmas.Copy.headerLevel x) (x.drop 4))) :=
  Props.C09.File.sched_output_is_expandFile x hh n W tin tout u cand hr ht

/-- A spurious candidate cannot turn a good file into an error: on a file the
    sequential decoder accepts, no run fails, for any candidate set. -/
theorem speculation_never_fails (x : List UInt8) (hh : Lemmas.Copy.hasHeader x = true)
    (y : List UInt8) (hy : expandFile x = .ok y)
    (n W tin tout : Nat) (u : Bool) (cand : List Nat) {s : State}
    (hr : Reach (cfgOf (Lemmas.Copy.headerLevel x) (x.drop 4) n W tin tout u cand) s) :
    s.failed = false :=
  (Props.C09.File.accepted_never_fails x hh y hy n W tin tout u cand hr).1

/-- … nor can it rescue a bad one: on a file the sequential decoder rejects no
    run terminates cleanly, for any candidate set. -/
theorem speculation_never_rescues (x : List UInt8) (hh : Lemmas.Copy.hasHeader x = true)
    (e : Err) (he : expandFile x = .error e)
    (n W tin tout : Nat) (u : Bool) (cand : List Nat) {s : State}
    (hr : Reach (cfgOf (Lemmas.Copy.headerLevel x) (x.drop 4) n W tin tout u cand) s) :
    terminated (cfgOf (Lemmas.Copy.headerLevel x) (x.drop 4) n W tin tout u cand) s = false :=
  Props.C09.File.rejected_never_terminates x hh e he n W tin tout u cand hr

end LbzVerif.Props.C10.File
