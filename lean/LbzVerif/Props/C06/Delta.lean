/-
  C06 (completeness), delta-coded code lengths: every table the strict
  bit-by-bit reference accepts — any start value 1…20, any zig-zag path that
  stays within 1…20 — is accepted by `retrieve()`'s windowed reader with the
  same lengths and the same number of bits consumed, wherever the 6-bit
  windows fall and whatever bits follow the table.
-/
import LbzVerif.Lemmas.Delta

namespace LbzVerif.Props.C06

open LbzVerif

/-- **deltaWindow_complete.** -/
theorem deltaWindow_complete (n : Nat) (hn : 0 < n) (bits : List Bool)
    (lens : List Nat) (rest : List Bool)
    (h : Spec.Delta.table n bits = some (lens, rest)) :
    Model.Delta.table n bits = .ok lens rest := by
  rw [← Lemmas.Delta.table_eq n hn bits] at h
  exact Lemmas.Delta.toOpt_eq_some.mp h

/-- Both directions at once: the windowed reader accepts exactly the tables of
the format. -/
theorem deltaWindow_iff (n : Nat) (hn : 0 < n) (bits : List Bool)
    (lens : List Nat) (rest : List Bool) :
    Model.Delta.table n bits = .ok lens rest ↔
      Spec.Delta.table n bits = some (lens, rest) := by
  rw [← Lemmas.Delta.table_eq n hn bits]
  exact Lemmas.Delta.toOpt_eq_some.symm

private def bitsOf (s : String) : List Bool := s.toList.map (· == '1')

-- one symbol walks 1 → 4 → 1 (three-step windows without terminator), the
-- next ones stay; the bits after the table ("111") are not touched
example : Spec.Delta.table 3 (bitsOf "00001101010111111000111") =
      some ([1, 1, 1], bitsOf "111") ∧
    Model.Delta.table 3 (bitsOf "00001101010111111000111") =
      .ok [1, 1, 1] (bitsOf "111") := by decide

end LbzVerif.Props.C06
