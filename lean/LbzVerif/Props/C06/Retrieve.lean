/-
  Props.C06.Retrieve — the completeness side of the whole block retriever
  (`Model.Retrieve`), as far as it is proved.

  Target (`retrieve_complete`, NOT proved): if the strict reference accepts a
  block (Spec.Bzip2.parseBlock + unMtfRle2 with capacity 900000, non-empty,
  origPtr inside) on a bit stream that continues for at least 32 more bits
  after the end-of-block code (`NEED` asks for a whole word before every code;
  a real stream continues with the 80 bits of the next magic and CRC), then
  `Model.Retrieve.retrieve` answers OK with the same block, `rand`, `bwt_idx`
  and end position.  The converse is `Props.C05.Retrieve`; the HEADER is done
  in both directions (`retrieve_header_complete` here, `retrieve_header_sound`
  there — the lemmas under them are equivalences); the gap is the GROUP phase
  only, items (4)–(6) listed in Props/C05/Retrieve.lean, read right-to-left.

  Proved here:
    * `retrieve_complete_partial` — acceptance does not depend on how the input
      arrives: if ONE call on the whole word list answers OK then every
      admissible segmentation answers OK with the same block, index, `rand`,
      position (so completeness only has to be shown for one-shot runs, and —
      by `fast_eq_slow` — for the slow branch);
    * `retrieve_header_complete` — a block header the reference accepts
      (`specHeader`, the header part of `Spec.Bzip2.parseBlock`, see
      `Lemmas.RetrieveSpecLink.parseBlock_factor`) is never rejected: the
      retriever arrives at the top of the group loop with exactly the
      reference's rand flag, origPtr, bytes in use, counts, selector indices,
      `make_tree` applied to the reference's length lists, and the reference's
      unread bits — unless the words of the segment run out first (MORE /
      ERR_EOF), wherever that happens and however often the call is resumed
      (`retrieve_split`);
    * `retrieve_symbols_complete` — every symbol sequence the reference
      `Spec.Mtf.unMtfRle2` accepts (block ≤ 900000 bytes, EOB present) is
      accepted by the retriever's symbol actions with exactly the reference
      bytes.
-/
import LbzVerif.Props.C05.Retrieve

namespace LbzVerif.Props.C06.Retrieve
open LbzVerif LbzVerif.Model.Retrieve
open LbzVerif.Lemmas.RetrieveOk

open LbzVerif.Lemmas.RetrieveBits LbzVerif.Lemmas.RetrieveBitmap LbzVerif.Lemmas.RetrieveHeader
  LbzVerif.Lemmas.RetrieveDelta LbzVerif.Lemmas.RetrieveFrame in
/-- **retrieve_header_complete.** -/
theorem retrieve_header_complete (v w : Nat) (ws : List Nat) (inv : BufInv v w)
    (r idx : Nat) (h : Hdr) (hsp : specHeader (bitsOf (St.start v w) ws) = some (r, idx, h)) :
    (∃ s rest, toTop (St.start v w) ws = .top s rest ∧
        HdrOk { St.start v w with rand := r, bwtIdx := idx } s h ∧
        bitsOf s rest = h.rest ∧ BufInv s.v s.w) ∨
      (∃ s, toTop (St.start v w) ws = .susp s) := by
  rw [toTop_init (St.start v w) ws rfl]
  have hhs := (header_spec { St.start v w with pc := .bwtIdx } ws rfl inv).1 r idx h hsp
  cases hhs with
  | inr hsu => exact Or.inr hsu
  | inl hok =>
    obtain ⟨s, rest, e, hk, hb, i⟩ := hok
    exact Or.inl ⟨s, rest, e, Lemmas.RetrieveBitmap.hdrOk_congr _ _ s h hk rfl rfl rfl rfl rfl, hb, i⟩

open LbzVerif.Lemmas.RetrieveBits LbzVerif.Lemmas.RetrieveBitmap LbzVerif.Lemmas.RetrieveHeader in
-- `tiny`: the reference accepts the header (see Props.C05.Retrieve); five of the six words are fetched
example : (specHeader (bitsOf (St.start 0 0) Props.C09.Retrieve.tiny)).isSome = true ∧
    (match toTop (St.start 0 0) Props.C09.Retrieve.tiny with
      | .top s rest => decide (s.numTrees = 2 ∧ s.alphaSize = 4 ∧ s.selector = #[1] ∧
          rest = [2863311530])
      | _ => false) = true := by
  constructor
  · decide +kernel
  · decide +kernel

/-- **retrieve_complete_partial.**  PARTIAL (see header): completeness is
invariant under segmentation and under removal of the fast branch. -/
theorem retrieve_complete_partial (st : St) (segs : List (List Nat))
    (hadm : Props.C09.Retrieve.Admissible st segs)
    (h : (retrieve st segs.flatten true).status = .ok) :
    (retrieveAll st segs).status = .ok ∧
      (retrieveAll st segs).st = (retrieve st segs.flatten true).st ∧
      (retrieveAll st segs).rest = (retrieve st segs.flatten true).rest ∧
      retrieveAllWith false st segs = retrieve st segs.flatten true := by
  have e := Props.C09.Retrieve.retrieve_split segs st hadm
  refine ⟨by rw [e]; exact h, by rw [e], by rw [e], ?_⟩
  rw [← Props.C09.Retrieve.fast_eq_slow_all segs st]
  exact e

example : (retrieveAll (St.start 0 0)
    [[1], [3145760], [3178537], [230686720], [2863311530], [2863311530], []]).status = .ok :=
  (retrieve_complete_partial (St.start 0 0)
    [[1], [3145760], [3178537], [230686720], [2863311530], [2863311530], []]
    (by simp [Props.C09.Retrieve.Admissible, Props.C09.Retrieve.MiddleNonEmpty])
    (by decide +kernel)).1

open LbzVerif.Model.MtfDec LbzVerif.Lemmas.MtfOne LbzVerif.Lemmas.MtfRun in
/-- **retrieve_symbols_complete.** -/
theorem retrieve_symbols_complete (sl : Slide) (hinv : Inv sl) (used : List UInt8)
    (h1 : 1 ≤ used.length) (h256 : used.length ≤ 256)
    (habs : ∃ junk, abs sl = used ++ junk) (syms : List Nat)
    (hsyms : ∀ s ∈ syms, s ≤ used.length + 1) (out : List UInt8)
    (hspec : Spec.Mtf.unMtfRle2 used syms Gen.MAX_BLOCK_SIZE = some out) :
    ∃ st0 ftab, initRun sl = some st0 ∧
      symLoop st0 (syms.map (internalSym used.length)) = .ok out ftab := by
  obtain ⟨st0, e1, e2⟩ := Props.C05.Retrieve.retrieve_symbols_sound sl hinv used h1 h256 habs syms hsyms
  rw [hspec] at e2
  cases hr : symLoop st0 (syms.map (internalSym used.length)) with
  | ok o f =>
    rw [hr] at e2
    simp only [toOpt, Option.some.injEq] at e2
    exact ⟨st0, f, e1, by rw [hr, e2]⟩
  | overflow => rw [hr] at e2; simp [toOpt] at e2
  | unterm => rw [hr] at e2; simp [toOpt] at e2
  | ub => rw [hr] at e2; simp [toOpt] at e2

open LbzVerif.Model.MtfDec LbzVerif.Lemmas.MtfOne LbzVerif.Lemmas.MtfRun in
example : ∃ st0 ftab, initRun (slideOf ([97, 98, 99] ++ List.replicate 253 0)) = some st0 ∧
    symLoop st0 ([1, 2, 3, 0, 0, 3, 4].map (internalSym 3)) =
      .ok [97, 97, 98, 99, 99, 99, 99, 97] ftab :=
  retrieve_symbols_complete (slideOf ([97, 98, 99] ++ List.replicate 253 0))
    (inv_slideOf _) [97, 98, 99] (by decide) (by decide)
    ⟨List.replicate 253 0, by rw [abs_slideOf _ (by rw [List.length_append, List.length_replicate]; rfl)]⟩
    [1, 2, 3, 0, 0, 3, 4] (by decide) _ (by decide)

end LbzVerif.Props.C06.Retrieve
