/-
  Props.C06.Block — END-TO-END COMPLETENESS of the block retriever (W17).

  Whenever THE oracle accepts the bits that follow a block's 32-bit CRC —
  `Spec.Bzip2.parseBlock` succeeds, `Spec.Bzip2.unMtfRle2` (capacity 900000)
  gives a non-empty block containing its origPtr — `retrieve()` (the model
  `Model.Retrieve`, fast and slow branch, any words, any `eof`) accepts it with
  exactly the oracle's rand flag, origPtr, bytes, block size and unread bits
  (= end position):
    * `retrieve_complete`: if at least 32 bits follow the block, the answer is
      OK with the oracle's values;
    * `retrieve_complete_or_starved`: without that assumption the only other
      answer is "input exhausted" (MORE, resp. ERR_EOF when `eof`), and it
      occurs only when fewer than 32 bits follow the block — never a format
      error, never a different block;
    * `retrieveAll_complete`: the same for every admissible segmentation of
      the input (`Props.C09.retrieve_split`: a MORE followed by further
      segments = one call on the concatenation).
  Why 32 bits: `NEED` asks for a whole 32-bit word before every code, so a
  block followed by fewer than 32 bits can legitimately end in ERR_EOF; in a
  real stream at least 80 bits — the next magic and a CRC — follow a block.

  Chain of lemmas: as in Props/C05/Block.lean, with
  Lemmas/GroupPure.groupsRef_complete (incl. the 18001 clamp: an accepted block
  uses at most 18001 selectors, `SpecMtfLink.unMtfRle2_size_ge`),
  Lemmas/HeaderBudget.header_no_starve (the header lemmas of W15 re-proved
  carrying the bit budget: the header phase does not run out of words while 32
  bits follow the header), the `Short` clauses of Lemmas/GroupMachine (the same
  for the group phase), and Lemmas/GroupFinal.run_complete.
-/
import LbzVerif.Lemmas.GroupFinal
import LbzVerif.Props.C05.Block

namespace LbzVerif.Props.C06.Block
open LbzVerif LbzVerif.Model.Retrieve
open LbzVerif.Lemmas.RetrieveBits LbzVerif.Lemmas.RetrieveFast LbzVerif.Lemmas.GroupFinal

/-- **retrieve_complete_or_starved.**  `v`, `w` any legal buffer with at most 63
live bits, `ws` any words, `eof` any; `bits` = a 32-bit CRC followed by the
unread bits.  If the oracle accepts, the retriever answers OK with the oracle's
values, or — only when fewer than 32 bits follow the block — reports that the
input is exhausted. -/
theorem retrieve_complete_or_starved (v w : Nat) (ws : List Nat) (eof : Bool) (inv : BufInv v w)
    (hw : w ≤ 63) (level start crc : Nat) (bits : List Bool)
    (h32 : Basic.takeNat 32 bits = some (crc, bitsOf (St.start v w) ws))
    (b : Spec.Bzip2.Block) (restB : List Bool)
    (hp : Spec.Bzip2.parseBlock level start bits = .ok (b, restB)) (tt : Array UInt8)
    (hm : Spec.Bzip2.unMtfRle2 b.used Gen.MAX_BLOCK_SIZE b.syms.toList = .ok tt)
    (hne : tt.size ≠ 0) (hop : b.origPtr < tt.size) :
    ((retrieve (St.start v w) ws eof).status = .ok ∧
      bitsOf (retrieve (St.start v w) ws eof).st (retrieve (St.start v w) ws eof).rest = restB ∧
      b.rand = ((retrieve (St.start v w) ws eof).st.rand == 1) ∧
      (retrieve (St.start v w) ws eof).st.bwtIdx = b.origPtr ∧
      (retrieve (St.start v w) ws eof).st.run.out.reverse = tt.toList ∧
      (retrieve (St.start v w) ws eof).st.run.n = tt.size) ∨
    ((retrieve (St.start v w) ws eof).status = (if eof then .err Gen.ERR_EOF else .more) ∧
      (retrieve (St.start v w) ws eof).rest = [] ∧ restB.length < 32) := by
  have hres : retrieve (St.start v w) ws eof = (run false (St.start v w) ws).result eof := by
    have hpc : (St.start v w).pc = .init := rfl
    unfold retrieve retrieveWith; rw [if_pos hpc, run_fast_eq_slow]
  rw [hres]
  cases run_complete v w ws inv hw level start crc bits h32 b restB hp tt hm hne hop with
  | inl h =>
    obtain ⟨s', rest', e, h1, h2, h3, h4, h5⟩ := h
    left
    rw [e]
    exact ⟨rfl, h1, h2, h3, h4, h5⟩
  | inr h =>
    obtain ⟨s, e, h1⟩ := h
    right
    rw [e]
    exact ⟨rfl, rfl, h1⟩

/-- **retrieve_complete.**  If at least 32 bits follow the block, everything
the oracle accepts is accepted, with the same result: rand flag, origPtr, the
bytes of the block, its size, and the unread bits (end position). -/
theorem retrieve_complete (v w : Nat) (ws : List Nat) (eof : Bool) (inv : BufInv v w)
    (hw : w ≤ 63) (level start crc : Nat) (bits : List Bool)
    (h32 : Basic.takeNat 32 bits = some (crc, bitsOf (St.start v w) ws))
    (b : Spec.Bzip2.Block) (restB : List Bool)
    (hp : Spec.Bzip2.parseBlock level start bits = .ok (b, restB)) (tt : Array UInt8)
    (hm : Spec.Bzip2.unMtfRle2 b.used Gen.MAX_BLOCK_SIZE b.syms.toList = .ok tt)
    (hne : tt.size ≠ 0) (hop : b.origPtr < tt.size) (hmore : 32 ≤ restB.length) :
    (retrieve (St.start v w) ws eof).status = .ok ∧
      bitsOf (retrieve (St.start v w) ws eof).st (retrieve (St.start v w) ws eof).rest = restB ∧
      b.rand = ((retrieve (St.start v w) ws eof).st.rand == 1) ∧
      (retrieve (St.start v w) ws eof).st.bwtIdx = b.origPtr ∧
      (retrieve (St.start v w) ws eof).st.run.out.reverse = tt.toList ∧
      (retrieve (St.start v w) ws eof).st.run.n = tt.size := by
  cases retrieve_complete_or_starved v w ws eof inv hw level start crc bits h32 b restB hp tt hm hne hop with
  | inl h => exact h
  | inr h =>
    obtain ⟨_, _, h3⟩ := h
    omega

/-- **retrieveAll_complete.**  The same for the input delivered in ANY
admissible segmentation (every call but the last with `eof = false`, any
number of MORE answers in between). -/
theorem retrieveAll_complete (v w : Nat) (segs : List (List Nat)) (inv : BufInv v w)
    (hw : w ≤ 63) (hadm : Props.C09.Retrieve.Admissible (St.start v w) segs)
    (level start crc : Nat) (bits : List Bool)
    (h32 : Basic.takeNat 32 bits = some (crc, bitsOf (St.start v w) segs.flatten))
    (b : Spec.Bzip2.Block) (restB : List Bool)
    (hp : Spec.Bzip2.parseBlock level start bits = .ok (b, restB)) (tt : Array UInt8)
    (hm : Spec.Bzip2.unMtfRle2 b.used Gen.MAX_BLOCK_SIZE b.syms.toList = .ok tt)
    (hne : tt.size ≠ 0) (hop : b.origPtr < tt.size) (hmore : 32 ≤ restB.length) :
    (retrieveAll (St.start v w) segs).status = .ok ∧
      bitsOf (retrieveAll (St.start v w) segs).st (retrieveAll (St.start v w) segs).rest = restB ∧
      b.rand = ((retrieveAll (St.start v w) segs).st.rand == 1) ∧
      (retrieveAll (St.start v w) segs).st.bwtIdx = b.origPtr ∧
      (retrieveAll (St.start v w) segs).st.run.out.reverse = tt.toList ∧
      (retrieveAll (St.start v w) segs).st.run.n = tt.size := by
  rw [Props.C09.Retrieve.retrieve_split segs _ hadm]
  exact retrieve_complete v w segs.flatten true inv hw level start crc bits h32 b restB hp tt hm hne hop
    hmore

-- Non-vacuity: the hypotheses hold for `tiny` ("ab", origPtr 0) behind the CRC 0 — the oracle
-- accepts it, 86 bits follow the block — and the conclusion's first alternative is the true one.
example : ∃ (b : Spec.Bzip2.Block) (restB : List Bool) (tt : Array UInt8),
    Spec.Bzip2.parseBlock 9 0 (Basic.natToBits 32 0 ++ bitsOf (St.start 0 0) Props.C09.Retrieve.tiny) =
      .ok (b, restB) ∧
    Spec.Bzip2.unMtfRle2 b.used Gen.MAX_BLOCK_SIZE b.syms.toList = .ok tt ∧
    tt.size ≠ 0 ∧ b.origPtr < tt.size ∧ 32 ≤ restB.length := by
  obtain ⟨b, tt, h1, _, _, _, _, _, h7, _, _, h10, h11⟩ :=
    Props.C05.Block.retrieve_sound 0 0 Props.C09.Retrieve.tiny true bufInv_start (by omega)
      (by decide +kernel) 9 0 0
      (Basic.natToBits 32 0 ++ bitsOf (St.start 0 0) Props.C09.Retrieve.tiny)
      (by rw [Basic.takeNat_natToBits])
  exact ⟨b, _, tt, h1, h7, h10, h11, by decide +kernel⟩

example : (retrieve (St.start 0 0) Props.C09.Retrieve.tiny true).status = .ok ∧
    (retrieve (St.start 0 0) Props.C09.Retrieve.tiny true).st.run.out.reverse = [97, 98] := by
  decide +kernel

end LbzVerif.Props.C06.Block
