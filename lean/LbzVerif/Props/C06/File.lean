/-
  Props.C06.File — WHOLE-FILE COMPLETENESS of lbzip2's decompression (W22).

  `expand_complete`: whenever THE strict reference `Spec.Bzip2.decodeFile`
  accepts a byte string `x` with output `y`, the sequential composition of
  lbzip2's own pieces `Model.Expand.expandFile` (see Props/C05/File.lean for
  what it is made of) accepts `x` with the same `y` — every conforming file
  (one or more streams, any levels, any trailing data that does not begin with
  a full "BZh1"…"BZh9" header, any length modulo 4) is decompressed, to the
  right bytes.  With `Props.C05.File.expand_sound`: `expand_iff`, lbzip2's
  sequential decompression and the reference accept exactly the same byte
  strings with the same output.  The fuel of `expandFile` is sufficient
  (`expandFile_ne_fuel` below: it never answers `fuel`).

  Chain: Lemmas/ExpandChainC (what `go` does on a block header, an end-of-stream
  marker with the right CRC, a stream header, trailing data — for every fuel),
  Lemmas/ExpandBlock.blockAt_complete (one block: `retrieve_complete`,
  `decode_emit_sound` with one big buffer, the size test from the level's
  capacity), Lemmas/ExpandLocal.parseBlock_append (appending the zero padding
  does not change what the reference parser reads), Lemmas/ExpandMain.
  complete_main (induction on the number of bits left in the file).
-/
import LbzVerif.Props.C05.File

namespace LbzVerif.Props.C06.File
open LbzVerif LbzVerif.Basic LbzVerif.Spec.Bzip2 LbzVerif.Model.Expand
open LbzVerif.Lemmas.ExpandBits LbzVerif.Lemmas.ExpandSpec LbzVerif.Lemmas.ExpandTop
open LbzVerif.Lemmas.ExpandMain

/-- **expand_complete.** -/
theorem expand_complete (x y : List UInt8) (h : Spec.Bzip2.decodeFile x = .ok y) :
    expandFile x = .ok y := by
  unfold decodeFile at h
  by_cases hh : Lemmas.Copy.hasHeader x = true
  · rw [walkFile_header x hh, decodeStreams_succ] at h
    cases hw : midStream x.length (x.length + 1) (x.length + 1) (Lemmas.Copy.headerLevel x) (0 + 32)
        (bytesToBits (x.drop 4)) 0 {} with
    | error e => rw [hw] at h; cases h
    | ok a =>
      rw [hw] at h
      simp only [Except.ok.injEq] at h
      rw [expandFile_eq, if_pos hh]
      unfold expandRest
      simp only
      have hm3 := missingOf_lt (x.drop 4).length
      have inv0 : Lemmas.RetrieveBits.BufInv (⟨0, 0, toWords (padded (x.drop 4))⟩ : Cur).v
          (⟨0, 0, toWords (padded (x.drop 4))⟩ : Cur).w := Lemmas.RetrieveBits.bufInv_start
      have hbits : bitsC (⟨0, 0, toWords (padded (x.drop 4))⟩ : Cur) =
          bytesToBits (x.drop 4) ++ pad (missingOf (x.drop 4).length) := by
        unfold bitsC
        rw [padded_bits]
        rfl
      have hlen : (x.drop 4).length = x.length - 4 := List.length_drop
      have hlv : 1 ≤ Lemmas.Copy.headerLevel x ∧ Lemmas.Copy.headerLevel x ≤ 9 := by
        match x, hh with
        | b0 :: b1 :: b2 :: b3 :: rest, hh =>
          simp only [Lemmas.Copy.hasHeader, Bool.and_eq_true, beq_iff_eq, Nat.ble_eq] at hh
          simp only [Lemmas.Copy.headerLevel]
          omega
      have hc := (complete_main _ hm3 _ (bytesToBits (x.drop 4)) rfl).1 x.length (x.length + 1)
        (x.length + 1) (Lemmas.Copy.headerLevel x) (0 + 32) 0 {} a
        (Gen.parserInit (Lemmas.Copy.headerLevel x) false) ⟨0, 0, toWords (padded (x.drop 4))⟩ []
        hw rfl rfl rfl hlv.1 hlv.2 rfl inv0 hbits rfl
        (by rw [bytesToBits_length]; omega)
        (32 * (toWords (padded (x.drop 4))).length + 1)
        (by show 0 + 32 * (toWords (padded (x.drop 4))).length < _; omega)
      rw [hc, h]
  · have hf : Lemmas.Copy.hasHeader x = false := by
      cases hx : Lemmas.Copy.hasHeader x with
      | true => exact absurd hx hh
      | false => rfl
    obtain ⟨e, he⟩ := walkFile_noheader x hf
    rw [he] at h
    cases h

/-- **expand_iff.**  lbzip2's sequential decompression accepts a byte string with output `y`
iff the strict reference does, with the same `y`. -/
theorem expand_iff (x y : List UInt8) : expandFile x = .ok y ↔ Spec.Bzip2.decodeFile x = .ok y :=
  ⟨Props.C05.File.expand_sound x y, expand_complete x y⟩

/-- The fuel of `expandFile` is sufficient: it never answers `fuel`; when it fails, the strict
reference fails too, for a genuine reason. -/
theorem expandFile_ne_fuel (x : List UInt8) (h : expandFile x = .error .fuel) :
    ∃ e, Spec.Bzip2.decodeFile x = .error e ∧ e ≠ .fuel := by
  cases hd : Spec.Bzip2.decodeFile x with
  | ok y => rw [expand_complete x y hd] at h; cases h
  | error e => exact ⟨e, rfl, fun he => decodeFile_ne_fuel x (he ▸ hd)⟩

-- Non-vacuity: the reference accepts "hello" (`decodeFile_helloBz2`, kernel-evaluated), hence so
-- does the model — and the kernel evaluation of the model agrees (Lemmas/ExpandHello.lean).
example : expandFile Spec.Bzip2.helloBz2 = .ok [104, 101, 108, 108, 111] :=
  expand_complete _ _ Spec.Bzip2.decodeFile_helloBz2

example : expandFile Spec.Bzip2.helloBz2 = .ok [104, 101, 108, 108, 111] ↔
    Spec.Bzip2.decodeFile Spec.Bzip2.helloBz2 = .ok [104, 101, 108, 108, 111] := expand_iff _ _

-- the empty stream followed by "BZh" (a header prefix at the very end, reaching into the padding):
-- accepted with empty output by the reference, hence by the model
example : expandFile [0x42, 0x5A, 0x68, 0x39, 0x17, 0x72, 0x45, 0x38, 0x50, 0x90, 0, 0, 0, 0,
    0x42, 0x5A, 0x68] = .ok [] :=
  expand_complete _ _ (by decide +kernel)

end LbzVerif.Props.C06.File
