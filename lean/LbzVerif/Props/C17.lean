/-
  C17 — File operands follow the documented naming and safety rules.

  Every theorem is about `Model.Naming` (`suffix_xform`, `input_init`,
  `output_init`, `output_regf_uninit`, operand loop of `main`) interpreting
  the suffix table and the permission masks regenerated from src/main.c
  (`Gen.suffixTable`, `Gen.outputCreateMask`, `Gen.outputChmodMask`); they
  quantify over all operand names, all system-call answers (`World`) and all
  flag combinations.  Names are character lists (`Tok`).
-/
import LbzVerif.Lemmas.CliNaming

namespace LbzVerif.Props.C17
open LbzVerif.Gen LbzVerif.Model.Naming LbzVerif.Lemmas.CliNaming
open LbzVerif.Model.Cli (Tok OutMode)

/-! ### The suffix table -/

/-- The generated table has the documented content: the four compressed
suffixes with their replacements (in ANY order), then the catch-all `.out`
row that is not used for the "already compressed" test. -/
theorem documented_suffix_table :
    suffixL.dropLast.Perm
      [(".bz2".toList, [], true), (".tbz".toList, ".tar".toList, true),
       (".tbz2".toList, ".tar".toList, true), (".tz2".toList, ".tar".toList, true)]
    ∧ suffixL.getLast? = some ([], ".out".toList, false) := by decide

/-- No two check rows can match the same name (neither suffix is a suffix of
the other), so the order of the check rows in `suffix[]` is irrelevant. -/
theorem suffix_rows_exclusive : suffixL.dropLast.Pairwise Excl := by decide

theorem shape : Shape suffixL ".out".toList :=
  ⟨by decide, by decide, suffix_rows_exclusive⟩

/-- the strongest form: whichever check row is a suffix of the name decides
the output name, independently of the row order -/
theorem outName_decompress_row (name : Tok) (r : Tok × Tok × Bool)
    (hr : r ∈ suffixL.dropLast) (hs : r.1 <:+ name) :
    outNameDecompress name = some (name.take (name.length - r.1.length) ++ r.2.1) :=
  shape.of_row name true r hr hs

/-- `hasCompressedSuffix` = the name ends in `.bz2`, `.tbz`, `.tbz2` or `.tz2`. -/
theorem hasCompressedSuffix_iff (name : Tok) :
    hasCompressedSuffix name = true ↔
      (".bz2".toList <:+ name ∨ ".tbz".toList <:+ name
        ∨ ".tbz2".toList <:+ name ∨ ".tz2".toList <:+ name) := by
  unfold hasCompressedSuffix
  rw [shape.isSome_iff]
  have hp := documented_suffix_table.1
  constructor
  · rintro ⟨r, hr, hs⟩
    have := hp.mem_iff.mp hr
    simp only [List.mem_cons, List.not_mem_nil, or_false] at this
    rcases this with rfl | rfl | rfl | rfl
    · exact Or.inl hs
    · exact Or.inr (Or.inl hs)
    · exact Or.inr (Or.inr (Or.inl hs))
    · exact Or.inr (Or.inr (Or.inr hs))
  · intro h
    rcases h with h | h | h | h
    · exact ⟨(".bz2".toList, [], true), by decide, h⟩
    · exact ⟨(".tbz".toList, ".tar".toList, true), by decide, h⟩
    · exact ⟨(".tbz2".toList, ".tar".toList, true), by decide, h⟩
    · exact ⟨(".tz2".toList, ".tar".toList, true), by decide, h⟩

example : hasCompressedSuffix "x.tbz2".toList = true ∧ hasCompressedSuffix "x.bz".toList = false
    ∧ hasCompressedSuffix "xbz2".toList = false ∧ hasCompressedSuffix "x.TBZ".toList = false
    ∧ hasCompressedSuffix "x.tbz2x".toList = false ∧ hasCompressedSuffix ".bz2".toList = true := by
  decide

/-- Compressing appends `.bz2`. -/
theorem outName_compress (name : Tok) : outNameCompress name = name ++ ".bz2".toList := by
  rfl

example : outNameCompress "a.tar".toList = "a.tar.bz2".toList := by decide

/-- the same on `String`s -/
theorem outName_compress_string (s : String) :
    String.ofList (outNameCompress s.toList) = s ++ ".bz2" := by
  rw [outName_compress, ← String.toList_append, String.ofList_toList]

example : String.ofList (outNameCompress "dir/a b".toList) = "dir/a b.bz2" := by decide +kernel

/-- The output name of decompression always exists (the `assert` in
`suffix_xform` cannot fail). -/
theorem outName_decompress_total (name : Tok) : (outNameDecompress name).isSome = true :=
  shape.total name

private theorem take_stem (stem suf : Tok) :
    (stem ++ suf).take ((stem ++ suf).length - suf.length) = stem := by
  simp

/-- Decompressing: `.bz2` is stripped; `.tbz`, `.tbz2`, `.tz2` become `.tar`;
every other name gets `.out` appended. -/
theorem outName_decompress (stem name : Tok) :
    outNameDecompress (stem ++ ".bz2".toList) = some stem
    ∧ outNameDecompress (stem ++ ".tbz".toList) = some (stem ++ ".tar".toList)
    ∧ outNameDecompress (stem ++ ".tbz2".toList) = some (stem ++ ".tar".toList)
    ∧ outNameDecompress (stem ++ ".tz2".toList) = some (stem ++ ".tar".toList)
    ∧ (hasCompressedSuffix name = false →
        outNameDecompress name = some (name ++ ".out".toList)) := by
  refine ⟨?_, ?_, ?_, ?_, ?_⟩
  · rw [outName_decompress_row _ (".bz2".toList, [], true) (by decide) (List.suffix_append _ _),
      take_stem]; simp
  · rw [outName_decompress_row _ (".tbz".toList, ".tar".toList, true) (by decide)
      (List.suffix_append _ _), take_stem]
  · rw [outName_decompress_row _ (".tbz2".toList, ".tar".toList, true) (by decide)
      (List.suffix_append _ _), take_stem]
  · rw [outName_decompress_row _ (".tz2".toList, ".tar".toList, true) (by decide)
      (List.suffix_append _ _), take_stem]
  · intro h
    have hn : ¬ ∃ r ∈ suffixL.dropLast, r.1 <:+ name := by
      intro hex
      have := (shape.isSome_iff name).mpr hex
      unfold hasCompressedSuffix at h
      rw [this] at h
      cases h
    exact (shape.of_none name (fun r hr hs => hn ⟨r, hr, hs⟩)).1

example : outNameDecompress "a.tar.bz2".toList = some "a.tar".toList
    ∧ outNameDecompress "a.tbz2".toList = some "a.tar".toList
    ∧ outNameDecompress "a.bz".toList = some "a.bz.out".toList
    ∧ outNameDecompress "a.TBZ".toList = some "a.TBZ.out".toList
    ∧ outNameDecompress ".bz2".toList = some [] := by decide

/-! ### Admission of one operand -/

/-- Without `-f`, an object that exists at the output pathname is never
touched: nothing is unlinked, nothing is created, the operand is skipped
with a warning (exit status 4) and stays. -/
theorem no_clobber (fl : Flags) (name : Tok) (w : World)
    (hf : fl.force = false) (hm : fl.outmode = .regf) (he : w.outExists = true) :
    ∀ e, e = admitOp fl name w →
    e.oldOutputRemoved = false ∧ e.outPath = none ∧ e.inputRemoved = false
      ∧ e.skip.isSome = true ∧ e.fatal = false ∧ e.status = 4 := by
  intro e he
  subst he
  unfold admitOp
  cases hi : inputInit fl name w with
  | some r => simp [skipE, Effect.status]
  | none =>
    simp only [hm]
    have ht : (outName fl name).isSome = true := by
      unfold outName; split
      · exact outName_decompress_total name
      · rfl
    cases ho : outName fl name with
    | none => rw [ho] at ht; cases ht
    | some out => simp [hf, he, Effect.status, outputOpenExcl]

example : (admitOp { decompress := true } "a.bz2".toList { outExists := true }).status = 4 := by
  decide

/-- in every output mode, without `-f` nothing at the output pathname is removed -/
theorem no_unlink_without_force (fl : Flags) (name : Tok) (w : World)
    (hf : fl.force = false) : (admitOp fl name w).oldOutputRemoved = false := by
  unfold admitOp
  cases inputInit fl name w with
  | some r => rfl
  | none =>
    cases fl.outmode with
    | stdout => rfl
    | discard => rfl
    | regf =>
      simp only
      cases outName fl name with
      | none => rfl
      | some out =>
        simp only [hf]
        split
        · rfl
        · split <;> rfl

/-- Writing files without `-f`: an operand that is not a regular file
(directory, symbolic link, device, socket …) is skipped with a warning,
exit status 4, nothing created or removed. -/
theorem skip_nonregular (fl : Flags) (name : Tok) (w : World) (st : Stat)
    (hf : fl.force = false) (hm : fl.outmode = .regf)
    (hl : w.lstat = some st) (hk : st.kind ≠ .regular) :
    admitOp fl name w = skipE .notRegular ∧ (skipE .notRegular).status = 4 := by
  refine ⟨?_, rfl⟩
  unfold admitOp inputInit
  simp [hf, hm, hl, hk]

example : admitOp {} "d".toList { lstat := some { kind := .directory } } = skipE .notRegular := by
  decide

/-- Writing files with neither `-k` nor `-f`: a regular file with more than
one link is skipped with a warning, exit status 4; with `-k` or `-f` the link
count is never a reason to skip. -/
theorem skip_multilink (fl : Flags) (name : Tok) (w : World) (st : Stat)
    (hl : w.lstat = some st) (hk : st.kind = .regular) (hn : st.nlink > 1) :
    (fl.force = false → fl.keep = false → fl.outmode = .regf →
        admitOp fl name w = skipE .multiLink ∧ (skipE .multiLink).status = 4)
    ∧ ((fl.force = true ∨ fl.keep = true) → (admitOp fl name w).skip ≠ some .multiLink) := by
  constructor
  · intro hf hkp hm
    refine ⟨?_, rfl⟩
    unfold admitOp inputInit
    simp [hf, hm, hl, hk, hkp, hn]
  · intro h
    unfold admitOp
    cases hi : inputInit fl name w with
    | some r =>
      simp only [skipE]
      intro hc
      have : r = .multiLink := by simpa using hc
      subst this
      unfold inputInit at hi
      rcases h with h | h <;> simp [h] at hi <;> (repeat' split at hi) <;> simp_all
    | none =>
      cases fl.outmode with
      | stdout => simp
      | discard => simp
      | regf =>
        simp only
        cases outName fl name with
        | none => simp
        | some out =>
          simp only
          split
          · simp
          · split <;> simp

example : admitOp {} "a".toList { lstat := some { nlink := 2 } } = skipE .multiLink
    ∧ (admitOp { keep := true } "a".toList { lstat := some { nlink := 2 } }).outPath
        = some "a.bz2".toList := by decide

/-- Compressing: an operand whose name ends in `.bz2`, `.tbz`, `.tbz2` or
`.tz2` is skipped with a warning (exit status 4), nothing created, removed or
unlinked — whatever `-f`, `-k`, `-c` say (an earlier skip reason may apply
instead when `-f` is absent). -/
theorem skip_compressed_suffix (fl : Flags) (name : Tok) (w : World)
    (hd : fl.decompress = false)
    (hs : ".bz2".toList <:+ name ∨ ".tbz".toList <:+ name
        ∨ ".tbz2".toList <:+ name ∨ ".tz2".toList <:+ name) :
    ∀ e, e = admitOp fl name w →
    e.skip.isSome = true ∧ e.status = 4 ∧ e.outPath = none ∧ e.inputRemoved = false
      ∧ e.oldOutputRemoved = false
      ∧ (fl.force = true → e = skipE .suffix) := by
  intro e he
  subst he
  have hc := (hasCompressedSuffix_iff name).mpr hs
  have hi : ∃ r, inputInit fl name w = some r ∧ (fl.force = true → r = .suffix) := by
    unfold inputInit
    simp only [hd, hc]
    split
    · exact ⟨_, rfl, by simp_all⟩
    · split
      · exact ⟨_, rfl, by simp_all⟩
      · split
        · exact ⟨_, rfl, by simp_all⟩
        · exact ⟨_, by simp, fun _ => rfl⟩
  obtain ⟨r, hr, hrf⟩ := hi
  unfold admitOp
  rw [hr]
  refine ⟨rfl, rfl, rfl, rfl, rfl, ?_⟩
  intro hf
  rw [hrf hf]

example : admitOp { force := true } "x.tbz2".toList {} = skipE .suffix := by decide

/-- An output file that is produced is created with the input's permission
bits `& 0600`, ends with the input's bits `& 0777` (when `fchown` worked) and
carries the input's access and modification times. -/
theorem metadata (fl : Flags) (name : Tok) (w : World) (out : Tok)
    (h : (admitOp fl name w).outPath = some out) :
    ∀ e, e = admitOp fl name w →
    e.createMode = w.fstat.mode &&& 0o600
    ∧ (w.chownOk = true → e.finalMode = w.fstat.mode &&& 0o777)
    ∧ e.atime = w.fstat.atime ∧ e.mtime = w.fstat.mtime
    ∧ some out = outName fl name ∧ fl.outmode = .regf := by
  intro e he
  subst he
  revert h
  unfold admitOp
  cases inputInit fl name w with
  | some r => simp [skipE]
  | none =>
    cases hm : fl.outmode with
    | stdout => simp
    | discard => simp
    | regf =>
      simp only
      cases outName fl name with
      | none => simp
      | some o =>
        simp only
        split
        · simp
        · split
          · simp
          · simp only [outputCreateMask, outputChmodMask]
            intro h
            simp only [Option.some.injEq] at h
            subst h
            simp_all

example : (admitOp { decompress := true } "a.bz2".toList { fstat := { mode := 0o4755 } }).finalMode
    = 0o755 := by decide

/-- The input is removed exactly when an output FILE was produced and `-k`
is absent; in particular never with `-c` / `-t` (other output modes), never
when the operand was skipped, never after a fatal error. -/
theorem input_removed_iff (fl : Flags) (name : Tok) (w : World) :
    ∀ e, e = admitOp fl name w →
    (e.inputRemoved = true ↔
      (fl.outmode = .regf ∧ fl.keep = false ∧ e.outPath.isSome = true
        ∧ e.skip = none ∧ e.fatal = false)) := by
  intro e he
  subst he
  unfold admitOp
  cases inputInit fl name w with
  | some r => simp [skipE]
  | none =>
    cases hm : fl.outmode with
    | stdout => simp
    | discard => simp
    | regf =>
      simp only
      cases outName fl name with
      | none => simp
      | some o =>
        simp only
        split
        · simp
        · split
          · simp
          · simp

example : (admitOp {} "a".toList {}).inputRemoved = true
    ∧ (admitOp { keep := true } "a".toList {}).inputRemoved = false
    ∧ (admitOp { outmode := .stdout } "a".toList {}).inputRemoved = false
    ∧ (admitOp { outmode := .discard, decompress := true } "a".toList {}).inputRemoved = false := by
  decide

end LbzVerif.Props.C17
