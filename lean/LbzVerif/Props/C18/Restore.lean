/-
  Props.C18.Restore — C18 (scheduler part, compression): when a compression
  run terminates, every static that `init()` / `primary_thread()` do NOT reset
  (`collect_token`, `unfinished_work`, `next_task`) has its initial value
  again, so the next operand starts in the state the first one started in.
-/
import LbzVerif.Lemmas.SchedC.Witness

namespace LbzVerif.Props.C18.Restore
open LbzVerif.Gen LbzVerif.Model.SchedC

variable {α σ : Type}

/-- **terminal_restores**: in every reachable state in which `can_terminate()`
    holds (in particular when all workers have left), `collect_token = true`,
    `unfinished_work = NULL`, `next_task = NULL`, all queues are empty and the
    counters are back at their totals — for every `n`, input and schedule. -/
theorem terminal_restores {c : Cfg} {cd : Codec α σ} {input : List α} {s : State α σ}
    (h : Reach c cd input s) (hf : finished c s = true) :
    s.collectToken = true ∧ s.unfinished = none ∧ s.nextTask = none ∧
    s.collQ = [] ∧ s.transQ = [] ∧ s.reordQ = [] ∧ s.outputQ = [] ∧ s.wr = none ∧
    s.workUnits = c.n ∧ s.outSlots = c.totalOut ∧ s.inSlots = c.totalIn ∧
    s.eof = true ∧ s.input = [] := by
  have r := restores_of_finished (inv1_reach h).cons (inv1_reach h).sel (reader_reach h) hf
  obtain ⟨a1, a2, a3, a4, a5, a6, a7, a8, a9, a10, a11, _, a13, a14, _⟩ := r
  exact ⟨a1, a2, a14, a3, a4, a5, a6, a7, a8, a9, a10, a11, a13⟩

/-- hence the next run (any configuration `c'`, any input) starts from
    `init`: the statics carried over are those of a first run. -/
theorem next_run_starts_fresh {c c' : Cfg} {cd : Codec α σ} {input input' : List α}
    {s : State α σ} (h : Reach c cd input s) (hf : finished c s = true) :
    initWith c' input' s.collectToken s.unfinished = init c' input' := by
  obtain ⟨a1, a2, _⟩ := terminal_restores h hf
  rw [a1, a2]; rfl

/-- non-vacuity: a terminated 3-block run -/
example : finished wCfg wFinal = true ∧ isFinal wFinal = true ∧
    Reach wCfg wCodec wInput wFinal := ⟨wFinal_facts.2.1, wFinal_facts.1, wFinal_reach⟩

end LbzVerif.Props.C18.Restore
