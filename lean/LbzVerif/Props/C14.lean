/-
  Props.C14 — "Block-header scanner matches exactly the header pattern".

  Only the property theorems; the work is in `Lemmas/Scan*.lean`.
-/
import LbzVerif.Lemmas.ScanLps
import LbzVerif.Lemmas.ScanMiniTab
import LbzVerif.Lemmas.ScanBigTab
import LbzVerif.Lemmas.ScanOcc

namespace LbzVerif.Props.C14

open LbzVerif LbzVerif.Spec.Scan LbzVerif.Model.Scan

/-- Generic KMP step (all bit strings, both bits): how much of the pattern has
been matched after reading one more bit depends only on how much was matched
before, through the transition `δ`.  Pure border argument; no table involved. -/
theorem lps_step (w : List Bool) (b : Bool) : lps (w ++ [b]) = δ (lps w) b :=
  Lemmas.ScanLps.lpsFrom_step P w patLen (by decide) b

example : lps ([true, false, false] ++ [true]) = δ (lps [true, false, false]) true ∧
    lps [true, false, false] = 2 ∧ lps [true, false, false, true] = 3 := by decide

/-- Every entry of the generated `mini_dfa` is the KMP transition `δ` of the
pattern `0x314159265359` (all 48 non-accepting states, both bits). -/
theorem mini_is_delta : ∀ s < 48, ∀ b : Bool, mini s b = δ s b :=
  Lemmas.ScanMiniTab.mini_eq_delta

example : mini 47 true = 48 ∧ δ 47 true = 48 ∧ mini 33 false = 7 := by decide

/-- Every entry of the generated `big_dfa` (49 states × 256 byte values) is
eight `mini_dfa` steps on the bits of the byte, most significant first, staying
in `ACCEPT` (= 48) once it is reached; row 48 is constantly 48. -/
theorem big_is_mini8 : ∀ s < 49, ∀ c < 256,
    big s c = (bitsMSB 8 c).foldl miniAbs s :=
  Lemmas.ScanBigTab.big_rows

example : big 0 0x31 = 8 ∧ big 40 0x59 = 48 ∧ big 48 0 = 48 := by decide

/-- `scan()` is exact (all word lists = one input block, all consistent
buffer states, all `skip`).  Let `tail` be the bits still to be read, minus the
`effStart bs skip` bits that the `skip` prologue really drops (0 when
`skip ≤ live`: the code then ignores `skip`; otherwise `live` plus the rest of
`skip` rounded up to whole words in `unsigned` arithmetic, clamped at the end of
the block).  Then exactly one of the following holds.

* `tail` contains a header candidate (pattern, then 32 bits, wholly inside the
  block and beginning at or after the effective start); `i` is the end of the
  FIRST one; `scan` returns `OK` and leaves a consistent stream over the same
  words whose remaining bits are exactly `tail.drop i` — it is positioned right
  after the 32 bits that follow the pattern, and nowhere else.
* `tail` contains no such candidate; `scan` returns `MORE` and has consumed the
  block (`live = 0`, `buff = 0`, `data = limit`).

No `skip < 2^32` hypothesis is needed for the model (the model wraps like the
code does); the C `unsigned` parameter only ever carries such values. -/
theorem scan_correct (bs : BS) (skip : Nat) (hc : Consistent bs) :
    (∃ i, firstOcc ((rem bs).drop (effStart bs skip)) i ∧
        (scan bs skip).1 = .ok ∧ Consistent (scan bs skip).2 ∧
        (scan bs skip).2.words = bs.words ∧
        rem (scan bs skip).2 = ((rem bs).drop (effStart bs skip)).drop i) ∨
    ((∀ i, ¬ occursAt ((rem bs).drop (effStart bs skip)) i) ∧
        scan bs skip =
          (.more, { live := 0, buff := 0, data := bs.words.length, words := bs.words })) :=
  Lemmas.ScanOcc.scan_correct' bs skip hc

/-- The hypothesis is satisfiable and both branches are taken on concrete
streams: 5 buffered bits, then the pattern at bit offset 5, 32 more bits, ...;
the same block cut 1 word short (only 16 of the 32 trailing bits present). -/
example :
    Consistent ⟨5, 0xf800000000000000, 0, [0x31415926, 0x53590000, 7, 9]⟩ ∧
    scan ⟨5, 0xf800000000000000, 0, [0x31415926, 0x53590000, 7, 9]⟩ 0 =
      (.ok, ⟨16, 0x0007000000000000, 3, [0x31415926, 0x53590000, 7, 9]⟩) ∧
    Consistent ⟨0, 0, 0, [0x31415926, 0x53590000]⟩ ∧
    scan ⟨0, 0, 0, [0x31415926, 0x53590000]⟩ 0 =
      (.more, ⟨0, 0, 2, [0x31415926, 0x53590000]⟩) := by
  refine ⟨⟨by decide, by decide, by decide, by decide, by decide⟩, by decide +kernel,
    ⟨by decide, by decide, by decide, by decide, by decide⟩, by decide +kernel⟩

/-- `OK` is returned iff there is a candidate after the effective start. -/
theorem scan_ok_iff (bs : BS) (skip : Nat) (hc : Consistent bs) :
    (scan bs skip).1 = .ok ↔ ∃ i, occursAt ((rem bs).drop (effStart bs skip)) i := by
  rcases scan_correct bs skip hc with ⟨i, h1, h2, -⟩ | ⟨h1, h2⟩
  · exact ⟨fun _ => ⟨i, h1.1⟩, fun _ => h2⟩
  · constructor
    · intro h; rw [h2] at h; cases h
    · rintro ⟨i, hi⟩; exact absurd hi (h1 i)

example : (scan ⟨0, 0, 0, [0x31415926, 0x53590000, 0]⟩ 0).1 = .ok := by decide +kernel

/-- Repeated calls (as `do_scan` makes them): once the first candidate, ending
at `i`, has been reported, any other candidate ending at `j` either begins
inside the 80 bits of the reported one, or lies wholly in what is left
(`tail.drop i`), where the next call will find it by `scan_correct`. -/
theorem scan_rescan (tail : List Bool) (i j : Nat) (hi : firstOcc tail i)
    (hj : occursAt tail j) :
    j = i ∨ (i < j ∧ j < i + 80) ∨ occursAt (tail.drop i) (j - i) := by
  have hle := hi.2 j hj
  rcases Nat.lt_or_ge j (i + 80) with h | h
  · rcases Nat.eq_or_lt_of_le hle with e | l
    · exact Or.inl e.symm
    · exact Or.inr (Or.inl ⟨l, h⟩)
  · refine Or.inr (Or.inr ?_)
    obtain ⟨j1, j2, pre, hpre⟩ := (Lemmas.ScanOcc.occursAt_iff _ _).mp hj
    refine (Lemmas.ScanOcc.occursAt_iff _ _).mpr ⟨by omega, by simp; omega, ?_⟩
    have hlen : pre.length + 48 = j - 32 := by
      have := congrArg List.length hpre
      simp [Lemmas.ScanMiniTab.P_length] at this
      omega
    have : (tail.drop i).take (j - i - 32) = pre.drop i ++ P := by
      rw [show j - i - 32 = (j - 32) - i by omega, ← List.drop_take, ← hpre,
        List.drop_append]
      have : i - pre.length = 0 := by omega
      rw [this, List.drop_zero]
    rw [this]
    exact List.suffix_append _ _

example : firstOcc (P ++ List.replicate 32 false) 80 ∧
    occursAt (P ++ List.replicate 32 false) 80 := by
  have h : occursAt (P ++ List.replicate 32 false) 80 :=
    ⟨by decide, [], List.replicate 32 false, by decide, by decide⟩
  refine ⟨⟨h, ?_⟩, h⟩
  intro j hj
  have := ((Lemmas.ScanOcc.occursAt_iff _ _).mp hj).1
  exact this

end LbzVerif.Props.C14
