/-
  Props.C14 — "Block-header scanner matches exactly the header pattern".

  Only the property theorems; the work is in `Lemmas/Scan*.lean`.
-/
import LbzVerif.Lemmas.ScanLps
import LbzVerif.Lemmas.ScanMiniTab
import LbzVerif.Lemmas.ScanBigTab

namespace LbzVerif.Props.C14

open LbzVerif LbzVerif.Spec.Scan LbzVerif.Model.Scan

/-- Generic KMP step (all bit strings, both bits): how much of the pattern has
been matched after reading one more bit depends only on how much was matched
before, through the transition `δ`.  Pure border argument; no table involved. -/
theorem lps_step (w : List Bool) (b : Bool) : lps (w ++ [b]) = δ (lps w) b :=
  Lemmas.ScanLps.lpsFrom_step P w patLen (by decide) b

example : lps ([true, false, false] ++ [true]) = δ (lps [true, false, false]) true ∧
    lps [true, false, false] = 2 ∧ lps [true, false, false, true] = 3 := by decide

/-- Every entry of the generated `mini_dfa` is the KMP transition `δ` of the
pattern `0x314159265359` (all 48 non-accepting states, both bits). -/
theorem mini_is_delta : ∀ s < 48, ∀ b : Bool, mini s b = δ s b :=
  Lemmas.ScanMiniTab.mini_eq_delta

example : mini 47 true = 48 ∧ δ 47 true = 48 ∧ mini 33 false = 7 := by decide

/-- Every entry of the generated `big_dfa` (49 states × 256 byte values) is
eight `mini_dfa` steps on the bits of the byte, most significant first, staying
in `ACCEPT` (= 48) once it is reached; row 48 is constantly 48. -/
theorem big_is_mini8 : ∀ s < 49, ∀ c < 256,
    big s c = (bitsMSB 8 c).foldl miniAbs s :=
  Lemmas.ScanBigTab.big_rows

example : big 0 0x31 = 8 ∧ big 40 0x59 = 48 ∧ big 48 0 = 48 := by decide

end LbzVerif.Props.C14
