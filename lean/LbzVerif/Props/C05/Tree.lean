/-
  Props.C05.Tree — make_tree (decode.c) against the Spec.

  Proved here: the accept / ERR_INCOMPLT / ERR_PREFIX verdict is exactly the
  Kraft comparison, and the canonical walk of the lookup is stopped by the
  `base[21] = UINT64_MAX` sentinel.

  NOT proved (time): `makeTree_sound` — that for a complete length list the
  start/base/count/perm lookup on any 64-bit window returns the same (symbol,
  length) as `Spec.decodeSym`, with the symbol renumbered by
  `Model.Canon.renumber` — and the second half of `canon_lookup_bound` (the
  `perm` index is below `alpha_size`; every `start[]` entry above
  HUFF_START_WIDTH is at most 20).  What is missing is the rank formula
  `offset20 lens i = S(ℓᵢ) + rankᵢ·2^(20-ℓᵢ)` and the list-index bookkeeping
  from it to `mkBase`/`mkCount`/`mkPerm`/`mkStart`.  Until then that statement
  is covered only by the correspondence campaign (checks/w11_prefix.py, part
  `tree`): C tables = model tables entry by entry, and C lookup = model lookup
  = bit-by-bit reference decoder on every code word with zero/one/random tails.
-/
import LbzVerif.Spec.Prefix
import LbzVerif.Model.Canon
import LbzVerif.Lemmas.PrefixTree

namespace LbzVerif.Props.C05.Tree
open LbzVerif LbzVerif.Spec.Prefix LbzVerif.Model.Canon LbzVerif.Lemmas.PrefixTree

/-- For code lengths in 1…20 (what the delta decoder hands over) and at most
258 symbols, make_tree accepts iff the lengths are a complete code; it answers
ERR_INCOMPLT iff the Kraft sum is below one and ERR_PREFIX iff it is above;
tables are built exactly when it accepts. -/
theorem makeTree_kraft (lens : List Nat) (hr : ∀ l ∈ lens, 1 ≤ l ∧ l ≤ 20)
    (hn : lens.length ≤ Gen.MAX_ALPHA_SIZE) :
    (verdict lens = .ok ↔ Complete lens) ∧
    (verdict lens = .incomplete ↔ kraft20 lens < 2 ^ 20) ∧
    (verdict lens = .oversubscribed ↔ 2 ^ 20 < kraft20 lens) ∧
    ((makeTree lens).2.isSome ↔ Complete lens) ∧ (makeTree lens).1 = verdict lens := by
  have hk := kraftSum_eq lens hr hn
  have hM : (1 : Nat) <<< MAXL = 2 ^ 20 := by rw [Nat.one_shiftLeft]; rfl
  have hv : (verdict lens = .ok ↔ kraft20 lens = 2 ^ 20) ∧
      (verdict lens = .incomplete ↔ kraft20 lens < 2 ^ 20) ∧
      (verdict lens = .oversubscribed ↔ 2 ^ 20 < kraft20 lens) := by
    unfold verdict
    simp only [hk, hM]
    by_cases h1 : kraft20 lens = 2 ^ 20
    · simp [h1]
    · by_cases h2 : kraft20 lens < 2 ^ 20
      · simp [h1, h2]; omega
      · simp [h1, h2]; omega
  have hc : kraft20 lens = 2 ^ 20 ↔ Complete lens := ⟨fun h => ⟨h, hr⟩, fun h => h.1⟩
  refine ⟨hv.1.trans hc, hv.2.1, hv.2.2, ?_, ?_⟩
  · rw [← hc, ← hv.1]
    unfold makeTree
    cases verdict lens <;> simp
  · unfold makeTree
    cases verdict lens <;> rfl

example : verdict [2, 3, 1, 3] = .ok ∧ verdict [2, 3, 3] = .incomplete ∧
    verdict [1, 1, 3] = .oversubscribed := by decide

/-- PARTIAL (`canon_lookup_bound`).  Proved: for ANY length list, any window
`v < 2^64 − 1` (the bit buffer holds at most 63 live bits, so the lowest bit is
0) and any start index `k ≤ 20`, the walk `while (v >= base[k+1]) k++` over the
table built by make_tree stops with `k ≤ 20`, because `base[21] = UINT64_MAX`.
Missing: the start index read from `start[]` is ≤ 20, and
`count[k] + ((v − base[k]) >> (64−k)) < alpha_size` for complete tables. -/
theorem canon_lookup_bound_partial (lens : List Nat) (v : Nat) (hv : v < 2 ^ 64 - 1)
    (fuel k : Nat) (hk : k ≤ Gen.MAX_CODE_LENGTH) :
    walkUp (mkTree lens).base v fuel k ≤ Gen.MAX_CODE_LENGTH := by
  have h21 : v < (mkTree lens).base.getD 21 0 := by
    show v < (mkBase lens).getD 21 0
    rw [base21]; exact hv
  exact walkUp_le _ v h21 fuel k hk

example : lookup (mkTree [1, 2, 3, 4, 5, 6, 7, 8, 9, 10, 11, 12, 12]) (2 ^ 64 - 2) = some (0, 12) := by
  decide +kernel

end LbzVerif.Props.C05.Tree
