/-
  Props.C05.Tree — make_tree (decode.c) against the Spec.

  Proved here:
    * `makeTree_kraft` — the accept / ERR_INCOMPLT / ERR_PREFIX verdict is
      exactly the Kraft comparison;
    * `makeTree_sound` — for a complete length list the start/base/count/perm
      lookup of `retrieve()` on ANY 64-bit window returns the same (symbol,
      length) as the bit-by-bit reference decoders `Spec.Prefix.decodeSym` and
      `Spec.Bzip2.decodeSym (mkCode lens)`, the symbol renumbered by
      `Model.Canon.renumber` (RUN_A = 257, RUN_B = 258, MTF value s − 1,
      EOB = 0);
    * `canon_lookup_bound` — no table access of the lookup is out of bounds:
      the `start[]` entry is a length ≤ 20, the canonical walk stops at ≤ 20
      (sentinel `base[21] = UINT64_MAX`), the `perm` index is below
      `alpha_size`;
    * `canon_lookup_bound_partial` — the sentinel argument alone, for ANY
      length list (kept from W11).
  The lemmas are in Lemmas/TreeSoundArith.lean (the code intervals tile
  [0, 2^20): bands `S ℓ ≤ x < S (ℓ+1)`, rank inside the band),
  Lemmas/TreeSoundTables.lean (every entry of base/count/perm/start) and
  Lemmas/TreeSound.lean (`lookup_sound`); the key ingredient is the rank formula
  `TransmitSym.canonCode_rank`.
-/
import LbzVerif.Spec.Prefix
import LbzVerif.Model.Canon
import LbzVerif.Lemmas.PrefixTree
import LbzVerif.Lemmas.TreeSound

namespace LbzVerif.Props.C05.Tree
open LbzVerif LbzVerif.Spec.Prefix LbzVerif.Model.Canon LbzVerif.Lemmas.PrefixTree

/-- For code lengths in 1…20 (what the delta decoder hands over) and at most
258 symbols, make_tree accepts iff the lengths are a complete code; it answers
ERR_INCOMPLT iff the Kraft sum is below one and ERR_PREFIX iff it is above;
tables are built exactly when it accepts. -/
theorem makeTree_kraft (lens : List Nat) (hr : ∀ l ∈ lens, 1 ≤ l ∧ l ≤ 20)
    (hn : lens.length ≤ Gen.MAX_ALPHA_SIZE) :
    (verdict lens = .ok ↔ Complete lens) ∧
    (verdict lens = .incomplete ↔ kraft20 lens < 2 ^ 20) ∧
    (verdict lens = .oversubscribed ↔ 2 ^ 20 < kraft20 lens) ∧
    ((makeTree lens).2.isSome ↔ Complete lens) ∧ (makeTree lens).1 = verdict lens := by
  have hk := kraftSum_eq lens hr hn
  have hM : (1 : Nat) <<< MAXL = 2 ^ 20 := by rw [Nat.one_shiftLeft]; rfl
  have hv : (verdict lens = .ok ↔ kraft20 lens = 2 ^ 20) ∧
      (verdict lens = .incomplete ↔ kraft20 lens < 2 ^ 20) ∧
      (verdict lens = .oversubscribed ↔ 2 ^ 20 < kraft20 lens) := by
    unfold verdict
    simp only [hk, hM]
    by_cases h1 : kraft20 lens = 2 ^ 20
    · simp [h1]
    · by_cases h2 : kraft20 lens < 2 ^ 20
      · simp [h1, h2]; omega
      · simp [h1, h2]; omega
  have hc : kraft20 lens = 2 ^ 20 ↔ Complete lens := ⟨fun h => ⟨h, hr⟩, fun h => h.1⟩
  refine ⟨hv.1.trans hc, hv.2.1, hv.2.2, ?_, ?_⟩
  · rw [← hc, ← hv.1]
    unfold makeTree
    cases verdict lens <;> simp
  · unfold makeTree
    cases verdict lens <;> rfl

example : verdict [2, 3, 1, 3] = .ok ∧ verdict [2, 3, 3] = .incomplete ∧
    verdict [1, 1, 3] = .oversubscribed := by decide

/-- PARTIAL (`canon_lookup_bound`).  Proved: for ANY length list, any window
`v < 2^64 − 1` (the bit buffer holds at most 63 live bits, so the lowest bit is
0) and any start index `k ≤ 20`, the walk `while (v >= base[k+1]) k++` over the
table built by make_tree stops with `k ≤ 20`, because `base[21] = UINT64_MAX`.
Missing: the start index read from `start[]` is ≤ 20, and
`count[k] + ((v − base[k]) >> (64−k)) < alpha_size` for complete tables. -/
theorem canon_lookup_bound_partial (lens : List Nat) (v : Nat) (hv : v < 2 ^ 64 - 1)
    (fuel k : Nat) (hk : k ≤ Gen.MAX_CODE_LENGTH) :
    walkUp (mkTree lens).base v fuel k ≤ Gen.MAX_CODE_LENGTH := by
  have h21 : v < (mkTree lens).base.getD 21 0 := by
    show v < (mkBase lens).getD 21 0
    rw [base21]; exact hv
  exact walkUp_le _ v h21 fuel k hk

example : lookup (mkTree [1, 2, 3, 4, 5, 6, 7, 8, 9, 10, 11, 12, 12]) (2 ^ 64 - 2) = some (0, 12) := by
  decide +kernel

/-! ### `makeTree_sound` -/

open LbzVerif.Lemmas.PrefixCanon LbzVerif.Lemmas.TransmitSym LbzVerif.Lemmas.TreeSoundArith
  LbzVerif.Lemmas.TreeSound LbzVerif.Lemmas.TreeSoundTables

/-- **makeTree_sound.**  `lens` complete (Kraft sum one, lengths 1…20), at most
258 symbols, `v` any 64-bit window except `2^64 − 1` (which the bit buffer of
`retrieve()` cannot hold: it never has 64 live bits, so the lowest bit is 0).
Then there is a symbol `i` such that
  * the table lookup of `retrieve()` on the tables built by `make_tree`
    returns `i` in the decoder's internal numbering, with its code length,
  * the bit-by-bit reference `Spec.Prefix.decodeSym` reads `i` from the 64 bits
    of the window (followed by anything) and leaves the bits after the code,
  * the oracle's decoder `Spec.Bzip2.decodeSym (mkCode lens)` does the same. -/
theorem makeTree_sound (lens : List Nat) (hc : Complete lens) (hn : lens.length ≤ Gen.MAX_ALPHA_SIZE)
    (v : Nat) (hv : v < 2 ^ 64 - 1) (pos : Nat) (rest : List Bool) :
    ∃ i, i < lens.length ∧
      lookup (mkTree lens) v = some (renumber lens.length i, lens[i]!) ∧
      Spec.Prefix.decodeSym lens (Basic.natToBits 64 v ++ rest) =
        some (i, Basic.natToBits (64 - lens[i]!) v ++ rest) ∧
      Spec.Bzip2.decodeSym (Spec.Bzip2.mkCode lens) pos (Basic.natToBits 64 v ++ rest) =
        .ok (i, pos + lens[i]!, Basic.natToBits (64 - lens[i]!) v ++ rest) := by
  obtain ⟨l, r, i, hd, hl⟩ := lookup_sound lens hc hn v hv
  have l20 := hd.l20
  have hsplit : Basic.natToBits 64 v = Basic.natToBits l (canonCode lens i) ++ Basic.natToBits (64 - l) v := by
    rw [← top_bits_code lens v l r i hd, ← natToBits_split]
    congr 1
    omega
  refine ⟨i, hd.i_lt, by rw [hd.len]; exact hl, ?_, ?_⟩
  · rw [hd.len, hsplit, List.append_assoc, ← bitsMSB_eq]
    have := decodeSym_encodeSym lens hc i hd.i_lt (Basic.natToBits (64 - l) v ++ rest)
    unfold encodeSym at this
    rw [hd.len] at this
    exact this
  · rw [hd.len, hsplit, List.append_assoc]
    have := decodeSym_canon lens hc i hd.i_lt pos (Basic.natToBits (64 - l) v ++ rest)
    rw [hd.len] at this
    exact this

-- the window 1011… under the code [2,3,1,3,…]: not vacuous — a concrete complete table
example : ∃ i, i < 4 ∧ lookup (mkTree [2, 3, 1, 3]) (0xB000000000000000) = some (renumber 4 i, [2, 3, 1, 3][i]!) :=
  let ⟨i, h1, h2, _⟩ := makeTree_sound [2, 3, 1, 3] (by decide) (by decide) 0xB000000000000000 (by decide) 0 []
  ⟨i, h1, h2⟩

example : lookup (mkTree [2, 3, 1, 3]) (0xB000000000000000) = some (257, 2) ∧
    Spec.Prefix.decodeSym [2, 3, 1, 3] [true, false, true, true] = some (0, [true, true]) ∧
    Complete [2, 3, 1, 3] := by decide +kernel

/-! ### `canon_lookup_bound` -/

/-- **canon_lookup_bound.**  For a complete table of at most 258 symbols and any
window `v < 2^64 − 1`, every array access of the lookup in `retrieve()` is in
bounds: the 5-bit length field `k` of the `start[]` entry is at most 20; when
it exceeds HUFF_START_WIDTH the canonical walk `while (v >= base[k+1]) k++`
stops at `k' ≤ 20` (so `base[k'+1]`, `count[k']` exist), and the index into
`perm[]`, `count[k'] + ((v − base[k']) >> (64 − k'))`, is below `alpha_size`
(= the number of entries of `perm[]`). -/
theorem canon_lookup_bound (lens : List Nat) (hc : Complete lens) (hn : lens.length ≤ Gen.MAX_ALPHA_SIZE)
    (v : Nat) (hv : v < 2 ^ 64 - 1) :
    let t := mkTree lens
    let k := t.start.getD (v >>> (64 - Gen.HUFF_START_WIDTH)) 0 &&& 0x1F
    let k' := walkUp t.base v (Gen.MAX_CODE_LENGTH + 1) k
    t.perm.length = lens.length ∧ k ≤ Gen.MAX_CODE_LENGTH ∧
      (Gen.HUFF_START_WIDTH < k → k' ≤ Gen.MAX_CODE_LENGTH ∧
        t.count.getD k' 0 + (((v + M64 - t.base.getD k' 0) % M64) >>> (64 - k')) < lens.length) := by
  intro t k k'
  have hpl : t.perm.length = lens.length := perm_length lens hc.2
  obtain ⟨l, r, i, hd, hl⟩ := lookup_sound lens hc hn v hv
  have hsw : SW = Gen.HUFF_START_WIDTH := rfl
  have hml : MAXL = Gen.MAX_CODE_LENGTH := rfl
  have h10 : Gen.HUFF_START_WIDTH = 10 := rfl
  have h20 : Gen.MAX_CODE_LENGTH = 20 := rfl
  unfold lookup at hl
  simp only at hl
  rw [hsw, hml] at hl
  change (if k ≤ Gen.HUFF_START_WIDTH then _ else
    (if k' > Gen.MAX_CODE_LENGTH then none else _)) = _ at hl
  by_cases hk : k ≤ Gen.HUFF_START_WIDTH
  · exact ⟨hpl, by omega, fun h => by omega⟩
  · rw [if_neg hk] at hl
    by_cases hk' : k' > Gen.MAX_CODE_LENGTH
    · rw [if_pos hk'] at hl; cases hl
    · rw [if_neg hk'] at hl
      have hge : k ≤ k' := walkUp_ge _ _ _ _
      refine ⟨hpl, by omega, fun _ => ⟨by omega, ?_⟩⟩
      rw [← hpl]
      split at hl
      · assumption
      · cases hl

example : Complete [1, 2, 3, 4, 5, 6, 7, 8, 9, 10, 11, 12, 12] := by decide

end LbzVerif.Props.C05.Tree
