/-
  Props.C05.Block — END-TO-END SOUNDNESS of the block retriever (W17).

  `retrieve_sound`: whenever `retrieve()` (the model `Model.Retrieve` of
  decode.c, fast and slow branch, any word list, any `eof` flag), started in
  `S_INIT` on the bits that follow a block's 32-bit CRC, answers OK, THE oracle
  `Spec.Bzip2.parseBlock` accepts the same bits as a block with the same rand
  flag, origPtr and the same unread bits (= the same end position), and the
  oracle's MTF/RLE2 stage `Spec.Bzip2.unMtfRle2` (capacity 900000 =
  MAX_BLOCK_SIZE: `retrieve()` does not know the stream's level) yields exactly
  the bytes handed to `decode()`, a non-empty block that contains its origPtr.
  Contrapositive (`retrieve_rejects_malformed`): a block the oracle rejects at
  any of these stages is never answered with OK.  `retrieveAll_sound`: the same
  for every admissible segmentation of the input (`Props.C09.retrieve_split`).

  Chain of lemmas (all ∀ inputs):
    header      Lemmas/RetrieveHeader.header_spec (W15) + RetrieveSpecLink.parseBlock_factor
    lookup      Props.C05.Tree.makeTree_sound / Lemmas.TreeSound.lookup_sound
    group loop  Lemmas/GroupMachine.groups_machine (machine = `GroupDefs.groupsRef`),
                Lemmas/GroupPure.groupsRef_sound (`groupsRef` = `decodeGroups` + fold),
                incl. ERR_INCOMPLT/ERR_PREFIX ⇔ used table not complete, surplus
                selectors ignored, 18001 clamp, ERR_UNTERM ⇔ missing EOB
    symbols     Props.C05.Retrieve.retrieve_symbols_sound (W10/W15),
                Lemmas/SpecMtfLink.unMtfRle2_link (`Spec.Mtf` = `Spec.Bzip2`)
    assembly    Lemmas/GroupFinal.run_ok_sound
  Hypothesis `w ≤ 63`: the 64-bit buffer never holds 64 live bits (`NEED`
  refills only below 32; `bs->live` < 32 on entry in the C code).
-/
import LbzVerif.Lemmas.GroupFinal

namespace LbzVerif.Props.C05.Block
open LbzVerif LbzVerif.Model.Retrieve
open LbzVerif.Lemmas.RetrieveBits LbzVerif.Lemmas.RetrieveFast LbzVerif.Lemmas.GroupFinal

/-- **retrieve_sound.**  `v`, `w`: any legal buffer with at most 63 live bits;
`ws`: any words; `eof`: any.  If the call answers OK then for every bit string
`bits` = 32 bits (the stored CRC `crc`) followed by the unread bits of the
call, the oracle parses a block `b` out of `bits`, leaving exactly the bits the
retriever leaves unread, with `b.rand` / `b.origPtr` = the `rand` / `bwt_idx`
handed to `decode()`, and `unMtfRle2 b.used 900000 b.syms` = the bytes of `tt`
(`run.out` is stored most recent first), `block_size = |tt| ≠ 0`,
`origPtr < |tt|`. -/
theorem retrieve_sound (v w : Nat) (ws : List Nat) (eof : Bool) (inv : BufInv v w) (hw : w ≤ 63)
    (hok : (retrieve (St.start v w) ws eof).status = .ok)
    (level start crc : Nat) (bits : List Bool)
    (h32 : Basic.takeNat 32 bits = some (crc, bitsOf (St.start v w) ws)) :
    ∃ (b : Spec.Bzip2.Block) (tt : Array UInt8),
      Spec.Bzip2.parseBlock level start bits =
        .ok (b, bitsOf (retrieve (St.start v w) ws eof).st (retrieve (St.start v w) ws eof).rest) ∧
      b.level = level ∧ b.startBit = start ∧ b.storedCrc = crc ∧
      b.rand = ((retrieve (St.start v w) ws eof).st.rand == 1) ∧
      b.origPtr = (retrieve (St.start v w) ws eof).st.bwtIdx ∧
      Spec.Bzip2.unMtfRle2 b.used Gen.MAX_BLOCK_SIZE b.syms.toList = .ok tt ∧
      tt.toList = (retrieve (St.start v w) ws eof).st.run.out.reverse ∧
      tt.size = (retrieve (St.start v w) ws eof).st.run.n ∧ tt.size ≠ 0 ∧ b.origPtr < tt.size := by
  have hres : retrieve (St.start v w) ws eof = (run false (St.start v w) ws).result eof := by
    have hpc : (St.start v w).pc = .init := rfl
    unfold retrieve retrieveWith; rw [if_pos hpc, run_fast_eq_slow]
  rw [hres] at hok ⊢
  cases hr : run false (St.start v w) ws with
  | susp s => rw [hr] at hok; cases eof <;> simp [RunOut.result] at hok
  | halt r s' rest' =>
    rw [hr] at hok
    have hrok : r = .ok := by
      cases r <;> simp [RunOut.result, Halt.toStatus] at hok
      rfl
    subst hrok
    exact run_ok_sound v w ws inv hw s' rest' hr level start crc bits h32

/-- **retrieve_rejects_malformed.**  If the oracle does not accept the bits as
a block whose MTF/RLE2 stage gives a non-empty block of at most 900000 bytes
containing its origPtr, `retrieve()` never answers OK — whatever the words,
the `eof` flag (and, by `retrieveAll_sound`, the segmentation). -/
theorem retrieve_rejects_malformed (v w : Nat) (ws : List Nat) (eof : Bool) (inv : BufInv v w)
    (hw : w ≤ 63) (level start crc : Nat) (bits : List Bool)
    (h32 : Basic.takeNat 32 bits = some (crc, bitsOf (St.start v w) ws))
    (hbad : ∀ b rest tt, Spec.Bzip2.parseBlock level start bits = .ok (b, rest) →
      Spec.Bzip2.unMtfRle2 b.used Gen.MAX_BLOCK_SIZE b.syms.toList = .ok tt →
      tt.size = 0 ∨ tt.size ≤ b.origPtr) :
    (retrieve (St.start v w) ws eof).status ≠ .ok := by
  intro hok
  obtain ⟨b, tt, h1, _, _, _, _, _, h2, _, _, h3, h4⟩ :=
    retrieve_sound v w ws eof inv hw hok level start crc bits h32
  cases hbad b _ tt h1 h2 with
  | inl h => exact h3 h
  | inr h => omega

-- Non-vacuity: a block cut off after one word — the oracle rejects (truncated), so the hypothesis
-- holds, and the retriever indeed does not answer OK (it answers ERR_EOF).
example : (retrieve (St.start 0 0) [1] true).status ≠ .ok :=
  retrieve_rejects_malformed 0 0 [1] true bufInv_start (by omega) 9 0 0
    (Basic.natToBits 32 0 ++ bitsOf (St.start 0 0) [1]) (by rw [Basic.takeNat_natToBits])
    (by
      intro b rest tt hp
      exfalso
      have h : (match Spec.Bzip2.parseBlock 9 0 (Basic.natToBits 32 0 ++ bitsOf (St.start 0 0) [1]) with
          | .ok _ => false | .error _ => true) = true := by decide +kernel
      rw [hp] at h
      cases h)

/-- **retrieveAll_sound.**  The same for the input delivered in any admissible
segmentation (every call but the last with `eof = false`). -/
theorem retrieveAll_sound (v w : Nat) (segs : List (List Nat)) (inv : BufInv v w) (hw : w ≤ 63)
    (hadm : Props.C09.Retrieve.Admissible (St.start v w) segs)
    (hok : (retrieveAll (St.start v w) segs).status = .ok)
    (level start crc : Nat) (bits : List Bool)
    (h32 : Basic.takeNat 32 bits = some (crc, bitsOf (St.start v w) segs.flatten)) :
    ∃ (b : Spec.Bzip2.Block) (tt : Array UInt8),
      Spec.Bzip2.parseBlock level start bits =
        .ok (b, bitsOf (retrieveAll (St.start v w) segs).st (retrieveAll (St.start v w) segs).rest) ∧
      b.rand = ((retrieveAll (St.start v w) segs).st.rand == 1) ∧
      b.origPtr = (retrieveAll (St.start v w) segs).st.bwtIdx ∧
      Spec.Bzip2.unMtfRle2 b.used Gen.MAX_BLOCK_SIZE b.syms.toList = .ok tt ∧
      tt.toList = (retrieveAll (St.start v w) segs).st.run.out.reverse ∧
      tt.size ≠ 0 ∧ b.origPtr < tt.size := by
  rw [Props.C09.Retrieve.retrieve_split segs _ hadm] at hok ⊢
  obtain ⟨b, tt, h1, _, _, _, h5, h6, h7, h8, _, h10, h11⟩ :=
    retrieve_sound v w segs.flatten true inv hw hok level start crc bits h32
  exact ⟨b, tt, h1, h5, h6, h7, h8, h10, h11⟩

-- Non-vacuity of the segmented form: `tiny` delivered as 1 + 2 + 3 words.
example : Props.C09.Retrieve.Admissible (St.start 0 0)
      [[1], [3145760, 3178537], [230686720, 2863311530, 2863311530]] ∧
    (retrieveAll (St.start 0 0) [[1], [3145760, 3178537], [230686720, 2863311530, 2863311530]]).status = .ok :=
  ⟨by simp [Props.C09.Retrieve.Admissible, Props.C09.Retrieve.MiddleNonEmpty], by decide +kernel⟩

-- Non-vacuity: the block `tiny` of Props.C09.Retrieve ("ab", origPtr 0) behind the CRC 0.
example : ∃ (b : Spec.Bzip2.Block) (tt : Array UInt8),
    Spec.Bzip2.parseBlock 9 0 (Basic.natToBits 32 0 ++ bitsOf (St.start 0 0) Props.C09.Retrieve.tiny) =
      .ok (b, bitsOf (retrieve (St.start 0 0) Props.C09.Retrieve.tiny true).st
        (retrieve (St.start 0 0) Props.C09.Retrieve.tiny true).rest) ∧
    Spec.Bzip2.unMtfRle2 b.used Gen.MAX_BLOCK_SIZE b.syms.toList = .ok tt ∧
    tt.toList = (retrieve (St.start 0 0) Props.C09.Retrieve.tiny true).st.run.out.reverse := by
  obtain ⟨b, tt, h1, _, _, _, _, _, h7, h8, _⟩ :=
    retrieve_sound 0 0 Props.C09.Retrieve.tiny true bufInv_start (by omega) (by decide +kernel) 9 0 0
      (Basic.natToBits 32 0 ++ bitsOf (St.start 0 0) Props.C09.Retrieve.tiny)
      (by rw [Basic.takeNat_natToBits])
  exact ⟨b, tt, h1, h7, h8⟩

-- … and what comes out: the two bytes "ab"
example : (retrieve (St.start 0 0) Props.C09.Retrieve.tiny true).st.run.out.reverse = [97, 98] := by
  decide +kernel

end LbzVerif.Props.C05.Block
