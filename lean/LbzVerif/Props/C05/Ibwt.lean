/-
  C05 — `decode()`: inverse BWT as lbzip2 does it (packed singly-linked list,
  in-situ variant + derandomisation for randomised blocks).

  Reference (own, in Model/Ibwt.lean second half, namespace `Spec.Ibwt`; W5's
  Spec was not available): `ibwt L idx` = follow the successor vector obtained
  by STABLY sorting the positions of the last column `L`; `ibwtNaive` =
  row `idx` of the sorted rotation matrix rebuilt by n rounds of
  "prepend `L`, sort"; `derand` = bzip2's (rNToGo, rTPos) automaton.

  Status.  The intended theorem is `IbwtSound` below; it is STATED, and
  proved here only in part:
  * `ibwt_link_sound_partial` (all blocks, not randomised): the list that
    `decode()` builds is a successor-vector structure — slot `pos L i` carries
    byte `L[pos L i]` and pointer `i`, where `pos L` is injective, stays below
    `n` and orders the indices by (byte, index), i.e. it is the rank in the
    stable sort — and the bytes `emit()` reads are the textbook traversal
    `follow` of that vector from `idx`.
    MISSING for `IbwtSound`: (1) that `Spec.Ibwt.succVec` (insertion sort)
    realises the same rank function (`succVec L`[pos L i] = i) together with
    surjectivity of `pos L` onto `[0,n)` (pigeonhole); (2) the randomised
    path: `bsearch` over the advanced `ftab` returns the first-column byte of a
    slot, `derandLoop` flips exactly the positions of `Spec.Ibwt.derand`, and
    the re-formed list is traversed in index order.
  * TESTS (evaluated by the kernel, Lemmas/IbwtTests.lean): `IbwtSound`'s
    equation on every last column of length ≤ 3 over three symbols and of
    length 4, 5 over two symbols, for every primary index, against both
    reference forms; two words; the derandomisation loop against the
    reference automaton on 2000 bytes; rand path = plain path on small blocks.
  The per-run campaign (checks/w12_emit.py) compares the real `decode()`, the
  model and the reference on blocks of sizes around 617/1337 and above.
-/
import LbzVerif.Lemmas.Ibwt
import LbzVerif.Lemmas.IbwtTests

namespace LbzVerif.Props.C05

open LbzVerif
open LbzVerif.Model.Ibwt
open LbzVerif.Lemmas.Ibwt

/-- The intended full-strength statement (NOT proved in general; see header). -/
def IbwtSound : Prop :=
  ∀ (L : List UInt8) (idx : Nat), idx < L.length →
    nodes false idx L = Spec.Ibwt.ibwt L idx ∧
    nodes true idx L = Spec.Ibwt.derand Gen.randTable (Spec.Ibwt.ibwt L idx)

/-- **ibwt_link_sound_partial** (see header for what is missing). -/
theorem ibwt_link_sound_partial (L : List UInt8) (idx : Nat) (hidx : idx < L.length) :
    (∀ i, i < L.length → pos L i < L.length) ∧
    (∀ i j, i < L.length → j < L.length → pos L i = pos L j → i = j) ∧
    (∀ i j, i < L.length → j < L.length →
      (pos L i < pos L j ↔ byteAt L i < byteAt L j ∨ (byteAt L i = byteAt L j ∧ i < j))) ∧
    ∃ T : List Nat, T.length = L.length ∧ (∀ i, i < L.length → T.getD (pos L i) 0 = i) ∧
      nodes false idx L = Spec.Ibwt.follow L T L.length idx :=
  ⟨fun i hi => pos_lt L i hi, fun i j hi hj h => pos_inj L i j hi hj h,
    fun i j hi hj => pos_order L i j hi hj, nodes_eq_follow L idx hidx⟩

-- "banana": last column nnbaaa; the ranks of its six positions and the decoding from row 3
example : (List.range 6).map (pos [110, 110, 98, 97, 97, 97]) = [4, 5, 3, 0, 1, 2] ∧
    nodes false 3 [110, 110, 98, 97, 97, 97] = [98, 97, 110, 97, 110, 97] := by
  decide +kernel

/-- TESTS of `IbwtSound` on enumerated small inputs (see Lemmas/IbwtTests.lean). -/
theorem ibwt_sound_tests :
    (((List.range 4).drop 1).all (fun n => (Lemmas.IbwtTests.allLists 3 n).all
        (fun L => Lemmas.IbwtTests.agree L && Lemmas.IbwtTests.ptrsOK L)) &&
      (Lemmas.IbwtTests.allLists 2 4).all
        (fun L => Lemmas.IbwtTests.agree L && Lemmas.IbwtTests.ptrsOK L) &&
      (Lemmas.IbwtTests.allLists 2 5).all
        (fun L => Lemmas.IbwtTests.agree L && Lemmas.IbwtTests.ptrsOK L)) = true ∧
    (derandLoop 2000 2000 0 Gen.RAND_THRESH (List.replicate 2000 0)).map (UInt8.ofNat ·) =
      Spec.Ibwt.derand Gen.randTable (List.replicate 2000 0) :=
  ⟨Lemmas.IbwtTests.test_small_alphabet, Lemmas.IbwtTests.test_derand⟩

end LbzVerif.Props.C05
