/-
  C05 — `decode()`: inverse BWT as lbzip2 does it (packed singly-linked list,
  in-situ variant + derandomisation for randomised blocks).

  Reference (own, in Model/Ibwt.lean second half, namespace `Spec.Ibwt`; W5's
  Spec was not available when it was written — Props/C05/Stages.lean proves it
  equal to `Spec.Bzip2.ibwt` / `Spec.Bzip2.derand`): `ibwt L idx` = follow the
  successor vector obtained by STABLY sorting the positions of the last column
  `L`; `ibwtNaive` = row `idx` of the sorted rotation matrix rebuilt by n
  rounds of "prepend `L`, sort"; `derand` = bzip2's (rNToGo, rTPos) automaton.

  Status.  `IbwtSound` is PROVED for all blocks (`ibwt_sound_all`):
  * `ibwt_sound` (not randomised): the bytes `emit()` reads after `decode()`
    are `Spec.Ibwt.ibwt L idx`.  Ingredients: `ibwt_link_sound_partial` (the
    list is a successor-vector structure, W12) + `pos_onto` (the rank function
    `pos L` is onto `[0,n)`, and `Spec.Ibwt.succVec` — insertion sort —
    realises it: Lemmas/IbwtSort.lean).
  * `ibwt_sound_rand` (randomised): … are `derand (ibwt L idx)`.
    Ingredients (Lemmas/IbwtRand.lean, Lemmas/IbwtDerand.lean):
    `bsearch_sound` (the 8-step binary search over the advanced `ftab` returns
    the first-column byte of a slot), `insitu_spec` (pointers kept, byte m :=
    bsearch(T^m idx)), `derand_loop_sound` (the index-jumping loop over
    `rand_table` from `RAND_THRESH` = the reference automaton, every length),
    `walk_reform` (the re-formed list is read in index order from
    `rle_index = 0`).
  * `rle_index_bound_rand`: on the randomised path the traversal dereferences
    exactly the pointers `0 … n-1` (C08; complements
    `Props.C08.rle_index_bound_partial`, which covers the other path).
  * TESTS (evaluated by the kernel, Lemmas/IbwtTests.lean) are kept:
    `ibwt_sound_tests` additionally ties `ibwt` to the naive sorted-matrix
    form `ibwtNaive` on small inputs (that equation is NOT proved in general).
  The per-run campaign (checks/w12_emit.py) compares the real `decode()`, the
  model and the reference on blocks of sizes around 617/1337 and above.
-/
import LbzVerif.Lemmas.Ibwt
import LbzVerif.Lemmas.IbwtTests
import LbzVerif.Lemmas.IbwtSort
import LbzVerif.Lemmas.IbwtRand

namespace LbzVerif.Props.C05

open LbzVerif
open LbzVerif.Model.Ibwt
open LbzVerif.Lemmas.Ibwt

/-- The full-strength statement (proved below: `ibwt_sound_all`). -/
def IbwtSound : Prop :=
  ∀ (L : List UInt8) (idx : Nat), idx < L.length →
    nodes false idx L = Spec.Ibwt.ibwt L idx ∧
    nodes true idx L = Spec.Ibwt.derand Gen.randTable (Spec.Ibwt.ibwt L idx)

/-- **ibwt_link_sound_partial** (W12's structural part; completed by `ibwt_sound`). -/
theorem ibwt_link_sound_partial (L : List UInt8) (idx : Nat) (hidx : idx < L.length) :
    (∀ i, i < L.length → pos L i < L.length) ∧
    (∀ i j, i < L.length → j < L.length → pos L i = pos L j → i = j) ∧
    (∀ i j, i < L.length → j < L.length →
      (pos L i < pos L j ↔ byteAt L i < byteAt L j ∨ (byteAt L i = byteAt L j ∧ i < j))) ∧
    ∃ T : List Nat, T.length = L.length ∧ (∀ i, i < L.length → T.getD (pos L i) 0 = i) ∧
      nodes false idx L = Spec.Ibwt.follow L T L.length idx :=
  ⟨fun i hi => pos_lt L i hi, fun i j hi hj h => pos_inj L i j hi hj h,
    fun i j hi hj => pos_order L i j hi hj, nodes_eq_follow L idx hidx⟩

-- "banana": last column nnbaaa; the ranks of its six positions and the decoding from row 3
example : (List.range 6).map (pos [110, 110, 98, 97, 97, 97]) = [4, 5, 3, 0, 1, 2] ∧
    nodes false 3 [110, 110, 98, 97, 97, 97] = [98, 97, 110, 97, 110, 97] := by
  decide +kernel

/-- TESTS of `IbwtSound` on enumerated small inputs (see Lemmas/IbwtTests.lean). -/
theorem ibwt_sound_tests :
    (((List.range 4).drop 1).all (fun n => (Lemmas.IbwtTests.allLists 3 n).all
        (fun L => Lemmas.IbwtTests.agree L && Lemmas.IbwtTests.ptrsOK L)) &&
      (Lemmas.IbwtTests.allLists 2 4).all
        (fun L => Lemmas.IbwtTests.agree L && Lemmas.IbwtTests.ptrsOK L) &&
      (Lemmas.IbwtTests.allLists 2 5).all
        (fun L => Lemmas.IbwtTests.agree L && Lemmas.IbwtTests.ptrsOK L)) = true ∧
    (derandLoop 2000 2000 0 Gen.RAND_THRESH (List.replicate 2000 0)).map (UInt8.ofNat ·) =
      Spec.Ibwt.derand Gen.randTable (List.replicate 2000 0) :=
  ⟨Lemmas.IbwtTests.test_small_alphabet, Lemmas.IbwtTests.test_derand⟩

/-- **pos_onto.**  The rank function is onto `[0,n)`, and the reference's
successor vector (stable insertion sort of the positions) is its inverse. -/
theorem pos_onto (L : List UInt8) :
    (∀ q, q < L.length → ∃ i, i < L.length ∧ pos L i = q) ∧
    (∀ q, q < L.length → pos L ((Spec.Ibwt.succVec L).getD q 0) = q) ∧
    (∀ i, i < L.length → (Spec.Ibwt.succVec L).getD (pos L i) 0 = i) :=
  ⟨Lemmas.IbwtSort.pos_surj L, Lemmas.IbwtSort.pos_succVec L, Lemmas.IbwtSort.succVec_pos L⟩

example : Spec.Ibwt.succVec [110, 110, 98, 97, 97, 97] = [3, 4, 5, 2, 0, 1] ∧
    (List.range 6).map (pos [110, 110, 98, 97, 97, 97]) = [4, 5, 3, 0, 1, 2] := by
  decide +kernel

/-- **ibwt_sound** (non-randomised path, every block, every primary index
below the block size): the bytes `emit()` reads after `decode()` are the
textbook inverse BWT of `(L, idx)`. -/
theorem ibwt_sound (L : List UInt8) (idx : Nat) (hidx : idx < L.length) :
    nodes false idx L = Spec.Ibwt.ibwt L idx :=
  Lemmas.IbwtSort.nodes_false_eq_ibwt L idx hidx

example : nodes false 3 [110, 110, 98, 97, 97, 97] = Spec.Ibwt.ibwt [110, 110, 98, 97, 97, 97] 3 ∧
    Spec.Ibwt.ibwt [110, 110, 98, 97, 97, 97] 3 = [98, 97, 110, 97, 110, 97] :=
  ⟨ibwt_sound _ 3 (by decide), by decide +kernel⟩

/-- **bsearch_sound.**  The eight-step binary search returns `k ≤ 255` with
`ftab[k-1] ≤ j < ftab[k]` (reading `ftab[-1]` as 0 and `ftab[255]` as +∞), for
any table; over the table `decode()` has at that point (`ftab[b]` = number of
bytes `≤ b`) and a slot `j = pos L i` it returns `L[i]`, the first-column byte
of that slot. -/
theorem bsearch_sound (L : List UInt8) (F : List Nat) (j : Nat) :
    (bsearch F j ≤ 255 ∧ (bsearch F j = 0 ∨ F.getD (bsearch F j - 1) 0 ≤ j) ∧
      (bsearch F j = 255 ∨ j < F.getD (bsearch F j) 0)) ∧
    ((∀ b, b < 256 → F.getD b 0 = cntLt L (b + 1)) →
      ∀ i, i < L.length → bsearch F (pos L i) = byteAt L i) ∧
    (∀ b, b < 256 →
      (link (L.map (·.toNat)) (cumulate 0 (counts L)) L.length).2.getD b 0 = cntLt L (b + 1)) :=
  ⟨Lemmas.IbwtRand.bsearch_spec F j, fun hF i hi => Lemmas.IbwtRand.bsearch_pos L F hF i hi,
    (Lemmas.IbwtRand.link_state L).2.2⟩

-- ftab after `link` on "nnbaaa": a→3, b→4, n→6; slots 0-2 ↦ 'a', 3 ↦ 'b', 4-5 ↦ 'n'
example :
    (List.range 6).map (bsearch (link (([110, 110, 98, 97, 97, 97] : List UInt8).map (·.toNat))
      (cumulate 0 (counts [110, 110, 98, 97, 97, 97])) 6).2) = [97, 97, 97, 98, 110, 110] := by
  decide +kernel

/-- **derand_loop_sound.**  For every cell array: the bytes after
`i = 0, j = RAND_THRESH; while (j < n) { tt[j] ^= 1; i = (i+1) & 0x1FF;
j += rand_table[i]; }` are the reference derandomisation (the `rNToGo` /
`rTPos` automaton over the same table) of the bytes before. -/
theorem derand_loop_sound (tt : List Nat) :
    (derandLoop tt.length tt.length 0 Gen.RAND_THRESH tt).map Lemmas.IbwtDerand.low =
      Spec.Ibwt.derand Gen.randTable (tt.map Lemmas.IbwtDerand.low) :=
  Lemmas.IbwtDerand.derandLoop_low tt

-- 700 cells holding byte 5: exactly cell 617 (= RAND_THRESH) is flipped
example :
    ((derandLoop 700 700 0 Gen.RAND_THRESH (List.replicate 700 5)).map
      Lemmas.IbwtDerand.low).zipIdx.filter (fun (b, _) => b != 5) = [(4, 617)] := by
  decide +kernel

/-- **ibwt_sound_rand** (randomised path, every block): the bytes `emit()`
reads after `decode()` are the reference derandomisation of the textbook
inverse BWT of `(L, idx)`. -/
theorem ibwt_sound_rand (L : List UInt8) (idx : Nat) (hidx : idx < L.length) :
    nodes true idx L = Spec.Ibwt.derand Gen.randTable (Spec.Ibwt.ibwt L idx) :=
  Lemmas.IbwtRand.nodes_true_eq L idx hidx

-- (blocks of ≤ 617 bytes are not changed by derandomisation; for a longer one see the
-- example after `derand_loop_sound` and `Lemmas.IbwtTests.test_derand`)
example : nodes true 3 [110, 110, 98, 97, 97, 97] =
      Spec.Ibwt.derand Gen.randTable (Spec.Ibwt.ibwt [110, 110, 98, 97, 97, 97] 3) ∧
    nodes true 3 [110, 110, 98, 97, 97, 97] = [98, 97, 110, 97, 110, 97] :=
  ⟨ibwt_sound_rand _ 3 (by decide), by decide +kernel⟩

/-- **ibwt_sound_all**: `IbwtSound` holds. -/
theorem ibwt_sound_all : IbwtSound :=
  fun L idx h => ⟨ibwt_sound L idx h, ibwt_sound_rand L idx h⟩

/-- **rle_index_bound_rand** (C08, randomised path): `rle_index = 0` and the
traversal `emit()` performs dereferences the pointers `0 … n-1` only (the
pointer `n` stored in the last cell is never followed). -/
theorem rle_index_bound_rand (L : List UInt8) (idx : Nat) (hn : 0 < L.length) :
    let d := decode true idx L (counts L)
    d.rleIndex = 0 ∧ walkMaxPtr d.tt L.length d.rleIndex < L.length := by
  obtain ⟨h0, h1⟩ := Lemmas.IbwtRand.decode_walk_bound_rand L idx hn
  exact ⟨h0, by rw [h1]; omega⟩

example :
    (let d := decode true 3 [110, 110, 98, 97, 97, 97] (counts [110, 110, 98, 97, 97, 97]);
     walkMaxPtr d.tt 6 d.rleIndex = 5 ∧ d.tt.map (· >>> 8) = [1, 2, 3, 4, 5, 6]) := by
  decide +kernel

end LbzVerif.Props.C05
