/-
  C05 — `emit()` writes exactly the run-length decoding of the block, computes
  the CRC of exactly those bytes, and reports ERR_RUNLEN exactly when the block
  ends right after four equal bytes (count byte missing).

  Reference: `Spec.UnRle1.unRle1` (Model/Emit.lean, second half; independent of
  lbzip2): copy bytes; after four equal bytes the next byte is a repeat count.
  `xs` is the node sequence of the block in traversal order (what `decode()`
  prepared); conditions as in Props/C09/Emit.lean.
-/
import LbzVerif.Lemmas.Emit

namespace LbzVerif.Props.C05

open LbzVerif
open LbzVerif.Model.Emit
open LbzVerif.Lemmas.Emit

/-- **emit_sound.**  For every list of output buffer sizes:
* final status OK ⇒ the reference accepts the block, the bytes written (over
  all calls) are its decoding, and `ds->crc` is the bzip2 CRC register run over
  exactly those bytes (`0xFFFFFFFF` initial value, final complement);
* final status ERR_RUNLEN ⇒ the reference rejects the block (count byte
  missing);
* the emitter never aborts, and if the buffers run out first (MORE) the bytes
  so far are a prefix of the reference output. -/
theorem emit_sound (xs : List UInt8) (hx : xs.length < M1) (sizes : List Nat)
    (hs : ∀ z ∈ sizes, z < M1) :
    ((run (St.init xs) sizes).final = .ok →
        Spec.UnRle1.unRle1 xs = some (run (St.init xs) sizes).bytes ∧
        (run (St.init xs) sizes).crc =
          crcBytes 0xFFFFFFFF (run (St.init xs) sizes).bytes ^^^ 0xFFFFFFFF) ∧
    ((run (St.init xs) sizes).final = .errRunlen → Spec.UnRle1.unRle1 xs = none) ∧
    (run (St.init xs) sizes).final ≠ .abort ∧
    ((run (St.init xs) sizes).final = .more →
        ∃ rest, unOut 0 0 xs = (run (St.init xs) sizes).bytes ++ rest) := by
  have r := run_R sizes (St.init xs) (init_Inv xs hx) hs
  have hm : meaningOut (St.init xs) = unOut 0 0 xs := by simp [meaningOut, St.init]
  have hb : meaningBad (St.init xs) = unBad 0 0 xs := by simp [meaningBad, St.init]
  have hc : (St.init xs).crc = 0xFFFFFFFF := rfl
  rw [hm, hb, hc] at r
  unfold RunOK at r
  have hgo := go_eq xs 0 0
  cases e : (run (St.init xs) sizes).final <;> simp only [e] at r ⊢
  · obtain ⟨r1, r2, r3, _⟩ := r
    simp [Spec.UnRle1.unRle1, hgo, r2, ← r1, r3]
  · simp [r.1]
  · obtain ⟨_, r2, _⟩ := r
    simp [Spec.UnRle1.unRle1, hgo, r2]

/-- Converse direction (needed for "exactly when"): with enough output space
the emitter ends with OK iff the reference accepts, and with ERR_RUNLEN iff the
reference rejects. -/
theorem emit_status_iff (xs : List UInt8) (hx : xs.length < M1) (sizes : List Nat)
    (hs : ∀ z ∈ sizes, z < M1) (hbig : (unOut 0 0 xs).length < sizes.sum) :
    ((run (St.init xs) sizes).final = .ok ↔ (Spec.UnRle1.unRle1 xs).isSome) ∧
    ((run (St.init xs) sizes).final = .errRunlen ↔ Spec.UnRle1.unRle1 xs = none) := by
  have r := run_R sizes (St.init xs) (init_Inv xs hx) hs
  have hm : meaningOut (St.init xs) = unOut 0 0 xs := by simp [meaningOut, St.init]
  have hb : meaningBad (St.init xs) = unBad 0 0 xs := by simp [meaningBad, St.init]
  rw [hm, hb] at r
  unfold RunOK at r
  have hgo := go_eq xs 0 0
  cases e : (run (St.init xs) sizes).final <;> simp only [e] at r ⊢
  · simp [Spec.UnRle1.unRle1, hgo, r.2.1]
  · obtain ⟨a1, _, a3, _⟩ := r
    rw [a1, List.length_append, a3] at hbig
    omega
  · simp [Spec.UnRle1.unRle1, hgo, r.2.1]

/-- The two ways a block can end in equal bytes: three are fine, four need
their count. -/
example : Spec.UnRle1.unRle1 [1, 2, 2, 2] = some [1, 2, 2, 2] ∧
    Spec.UnRle1.unRle1 [1, 2, 2, 2, 2] = none ∧
    Spec.UnRle1.unRle1 [1, 2, 2, 2, 2, 3] = some [1, 2, 2, 2, 2, 2, 2, 2] ∧
    (run (St.init [1, 2, 2, 2, 2]) [2, 2, 50]).final = .errRunlen ∧
    (run (St.init [1, 2, 2, 2, 2]) [2, 2, 50]).bytes = [1, 2, 2, 2, 2] ∧
    (run (St.init [1, 2, 2, 2, 2, 3]) [2, 2, 50]).final = .ok ∧
    (run (St.init [1, 2, 2, 2, 2, 3]) [2, 2, 50]).bytes = [1, 2, 2, 2, 2, 2, 2, 2] := by decide

end LbzVerif.Props.C05
