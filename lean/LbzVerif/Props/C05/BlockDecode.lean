/-
  Props.C05.BlockDecode — the WHOLE block decoder against THE oracle (W17,
  composition of W15/W17 `retrieve_sound` with W12's back end
  `Props.C05.decode_emit_sound`, whose inverse-BWT part `IbwtSound` is proved:
  `ibwt_sound`, `ibwt_sound_rand`).

  `block_decode_sound`: `retrieve()` answers OK on the bits after a block's CRC,
  the block passes the size test of expand.c (`blk_sz ≤ bs100k·100000`),
  `decode()` + any sequence of `emit()` calls on the retrieved block end with
  OK, and the CRC `emit()` computed equals the stored block CRC (the comparison
  the caller makes)  ⇒  the oracle parses the same bits as a block `b`, with the
  same unread bits, and `Spec.Bzip2.decodeBlock b` — MTF/RLE2 with the level's
  capacity, inverse BWT, derandomisation, final run-length decoding, CRC
  check — ACCEPTS with exactly the emitted bytes and the retriever's block
  size.  So a block that lbzip2's pipeline accepts is one the strict reference
  accepts, and the bytes are the reference decoding.
-/
import LbzVerif.Props.C05.Block
import LbzVerif.Props.C05.Stages
import LbzVerif.Lemmas.SpecMtfCap

namespace LbzVerif.Props.C05.BlockDecode
open LbzVerif LbzVerif.Model.Retrieve
open LbzVerif.Lemmas.RetrieveBits

/-- What `decode()` + `emit()` (with output buffers of the given sizes) make of
the block a call of `retrieve()` handed over. -/
def emitOf (r : Result) (sizes : List Nat) : Model.Emit.Run :=
  Model.Emit.run (Model.Emit.St.init
    (Model.Ibwt.nodes (r.st.rand == 1) r.st.bwtIdx r.st.run.out.reverse)) sizes

/-- **block_decode_sound.** -/
theorem block_decode_sound (v w : Nat) (ws : List Nat) (eof : Bool) (inv : BufInv v w) (hw : w ≤ 63)
    (hok : (retrieve (St.start v w) ws eof).status = .ok)
    (level start crc : Nat) (bits : List Bool)
    (h32 : Basic.takeNat 32 bits = some (crc, bitsOf (St.start v w) ws))
    (hlev : (retrieve (St.start v w) ws eof).st.run.n ≤ level * 100000)
    (sizes : List Nat) (hs : ∀ z ∈ sizes, z < Model.Emit.M1)
    (hemit : (emitOf (retrieve (St.start v w) ws eof) sizes).final = .ok)
    (hcrc : (emitOf (retrieve (St.start v w) ws eof) sizes).crc.toNat = crc) :
    ∃ b : Spec.Bzip2.Block,
      Spec.Bzip2.parseBlock level start bits =
        .ok (b, bitsOf (retrieve (St.start v w) ws eof).st (retrieve (St.start v w) ws eof).rest) ∧
      Spec.Bzip2.decodeBlock b =
        .ok { nblock := (retrieve (St.start v w) ws eof).st.run.n,
              bytes := (emitOf (retrieve (St.start v w) ws eof) sizes).bytes.toArray } := by
  obtain ⟨b, tt, h1, hlv, _, hsc, hrand, hidx, hm, htl, hsz, hne, hop⟩ :=
    Props.C05.Block.retrieve_sound v w ws eof inv hw hok level start crc bits h32
  refine ⟨b, h1, ?_⟩
  generalize retrieve (St.start v w) ws eof = R at *
  have hcapB : tt.size ≤ Spec.Bzip2.blockCap b.level := by
    rw [hlv, hsz]; exact hlev
  have hmcap := Lemmas.SpecMtfCap.unMtfRle2_cap_mono b.used Gen.MAX_BLOCK_SIZE _ _ tt hm hcapB
  rw [Props.C05.decodeBlock_of_stages b tt hmcap hne]
  have htt : tt = (R.st.run.out.reverse).toArray := by
    rw [← htl]
  have hlen : (R.st.run.out.reverse).length = tt.size := by rw [← htl]; simp
  have hcap9 := (Lemmas.SpecMtfLink.unMtfRle2_size_ge b.used Gen.MAX_BLOCK_SIZE _ tt hm).2
  have hdes := Props.C05.decode_emit_sound (R.st.rand == 1) R.st.run.out.reverse R.st.bwtIdx
    (by rw [hlen, ← hidx]; exact hop)
    (by rw [hlen]; have : Gen.MAX_BLOCK_SIZE < Model.Emit.M1 := by decide
        omega) sizes hs
  obtain ⟨e1, e2⟩ := hdes.1 hemit
  rw [hrand, hidx, htt, e1]
  simp only
  unfold emitOf at hcrc
  rw [if_pos (by rw [hsc, ← e2]; exact hcrc)]
  rw [← htt, hsz]
  rfl

-- Non-vacuity: the block `tiny` (last column "ab", origPtr 0, not randomised; as a BWT block with
-- this origPtr it decodes to "aa") behind the CRC of its text, level 9, one output buffer of 100
-- bytes: all hypotheses hold, and the oracle's `decodeBlock` accepts with the emitted bytes.
example : ∃ b : Spec.Bzip2.Block,
    Spec.Bzip2.decodeBlock b = .ok { nblock := 2, bytes := #[97, 97] } := by
  have hlt : (emitOf (retrieve (St.start 0 0) Props.C09.Retrieve.tiny true) [100]).crc.toNat < 2 ^ 32 :=
    UInt32.toNat_lt _
  obtain ⟨b, _, h2⟩ := block_decode_sound 0 0 Props.C09.Retrieve.tiny true bufInv_start (by omega)
    (by decide +kernel) 9 0 (emitOf (retrieve (St.start 0 0) Props.C09.Retrieve.tiny true) [100]).crc.toNat
    (Basic.natToBits 32 (emitOf (retrieve (St.start 0 0) Props.C09.Retrieve.tiny true) [100]).crc.toNat ++
      bitsOf (St.start 0 0) Props.C09.Retrieve.tiny)
    (by rw [Basic.takeNat_natToBits, Nat.mod_eq_of_lt hlt])
    (by decide +kernel) [100] (by decide) (by decide +kernel) rfl
  have e1 : (retrieve (St.start 0 0) Props.C09.Retrieve.tiny true).st.run.n = 2 := by decide +kernel
  have e2 : (emitOf (retrieve (St.start 0 0) Props.C09.Retrieve.tiny true) [100]).bytes = [97, 97] := by
    decide +kernel
  rw [e1, e2] at h2
  exact ⟨b, h2⟩

end LbzVerif.Props.C05.BlockDecode
