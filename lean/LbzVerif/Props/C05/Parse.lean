/-
  C05 — header parser facts over the step function translated from parse.c on
  every run (`Gen.parseStep`, `Gen.parseAtEof`).

  * trailing-data rule: after a complete stream the parser is in
    STREAM_MAGIC_1; the remaining data is ignored (FINISH, success) exactly
    when it does not begin with the 16-bit words "BZ", "h1".."h9"; once a full
    header has been read the parser is committed: anything that is not a block
    header or an end-of-stream marker is ERR_HEADER, and end of input is
    ERR_EOF (never success);
  * every magic word is compared: a wrong word in any of the five magic
    states is ERR_HEADER;
  * end of input is success only between streams (or inside a partial
    "BZ" prefix), everywhere else ERR_EOF.
-/
import LbzVerif.Gen.Parse

namespace LbzVerif.Props.C05.Parse
open LbzVerif.Gen

/-- 16-bit word "BZ" and the range "h1".."h9". -/
def wBZ : Nat := 0x425A
def isLevelWord (w : Nat) : Bool := decide (0x6831 ≤ w ∧ w ≤ 0x6839)

theorem trailing_not_BZ_ignored (p : ParseSt) (w : Nat)
    (hs : p.state = PS_STREAM_MAGIC_1) (hw : w ≠ wBZ) :
    (parseStep p w).2 = some RV_FINISH ∧ (parseStep p w).1.garbage = 16 ∧
    (parseStep p w).1.state = PS_ACCEPT := by
  unfold parseStep
  have : (16986 : Nat) ≠ w := fun e => hw (by unfold wBZ; omega)
  simp [hs, PS_STREAM_MAGIC_1, this, RV_FINISH, PS_ACCEPT]

theorem trailing_BZ_continues (p : ParseSt)
    (hs : p.state = PS_STREAM_MAGIC_1) :
    (parseStep p wBZ).2 = none ∧ (parseStep p wBZ).1.state = PS_STREAM_MAGIC_2 := by
  unfold parseStep
  simp [hs, PS_STREAM_MAGIC_1, PS_STREAM_MAGIC_2, wBZ]

theorem trailing_BZ_nonlevel_ignored (p : ParseSt) (w : Nat)
    (hs : p.state = PS_STREAM_MAGIC_2) (hw : isLevelWord w = false) :
    (parseStep p w).2 = some RV_FINISH ∧ (parseStep p w).1.garbage = 32 ∧
    (parseStep p w).1.state = PS_ACCEPT := by
  unfold parseStep
  unfold isLevelWord at hw
  have h : (26681 < w ∨ 26673 > w) := by
    simp only [decide_eq_false_iff_not] at hw; omega
  simp [hs, PS_STREAM_MAGIC_2, PS_STREAM_MAGIC_1, h, RV_FINISH, PS_ACCEPT]

/-- A full "BZh1".."BZh9" header commits the parser to a new stream with that
    level. -/
theorem full_header_commits (p : ParseSt) (w : Nat)
    (hs : p.state = PS_STREAM_MAGIC_2) (hw : isLevelWord w = true) :
    (parseStep p w).2 = none ∧ (parseStep p w).1.state = PS_BLOCK_MAGIC_1 ∧
    (parseStep p w).1.bs100k = w &&& 15 := by
  unfold parseStep
  unfold isLevelWord at hw
  have h : ¬ (26681 < w ∨ 26673 > w) := by
    simp only [decide_eq_true_eq] at hw; omega
  simp [hs, PS_STREAM_MAGIC_2, PS_STREAM_MAGIC_1, PS_BLOCK_MAGIC_1, h]

/-- ... and the level is the digit. -/
theorem level_of_word (w : Nat) (hw : isLevelWord w = true) :
    1 ≤ w &&& 15 ∧ w &&& 15 ≤ 9 ∧ w &&& 15 = w - 0x6830 := by
  unfold isLevelWord at hw
  simp only [decide_eq_true_eq] at hw
  have : w = 0x6831 ∨ w = 0x6832 ∨ w = 0x6833 ∨ w = 0x6834 ∨ w = 0x6835 ∨
         w = 0x6836 ∨ w = 0x6837 ∨ w = 0x6838 ∨ w = 0x6839 := by omega
  rcases this with h | h | h | h | h | h | h | h | h <;> subst h <;> decide

/-- Magic words are all compared: in each of the five magic states the only
    words that do not produce ERR_HEADER are the expected ones. -/
theorem magic_enforced (p : ParseSt) (w : Nat) :
    (p.state = PS_BLOCK_MAGIC_1 → w ≠ 0x3141 → w ≠ 0x1772 →
        (parseStep p w).2 = some ERR_HEADER) ∧
    (p.state = PS_BLOCK_MAGIC_2 → w ≠ 0x5926 → (parseStep p w).2 = some ERR_HEADER) ∧
    (p.state = PS_BLOCK_MAGIC_3 → w ≠ 0x5359 → (parseStep p w).2 = some ERR_HEADER) ∧
    (p.state = PS_EOS_2 → w ≠ 0x4538 → (parseStep p w).2 = some ERR_HEADER) ∧
    (p.state = PS_EOS_3 → w ≠ 0x5090 → (parseStep p w).2 = some ERR_HEADER) := by
  refine ⟨?_, ?_, ?_, ?_, ?_⟩
  · intro hs h1 h2
    have a : (6002 : Nat) ≠ w := fun e => h2 (by omega)
    have b : (12609 : Nat) ≠ w := fun e => h1 (by omega)
    unfold parseStep; simp [hs, PS_BLOCK_MAGIC_1, a, b, ERR_HEADER]
  · intro hs h1
    have b : (22822 : Nat) ≠ w := fun e => h1 (by omega)
    unfold parseStep; simp [hs, PS_BLOCK_MAGIC_2, b, ERR_HEADER]
  · intro hs h1
    have b : (21337 : Nat) ≠ w := fun e => h1 (by omega)
    unfold parseStep; simp [hs, PS_BLOCK_MAGIC_3, b, ERR_HEADER]
  · intro hs h1
    have b : (17720 : Nat) ≠ w := fun e => h1 (by omega)
    unfold parseStep; simp [hs, PS_EOS_2, b, ERR_HEADER]
  · intro hs h1
    have b : (20624 : Nat) ≠ w := fun e => h1 (by omega)
    unfold parseStep; simp [hs, PS_EOS_3, b, ERR_HEADER]

/-- End of input: success only in STREAM_MAGIC_1 / STREAM_MAGIC_2 (between
    streams, possibly after a lone "BZ"); in every other state ERR_EOF. -/
theorem eof_rule (p : ParseSt) :
    ((parseAtEof p).2 = RV_FINISH ↔
        (p.state = PS_STREAM_MAGIC_1 ∨ p.state = PS_STREAM_MAGIC_2)) ∧
    ((parseAtEof p).2 ≠ RV_FINISH → (parseAtEof p).2 = ERR_EOF) := by
  unfold parseAtEof
  by_cases h1 : p.state = PS_STREAM_MAGIC_1
  · simp [h1, RV_FINISH]
  · by_cases h2 : p.state = PS_STREAM_MAGIC_2
    · simp [h1, h2, RV_FINISH, PS_STREAM_MAGIC_1, PS_STREAM_MAGIC_2]
    · simp [h1, h2, RV_FINISH, ERR_EOF]

/-- A committed stream (full header read, no block yet) that ends is an error,
    not trailing garbage. -/
theorem header_only_is_eof_error (p : ParseSt) (w : Nat)
    (hs : p.state = PS_STREAM_MAGIC_2) (hw : isLevelWord w = true) :
    (parseAtEof (parseStep p w).1).2 = ERR_EOF := by
  have h := (full_header_commits p w hs hw).2.1
  unfold parseAtEof
  simp [h, PS_BLOCK_MAGIC_1, PS_STREAM_MAGIC_1, PS_STREAM_MAGIC_2]

/-! non-vacuity -/
example : (parseStep { parserInit 9 false with state := PS_STREAM_MAGIC_1 } 0x1234).2
    = some RV_FINISH := by decide
example : isLevelWord 0x6835 = true ∧ isLevelWord 0x6830 = false ∧
    isLevelWord 0x683A = false := by decide

end LbzVerif.Props.C05.Parse
