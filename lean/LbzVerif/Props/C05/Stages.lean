/-
  C05 — the stage references agree, and the decoder's back end composed.

  The work packages wrote their references independently:
    W12  `Spec.Ibwt.ibwt` / `Spec.Ibwt.derand` (Model/Ibwt.lean, 2nd half),
         `Spec.UnRle1.unRle1` (Model/Emit.lean, 2nd half);
    W5   `Spec.Bzip2.ibwt` (counting sort) / `derand` / `unRle1` — the stages
         of the oracle `Spec.Bzip2.decodeBlock`;
    C04  `Spec.unRle1` (Spec/Rle1.lean).
  Here they are proved to be the same functions (`spec_ibwt_link`,
  `spec_derand_link`, `spec_unrle1_link`), so the per-stage theorems
  (`ibwt_sound`, `ibwt_sound_rand`, `emit_sound`, `emit_status_iff`) compose
  into ONE statement about the oracle's stages: `decode_emit_sound` (and
  `decode_emit_prefix` for the MORE case), and, for
  a parsed block whose MTF stage yields `tt`, about `Spec.Bzip2.decodeBlock`
  itself: `decodeBlock_of_stages`, `decode_emit_decodeBlock`.

  Lemmas: Lemmas/SpecStageLinkIbwt.lean, Lemmas/SpecStageLinkRle.lean.
-/
import LbzVerif.Props.C05.Ibwt
import LbzVerif.Props.C05.Emit
import LbzVerif.Lemmas.SpecStageLinkIbwt
import LbzVerif.Lemmas.SpecStageLinkRle
import LbzVerif.Basic.Crc

namespace LbzVerif.Props.C05

open LbzVerif
open LbzVerif.Model.Emit

/-- **spec_ibwt_link.**  The oracle's inverse BWT (counting-sort formulation
over arrays) is the textbook one (stable sort of the positions, follow the
successor vector) for every last column and every primary index below its
length; at or beyond the length the oracle rejects (`badOrigPtr`). -/
theorem spec_ibwt_link (l : Array UInt8) (idx : Nat) :
    Spec.Bzip2.ibwt l idx =
      if idx < l.size then some (Spec.Ibwt.ibwt l.toList idx).toArray else none :=
  Lemmas.SpecStageLinkIbwt.bzip2_ibwt_eq l idx

example : Spec.Bzip2.ibwt #[110, 110, 98, 97, 97, 97] 3 = some #[98, 97, 110, 97, 110, 97] ∧
    Spec.Ibwt.ibwt [110, 110, 98, 97, 97, 97] 3 = [98, 97, 110, 97, 110, 97] ∧
    Spec.Bzip2.ibwt #[110, 110, 98, 97, 97, 97] 6 = none := by
  decide +kernel

/-- **spec_derand_link.**  The oracle's derandomisation is W12's automaton over
the generated table. -/
theorem spec_derand_link (bs : Array UInt8) :
    (Spec.Bzip2.derand bs).toList = Spec.Ibwt.derand Gen.randTable bs.toList :=
  Lemmas.SpecStageLinkRle.bzip2_derand_eq bs

-- 620 bytes of value 5: exactly byte 617 is flipped (evaluated on the list-level reference)
example : ((Spec.Bzip2.derand (Array.replicate 620 5)).toList.zipIdx.filter
    (fun (b, _) => b != 5)) = [(4, 617)] := by
  rw [spec_derand_link]
  decide +kernel

/-- **spec_unrle1_link.**  Three definitions of the final run-length decoding
(W12's, the C04 package's, the oracle's) are one function; the oracle's only
rejection is `missingCount`, exactly where the other two return `none`. -/
theorem spec_unrle1_link (bs : Array UInt8) :
    Spec.UnRle1.unRle1 bs.toList = Spec.unRle1 bs.toList ∧
    Spec.Bzip2.unRle1 bs =
      (match Spec.UnRle1.unRle1 bs.toList with
       | none => .error .missingCount
       | some out => .ok out.toArray) :=
  ⟨Lemmas.SpecStageLinkRle.unRle1_eq_rle1 bs.toList, Lemmas.SpecStageLinkRle.bzip2_unRle1_eq bs⟩

example : Spec.Bzip2.unRle1 #[1, 2, 2, 2, 2] = .error .missingCount ∧
    Spec.unRle1 [1, 2, 2, 2, 2] = none ∧
    Spec.Bzip2.unRle1 #[1, 2, 2, 2, 2, 3] = .ok #[1, 2, 2, 2, 2, 2, 2, 2] ∧
    Spec.unRle1 [1, 2, 2, 2, 2, 3] = some [1, 2, 2, 2, 2, 2, 2, 2] := by decide +kernel

/-! ### Composition -/

/-- The oracle's stages after the MTF stage, on a retrieved block
`(tt, origPtr, rand)`: inverse BWT, derandomisation if flagged, final
run-length decoding.  (`Spec.Bzip2.decodeBlock` is this followed by the CRC
comparison — `decodeBlock_of_stages`.) -/
def specStages (rand : Bool) (idx : Nat) (tt : Array UInt8) :
    Except Spec.Bzip2.Reject (Array UInt8) :=
  match Spec.Bzip2.ibwt tt idx with
  | none => .error .badOrigPtr
  | some t => Spec.Bzip2.unRle1 (if rand then Spec.Bzip2.derand t else t)

/-- A parsed block for the example: level 1, alphabet {a, b, n}, symbols
`3 RUNA 3 3 RUNB` (MTF/RLE2 coding of the last column `nnbaaa`), primary
index 3, stored CRC = CRC of "banana". -/
def bananaBlock : Spec.Bzip2.Block :=
  { level := 1, startBit := 32, endBit := 0,
    storedCrc := (Basic.crc32Arr #[98, 97, 110, 97, 110, 97]).toNat,
    rand := false, origPtr := 3, used := [97, 98, 110], nGroups := 2, selectors := [0],
    tables := [], nSelectorsUsed := 1, syms := #[3, 0, 3, 3, 1] }

/-- **decodeBlock_of_stages.**  The oracle's `decodeBlock` is its MTF stage, the emptiness test,
`specStages` and the CRC comparison. -/
theorem decodeBlock_of_stages (b : Spec.Bzip2.Block) (tt : Array UInt8)
    (hmtf : Spec.Bzip2.unMtfRle2 b.used (Spec.Bzip2.blockCap b.level) b.syms.toList = .ok tt)
    (hne : tt.size ≠ 0) :
    Spec.Bzip2.decodeBlock b =
      match specStages b.rand b.origPtr tt with
      | .error e => .error e
      | .ok out =>
        if (Basic.crc32Arr out).toNat = b.storedCrc then .ok { nblock := tt.size, bytes := out }
        else .error .blockCrc := by
  unfold Spec.Bzip2.decodeBlock specStages
  simp only [hmtf, hne, if_false]
  cases Spec.Bzip2.ibwt tt b.origPtr <;> rfl

example : Spec.Bzip2.decodeBlock bananaBlock =
    match specStages bananaBlock.rand bananaBlock.origPtr #[110, 110, 98, 97, 97, 97] with
    | .error e => .error e
    | .ok out =>
      if (Basic.crc32Arr out).toNat = bananaBlock.storedCrc then
        .ok { nblock := (#[110, 110, 98, 97, 97, 97] : Array UInt8).size, bytes := out }
      else .error .blockCrc :=
  decodeBlock_of_stages bananaBlock #[110, 110, 98, 97, 97, 97] (by decide +kernel) (by simp)

/-- **specStages_eq.**  The oracle's stages in terms of W12's references (the three links
applied). -/
theorem specStages_eq (rand : Bool) (idx : Nat) (L : List UInt8) (hidx : idx < L.length) :
    specStages rand idx L.toArray =
      match Spec.UnRle1.unRle1 (if rand then Spec.Ibwt.derand Gen.randTable (Spec.Ibwt.ibwt L idx)
                                 else Spec.Ibwt.ibwt L idx) with
      | none => .error .missingCount
      | some out => .ok out.toArray := by
  unfold specStages
  rw [spec_ibwt_link]
  simp only [List.size_toArray, hidx, if_true]
  rw [(spec_unrle1_link _).2]
  cases rand with
  | false => simp
  | true =>
    simp only [if_true]
    rw [spec_derand_link]

example : specStages true 3 #[110, 110, 98, 97, 97, 97] = .ok #[98, 97, 110, 97, 110, 97] := by
  rw [show (#[110, 110, 98, 97, 97, 97] : Array UInt8) = [110, 110, 98, 97, 97, 97].toArray from rfl,
    specStages_eq true 3 _ (by decide)]
  decide +kernel

/-- **decode_emit_sound.**  `decode()` followed by any sequence of `emit()`
calls on a retrieved block `(L, idx, rand)` (`idx < |L|`, as `retrieve()`
guarantees; sizes below `0xFFFFFFFF`), against the oracle's stages
ibwt → derand → unRle1 → crc of the same block:
* OK ⇒ the oracle's stages accept, the bytes written over all calls are the
  oracle's plaintext, and `ds->crc` is the CRC the oracle compares with the
  stored block CRC;
* ERR_RUNLEN ⇒ the oracle's stages reject with `missingCount`;
* never `abort`;
* with enough output space the converse holds: OK iff the oracle's stages
  accept, ERR_RUNLEN iff they reject. -/
theorem decode_emit_sound (rand : Bool) (L : List UInt8) (idx : Nat) (hidx : idx < L.length)
    (hL : L.length < M1) (sizes : List Nat) (hs : ∀ z ∈ sizes, z < M1) :
    let r := run (St.init (Model.Ibwt.nodes rand idx L)) sizes
    (r.final = .ok →
        specStages rand idx L.toArray = .ok r.bytes.toArray ∧
        r.crc = Basic.crc32Arr r.bytes.toArray) ∧
    (r.final = .errRunlen → specStages rand idx L.toArray = .error .missingCount) ∧
    r.final ≠ .abort ∧
    ((Lemmas.Emit.unOut 0 0 (Model.Ibwt.nodes rand idx L)).length < sizes.sum →
        (r.final = .ok ↔ ∃ out, specStages rand idx L.toArray = .ok out) ∧
        (r.final = .errRunlen ↔ specStages rand idx L.toArray = .error .missingCount)) := by
  intro r
  -- what emit() reads
  have hnodes : Model.Ibwt.nodes rand idx L =
      (if rand then Spec.Ibwt.derand Gen.randTable (Spec.Ibwt.ibwt L idx)
       else Spec.Ibwt.ibwt L idx) := by
    cases rand with
    | false => simpa using ibwt_sound L idx hidx
    | true => simpa using ibwt_sound_rand L idx hidx
  have hlen : (Model.Ibwt.nodes rand idx L).length < M1 := by
    have : (Model.Ibwt.nodes rand idx L).length = L.length := by
      rw [hnodes]
      cases rand <;>
        simp [Spec.Ibwt.ibwt, Lemmas.IbwtRand.follow_length, Lemmas.IbwtDerand.derand_randTable,
          Lemmas.IbwtDerand.flipsGo_length]
    omega
  have hst := specStages_eq rand idx L hidx
  rw [← hnodes] at hst
  obtain ⟨e1, e2, e3, _⟩ := emit_sound (Model.Ibwt.nodes rand idx L) hlen sizes hs
  refine ⟨?_, ?_, e3, ?_⟩
  · intro hok
    obtain ⟨a1, a2⟩ := e1 hok
    rw [hst, a1]
    exact ⟨rfl, by rw [a2, Lemmas.SpecStageLinkRle.crc_link]⟩
  · intro herr
    rw [hst, e2 herr]
  · intro hbig
    obtain ⟨b1, b2⟩ := emit_status_iff (Model.Ibwt.nodes rand idx L) hlen sizes hs hbig
    rw [hst]
    constructor
    · rw [b1]
      cases Spec.UnRle1.unRle1 (Model.Ibwt.nodes rand idx L) <;> simp
    · rw [b2]
      cases Spec.UnRle1.unRle1 (Model.Ibwt.nodes rand idx L) <;> simp

-- concrete instance: L = nnbaaa, idx 3, not randomised, output cut into buffers of 2, 2, 50;
-- and a block whose text ends in four equal bytes: both sides reject
example :
    (run (St.init (Model.Ibwt.nodes false 3 [110, 110, 98, 97, 97, 97])) [2, 2, 50]).final = .ok ∧
    (run (St.init (Model.Ibwt.nodes false 3 [110, 110, 98, 97, 97, 97])) [2, 2, 50]).bytes =
      [98, 97, 110, 97, 110, 97] ∧
    (run (St.init (Model.Ibwt.nodes false 0 [7, 7, 7, 7])) [50]).final = .errRunlen := by
  decide +kernel

example :
    specStages false 3 [110, 110, 98, 97, 97, 97].toArray = .ok #[98, 97, 110, 97, 110, 97] ∧
    specStages false 0 [7, 7, 7, 7].toArray = .error .missingCount := by
  rw [specStages_eq _ _ _ (by decide), specStages_eq _ _ _ (by decide)]
  decide +kernel

/-- **decode_emit_decodeBlock.**  The same, stated about the oracle's
`decodeBlock` of a parsed block `b` whose MTF stage yields the (non-empty)
block `tt` with `origPtr < |tt|`: what `decode()` + `emit()` + lbzip2's CRC
comparison (`ds->crc` against the stored block CRC) conclude is what the
oracle concludes — same plaintext on acceptance, `blockCrc` on a CRC mismatch,
`missingCount` on ERR_RUNLEN. -/
theorem decode_emit_decodeBlock (b : Spec.Bzip2.Block) (tt : Array UInt8)
    (hmtf : Spec.Bzip2.unMtfRle2 b.used (Spec.Bzip2.blockCap b.level) b.syms.toList = .ok tt)
    (hidx : b.origPtr < tt.size) (hL : tt.size < M1) (sizes : List Nat)
    (hs : ∀ z ∈ sizes, z < M1) :
    let r := run (St.init (Model.Ibwt.nodes b.rand b.origPtr tt.toList)) sizes
    (r.final = .ok → r.crc.toNat = b.storedCrc →
        Spec.Bzip2.decodeBlock b = .ok { nblock := tt.size, bytes := r.bytes.toArray }) ∧
    (r.final = .ok → r.crc.toNat ≠ b.storedCrc →
        Spec.Bzip2.decodeBlock b = .error .blockCrc) ∧
    (r.final = .errRunlen → Spec.Bzip2.decodeBlock b = .error .missingCount) := by
  intro r
  have hne : tt.size ≠ 0 := by omega
  have hd := decodeBlock_of_stages b tt hmtf hne
  obtain ⟨c1, c2, _, _⟩ := decode_emit_sound b.rand tt.toList b.origPtr (by simpa using hidx)
    (by simpa using hL) sizes hs
  rw [Array.toArray_toList] at c1 c2
  refine ⟨?_, ?_, ?_⟩
  · intro hok hcrc
    obtain ⟨a1, a2⟩ := c1 hok
    rw [hd, a1]
    have : (Basic.crc32Arr r.bytes.toArray).toNat = b.storedCrc := by rw [← a2]; exact hcrc
    exact if_pos this
  · intro hok hcrc
    obtain ⟨a1, a2⟩ := c1 hok
    rw [hd, a1]
    have : ¬ (Basic.crc32Arr r.bytes.toArray).toNat = b.storedCrc := by rw [← a2]; exact hcrc
    exact if_neg this
  · intro herr
    rw [hd, c2 herr]

example :
    Spec.Bzip2.unMtfRle2 bananaBlock.used (Spec.Bzip2.blockCap bananaBlock.level)
      bananaBlock.syms.toList = .ok #[110, 110, 98, 97, 97, 97] ∧
    (run (St.init (Model.Ibwt.nodes false 3 [110, 110, 98, 97, 97, 97])) [4, 4]).final = .ok ∧
    (run (St.init (Model.Ibwt.nodes false 3 [110, 110, 98, 97, 97, 97])) [4, 4]).crc.toNat =
      bananaBlock.storedCrc ∧
    (run (St.init (Model.Ibwt.nodes false 3 [110, 110, 98, 97, 97, 97])) [4, 4]).bytes =
      [98, 97, 110, 97, 110, 97] := by
  decide +kernel

/-- **decode_emit_prefix.**  If the output space runs out first (last call
returned MORE) and the oracle's stages accept the block, the bytes written so
far are a prefix of the oracle's plaintext. -/
theorem decode_emit_prefix (rand : Bool) (L : List UInt8) (idx : Nat) (hidx : idx < L.length)
    (hL : L.length < M1) (sizes : List Nat) (hs : ∀ z ∈ sizes, z < M1) (out : Array UInt8)
    (hacc : specStages rand idx L.toArray = .ok out)
    (hmore : (run (St.init (Model.Ibwt.nodes rand idx L)) sizes).final = .more) :
    ∃ rest, out.toList = (run (St.init (Model.Ibwt.nodes rand idx L)) sizes).bytes ++ rest := by
  have hnodes : Model.Ibwt.nodes rand idx L =
      (if rand then Spec.Ibwt.derand Gen.randTable (Spec.Ibwt.ibwt L idx)
       else Spec.Ibwt.ibwt L idx) := by
    cases rand with
    | false => simpa using ibwt_sound L idx hidx
    | true => simpa using ibwt_sound_rand L idx hidx
  have hlen : (Model.Ibwt.nodes rand idx L).length < M1 := by
    have : (Model.Ibwt.nodes rand idx L).length = L.length := by
      rw [hnodes]
      cases rand <;>
        simp [Spec.Ibwt.ibwt, Lemmas.IbwtRand.follow_length, Lemmas.IbwtDerand.derand_randTable,
          Lemmas.IbwtDerand.flipsGo_length]
    omega
  have hst := specStages_eq rand idx L hidx
  rw [← hnodes, hacc] at hst
  obtain ⟨_, _, _, e4⟩ := emit_sound (Model.Ibwt.nodes rand idx L) hlen sizes hs
  obtain ⟨rest, hr⟩ := e4 hmore
  refine ⟨rest, ?_⟩
  rw [← hr]
  unfold Spec.UnRle1.unRle1 at hst
  rw [Lemmas.Emit.go_eq] at hst
  by_cases hb : Lemmas.Emit.unBad 0 0 (Model.Ibwt.nodes rand idx L) = true
  · simp [hb] at hst
  · simp [hb] at hst
    rw [hst]

example :
    (run (St.init (Model.Ibwt.nodes false 3 [110, 110, 98, 97, 97, 97])) [2, 2]).final = .more ∧
    (run (St.init (Model.Ibwt.nodes false 3 [110, 110, 98, 97, 97, 97])) [2, 2]).bytes =
      [98, 97, 110, 97] := by
  decide +kernel

end LbzVerif.Props.C05
